(* C32/ProofsNeverTwiceProcess.v — FullSyncStrategy.Process RE-RUN over the refined pruning block
   state of ProofsNeverTwice.v (`penv`: ancestor paths, tree root, BlockTree.AddBlock's
   parent-in-tree refusal), and the combined theorem: for every history (the `tstep` histories of
   ModelPrune.v / C32_pruning_parents_first_provenance) the run does not panic, parents come first
   (no EOrphan, no EDup), every import has its provenance, AND the hashes ever stored - by Process
   or through a header that reached the block state from elsewhere - are pairwise distinct.

   Definitions first (nothing is extracted):
   - p_import_all    = ModelPrune.import_all_t over penv;
   - process_x       = ModelPrune.process_t with the importer replaced by p_import_all; the two
                       fragment loops are ModelPrune's own split_known_t / second_round_t, run on
                       the erased environment (they only ask HasHeader and the finalised number);
   - do_xstep/run_x  = ModelPrune.do_tstep/run_t over penv.  TKnown h (a header reaches the block
                       state from elsewhere) goes through AddBlock too: it is one importer call for
                       the block (h, body, no justification); TFinalise f is pfinalise.
   Then the proofs (process_never_twice).

   Last part: the importer refinement of ProofsNeverTwice.v (sim_import_block) extended to blocks
   WITH a justification (importer_refines_with_justification): in every state reached from the
   genesis the stored paths have the shape `pathinv`, under which ModelPrune's fuel-bounded
   ancestor closure of a stored block is its stored path (+ the genesis' parent hash), so that
   erase (pfinalise e fb n) = finalise true (erase e) (pb_hash fb) n for a tree block fb. *)
From Coq Require Import NArith ZArith List Bool Lia Permutation.
From Common Require Import Outcome.
From C32 Require Import Gen Model ModelSpec ModelPrune ProofsChain ProofsImport ProofsProcess
  ProofsHistory ProofsPrune ProofsNeverTwice.
Import ListNotations.
Local Open Scope N_scope.

(* ---------------------------------------------------------------- definitions *)
Fixpoint p_import_all (e : penv) (l : list bdata) : list pevent * penv * bool :=
  match l with
  | [] => ([], e, false)
  | b :: r =>
    match p_import_block e b with
    | (ev, e1, true) => (ev, e1, true)
    | (ev, e1, false) =>
      match p_import_all e1 r with (ev2, e2, err) => (ev ++ ev2, e2, err) end
    end
  end.

Record xstate := mkxs { xs_env : penv; xs_un : unready; xs_queue : list qreq }.
Record xresult := mkxr {
  xr_state : xstate; xr_events : list pevent; xr_error : bool;
  xr_reps : list (N * N); xr_bans : list N
}.

(* Process from the first import on (ModelPrune.process_t, the `| _, _ =>` branch) *)
Definition process_x_tail (st : xstate) (u1 : unready) (v : validated)
  (next : list bdata) (dis : list (list bdata)) : outcome xresult :=
  match p_import_all (xs_env st) next with
  | (ev1, e1, true) => Ok (mkxr (mkxs e1 u1 (xs_queue st)) ev1 true [] [])
  | (ev1, e1, false) =>
    match second_round_t (erase e1) dis u1 (xs_queue st) [] with
    | Ok (u2, q2, next2) =>
      match next2 with
      | [] => Ok (mkxr (mkxs e1 (remove_irrelevant u2 (pe_fin e1)) q2) ev1 false (v_reps v) (v_bans v))
      | _ =>
        match p_import_all e1 next2 with
        | (ev2, e2, true) => Ok (mkxr (mkxs e2 u2 q2) (ev1 ++ ev2) true [] [])
        | (ev2, e2, false) =>
          Ok (mkxr (mkxs e2 (remove_irrelevant u2 (pe_fin e2)) q2) (ev1 ++ ev2) false
                   (v_reps v) (v_bans v))
        end
      end
    | Err c => Err c | Panic => Panic | OutOfFuel => OutOfFuel
    end
  end.

Definition process_x (srt : list (list bdata) -> list (list bdata))
  (bad : list N) (st : xstate) (rs : list result) : outcome xresult :=
  match validate_results true true true bad rs (mkval [] [] []) with
  | Ok v =>
    match collect_ready true (pe_fin (xs_env st)) (xs_un st) (v_ok v) [] with
    | Ok (u1, ready) =>
      match sort_fragments_with srt ready with
      | Ok sorted =>
        match merge_fragments sorted with
        | Ok ordered =>
          match split_known_t (erase (xs_env st)) ordered [] [] with
          | Ok (next, dis) =>
            match next, dis with
            | [], [] =>
              Ok (mkxr (mkxs (xs_env st) (remove_irrelevant u1 (pe_fin (xs_env st))) (xs_queue st))
                       [] false (v_reps v) (v_bans v))
            | _, _ => process_x_tail st u1 v next dis
            end
          | Err c => Err c | Panic => Panic | OutOfFuel => OutOfFuel
          end
        | Err c => Err c | Panic => Panic | OutOfFuel => OutOfFuel
        end
      | Err c => Err c | Panic => Panic | OutOfFuel => OutOfFuel
      end
    | Err c => Err c | Panic => Panic | OutOfFuel => OutOfFuel
    end
  | Err c => Err c | Panic => Panic | OutOfFuel => OutOfFuel
  end.

(* what one step of a history puts out *)
Inductive xout :=
| XNone                               (* TAnnounce, TFinalise *)
| XRes (r : xresult)                  (* TProcess, TAnnounceMsg *)
| XKnown (evs : list pevent).         (* TKnown: the events of the AddBlock from elsewhere *)

Definition known_block (h : header) : bdata := mkbd (h_hash h) (Some h) true false.

Definition do_xstep (srt : list (list bdata) -> list (list bdata)) (bad : list N)
  (st : xstate) (s : tstep) : outcome (xstate * xout) :=
  match s with
  | TAnnounce h => Ok (mkxs (xs_env st) (new_incomplete (xs_un st) h) (xs_queue st), XNone)
  | TAnnounceMsg who h best =>
    let r := announce_t bad (mkts (erase (xs_env st)) (xs_un st) (xs_queue st)) who h best in
    let st' := mkxs (xs_env st) (ts_un (tr_state r)) (ts_queue (tr_state r)) in
    Ok (st', XRes (mkxr st' [] false (tr_reps r) (tr_bans r)))
  | TKnown h =>
    match p_import_block (xs_env st) (known_block h) with
    | (ev, e1, _) => Ok (mkxs e1 (xs_un st) (xs_queue st), XKnown ev)
    end
  | TFinalise f =>
    Ok (mkxs (match pfind (xs_env st) f with
              | Some fb => pfinalise (xs_env st) fb (pb_number fb)
              | None => xs_env st
              end) (xs_un st) (xs_queue st), XNone)
  | TProcess rs =>
    match process_x srt bad st rs with
    | Ok r => Ok (xr_state r, XRes r)
    | Err c => Err c | Panic => Panic | OutOfFuel => OutOfFuel
    end
  end.

Fixpoint run_x (srt : list (list bdata) -> list (list bdata)) (bad : list N)
  (st : xstate) (h : list tstep) : list xout * bool * xstate :=
  match h with
  | [] => ([], false, st)
  | s :: r =>
    match do_xstep srt bad st s with
    | Ok (st', o) => match run_x srt bad st' r with (os, p, stf) => (o :: os, p, stf) end
    | _ => ([], true, st)
    end
  end.

Definition init_xstate (root gp : N) : xstate := mkxs (pinit root gp) (mkun [] []) [].

(* the events of the Process calls / of everything that reached the block state *)
Definition out_proc (o : xout) : list pevent := match o with XRes r => xr_events r | _ => [] end.
Definition out_all (o : xout) : list pevent :=
  match o with XRes r => xr_events r | XKnown ev => ev | XNone => [] end.
Definition x_proc_events (outs : list xout) : list pevent := flat_map out_proc outs.
Definition x_all_events (outs : list xout) : list pevent := flat_map out_all outs.

Definition pfine (e : pevent) : Prop :=
  match e with PE (EOrphan _) | PE (EDup _) => False | _ => True end.

(* the header-hash assumption of C32_never_twice_under_pruning, for one header *)
Definition hdr_par (par : N -> N) (gp : N) (h : header) : Prop :=
  h_parent h = par (h_hash h) /\ h_hash h <> gp.
Definition blk_par (par : N -> N) (gp : N) (b : bdata) : Prop :=
  forall h, d_header b = Some h -> hdr_par par gp h.

(* every header a history mentions (announced, known from elsewhere, in any response) *)
Definition history_par (par : N -> N) (gp : N) (steps : list tstep) : Prop :=
  forall s, In s steps ->
    match s with
    | TAnnounce h | TAnnounceMsg _ h _ | TKnown h => hdr_par par gp h
    | TFinalise _ => True
    | TProcess rs => forall r b, In r rs -> In b (r_resp r) -> blk_par par gp b
    end.

(* ---------------------------------------------------------------- tracking two block predicates
   through the stages: Qi holds of the incomplete blocks, Q of everything else *)
Section Track.
  Variables Qi Q : bdata -> Prop.
  Hypothesis mix : forall x b, Qi x -> Q b -> d_hash x = d_hash b ->
    Q (mkbd (d_hash x) (d_header x) (d_body b) (d_just b)).

  Lemma validate_Q bad rs : forall acc v,
    validate_results true true true bad rs acc = Ok v ->
    (forall p, In p (v_ok acc) -> Forall Q (snd p)) ->
    (forall r q resp, In r rs -> classify true true true bad r = VAccept q resp -> Forall Q resp) ->
    forall p, In p (v_ok v) -> Forall Q (snd p).
  Proof.
    induction rs as [|r rs IH]; intros acc v E A H; cbn [validate_results] in E.
    - injection E as <-. exact A.
    - assert (H' : forall r0 q resp, In r0 rs -> classify true true true bad r0 = VAccept q resp -> Forall Q resp)
        by (intros; eapply H; [right|]; eauto).
      destruct (classify true true true bad r) as [|c| |q resp|] eqn:C; try discriminate;
        try (eapply IH; eauto; fail).
      eapply IH; [exact E| |exact H']. cbn [v_ok]. intros p Hp. apply in_app_or in Hp.
      destruct Hp as [Hp|[<-|[]]]; [now apply A|]. cbn [snd]. eapply H; [now left|exact C].
  Qed.

  Lemma update_incomplete_Q chain : forall inc, Forall Qi inc -> Forall Q chain ->
    Forall Q (fst (update_incomplete inc chain)) /\ Forall Qi (snd (update_incomplete inc chain)).
  Proof.
    induction chain as [|b chain IH]; intros inc Fi F; cbn [update_incomplete]; [split; [constructor|exact Fi]|].
    inversion F as [|? ? Fb Fc]; subst.
    destruct (find (fun x => d_hash x =? d_hash b) inc) as [x|] eqn:Fd; [|now apply IH].
    assert (Fi' : Forall Qi (filter (fun y => negb (d_hash y =? d_hash b)) inc)).
    { apply Forall_forall. intros y Hy. apply filter_In in Hy. rewrite Forall_forall in Fi. apply Fi. tauto. }
    specialize (IH _ Fi' Fc).
    destruct (update_incomplete (filter (fun y => negb (d_hash y =? d_hash b)) inc) chain) as [cs inc'].
    cbn [fst snd] in *. destruct IH as [I1 I2]. split; [|exact I2]. constructor; [|exact I1].
    apply find_some in Fd. destruct Fd as [Fx Fd]. apply N.eqb_eq in Fd.
    apply mix; [|exact Fb|exact Fd]. rewrite Forall_forall in Fi. now apply Fi.
  Qed.

  Lemma valid_under_Q fin l : Forall Q l -> Forall Q (valid_under fin l).
  Proof.
    intro F. apply Forall_forall. intros b Hb. rewrite Forall_forall in F. apply F.
    eapply valid_under_incl; eauto.
  Qed.

  Lemma update_disjoint_Q u resp o u' : update_disjoint u resp = Ok (o, u') ->
    Forall Q resp -> Forall (Forall Q) (u_disjoint u) ->
    Forall (Forall Q) (u_disjoint u') /\ match o with Some f => Forall Q f | None => True end
    /\ u_incomplete u' = u_incomplete u.
  Proof.
    unfold update_disjoint. intros E F D.
    destruct (find_connect _ (u_disjoint u) 0) as [[i|]| | |]; try discriminate; injection E as <- <-.
    - split; [cbn [u_disjoint]; now apply Forall_remove_nth|]. split; [|reflexivity].
      apply Forall_app. split; [exact F|].
      destruct (Nat.lt_ge_cases i (length (u_disjoint u))) as [L|L].
      + now apply Forall_nth_default.
      + rewrite nth_overflow by exact L. constructor.
    - auto.
  Qed.

  Lemma collect_ready_Q fin0 vs : forall u ready u' ready',
    collect_ready true fin0 u vs ready = Ok (u', ready') ->
    (forall p, In p vs -> Forall Q (snd p)) ->
    Forall Qi (u_incomplete u) -> Forall (Forall Q) (u_disjoint u) -> Forall (Forall Q) ready ->
    Forall Qi (u_incomplete u') /\ Forall (Forall Q) (u_disjoint u') /\ Forall (Forall Q) ready'.
  Proof.
    induction vs as [|[q resp] vs IH]; intros u ready u' ready' E V Fi D R; cbn [collect_ready] in E.
    - injection E as <- <-. auto.
    - assert (Fr : Forall Q resp) by (apply (V (q, resp)); now left).
      assert (V' : forall p, In p vs -> Forall Q (snd p)) by (intros; apply V; now right).
      destruct (req_field q f_header).
      + destruct (update_disjoint u resp) as [[o u1]| | |] eqn:EU; try discriminate.
        destruct (update_disjoint_Q _ _ _ _ EU Fr D) as (D1 & Fo & Ei). rewrite <- Ei in Fi.
        destruct o as [frag|].
        * eapply IH; [exact E|exact V'|exact Fi|exact D1|].
          pose proof (valid_under_Q fin0 frag Fo) as Fv.
          destruct (valid_under fin0 frag); [exact R|]. apply Forall_app. split; auto.
        * eapply IH; [exact E|exact V'|exact Fi|exact D1|]. apply Forall_app. split; auto.
      + pose proof (update_incomplete_Q resp (u_incomplete u) Fi Fr) as [Fc Fi'].
        destruct (update_incomplete (u_incomplete u) resp) as [cs inc'] eqn:EU. cbn [fst snd] in Fc, Fi'.
        eapply IH; [exact E|exact V'|exact Fi'|exact D|]. apply Forall_app. split; [exact R|].
        apply Forall_forall. intros f Hf. apply in_map_iff in Hf. destruct Hf as (c & <- & Hc).
        rewrite Forall_forall in Fc. constructor; auto.
  Qed.

  Lemma merge_loop_Q rest : forall merged cur m,
    merge_loop merged cur rest = Ok m ->
    Forall (Forall Q) merged -> Forall Q cur -> Forall (Forall Q) rest -> Forall (Forall Q) m.
  Proof.
    induction rest as [|f rest IH]; intros merged cur m E M C R; cbn [merge_loop] in E.
    - injection E as <-. apply Forall_app. auto.
    - inversion R as [|? ? Rf Rr]; subst.
      destruct (last (map Some cur) None) as [lb|]; [|discriminate].
      destruct f as [|fb fr]; [discriminate|].
      destruct (is_parent lb fb) as [[|]|]; try discriminate.
      + eapply IH; [exact E|exact M| |exact Rr]. apply Forall_app. auto.
      + eapply IH; [exact E| |exact Rf|exact Rr]. apply Forall_app. auto.
  Qed.

  Lemma merge_Q l m : merge_fragments l = Ok m -> Forall (Forall Q) l -> Forall (Forall Q) m.
  Proof.
    destruct l as [|f l]; cbn [merge_fragments]; intros E F; [injection E as <-; constructor|].
    inversion F; subst. eapply merge_loop_Q; eauto.
  Qed.

  Lemma remove_irrelevant_Q u fin :
    Forall Qi (u_incomplete u) -> Forall (Forall Q) (u_disjoint u) ->
    Forall Qi (u_incomplete (remove_irrelevant u fin))
    /\ Forall (Forall Q) (u_disjoint (remove_irrelevant u fin)).
  Proof.
    intros Fi D. cbn [remove_irrelevant u_disjoint u_incomplete]. split.
    - apply Forall_forall. intros b Hb. apply filter_In in Hb. rewrite Forall_forall in Fi. apply Fi. tauto.
    - apply Forall_forall. intros f Hf.
      apply filter_In in Hf. destruct Hf as [Hf _]. apply in_map_iff in Hf. destruct Hf as (g & <- & Hg).
      rewrite Forall_forall in D. specialize (D g Hg). apply Forall_forall. intros b Hb.
      rewrite Forall_forall in D. apply D. eapply cut_fragment_incl; eauto.
  Qed.

  Lemma FF_concat (l : list (list bdata)) : Forall (Forall Q) l -> forall b, In b (concat l) -> Q b.
  Proof.
    intros F b Hb. apply in_concat in Hb. destruct Hb as (f & Hf & Hb). rewrite Forall_forall in F.
    specialize (F f Hf). rewrite Forall_forall in F. auto.
  Qed.

  Lemma concat_FF (l : list (list bdata)) : (forall b, In b (concat l) -> Q b) -> Forall (Forall Q) l.
  Proof.
    intro H. apply Forall_forall. intros f Hf. apply Forall_forall. intros b Hb. apply H.
    apply in_concat. eauto.
  Qed.
End Track.

(* ---------------------------------------------------------------- the importer over a fed list *)
(* the blocks of l are good and each one's parent is in K or is an earlier block of l *)
Inductive feed (K : N -> Prop) : list bdata -> Prop :=
| feed_nil : feed K []
| feed_cons b h l : d_header b = Some h -> h_hash h = d_hash b -> d_body b = true ->
    K (h_parent h) -> feed (fun x => K x \/ x = d_hash b) l -> feed K (b :: l).

Lemma feed_mono K l : feed K l -> forall K' : N -> Prop, (forall x, K x -> K' x) -> feed K' l.
Proof.
  intro F. induction F as [|K b h l Hh Hm Hb Hk F IH]; intros K' HK; [constructor|].
  econstructor; eauto. apply IH. intros x [Hx|Hx]; auto.
Qed.

Lemma chain_feed l : chain_ok l -> forall (K : N -> Prop) rest,
  match l with
  | b :: _ => match d_header b with Some h => K (h_parent h) | None => False end
  | [] => True
  end -> feed K rest -> feed K (l ++ rest).
Proof.
  intro C. induction C as [|b G|a b l G P C IH]; intros K rest F R.
  - exact R.
  - destruct G as (h & Hh & Hm & Hb). rewrite Hh in F. cbn [app].
    econstructor; eauto. eapply feed_mono; [exact R|]. auto.
  - destruct G as (h & Hh & Hm & Hb). rewrite Hh in F. cbn [app].
    econstructor; eauto. apply (IH (fun x => K x \/ x = d_hash a)).
    + unfold is_parent in P. rewrite Hh in P. destruct (d_header b) as [hb|]; [|discriminate].
      injection P as P. apply andb_prop in P. destruct P as [_ P]. apply N.eqb_eq in P. now right.
    + eapply feed_mono; [exact R|]. auto.
Qed.

Lemma importable_feed e l : importable_t e l -> feed (fun x => tever e x = true) l.
Proof.
  intro H. induction H as [|f rest b h C Ef Hh K Hr IH]; [constructor|].
  apply chain_feed; [exact C| |exact IH]. rewrite Ef, Hh. exact K.
Qed.

Definition ext (e : penv) (evs : list pevent) (e' : penv) : Prop :=
  pe_ever e' = rev (pimports evs) ++ pe_ever e.

Lemma ext_refl e : ext e [] e.
Proof. reflexivity. Qed.

Lemma ext_trans e a e1 b e2 : ext e a e1 -> ext e1 b e2 -> ext e (a ++ b) e2.
Proof.
  unfold ext. intros H1 H2. rewrite H2, H1, pimports_app, rev_app_distr, app_assoc. reflexivity.
Qed.

Lemma step_spec_facts s e ev e1 : step_spec s e ev e1 -> NoDup (pe_ever e) ->
  NoDup (pe_ever e1) /\ ext e ev e1 /\ (forall x, pever e x = true -> pever e1 x = true)
  /\ (forall x, In x (pimports ev) -> x = s).
Proof.
  unfold ext, pever. intros [[P E]|(P & E & Nn)] ND; rewrite P, E; cbn [rev app].
  - split; [exact ND|]. split; [reflexivity|]. split; [auto|intros x []].
  - split; [constructor; auto|]. split; [reflexivity|]. split.
    + intros x Hx. apply memN_In. right. now apply memN_In.
    + intros x [<-|[]]. reflexivity.
Qed.

Lemma pfind_padd_self e k : pfind (padd e k) (pb_hash k) = Some k.
Proof. unfold pfind, padd. cbn [pe_known find]. now rewrite N.eqb_refl. Qed.

Lemma pever_padd_self e k : pever (padd e k) (pb_hash k) = true.
Proof. unfold pever, padd, memN. cbn [pe_ever existsb]. now rewrite N.eqb_refl. Qed.

(* one good block whose parent has been stored: never EOrphan, never EDup; stored afterwards *)
Lemma p_block_fine e b h evs e' err :
  p_import_block e b = (evs, e', err) ->
  d_header b = Some h -> h_hash h = d_hash b -> d_body b = true ->
  pever e (h_parent h) = true -> tenv_ok (erase e) ->
  Forall pfine evs /\ (err = false -> pever e' (d_hash b) = true).
Proof.
  intros E Hh Hm Hb Hk T. unfold p_import_block in E. destruct (pknows e (d_hash b)) eqn:K.
  - injection E as <- <- <-. split; [repeat constructor|]. intros _.
    rewrite <- erase_ever. apply T. now rewrite erase_knows.
  - rewrite Hh in E. unfold p_body in E. rewrite Hb in E.
    destruct (pfind e (h_parent h)) as [pk|] eqn:F.
    + destruct (in_tree e pk); cbn [negb] in E.
      * rewrite Hm, K in E.
        set (nb := mkpb (d_hash b) (h_parent h) (h_number h) (d_hash b :: pb_path pk)) in *.
        destruct (d_just b).
        -- change (d_hash b) with (pb_hash nb) in E at 2. rewrite pfind_padd_self in E.
           injection E as <- <- <-. split; [repeat constructor|]. intros _.
           unfold pever. rewrite pfinalise_ever. exact (pever_padd_self e nb).
        -- injection E as <- <- <-. split; [repeat constructor|]. intros _.
           exact (pever_padd_self e nb).
      * injection E as <- <- <-. split; [repeat constructor|discriminate].
    + rewrite Hk in E. injection E as <- <- <-. split; [repeat constructor|discriminate].
Qed.

Section Import.
  Variable par : N -> N.
  Variable root0 : N.

  Definition einv (e : penv) : Prop := pinv par root0 e /\ NoDup (pe_ever e).

  Lemma pinv_tenv_ok e : pinv par root0 e -> tenv_ok (erase e).
  Proof.
    intros I h H. rewrite erase_knows in H. apply pknows_In in H. destruct H as (k & Hk & <-).
    rewrite erase_ever. apply memN_In.
    eapply (iEV par root0 _ _ _ I k); [exact Hk|]. exact (iH par root0 _ _ _ I k Hk).
  Qed.

  Lemma block_ok_of b h : d_header b = Some h -> h_hash h = d_hash b ->
    blk_par par (par root0) b -> block_ok par root0 b.
  Proof.
    intros Hh Hm Q h' Hh'. rewrite Hh in Hh'. injection Hh' as <-.
    destruct (Q h Hh) as [A B]. auto.
  Qed.

  Lemma p_import_all_ok (K : N -> Prop) l : feed K l -> forall e evs e' err,
    (forall x, K x -> pever e x = true) -> einv e -> Forall (blk_par par (par root0)) l ->
    p_import_all e l = (evs, e', err) ->
    einv e' /\ ext e evs e' /\ Forall pfine evs
    /\ (forall s, In s (pimports evs) -> exists b, In b l /\ d_hash b = s).
  Proof.
    intro F. induction F as [|K b h l Hh Hm Hb Hk F IH]; intros e evs e' err HK [I ND] Q E.
    - cbn [p_import_all] in E. injection E as <- <- <-. split; [split; auto|].
      split; [apply ext_refl|]. split; [constructor|intros s []].
    - inversion Q as [|? ? Qb Ql]; subst. cbn [p_import_all] in E.
      destruct (p_import_block e b) as [[ev e1] er] eqn:EB.
      destruct (p_import_block_ok par root0 e b ev e1 er I (block_ok_of b h Hh Hm Qb) EB) as [I1 S1].
      destruct (step_spec_facts _ _ _ _ S1 ND) as (ND1 & X1 & M1 & P1).
      destruct (p_block_fine e b h ev e1 er EB Hh Hm Hb (HK _ Hk) (pinv_tenv_ok e I)) as [Fi1 St1].
      assert (PV1 : forall s, In s (pimports ev) -> exists x, In x (b :: l) /\ d_hash x = s).
      { intros s Hs. exists b. split; [now left|]. symmetry. now apply P1. }
      destruct er.
      + injection E as <- <- <-. split; [split; auto|]. auto.
      + destruct (p_import_all e1 l) as [[ev2 e2] er2] eqn:EA. injection E as <- <- <-.
        destruct (IH e1 ev2 e2 er2) as (I2 & X2 & Fi2 & P2); auto.
        { intros x [Hx| ->]; [apply M1; now apply HK|now apply St1]. }
        { split; auto. }
        split; [exact I2|]. split; [eapply ext_trans; eauto|]. split; [apply Forall_app; auto|].
        intros s Hs. rewrite pimports_app in Hs. apply in_app_or in Hs. destruct Hs as [Hs|Hs]; [auto|].
        destruct (P2 s Hs) as (x & Hx & Ex). exists x. split; [now right|exact Ex].
  Qed.
End Import.

(* ---------------------------------------------------------------- one Process call *)
Definition QS (S : N -> Prop) (par : N -> N) (gp : N) (b : bdata) : Prop :=
  S (d_hash b) /\ blk_par par gp b.

Lemma mix_QS S par gp : forall x b, blk_par par gp x -> QS S par gp b -> d_hash x = d_hash b ->
  QS S par gp (mkbd (d_hash x) (d_header x) (d_body b) (d_just b)).
Proof.
  intros x b Hx [Hs _] E. split; cbn [d_hash].
  - rewrite E. exact Hs.
  - intros h Hh. cbn [d_header] in Hh. now apply Hx.
Qed.

Lemma classify_accept_incl bad r q resp :
  classify true true true bad r = VAccept q resp -> forall b, In b resp -> In b (r_resp r).
Proof.
  unfold classify. destruct (negb (r_completed r)); [discriminate|].
  set (q0 := r_req r). set (resp0 := if q_dir q0 =? dir_desc then rev (r_resp r) else r_resp r).
  assert (Hin : forall b, In b resp0 -> In b (r_resp r)).
  { unfold resp0. destruct (q_dir q0 =? dir_desc); intros b Hb; [now apply in_rev|exact Hb]. }
  clearbody resp0. destruct (validate_fields true q0 resp0) as [[| |]|] eqn:V; try discriminate.
  intro H.
  assert (E : resp = resp0).
  { destruct (if req_field q0 f_header then is_chain resp0 else Some true) as [[|]|]; try discriminate.
    destruct (find (is_bad bad) resp0) as [b|]; [destruct (d_header b); discriminate|].
    destruct (true && _); [discriminate|]. now injection H. }
  subst resp. exact Hin.
Qed.

Section Proc.
  Variable par : N -> N.
  Variable root0 : N.
  Variable S : N -> Prop.
  Notation gp := (par root0).
  Notation Qi := (blk_par par (par root0)).
  Notation Q := (QS S par (par root0)).

  Definition inv_x (st : xstate) : Prop :=
    inv_un (xs_un st) /\ einv par root0 (xs_env st)
    /\ Forall Qi (u_incomplete (xs_un st)) /\ Forall (Forall Q) (u_disjoint (xs_un st)).

  Definition res_ok (e : penv) (r : xresult) : Prop :=
    Forall pfine (xr_events r) /\ inv_x (xr_state r)
    /\ ext e (xr_events r) (xs_env (xr_state r))
    /\ (forall s, In s (pimports (xr_events r)) -> S s).

  Lemma tail_ok st u1 v next dis :
    einv par root0 (xs_env st) -> inv_un u1 ->
    Forall Qi (u_incomplete u1) -> Forall (Forall Q) (u_disjoint u1) ->
    importable_t (erase (xs_env st)) next -> Forall gfrag dis ->
    (forall b, In b next -> Q b) -> Forall (Forall Q) dis ->
    exists r, process_x_tail st u1 v next dis = Ok r /\ res_ok (xs_env st) r.
  Proof.
    intros EI0 IU1 Fi1 FD1 IN FD PN PDis. unfold process_x_tail, res_ok.
    destruct (p_import_all (xs_env st) next) as [[ev1 e1] er1] eqn:EI.
    destruct (p_import_all_ok par root0 _ next (importable_feed _ _ IN) (xs_env st) ev1 e1 er1)
      as (I1 & X1 & F1 & P1); auto.
    { apply Forall_forall. intros b Hb. exact (proj2 (PN b Hb)). }
    assert (PS1 : forall s, In s (pimports ev1) -> S s).
    { intros s Hs. destruct (P1 s Hs) as (b & Hb & <-). exact (proj1 (PN b Hb)). }
    destruct er1.
    { eexists. split; [reflexivity|]. cbn [xr_events xr_state xs_env xs_un].
      split; [exact F1|]. split; [|split; [exact X1|exact PS1]].
      split; [exact IU1|]. split; [exact I1|]. split; auto. }
    destruct (second_round_t_ok (erase e1) dis (pinv_tenv_ok par root0 e1 (proj1 I1)) u1 (xs_queue st) []
                FD IU1 (impt_nil _)) as (u2 & q2 & next2 & E2 & IU2 & IN2 & M2 & Ei).
    rewrite E2.
    assert (P2 : forall b, In b next2 \/ In b (concat (u_disjoint u2)) -> Q b).
    { intros b Hb. destruct (M2 b Hb) as [[]|[H|H]];
        [exact (FF_concat Q _ FD1 b H)|exact (FF_concat Q _ PDis b H)]. }
    assert (PD2 : Forall (Forall Q) (u_disjoint u2)) by (apply concat_FF; auto).
    assert (Fi2 : Forall Qi (u_incomplete u2)) by (rewrite Ei; exact Fi1).
    destruct (p_import_all e1 next2) as [[ev2 e2] er2] eqn:EI2.
    destruct (p_import_all_ok par root0 _ next2 (importable_feed _ _ IN2) e1 ev2 e2 er2)
      as (I2 & X2 & F2 & P2'); auto.
    { apply Forall_forall. intros b Hb. exact (proj2 (P2 b (or_introl Hb))). }
    assert (PS2 : forall s, In s (pimports ev2) -> S s).
    { intros s Hs. destruct (P2' s Hs) as (b & Hb & <-). exact (proj1 (P2 b (or_introl Hb))). }
    assert (PSa : forall s, In s (pimports (ev1 ++ ev2)) -> S s).
    { intros s Hs. rewrite pimports_app in Hs. apply in_app_or in Hs. destruct Hs; auto. }
    destruct (remove_irrelevant_Q Qi Q u2 (pe_fin e1) Fi2 PD2) as [RA1 RB1].
    destruct (remove_irrelevant_Q Qi Q u2 (pe_fin e2) Fi2 PD2) as [RA2 RB2].
    destruct next2 as [|b2 n2].
    { eexists. split; [reflexivity|]. cbn [xr_events xr_state xs_env xs_un].
      split; [exact F1|]. split; [|split; [exact X1|exact PS1]].
      split; [now apply remove_irrelevant_ok|]. split; [exact I1|]. split; auto. }
    destruct er2; eexists; (split; [reflexivity|]); cbn [xr_events xr_state xs_env xs_un];
      (split; [apply Forall_app; auto|]);
      (split; [|split; [eapply ext_trans; eauto|exact PSa]]).
    - split; [exact IU2|]. split; [exact I2|]. split; auto.
    - split; [now apply remove_irrelevant_ok|]. split; [exact I2|]. split; auto.
  Qed.

  Lemma process_x_ok srt bad st rs :
    keeps_forall srt -> inv_x st -> Forall (fun r => result_wf_b r = true) rs ->
    (forall r q resp, In r rs -> classify true true true bad r = VAccept q resp -> Forall Q resp) ->
    exists r, process_x srt bad st rs = Ok r /\ res_ok (xs_env st) r.
  Proof.
    intros KS (IU & EI & Fi & PD) W HA. unfold process_x.
    destruct (validate_results_fixed bad rs (mkval [] [] []) W (Forall_nil _)) as (v & EV & VV). rewrite EV.
    assert (PV : forall p, In p (v_ok v) -> Forall Q (snd p)).
    { eapply validate_Q; [exact EV| |exact HA]. intros p []. }
    destruct (collect_ready_ok (pe_fin (xs_env st)) (v_ok v) (xs_un st) [] IU VV (Forall_nil _))
      as (u1 & ready & EC & IU1 & FR). rewrite EC.
    destruct (collect_ready_Q Qi Q (mix_QS S par gp) _ _ _ _ _ _ EC PV Fi PD (Forall_nil _))
      as (Fi1 & PD1 & PR).
    destruct (sort_fragments_with_ok srt ready KS FR) as [ES FS]. rewrite ES.
    pose proof (KS _ _ PR) as PS.
    destruct (merge_fragments_ok _ FS) as (ordered & EM & FO). rewrite EM.
    pose proof (merge_Q Q _ _ EM PS) as PO.
    pose proof (pinv_tenv_ok par root0 _ (proj1 EI)) as TE.
    destruct (split_known_t_ok (erase (xs_env st)) ordered TE [] [] FO (impt_nil _) (Forall_nil _))
      as (next & dis & EK & IN & FD & MK). rewrite EK.
    assert (PN : forall b, In b next -> Q b).
    { intros b Hb. destruct (MK b (or_introl Hb)) as [[]|[[]|H]]. exact (FF_concat Q _ PO b H). }
    assert (PDis : Forall (Forall Q) dis).
    { apply concat_FF. intros b Hb. destruct (MK b (or_intror Hb)) as [[]|[[]|H]]. exact (FF_concat Q _ PO b H). }
    destruct next as [|nb next0]; destruct dis as [|df dis0]; try (apply tail_ok; auto; fail).
    destruct (remove_irrelevant_Q Qi Q u1 (pe_fin (xs_env st)) Fi1 PD1) as [RA RB].
    eexists. split; [reflexivity|]. unfold res_ok. cbn [xr_events xr_state xs_env xs_un].
    split; [constructor|]. split; [|split; [apply ext_refl|intros s []]].
    split; [now apply remove_irrelevant_ok|]. split; [exact EI|]. split; auto.
  Qed.
End Proc.

(* ---------------------------------------------------------------- histories *)
Lemma announce_un bad st who h best :
  ts_un (tr_state (announce_t bad st who h best)) = ts_un st
  \/ ts_un (tr_state (announce_t bad st who h best)) = new_incomplete (ts_un st) h.
Proof.
  unfold announce_t.
  destruct (existsb (N.eqb (h_hash h)) bad); [now left|].
  destruct ((h_number h <=? t_fin (ts_env st)) || tracked (ts_un st) h); [now left|].
  destruct (max_blocks <? N.max (h_number h) best - N.min (h_number h) best); [now left|].
  destruct (tknows (ts_env st) (h_hash h)); [now left|now right].
Qed.

Lemma nodup_app_iff {A} (a b : list A) :
  NoDup (a ++ b) <-> NoDup a /\ NoDup b /\ (forall x, In x a -> ~ In x b).
Proof.
  induction a as [|x a IH]; cbn [app].
  - split; [intro H; split; [constructor|split; [exact H|intros x []]]|tauto].
  - split.
    + intro H. inversion H as [|? ? Nx Nr]; subst. apply IH in Nr. destruct Nr as (Na & Nb & D).
      split; [constructor; [intro Hx; apply Nx, in_or_app; now left|exact Na]|]. split; [exact Nb|].
      intros y [<-|Hy]; [intro Hb; apply Nx, in_or_app; now right|now apply D].
    + intros (Na & Nb & D). inversion Na as [|? ? Nx Nr]; subst. constructor.
      * intro Hx. apply in_app_or in Hx. destruct Hx as [Hx|Hx]; [now apply Nx|]. apply (D x); [now left|exact Hx].
      * apply IH. split; [exact Nr|]. split; [exact Nb|]. intros y Hy. apply D. now right.
Qed.

Lemma proc_sub outs : NoDup (pimports (x_all_events outs)) ->
  NoDup (pimports (x_proc_events outs))
  /\ incl (pimports (x_proc_events outs)) (pimports (x_all_events outs)).
Proof.
  unfold x_all_events, x_proc_events.
  induction outs as [|o outs IH]; cbn [flat_map]; intro ND.
  - split; [constructor|intros x []].
  - rewrite !pimports_app in *. apply nodup_app_iff in ND. destruct ND as (NA & NB & D).
    destruct (IH NB) as [N' Inc]. destruct o as [|r|ev]; cbn [out_all out_proc] in *.
    + split; [exact N'|exact Inc].
    + split.
      * apply nodup_app_iff. split; [exact NA|]. split; [exact N'|].
        intros x Hx Hx'. apply (D x Hx). now apply Inc.
      * now apply incl_app_app; [apply incl_refl|].
    + cbn [pimports flat_map app]. split; [exact N'|]. intros x Hx. apply in_or_app. right. now apply Inc.
Qed.

Section History.
  Variable par : N -> N.
  Variable root0 : N.
  Notation gp := (par root0).

  Lemma new_incomplete_Qi u h : hdr_par par gp h -> Forall (blk_par par gp) (u_incomplete u) ->
    Forall (blk_par par gp) (u_incomplete (new_incomplete u h)).
  Proof.
    intros Hh Fi. cbn [new_incomplete u_incomplete]. constructor.
    - intros h' E. cbn [d_header] in E. injection E as <-. exact Hh.
    - apply Forall_forall. intros b Hb. apply filter_In in Hb. rewrite Forall_forall in Fi. apply Fi. tauto.
  Qed.

  Lemma run_x_safe srt bad all : keeps_forall srt -> history_par par gp all -> forall steps st,
    incl steps all -> inv_x par root0 (provenance bad all) st -> Forall tstep_wf steps ->
    exists outs stf, run_x srt bad st steps = (outs, false, stf)
      /\ length outs = length steps
      /\ Forall pfine (x_proc_events outs)
      /\ (forall s, In s (pimports (x_proc_events outs)) -> provenance bad all s)
      /\ ext (xs_env st) (x_all_events outs) (xs_env stf)
      /\ inv_x par root0 (provenance bad all) stf.
  Proof.
    intros KS HP. induction steps as [|s steps IH]; intros st Inc I W.
    - exists [], st. split; [reflexivity|]. split; [reflexivity|]. split; [constructor|].
      split; [intros x []|]. split; [apply ext_refl|exact I].
    - inversion W as [|? ? Ws Wr]; subst.
      assert (Inc' : incl steps all) by (intros x Hx; apply Inc; now right).
      pose proof (HP s (Inc s (or_introl eq_refl))) as HPs.
      cbn [run_x].
      assert (Step : exists st' o, do_xstep srt bad st s = Ok (st', o)
                /\ inv_x par root0 (provenance bad all) st'
                /\ ext (xs_env st) (out_all o) (xs_env st')
                /\ Forall pfine (out_proc o)
                /\ (forall x, In x (pimports (out_proc o)) -> provenance bad all x)).
      { destruct I as (IU & [PI ND] & Fi & PD).
        destruct s as [h|who h best|h|f|rs]; cbn [do_xstep].
        - eexists _, _. split; [reflexivity|]. cbn [out_all out_proc xs_env].
          split; [|split; [apply ext_refl|split; [constructor|intros x []]]].
          split; [now apply new_incomplete_ok|]. split; [split; auto|].
          split; [now apply new_incomplete_Qi|exact PD].
        - eexists _, _. split; [reflexivity|]. cbn [out_all out_proc xs_env xr_events].
          split; [|split; [apply ext_refl|split; [constructor|intros x []]]].
          unfold inv_x. cbn [xs_un xs_env].
          destruct (announce_un bad (mkts (erase (xs_env st)) (xs_un st) (xs_queue st)) who h best)
            as [-> | ->]; cbn [ts_un].
          + split; [exact IU|]. split; [split; auto|]. split; auto.
          + split; [now apply new_incomplete_ok|]. split; [split; auto|].
            split; [now apply new_incomplete_Qi|exact PD].
        - destruct (p_import_block (xs_env st) (known_block h)) as [[ev e1] er] eqn:EB.
          assert (Bok : block_ok par root0 (known_block h)).
          { apply (block_ok_of par root0 _ h); [reflexivity|reflexivity|].
            intros h' E. cbn [known_block d_header] in E. injection E as <-. exact HPs. }
          destruct (p_import_block_ok par root0 _ _ _ _ _ PI Bok EB) as [I1 S1].
          destruct (step_spec_facts _ _ _ _ S1 ND) as (ND1 & X1 & _ & _).
          eexists _, _. split; [reflexivity|]. cbn [out_all out_proc xs_env].
          split; [|split; [exact X1|split; [constructor|intros x []]]].
          split; [exact IU|]. split; [split; auto|]. split; auto.
        - eexists _, _. split; [reflexivity|]. cbn [out_all out_proc xs_env].
          destruct (pfind (xs_env st) f) as [fb|] eqn:F.
          + apply pfind_some in F. destruct F as [Hfb _].
            split; [|split; [unfold ext; now rewrite pfinalise_ever|split; [constructor|intros x []]]].
            unfold inv_x, einv. cbn [xs_env xs_un].
            split; [exact IU|]. split; [|split; auto]. split; [now apply pfinalise_inv|].
            now rewrite pfinalise_ever.
          + split; [|split; [apply ext_refl|split; [constructor|intros x []]]].
            split; [exact IU|]. split; [split; auto|]. split; auto.
        - cbn [tstep_wf] in Ws.
          assert (HA : forall r q resp, In r rs -> classify true true true bad r = VAccept q resp ->
                       Forall (QS (provenance bad all) par gp) resp).
          { intros r q resp Hr C. pose proof (classify_accept_matches bad r q resp C) as M.
            apply Forall_forall. intros b Hb. rewrite Forall_forall in M. split.
            - exists rs, r, q, resp, b. repeat split; auto. apply Inc. now left.
            - apply (HPs r b Hr). eapply classify_accept_incl; eauto. }
          destruct (process_x_ok par root0 (provenance bad all) srt bad st rs KS
                      (conj IU (conj (conj PI ND) (conj Fi PD))) Ws HA) as (r & EP & Fr & Ir & Xr & Pr).
          rewrite EP. eexists _, _. split; [reflexivity|]. cbn [out_all out_proc]. auto. }
      destruct Step as (st' & o & E & I' & X & F & P). rewrite E.
      destruct (IH st' Inc' I' Wr) as (outs & stf & E' & L & F' & P' & X' & IF).
      rewrite E'. exists (o :: outs), stf. split; [reflexivity|]. split; [cbn [length]; now rewrite L|].
      unfold x_proc_events, x_all_events in *. cbn [flat_map].
      split; [apply Forall_app; auto|]. split; [|split; [eapply ext_trans; eauto|exact IF]].
      intros x Hx. rewrite pimports_app in Hx. apply in_app_or in Hx. destruct Hx; auto.
  Qed.
End History.

Lemma init_xinv par root S : par root <> root -> inv_x par root S (init_xstate root (par root)).
Proof.
  intro PR. split; [split; constructor|]. split; [|split; constructor].
  split; [now apply pinit_inv|]. cbn [init_xstate xs_env pinit pe_ever]. constructor; [intros []|constructor].
Qed.

(* THE COMBINED THEOREM.  For every history of announcements, headers arriving from elsewhere,
   finalisations and Process calls (all requests ask for bodies), run from the genesis state over
   the refined pruning block state, with any sort that permutes, IF the header hash determines
   the parent hash for every header the history mentions and none of them has the genesis'
   parent hash: no panic; no Process event is EOrphan or EDup; every Process import has its
   provenance; the hashes imported by Process are pairwise distinct - in fact all hashes ever
   stored (Process imports and headers from elsewhere) are, none is the genesis, and the ghost
   list of the final state is exactly these and the genesis. *)
Theorem process_never_twice :
  forall srt : list (list bdata) -> list (list bdata), (forall l, Permutation (srt l) l) ->
  forall (par : N -> N) bad root steps,
  par root <> root -> tsteps_body_b steps = true -> history_par par (par root) steps ->
  exists outs stf,
    run_x srt bad (init_xstate root (par root)) steps = (outs, false, stf)
    /\ length outs = length steps
    /\ Forall (fun e => match e with PE (EOrphan _) | PE (EDup _) => False | _ => True end)
              (x_proc_events outs)
    /\ (forall s, In s (pimports (x_proc_events outs)) -> provenance bad steps s)
    /\ NoDup (pimports (x_proc_events outs))
    /\ incl (pimports (x_proc_events outs)) (pimports (x_all_events outs))
    /\ NoDup (pimports (x_all_events outs))
    /\ ~ In root (pimports (x_all_events outs))
    /\ pe_ever (xs_env stf) = rev (pimports (x_all_events outs)) ++ [root].
Proof.
  intros srt HPm par bad root steps PR W HP.
  destruct (run_x_safe par root srt bad steps (perm_keeps_forall srt HPm) HP steps
              (init_xstate root (par root)) (incl_refl _) (init_xinv par root _ PR)
              (tsteps_body_forall steps W))
    as (outs & stf & E & L & F & P & X & (_ & [_ ND] & _)).
  exists outs, stf. unfold ext in X. cbn [init_xstate xs_env pinit pe_ever] in X.
  rewrite X in ND. apply nodup_app_iff in ND. destruct ND as (NA & _ & D).
  assert (NA' : NoDup (pimports (x_all_events outs))).
  { rewrite <- (rev_involutive (pimports (x_all_events outs))). now apply NoDup_rev. }
  destruct (proc_sub outs NA') as [NP IP].
  split; [exact E|]. split; [exact L|]. split; [exact F|]. split; [exact P|]. split; [exact NP|].
  split; [exact IP|]. split; [exact NA'|]. split; [|exact X].
  intro H. apply (D root); [now apply in_rev in H|now left].
Qed.

(* ---------------------------------------------------------------- non-vacuity *)
(* The fork tree of ProofsNeverTwice.v (0 <- 1 <- 2 <- 3, 1 <- 4 <- 5; nt_par) as a HISTORY:
   Process imports 1, 2; header 4 arrives from elsewhere; 5 is announced; Process gets 3 with a
   justification and the body of 5: 3 is imported and finalised (4 is pruned), 5 is refused
   (EOrphanPruned, error); Process is offered 4 again: its parent 1 is still answered by
   HasHeader, the first loop hands it to the importer, AddBlock refuses it (PNotInTree, error);
   so does AddBlock for header 4 arriving from elsewhere again; GRANDPA finalises 2 (no tree
   node any more: nothing changes); Process with 3 again (skipped) and a block 6 whose parent is
   unknown (kept as a disjoint fragment).  The hypotheses of the theorem hold of it. *)
Definition xh (i n : N) : header := mkhdr i (nt_par i) n.
Definition xb (i n : N) (j : bool) : bdata := mkbd i (Some (xh i n)) true j.
Definition xres (who : N) (l : list bdata) : result := mkres who true (mkreq 19 0) l.
Definition x_hist : list tstep :=
  [ TProcess [xres 1 [xb 1 1 false; xb 2 2 false]]; TKnown (xh 4 2);
    TAnnounce (xh 5 3);
    TProcess [xres 2 [xb 3 3 true]; xres 1 [xb 5 3 false]];
    TProcess [xres 2 [xb 4 2 false]];
    TKnown (xh 4 2); TFinalise 2;
    TProcess [xres 1 [xb 3 3 false]; xres 2 [xb 6 4 false]] ].

Example process_never_twice_example :
  nt_par 0 <> 0 /\ tsteps_body_b x_hist = true /\ history_par nt_par (nt_par 0) x_hist
  /\ match run_x sort_frags [] (init_xstate 0 (nt_par 0)) x_hist with
     | (outs, p, stf) =>
       p = false
       /\ x_all_events outs =
          [PE (EImport 1); PE (EImport 2); PE (EImport 4); PE (EImport 3); PE (EFinal 3);
           PE (EOrphanPruned 5); PNotInTree 4; PNotInTree 4; PE (ESkip 3)]
       /\ x_proc_events outs =
          [PE (EImport 1); PE (EImport 2); PE (EImport 3); PE (EFinal 3);
           PE (EOrphanPruned 5); PNotInTree 4; PE (ESkip 3)]
       /\ map pb_hash (pe_known (xs_env stf)) = [3; 2; 1; 0]
       /\ pe_ever (xs_env stf) = [3; 4; 2; 1; 0] /\ pe_root (xs_env stf) = 3
     end.
Proof.
  split; [discriminate|]. split; [reflexivity|]. split.
  - intros s Hs. unfold x_hist in Hs. cbn [In] in Hs.
    repeat (destruct Hs as [<-|Hs];
      [ first
          [ exact I
          | split; [reflexivity|discriminate]
          | intros r b Hr Hb; cbn [In] in Hr;
            repeat (destruct Hr as [<-|Hr];
              [ cbn [In xres r_resp] in Hb;
                repeat (destruct Hb as [<-|Hb];
                  [intros h E; injection E as <-; split; [reflexivity|discriminate]|]);
                contradiction |]);
            contradiction ] |]).
    contradiction.
  - vm_compute. repeat split; reflexivity.
Qed.

(* ---------------------------------------------------------------- the importer refinement WITH a
   justification: ModelPrune's fuel-bounded ancestor closures against the stored paths *)
Notation er := (fun k : pblock => mkkb (pb_hash k) (pb_parent k) (pb_number k)).

(* the shape of the stored paths: hashes are unique, a path is the own hash followed by the path
   of the stored parent, only the genesis' parent (gp) is not stored, paths are duplicate-free
   lists of stored hashes *)
Record pathinv (gp : N) (e : penv) : Prop := mkpathinv {
  qU : NoDup (map pb_hash (pe_known e));
  qP : forall x, In x (pe_known e) ->
         pb_path x = pb_hash x :: match pfind e (pb_parent x) with Some p => pb_path p | None => [] end;
  qG : forall x, In x (pe_known e) -> pfind e (pb_parent x) = None -> pb_parent x = gp;
  qN : forall x, In x (pe_known e) -> pb_hash x <> gp;
  qD : forall x, In x (pe_known e) -> NoDup (pb_path x);
  qE : forall x z, In x (pe_known e) -> In z (pb_path x) -> exists k, In k (pe_known e) /\ pb_hash k = z
}.

Lemma find_er e h :
  find (fun k => k_hash k =? h) (map er (pe_known e)) = option_map er (pfind e h).
Proof.
  unfold pfind. induction (pe_known e) as [|k l IH]; [reflexivity|].
  cbn [map find k_hash]. destruct (pb_hash k =? h); [reflexivity|exact IH].
Qed.

Lemma pfind_self gp e x : pathinv gp e -> In x (pe_known e) -> pfind e (pb_hash x) = Some x.
Proof.
  intros PI. pose proof (qU gp e PI) as U. unfold pfind. clear PI.
  induction (pe_known e) as [|k l IH]; intro Hx; [contradiction|].
  cbn [map] in U. inversion U as [|? ? Nk Nl]; subst. cbn [find].
  destruct Hx as [->|Hx]; [now rewrite N.eqb_refl|].
  destruct (pb_hash k =? pb_hash x) eqn:E; [|now apply IH].
  apply N.eqb_eq in E. exfalso. apply Nk. rewrite E. now apply in_map.
Qed.

Lemma pfind_none_not_in e h : pfind e h = None -> forall k, In k (pe_known e) -> pb_hash k <> h.
Proof.
  unfold pfind. intros F k Hk E. apply (find_none _ _ F) in Hk. apply N.eqb_neq in Hk. contradiction.
Qed.

Lemma anc_unknown e c f : pfind e c = None -> anc_closure f (map er (pe_known e)) c = [c].
Proof. intro F. destruct f; cbn [anc_closure]; [reflexivity|]. now rewrite find_er, F. Qed.

Lemma anc_path gp e : pathinv gp e -> forall fuel x, In x (pe_known e) ->
  (length (pb_path x) <= fuel)%nat ->
  anc_closure fuel (map er (pe_known e)) (pb_hash x) = pb_path x ++ [gp].
Proof.
  intro PI. induction fuel as [|f IH]; intros x Hx L.
  - rewrite (qP gp e PI x Hx) in L. cbn [length] in L. lia.
  - cbn [anc_closure]. rewrite find_er, (pfind_self gp e x PI Hx). cbn [option_map k_parent].
    rewrite (qP gp e PI x Hx) in L |- *. cbn [length] in L.
    destruct (pfind e (pb_parent x)) as [p|] eqn:F.
    + apply pfind_some in F. destruct F as [Hp Ep]. rewrite <- Ep, (IH p Hp) by lia. reflexivity.
    + rewrite (qG gp e PI x Hx F) in F |- *. now rewrite (anc_unknown e gp f F).
Qed.

Lemma path_length gp e x : pathinv gp e -> In x (pe_known e) ->
  (length (pb_path x) <= length (pe_known e))%nat.
Proof.
  intros PI Hx. rewrite <- (map_length pb_hash (pe_known e)).
  apply NoDup_incl_length; [exact (qD gp e PI x Hx)|].
  intros z Hz. destruct (qE gp e PI x z Hx Hz) as (k & Hk & <-). now apply in_map.
Qed.

Lemma is_anc_path gp e a d : pathinv gp e -> In d (pe_known e) -> a <> gp ->
  is_anc (map er (pe_known e)) a (pb_hash d) = memN a (pb_path d).
Proof.
  intros PI Hd Na. unfold is_anc. rewrite map_length, (anc_path gp e PI _ d Hd (path_length gp e d PI Hd)).
  unfold memN. rewrite existsb_app. cbn [existsb]. apply N.eqb_neq in Na. rewrite Na. now rewrite !orb_false_r.
Qed.

Lemma filter_of_map {A B} (f : A -> B) (g : B -> bool) l :
  filter g (map f l) = map f (filter (fun x => g (f x)) l).
Proof. induction l as [|a l IH]; [reflexivity|]. cbn [map filter]. destruct (g (f a)); cbn [map]; now rewrite IH. Qed.

(* Prune of a tree block: ModelPrune's finalise (pruning on) on the erased state *)
Lemma erase_pfinalise_tree gp e fb n : pathinv gp e -> In fb (pe_known e) -> in_tree e fb = true ->
  erase (pfinalise e fb n) = finalise true (erase e) (pb_hash fb) n.
Proof.
  intros PI Hfb T. unfold pfinalise. rewrite T. unfold finalise, erase.
  cbn [t_known t_ever t_fin pe_known pe_ever pe_fin]. f_equal. unfold prune_known.
  rewrite filter_of_map. f_equal. apply filter_ext_in. intros x Hx. cbn [k_hash]. unfold pkeep.
  rewrite (is_anc_path gp e (pb_hash x) fb PI Hfb (qN gp e PI x Hx)).
  rewrite (is_anc_path gp e (pb_hash fb) x PI Hx (qN gp e PI fb Hfb)). apply orb_comm.
Qed.

(* ---- the shape is kept by the two state changes *)
Lemma pfind_padd e k h : pfind (padd e k) h = if pb_hash k =? h then Some k else pfind e h.
Proof. reflexivity. Qed.

Lemma padd_pathinv gp e s n pk parent :
  pathinv gp e -> pknows e s = false -> pfind e parent = Some pk -> s <> gp ->
  pathinv gp (padd e (mkpb s parent n (s :: pb_path pk))).
Proof.
  intros PI K F G. set (nb := mkpb s parent n (s :: pb_path pk)).
  pose proof (pfind_some _ _ _ F) as [Hpk Epk].
  assert (NK : forall k, In k (pe_known e) -> pb_hash k <> s).
  { intros k Hk E. assert (pknows e s = true) by (apply pknows_In; eauto). congruence. }
  assert (Old : forall x, In x (pe_known e) -> pfind (padd e nb) (pb_parent x) = pfind e (pb_parent x)).
  { intros x Hx. rewrite pfind_padd. change (pb_hash nb) with s.
    destruct (s =? pb_parent x) eqn:E; [|reflexivity]. apply N.eqb_eq in E. exfalso.
    destruct (pfind e (pb_parent x)) as [p|] eqn:Fp.
    - apply pfind_some in Fp. destruct Fp as [Hp Ep]. apply (NK p Hp). congruence.
    - apply G. rewrite E. exact (qG gp e PI x Hx Fp). }
  assert (New : pfind (padd e nb) parent = Some pk).
  { rewrite pfind_padd. change (pb_hash nb) with s. destruct (s =? parent) eqn:E; [|exact F].
    apply N.eqb_eq in E. exfalso. apply (NK pk Hpk). congruence. }
  constructor; cbn [padd pe_known].
  - cbn [map]. constructor; [|exact (qU gp e PI)]. intro H. apply in_map_iff in H.
    destruct H as (k & Ek & Hk). exact (NK k Hk Ek).
  - intros x [<-|Hx].
    + cbn [nb pb_path pb_hash pb_parent]. change (mkpb s parent n (s :: pb_path pk)) with nb. now rewrite New.
    + change (nb :: pe_known e) with (pe_known (padd e nb)) in *. unfold pfind at 1.
      change (find (fun k => pb_hash k =? pb_parent x) (pe_known (padd e nb))) with (pfind (padd e nb) (pb_parent x)).
      rewrite (Old x Hx). exact (qP gp e PI x Hx).
  - intros x [<-|Hx] Fx.
    + exfalso. change (pfind (padd e nb) parent = None) in Fx. rewrite New in Fx. discriminate.
    + apply (qG gp e PI x Hx). rewrite <- (Old x Hx). exact Fx.
  - intros x [<-|Hx]; [exact G|exact (qN gp e PI x Hx)].
  - intros x [<-|Hx]; [|exact (qD gp e PI x Hx)]. cbn [nb pb_path]. constructor; [|exact (qD gp e PI pk Hpk)].
    intro H. destruct (qE gp e PI pk s Hpk H) as (k & Hk & Ek). exact (NK k Hk Ek).
  - intros x z [<-|Hx] Hz.
    + cbn [nb pb_path] in Hz. destruct Hz as [<-|Hz]; [exists nb; split; [now left|reflexivity]|].
      destruct (qE gp e PI pk z Hpk Hz) as (k & Hk & Ek). exists k. split; [now right|exact Ek].
    + destruct (qE gp e PI x z Hx Hz) as (k & Hk & Ek). exists k. split; [now right|exact Ek].
Qed.

Lemma find_filter_some {A} (g f : A -> bool) l p :
  find g l = Some p -> f p = true -> find g (filter f l) = Some p.
Proof.
  induction l as [|a l IH]; [discriminate|]. cbn [find filter]. destruct (g a) eqn:Ga.
  - intros E Fp. injection E as ->. rewrite Fp. cbn [find]. now rewrite Ga.
  - intros E Fp. destruct (f a); [cbn [find]; rewrite Ga|]; now apply IH.
Qed.

Lemma find_filter_none {A} (g f : A -> bool) l : find g l = None -> find g (filter f l) = None.
Proof.
  induction l as [|a l IH]; [reflexivity|]. cbn [find filter]. destruct (g a) eqn:Ga; [discriminate|].
  intro E. destruct (f a); [cbn [find]; rewrite Ga|]; now apply IH.
Qed.

Lemma NoDup_map_filter {A B} (f : A -> B) (g : A -> bool) l : NoDup (map f l) -> NoDup (map f (filter g l)).
Proof.
  induction l as [|a l IH]; [auto|]. cbn [map filter]. intro H. inversion H as [|? ? Na Nl]; subst.
  destruct (g a); [|now apply IH]. cbn [map]. constructor; [|now apply IH].
  intro Hin. apply Na. apply in_map_iff in Hin. destruct Hin as (x & Ex & Hx). apply filter_In in Hx.
  rewrite <- Ex. apply in_map. tauto.
Qed.

Section Shape.
  Variable par : N -> N.
  Variable root0 : N.
  Notation gp := (par root0).

  Lemma pfinalise_pathinv e fb n :
    pinv par root0 e -> pathinv gp e -> In fb (pe_known e) -> pathinv gp (pfinalise e fb n).
  Proof.
    intros I PI Hfb. unfold pfinalise. destruct (in_tree e fb) eqn:T.
    2:{ destruct PI; constructor; assumption. }
    set (e' := mkpe (filter (pkeep fb) (pe_known e)) (pe_ever e) (pb_hash fb)
                    (if pe_fin e <? n then n else pe_fin e)).
    assert (In' : forall x, In x (pe_known e') <-> In x (pe_known e) /\ pkeep fb x = true)
      by (intro x; apply filter_In).
    (* the stored parent of a kept block is kept *)
    assert (KP : forall x p, In x (pe_known e') -> pfind e (pb_parent x) = Some p -> In p (pe_known e')).
    { intros x p Hx F. apply In' in Hx. destruct Hx as [Hx Kx]. pose proof (pfind_some _ _ _ F) as [Hp Ep].
      apply In'. split; [exact Hp|]. pose proof (qP gp e PI x Hx) as Px. rewrite F in Px.
      pose proof (qP gp e PI p Hp) as Pp.
      assert (Hpp : In (pb_hash p) (pb_path p)) by (rewrite Pp; now left).
      unfold pkeep in *. apply orb_true_intro. apply orb_prop in Kx. destruct Kx as [Kx|Kx]; apply memN_In in Kx.
      - rewrite Px in Kx. destruct Kx as [Kx|Kx].
        + right. apply memN_In. pose proof (pfind_self gp e x PI Hx) as Sx.
          pose proof (pfind_self gp e fb PI Hfb) as Sf. rewrite Kx in Sx. rewrite Sx in Sf. injection Sf as <-.
          rewrite Px. now right.
        + left. now apply memN_In.
      - right. apply memN_In.
        apply (iSUB par root0 _ _ _ I fb x Hfb Hx Kx). rewrite Px. now right. }
    assert (FS : forall x p, In x (pe_known e') -> pfind e (pb_parent x) = Some p ->
                   pfind e' (pb_parent x) = Some p).
    { intros x p Hx F. unfold pfind, e'. cbn [pe_known]. apply find_filter_some; [exact F|].
      apply In'. now apply (KP x p). }
    assert (FN : forall h, pfind e h = None -> pfind e' h = None).
    { intros h F. unfold pfind, e'. cbn [pe_known]. now apply find_filter_none. }
    assert (FE : forall x, In x (pe_known e') -> pfind e' (pb_parent x) = pfind e (pb_parent x)).
    { intros x Hx. destruct (pfind e (pb_parent x)) as [p|] eqn:F; [now apply FS|now apply FN]. }
    constructor.
    - unfold e'. cbn [pe_known]. apply NoDup_map_filter. exact (qU gp e PI).
    - intros x Hx. rewrite (FE x Hx). apply (qP gp e PI). now apply In'.
    - intros x Hx F. rewrite (FE x Hx) in F. apply (qG gp e PI x); [now apply In'|exact F].
    - intros x Hx. apply (qN gp e PI). now apply In'.
    - intros x Hx. apply (qD gp e PI). now apply In'.
    - (* every element of the path of a kept block is the hash of a kept block *)
      assert (KE : forall m x, (length (pb_path x) <= m)%nat -> In x (pe_known e') ->
                     forall z, In z (pb_path x) -> exists k, In k (pe_known e') /\ pb_hash k = z).
      { induction m as [|m IH]; intros x L Hx z Hz.
        - destruct (pb_path x); [contradiction|cbn [length] in L; lia].
        - pose proof (proj1 (In' x) Hx) as [Hx0 _]. pose proof (qP gp e PI x Hx0) as Px.
          rewrite Px in Hz, L. cbn [length] in L. destruct Hz as [<-|Hz]; [exists x; auto|].
          destruct (pfind e (pb_parent x)) as [p|] eqn:F; [|contradiction].
          apply (IH p); [lia|now apply (KP x p)|exact Hz]. }
      intros x z Hx Hz. exact (KE _ x (le_n _) Hx z Hz).
  Qed.

  Lemma pinit_pathinv : gp <> root0 -> pathinv gp (pinit root0 gp).
  Proof.
    intro G. constructor; cbn [pinit pe_known].
    - cbn [map]. constructor; [intros []|constructor].
    - intros x [<-|[]]. unfold pfind, pinit. cbn [pb_path pb_hash pb_parent pe_known find].
      destruct (root0 =? gp) eqn:E; [apply N.eqb_eq in E; congruence|reflexivity].
    - intros x [<-|[]] _. reflexivity.
    - intros x [<-|[]]. cbn [pb_hash]. congruence.
    - intros x [<-|[]]. cbn [pb_path]. constructor; [intros []|constructor].
    - intros x z [<-|[]] [<-|[]]. eexists. split; [now left|reflexivity].
  Qed.

  (* one importer call keeps the shape; with pruning on, ModelPrune's importer on the erased state
     does the same - events, error flag AND block state, justification or not - unless AddBlock
     refuses the block because its parent is no tree node *)
  Lemma sim_import_block_full e b evs e' err :
    pinv par root0 e -> pathinv gp e -> block_ok par root0 b ->
    p_import_block e b = (evs, e', err) ->
    pathinv gp e'
    /\ (refused_by_tree evs = false ->
        import_block_t true (erase e) b = (flat_map unPE evs, erase e', err)).
  Proof.
    intros I PI B. unfold p_import_block, import_block_t. rewrite erase_knows.
    destruct (pknows e (d_hash b)) eqn:K0.
    { intro E. injection E as <- <- <-. split; [exact PI|reflexivity]. }
    destruct (d_header b) as [h|] eqn:Hh.
    2:{ intro E. injection E as <- <- <-. split; [exact PI|reflexivity]. }
    destruct (B h Hh) as (Hm & Hp & Hg).
    unfold p_body. rewrite !erase_knows, erase_ever, (pfind_knows e (h_parent h)).
    destruct (d_body b).
    - destruct (pfind e (h_parent h)) as [pk|] eqn:F; cbn [negb].
      + destruct (in_tree e pk) eqn:T; cbn [negb].
        * destruct (pknows e (h_hash h)) eqn:K.
          { intro E. injection E as <- <- <-. split; [exact PI|reflexivity]. }
          set (nb := mkpb (h_hash h) (h_parent h) (h_number h) (h_hash h :: pb_path pk)).
          set (e1 := padd e nb).
          change (add_known (erase e) (mkkb (h_hash h) (h_parent h) (h_number h))) with (erase e1).
          pose proof (pfind_some _ _ _ F) as [Hpk Epk].
          assert (PI1 : pathinv gp e1) by (apply padd_pathinv; auto).
          assert (I1 : pinv par root0 e1).
          { unfold e1, nb. rewrite Hp. apply padd_inv; auto; congruence. }
          destruct (d_just b).
          -- assert (Fnb : pfind e1 (h_hash h) = Some nb).
             { unfold e1. rewrite pfind_padd. change (pb_hash nb) with (h_hash h). now rewrite N.eqb_refl. }
             assert (Hnb : In nb (pe_known e1)) by now left.
             assert (Tnb : in_tree e1 nb = true).
             { unfold in_tree in *. apply memN_In. cbn [e1 padd pe_root nb pb_path]. right. now apply memN_In. }
             pose proof (erase_pfinalise_tree gp e1 nb (h_number h) PI1 Hnb Tnb) as EQ.
             change (pb_hash nb) with (h_hash h) in EQ.
             rewrite erase_knows, (pfind_knows e1 (h_hash h)), Fnb. cbn [negb].
             intro E. injection E as <- <- <-.
             split; [now apply pfinalise_pathinv|]. intros _. rewrite <- EQ. reflexivity.
          -- intro E. injection E as <- <- <-. split; [exact PI1|reflexivity].
        * intro E. injection E as <- <- <-. split; [exact PI|discriminate].
      + intro E. injection E as <- <- <-. split; [exact PI|]. intros _.
        cbn [flat_map unPE app]. destruct (pever e (h_parent h)); reflexivity.
    - destruct (d_just b).
      + rewrite erase_knows, (pfind_knows e (h_hash h)). rewrite Hm.
        rewrite (pfind_knows e (d_hash b)) in K0.
        destruct (pfind e (d_hash b)) as [fb|]; [discriminate|]. cbn [negb].
        intro E. injection E as <- <- <-. split; [exact PI|reflexivity].
      + intro E. injection E as <- <- <-. split; [exact PI|reflexivity].
  Qed.

  (* every state a run of importer calls and finalisations reaches from the genesis has the shape *)
  Lemma p_run_pathinv steps : forall e evs e',
    pinv par root0 e -> pathinv gp e -> steps_ok par root0 steps -> p_run e steps = (evs, e') ->
    pinv par root0 e' /\ pathinv gp e'.
  Proof.
    induction steps as [|s steps IH]; intros e evs e' I PI OK; cbn [p_run].
    - intro E. injection E as <- <-. auto.
    - assert (OK' : steps_ok par root0 steps) by (intros b Hb; apply OK; now right).
      destruct (p_step e s) as [ev e1] eqn:ES.
      assert (S1 : pinv par root0 e1 /\ pathinv gp e1).
      { destruct s as [b|f]; cbn [p_step] in ES.
        - destruct (p_import_block e b) as [[ev0 e0] er] eqn:EB. injection ES as <- <-.
          pose proof (OK b (or_introl eq_refl)) as Bok. split.
          + exact (proj1 (p_import_block_ok par root0 e b ev0 e0 er I Bok EB)).
          + exact (proj1 (sim_import_block_full e b ev0 e0 er I PI Bok EB)).
        - destruct (pfind e f) as [fb|] eqn:F; injection ES as <- <-; [|auto].
          apply pfind_some in F. destruct F as [Hfb _].
          split; [now apply pfinalise_inv|now apply pfinalise_pathinv]. }
      destruct S1 as [I1 PI1]. destruct (p_run e1 steps) as [ev2 e2] eqn:ER.
      intro E. injection E as <- <-. exact (IH e1 ev2 e2 I1 PI1 OK' ER).
  Qed.
End Shape.

(* The refinement at any point of a run from the genesis (the hypotheses of
   C32_never_reimported_under_pruning): with pruning on, unless AddBlock refuses the block because
   its parent is no tree node, ModelPrune's importer on the erased state produces the same
   events, the same error flag and the SAME BLOCK STATE, justification or not: the set Prune keeps,
   read off the stored paths, is the set ModelPrune computes with its fuel-bounded ancestor
   closures over the parent links. *)
Theorem importer_refines_with_justification :
  forall (par : N -> N) (root : N) (pre : list pstep) (b : bdata),
  par root <> root ->
  (forall b' h, In (PBlock b') (pre ++ [PBlock b]) -> d_header b' = Some h ->
     h_hash h = d_hash b' /\ h_parent h = par (h_hash h) /\ h_hash h <> par root) ->
  forall evs0 e evs e' err,
    p_run (pinit root (par root)) pre = (evs0, e) ->
    p_import_block e b = (evs, e', err) -> refused_by_tree evs = false ->
    import_block_t true (erase e) b = (flat_map unPE evs, erase e', err).
Proof.
  intros par root pre b PR OK evs0 e evs e' err E0 EB NR.
  assert (OK0 : steps_ok par root pre).
  { intros x Hx h Hh. eapply OK; eauto. apply in_or_app. now left. }
  assert (Bok : block_ok par root b).
  { intros h Hh. eapply OK; eauto. apply in_or_app. right. now left. }
  destruct (p_run_pathinv par root pre _ _ _ (pinit_inv par root PR) (pinit_pathinv par root PR) OK0 E0)
    as [I PI].
  exact (proj2 (sim_import_block_full par root e b evs e' err I PI Bok EB) NR).
Qed.
