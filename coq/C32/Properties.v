(* C32/Properties.v — property C32: full sync imports only consistent chains, parents first.
   Only statements, each closed by `exact`/`apply` of a lemma, Print Assumptions beneath.

   The subject is the model of the REPAIRED FullSyncStrategy.Process
   (process true true true = fixes/C32-1..3 applied) running against the environment of
   Model.v: `known` = the headers of the block state, import_block = the checks of
   blockImporter.importBlock in their order.  An EOrphan event is a block handed to the
   importer while its parent header is unknown; EDup a header handed over although the block
   state has it; EImport s the execution and storing of the block with stated hash s. *)
From Coq Require Import NArith ZArith List Bool Lia.
From Common Require Import Outcome.
From C32 Require Import Gen Model ModelSpec ProofsChain ProofsImport ProofsProcess ProofsHistory.
Import ListNotations.
Local Open Scope N_scope.

(* Parents first, never twice, no panic — for every history.  From the initial state (only the
   root known), for every list of bad blocks and every history of block announces, externally
   imported blocks, finalisations and Process calls with ARBITRARY results (split, reordered,
   duplicated, forked, disconnected, forged, empty, unfinished; at most 12 ready fragments per
   call, requests asking for bodies as every request of full sync does):
   - no Process call panics,
   - every Process call returns without an importer error,
   - history_ok_b holds of what the run shows: over the whole history the importer is never
     handed a block whose parent is unknown (no EOrphan) or whose header is already stored
     (no EDup), no stated hash is imported twice, and no result that must be rejected (forged
     stated hash, or not a hash-linked chain) is accepted by validateResults. *)
Theorem C32_history_safe : forall bad root steps,
  steps_wf_b steps = true ->
  exists outs stf,
    run true true true bad (init_state root) steps = (outs, false, stf)
    /\ length outs = length steps
    /\ history_ok_b [] steps (observe bad steps outs) = true.
Proof.
  intros bad root steps W.
  exact (run_fixed_safe bad steps (init_state root) [] (init_inv root) (steps_wf_forall steps W)).
Qed.
Print Assumptions C32_history_safe.

(* the same from any state that satisfies the invariant (announced blocks carry their own hash,
   the kept disjoint fragments are non-empty good chains, everything imported so far is known) *)
Theorem C32_history_safe_from : forall bad steps st imported,
  inv_state st imported -> steps_wf_b steps = true ->
  exists outs stf,
    run true true true bad st steps = (outs, false, stf)
    /\ length outs = length steps
    /\ history_ok_b imported steps (observe bad steps outs) = true.
Proof.
  intros bad steps st imported I W.
  exact (run_fixed_safe bad steps st imported I (steps_wf_forall steps W)).
Qed.
Print Assumptions C32_history_safe_from.

(* what the event check means *)
Theorem C32_events_meaning : forall evs imp imp',
  events_ok_b imp evs = (true, imp') ->
  Forall (fun e => match e with EOrphan _ | EDup _ => False | _ => True end) evs
  /\ NoDup (imports_of evs)
  /\ (forall s, In s (imports_of evs) -> ~ In s imp)
  /\ (forall s, In s imp' <-> In s imp \/ In s (imports_of evs)).
Proof. exact events_ok_sound. Qed.
Print Assumptions C32_events_meaning.

(* Rejection.  A completed result whose response contains a block whose stated hash differs
   from the hash of its header, or (headers requested and present) is not a chain linked by
   header hashes and consecutive numbers, is never accepted by validateResults — whatever the
   bad-block list and the other two switches. *)
Theorem C32_reject_forged_or_unlinked : forall frg lg bad r,
  must_reject r = true -> forall q resp, classify true frg lg bad r <> VAccept q resp.
Proof. exact must_reject_not_accepted. Qed.
Print Assumptions C32_reject_forged_or_unlinked.

(* ---- non-vacuity: a fork tree  0 <- 1 <- 2 <- 3,  1 <- 4 <- 5; responses arrive split, out of
   order and duplicated; block 5's fragment waits as a disjoint fragment until 4 arrives *)
Definition hd (i p n : N) : header := mkhdr i p n.
Definition blk (h : header) : bdata := mkbd (h_hash h) (Some h) true false.
Definition H1 := hd 1 0 1. Definition H2 := hd 2 1 2. Definition H3 := hd 3 2 3.
Definition H4 := hd 4 1 2. Definition H5 := hd 5 4 3.
Definition res (who : N) (l : list bdata) : result := mkres who true (mkreq 19 0) l.

Definition ex_history : list step :=
  [ SProcess [ res 1 [blk H5]; res 2 [blk H2; blk H3]; res 1 [blk H1]; res 2 [blk H2; blk H3] ];
    SProcess [ res 3 [blk H4] ] ].

Example C32_example :
  steps_wf_b ex_history = true /\
  match run true true true [] (init_state 0) ex_history with
  | ([Some r1; Some r2], false, st) =>
    pr_events r1 = [EImport 1; EImport 2; EImport 3; ESkip 2; ESkip 3]
    /\ map (map d_hash) (u_disjoint (p_un (pr_state r1))) = [[5]] /\ p_queue (pr_state r1) = [4]
    /\ pr_events r2 = [EImport 4; EImport 5]
    /\ u_disjoint (p_un st) = []
  | _ => False
  end.
Proof. vm_compute. repeat split; reflexivity. Qed.

(* a forged response: block 3's header under a stated hash 77, linked "correctly" to a made-up
   header whose parent is 77 *)
Definition forged_result : result :=
  mkres 1 true (mkreq 19 0) [ mkbd 77 (Some H3) true false; blk (hd 9 77 4) ].

Example C32_forged_example :
  must_reject forged_result = true
  /\ classify true true true [] forged_result = VRep REP_BAD_MESSAGE.
Proof. vm_compute. split; reflexivity. Qed.

(* ---- the pinned tree (process false false false) violated the property *)

(* the forged response above was accepted *)
Theorem C32_forged_accepted_refuted :
  exists r q resp, must_reject r = true /\ classify false false false [] r = VAccept q resp.
Proof. exists forged_result. eexists _, _. vm_compute. split; reflexivity. Qed.
Print Assumptions C32_forged_accepted_refuted.

(* ... and forged blocks reached the importer: with blocks 1, 2 known, block 3's header is
   imported under the stated hash 77; sent again under the stated hash 78 the same header is
   handed to the importer a second time (EDup: the block state already has it) *)
Theorem C32_forged_imported_twice_refuted :
  exists steps outs st, steps_wf_b steps = true /\
    run false false false [] (init_state 0) steps = (outs, false, st) /\
    existsb (fun o => match o with
                      | Some r => existsb (fun e => match e with EDup _ => true | _ => false end) (pr_events r)
                      | None => false end) outs = true.
Proof.
  exists [ SProcess [ res 1 [blk H1; blk H2] ];
           SProcess [ mkres 1 true (mkreq 19 0) [ mkbd 77 (Some H3) true false ] ];
           SProcess [ mkres 2 true (mkreq 19 0) [ mkbd 78 (Some H3) true false ] ] ].
  eexists _, _. vm_compute. repeat split; reflexivity.
Qed.
Print Assumptions C32_forged_imported_twice_refuted.

(* one empty response made Process panic (index out of range) *)
Theorem C32_empty_response_panic_refuted :
  exists steps, steps_wf_b steps = true /\
    snd (fst (run false false false [] (init_state 0) steps)) = true.
Proof. exists [ SProcess [ res 1 [] ] ]. vm_compute. split; reflexivity. Qed.
Print Assumptions C32_empty_response_panic_refuted.

(* a body-only answer that completes two announced, unrelated blocks handed the importer a block
   whose parent is unknown *)
Theorem C32_completed_blocks_orphan_refuted :
  exists steps outs st, steps_wf_b steps = true /\
    run false false false [] (init_state 0) steps = (outs, false, st) /\
    existsb (fun o => match o with
                      | Some r => existsb (fun e => match e with EOrphan _ => true | _ => false end) (pr_events r)
                      | None => false end) outs = true.
Proof.
  exists [ SAnnounce H1; SAnnounce H5;
           SProcess [ mkres 1 true (mkreq 18 0) [ mkbd 1 None true false; mkbd 5 None true false ] ] ].
  eexists _, _. vm_compute. repeat split; reflexivity.
Qed.
Print Assumptions C32_completed_blocks_orphan_refuted.

(* a body-only answer with a known bad block made validateResults panic (nil header) *)
Theorem C32_bad_block_nil_header_panic_refuted :
  exists steps, steps_wf_b steps = true /\
    snd (fst (run false false false [1] (init_state 0) steps)) = true.
Proof.
  exists [ SAnnounce H1; SProcess [ mkres 1 true (mkreq 18 0) [ mkbd 1 None true false ] ] ].
  vm_compute. split; reflexivity.
Qed.
Print Assumptions C32_bad_block_nil_header_panic_refuted.
