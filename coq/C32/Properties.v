(* C32/Properties.v — property C32: full sync imports only consistent chains, parents first.
   Only statements, each closed by `exact`/`apply` of a lemma, Print Assumptions beneath.

   The subject is the model of the REPAIRED FullSyncStrategy.Process
   (process true true true = fixes/C32-1..3 applied) running against the environment of
   Model.v: `known` = the headers of the block state, import_block = the checks of
   blockImporter.importBlock in their order.  An EOrphan event is a block handed to the
   importer while its parent header is unknown; EDup a header handed over although the block
   state has it; EImport s the execution and storing of the block with stated hash s. *)
From Coq Require Import NArith ZArith List Bool Lia Permutation Sorted.
From Common Require Import Outcome.
From C31 Require Model ModelSpec.
From C32 Require Import Gen Model ModelSpec ModelPrune ProofsChain ProofsImport ProofsProcess ProofsHistory ProofsPrune ProofsPlanTie.
Import ListNotations.
Local Open Scope N_scope.

(* Parents first, never twice, no panic — for every history.  From the initial state (only the
   root known), for every list of bad blocks and every history of block announces (SAnnounce:
   straight into unreadyBlocks; SAnnounceMsg: through OnBlockAnnounce), externally
   imported blocks, finalisations and Process calls with ARBITRARY results (split, reordered,
   duplicated, forked, disconnected, forged, empty, unfinished; at most 12 ready fragments per
   call, requests asking for bodies as every request of full sync does):
   - no Process call panics,
   - every Process call returns without an importer error,
   - history_ok_b holds of what the run shows: over the whole history the importer is never
     handed a block whose parent is unknown (no EOrphan) or whose header is already stored
     (no EDup), no stated hash is imported twice, and no result that must be rejected (forged
     stated hash, or not a hash-linked chain) is accepted by validateResults. *)
Theorem C32_history_safe : forall bad root steps,
  steps_wf_b steps = true ->
  exists outs stf,
    run true true true bad (init_state root) steps = (outs, false, stf)
    /\ length outs = length steps
    /\ history_ok_b [] steps (observe bad steps outs) = true.
Proof.
  intros bad root steps W.
  exact (run_fixed_safe bad steps (init_state root) [] (init_inv root) (steps_wf_forall steps W)).
Qed.
Print Assumptions C32_history_safe.

(* the same from any state that satisfies the invariant (announced blocks carry their own hash,
   the kept disjoint fragments are non-empty good chains, everything imported so far is known) *)
Theorem C32_history_safe_from : forall bad steps st imported,
  inv_state st imported -> steps_wf_b steps = true ->
  exists outs stf,
    run true true true bad st steps = (outs, false, stf)
    /\ length outs = length steps
    /\ history_ok_b imported steps (observe bad steps outs) = true.
Proof.
  intros bad steps st imported I W.
  exact (run_fixed_safe bad steps st imported I (steps_wf_forall steps W)).
Qed.
Print Assumptions C32_history_safe_from.

(* The same for ANY order the library sort leaves the ready fragments in, and without the bound
   of 12 fragments.  [srt] stands for what slices.SortFunc does to the slice of fragments; the only
   thing assumed of it is that it returns a permutation of its argument (the model's own
   sort_frags is one: C32_model_sort_is_a_sort).  Stated directly on the events of the run:
   for every bad-block list and every history whose requests ask for bodies,
   - no Process call panics and none returns an error,
   - no event of the importer, over the whole history, is EOrphan (block handed over while its
     parent header is unknown) or EDup (header handed over although the block state has it),
   - the stated hashes of the EImport events are pairwise distinct (nothing is imported twice),
   - history_ok_b holds (the predicate the driver evaluates on the Go observables). *)
Theorem C32_parents_first_never_twice_any_sort :
  forall srt : list (list bdata) -> list (list bdata), (forall l, Permutation (srt l) l) ->
  forall bad root steps, steps_body_b steps = true ->
  exists outs stf,
    run_with srt true true true bad (init_state root) steps = (outs, false, stf)
    /\ length outs = length steps
    /\ Forall (fun o => match o with Some r => pr_error r = false | None => True end) outs
    /\ Forall (fun e => match e with EOrphan _ | EDup _ => False | _ => True end) (all_events outs)
    /\ NoDup (imports_of (all_events outs))
    /\ history_ok_b [] steps (observe bad steps outs) = true.
Proof. exact parents_first_any_sort. Qed.
Print Assumptions C32_parents_first_never_twice_any_sort.

(* The block state that PRUNES on finalisation (ModelPrune.v: as dot/state.BlockState, a finalisation
   — by a justification imported in the same Process call or by GRANDPA between calls — drops every
   stored block that is neither an ancestor nor a descendant of the finalised one, and HasHeader
   answers false for it afterwards; [prune] = false gives the growing block state again).
   For every permutation-producing sort, both values of [prune], every bad-block list and EVERY
   history (announces directly or through OnBlockAnnounce, headers stored from elsewhere,
   finalisations of stored blocks, Process calls with arbitrary results asking for bodies):
   - no Process call panics;
   - PARENTS FIRST: no importer event is EOrphan, i.e. no block is ever handed over whose parent
     header had never been in the block state; the only refusal for a missing parent that can occur
     is EOrphanPruned: the parent WAS stored and a finalisation pruned its fork meanwhile
     (C32_pruned_parent_example shows that this does occur, within one Process call);
   - no header is handed over that the block state already has (no EDup);
   - PROVENANCE: every imported block (EImport s) is a block of some response of the history that
     validateResults accepted, and in that response its stated hash equals the hash of its header. *)
Theorem C32_pruning_parents_first_provenance :
  forall srt : list (list bdata) -> list (list bdata), (forall l, Permutation (srt l) l) ->
  forall prune bad root steps, tsteps_body_b steps = true ->
  exists outs stf,
    run_t srt prune bad (init_tstate root) steps = (outs, false, stf)
    /\ length outs = length steps
    /\ Forall (fun e => match e with EOrphan _ | EDup _ => False | _ => True end) (tall_events outs)
    /\ (forall s, In (EImport s) (tall_events outs) -> provenance bad steps s).
Proof. exact pruning_safe. Qed.
Print Assumptions C32_pruning_parents_first_provenance.

(* Request planning.  With numOfTasks = n, best block number best and peer target target (both below
   2^32, n too): when the node lags (best < target) the ascending requests NextActions adds to the
   popped queue entries are exactly C31's plan for the heights best+1 .. min(best+1+n*127, target):
   they tile that range (every height once, ascending, each request 1..128 blocks); when it does not
   lag there are none. *)
Theorem C32_next_actions_requests : forall n best target,
  target < 4294967296 -> n < 4294967296 -> best < 4294967296 ->
  (target <= best -> next_asc n best target = [])
  /\ (best < target ->
      let start := best + 1 in
      let stop := N.min (start + n * 127) target in
      let p := next_asc n best target in
         p = C31.Model.plan start stop
      /\ C31.ModelSpec.plan_ok_b start stop p = true
      /\ concat (map C31.ModelSpec.heights p) = C31.Model.nseq start (N.to_nat (stop - start + 1))
      /\ Forall (fun r => 1 <= snd r <= C31.Model.max_resp) p).
Proof.
  intros n best target T Hn B. split; [intro H; now apply next_asc_none|].
  intro H. now apply next_asc_plan.
Qed.
Print Assumptions C32_next_actions_requests.

Example C32_next_actions_example :
  next_asc 3 10 1000 = [(11, 128); (139, 128); (267, 126)] /\ next_asc 3 10 12 = [(11, 2)]
  /\ next_asc 3 10 10 = [] /\ next_asc 3 0 1 = [(1, 1)].
Proof. vm_compute. repeat split; reflexivity. Qed.

(* the precondition of C32_history_safe implies the one above, and run is run_with sort_frags *)
Theorem C32_wf_implies_body : forall steps, steps_wf_b steps = true -> steps_body_b steps = true.
Proof. exact steps_wf_body. Qed.
Print Assumptions C32_wf_implies_body.

(* the model's sort_frags (what the extracted model runs; insertion sort, as slices.SortFunc is up
   to 12 elements) returns a permutation of its argument ordered by the number of the first block *)
Theorem C32_model_sort_is_a_sort : forall l,
  Permutation (sort_frags l) l
  /\ StronglySorted (fun a b => first_num a <= first_num b) (sort_frags l).
Proof. intro l. split; [apply sort_frags_perm|apply sort_frags_sorted]. Qed.
Print Assumptions C32_model_sort_is_a_sort.

(* validateResults of the repaired code never panics, whatever the results (no precondition) *)
Theorem C32_validate_never_panics : forall bad rs,
  (forall r, classify true true true bad r <> VPanic)
  /\ (exists v, validate_results true true true bad rs (mkval [] [] []) = Ok v)
  /\ (exists acc, accepted true true true bad rs = Some acc /\ rejections_ok_b rs acc = true).
Proof. exact validate_never_panics. Qed.
Print Assumptions C32_validate_never_panics.

(* what the event check means *)
Theorem C32_events_meaning : forall evs imp imp',
  events_ok_b imp evs = (true, imp') ->
  Forall (fun e => match e with EOrphan _ | EDup _ => False | _ => True end) evs
  /\ NoDup (imports_of evs)
  /\ (forall s, In s (imports_of evs) -> ~ In s imp)
  /\ (forall s, In s imp' <-> In s imp \/ In s (imports_of evs)).
Proof. exact events_ok_sound. Qed.
Print Assumptions C32_events_meaning.

(* Rejection.  A completed result whose response contains a block whose stated hash differs
   from the hash of its header, or (headers requested and present) is not a chain linked by
   header hashes and consecutive numbers, is never accepted by validateResults — whatever the
   bad-block list and the other two switches. *)
Theorem C32_reject_forged_or_unlinked : forall frg lg bad r,
  must_reject r = true -> forall q resp, classify true frg lg bad r <> VAccept q resp.
Proof. exact must_reject_not_accepted. Qed.
Print Assumptions C32_reject_forged_or_unlinked.

(* the literal constants of the Go source the examples below (and the harness) rely on, re-read
   from dot/network/messages/block.go on every run (Gen.v) *)
Example C32_consts :
  f_header = 1 /\ f_body = 2 /\ dir_desc = 1 /\ Z.to_N Gen.dir_ascending = 0
  /\ Z.to_N Gen.requested_data_justification = 16 /\ Z.to_N Gen.bootstrap_request_data = 19
  /\ Z.to_N Gen.max_blocks_in_response = 128.
Proof. vm_compute. repeat split; reflexivity. Qed.

(* ---- non-vacuity: a fork tree  0 <- 1 <- 2 <- 3,  1 <- 4 <- 5; responses arrive split, out of
   order and duplicated; block 5's fragment waits as a disjoint fragment until 4 arrives *)
Definition hd (i p n : N) : header := mkhdr i p n.
Definition blk (h : header) : bdata := mkbd (h_hash h) (Some h) true false.
Definition H1 := hd 1 0 1. Definition H2 := hd 2 1 2. Definition H3 := hd 3 2 3.
Definition H4 := hd 4 1 2. Definition H5 := hd 5 4 3.
Definition res (who : N) (l : list bdata) : result := mkres who true (mkreq 19 0) l.

Definition ex_history : list step :=
  [ SProcess [ res 1 [blk H5]; res 2 [blk H2; blk H3]; res 1 [blk H1]; res 2 [blk H2; blk H3] ];
    SProcess [ res 3 [blk H4] ] ].

Example C32_example :
  steps_wf_b ex_history = true /\
  match run true true true [] (init_state 0) ex_history with
  | ([Some r1; Some r2], false, st) =>
    pr_events r1 = [EImport 1; EImport 2; EImport 3; ESkip 2; ESkip 3]
    /\ map (map d_hash) (u_disjoint (p_un (pr_state r1))) = [[5]] /\ p_queue (pr_state r1) = [QAncestors 4]
    /\ pr_events r2 = [EImport 4; EImport 5]
    /\ u_disjoint (p_un st) = []
  | _ => False
  end.
Proof. vm_compute. repeat split; reflexivity. Qed.

(* the same history when the "sort" reverses the fragments instead: another order of the
   importer calls, still parents first *)
Example C32_example_other_sort :
  steps_body_b ex_history = true /\
  (forall l : list (list bdata), Permutation (rev l) l) /\
  match run_with (@rev (list bdata)) true true true [] (init_state 0) ex_history with
  | ([Some r1; Some r2], false, st) =>
    pr_events r1 = [EImport 1; EImport 2; EImport 3; ESkip 2; ESkip 3]
    /\ pr_events r2 = [EImport 4; EImport 5]
  | _ => False
  end.
Proof.
  split; [reflexivity|]. split; [intro l; apply Permutation_sym, Permutation_rev|].
  vm_compute. split; reflexivity.
Qed.

(* a body-only answer completing four announced blocks listed out of number order (3, then the
   fork 5-6, then 4), blocks 1 and 2 known: the fork goes first, parents before children *)
Example C32_body_batch_example :
  let H3' := hd 3 2 3 in let H4' := hd 4 3 4 in let H5' := hd 5 0 1 in let H6' := hd 6 5 2 in
  let hist := [ SKnown 1; SKnown 2; SAnnounce H3'; SAnnounce H5'; SAnnounce H6'; SAnnounce H4';
                SProcess [ mkres 0 true (mkreq 18 0)
                  [ mkbd 3 None true false; mkbd 5 None true false; mkbd 6 None true false;
                    mkbd 4 None true false ] ] ] in
  steps_wf_b hist = true /\
  match run true true true [] (init_state 0) hist with
  | ([None; None; None; None; None; None; Some r], false, _) =>
    pr_events r = [EImport 5; EImport 6; EImport 3; EImport 4] /\ pr_error r = false
  | _ => False
  end.
Proof. vm_compute. repeat split; reflexivity. Qed.

(* block announces through OnBlockAnnounce (best block number 2): block 3 is new (tracked, body
   requested), announced again it is not relevant, block 4 = H4 is a bad block, a block 200 ahead
   is ignored; the body for 3 then arrives and 3 is imported after its parent 2 *)
Example C32_announce_example :
  let far := hd 9 8 300 in
  let hist := [ SProcess [ res 1 [blk H1; blk H2] ];
                SAnnounceMsg 7 H3 2; SAnnounceMsg 8 H3 2; SAnnounceMsg 7 H4 2; SAnnounceMsg 7 far 2;
                SAnnounceMsg 7 H2 2;
                SProcess [ mkres 7 true (mkreq 18 0) [ mkbd 3 None true false ] ] ] in
  steps_wf_b hist = true /\
  match run true true true [4] (init_state 0) hist with
  | ([Some r1; Some a1; Some a2; Some a3; Some a4; Some a5; Some r2], false, st) =>
    pr_events r1 = [EImport 1; EImport 2]
    /\ pr_reps a1 = [(7, REP_GOSSIP_OK)] /\ p_queue (pr_state a1) = [QBody 3]
    /\ map d_hash (u_incomplete (p_un (pr_state a1))) = [3]
    /\ pr_reps a2 = [(8, REP_NOT_RELEVANT)] /\ pr_reps a3 = [(7, REP_BAD_ANNOUNCE)]
    /\ pr_reps a4 = [] /\ pr_reps a5 = [(7, REP_GOSSIP_OK)] /\ p_queue (pr_state a5) = [QBody 3]
    /\ pr_events r2 = [EImport 3] /\ u_incomplete (p_un st) = []
  | _ => False
  end.
Proof. vm_compute. repeat split; reflexivity. Qed.

(* Pruning inside one Process call: forks 1 <- 2 (= H2) and 4 (= H4, parent 1) are stored; one
   response brings block 5 (child of 4) and one brings block 3 (child of 2) WITH a justification.
   Both have number 3; 3 arrived first, is imported first and finalised, which prunes block 4; block 5 is then
   handed over although its parent is no longer in the block state: Process returns an error.
   Without pruning both are imported. *)
Example C32_pruned_parent_example :
  let jblk h := mkbd (h_hash h) (Some h) true true in
  let hist := [ TKnown H1; TKnown H2; TKnown H4;
                TProcess [ res 2 [jblk H3]; res 1 [blk H5] ] ] in
  tsteps_body_b hist = true /\
  match run_t sort_frags true [] (init_tstate 0) hist with
  | ([None; None; None; Some r], false, _) =>
    tr_events r = [EImport 3; EFinal 3; EOrphanPruned 5] /\ tr_error r = true
    /\ map k_hash (t_known (ts_env (tr_state r))) = [3; 2; 1; 0]
  | _ => False
  end /\
  match run_t sort_frags false [] (init_tstate 0) hist with
  | ([None; None; None; Some r], false, _) =>
    tr_events r = [EImport 3; EFinal 3; EImport 5] /\ tr_error r = false
  | _ => False
  end.
Proof. vm_compute. repeat split; reflexivity. Qed.

(* responses that must be rejected because a requested header is missing or a link is broken *)
Example C32_must_reject_examples :
  must_reject (mkres 1 true (mkreq 19 0) [ mkbd 1 None true false ]) = true
  /\ must_reject (res 1 [blk H1; blk H3]) = true
  /\ must_reject (mkres 1 true (mkreq 19 1) [blk H1; blk H2]) = true   (* descending, sent ascending *)
  /\ must_reject (mkres 1 true (mkreq 19 1) [blk H2; blk H1]) = false
  /\ must_reject (mkres 1 true (mkreq 18 0) [ mkbd 1 None true false ]) = false.
Proof. vm_compute. repeat split; reflexivity. Qed.

(* a forged response: block 3's header under a stated hash 77, linked "correctly" to a made-up
   header whose parent is 77 *)
Definition forged_result : result :=
  mkres 1 true (mkreq 19 0) [ mkbd 77 (Some H3) true false; blk (hd 9 77 4) ].

Example C32_forged_example :
  must_reject forged_result = true
  /\ classify true true true [] forged_result = VRep REP_BAD_MESSAGE.
Proof. vm_compute. split; reflexivity. Qed.

(* ---- the pinned tree (process false false false) violated the property *)

(* the forged response above was accepted *)
Theorem C32_forged_accepted_refuted :
  exists r q resp, must_reject r = true /\ classify false false false [] r = VAccept q resp.
Proof. exists forged_result. eexists _, _. vm_compute. split; reflexivity. Qed.
Print Assumptions C32_forged_accepted_refuted.

(* ... and forged blocks reached the importer: with blocks 1, 2 known, block 3's header is
   imported under the stated hash 77; sent again under the stated hash 78 the same header is
   handed to the importer a second time (EDup: the block state already has it) *)
Theorem C32_forged_imported_twice_refuted :
  exists steps outs st, steps_wf_b steps = true /\
    run false false false [] (init_state 0) steps = (outs, false, st) /\
    existsb (fun o => match o with
                      | Some r => existsb (fun e => match e with EDup _ => true | _ => false end) (pr_events r)
                      | None => false end) outs = true.
Proof.
  exists [ SProcess [ res 1 [blk H1; blk H2] ];
           SProcess [ mkres 1 true (mkreq 19 0) [ mkbd 77 (Some H3) true false ] ];
           SProcess [ mkres 2 true (mkreq 19 0) [ mkbd 78 (Some H3) true false ] ] ].
  eexists _, _. vm_compute. repeat split; reflexivity.
Qed.
Print Assumptions C32_forged_imported_twice_refuted.

(* one empty response made Process panic (index out of range) *)
Theorem C32_empty_response_panic_refuted :
  exists steps, steps_wf_b steps = true /\
    snd (fst (run false false false [] (init_state 0) steps)) = true.
Proof. exists [ SProcess [ res 1 [] ] ]. vm_compute. split; reflexivity. Qed.
Print Assumptions C32_empty_response_panic_refuted.

(* a body-only answer that completes two announced, unrelated blocks handed the importer a block
   whose parent is unknown *)
Theorem C32_completed_blocks_orphan_refuted :
  exists steps outs st, steps_wf_b steps = true /\
    run false false false [] (init_state 0) steps = (outs, false, st) /\
    existsb (fun o => match o with
                      | Some r => existsb (fun e => match e with EOrphan _ => true | _ => false end) (pr_events r)
                      | None => false end) outs = true.
Proof.
  exists [ SAnnounce H1; SAnnounce H5;
           SProcess [ mkres 1 true (mkreq 18 0) [ mkbd 1 None true false; mkbd 5 None true false ] ] ].
  eexists _, _. vm_compute. repeat split; reflexivity.
Qed.
Print Assumptions C32_completed_blocks_orphan_refuted.

(* a body-only answer with a known bad block made validateResults panic (nil header) *)
Theorem C32_bad_block_nil_header_panic_refuted :
  exists steps, steps_wf_b steps = true /\
    snd (fst (run false false false [1] (init_state 0) steps)) = true.
Proof.
  exists [ SAnnounce H1; SProcess [ mkres 1 true (mkreq 18 0) [ mkbd 1 None true false ] ] ].
  vm_compute. split; reflexivity.
Qed.
Print Assumptions C32_bad_block_nil_header_panic_refuted.

(* ---- Closer: "never imported/stored twice" over the PRUNING block state -------------------- *)
From C32 Require Import ProofsNeverTwice.

(* ProofsNeverTwice.v refines ModelPrune's environment by what dot/state.BlockState.AddBlock ->
   BlockTree.AddBlock does on top of HasHeader(parent): the parent must be a node of the in-memory
   tree, whose root moves to the finalised block on Prune (stored blocks carry their ancestor path,
   in_tree k := tree root in path k, p_import_block = import_block_t + the refusal PNotInTree,
   pfinalise = Prune; pe_ever = ghost list of every hash ever stored).
   For EVERY sequence of importer calls (PBlock b: arbitrary block data) and finalisations (PFin f:
   SetFinalisedHash of any stored block, as GRANDPA or an imported justification does) from the
   genesis state, IF the header hash determines the parent hash (one function par with
   h_parent h = par (h_hash h) for every offered header - header-hash injectivity on the parent
   link), every offered block's stated hash is the hash of its header (what validateResults
   enforces: C32_reject_forged_or_unlinked / provenance in C32_pruning_parents_first_provenance),
   and no offered hash is the genesis' parent hash, THEN
   - the hashes imported (executed and stored: EImport) over the whole run are pairwise distinct,
   - the genesis is never imported,
   - the ghost list of all hashes ever stored is exactly: the imported hashes, latest first, then
     the genesis - so "pairwise distinct" says that nothing is stored twice, pruned or not. *)
Theorem C32_never_twice_under_pruning : forall (par : N -> N) (root : N) (steps : list pstep),
  par root <> root ->
  (forall b h, In (PBlock b) steps -> d_header b = Some h ->
     h_hash h = d_hash b /\ h_parent h = par (h_hash h) /\ h_hash h <> par root) ->
  forall evs e', p_run (pinit root (par root)) steps = (evs, e') ->
    NoDup (pimports evs)
    /\ ~ In root (pimports evs)
    /\ pe_ever e' = rev (pimports evs) ++ [root].
Proof. exact never_twice. Qed.
Print Assumptions C32_never_twice_under_pruning.

(* The same for one importer call at any point of such a run: a block whose hash was stored at any
   earlier time - still stored, or pruned since - is not imported; what is imported is the offered
   stated hash, it is not the genesis and was not imported before. *)
Theorem C32_never_reimported_under_pruning :
  forall (par : N -> N) (root : N) (pre : list pstep) (b : bdata),
  par root <> root ->
  (forall b' h, In (PBlock b') (pre ++ [PBlock b]) -> d_header b' = Some h ->
     h_hash h = d_hash b' /\ h_parent h = par (h_hash h) /\ h_hash h <> par root) ->
  forall evs0 e evs e' err,
    p_run (pinit root (par root)) pre = (evs0, e) ->
    p_import_block e b = (evs, e', err) ->
    (In (d_hash b) (pe_ever e) -> pimports evs = [])
    /\ (forall s, In s (pimports evs) -> s = d_hash b /\ ~ In s (root :: pimports evs0)).
Proof. exact never_reimported. Qed.
Print Assumptions C32_never_reimported_under_pruning.

(* The refined importer step against ModelPrune's (erase forgets paths and tree root): unless
   AddBlock refuses the block because its parent is no tree node (PNotInTree), it produces the
   events and the error flag of import_block_t, for both values of the prune switch, and - when
   the block carries no justification - the same block state.  No hypothesis on the state. *)
Theorem C32_pruning_importer_refines : forall prune e b evs e' err,
  p_import_block e b = (evs, e', err) -> refused_by_tree evs = false ->
  exists te', import_block_t prune (erase e) b = (flat_map unPE evs, te', err)
    /\ (d_just b = false -> te' = erase e').
Proof. exact sim_import_block. Qed.
Print Assumptions C32_pruning_importer_refines.

(* non-vacuity: forks 0 <- 1 <- 2 <- 3 and 1 <- 4 <- 5; 3 is imported with a justification and
   finalised, which prunes 4; 5 is refused (parent pruned); 4 offered again is refused by the tree
   (its parent 1 is stored but is no tree node any more); the hypotheses of the theorem hold of
   this run.  ModelPrune's importer, which only asks HasHeader, imports 4 a second time. *)
Example C32_never_twice_example :
  nt_par 0 <> 0
  /\ (forall b h, In (PBlock b) (map PBlock nt_blocks) -> d_header b = Some h ->
        h_hash h = d_hash b /\ h_parent h = nt_par (h_hash h) /\ h_hash h <> nt_par 0)
  /\ match p_run (pinit 0 (nt_par 0)) (map PBlock nt_blocks) with
     | (evs, e) =>
       evs = [PE (EImport 1); PE (EImport 2); PE (EImport 4); PE (EImport 3); PE (EFinal 3);
              PE (EOrphanPruned 5); PNotInTree 4; PE (ESkip 3)]
       /\ pimports evs = [1; 2; 4; 3]
       /\ map pb_hash (pe_known e) = [3; 2; 1; 0] /\ pe_root e = 3 /\ pe_ever e = [3; 4; 2; 1; 0]
     end.
Proof. exact never_twice_example. Qed.

Example C32_hasheader_only_imports_twice :
  (fix go (e : tenv) (l : list bdata) : list event :=
     match l with
     | [] => []
     | b :: r => match import_block_t true e b with (ev, e1, _) => ev ++ go e1 r end
     end) (mktenv [mkkb 0 99 0] [0] 0) nt_blocks
  = [EImport 1; EImport 2; EImport 4; EImport 3; EFinal 3; EOrphanPruned 5; EImport 4; ESkip 3].
Proof. exact two_envs_differ. Qed.

(* ---- Closer: Process re-run over the refined pruning block state --------------------------- *)
From C32 Require Import ProofsNeverTwiceProcess.

(* ProofsNeverTwiceProcess.v runs the repaired Process over ProofsNeverTwice.v's refined block state
   (penv: ancestor paths, tree root, AddBlock's parent-in-tree refusal): process_x is
   ModelPrune.process_t with the importer replaced by p_import_all (= import_all_t over penv; the
   two fragment loops are ModelPrune's own, asked through `erase`), run_x is run_t over penv on the
   SAME histories (tstep); a header arriving from elsewhere (TKnown) goes through AddBlock as one
   importer call, TFinalise is pfinalise.
   For EVERY such history from the genesis state (requests ask for bodies, any sort that
   permutes), IF the header hash determines the parent hash for every header the history mentions
   (announced, from elsewhere, in any response - accepted or not) and none of these hashes is the
   genesis' parent hash (history_par), THEN
   - the run does not panic;
   - no Process event is EOrphan (parent never stored) or EDup: parents first, as in
     C32_pruning_parents_first_provenance (refusals that remain possible: EOrphanPruned and
     PNotInTree - the parent was stored and a finalisation pruned it / moved the tree root past it);
   - every hash Process imports has its PROVENANCE (an accepted response of the history in which the
     stated hash is the header hash);
   - the hashes imported by Process are PAIRWISE DISTINCT; more: all hashes ever stored (Process
     imports and headers from elsewhere, x_all_events) are pairwise distinct, none is the genesis,
     and the final ghost list pe_ever is exactly these, latest first, then the genesis. *)
Theorem C32_process_never_twice_under_pruning :
  forall srt : list (list bdata) -> list (list bdata), (forall l, Permutation (srt l) l) ->
  forall (par : N -> N) bad root steps,
  par root <> root -> tsteps_body_b steps = true -> history_par par (par root) steps ->
  exists outs stf,
    run_x srt bad (init_xstate root (par root)) steps = (outs, false, stf)
    /\ length outs = length steps
    /\ Forall (fun e => match e with PE (EOrphan _) | PE (EDup _) => False | _ => True end)
              (x_proc_events outs)
    /\ (forall s, In s (pimports (x_proc_events outs)) -> provenance bad steps s)
    /\ NoDup (pimports (x_proc_events outs))
    /\ incl (pimports (x_proc_events outs)) (pimports (x_all_events outs))
    /\ NoDup (pimports (x_all_events outs))
    /\ ~ In root (pimports (x_all_events outs))
    /\ pe_ever (xs_env stf) = rev (pimports (x_all_events outs)) ++ [root].
Proof. exact process_never_twice. Qed.
Print Assumptions C32_process_never_twice_under_pruning.

(* non-vacuity: the fork tree of C32_never_twice_example as a history of Process calls, a header
   from elsewhere, an announcement and finalisations; the hypotheses hold; Process is offered the
   pruned block 4 again and AddBlock refuses it (PNotInTree) *)
Example C32_process_never_twice_example :
  nt_par 0 <> 0 /\ tsteps_body_b x_hist = true /\ history_par nt_par (nt_par 0) x_hist
  /\ match run_x sort_frags [] (init_xstate 0 (nt_par 0)) x_hist with
     | (outs, p, stf) =>
       p = false
       /\ x_all_events outs =
          [PE (EImport 1); PE (EImport 2); PE (EImport 4); PE (EImport 3); PE (EFinal 3);
           PE (EOrphanPruned 5); PNotInTree 4; PNotInTree 4; PE (ESkip 3)]
       /\ x_proc_events outs =
          [PE (EImport 1); PE (EImport 2); PE (EImport 3); PE (EFinal 3);
           PE (EOrphanPruned 5); PNotInTree 4; PE (ESkip 3)]
       /\ map pb_hash (pe_known (xs_env stf)) = [3; 2; 1; 0]
       /\ pe_ever (xs_env stf) = [3; 4; 2; 1; 0] /\ pe_root (xs_env stf) = 3
     end.
Proof. exact process_never_twice_example. Qed.

(* C32_pruning_importer_refines extended to blocks WITH a justification.  At any point of a run of
   importer calls and finalisations from the genesis (hypotheses of
   C32_never_reimported_under_pruning), with ModelPrune's pruning switched on: unless AddBlock
   refuses the block because its parent is no tree node, the refined importer step and
   ModelPrune's import_block_t on the erased state produce the same events, the same error flag
   and the SAME BLOCK STATE - also when the block carries a justification, i.e. when the import
   finalises the block and prunes: the set BlockTree.Prune keeps, read off the stored ancestor
   paths (pfinalise), is the set ModelPrune's finalise computes with its fuel-bounded ancestor
   closures over the stored parent links. *)
Theorem C32_pruning_importer_refines_with_justification :
  forall (par : N -> N) (root : N) (pre : list pstep) (b : bdata),
  par root <> root ->
  (forall b' h, In (PBlock b') (pre ++ [PBlock b]) -> d_header b' = Some h ->
     h_hash h = d_hash b' /\ h_parent h = par (h_hash h) /\ h_hash h <> par root) ->
  forall evs0 e evs e' err,
    p_run (pinit root (par root)) pre = (evs0, e) ->
    p_import_block e b = (evs, e', err) -> refused_by_tree evs = false ->
    import_block_t true (erase e) b = (flat_map unPE evs, erase e', err).
Proof. exact importer_refines_with_justification. Qed.
Print Assumptions C32_pruning_importer_refines_with_justification.
