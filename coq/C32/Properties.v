From C32 Require Import Gen Model ModelSpec.
