(* C32/ModelPrune.v — FullSyncStrategy.Process and OnBlockAnnounce against a block state that
   PRUNES on finalisation, as dot/state.BlockState does (SetFinalisedHash -> BlockTree.Prune: the
   unfinalised blocks that are neither ancestors nor descendants of the finalised block are dropped
   from the in-memory map and were never written to the database, so HasHeader answers false for
   them afterwards).  Definitions only.  The environment keeps the headers it has (hash, parent,
   number), the finalised number, and a GHOST set t_ever of every hash it ever had; the ghost set
   only classifies a refused block: EOrphan = the parent was never known, EOrphanPruned = it was
   known and has been pruned since.  [prune] = false switches the pruning off (then this is the
   environment of Model.v with headers remembered). *)
From Coq Require Import NArith ZArith List Bool.
From Common Require Import Outcome.
From C32 Require Import Gen Model.
Import ListNotations.
Local Open Scope N_scope.

Record kblock := mkkb { k_hash : N; k_parent : N; k_number : N }.
Record tenv := mktenv { t_known : list kblock; t_ever : list N; t_fin : N }.

Definition tknows (e : tenv) (h : N) : bool := existsb (fun k => k_hash k =? h) (t_known e).
Definition tever (e : tenv) (h : N) : bool := existsb (N.eqb h) (t_ever e).

(* cur and its ancestors among the stored headers *)
Fixpoint anc_closure (fuel : nat) (known : list kblock) (cur : N) : list N :=
  match fuel with
  | O => [cur]
  | S f => cur :: match find (fun k => k_hash k =? cur) known with
                  | Some k => anc_closure f known (k_parent k)
                  | None => []
                  end
  end.
Definition is_anc (known : list kblock) (a d : N) : bool :=
  existsb (N.eqb a) (anc_closure (length known) known d).

(* BlockTree.Prune(F) as seen through HasHeader: keep F, its ancestors and its descendants *)
Definition prune_known (known : list kblock) (f : N) : list kblock :=
  filter (fun k => is_anc known (k_hash k) f || is_anc known f (k_hash k)) known.

Definition add_known (e : tenv) (k : kblock) : tenv :=
  mktenv (k :: t_known e) (k_hash k :: t_ever e) (t_fin e).

(* SetFinalisedHash(h) of a stored block with number n *)
Definition finalise (prune : bool) (e : tenv) (h n : N) : tenv :=
  mktenv (if prune then prune_known (t_known e) h else t_known e) (t_ever e)
         (if t_fin e <? n then n else t_fin e).

(* blockImporter.importBlock, same order of checks as Model.import_block *)
Definition import_block_t (prune : bool) (e : tenv) (b : bdata) : list event * tenv * bool :=
  if tknows e (d_hash b) then ([ESkip (d_hash b)], e, false) else
  match d_header b with
  | None => ([ENothing (d_hash b)], e, false)
  | Some h =>
    let after_body :=
      if d_body b then
        if negb (tknows e (h_parent h))
        then ([if tever e (h_parent h) then EOrphanPruned (d_hash b) else EOrphan (d_hash b)], e, true)
        else if tknows e (h_hash h) then ([EDup (d_hash b)], e, true)
        else ([EImport (d_hash b)], add_known e (mkkb (h_hash h) (h_parent h) (h_number h)), false)
      else if d_just b then ([], e, false) else ([ENothing (d_hash b)], e, false) in
    match after_body with
    | (ev, e1, true) => (ev, e1, true)
    | (ev, e1, false) =>
      if d_just b then
        if negb (tknows e1 (h_hash h)) then (ev ++ [EOrphan (d_hash b)], e1, true)
        else (ev ++ [EFinal (d_hash b)], finalise prune e1 (h_hash h) (h_number h), false)
      else (ev, e1, false)
    end
  end.

Fixpoint import_all_t (prune : bool) (e : tenv) (l : list bdata) : list event * tenv * bool :=
  match l with
  | [] => ([], e, false)
  | b :: r =>
    match import_block_t prune e b with
    | (ev, e1, true) => (ev, e1, true)
    | (ev, e1, false) =>
      match import_all_t prune e1 r with (ev2, e2, err) => (ev ++ ev2, e2, err) end
    end
  end.

Record tstate := mkts { ts_env : tenv; ts_un : unready; ts_queue : list qreq }.
Record tresult := mktr {
  tr_state : tstate; tr_events : list event; tr_error : bool;
  tr_reps : list (N * N); tr_bans : list N
}.

Fixpoint split_known_t (e : tenv) (frs : list (list bdata)) (next : list bdata) (dis : list (list bdata))
  : outcome (list bdata * list (list bdata)) :=
  match frs with
  | [] => Ok (next, dis)
  | [] :: _ => Panic
  | ((b :: _) as f) :: r =>
    match d_header b with
    | None => Panic
    | Some h => if tknows e (h_parent h) then split_known_t e r (next ++ f) dis
                else split_known_t e r next (dis ++ [f])
    end
  end.

Fixpoint second_round_t (e : tenv) (dis : list (list bdata)) (u : unready) (queue : list qreq)
  (next : list bdata) : outcome (unready * list qreq * list bdata) :=
  match dis with
  | [] => Ok (u, queue, next)
  | f :: r =>
    match valid_under (t_fin e) f with
    | [] => second_round_t e r u queue next
    | (b :: _) as v =>
      match d_header b with
      | None => Panic
      | Some h =>
        if tknows e (h_parent h) then second_round_t e r u queue (next ++ v)
        else if sub64 (h_number h) 1 <=? t_fin e then second_round_t e r u queue next
        else second_round_t e r (mkun (u_incomplete u) (u_disjoint u ++ [v]))
                            (queue ++ [QAncestors (h_parent h)]) next
      end
    end
  end.

(* the repaired Process (the three switches of Model.v on) over the pruning environment *)
Definition process_t (srt : list (list bdata) -> list (list bdata)) (prune : bool)
  (bad : list N) (st : tstate) (rs : list result) : outcome tresult :=
  match validate_results true true true bad rs (mkval [] [] []) with
  | Ok v =>
    match collect_ready true (t_fin (ts_env st)) (ts_un st) (v_ok v) [] with
    | Ok (u1, ready) =>
      match sort_fragments_with srt ready with
      | Ok sorted =>
        match merge_fragments sorted with
        | Ok ordered =>
          match split_known_t (ts_env st) ordered [] [] with
          | Ok (next, dis) =>
            match next, dis with
            | [], [] =>
              Ok (mktr (mkts (ts_env st) (remove_irrelevant u1 (t_fin (ts_env st))) (ts_queue st))
                       [] false (v_reps v) (v_bans v))
            | _, _ =>
              match import_all_t prune (ts_env st) next with
              | (ev1, e1, true) => Ok (mktr (mkts e1 u1 (ts_queue st)) ev1 true [] [])
              | (ev1, e1, false) =>
                match second_round_t e1 dis u1 (ts_queue st) [] with
                | Ok (u2, q2, next2) =>
                  match next2 with
                  | [] => Ok (mktr (mkts e1 (remove_irrelevant u2 (t_fin e1)) q2) ev1 false (v_reps v) (v_bans v))
                  | _ =>
                    match import_all_t prune e1 next2 with
                    | (ev2, e2, true) => Ok (mktr (mkts e2 u2 q2) (ev1 ++ ev2) true [] [])
                    | (ev2, e2, false) =>
                      Ok (mktr (mkts e2 (remove_irrelevant u2 (t_fin e2)) q2) (ev1 ++ ev2) false
                               (v_reps v) (v_bans v))
                    end
                  end
                | Err c => Err c | Panic => Panic | OutOfFuel => OutOfFuel
                end
              end
            end
          | Err c => Err c | Panic => Panic | OutOfFuel => OutOfFuel
          end
        | Err c => Err c | Panic => Panic | OutOfFuel => OutOfFuel
        end
      | Err c => Err c | Panic => Panic | OutOfFuel => OutOfFuel
      end
    | Err c => Err c | Panic => Panic | OutOfFuel => OutOfFuel
    end
  | Err c => Err c | Panic => Panic | OutOfFuel => OutOfFuel
  end.

(* OnBlockAnnounce over the pruning environment (Model.announce) *)
Definition announce_t (bad : list N) (st : tstate) (who : N) (h : header) (best : N) : tresult :=
  if existsb (N.eqb (h_hash h)) bad then mktr st [] false [(who, REP_BAD_ANNOUNCE)] [] else
  if (h_number h <=? t_fin (ts_env st)) || tracked (ts_un st) h
  then mktr st [] false [(who, REP_NOT_RELEVANT)] [] else
  if max_blocks <? N.max (h_number h) best - N.min (h_number h) best then mktr st [] false [] [] else
  if tknows (ts_env st) (h_hash h) then mktr st [] false [(who, REP_GOSSIP_OK)] [] else
  mktr (mkts (ts_env st) (new_incomplete (ts_un st) h) (ts_queue st ++ [QBody (h_hash h)]))
       [] false [(who, REP_GOSSIP_OK)] [].

Inductive tstep :=
| TAnnounce (h : header)                     (* newIncompleteBlock directly *)
| TAnnounceMsg (who : N) (h : header) (best : N)
| TKnown (h : header)                        (* the block state gets the header from elsewhere *)
| TFinalise (h : N)                          (* GRANDPA finalises a stored block: SetFinalisedHash *)
| TProcess (rs : list result).

Definition do_tstep (srt : list (list bdata) -> list (list bdata)) (prune : bool) (bad : list N)
  (st : tstate) (s : tstep) : outcome (tstate * option tresult) :=
  match s with
  | TAnnounce h => Ok (mkts (ts_env st) (new_incomplete (ts_un st) h) (ts_queue st), None)
  | TAnnounceMsg who h best => let r := announce_t bad st who h best in Ok (tr_state r, Some r)
  | TKnown h =>
    Ok (mkts (if tknows (ts_env st) (h_hash h) then ts_env st
              else add_known (ts_env st) (mkkb (h_hash h) (h_parent h) (h_number h)))
             (ts_un st) (ts_queue st), None)
  | TFinalise h =>
    Ok (mkts (match find (fun k => k_hash k =? h) (t_known (ts_env st)) with
              | Some k => finalise prune (ts_env st) h (k_number k)
              | None => ts_env st
              end) (ts_un st) (ts_queue st), None)
  | TProcess rs =>
    match process_t srt prune bad st rs with
    | Ok r => Ok (tr_state r, Some r)
    | Err c => Err c | Panic => Panic | OutOfFuel => OutOfFuel
    end
  end.

Fixpoint run_t (srt : list (list bdata) -> list (list bdata)) (prune : bool) (bad : list N)
  (st : tstate) (h : list tstep) : list (option tresult) * bool * tstate :=
  match h with
  | [] => ([], false, st)
  | s :: r =>
    match do_tstep srt prune bad st s with
    | Ok (st', o) => match run_t srt prune bad st' r with (os, p, stf) => (o :: os, p, stf) end
    | _ => ([], true, st)
    end
  end.

Definition init_tstate (root : N) : tstate :=
  mkts (mktenv [mkkb root 4294967295 0] [root] 0) (mkun [] []) [].

(* ---------------------------------------------------------------- specification side *)
Definition tall_events (outs : list (option tresult)) : list event :=
  flat_map (fun o => match o with Some r => tr_events r | None => [] end) outs.

(* every request of every Process call asks for bodies (the precondition of the theorems) *)
Definition tsteps_body_b (steps : list tstep) : bool :=
  forallb (fun s => match s with
                    | TProcess rs => forallb (fun r => req_field (r_req r) f_body) rs
                    | _ => true
                    end) steps.

(* s is the stated hash of a block of a response that validateResults accepted in some Process
   call of the history, and that block's stated hash is the hash of its header (if it has one) *)
Definition provenance (bad : list N) (steps : list tstep) (s : N) : Prop :=
  exists rs r q resp b, In (TProcess rs) steps /\ In r rs
    /\ classify true true true bad r = VAccept q resp /\ In b resp
    /\ d_hash b = s /\ hash_matches b = true.
