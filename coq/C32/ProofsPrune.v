(* C32/ProofsPrune.v — Process over the pruning block state (ModelPrune.v): parents first (in the
   sense "the parent has been known"), no duplicate header, no panic; provenance of imports. *)
From Coq Require Import NArith ZArith List Bool Lia Permutation.
From Common Require Import Outcome.
From C32 Require Import Gen Model ModelSpec ModelPrune ProofsChain ProofsImport ProofsProcess ProofsHistory.
Import ListNotations.
Local Open Scope N_scope.

Ltac splits := repeat match goal with |- _ /\ _ => split end.

Definition ever_sub (e e' : tenv) : Prop := forall h, tever e h = true -> tever e' h = true.
Definition tenv_ok (e : tenv) : Prop := forall h, tknows e h = true -> tever e h = true.
Definition ev_fine (e : event) : Prop := match e with EOrphan _ | EDup _ => False | _ => True end.

Lemma ever_sub_refl e : ever_sub e e. Proof. intros h H; exact H. Qed.
Lemma ever_sub_trans a b c : ever_sub a b -> ever_sub b c -> ever_sub a c.
Proof. intros H1 H2 h H. auto. Qed.

Lemma tknows_add e k h : tknows (add_known e k) h = (k_hash k =? h) || tknows e h.
Proof. reflexivity. Qed.
Lemma tever_add e k h : tever (add_known e k) h = (h =? k_hash k) || tever e h.
Proof. reflexivity. Qed.

Lemma tknows_filter f known fin ev h :
  tknows (mktenv (filter f known) ev fin) h = true -> tknows (mktenv known ev fin) h = true.
Proof.
  unfold tknows. cbn [t_known]. intro H. apply existsb_exists in H. destruct H as (k & Hk & E).
  apply filter_In in Hk. apply existsb_exists. exists k. tauto.
Qed.

Lemma finalise_ok prune e h n : tenv_ok e -> tenv_ok (finalise prune e h n) /\ ever_sub e (finalise prune e h n).
Proof.
  intro T. split; [|intros x Hx; exact Hx]. intros x Hx. unfold finalise in *.
  change (tever e x = true). apply T. destruct prune; [|exact Hx].
  destruct e as [kn ev fn]. eapply tknows_filter. exact Hx.
Qed.

(* one good block whose parent has been known (or which is known itself) *)
Ltac prov_tac :=
  let s := fresh "s" in let Hs := fresh "Hs" in
  intros s Hs; cbn [In] in Hs;
  repeat (destruct Hs as [Hs|Hs]; [try discriminate; try (injection Hs as <-; reflexivity)|]);
  try contradiction.

Lemma import_block_t_good prune e b h :
  d_header b = Some h -> h_hash h = d_hash b -> d_body b = true ->
  tever e (h_parent h) = true \/ tknows e (d_hash b) = true -> tenv_ok e ->
  exists evs e' err, import_block_t prune e b = (evs, e', err)
    /\ Forall ev_fine evs /\ tenv_ok e' /\ ever_sub e e'
    /\ (err = false -> tever e' (d_hash b) = true)
    /\ (forall s, In (EImport s) evs -> s = d_hash b).
Proof.
  intros Hh Hm Hb Hk T. unfold import_block_t. destruct (tknows e (d_hash b)) eqn:K.
  - eexists _, _, _. split; [reflexivity|].
    split; [repeat constructor|]. split; [exact T|]. split; [apply ever_sub_refl|].
    split; [intros _; now apply T|prov_tac].
  - destruct Hk as [Hk|Hk]; [|congruence]. rewrite Hh, Hb.
    destruct (tknows e (h_parent h)) eqn:KP; cbn [negb].
    + rewrite Hm, K.
      set (e1 := add_known e (mkkb (d_hash b) (h_parent h) (h_number h))).
      assert (T1 : tenv_ok e1).
      { intros x Hx. unfold e1 in *. rewrite tknows_add in Hx. rewrite tever_add. cbn [k_hash] in *.
        apply orb_prop in Hx. destruct Hx as [Hx|Hx].
        - apply N.eqb_eq in Hx. subst x. now rewrite N.eqb_refl.
        - rewrite (T x Hx). apply orb_true_r. }
      assert (S1 : ever_sub e e1).
      { intros x Hx. unfold e1. rewrite tever_add, Hx. apply orb_true_r. }
      assert (K1 : tknows e1 (d_hash b) = true).
      { unfold e1. rewrite tknows_add. cbn [k_hash]. now rewrite N.eqb_refl. }
      assert (V1 : tever e1 (d_hash b) = true) by (apply T1; exact K1).
      destruct (d_just b).
      * rewrite K1. cbn [negb].
        destruct (finalise_ok prune e1 (d_hash b) (h_number h) T1) as [TF SF].
        eexists _, _, _. split; [reflexivity|].
        split; [repeat constructor|]. split; [exact TF|].
        split; [eapply ever_sub_trans; eauto|]. split; [intros _; now apply SF|prov_tac].
      * eexists _, _, _. split; [reflexivity|].
        split; [repeat constructor|]. split; [exact T1|]. split; [exact S1|].
        split; [intros _; exact V1|prov_tac].
    + rewrite Hk. eexists _, _, _. split; [reflexivity|].
      split; [repeat constructor|]. split; [exact T|]. split; [apply ever_sub_refl|].
      split; [discriminate|prov_tac].
Qed.

(* the outcome of handing a list to the importer: whatever happens, no event is EOrphan (parent
   never known) or EDup, and every import is one of the blocks handed over *)
Definition fine_import (prune : bool) (e : tenv) (l : list bdata) : Prop :=
  exists evs e' err, import_all_t prune e l = (evs, e', err)
    /\ Forall ev_fine evs /\ tenv_ok e' /\ ever_sub e e'
    /\ (err = false -> Forall (fun b => tever e' (d_hash b) = true) l)
    /\ (forall s, In (EImport s) evs -> exists b, In b l /\ d_hash b = s).

Lemma import_all_t_app prune l1 : forall e l2,
  import_all_t prune e (l1 ++ l2) =
  match import_all_t prune e l1 with
  | (ev1, e1, true) => (ev1, e1, true)
  | (ev1, e1, false) =>
    match import_all_t prune e1 l2 with (ev2, e2, err) => (ev1 ++ ev2, e2, err) end
  end.
Proof.
  induction l1 as [|b l1 IH]; intros e l2.
  - cbn [app import_all_t]. destruct (import_all_t prune e l2) as [[ev2 e2] err]. reflexivity.
  - cbn [app import_all_t]. destruct (import_block_t prune e b) as [[ev e1] [|]]; [reflexivity|].
    rewrite IH. destruct (import_all_t prune e1 l1) as [[ev1 e1'] [|]]; [reflexivity|].
    destruct (import_all_t prune e1' l2) as [[ev2 e2] err]. now rewrite app_assoc.
Qed.

Lemma fine_nil prune e : tenv_ok e -> fine_import prune e [].
Proof.
  intro T. exists [], e, false. split; [reflexivity|]. split; [constructor|]. split; [exact T|].
  split; [apply ever_sub_refl|]. split; [intros _; constructor|intros s []].
Qed.

Lemma chain_fine prune (l : list bdata) : chain_ok l -> forall e,
  match l with
  | b :: _ => match d_header b with
              | Some h => tever e (h_parent h) = true \/ tknows e (d_hash b) = true
              | None => False
              end
  | [] => True
  end -> tenv_ok e -> fine_import prune e l.
Proof.
  intro C. induction C as [|b G|a b l G P C IH]; intros e F T.
  - now apply fine_nil.
  - destruct G as (h & Hh & Hm & Hb). rewrite Hh in F.
    destruct (import_block_t_good prune e b h Hh Hm Hb F T) as (evs & e' & err & E & Fi & T' & S & K & Pv).
    assert (PV : forall s, In (EImport s) evs -> exists x, In x [b] /\ d_hash x = s).
    { intros s Hs. exists b. split; [now left|symmetry; auto]. }
    unfold fine_import. cbn [import_all_t]. rewrite E. destruct err.
    + exists evs, e', true. split; [reflexivity|]. split; [exact Fi|]. split; [exact T'|].
      split; [exact S|]. split; [discriminate|exact PV].
    + exists evs, e', false. rewrite app_nil_r. split; [reflexivity|]. split; [exact Fi|].
      split; [exact T'|]. split; [exact S|]. split; [intros _; constructor; auto|exact PV].
  - destruct G as (h & Hh & Hm & Hb). rewrite Hh in F.
    destruct (import_block_t_good prune e a h Hh Hm Hb F T) as (evs & e1 & err & E & Fi & T1 & S1 & K1 & Pv).
    assert (PV : forall s, In (EImport s) evs -> exists x, In x (a :: b :: l) /\ d_hash x = s).
    { intros s Hs. exists a. split; [now left|symmetry; auto]. }
    assert (Ea : import_all_t prune e [a] = (evs, e1, err)).
    { cbn [import_all_t]. rewrite E. destruct err; [reflexivity|now rewrite app_nil_r]. }
    change (a :: b :: l) with ([a] ++ b :: l). unfold fine_import. rewrite import_all_t_app, Ea.
    destruct err.
    + exists evs, e1, true. split; [reflexivity|]. split; [exact Fi|]. split; [exact T1|].
      split; [exact S1|]. split; [discriminate|exact PV].
    + assert (F2 : match d_header b with
                   | Some hb => tever e1 (h_parent hb) = true \/ tknows e1 (d_hash b) = true
                   | None => False end).
      { unfold is_parent in P. rewrite Hh in P. destruct (d_header b) as [hb|]; [|discriminate].
        injection P as P. apply andb_prop in P. destruct P as [_ P]. apply N.eqb_eq in P.
        left. rewrite <- P. now apply K1. }
      destruct (IH e1 F2 T1) as (evs2 & e2 & err2 & E2 & Fi2 & T2 & S2 & K2 & Pv2).
      rewrite E2. exists (evs ++ evs2), e2, err2. split; [reflexivity|].
      split; [apply Forall_app; auto|]. split; [exact T2|].
      split; [eapply ever_sub_trans; eauto|]. split.
      * intro Z. constructor; [apply S2; now apply K1|now apply K2].
      * intros s Hs. apply in_app_or in Hs. destruct Hs as [Hs|Hs]; [now apply PV|].
        destruct (Pv2 s Hs) as (x & Hx & Ex). exists x. split; [now right|exact Ex].
Qed.

(* a concatenation of good chains whose first parents have been known *)
Inductive importable_t (e : tenv) : list bdata -> Prop :=
| impt_nil : importable_t e []
| impt_frag f rest b h :
    chain_ok f -> f = b :: tl f -> d_header b = Some h -> tever e (h_parent h) = true ->
    importable_t e rest -> importable_t e (f ++ rest).

Lemma importable_t_app e l1 l2 : importable_t e l1 -> importable_t e l2 -> importable_t e (l1 ++ l2).
Proof. intros H1 H2. induction H1; [exact H2|]. rewrite <- app_assoc. econstructor; eauto. Qed.

Lemma importable_t_fine prune e l : importable_t e l ->
  forall e', ever_sub e e' -> tenv_ok e' -> fine_import prune e' l.
Proof.
  intro H. induction H as [|f rest b h C Ef Hh K Hr IH]; intros e' S T.
  - now apply fine_nil.
  - assert (F : match f with
                | b :: _ => match d_header b with
                            | Some h => tever e' (h_parent h) = true \/ tknows e' (d_hash b) = true
                            | None => False end
                | [] => True end).
    { rewrite Ef, Hh. left. now apply S. }
    destruct (chain_fine prune f C e' F T) as (ev1 & e1 & err1 & E1 & Fi1 & T1 & S1 & K1 & P1).
    assert (PV : forall s, In (EImport s) ev1 -> exists x, In x (f ++ rest) /\ d_hash x = s).
    { intros s Hs. destruct (P1 s Hs) as (x & Hx & Ex). exists x. split; [apply in_or_app; now left|exact Ex]. }
    unfold fine_import. rewrite import_all_t_app, E1. destruct err1.
    + exists ev1, e1, true. split; [reflexivity|]. split; [exact Fi1|]. split; [exact T1|].
      split; [exact S1|]. split; [discriminate|exact PV].
    + destruct (IH e1 (ever_sub_trans _ _ _ S S1) T1) as (ev2 & e2 & err2 & E2 & Fi2 & T2 & S2 & K2 & P2).
      rewrite E2. exists (ev1 ++ ev2), e2, err2. split; [reflexivity|].
      split; [apply Forall_app; auto|]. split; [exact T2|].
      split; [eapply ever_sub_trans; eauto|]. split.
      * intro Z. apply Forall_app. split; [|now apply K2].
        eapply Forall_impl; [|apply K1; reflexivity]. intros x Hx. now apply S2.
      * intros s Hs. apply in_app_or in Hs. destruct Hs as [Hs|Hs]; [now apply PV|].
        destruct (P2 s Hs) as (x & Hx & Ex). exists x. split; [apply in_or_app; now right|exact Ex].
Qed.

(* ---------------------------------------------------------------- the two loops over fragments *)
Lemma split_known_t_ok e frs : tenv_ok e -> forall next dis,
  Forall gfrag frs -> importable_t e next -> Forall gfrag dis ->
  exists next' dis', split_known_t e frs next dis = Ok (next', dis')
    /\ importable_t e next' /\ Forall gfrag dis'
    /\ (forall b, In b next' \/ In b (concat dis') -> In b next \/ In b (concat dis) \/ In b (concat frs)).
Proof.
  intro T. induction frs as [|f frs IH]; intros next dis F N D.
  - exists next, dis. split; [reflexivity|]. split; [exact N|]. split; [exact D|tauto].
  - inversion F as [|? ? Gf Fr]; subst.
    destruct (gfrag_first f Gf) as (b & h & r & -> & Hh & C). cbn [split_known_t]. rewrite Hh.
    destruct (tknows e (h_parent h)) eqn:K.
    + destruct (IH (next ++ b :: r) dis Fr) as (n' & d' & E & I & G & Pv); auto.
      { apply importable_t_app; auto. rewrite <- (app_nil_r (b :: r)).
        exact (impt_frag e (b :: r) [] b h C eq_refl Hh (T _ K) (impt_nil e)). }
      exists n', d'. split; [exact E|]. split; [exact I|]. split; [exact G|]. intros x Hx. destruct (Pv x Hx) as [H|[H|H]].
      * apply in_app_or in H. destruct H; [tauto|]. right. right. cbn [concat]. apply in_or_app. tauto.
      * tauto.
      * right. right. cbn [concat]. apply in_or_app. tauto.
    + destruct (IH next (dis ++ [b :: r]) Fr) as (n' & d' & E & I & G & Pv); auto.
      { apply Forall_app. split; auto. }
      exists n', d'. split; [exact E|]. split; [exact I|]. split; [exact G|]. intros x Hx. destruct (Pv x Hx) as [H|[H|H]].
      * tauto.
      * rewrite concat_app in H. apply in_app_or in H. destruct H; [tauto|].
        cbn [concat] in H. rewrite app_nil_r in H. right. right. cbn [concat]. apply in_or_app. tauto.
      * right. right. cbn [concat]. apply in_or_app. tauto.
Qed.

Lemma valid_under_incl fin l b : In b (valid_under fin l) -> In b l.
Proof. destruct (valid_under_suffix fin l) as [p Hp]. intro H. rewrite Hp. apply in_or_app. now right. Qed.

Lemma second_round_t_ok e dis : tenv_ok e -> forall u queue next,
  Forall gfrag dis -> inv_un u -> importable_t e next ->
  exists u' q' next', second_round_t e dis u queue next = Ok (u', q', next')
    /\ inv_un u' /\ importable_t e next'
    /\ (forall b, In b next' \/ In b (concat (u_disjoint u')) ->
                  In b next \/ In b (concat (u_disjoint u)) \/ In b (concat dis))
    /\ u_incomplete u' = u_incomplete u.
Proof.
  intro T. induction dis as [|f dis IH]; intros u queue next F I N.
  - exists u, queue, next. split; [reflexivity|]. split; [exact I|]. split; [exact N|]. split; [tauto|reflexivity].
  - inversion F as [|? ? [NE C] Fr]; subst. cbn [second_round_t].
    assert (Sub : forall x, In x (concat dis) -> In x (concat (f :: dis))).
    { intros x Hx. cbn [concat]. apply in_or_app. now right. }
    destruct (valid_under (t_fin e) f) as [|b v] eqn:EV.
    { destruct (IH u queue next Fr I N) as (u' & q' & n' & E & A & B & Pv & Ei).
      exists u', q', n'. split; [exact E|]. split; [exact A|]. split; [exact B|]. split; [|exact Ei]. intros x Hx. destruct (Pv x Hx) as [H|[H|H]]; auto. }
    assert (Gv : gfrag (b :: v)).
    { rewrite <- EV. apply gfrag_valid_under; auto. rewrite EV. discriminate. }
    assert (Inf : forall x, In x (b :: v) -> In x (concat (f :: dis))).
    { intros x Hx. cbn [concat]. apply in_or_app. left. apply (valid_under_incl (t_fin e)). now rewrite EV. }
    destruct (gfrag_first _ Gv) as (b' & h & r & E & Hh & Cv). injection E as <- <-. rewrite Hh.
    destruct (tknows e (h_parent h)) eqn:K.
    + destruct (IH u queue (next ++ b :: v) Fr I) as (u' & q' & n' & E & A & B & Pv & Ei).
      { apply importable_t_app; auto. rewrite <- (app_nil_r (b :: v)).
        exact (impt_frag e (b :: v) [] b h Cv eq_refl Hh (T _ K) (impt_nil e)). }
      exists u', q', n'. split; [exact E|]. split; [exact A|]. split; [exact B|]. split; [|exact Ei]. intros x Hx. destruct (Pv x Hx) as [H|[H|H]]; auto.
      apply in_app_or in H. destruct H; auto.
    + destruct (sub64 (h_number h) 1 <=? t_fin e).
      { destruct (IH u queue next Fr I N) as (u' & q' & n' & E & A & B & Pv & Ei).
        exists u', q', n'. split; [exact E|]. split; [exact A|]. split; [exact B|]. split; [|exact Ei]. intros x Hx. destruct (Pv x Hx) as [H|[H|H]]; auto. }
      destruct (IH (mkun (u_incomplete u) (u_disjoint u ++ [b :: v])) (queue ++ [QAncestors (h_parent h)]) next Fr)
        as (u' & q' & n' & E & A & B & Pv & Ei); auto.
      { destruct I as [I1 I2]. split; cbn [u_incomplete u_disjoint]; auto. apply Forall_app. split; auto. }
      exists u', q', n'. split; [exact E|]. split; [exact A|]. split; [exact B|]. split; [|exact Ei]. intros x Hx. destruct (Pv x Hx) as [H|[H|H]]; auto.
      cbn [u_disjoint] in H. rewrite concat_app in H. apply in_app_or in H. destruct H; auto.
      cbn [concat] in H. rewrite app_nil_r in H. auto.
Qed.

(* ---------------------------------------------------------------- provenance through the stages *)
Section Prov.
  Variable S : N -> Prop.
  Let Sb (b : bdata) : Prop := S (d_hash b).

  Lemma validate_prov bad rs : forall acc v,
    validate_results true true true bad rs acc = Ok v ->
    (forall p, In p (v_ok acc) -> Forall Sb (snd p)) ->
    (forall r q resp, In r rs -> classify true true true bad r = VAccept q resp -> Forall Sb resp) ->
    forall p, In p (v_ok v) -> Forall Sb (snd p).
  Proof.
    induction rs as [|r rs IH]; intros acc v E A H; cbn [validate_results] in E.
    - injection E as <-. exact A.
    - assert (H' : forall r0 q resp, In r0 rs -> classify true true true bad r0 = VAccept q resp -> Forall Sb resp)
        by (intros; eapply H; [right|]; eauto).
      destruct (classify true true true bad r) as [|c| |q resp|] eqn:C; try discriminate;
        try (eapply IH; eauto; fail).
      eapply IH; [exact E| |exact H']. cbn [v_ok]. intros p Hp. apply in_app_or in Hp.
      destruct Hp as [Hp|[<-|[]]]; [now apply A|]. cbn [snd]. eapply H; [now left|exact C].
  Qed.

  Lemma update_incomplete_prov chain : forall inc, Forall Sb chain ->
    Forall Sb (fst (update_incomplete inc chain)).
  Proof.
    induction chain as [|b chain IH]; intros inc F; cbn [update_incomplete]; [constructor|].
    inversion F as [|? ? Fb Fc]; subst.
    destruct (find (fun x => d_hash x =? d_hash b) inc) as [x|] eqn:Fd; [|now apply IH].
    specialize (IH (filter (fun y => negb (d_hash y =? d_hash b)) inc) Fc).
    destruct (update_incomplete (filter (fun y => negb (d_hash y =? d_hash b)) inc) chain) as [cs inc'].
    cbn [fst] in *. constructor; [|exact IH]. apply find_some in Fd. destruct Fd as [_ Fd].
    apply N.eqb_eq in Fd. unfold Sb in *. cbn [d_hash]. now rewrite Fd.
  Qed.

  Lemma valid_under_prov fin l : Forall Sb l -> Forall Sb (valid_under fin l).
  Proof.
    intro F. apply Forall_forall. intros b Hb. rewrite Forall_forall in F. apply F.
    eapply valid_under_incl; eauto.
  Qed.

  Lemma update_disjoint_prov u resp o u' : update_disjoint u resp = Ok (o, u') ->
    Forall Sb resp -> Forall (Forall Sb) (u_disjoint u) ->
    Forall (Forall Sb) (u_disjoint u') /\ match o with Some f => Forall Sb f | None => True end.
  Proof.
    unfold update_disjoint. intros E F D.
    destruct (find_connect _ (u_disjoint u) 0) as [[i|]| | |]; try discriminate; injection E as <- <-.
    - split; [cbn [u_disjoint]; now apply Forall_remove_nth|]. apply Forall_app. split; [exact F|].
      destruct (Nat.lt_ge_cases i (length (u_disjoint u))) as [L|L].
      + now apply Forall_nth_default.
      + rewrite nth_overflow by exact L. constructor.
    - auto.
  Qed.

  Lemma collect_ready_prov fin0 vs : forall u ready u' ready',
    collect_ready true fin0 u vs ready = Ok (u', ready') ->
    (forall p, In p vs -> Forall Sb (snd p)) ->
    Forall (Forall Sb) (u_disjoint u) -> Forall (Forall Sb) ready ->
    Forall (Forall Sb) (u_disjoint u') /\ Forall (Forall Sb) ready'.
  Proof.
    induction vs as [|[q resp] vs IH]; intros u ready u' ready' E V D R; cbn [collect_ready] in E.
    - injection E as <- <-. auto.
    - assert (Fr : Forall Sb resp) by (apply (V (q, resp)); now left).
      assert (V' : forall p, In p vs -> Forall Sb (snd p)) by (intros; apply V; now right).
      destruct (req_field q f_header).
      + destruct (update_disjoint u resp) as [[o u1]| | |] eqn:EU; try discriminate.
        destruct (update_disjoint_prov _ _ _ _ EU Fr D) as [D1 Fo]. destruct o as [frag|].
        * eapply IH; [exact E|exact V'|exact D1|].
          pose proof (valid_under_prov fin0 frag Fo) as Fv.
          destruct (valid_under fin0 frag); [exact R|]. apply Forall_app. split; auto.
        * eapply IH; [exact E|exact V'|exact D1|]. apply Forall_app. split; auto.
      + pose proof (update_incomplete_prov resp (u_incomplete u) Fr) as Fc.
        destruct (update_incomplete (u_incomplete u) resp) as [cs inc'] eqn:EU. cbn [fst] in Fc.
        eapply IH; [exact E|exact V'|exact D|]. apply Forall_app. split; [exact R|].
        apply Forall_forall. intros f Hf. apply in_map_iff in Hf. destruct Hf as (c & <- & Hc).
        rewrite Forall_forall in Fc. constructor; auto.
  Qed.

  Lemma merge_loop_prov rest : forall merged cur m,
    merge_loop merged cur rest = Ok m ->
    Forall (Forall Sb) merged -> Forall Sb cur -> Forall (Forall Sb) rest -> Forall (Forall Sb) m.
  Proof.
    induction rest as [|f rest IH]; intros merged cur m E M C R; cbn [merge_loop] in E.
    - injection E as <-. apply Forall_app. auto.
    - inversion R as [|? ? Rf Rr]; subst.
      destruct (last (map Some cur) None) as [lb|]; [|discriminate].
      destruct f as [|fb fr]; [discriminate|].
      destruct (is_parent lb fb) as [[|]|]; try discriminate.
      + eapply IH; [exact E|exact M| |exact Rr]. apply Forall_app. auto.
      + eapply IH; [exact E| |exact Rf|exact Rr]. apply Forall_app. auto.
  Qed.

  Lemma merge_prov l m : merge_fragments l = Ok m -> Forall (Forall Sb) l -> Forall (Forall Sb) m.
  Proof.
    destruct l as [|f l]; cbn [merge_fragments]; intros E F; [injection E as <-; constructor|].
    inversion F; subst. eapply merge_loop_prov; eauto.
  Qed.

  Lemma cut_fragment_incl fin f b : In b (cut_fragment fin (rev f) []) -> In b f.
  Proof.
    destruct (cut_fragment_spec fin (rev f) []) as (p & s & E1 & E2). rewrite E2, app_nil_r.
    intro H. apply in_rev in H. apply in_rev. rewrite E1. apply in_or_app. now left.
  Qed.

  Lemma remove_irrelevant_prov u fin :
    Forall (Forall Sb) (u_disjoint u) -> Forall (Forall Sb) (u_disjoint (remove_irrelevant u fin)).
  Proof.
    intro D. cbn [remove_irrelevant u_disjoint]. apply Forall_forall. intros f Hf.
    apply filter_In in Hf. destruct Hf as [Hf _]. apply in_map_iff in Hf. destruct Hf as (g & <- & Hg).
    rewrite Forall_forall in D. specialize (D g Hg). apply Forall_forall. intros b Hb.
    rewrite Forall_forall in D. apply D. eapply cut_fragment_incl; eauto.
  Qed.

  Lemma Forall_concat (l : list (list bdata)) : Forall (Forall Sb) l -> forall b, In b (concat l) -> Sb b.
  Proof.
    intros F b Hb. apply in_concat in Hb. destruct Hb as (f & Hf & Hb). rewrite Forall_forall in F.
    specialize (F f Hf). rewrite Forall_forall in F. auto.
  Qed.

  Lemma concat_Forall (l : list (list bdata)) : (forall b, In b (concat l) -> Sb b) -> Forall (Forall Sb) l.
  Proof.
    intro H. apply Forall_forall. intros f Hf. apply Forall_forall. intros b Hb. apply H.
    apply in_concat. eauto.
  Qed.

  (* ---- one Process call *)
  Definition inv_t (st : tstate) : Prop :=
    inv_un (ts_un st) /\ tenv_ok (ts_env st) /\ Forall (Forall Sb) (u_disjoint (ts_un st)).

  Lemma process_t_ok srt prune bad st rs :
    keeps_forall srt -> inv_t st -> Forall (fun r => result_wf_b r = true) rs ->
    (forall r q resp, In r rs -> classify true true true bad r = VAccept q resp -> Forall Sb resp) ->
    exists r, process_t srt prune bad st rs = Ok r
      /\ Forall ev_fine (tr_events r) /\ inv_t (tr_state r)
      /\ (forall s, In (EImport s) (tr_events r) -> S s).
  Proof.
    intros KS (IU & TE & PD) W HA. unfold process_t.
    destruct (validate_results_fixed bad rs (mkval [] [] []) W (Forall_nil _)) as (v & EV & VV). rewrite EV.
    assert (PV : forall p, In p (v_ok v) -> Forall Sb (snd p)).
    { eapply validate_prov; [exact EV| |exact HA]. intros p []. }
    destruct (collect_ready_ok (t_fin (ts_env st)) (v_ok v) (ts_un st) [] IU VV (Forall_nil _))
      as (u1 & ready & EC & IU1 & FR). rewrite EC.
    destruct (collect_ready_prov _ _ _ _ _ _ EC PV PD (Forall_nil _)) as [PD1 PR].
    destruct (sort_fragments_with_ok srt ready KS FR) as [ES FS]. rewrite ES.
    pose proof (KS _ _ PR) as PS.
    destruct (merge_fragments_ok _ FS) as (ordered & EM & FO). rewrite EM.
    pose proof (merge_prov _ _ EM PS) as PO.
    destruct (split_known_t_ok (ts_env st) ordered TE [] [] FO (impt_nil _) (Forall_nil _))
      as (next & dis & EK & IN & FD & MK). rewrite EK.
    assert (PN : forall b, In b next -> Sb b).
    { intros b Hb. destruct (MK b (or_introl Hb)) as [[]|[[]|H]]. exact (Forall_concat _ PO b H). }
    assert (PDis : Forall (Forall Sb) dis).
    { apply concat_Forall. intros b Hb. destruct (MK b (or_intror Hb)) as [[]|[[]|H]]. exact (Forall_concat _ PO b H). }
    (* a helper: the events of a fine import of blocks that satisfy Sb *)
    assert (EvS : forall evs (l : list bdata), (forall b, In b l -> Sb b) ->
              (forall s, In (EImport s) evs -> exists b, In b l /\ d_hash b = s) ->
              forall s, In (EImport s) evs -> S s).
    { intros evs l Hl Hp s Hs. destruct (Hp s Hs) as (b & Hb & <-). now apply Hl. }
    destruct next as [|nb next0] eqn:ENx; destruct dis as [|df dis0] eqn:EDs.
    - eexists. split; [reflexivity|]. cbn [tr_events tr_state]. split; [constructor|].
      split; [|intros s []]. split; [now apply remove_irrelevant_ok|]. split; [exact TE|].
      now apply remove_irrelevant_prov.
    - rewrite <- EDs in *. clear EDs. cbn [import_all_t].
      destruct (second_round_t_ok (ts_env st) dis TE u1 (ts_queue st) [] FD IU1 (impt_nil _))
        as (u2 & q2 & next2 & E2 & IU2 & IN2 & M2 & _). rewrite E2.
      assert (P2 : forall b, In b next2 \/ In b (concat (u_disjoint u2)) -> Sb b).
      { intros b Hb. destruct (M2 b Hb) as [[]|[H|H]]; [exact (Forall_concat _ PD1 b H)|exact (Forall_concat _ PDis b H)]. }
      assert (PD2 : Forall (Forall Sb) (u_disjoint u2)) by (apply concat_Forall; auto).
      destruct next2 as [|b2 n2] eqn:EN2.
      + eexists. split; [reflexivity|]. cbn [tr_events tr_state]. split; [constructor|].
        split; [|intros s []]. split; [now apply remove_irrelevant_ok|]. split; [exact TE|].
        now apply remove_irrelevant_prov.
      + rewrite <- EN2 in *. clear EN2.
        destruct (importable_t_fine prune _ _ IN2 (ts_env st) (ever_sub_refl _) TE)
          as (ev2 & e2 & err2 & EI & Fi2 & T2 & _ & _ & Pv2). rewrite EI.
        destruct err2; eexists; (split; [reflexivity|]); cbn [tr_events tr_state app];
          (split; [exact Fi2|]); (split; [|eapply EvS; [|exact Pv2]; auto]).
        * split; [exact IU2|]. split; [exact T2|exact PD2].
        * split; [now apply remove_irrelevant_ok|]. split; [exact T2|now apply remove_irrelevant_prov].
    - rewrite <- ENx in *. clear ENx.
      destruct (importable_t_fine prune _ _ IN (ts_env st) (ever_sub_refl _) TE)
        as (ev1 & e1 & err1 & EI & Fi1 & T1 & _ & _ & Pv1). rewrite EI.
      destruct err1.
      + eexists. split; [reflexivity|]. cbn [tr_events tr_state]. split; [exact Fi1|].
        split; [|eapply EvS; [|exact Pv1]; auto]. split; [exact IU1|]. split; [exact T1|exact PD1].
      + cbn [second_round_t]. eexists. split; [reflexivity|]. cbn [tr_events tr_state]. split; [exact Fi1|].
        split; [|eapply EvS; [|exact Pv1]; auto].
        split; [now apply remove_irrelevant_ok|]. split; [exact T1|now apply remove_irrelevant_prov].
    - rewrite <- ENx, <- EDs in *. clear ENx EDs.
      destruct (importable_t_fine prune _ _ IN (ts_env st) (ever_sub_refl _) TE)
        as (ev1 & e1 & err1 & EI & Fi1 & T1 & _ & _ & Pv1). rewrite EI.
      pose proof (EvS ev1 next PN Pv1) as PE1.
      destruct err1.
      + eexists. split; [reflexivity|]. cbn [tr_events tr_state]. split; [exact Fi1|].
        split; [|exact PE1]. split; [exact IU1|]. split; [exact T1|exact PD1].
      + destruct (second_round_t_ok e1 dis T1 u1 (ts_queue st) [] FD IU1 (impt_nil _))
          as (u2 & q2 & next2 & E2 & IU2 & IN2 & M2 & _). rewrite E2.
        assert (P2 : forall b, In b next2 \/ In b (concat (u_disjoint u2)) -> Sb b).
        { intros b Hb. destruct (M2 b Hb) as [[]|[H|H]]; [exact (Forall_concat _ PD1 b H)|exact (Forall_concat _ PDis b H)]. }
        assert (PD2 : Forall (Forall Sb) (u_disjoint u2)) by (apply concat_Forall; auto).
        destruct next2 as [|b2 n2] eqn:EN2.
        * eexists. split; [reflexivity|]. cbn [tr_events tr_state]. split; [exact Fi1|].
          split; [|exact PE1].
          split; [now apply remove_irrelevant_ok|]. split; [exact T1|now apply remove_irrelevant_prov].
        * rewrite <- EN2 in *. clear EN2.
          destruct (importable_t_fine prune _ _ IN2 e1 (ever_sub_refl _) T1)
            as (ev2 & e2 & err2 & EI2 & Fi2 & T2 & _ & _ & Pv2). rewrite EI2.
          assert (PE2 : forall s, In (EImport s) ev2 -> S s) by (eapply EvS; [|exact Pv2]; auto).
          assert (PEa : forall s, In (EImport s) (ev1 ++ ev2) -> S s).
          { intros s Hs. apply in_app_or in Hs. destruct Hs; auto. }
          destruct err2; eexists; (split; [reflexivity|]); cbn [tr_events tr_state];
            (split; [apply Forall_app; auto|]); (split; [|exact PEa]).
          -- split; [exact IU2|]. split; [exact T2|exact PD2].
          -- split; [now apply remove_irrelevant_ok|]. split; [exact T2|now apply remove_irrelevant_prov].
  Qed.
End Prov.

(* ---------------------------------------------------------------- histories *)
Lemma classify_accept_matches bad r q resp :
  classify true true true bad r = VAccept q resp -> Forall (fun b => hash_matches b = true) resp.
Proof.
  unfold classify. destruct (negb (r_completed r)); [discriminate|].
  set (q0 := r_req r). set (resp0 := if q_dir q0 =? dir_desc then rev (r_resp r) else r_resp r).
  clearbody resp0. destruct (validate_fields true q0 resp0) as [[| |]|] eqn:V; try discriminate.
  apply validate_fields_none in V. intro H.
  assert (E : resp = resp0).
  { destruct (if req_field q0 f_header then is_chain resp0 else Some true) as [[|]|]; try discriminate.
    destruct (find (is_bad bad) resp0) as [b|]; [destruct (d_header b); discriminate|].
    destruct (true && _); [discriminate|]. now injection H. }
  subst resp. eapply Forall_impl; [|exact V]. intros b (_ & _ & M). exact M.
Qed.

Definition tstep_wf (s : tstep) : Prop :=
  match s with TProcess rs => Forall (fun r => result_wf_b r = true) rs | _ => True end.

Lemma tsteps_body_forall steps : tsteps_body_b steps = true -> Forall tstep_wf steps.
Proof.
  unfold tsteps_body_b. intro H. rewrite forallb_forall in H. apply Forall_forall. intros s Hs.
  specialize (H s Hs). destruct s; cbn; auto. apply Forall_forall. rewrite forallb_forall in H. exact H.
Qed.

Lemma add_known_ok e k : tenv_ok e -> tenv_ok (add_known e k).
Proof.
  intros T x Hx. rewrite tknows_add in Hx. rewrite tever_add. apply orb_prop in Hx. destruct Hx as [Hx|Hx].
  - apply N.eqb_eq in Hx. subst x. now rewrite N.eqb_refl.
  - rewrite (T x Hx). apply orb_true_r.
Qed.

Lemma run_t_safe srt prune bad all : keeps_forall srt -> forall steps st,
  incl steps all -> inv_t (provenance bad all) st -> Forall tstep_wf steps ->
  exists outs stf, run_t srt prune bad st steps = (outs, false, stf)
    /\ length outs = length steps
    /\ Forall ev_fine (tall_events outs)
    /\ (forall s, In (EImport s) (tall_events outs) -> provenance bad all s)
    /\ inv_t (provenance bad all) stf.
Proof.
  intro KS. induction steps as [|s steps IH]; intros st Inc I W.
  - exists [], st. split; [reflexivity|]. split; [reflexivity|]. split; [constructor|].
    split; [intros x []|exact I].
  - inversion W as [|? ? Ws Wr]; subst.
    assert (Inc' : incl steps all) by (intros x Hx; apply Inc; now right).
    cbn [run_t].
    assert (Skip : forall st', do_tstep srt prune bad st s = Ok (st', None) ->
              inv_t (provenance bad all) st' ->
              exists outs stf, (match do_tstep srt prune bad st s with
                   | Ok (st', o) => match run_t srt prune bad st' steps with (os, p, stf) => (o :: os, p, stf) end
                   | _ => ([], true, st) end) = (outs, false, stf)
                /\ length outs = S (length steps) /\ Forall ev_fine (tall_events outs)
                /\ (forall x, In (EImport x) (tall_events outs) -> provenance bad all x)
                /\ inv_t (provenance bad all) stf).
    { intros st' E I'. rewrite E. destruct (IH st' Inc' I' Wr) as (outs & stf & E' & L & F & P & IF).
      rewrite E'. exists (None :: outs), stf. split; [reflexivity|]. split; [cbn [length]; now rewrite L|].
      cbn [tall_events flat_map app]. auto. }
    destruct I as (IU & TE & PD).
    destruct s as [h|who h best|h|h|rs].
    + eapply Skip; [reflexivity|]. split; [now apply new_incomplete_ok|]. split; [exact TE|exact PD].
    + cbn [do_tstep]. set (r := announce_t bad st who h best).
      assert (R : tr_events r = [] /\ inv_t (provenance bad all) (tr_state r)).
      { unfold r, announce_t.
        destruct (existsb (N.eqb (h_hash h)) bad); [split; [reflexivity|split; auto]|].
        destruct ((h_number h <=? t_fin (ts_env st)) || tracked (ts_un st) h); [split; [reflexivity|split; auto]|].
        destruct (max_blocks <? N.max (h_number h) best - N.min (h_number h) best); [split; [reflexivity|split; auto]|].
        destruct (tknows (ts_env st) (h_hash h)); [split; [reflexivity|split; auto]|].
        split; [reflexivity|]. split; [now apply new_incomplete_ok|]. split; [exact TE|exact PD]. }
      destruct R as [RE RI]. destruct (IH _ Inc' RI Wr) as (outs & stf & E' & L & F & P & IF).
      rewrite E'. exists (Some r :: outs), stf. split; [reflexivity|]. split; [cbn [length]; now rewrite L|].
      cbn [tall_events flat_map]. rewrite RE. cbn [app]. auto.
    + eapply Skip; [reflexivity|]. split; [exact IU|]. split; [|exact PD]. cbn [ts_env].
      destruct (tknows (ts_env st) (h_hash h)); [exact TE|now apply add_known_ok].
    + eapply Skip; [reflexivity|]. split; [exact IU|]. split; [|exact PD]. cbn [ts_env].
      destruct (find _ (t_known (ts_env st))); [apply finalise_ok; exact TE|exact TE].
    + cbn [do_tstep]. cbn [tstep_wf] in Ws.
      assert (HA : forall r q resp, In r rs -> classify true true true bad r = VAccept q resp ->
                   Forall (fun b => provenance bad all (d_hash b)) resp).
      { intros r q resp Hr C. pose proof (classify_accept_matches bad r q resp C) as M.
        apply Forall_forall. intros b Hb. rewrite Forall_forall in M.
        exists rs, r, q, resp, b. repeat split; auto. apply Inc. now left. }
      destruct (process_t_ok (provenance bad all) srt prune bad st rs KS (conj IU (conj TE PD)) Ws HA)
        as (r & EP & Fi & I' & Pv). rewrite EP.
      destruct (IH _ Inc' I' Wr) as (outs & stf & E' & L & F & P & IF).
      rewrite E'. exists (Some r :: outs), stf. split; [reflexivity|]. split; [cbn [length]; now rewrite L|].
      cbn [tall_events flat_map]. split; [apply Forall_app; auto|]. split; [|exact IF].
      intros x Hx. apply in_app_or in Hx. destruct Hx; auto.
Qed.

Lemma init_tinv S root : inv_t S (init_tstate root).
Proof.
  split; [split; constructor|]. split; [|constructor].
  intros h H. unfold init_tstate, tknows, tever in *. cbn in *. rewrite N.eqb_sym. exact H.
Qed.

Lemma pruning_safe :
  forall srt : list (list bdata) -> list (list bdata), (forall l, Permutation (srt l) l) ->
  forall prune bad root steps, tsteps_body_b steps = true ->
  exists outs stf,
    run_t srt prune bad (init_tstate root) steps = (outs, false, stf)
    /\ length outs = length steps
    /\ Forall (fun e => match e with EOrphan _ | EDup _ => False | _ => True end) (tall_events outs)
    /\ (forall s, In (EImport s) (tall_events outs) -> provenance bad steps s).
Proof.
  intros srt HP prune bad root steps W.
  destruct (run_t_safe srt prune bad steps (perm_keeps_forall srt HP) steps (init_tstate root)
              (incl_refl _) (init_tinv _ root) (tsteps_body_forall steps W))
    as (outs & stf & E & L & F & P & _).
  exists outs, stf. auto.
Qed.
