(* C32/ProofsChain.v — chains of block data that are good (header present, stated hash = hash of
   the header, body present) and linked by BlockData.IsParent; suffixes, joins, validation. *)
From Coq Require Import NArith ZArith List Bool Lia.
From Common Require Import Outcome.
From C32 Require Import Gen Model ModelSpec.
Import ListNotations.
Local Open Scope N_scope.

Definition hdr_ok (b : bdata) : Prop := exists h, d_header b = Some h /\ h_hash h = d_hash b.
Definition good (b : bdata) : Prop :=
  exists h, d_header b = Some h /\ h_hash h = d_hash b /\ d_body b = true.

Lemma good_hdr_ok b : good b -> hdr_ok b.
Proof. intros (h & A & B & _). exists h. auto. Qed.

Inductive chain_ok : list bdata -> Prop :=
| co_nil : chain_ok []
| co_one b : good b -> chain_ok [b]
| co_cons a b l : good a -> is_parent a b = Some true -> chain_ok (b :: l) -> chain_ok (a :: b :: l).

Definition gfrag (f : list bdata) : Prop := f <> [] /\ chain_ok f.

Lemma chain_ok_good l : chain_ok l -> Forall good l.
Proof. induction 1; constructor; auto. Qed.

Lemma chain_ok_tl a l : chain_ok (a :: l) -> chain_ok l.
Proof. inversion 1; subst; [constructor|assumption]. Qed.

Lemma chain_ok_suffix l1 : forall l2, chain_ok (l1 ++ l2) -> chain_ok l2.
Proof.
  induction l1 as [|a l1 IH]; intros l2 H; [exact H|].
  apply IH. cbn [app] in H. eapply chain_ok_tl; eauto.
Qed.

Lemma good_is_parent a b : good a -> good b -> exists v, is_parent a b = Some v.
Proof.
  intros (ha & A & _) (hb & B & _). unfold is_parent. rewrite A, B. eauto.
Qed.

(* last (map Some l) None is how the model reads chain[len(chain)-1] *)
Lemma last_some_nonempty (l : list bdata) : l <> [] -> exists b, last (map Some l) None = Some b /\ In b l.
Proof.
  induction l as [|a l IH]; [congruence|]. intros _. destruct l as [|b l].
  - exists a. split; [reflexivity|now left].
  - destruct IH as (x & Hx & Hin); [discriminate|]. exists x. split; [|now right].
    change (last (map Some (a :: b :: l)) None) with (last (map Some (b :: l)) None). exact Hx.
Qed.

Lemma last_some_app (l1 l2 : list bdata) : l2 <> [] ->
  last (map Some (l1 ++ l2)) None = last (map Some l2) None.
Proof.
  intro NE. induction l1 as [|a l1 IH]; [reflexivity|].
  cbn [app]. destruct (l1 ++ l2) eqn:E.
  - apply app_eq_nil in E. destruct E; congruence.
  - change (last (map Some (a :: b :: l)) None) with (last (map Some (b :: l)) None). exact IH.
Qed.

Lemma chain_ok_app l1 : forall l2 lb fb r,
  chain_ok l1 -> chain_ok l2 -> last (map Some l1) None = Some lb -> l2 = fb :: r ->
  is_parent lb fb = Some true -> chain_ok (l1 ++ l2).
Proof.
  induction l1 as [|a l1 IH]; intros l2 lb fb r C1 C2 L E P; [discriminate|].
  destruct l1 as [|b l1].
  - cbn in L. injection L as <-. subst l2. cbn [app]. constructor; auto.
    inversion C1; auto.
  - inversion C1; subst. cbn [app]. constructor; auto.
    change (chain_ok ((b :: l1) ++ fb :: r)). eapply IH; eauto.
Qed.

(* ---- suffixes: validBlocksUnderFragment, removeIrrelevantFragments *)
Lemma valid_under_suffix fin l : exists p, l = p ++ valid_under fin l.
Proof.
  induction l as [|b l IH]; [exists []; reflexivity|]. cbn [valid_under].
  destruct (fin <? num_of b).
  - exists []. reflexivity.
  - destruct IH as [p Hp]. exists (b :: p). cbn [app]. now rewrite <- Hp.
Qed.

Lemma chain_ok_valid_under fin l : chain_ok l -> chain_ok (valid_under fin l).
Proof.
  intro C. destruct (valid_under_suffix fin l) as [p Hp]. rewrite Hp in C.
  eapply chain_ok_suffix; eauto.
Qed.

Lemma cut_fragment_spec fin rl : forall acc,
  exists p s, rl = p ++ s /\ cut_fragment fin rl acc = rev p ++ acc.
Proof.
  induction rl as [|b rl IH]; intro acc; cbn [cut_fragment].
  - exists [], []. auto.
  - destruct (num_of b <=? fin).
    + exists [], (b :: rl). auto.
    + destruct (IH (b :: acc)) as (p & s & E1 & E2). exists (b :: p), s. split.
      * cbn [app]. now rewrite E1.
      * rewrite E2. cbn [rev]. now rewrite <- app_assoc.
Qed.

Lemma chain_ok_cut fin f : chain_ok f -> chain_ok (cut_fragment fin (rev f) []).
Proof.
  intro C. destruct (cut_fragment_spec fin (rev f) []) as (p & s & E1 & E2).
  rewrite E2, app_nil_r.
  assert (f = rev s ++ rev p).
  { rewrite <- rev_app_distr, <- E1. now rewrite rev_involutive. }
  rewrite H in C. eapply chain_ok_suffix; eauto.
Qed.

(* ---- what the repaired validateResponseFields and isResponseAChain establish *)
Lemma validate_fields_none q l : validate_fields true q l = None ->
  Forall (fun b => (req_field q f_header = true -> d_header b <> None)
                   /\ (req_field q f_body = true -> d_body b = true)
                   /\ hash_matches b = true) l.
Proof.
  induction l as [|b l IH]; intro H; [constructor|]. cbn [validate_fields] in H.
  destruct (req_field q f_header && match d_header b with None => true | Some _ => false end) eqn:E1;
    [discriminate|].
  destruct (req_field q f_body && negb (d_body b)) eqn:E2; [discriminate|].
  cbn [andb] in H. destruct (hash_matches b) eqn:E3; cbn [negb] in H; [|discriminate].
  constructor; [|auto]. repeat split; auto.
  - intros R. rewrite R in E1. destruct (d_header b); [discriminate|discriminate].
  - intros R. rewrite R in E2. destruct (d_body b); [reflexivity|discriminate].
Qed.

Lemma good_of_validated q b :
  req_field q f_header = true -> req_field q f_body = true ->
  (req_field q f_header = true -> d_header b <> None) ->
  (req_field q f_body = true -> d_body b = true) ->
  hash_matches b = true -> good b.
Proof.
  intros R1 R2 H1 H2 H3. specialize (H1 R1). specialize (H2 R2).
  unfold hash_matches in H3. destruct (d_header b) as [h|] eqn:E; [|congruence].
  exists h. apply N.eqb_eq in H3. auto.
Qed.

Lemma is_chain_from_ok prev l : good prev -> Forall good l ->
  is_chain_from prev l = Some true -> chain_ok (prev :: l).
Proof.
  revert prev. induction l as [|b l IH]; intros prev G F H.
  - constructor. exact G.
  - cbn [is_chain_from] in H. inversion F as [|? ? Gb Fl]; subst.
    destruct (is_parent prev b) as [[|]|] eqn:P; try discriminate.
    constructor; auto.
Qed.

Lemma is_chain_ok l : Forall good l -> is_chain l = Some true -> chain_ok l.
Proof.
  intros F H. destruct l as [|b l]; [constructor|]. inversion F; subst.
  destruct l as [|c l]; [now constructor|]. cbn [is_chain] in H. now apply is_chain_from_ok.
Qed.
