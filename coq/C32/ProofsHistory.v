(* C32/ProofsHistory.v — histories of announce / Process steps; rejection of forged and unlinked
   responses. *)
From Coq Require Import NArith ZArith List Bool Lia Permutation.
From Common Require Import Outcome.
From C32 Require Import Gen Model ModelSpec ProofsChain ProofsImport ProofsProcess.
Import ListNotations.
Local Open Scope N_scope.

(* ---------------------------------------------------------------- rejection *)
Lemma validate_fields_not_forged q l : validate_fields true q l = None -> forged l = false.
Proof.
  intro H. apply validate_fields_none in H. unfold forged.
  destruct (existsb _ l) eqn:E; [|reflexivity]. apply existsb_exists in E.
  destruct E as (b & Hb & E). rewrite Forall_forall in H. destruct (H b Hb) as (_ & _ & M).
  rewrite M in E. discriminate.
Qed.

Lemma is_parent_linked a b :
  hash_matches a = true -> d_header a <> None -> d_header b <> None ->
  is_parent a b = Some (linked_true a b).
Proof.
  unfold hash_matches, is_parent, linked_true. intros M Ha Hb.
  destruct (d_header a) as [ha|]; [|congruence]. destruct (d_header b) as [hb|]; [|congruence].
  apply N.eqb_eq in M. now rewrite M.
Qed.

Lemma is_chain_from_true prev l :
  hash_matches prev = true -> d_header prev <> None ->
  Forall (fun b => hash_matches b = true /\ d_header b <> None) l ->
  is_chain_from prev l = Some (true_chain_from prev l).
Proof.
  revert prev. induction l as [|b l IH]; intros prev M H F; [reflexivity|].
  inversion F as [|? ? [Mb Hb] Fl]; subst. cbn [is_chain_from true_chain_from].
  rewrite (is_parent_linked prev b M H Hb). destruct (linked_true prev b); [|reflexivity].
  cbn [andb]. now apply IH.
Qed.

Lemma is_chain_true l :
  Forall (fun b => hash_matches b = true /\ d_header b <> None) l ->
  is_chain l = Some (true_chain l).
Proof.
  intro F. destruct l as [|b l]; [reflexivity|]. inversion F as [|? ? [M H] Fl]; subst.
  destruct l as [|c l]; [reflexivity|]. cbn [is_chain true_chain]. now apply is_chain_from_true.
Qed.

Lemma must_reject_not_accepted frg lg bad r :
  must_reject r = true -> forall q resp, classify true frg lg bad r <> VAccept q resp.
Proof.
  unfold must_reject, classify. intros MR q0 resp0.
  destruct (r_completed r); [|discriminate]. cbn [negb andb] in *.
  set (q := r_req r) in *.
  set (resp := if q_dir q =? dir_desc then rev (r_resp r) else r_resp r) in *. clearbody resp.
  destruct (validate_fields true q resp) as [[| |]|] eqn:V; try discriminate.
  rewrite (validate_fields_not_forged _ _ V) in MR. cbn [orb] in MR.
  apply andb_prop in MR. destruct MR as [RH NT].
  rewrite RH.
  assert (F : Forall (fun b => hash_matches b = true /\ d_header b <> None) resp).
  { apply validate_fields_none in V. eapply Forall_impl; [|exact V].
    intros b (A & _ & M). split; [exact M|exact (A RH)]. }
  assert (NH : has_nil_header resp = false).
  { unfold has_nil_header. destruct (existsb _ resp) eqn:E; [|reflexivity].
    apply existsb_exists in E. destruct E as (b & Hb & E). rewrite Forall_forall in F.
    destruct (F b Hb) as [_ H]. destruct (d_header b); [discriminate|congruence]. }
  rewrite NH in NT. cbn [orb] in NT.
  rewrite (is_chain_true _ F). apply negb_true_iff in NT. rewrite NT. discriminate.
Qed.

(* the repaired validateResults never panics, whatever the result *)
Lemma classify_no_panic bad r : classify true true true bad r <> VPanic.
Proof.
  unfold classify. destruct (negb (r_completed r)); [discriminate|].
  set (q := r_req r).
  set (resp := if q_dir q =? dir_desc then rev (r_resp r) else r_resp r). clearbody resp.
  destruct (validate_fields true q resp) as [[| |]|] eqn:V; try discriminate.
  destruct (req_field q f_header) eqn:RH.
  - assert (FH : Forall (fun b => d_header b <> None) resp).
    { apply validate_fields_none in V. eapply Forall_impl; [|exact V]. intros b (H & _). auto. }
    destruct (is_chain resp) as [[|]|] eqn:IC; try discriminate.
    + destruct (find (is_bad bad) resp) as [b|]; [destruct (d_header b); discriminate|].
      destruct (true && _); discriminate.
    + exfalso. eapply is_chain_some; eauto.
  - destruct (find (is_bad bad) resp) as [b|]; [destruct (d_header b); discriminate|].
    destruct (true && _); discriminate.
Qed.

Lemma validate_results_total bad rs : forall acc,
  exists v, validate_results true true true bad rs acc = Ok v.
Proof.
  induction rs as [|r rs IH]; intro acc; [exists acc; reflexivity|]. cbn [validate_results].
  pose proof (classify_no_panic bad r) as NP.
  destruct (classify true true true bad r); try apply IH. congruence.
Qed.

Lemma accepted_total bad rs : exists acc, accepted true true true bad rs = Some acc.
Proof.
  induction rs as [|r rs [acc E]]; [exists []; reflexivity|]. cbn [accepted]. rewrite E.
  pose proof (classify_no_panic bad r) as NP.
  destruct (classify true true true bad r); try (eexists; reflexivity). congruence.
Qed.

Lemma rejections_of_accepted frg lg bad rs : forall acc,
  accepted true frg lg bad rs = Some acc -> rejections_ok_b rs acc = true.
Proof.
  induction rs as [|r rs IH]; intros acc H; cbn [accepted] in H.
  - injection H as <-. reflexivity.
  - destruct (classify true frg lg bad r) as [|c| |q resp|] eqn:C; try discriminate;
      destruct (accepted true frg lg bad rs) as [l|]; try discriminate; injection H as <-;
      cbn [rejections_ok_b negb orb andb]; try (apply IH; reflexivity).
    destruct (must_reject r) eqn:MR.
    + exfalso. eapply must_reject_not_accepted; eauto.
    + cbn [negb andb]. apply IH. reflexivity.
Qed.

Lemma accepted_some bad rs : Forall (fun r => result_wf_b r = true) rs ->
  exists acc, accepted true true true bad rs = Some acc.
Proof.
  induction rs as [|r rs IH]; intro W; [exists []; reflexivity|].
  inversion W as [|? ? Wr Ws]; subst. destruct (IH Ws) as [acc E]. cbn [accepted]. rewrite E.
  pose proof (classify_fixed true bad r Wr) as C.
  destruct (classify true true true bad r); try (eexists; reflexivity). discriminate.
Qed.

(* ---------------------------------------------------------------- what events_ok_b says *)
Definition imports_of (evs : list event) : list N :=
  flat_map (fun e => match e with EImport s => [s] | _ => [] end) evs.

Lemma events_ok_sound evs : forall imp imp',
  events_ok_b imp evs = (true, imp') ->
  Forall (fun e => match e with EOrphan _ | EDup _ => False | _ => True end) evs
  /\ NoDup (imports_of evs)
  /\ (forall s, In s (imports_of evs) -> ~ In s imp)
  /\ (forall s, In s imp' <-> In s imp \/ In s (imports_of evs)).
Proof.
  induction evs as [|e evs IH]; intros imp imp' H; cbn [events_ok_b] in H.
  - injection H as <-. cbn. repeat split; auto; try constructor; try tauto.
  - destruct e as [s|s|s|s|s|s|s]; try discriminate;
      try (destruct (IH _ _ H) as (A & B & C & D); cbn [imports_of flat_map app] in *;
           split; [constructor; [exact I|exact A]|]; split; [exact B|]; split; [exact C|exact D]).
    destruct (existsb (N.eqb s) imp) eqn:X; [discriminate|].
    destruct (IH _ _ H) as (A & B & C & D). cbn [imports_of flat_map app]. fold (imports_of evs).
    assert (NI : ~ In s imp).
    { intro K. assert (existsb (N.eqb s) imp = true) by (apply existsb_exists; exists s; split; [exact K|apply N.eqb_refl]).
      congruence. }
    repeat split; auto.
    + constructor; [|exact B]. intro K. apply (C s K). now left.
    + intros x [<-|K]; [exact NI|]. intro K2. apply (C x K). now right.
    + intro K. apply D in K. cbn [In] in *. tauto.
    + intro K. apply D. cbn [In] in *. tauto.
Qed.

(* ---------------------------------------------------------------- histories *)
Definition step_wf (s : step) : Prop :=
  match s with
  | SProcess rs => Forall (fun r => result_wf_b r = true) rs
  | _ => True
  end.

Lemma steps_wf_forall steps : steps_wf_b steps = true -> Forall step_wf steps.
Proof.
  unfold steps_wf_b. intro H. rewrite forallb_forall in H. apply Forall_forall. intros s Hs.
  specialize (H s Hs). destruct s; cbn; auto. apply andb_prop in H. destruct H as [H1 H2].
  apply Forall_forall. rewrite forallb_forall in H2. exact H2.
Qed.

Lemma history_ok_nil imp steps : history_ok_b imp steps [] = true.
Proof. destruct steps; reflexivity. Qed.

Lemma history_ok_skip imp s sr o :
  match s with SProcess _ => False | _ => True end ->
  history_ok_b imp (s :: sr) o = history_ok_b imp sr o.
Proof.
  intro H. destruct o as [|[evs acc] o]; [now rewrite !history_ok_nil|].
  destruct s; try contradiction; reflexivity.
Qed.

Lemma steps_body_forall steps : steps_body_b steps = true -> Forall step_wf steps.
Proof.
  unfold steps_body_b. intro H. rewrite forallb_forall in H. apply Forall_forall. intros s Hs.
  specialize (H s Hs). destruct s; cbn; auto.
  apply Forall_forall. rewrite forallb_forall in H. exact H.
Qed.

Lemma steps_wf_body steps : steps_wf_b steps = true -> steps_body_b steps = true.
Proof.
  unfold steps_wf_b, steps_body_b. intro H. rewrite forallb_forall in *. intros s Hs.
  specialize (H s Hs). destruct s; auto. apply andb_prop in H. tauto.
Qed.

(* OnBlockAnnounce keeps the invariant, calls the importer never and returns no Process error *)
Lemma announce_ok bad st who h best imported : inv_state st imported ->
  inv_state (pr_state (announce bad st who h best)) imported
  /\ pr_events (announce bad st who h best) = []
  /\ pr_error (announce bad st who h best) = false.
Proof.
  intros I. unfold announce.
  destruct (existsb (N.eqb (h_hash h)) bad); [cbn; auto|].
  destruct ((h_number h <=? fin (p_env st)) || tracked (p_un st) h); [cbn; auto|].
  destruct (max_blocks <? N.max (h_number h) best - N.min (h_number h) best); [cbn; auto|].
  destruct (knows (p_env st) (h_hash h)); [cbn; auto|].
  cbn [pr_state pr_events pr_error]. split; [|split; reflexivity].
  destruct I as [IU IK]. split; [now apply new_incomplete_ok|exact IK].
Qed.

Definition no_error (o : option presult) : Prop :=
  match o with Some r => pr_error r = false | None => True end.

Lemma run_with_fixed_safe srt bad steps : keeps_forall srt -> forall st imported,
  inv_state st imported -> Forall step_wf steps ->
  exists outs stf imported',
    run_with srt true true true bad st steps = (outs, false, stf)
    /\ length outs = length steps
    /\ history_ok_b imported steps (observe bad steps outs) = true
    /\ Forall no_error outs
    /\ events_ok_b imported (all_events outs) = (true, imported')
    /\ inv_state stf imported'.
Proof.
  intro KS. induction steps as [|s steps IH]; intros st imported I W.
  - exists [], st, imported. split; [reflexivity|]. split; [reflexivity|]. split; [reflexivity|].
    split; [constructor|]. split; [reflexivity|exact I].
  - inversion W as [|? ? Ws Wr]; subst. cbn [run_with].
    destruct s as [h|h|n|rs|who h best|n best target]; cbn [do_step_with].
    + assert (I' : inv_state (mkps (p_env st) (new_incomplete (p_un st) h) (p_queue st)) imported).
      { destruct I as [IU IK]. split; [now apply new_incomplete_ok|exact IK]. }
      destruct (IH _ _ I' Wr) as (outs & stf & imp' & E & L & H & NE & EA & IF). rewrite E.
      exists (None :: outs), stf, imp'. split; [reflexivity|]. split; [cbn [length]; now rewrite L|].
      cbn [observe]. rewrite history_ok_skip by exact Logic.I.
      split; [exact H|]. split; [constructor; [exact Logic.I|exact NE]|]. split; [exact EA|exact IF].
    + assert (I' : inv_state (mkps (mkenv (h :: known (p_env st)) (fin (p_env st))) (p_un st) (p_queue st)) imported).
      { destruct I as [IU IK]. split; [exact IU|]. intros x Hx. cbn [p_env].
        rewrite knows_cons. rewrite (IK x Hx). apply orb_true_r. }
      destruct (IH _ _ I' Wr) as (outs & stf & imp' & E & L & H & NE & EA & IF). rewrite E.
      exists (None :: outs), stf, imp'. split; [reflexivity|]. split; [cbn [length]; now rewrite L|].
      cbn [observe]. rewrite history_ok_skip by exact Logic.I.
      split; [exact H|]. split; [constructor; [exact Logic.I|exact NE]|]. split; [exact EA|exact IF].
    + assert (I' : inv_state (mkps (mkenv (known (p_env st)) n) (p_un st) (p_queue st)) imported).
      { destruct I as [IU IK]. split; [exact IU|]. intros x Hx. cbn [p_env]. rewrite knows_fin. now apply IK. }
      destruct (IH _ _ I' Wr) as (outs & stf & imp' & E & L & H & NE & EA & IF). rewrite E.
      exists (None :: outs), stf, imp'. split; [reflexivity|]. split; [cbn [length]; now rewrite L|].
      cbn [observe]. rewrite history_ok_skip by exact Logic.I.
      split; [exact H|]. split; [constructor; [exact Logic.I|exact NE]|]. split; [exact EA|exact IF].
    + pose proof Ws as Wrs. cbn [step_wf] in Wrs.
      destruct (process_with_fixed_ok srt bad st rs imported KS I Wrs) as (r & imp1 & EP & ER & EO & I').
      rewrite EP. destruct (IH _ _ I' Wr) as (outs & stf & imp' & E & L & H & NE & EA & IF). rewrite E.
      exists (Some r :: outs), stf, imp'. split; [reflexivity|]. split; [cbn [length]; now rewrite L|].
      cbn [observe history_ok_b]. rewrite EO.
      destruct (accepted_some bad rs Wrs) as [acc EA']. rewrite EA'.
      rewrite (rejections_of_accepted _ _ _ _ _ EA'). cbn [andb].
      split; [exact H|]. split; [constructor; [exact ER|exact NE]|]. split; [|exact IF].
      cbn [all_events flat_map]. fold (all_events outs). rewrite events_ok_app, EO. exact EA.
    + destruct (announce_ok bad st who h best imported I) as (I' & EV & ER).
      destruct (IH _ _ I' Wr) as (outs & stf & imp' & E & L & H & NE & EA & IF). rewrite E.
      exists (Some (announce bad st who h best) :: outs), stf, imp'.
      split; [reflexivity|]. split; [cbn [length]; now rewrite L|].
      cbn [observe]. rewrite history_ok_skip by exact Logic.I.
      split; [exact H|]. split; [constructor; [exact ER|exact NE]|]. split; [|exact IF].
      cbn [all_events flat_map]. fold (all_events outs). rewrite EV. exact EA.
    + assert (I' : inv_state (mkps (p_env st) (p_un st) (skipn (N.to_nat n) (p_queue st))) imported)
        by (destruct I as [IU IK]; split; assumption).
      destruct (IH _ _ I' Wr) as (outs & stf & imp' & E & L & H & NE & EA & IF). rewrite E.
      exists (None :: outs), stf, imp'. split; [reflexivity|]. split; [cbn [length]; now rewrite L|].
      cbn [observe]. rewrite history_ok_skip by exact Logic.I.
      split; [exact H|]. split; [constructor; [exact Logic.I|exact NE]|]. split; [exact EA|exact IF].
Qed.

Lemma run_fixed_safe bad steps : forall st imported,
  inv_state st imported -> Forall step_wf steps ->
  exists outs stf,
    run true true true bad st steps = (outs, false, stf)
    /\ length outs = length steps
    /\ history_ok_b imported steps (observe bad steps outs) = true.
Proof.
  intros st imported I W.
  destruct (run_with_fixed_safe sort_frags bad steps sort_frags_keeps st imported I W)
    as (outs & stf & imp' & E & L & H & _). exists outs, stf. auto.
Qed.

Lemma init_inv root : inv_state (init_state root) [].
Proof. split; [split; constructor|]. intros s []. Qed.

(* ---------------------------------------------------------------- the statements of Properties.v *)
Lemma parents_first_any_sort :
  forall srt : list (list bdata) -> list (list bdata), (forall l, Permutation (srt l) l) ->
  forall bad root steps, steps_body_b steps = true ->
  exists outs stf,
    run_with srt true true true bad (init_state root) steps = (outs, false, stf)
    /\ length outs = length steps
    /\ Forall (fun o => match o with Some r => pr_error r = false | None => True end) outs
    /\ Forall (fun e => match e with EOrphan _ | EDup _ => False | _ => True end) (all_events outs)
    /\ NoDup (imports_of (all_events outs))
    /\ history_ok_b [] steps (observe bad steps outs) = true.
Proof.
  intros srt HP bad root steps W.
  destruct (run_with_fixed_safe srt bad steps (perm_keeps_forall srt HP) (init_state root) []
              (init_inv root) (steps_body_forall steps W))
    as (outs & stf & imp' & E & L & H & NE & EA & _).
  destruct (events_ok_sound _ _ _ EA) as (A & B & _).
  exists outs, stf. repeat split; assumption.
Qed.

Lemma validate_never_panics : forall bad rs,
  (forall r, classify true true true bad r <> VPanic)
  /\ (exists v, validate_results true true true bad rs (mkval [] [] []) = Ok v)
  /\ (exists acc, accepted true true true bad rs = Some acc /\ rejections_ok_b rs acc = true).
Proof.
  intros bad rs. split; [intro r; apply classify_no_panic|]. split; [apply validate_results_total|].
  destruct (accepted_total bad rs) as [acc E]. exists acc. split; [exact E|].
  exact (rejections_of_accepted _ _ _ _ _ E).
Qed.
