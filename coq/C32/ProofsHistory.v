(* C32/ProofsHistory.v — histories of announce / Process steps; rejection of forged and unlinked
   responses. *)
From Coq Require Import NArith ZArith List Bool Lia.
From Common Require Import Outcome.
From C32 Require Import Gen Model ModelSpec ProofsChain ProofsImport ProofsProcess.
Import ListNotations.
Local Open Scope N_scope.

(* ---------------------------------------------------------------- rejection *)
Lemma validate_fields_not_forged q l : validate_fields true q l = None -> forged l = false.
Proof.
  intro H. apply validate_fields_none in H. unfold forged.
  destruct (existsb _ l) eqn:E; [|reflexivity]. apply existsb_exists in E.
  destruct E as (b & Hb & E). rewrite Forall_forall in H. destruct (H b Hb) as (_ & _ & M).
  rewrite M in E. discriminate.
Qed.

Lemma is_parent_linked a b :
  hash_matches a = true -> d_header a <> None -> d_header b <> None ->
  is_parent a b = Some (linked_true a b).
Proof.
  unfold hash_matches, is_parent, linked_true. intros M Ha Hb.
  destruct (d_header a) as [ha|]; [|congruence]. destruct (d_header b) as [hb|]; [|congruence].
  apply N.eqb_eq in M. now rewrite M.
Qed.

Lemma is_chain_from_true prev l :
  hash_matches prev = true -> d_header prev <> None ->
  Forall (fun b => hash_matches b = true /\ d_header b <> None) l ->
  is_chain_from prev l = Some (true_chain_from prev l).
Proof.
  revert prev. induction l as [|b l IH]; intros prev M H F; [reflexivity|].
  inversion F as [|? ? [Mb Hb] Fl]; subst. cbn [is_chain_from true_chain_from].
  rewrite (is_parent_linked prev b M H Hb). destruct (linked_true prev b); [|reflexivity].
  cbn [andb]. now apply IH.
Qed.

Lemma is_chain_true l :
  Forall (fun b => hash_matches b = true /\ d_header b <> None) l ->
  is_chain l = Some (true_chain l).
Proof.
  intro F. destruct l as [|b l]; [reflexivity|]. inversion F as [|? ? [M H] Fl]; subst.
  destruct l as [|c l]; [reflexivity|]. cbn [is_chain true_chain]. now apply is_chain_from_true.
Qed.

Lemma must_reject_not_accepted frg lg bad r :
  must_reject r = true -> forall q resp, classify true frg lg bad r <> VAccept q resp.
Proof.
  unfold must_reject, classify. intros MR q0 resp0.
  destruct (r_completed r); [|discriminate]. cbn [negb andb] in *.
  set (q := r_req r) in *.
  set (resp := if q_dir q =? dir_desc then rev (r_resp r) else r_resp r) in *. clearbody resp.
  destruct (validate_fields true q resp) as [[| |]|] eqn:V; try discriminate.
  rewrite (validate_fields_not_forged _ _ V) in MR. cbn [orb] in MR.
  apply andb_prop in MR. destruct MR as [MR NT]. apply andb_prop in MR. destruct MR as [RH AH].
  rewrite RH.
  assert (F : Forall (fun b => hash_matches b = true /\ d_header b <> None) resp).
  { apply validate_fields_none in V. rewrite forallb_forall in AH. apply Forall_forall. intros b Hb.
    rewrite Forall_forall in V. destruct (V b Hb) as (_ & _ & M). split; [exact M|].
    specialize (AH b Hb). destruct (d_header b); [discriminate|discriminate]. }
  rewrite (is_chain_true _ F). apply negb_true_iff in NT. rewrite NT. discriminate.
Qed.

Lemma rejections_of_accepted frg lg bad rs : forall acc,
  accepted true frg lg bad rs = Some acc -> rejections_ok_b rs acc = true.
Proof.
  induction rs as [|r rs IH]; intros acc H; cbn [accepted] in H.
  - injection H as <-. reflexivity.
  - destruct (classify true frg lg bad r) as [|c| |q resp|] eqn:C; try discriminate;
      destruct (accepted true frg lg bad rs) as [l|]; try discriminate; injection H as <-;
      cbn [rejections_ok_b negb orb andb]; try (apply IH; reflexivity).
    destruct (must_reject r) eqn:MR.
    + exfalso. eapply must_reject_not_accepted; eauto.
    + cbn [negb andb]. apply IH. reflexivity.
Qed.

Lemma accepted_some bad rs : Forall (fun r => result_wf_b r = true) rs ->
  exists acc, accepted true true true bad rs = Some acc.
Proof.
  induction rs as [|r rs IH]; intro W; [exists []; reflexivity|].
  inversion W as [|? ? Wr Ws]; subst. destruct (IH Ws) as [acc E]. cbn [accepted]. rewrite E.
  pose proof (classify_fixed true bad r Wr) as C.
  destruct (classify true true true bad r); try (eexists; reflexivity). discriminate.
Qed.

(* ---------------------------------------------------------------- what events_ok_b says *)
Definition imports_of (evs : list event) : list N :=
  flat_map (fun e => match e with EImport s => [s] | _ => [] end) evs.

Lemma events_ok_sound evs : forall imp imp',
  events_ok_b imp evs = (true, imp') ->
  Forall (fun e => match e with EOrphan _ | EDup _ => False | _ => True end) evs
  /\ NoDup (imports_of evs)
  /\ (forall s, In s (imports_of evs) -> ~ In s imp)
  /\ (forall s, In s imp' <-> In s imp \/ In s (imports_of evs)).
Proof.
  induction evs as [|e evs IH]; intros imp imp' H; cbn [events_ok_b] in H.
  - injection H as <-. cbn. repeat split; auto; try constructor; try tauto.
  - destruct e as [s|s|s|s|s|s]; try discriminate;
      try (destruct (IH _ _ H) as (A & B & C & D); cbn [imports_of flat_map app] in *;
           split; [constructor; [exact I|exact A]|]; split; [exact B|]; split; [exact C|exact D]).
    destruct (existsb (N.eqb s) imp) eqn:X; [discriminate|].
    destruct (IH _ _ H) as (A & B & C & D). cbn [imports_of flat_map app]. fold (imports_of evs).
    assert (NI : ~ In s imp).
    { intro K. assert (existsb (N.eqb s) imp = true) by (apply existsb_exists; exists s; split; [exact K|apply N.eqb_refl]).
      congruence. }
    repeat split; auto.
    + constructor; [|exact B]. intro K. apply (C s K). now left.
    + intros x [<-|K]; [exact NI|]. intro K2. apply (C x K). now right.
    + intro K. apply D in K. cbn [In] in *. tauto.
    + intro K. apply D. cbn [In] in *. tauto.
Qed.

(* ---------------------------------------------------------------- histories *)
Definition step_wf (s : step) : Prop :=
  match s with
  | SProcess rs => Forall (fun r => result_wf_b r = true) rs
  | _ => True
  end.

Lemma steps_wf_forall steps : steps_wf_b steps = true -> Forall step_wf steps.
Proof.
  unfold steps_wf_b. intro H. rewrite forallb_forall in H. apply Forall_forall. intros s Hs.
  specialize (H s Hs). destruct s; cbn; auto. apply andb_prop in H. destruct H as [H1 H2].
  apply Forall_forall. rewrite forallb_forall in H2. exact H2.
Qed.

Lemma history_ok_nil imp steps : history_ok_b imp steps [] = true.
Proof. destruct steps; reflexivity. Qed.

Lemma history_ok_skip imp s sr o :
  match s with SProcess _ => False | _ => True end ->
  history_ok_b imp (s :: sr) o = history_ok_b imp sr o.
Proof.
  intro H. destruct o as [|[evs acc] o]; [now rewrite !history_ok_nil|].
  destruct s; try contradiction; reflexivity.
Qed.

Lemma run_fixed_safe bad steps : forall st imported,
  inv_state st imported -> Forall step_wf steps ->
  exists outs stf,
    run true true true bad st steps = (outs, false, stf)
    /\ length outs = length steps
    /\ history_ok_b imported steps (observe bad steps outs) = true.
Proof.
  induction steps as [|s steps IH]; intros st imported I W.
  - exists [], st. repeat split; reflexivity.
  - inversion W as [|? ? Ws Wr]; subst. cbn [run].
    destruct s as [h|h|n|rs]; cbn [do_step].
    + assert (I' : inv_state (mkps (p_env st) (new_incomplete (p_un st) h) (p_queue st)) imported).
      { destruct I as [IU IK]. split; [now apply new_incomplete_ok|exact IK]. }
      destruct (IH _ _ I' Wr) as (outs & stf & E & L & H). rewrite E.
      exists (None :: outs), stf. split; [reflexivity|]. split; [cbn [length]; now rewrite L|].
      cbn [observe]. rewrite history_ok_skip by exact Logic.I. exact H.
    + assert (I' : inv_state (mkps (mkenv (h :: known (p_env st)) (fin (p_env st))) (p_un st) (p_queue st)) imported).
      { destruct I as [IU IK]. split; [exact IU|]. intros x Hx. cbn [p_env].
        rewrite knows_cons. rewrite (IK x Hx). apply orb_true_r. }
      destruct (IH _ _ I' Wr) as (outs & stf & E & L & H). rewrite E.
      exists (None :: outs), stf. split; [reflexivity|]. split; [cbn [length]; now rewrite L|].
      cbn [observe]. rewrite history_ok_skip by exact Logic.I. exact H.
    + assert (I' : inv_state (mkps (mkenv (known (p_env st)) n) (p_un st) (p_queue st)) imported).
      { destruct I as [IU IK]. split; [exact IU|]. intros x Hx. cbn [p_env]. rewrite knows_fin. now apply IK. }
      destruct (IH _ _ I' Wr) as (outs & stf & E & L & H). rewrite E.
      exists (None :: outs), stf. split; [reflexivity|]. split; [cbn [length]; now rewrite L|].
      cbn [observe]. rewrite history_ok_skip by exact Logic.I. exact H.
    + pose proof Ws as Wrs. cbn [step_wf] in Wrs.
      destruct (process_fixed_ok bad st rs imported I Wrs) as (r & imp' & EP & ER & EO & I').
      rewrite EP. destruct (IH _ _ I' Wr) as (outs & stf & E & L & H). rewrite E.
      exists (Some r :: outs), stf. split; [reflexivity|]. split; [cbn [length]; now rewrite L|].
      cbn [observe history_ok_b]. rewrite EO.
      destruct (accepted_some bad rs Wrs) as [acc EA]. rewrite EA.
      rewrite (rejections_of_accepted _ _ _ _ _ EA). cbn [andb]. exact H.
Qed.

Lemma init_inv root : inv_state (init_state root) [].
Proof. split; [split; constructor|]. intros s []. Qed.
