(* C32/Model.v — executable model (definitions only) of the validation and ordering layer of full
   sync:
     dot/sync/fullsync.go        FullSyncStrategy.Process, validateResults, validateResponseFields,
                                 isResponseAChain, sortFragmentsOfChain, mergeFragmentsOfChain,
                                 validBlocksUnderFragment, OnBlockAnnounce, blockAlreadyTracked
     dot/sync/unready_blocks.go  newIncompleteBlock, newDisjointFragment, updateDisjointFragments,
                                 updateIncompleteBlocks, removeIrrelevantFragments, isIncomplete,
                                 inDisjointFragment
     dot/types/block_data.go     BlockData.IsParent
   against an environment that stands for the block state and the importer:
     known   the hashes blockState.HasHeader answers true for
     fin     the number of GetHighestFinalisedHeader
     import  the checks of blockImporter.importBlock / processBlockData in their order (the
             harness uses a recording double with exactly this behaviour).
   Hashes are abstract numbers.  h_hash is the hash of the header (what Header.Hash() computes);
   d_hash is the hash the peer STATES for the block.

   Three switches select the repaired code (true) or the pinned tree (false):
     chk   validateResponseFields also rejects a block whose stated hash differs from the hash of
           its header (/repo commit c7e99412f, fixes/applied/C32-1-stated-hash.patch)
     frg   Process ignores empty responses and turns every completed block into a fragment of its
           own (/repo commit d71df5dea, fixes/applied/C32-2-ready-fragments.patch)
     lg    the log line for a known bad block no longer dereferences the (possibly nil) header
           (/repo commit faca5e8e2, fixes/applied/C32-3-bad-block-nil-header.patch) *)
From Coq Require Import NArith ZArith List Bool.
From Common Require Import Outcome.
From C31 Require Model.
From C32 Require Import Gen.
Import ListNotations.
Local Open Scope N_scope.

Definition two64 : N := 18446744073709551616.
Definition add64 (a b : N) : N := (a + b) mod two64.
Definition sub64 (a b : N) : N := (a + two64 - b mod two64) mod two64.

Definition f_header : N := Z.to_N Gen.requested_data_header.
Definition f_body : N := Z.to_N Gen.requested_data_body.
Definition dir_desc : N := Z.to_N Gen.dir_descending.

Record header := mkhdr { h_hash : N; h_parent : N; h_number : N }.
Record bdata := mkbd { d_hash : N; d_header : option header; d_body : bool; d_just : bool }.
Record request := mkreq { q_fields : N; q_dir : N }.
Record result := mkres { r_who : N; r_completed : bool; r_req : request; r_resp : list bdata }.

Definition req_field (q : request) (f : N) : bool := N.land (q_fields q) f =? f.

(* reputation changes *)
Definition REP_INCOMPLETE_HEADER : N := 1.
Definition REP_BAD_BLOCK : N := 2.
Definition REP_BAD_MESSAGE : N := 3.

(* ---------------------------------------------------------------- validation *)

Inductive field_error := NilHeader | NilBody | HashMismatch.

Definition hash_matches (b : bdata) : bool :=
  match d_header b with Some h => h_hash h =? d_hash b | None => true end.

(* validateResponseFields *)
Fixpoint validate_fields (chk : bool) (q : request) (l : list bdata) : option field_error :=
  match l with
  | [] => None
  | b :: r =>
    if req_field q f_header && (match d_header b with None => true | Some _ => false end) then Some NilHeader
    else if req_field q f_body && negb (d_body b) then Some NilBody
    else if chk && negb (hash_matches b) then Some HashMismatch
    else validate_fields chk q r
  end.

(* BlockData.IsParent: None = nil-pointer dereference *)
Definition is_parent (a b : bdata) : option bool :=
  match d_header a, d_header b with
  | Some ha, Some hb => Some ((add64 (h_number ha) 1 =? h_number hb) && (d_hash a =? h_parent hb))
  | _, _ => None
  end.

(* isResponseAChain *)
Fixpoint is_chain_from (prev : bdata) (l : list bdata) : option bool :=
  match l with
  | [] => Some true
  | b :: r =>
    match is_parent prev b with
    | Some true => is_chain_from b r
    | Some false => Some false
    | None => None
    end
  end.
Definition is_chain (l : list bdata) : option bool :=
  match l with
  | [] => Some true
  | b :: r => match r with [] => Some true | _ => is_chain_from b r end
  end.

Record validated := mkval {
  v_reps : list (N * N);            (* who, reputation change, in order *)
  v_bans : list N;
  v_ok : list (request * list bdata)
}.

Definition is_bad (bad : list N) (b : bdata) : bool := existsb (N.eqb (d_hash b)) bad.

(* the decision of validateResults about one result *)
Inductive verdict :=
| VSkip                                   (* not completed, nil body, (repaired: empty) *)
| VRep (code : N)                         (* rejected with a reputation change *)
| VBan                                    (* known bad block: reputation change and ban *)
| VAccept (q : request) (resp : list bdata)
| VPanic.                                 (* nil dereference *)

Definition classify (chk frg lg : bool) (bad : list N) (r : result) : verdict :=
  if negb (r_completed r) then VSkip else
  let q := r_req r in
  let resp := if q_dir q =? dir_desc then rev (r_resp r) else r_resp r in
  match validate_fields chk q resp with
  | Some NilHeader => VRep REP_INCOMPLETE_HEADER
  | Some NilBody => VSkip
  | Some HashMismatch => VRep REP_BAD_MESSAGE
  | None =>
    match (if req_field q f_header then is_chain resp else Some true) with
    | None => VPanic
    | Some false => VRep REP_INCOMPLETE_HEADER
    | Some true =>
      match find (is_bad bad) resp with
      | Some b =>
        match d_header b with
        | None => if lg then VBan else VPanic   (* block.Number() in the log line *)
        | Some _ => VBan
        end
      | None =>
        if frg && (match resp with [] => true | _ => false end) then VSkip
        else VAccept q resp
      end
    end
  end.

(* validateResults *)
Fixpoint validate_results (chk frg lg : bool) (bad : list N) (rs : list result) (acc : validated)
  : outcome validated :=
  match rs with
  | [] => Ok acc
  | r :: rest =>
    let continue := validate_results chk frg lg bad rest in
    match classify chk frg lg bad r with
    | VSkip => continue acc
    | VRep c => continue (mkval (v_reps acc ++ [(r_who r, c)]) (v_bans acc) (v_ok acc))
    | VBan => continue (mkval (v_reps acc ++ [(r_who r, REP_BAD_BLOCK)]) (v_bans acc ++ [r_who r]) (v_ok acc))
    | VAccept q resp => continue (mkval (v_reps acc) (v_bans acc) (v_ok acc ++ [(q, resp)]))
    | VPanic => Panic
    end
  end.

(* which results validateResults accepts (None: it panics) *)
Fixpoint accepted (chk frg lg : bool) (bad : list N) (rs : list result) : option (list bool) :=
  match rs with
  | [] => Some []
  | r :: rest =>
    match classify chk frg lg bad r with
    | VPanic => None
    | v => match accepted chk frg lg bad rest with
           | Some l => Some ((match v with VAccept _ _ => true | _ => false end) :: l)
           | None => None
           end
    end
  end.

(* ---------------------------------------------------------------- unready blocks *)

Record unready := mkun {
  u_incomplete : list bdata;          (* the map hash -> block data, as an association list *)
  u_disjoint : list (list bdata)
}.

Definition num_of (b : bdata) : N := match d_header b with Some h => h_number h | None => 0 end.
Definition parent_of (b : bdata) : N := match d_header b with Some h => h_parent h | None => 0 end.

(* newIncompleteBlock(header): the map entry is replaced *)
Definition new_incomplete (u : unready) (h : header) : unready :=
  mkun (mkbd (h_hash h) (Some h) false false
        :: filter (fun b => negb (d_hash b =? h_hash h)) (u_incomplete u))
       (u_disjoint u).

(* updateDisjointFragments: index of the first fragment the chain connects to *)
Fixpoint find_connect (last : option bdata) (frs : list (list bdata)) (i : nat) : outcome (option nat) :=
  match frs with
  | [] => Ok None
  | fr :: rest =>
    match last, fr with
    | None, _ => Panic                      (* chain[len(chain)-1] of an empty chain *)
    | _, [] => Panic                        (* disjointChain[0] *)
    | Some l, first :: _ =>
      match is_parent l first with
      | None => Panic
      | Some true => Ok (Some i)
      | Some false => find_connect last rest (S i)
      end
    end
  end.

Fixpoint remove_nth {A} (n : nat) (l : list A) : list A :=
  match l, n with
  | [], _ => []
  | _ :: r, O => r
  | x :: r, S n' => x :: remove_nth n' r
  end.

Definition update_disjoint (u : unready) (chain : list bdata)
  : outcome (option (list bdata) * unready) :=
  match find_connect (last (map Some chain) None) (u_disjoint u) 0 with
  | Ok (Some i) =>
    Ok (Some (chain ++ nth i (u_disjoint u) []), mkun (u_incomplete u) (remove_nth i (u_disjoint u)))
  | Ok None => Ok (None, u)
  | Err c => Err c
  | Panic => Panic
  | OutOfFuel => OutOfFuel
  end.

(* updateIncompleteBlocks *)
Fixpoint update_incomplete (inc : list bdata) (chain : list bdata) : list bdata * list bdata :=
  match chain with
  | [] => ([], inc)
  | b :: r =>
    match find (fun x => d_hash x =? d_hash b) inc with
    | None => update_incomplete inc r
    | Some x =>
      let done := mkbd (d_hash x) (d_header x) (d_body b) (d_just b) in
      let (cs, inc') := update_incomplete (filter (fun y => negb (d_hash y =? d_hash b)) inc) r in
      (done :: cs, inc')
    end
  end.

(* validBlocksUnderFragment *)
Fixpoint valid_under (fin : N) (l : list bdata) : list bdata :=
  match l with
  | [] => []
  | b :: r => if fin <? num_of b then l else valid_under fin r
  end.

(* removeIrrelevantFragments *)
Fixpoint cut_fragment (fin : N) (rl : list bdata) (acc : list bdata) : list bdata :=
  (* rl = the fragment reversed; collects, from the end, the blocks above fin *)
  match rl with
  | [] => acc
  | b :: r => if num_of b <=? fin then acc else cut_fragment fin r (b :: acc)
  end.
Definition remove_irrelevant (u : unready) (fin : N) : unready :=
  mkun (filter (fun b => negb (num_of b <=? fin)) (u_incomplete u))
       (filter (fun f => match f with [] => false | _ => true end)
               (map (fun f => cut_fragment fin (rev f) []) (u_disjoint u))).

(* ---------------------------------------------------------------- ordering *)

Definition has_empty (frs : list (list bdata)) : bool :=
  existsb (fun f => match f with [] => true | _ => false end) frs.

Definition first_num (f : list bdata) : N := match f with b :: _ => num_of b | [] => 0 end.

(* slices.SortFunc on at most 12 elements is insertion sort: stable *)
Fixpoint insert_frag (f : list bdata) (sorted : list (list bdata)) : list (list bdata) :=
  match sorted with
  | [] => [f]
  | g :: r => if first_num f <? first_num g then f :: sorted else g :: insert_frag f r
  end.
Definition sort_frags (frs : list (list bdata)) : list (list bdata) :=
  fold_left (fun acc f => insert_frag f acc) frs [].

(* sortFragmentsOfChain: a[0] of an empty fragment panics as soon as it is compared *)
(* [srt] is the reordering slices.SortFunc performs; sort_frags is what it does on at most 12
   fragments, the _with versions below leave it open (any function) so that the safety theorem
   can be stated for whatever order the library sort produces *)
Definition sort_fragments_with (srt : list (list bdata) -> list (list bdata))
  (frs : list (list bdata)) : outcome (list (list bdata)) :=
  if (2 <=? length frs)%nat && has_empty frs then Panic else Ok (srt frs).
Definition sort_fragments : list (list bdata) -> outcome (list (list bdata)) :=
  sort_fragments_with sort_frags.

(* mergeFragmentsOfChain *)
Fixpoint merge_loop (merged : list (list bdata)) (cur : list bdata) (rest : list (list bdata))
  : outcome (list (list bdata)) :=
  (* merged = finished fragments (in order), cur = the last merged fragment *)
  match rest with
  | [] => Ok (merged ++ [cur])
  | f :: r =>
    match last (map Some cur) None, f with
    | Some lb, first :: _ =>
      match is_parent lb first with
      | Some true => merge_loop merged (cur ++ f) r
      | Some false => merge_loop (merged ++ [cur]) f r
      | None => Panic
      end
    | _, _ => Panic
    end
  end.
Definition merge_fragments (frs : list (list bdata)) : outcome (list (list bdata)) :=
  match frs with
  | [] => Ok []
  | f :: r => merge_loop [] f r
  end.

(* ---------------------------------------------------------------- environment *)

Inductive event :=
| EImport (stated : N)      (* handed to block execution and added to the block state *)
| ESkip (stated : N)        (* importBlock: HasHeader(stated hash) *)
| EOrphan (stated : N)      (* refused: the parent header is not in the block state *)
| EDup (stated : N)         (* refused: the header hash is in the block state already *)
| ENothing (stated : N)     (* no header or no body: nothing to execute *)
| EFinal (stated : N)       (* justified: SetFinalisedHash *)
| EOrphanPruned (stated : N). (* refused: the parent header WAS in the block state but a finalisation
                                 since then pruned its fork (only the pruning environment of
                                 ModelPrune.v produces it) *)

Record env := mkenv { known : list N; fin : N }.
Definition knows (e : env) (h : N) : bool := existsb (N.eqb h) (known e).

(* importBlock: (events, new environment, error?) *)
Definition import_block (e : env) (b : bdata) : list event * env * bool :=
  if knows e (d_hash b) then ([ESkip (d_hash b)], e, false) else
  match d_header b with
  | None => ([ENothing (d_hash b)], e, false)
  | Some h =>
    let after_body :=
      if d_body b then
        if negb (knows e (h_parent h)) then ([EOrphan (d_hash b)], e, true)
        else if knows e (h_hash h) then ([EDup (d_hash b)], e, true)
        else ([EImport (d_hash b)], mkenv (h_hash h :: known e) (fin e), false)
      else if d_just b then ([], e, false) else ([ENothing (d_hash b)], e, false) in
    match after_body with
    | (ev, e1, true) => (ev, e1, true)
    | (ev, e1, false) =>
      if d_just b then
        if negb (knows e1 (h_hash h)) then (ev ++ [EOrphan (d_hash b)], e1, true)
        else (ev ++ [EFinal (d_hash b)],
              mkenv (known e1) (if fin e1 <? h_number h then h_number h else fin e1), false)
      else (ev, e1, false)
    end
  end.

Fixpoint import_all (e : env) (l : list bdata) : list event * env * bool :=
  match l with
  | [] => ([], e, false)
  | b :: r =>
    match import_block e b with
    | (ev, e1, true) => (ev, e1, true)
    | (ev, e1, false) =>
      match import_all e1 r with (ev2, e2, err) => (ev ++ ev2, e2, err) end
    end
  end.

(* ---------------------------------------------------------------- Process *)

(* the requests waiting in f.requestQueue: the ancestor search Process starts from the parent of a
   disjoint fragment (descending from that hash, MaxBlocksInResponse, bootstrap fields), and the
   body request OnBlockAnnounce makes for an announced block (ascending from the hash, max 1,
   body + justification) *)
Inductive qreq := QAncestors (h : N) | QBody (h : N).

Record pstate := mkps { p_env : env; p_un : unready; p_queue : list qreq }.

Record presult := mkpr {
  pr_state : pstate;
  pr_events : list event;
  pr_error : bool;                (* Process returned an error *)
  pr_reps : list (N * N);
  pr_bans : list N
}.

(* the loop over the valid responses that builds readyBlocks *)
Fixpoint collect_ready (frg : bool) (fin0 : N) (u : unready) (vs : list (request * list bdata))
  (ready : list (list bdata)) : outcome (unready * list (list bdata)) :=
  match vs with
  | [] => Ok (u, ready)
  | (q, resp) :: rest =>
    if req_field q f_header then
      match update_disjoint u resp with
      | Ok (Some frag, u') =>
        let v := valid_under fin0 frag in
        collect_ready frg fin0 u' rest (match v with [] => ready | _ => ready ++ [v] end)
      | Ok (None, u') => collect_ready frg fin0 u' rest (ready ++ [resp])
      | Err c => Err c
      | Panic => Panic
      | OutOfFuel => OutOfFuel
      end
    else
      let (cs, inc') := update_incomplete (u_incomplete u) resp in
      let u' := mkun inc' (u_disjoint u) in
      collect_ready frg fin0 u' rest
        (if frg then ready ++ map (fun c => [c]) cs else ready ++ [cs])
  end.

(* the first loop over orderedFragments *)
Fixpoint split_known (e : env) (frs : list (list bdata)) (next : list bdata) (dis : list (list bdata))
  : outcome (list bdata * list (list bdata)) :=
  match frs with
  | [] => Ok (next, dis)
  | [] :: _ => Panic                              (* fragment[0] *)
  | ((b :: _) as f) :: r =>
    match d_header b with
    | None => Panic
    | Some h => if knows e (h_parent h) then split_known e r (next ++ f) dis
                else split_known e r next (dis ++ [f])
    end
  end.

(* the loop over the disjoint fragments after the first round of imports *)
Fixpoint second_round (e : env) (dis : list (list bdata)) (u : unready) (queue : list qreq)
  (next : list bdata) : outcome (unready * list qreq * list bdata) :=
  match dis with
  | [] => Ok (u, queue, next)
  | f :: r =>
    match valid_under (fin e) f with
    | [] => second_round e r u queue next
    | (b :: _) as v =>
      match d_header b with
      | None => Panic
      | Some h =>
        if knows e (h_parent h) then second_round e r u queue (next ++ v)
        else if sub64 (h_number h) 1 <=? fin e then second_round e r u queue next
        else second_round e r (mkun (u_incomplete u) (u_disjoint u ++ [v])) (queue ++ [QAncestors (h_parent h)]) next
      end
    end
  end.

Definition process_with (srt : list (list bdata) -> list (list bdata))
  (chk frg lg : bool) (bad : list N) (st : pstate) (rs : list result) : outcome presult :=
  match validate_results chk frg lg bad rs (mkval [] [] []) with
  | Ok v =>
    match collect_ready frg (fin (p_env st)) (p_un st) (v_ok v) [] with
    | Ok (u1, ready) =>
      match sort_fragments_with srt ready with
      | Ok sorted =>
        match merge_fragments sorted with
        | Ok ordered =>
          match split_known (p_env st) ordered [] [] with
          | Ok (next, dis) =>
            match next, dis with
            | [], [] =>
              Ok (mkpr (mkps (p_env st) (remove_irrelevant u1 (fin (p_env st))) (p_queue st))
                       [] false (v_reps v) (v_bans v))
            | _, _ =>
              match import_all (p_env st) next with
              | (ev1, e1, true) => Ok (mkpr (mkps e1 u1 (p_queue st)) ev1 true [] [])
              | (ev1, e1, false) =>
                match second_round e1 dis u1 (p_queue st) [] with
                | Ok (u2, q2, next2) =>
                  match next2 with
                  | [] => Ok (mkpr (mkps e1 (remove_irrelevant u2 (fin e1)) q2) ev1 false (v_reps v) (v_bans v))
                  | _ =>
                    match import_all e1 next2 with
                    | (ev2, e2, true) => Ok (mkpr (mkps e2 u2 q2) (ev1 ++ ev2) true [] [])
                    | (ev2, e2, false) =>
                      Ok (mkpr (mkps e2 (remove_irrelevant u2 (fin e2)) q2) (ev1 ++ ev2) false
                               (v_reps v) (v_bans v))
                    end
                  end
                | Err c => Err c | Panic => Panic | OutOfFuel => OutOfFuel
                end
              end
            end
          | Err c => Err c | Panic => Panic | OutOfFuel => OutOfFuel
          end
        | Err c => Err c | Panic => Panic | OutOfFuel => OutOfFuel
        end
      | Err c => Err c | Panic => Panic | OutOfFuel => OutOfFuel
      end
    | Err c => Err c | Panic => Panic | OutOfFuel => OutOfFuel
    end
  | Err c => Err c | Panic => Panic | OutOfFuel => OutOfFuel
  end.

Definition process : bool -> bool -> bool -> list N -> pstate -> list result -> outcome presult :=
  process_with sort_frags.

(* ---------------------------------------------------------------- histories *)

(* ---------------------------------------------------------------- OnBlockAnnounce *)
Definition max_blocks : N := Z.to_N Gen.max_blocks_in_response.
Definition REP_BAD_ANNOUNCE : N := 4.     (* BadBlockAnnouncement, returned with errBadBlockReceived *)
Definition REP_NOT_RELEVANT : N := 5.     (* NotRelevantBlockAnnounce *)
Definition REP_GOSSIP_OK : N := 6.        (* GossipSuccess *)

(* unreadyBlocks.inDisjointFragment: a binary search for the number, then the hash is compared.
   On the fragments unreadyBlocks keeps (chains, numbers strictly increasing) the search finds the
   one block with that number *)
Definition in_fragment (f : list bdata) (h n : N) : bool :=
  match find (fun b => num_of b =? n) f with Some b => d_hash b =? h | None => false end.

(* blockAlreadyTracked *)
Definition tracked (u : unready) (h : header) : bool :=
  existsb (fun b => d_hash b =? h_hash h) (u_incomplete u)
  || existsb (fun f => in_fragment f (h_hash h) (h_number h)) (u_disjoint u).

(* FullSyncStrategy.OnBlockAnnounce(who, announce of header h) while the best block has number
   [best] (blockState not paused, announce without the best-block flag): the new state and the
   reputation change returned, as a presult without importer events *)
Definition announce (bad : list N) (st : pstate) (who : N) (h : header) (best : N) : presult :=
  if existsb (N.eqb (h_hash h)) bad then mkpr st [] false [(who, REP_BAD_ANNOUNCE)] [] else
  if (h_number h <=? fin (p_env st)) || tracked (p_un st) h
  then mkpr st [] false [(who, REP_NOT_RELEVANT)] [] else
  if max_blocks <? N.max (h_number h) best - N.min (h_number h) best then mkpr st [] false [] [] else
  if knows (p_env st) (h_hash h) then mkpr st [] false [(who, REP_GOSSIP_OK)] [] else
  mkpr (mkps (p_env st) (new_incomplete (p_un st) h) (p_queue st ++ [QBody (h_hash h)]))
       [] false [(who, REP_GOSSIP_OK)] [].

(* ---------------------------------------------------------------- NextActions *)
(* the ascending requests FullSyncStrategy.NextActions plans with numOfTasks = n, best block number
   best and peer target target (a uint32): none when uint32(best) >= target, else
   NewAscendingBlockRequests(best+1, min(best+1+n*127, target), bootstrap) — the planner of C31 *)
Definition next_asc (n best target : N) : list (N * N) :=
  if target <=? best mod 4294967296 then [] else
  let start := add64 best 1 in
  let tb := add64 start ((n * 127) mod two64) in
  let tb := if target <? tb then target else tb in
  C31.Model.plan start tb.

Inductive step :=
| SAnnounce (h : header)                       (* unreadyBlocks.newIncompleteBlock directly *)
| SKnown (h : N)
| SFinal (n : N)
| SProcess (rs : list result)
| SAnnounceMsg (who : N) (h : header) (best : N)    (* OnBlockAnnounce *)
| SNextActions (n best target : N).   (* NextActions: pops up to n queued requests (and plans
                                         next_asc n best target, which does not touch the state) *)

Definition do_step_with (srt : list (list bdata) -> list (list bdata))
  (chk frg lg : bool) (bad : list N) (st : pstate) (s : step) : outcome (pstate * option presult) :=
  match s with
  | SAnnounce h => Ok (mkps (p_env st) (new_incomplete (p_un st) h) (p_queue st), None)
  | SKnown h => Ok (mkps (mkenv (h :: known (p_env st)) (fin (p_env st))) (p_un st) (p_queue st), None)
  | SFinal n => Ok (mkps (mkenv (known (p_env st)) n) (p_un st) (p_queue st), None)
  | SProcess rs =>
    match process_with srt chk frg lg bad st rs with
    | Ok r => Ok (pr_state r, Some r)
    | Err c => Err c | Panic => Panic | OutOfFuel => OutOfFuel
    end
  | SAnnounceMsg who h best => let r := announce bad st who h best in Ok (pr_state r, Some r)
  | SNextActions n _ _ => Ok (mkps (p_env st) (p_un st) (skipn (N.to_nat n) (p_queue st)), None)
  end.
Definition do_step := do_step_with sort_frags.

(* runs a history; the results of the steps so far and whether it ended in a panic *)
Fixpoint run_with (srt : list (list bdata) -> list (list bdata))
  (chk frg lg : bool) (bad : list N) (st : pstate) (h : list step)
  : list (option presult) * bool * pstate :=
  match h with
  | [] => ([], false, st)
  | s :: r =>
    match do_step_with srt chk frg lg bad st s with
    | Ok (st', o) => match run_with srt chk frg lg bad st' r with (os, p, stf) => (o :: os, p, stf) end
    | _ => ([], true, st)
    end
  end.
Definition run : bool -> bool -> bool -> list N -> pstate -> list step
  -> list (option presult) * bool * pstate := run_with sort_frags.

Definition init_state (root : N) : pstate := mkps (mkenv [root] 0) (mkun [] []) [].

(* the repaired code and the pinned tree *)
Definition process_fixed := process true true true.
Definition process_prefix := process false false false.
