(* C32/ProofsNeverTwice.v — "never imported/stored twice" over the PRUNING block state, with
   BlockTree.AddBlock's parent-in-tree refusal modelled.

   ModelPrune.v's environment answers HasHeader only; there a pruned block whose parent is a
   finalised ancestor of the tree root can be imported a second time (Example two_envs_differ at
   the end: ModelPrune's importer imports block 4 twice).  dot/state.BlockState does not allow
   that: AddBlock -> BlockTree.AddBlock looks the PARENT up in the in-memory tree
   (lib/blocktree/blocktree.go: `parent := bt.getNode(header.ParentHash); if parent == nil
   { return ErrParentNotFound }`), and after Prune(f) the tree is rooted at f, so the strict
   ancestors of f are still answered by HasHeader (database) but are no longer tree nodes.

   This file is a self-contained refinement of ModelPrune's environment (definitions first, then
   proofs; nothing here is extracted):
   - every stored block carries its ancestor PATH (own hash :: path of the parent), so that
     "f is an ancestor of x" is `f in path x` (no fuel, no closure computation);
   - pe_root is the root of the block tree (genesis, then the last finalised tree block);
     in_tree k := root in path k;
   - p_import_block = ModelPrune.import_block_t with one more refusal (PNotInTree: the parent
     header is stored but is not a node of the tree), placed where AddBlock makes it;
   - pfinalise = BlockTree.Prune: for a tree block f keep x iff f in path x (descendants, f itself)
     or x in path f (ancestors), root := f; for a stored block that is no tree node (getNode = nil)
     nothing is pruned;
   - pe_ever is the GHOST list of every hash ever stored (as ModelPrune.t_ever).

   Result (never_twice, never_reimported): for ARBITRARY sequences of importer calls and
   finalisations from the genesis state, if the header hash determines the parent hash
   (h_parent h = par (h_hash h) for one function par: header-hash injectivity on the parent
   link), every offered block's stated hash is the hash of its header, and no offered hash is
   the genesis' parent hash, then an import succeeds only for a hash that was never stored
   before; hence the imported hashes of the run are pairwise distinct, never the genesis, and
   pe_ever is exactly genesis + the imported hashes.
   sim_import_block relates the importer step to ModelPrune.import_block_t. *)
From Coq Require Import NArith List Bool Lia.
From C32 Require Import Gen Model ModelPrune.
Import ListNotations.
Local Open Scope N_scope.

(* ---------------------------------------------------------------- definitions *)
Record pblock := mkpb { pb_hash : N; pb_parent : N; pb_number : N; pb_path : list N }.
Record penv := mkpe { pe_known : list pblock; pe_ever : list N; pe_root : N; pe_fin : N }.

Inductive pevent :=
| PE (e : event)              (* an event ModelPrune's importer produces too *)
| PNotInTree (stated : N).    (* refused by BlockTree.AddBlock: the parent is stored, but is not in the tree *)

Definition memN (a : N) (l : list N) : bool := existsb (N.eqb a) l.
Definition pfind (e : penv) (h : N) : option pblock := find (fun k => pb_hash k =? h) (pe_known e).
Definition pknows (e : penv) (h : N) : bool := existsb (fun k => pb_hash k =? h) (pe_known e).
Definition pever (e : penv) (h : N) : bool := memN h (pe_ever e).
Definition in_tree (e : penv) (k : pblock) : bool := memN (pe_root e) (pb_path k).

Definition padd (e : penv) (k : pblock) : penv :=
  mkpe (k :: pe_known e) (pb_hash k :: pe_ever e) (pe_root e) (pe_fin e).

(* BlockTree.Prune(fb) as seen through HasHeader *)
Definition pkeep (fb x : pblock) : bool :=
  memN (pb_hash fb) (pb_path x) || memN (pb_hash x) (pb_path fb).

(* SetFinalisedHash of the stored block fb, number n *)
Definition pfinalise (e : penv) (fb : pblock) (n : N) : penv :=
  let fin := if pe_fin e <? n then n else pe_fin e in
  if in_tree e fb
  then mkpe (filter (pkeep fb) (pe_known e)) (pe_ever e) (pb_hash fb) fin
  else mkpe (pe_known e) (pe_ever e) (pe_root e) fin.

(* the body part of importBlock: HasHeader(parent), then AddBlock (parent in the tree? block
   already there?) *)
Definition p_body (e : penv) (b : bdata) (h : header) : list pevent * penv * bool :=
  if d_body b then
    match pfind e (h_parent h) with
    | None =>
      ([PE (if pever e (h_parent h) then EOrphanPruned (d_hash b) else EOrphan (d_hash b))], e, true)
    | Some pk =>
      if negb (in_tree e pk) then ([PNotInTree (d_hash b)], e, true)
      else if pknows e (h_hash h) then ([PE (EDup (d_hash b))], e, true)
      else ([PE (EImport (d_hash b))],
            padd e (mkpb (h_hash h) (h_parent h) (h_number h) (h_hash h :: pb_path pk)), false)
    end
  else if d_just b then ([], e, false) else ([PE (ENothing (d_hash b))], e, false).

(* blockImporter.importBlock: the checks of ModelPrune.import_block_t in their order *)
Definition p_import_block (e : penv) (b : bdata) : list pevent * penv * bool :=
  if pknows e (d_hash b) then ([PE (ESkip (d_hash b))], e, false) else
  match d_header b with
  | None => ([PE (ENothing (d_hash b))], e, false)
  | Some h =>
    match p_body e b h with
    | (ev, e1, true) => (ev, e1, true)
    | (ev, e1, false) =>
      if d_just b then
        match pfind e1 (h_hash h) with
        | None => (ev ++ [PE (EOrphan (d_hash b))], e1, true)
        | Some fb => (ev ++ [PE (EFinal (d_hash b))], pfinalise e1 fb (h_number h), false)
        end
      else (ev, e1, false)
    end
  end.

(* arbitrary use of the environment: importer calls and finalisations (GRANDPA) in any order *)
Inductive pstep :=
| PBlock (b : bdata)     (* one call of importBlock *)
| PFin (f : N).          (* SetFinalisedHash(f), ignored when f is not stored *)

Definition p_step (e : penv) (s : pstep) : list pevent * penv :=
  match s with
  | PBlock b => match p_import_block e b with (ev, e1, _) => (ev, e1) end
  | PFin f => match pfind e f with
              | Some fb => ([], pfinalise e fb (pb_number fb))
              | None => ([], e)
              end
  end.

Fixpoint p_run (e : penv) (l : list pstep) : list pevent * penv :=
  match l with
  | [] => ([], e)
  | s :: r => match p_step e s with
              | (ev, e1) => match p_run e1 r with (ev2, e2) => (ev ++ ev2, e2) end
              end
  end.

(* the genesis state: the genesis block root (parent hash gp) stored, tree root = root *)
Definition pinit (root gp : N) : penv := mkpe [mkpb root gp 0 [root]] [root] root 0.

Definition pimports (evs : list pevent) : list N :=
  flat_map (fun ev => match ev with PE (EImport s) => [s] | _ => [] end) evs.

(* ---------------------------------------------------------------- basic facts *)
Lemma memN_In a l : memN a l = true <-> In a l.
Proof.
  unfold memN. rewrite existsb_exists. split.
  - intros (x & Hx & E). apply N.eqb_eq in E. now subst.
  - intro H. exists a. split; [exact H|apply N.eqb_refl].
Qed.

Lemma pknows_In e h : pknows e h = true <-> exists k, In k (pe_known e) /\ pb_hash k = h.
Proof.
  unfold pknows. rewrite existsb_exists. split; intros (k & Hk & E); exists k; split; auto;
    now apply N.eqb_eq.
Qed.

Lemma pfind_some e h k : pfind e h = Some k -> In k (pe_known e) /\ pb_hash k = h.
Proof. unfold pfind. intro H. apply find_some in H. destruct H as [H E]. apply N.eqb_eq in E. auto. Qed.

Lemma pfind_knows e h : pknows e h = match pfind e h with Some _ => true | None => false end.
Proof.
  unfold pknows, pfind. induction (pe_known e) as [|k l IH]; [reflexivity|].
  cbn [existsb find]. destruct (pb_hash k =? h); [reflexivity|exact IH].
Qed.

Lemma pimports_app a b : pimports (a ++ b) = pimports a ++ pimports b.
Proof. apply flat_map_app. Qed.

Lemma pfinalise_ever e fb n : pe_ever (pfinalise e fb n) = pe_ever e.
Proof. unfold pfinalise. destruct (in_tree e fb); reflexivity. Qed.

(* ---------------------------------------------------------------- the invariant *)
Section NeverTwice.
  Variable par : N -> N.      (* the parent hash as a function of the header hash *)
  Variable root0 : N.         (* the genesis hash *)
  Hypothesis par_root : par root0 <> root0.

  (* what is assumed of a block offered to the importer *)
  Definition block_ok (b : bdata) : Prop :=
    forall h, d_header b = Some h ->
      h_hash h = d_hash b /\ h_parent h = par (h_hash h) /\ h_hash h <> par root0.

  Record pinv_on (known : list pblock) (ever : list N) (root : N) : Prop := mkpinv {
    (* H: the path of a stored block contains its own hash *)
    iH : forall x, In x known -> In (pb_hash x) (pb_path x);
    (* EV: stored hashes and all path elements have been stored *)
    iEV : forall x z, In x known -> In z (pb_path x) -> In z ever;
    (* SUB: the path of a stored ancestor is part of the path of the descendant *)
    iSUB : forall y ka, In y known -> In ka known -> In (pb_hash ka) (pb_path y) ->
             incl (pb_path ka) (pb_path y);
    (* I3: the parent of an ever-stored block other than the genesis has been stored *)
    iI3 : forall s, In s ever -> s <> root0 -> In (par s) ever;
    (* J: ever-stored children of live tree blocks are still stored (as their descendants) *)
    iJ : forall y s, In y known -> In root (pb_path y) -> In s ever -> par s = pb_hash y ->
           exists blk, In blk known /\ pb_hash blk = s /\ incl (pb_path y) (pb_path blk)
  }.
  Definition pinv (e : penv) : Prop := pinv_on (pe_known e) (pe_ever e) (pe_root e).

  Lemma pinit_inv : pinv (pinit root0 (par root0)).
  Proof.
    unfold pinv, pinit. cbn [pe_known pe_ever pe_root]. constructor.
    - intros x [<-|[]]. now left.
    - intros x z [<-|[]] Hz. exact Hz.
    - intros y ka [<-|[]] [<-|[]] _. apply incl_refl.
    - intros s [<-|[]] Hs. now contradiction Hs.
    - intros y s [<-|[]] _ [<-|[]] P. cbn [pb_hash] in P. contradiction.
  Qed.

  (* THE KEY FACT: a hash that is not stored but whose parent is a live tree block was never
     stored *)
  Lemma fresh_hash e s pk :
    pinv e -> pknows e s = false -> In pk (pe_known e) -> pb_hash pk = par s ->
    in_tree e pk = true -> ~ In s (pe_ever e).
  Proof.
    intros I K Hpk Ep T Hs. apply memN_In in T.
    destruct (iJ _ _ _ I pk s Hpk T Hs (eq_sym Ep)) as (blk & Hb & Eb & _).
    assert (pknows e s = true) by (apply pknows_In; eauto). congruence.
  Qed.

  Lemma padd_inv e s n pk :
    pinv e -> pknows e s = false -> In pk (pe_known e) -> pb_hash pk = par s ->
    in_tree e pk = true -> s <> par root0 ->
    pinv (padd e (mkpb s (par s) n (s :: pb_path pk))).
  Proof.
    intros I K Hpk Ep T G.
    pose proof (fresh_hash e s pk I K Hpk Ep T) as Fr.
    assert (NK : forall k, In k (pe_known e) -> pb_hash k <> s).
    { intros k Hk E. assert (pknows e s = true) by (apply pknows_In; eauto). congruence. }
    set (nb := mkpb s (par s) n (s :: pb_path pk)).
    unfold pinv, padd. cbn [pe_known pe_ever pe_root]. change (pb_hash nb) with s.
    destruct I as [IH IEV ISUB II3 IJ]. constructor.
    - intros x [<-|Hx]; [now left|now apply IH].
    - intros x z [<-|Hx] Hz.
      + cbn [nb pb_path] in Hz. destruct Hz as [<-|Hz]; [now left|right; eapply IEV; eauto].
      + right. eapply IEV; eauto.
    - intros y ka [<-|Hy] [<-|Hka] Hin.
      + apply incl_refl.
      + cbn [nb pb_path] in *. destruct Hin as [E|Hin]; [exfalso; eapply NK; eauto|].
        apply incl_tl. now apply ISUB.
      + exfalso. apply Fr. cbn [nb pb_hash] in Hin. eapply IEV; eauto.
      + now apply ISUB.
    - intros s' [<-|Hs'] Ns.
      + right. rewrite <- Ep. eapply IEV; [exact Hpk|now apply IH].
      + right. now apply II3.
    - intros y s' Hy Hr [<-|Hs'] P.
      + destruct Hy as [<-|Hy].
        * exfalso. cbn [nb pb_hash] in P. apply (NK pk Hpk). congruence.
        * exists nb. split; [now left|]. split; [reflexivity|]. cbn [nb pb_path]. apply incl_tl.
          apply ISUB; auto. rewrite <- P, <- Ep. now apply IH.
      + destruct Hy as [<-|Hy].
        * exfalso. cbn [nb pb_hash] in P. destruct (N.eq_dec s' root0) as [->|Ns].
          -- now apply G.
          -- apply Fr. rewrite <- P. now apply II3.
        * destruct (IJ y s' Hy Hr Hs' P) as (blk & Hb & Eb & Sb). exists blk. split; [now right|auto].
  Qed.

  Lemma pfinalise_inv e fb n : pinv e -> In fb (pe_known e) -> pinv (pfinalise e fb n).
  Proof.
    intros I Hfb. unfold pfinalise. destruct (in_tree e fb) eqn:T; [|exact I].
    apply memN_In in T. unfold pinv. cbn [pe_known pe_ever pe_root].
    destruct I as [IH IEV ISUB II3 IJ]. constructor.
    - intros x Hx. apply filter_In in Hx. now apply IH.
    - intros x z Hx. apply filter_In in Hx. now apply IEV.
    - intros y ka Hy Hka. apply filter_In in Hy. apply filter_In in Hka. now apply ISUB.
    - exact II3.
    - intros y s Hy Hf Hs P. apply filter_In in Hy. destruct Hy as [Hy _].
      assert (Hr : In (pe_root e) (pb_path y)) by (apply (ISUB y fb Hy Hfb Hf); exact T).
      destruct (IJ y s Hy Hr Hs P) as (blk & Hb & Eb & Sb). exists blk. split; [|auto].
      apply filter_In. split; [exact Hb|]. unfold pkeep. apply orb_true_intro. left.
      apply memN_In. now apply Sb.
  Qed.

  (* what one importer call does to the ghost list: nothing, or exactly the imported hash, which
     is new *)
  Definition step_spec (stated : N) (e : penv) (evs : list pevent) (e' : penv) : Prop :=
    (pimports evs = [] /\ pe_ever e' = pe_ever e)
    \/ (pimports evs = [stated] /\ pe_ever e' = stated :: pe_ever e /\ ~ In stated (pe_ever e)).

  Lemma p_body_ok e b h ev e1 err :
    pinv e -> h_hash h = d_hash b -> h_parent h = par (h_hash h) -> h_hash h <> par root0 ->
    p_body e b h = (ev, e1, err) ->
    pinv e1 /\ step_spec (d_hash b) e ev e1.
  Proof.
    intros I Hm Hp Hg. unfold p_body.
    destruct (d_body b).
    - destruct (pfind e (h_parent h)) as [pk|] eqn:F.
      + apply pfind_some in F. destruct F as [Hpk Epk].
        destruct (in_tree e pk) eqn:T; cbn [negb].
        * destruct (pknows e (h_hash h)) eqn:K.
          -- intro E. injection E as <- <- <-. split; [exact I|left; split; reflexivity].
          -- intro E. injection E as <- <- <-. rewrite Hp in *. rewrite Hm in *. split.
             ++ apply padd_inv; auto.
             ++ right. split; [reflexivity|]. split; [reflexivity|]. eapply fresh_hash; eauto.
        * intro E. injection E as <- <- <-. split; [exact I|left; split; reflexivity].
      + intro E. injection E as <- <- <-. split; [exact I|left; split; [|reflexivity]].
        destruct (pever e (h_parent h)); reflexivity.
    - destruct (d_just b); intro E; injection E as <- <- <-; (split; [exact I|left; split; reflexivity]).
  Qed.

  Lemma step_spec_final stated e ev e1 e2 x :
    step_spec stated e ev e1 -> pe_ever e2 = pe_ever e1 -> pimports [x] = [] ->
    step_spec stated e (ev ++ [x]) e2.
  Proof.
    intros S E X. unfold step_spec. rewrite pimports_app, X, app_nil_r, E. exact S.
  Qed.

  Lemma p_import_block_ok e b evs e' err :
    pinv e -> block_ok b -> p_import_block e b = (evs, e', err) ->
    pinv e' /\ step_spec (d_hash b) e evs e'.
  Proof.
    intros I B. unfold p_import_block.
    destruct (pknows e (d_hash b)).
    { intro E. injection E as <- <- <-. split; [exact I|left; split; reflexivity]. }
    destruct (d_header b) as [h|] eqn:Hh.
    2:{ intro E. injection E as <- <- <-. split; [exact I|left; split; reflexivity]. }
    destruct (B h Hh) as (Hm & Hp & Hg).
    destruct (p_body e b h) as [[ev e1] er] eqn:PB.
    destruct (p_body_ok e b h ev e1 er I Hm Hp Hg PB) as [I1 S1].
    destruct er.
    { intro E. injection E as <- <- <-. auto. }
    destruct (d_just b).
    2:{ intro E. injection E as <- <- <-. auto. }
    destruct (pfind e1 (h_hash h)) as [fb|] eqn:F.
    - intro E. injection E as <- <- <-. apply pfind_some in F. destruct F as [Hfb _]. split.
      + now apply pfinalise_inv.
      + apply step_spec_final with (e1 := e1); [exact S1|apply pfinalise_ever|reflexivity].
    - intro E. injection E as <- <- <-. split; [exact I1|].
      apply step_spec_final with (e1 := e1); [exact S1|reflexivity|reflexivity].
  Qed.

  Definition steps_ok (steps : list pstep) : Prop := forall b, In (PBlock b) steps -> block_ok b.

  Lemma p_run_ok steps : forall e evs e',
    pinv e -> steps_ok steps -> p_run e steps = (evs, e') ->
    pinv e'
    /\ pe_ever e' = rev (pimports evs) ++ pe_ever e
    /\ NoDup (pimports evs)
    /\ (forall s, In s (pimports evs) -> ~ In s (pe_ever e)).
  Proof.
    induction steps as [|s steps IH]; intros e evs e' I OK; cbn [p_run].
    - intro E. injection E as <- <-. split; [exact I|]. split; [reflexivity|].
      split; [constructor|intros s []].
    - assert (OK' : steps_ok steps) by (intros b Hb; apply OK; now right).
      destruct (p_step e s) as [ev e1] eqn:ES.
      assert (S1 : pinv e1 /\ exists stated, step_spec stated e ev e1).
      { destruct s as [b|f]; cbn [p_step] in ES.
        - destruct (p_import_block e b) as [[ev0 e0] er] eqn:EB. injection ES as <- <-.
          destruct (p_import_block_ok e b ev0 e0 er I (OK b (or_introl eq_refl)) EB) as [I1 S1].
          split; [exact I1|eauto].
        - destruct (pfind e f) as [fb|] eqn:F; injection ES as <- <-.
          + apply pfind_some in F. destruct F as [Hfb _]. split; [now apply pfinalise_inv|].
            exists 0. left. split; [reflexivity|apply pfinalise_ever].
          + split; [exact I|]. exists 0. left. split; reflexivity. }
      destruct S1 as [I1 [stated S1]].
      destruct (p_run e1 steps) as [ev2 e2] eqn:ER. intro E. injection E as <- <-.
      destruct (IH e1 ev2 e2 I1 OK' ER) as (I2 & EV2 & ND2 & NI2).
      split; [exact I2|]. rewrite pimports_app.
      destruct S1 as [[P1 E1]|(P1 & E1 & N1)]; rewrite P1; rewrite E1 in *.
      + cbn [app]. auto.
      + cbn [app rev]. split; [rewrite EV2, <- app_assoc; reflexivity|]. split.
        * constructor; [|exact ND2]. intro H. apply (NI2 _ H). now left.
        * intros x [<-|Hx]; [exact N1|]. intro H. apply (NI2 _ Hx). now right.
  Qed.
End NeverTwice.

(* ---------------------------------------------------------------- the statements *)

(* For every run of importer calls and finalisations from the genesis state: the imported
   (stated) hashes are pairwise distinct, the genesis is never imported, and the ghost list of
   everything ever stored is exactly the imported hashes (latest first) and the genesis. *)
Theorem never_twice : forall (par : N -> N) (root : N) (steps : list pstep),
  par root <> root ->
  (forall b h, In (PBlock b) steps -> d_header b = Some h ->
     h_hash h = d_hash b /\ h_parent h = par (h_hash h) /\ h_hash h <> par root) ->
  forall evs e', p_run (pinit root (par root)) steps = (evs, e') ->
    NoDup (pimports evs)
    /\ ~ In root (pimports evs)
    /\ pe_ever e' = rev (pimports evs) ++ [root].
Proof.
  intros par root steps PR OK evs e' E.
  assert (OK' : steps_ok par root steps) by (intros b Hb h Hh; eapply OK; eauto).
  destruct (p_run_ok par root steps _ _ _ (pinit_inv par root PR) OK' E) as (_ & EV & ND & NI).
  split; [exact ND|]. split; [|exact EV]. intro H. apply (NI _ H). now left.
Qed.

(* The same, stated for one importer call at any point of a run: a block whose hash has been
   stored at any earlier time (still stored, or pruned meanwhile) is not imported. *)
Theorem never_reimported : forall (par : N -> N) (root : N) (pre : list pstep) (b : bdata),
  par root <> root ->
  (forall b' h, In (PBlock b') (pre ++ [PBlock b]) -> d_header b' = Some h ->
     h_hash h = d_hash b' /\ h_parent h = par (h_hash h) /\ h_hash h <> par root) ->
  forall evs0 e evs e' err,
    p_run (pinit root (par root)) pre = (evs0, e) ->
    p_import_block e b = (evs, e', err) ->
    (In (d_hash b) (pe_ever e) -> pimports evs = [])
    /\ (forall s, In s (pimports evs) -> s = d_hash b /\ ~ In s (root :: pimports evs0)).
Proof.
  intros par root pre b PR OK evs0 e evs e' err E0 EB.
  assert (OK0 : steps_ok par root pre).
  { intros x Hx h Hh. eapply OK; eauto. apply in_or_app. now left. }
  assert (Bok : block_ok par root b).
  { intros h Hh. eapply OK; eauto. apply in_or_app. right. now left. }
  destruct (p_run_ok par root pre _ _ _ (pinit_inv par root PR) OK0 E0) as (I & EV & _ & _).
  destruct (p_import_block_ok par root e b evs e' err I Bok EB) as [_ [[P _]|(P & _ & N1)]].
  - rewrite P. split; [reflexivity|intros s []].
  - rewrite P. split; [intro H; contradiction|].
    intros s [<-|[]]. split; [reflexivity|]. intro H. apply N1. rewrite EV.
    cbn [pinit pe_ever]. apply in_or_app. destruct H as [<-|H]; [right; now left|left; now apply in_rev in H].
Qed.

(* ---------------------------------------------------------------- relation to ModelPrune *)
(* forget the paths and the tree root: ModelPrune's environment *)
Definition erase (e : penv) : tenv :=
  mktenv (map (fun k => mkkb (pb_hash k) (pb_parent k) (pb_number k)) (pe_known e)) (pe_ever e) (pe_fin e).

Definition unPE (ev : pevent) : list event := match ev with PE x => [x] | PNotInTree _ => [] end.
Definition refused_by_tree (evs : list pevent) : bool :=
  existsb (fun ev => match ev with PNotInTree _ => true | _ => false end) evs.

Lemma erase_knows e h : tknows (erase e) h = pknows e h.
Proof.
  unfold tknows, pknows, erase. cbn [t_known]. induction (pe_known e) as [|k l IH]; [reflexivity|].
  cbn [map existsb k_hash]. now rewrite IH.
Qed.

Lemma erase_ever e h : tever (erase e) h = pever e h.
Proof. reflexivity. Qed.

Lemma erase_add e k :
  erase (padd e k) = add_known (erase e) (mkkb (pb_hash k) (pb_parent k) (pb_number k)).
Proof. reflexivity. Qed.

(* Unless BlockTree.AddBlock refuses the block because its parent is no tree node, the importer
   step of this file produces the events and the error flag of ModelPrune.import_block_t (for
   both values of its prune switch), and when the block carries no justification also the same
   block state.  (With a justification the two prune differently computed sets: ModelPrune
   computes ancestor closures with fuel, this file reads paths; not related here.) *)
Lemma sim_import_block prune e b evs e' err :
  p_import_block e b = (evs, e', err) -> refused_by_tree evs = false ->
  exists te', import_block_t prune (erase e) b = (flat_map unPE evs, te', err)
    /\ (d_just b = false -> te' = erase e').
Proof.
  unfold p_import_block, import_block_t. rewrite erase_knows.
  destruct (pknows e (d_hash b)).
  { intros E _. injection E as <- <- <-. eexists. split; reflexivity. }
  destruct (d_header b) as [h|].
  2:{ intros E _. injection E as <- <- <-. eexists. split; reflexivity. }
  unfold p_body. rewrite !erase_knows, erase_ever, (pfind_knows e (h_parent h)).
  destruct (d_body b).
  - destruct (pfind e (h_parent h)) as [pk|]; cbn [negb].
    + destruct (in_tree e pk); cbn [negb].
      * destruct (pknows e (h_hash h)) eqn:K.
        { intros E _. injection E as <- <- <-. eexists. split; reflexivity. }
        set (e1 := padd e (mkpb (h_hash h) (h_parent h) (h_number h) (h_hash h :: pb_path pk))).
        change (add_known (erase e) (mkkb (h_hash h) (h_parent h) (h_number h))) with (erase e1).
        destruct (d_just b).
        -- rewrite erase_knows, (pfind_knows e1 (h_hash h)).
           destruct (pfind e1 (h_hash h)) as [fb|]; cbn [negb]; intros E _; injection E as <- <- <-;
             eexists; (split; [reflexivity|discriminate]).
        -- intros E _. injection E as <- <- <-. eexists. split; reflexivity.
      * intros E R. injection E as <- <- <-. discriminate R.
    + intros E _. injection E as <- <- <-. eexists. split; [|reflexivity].
      cbn [flat_map unPE app]. destruct (pever e (h_parent h)); reflexivity.
  - destruct (d_just b).
    + rewrite erase_knows, (pfind_knows e (h_hash h)).
      destruct (pfind e (h_hash h)) as [fb|]; cbn [negb]; intros E _; injection E as <- <- <-;
        eexists; (split; [reflexivity|discriminate]).
    + intros E _. injection E as <- <- <-. eexists. split; reflexivity.
Qed.

(* ---------------------------------------------------------------- non-vacuity *)
(* The fork tree 0 <- 1 <- 2 <- 3, 1 <- 4 <- 5.  Blocks 1, 2, 4 are imported; 3 comes with a
   justification: it is imported and finalised, which prunes 4; 5 is refused (its parent 4 was
   pruned); 4 is offered AGAIN: its parent 1 is still answered by HasHeader but is no tree node
   any more, AddBlock refuses (PNotInTree); 3 again is skipped.  ModelPrune's environment, which
   only knows HasHeader, imports 4 a second time. *)
Definition nt_par (h : N) : N :=
  match h with 1 => 0 | 2 => 1 | 3 => 2 | 4 => 1 | 5 => 4 | _ => 99 end.
Definition nt_blk (i n : N) (just : bool) : bdata := mkbd i (Some (mkhdr i (nt_par i) n)) true just.
Definition nt_blocks : list bdata :=
  [ nt_blk 1 1 false; nt_blk 2 2 false; nt_blk 4 2 false; nt_blk 3 3 true; nt_blk 5 3 false;
    nt_blk 4 2 false; nt_blk 3 3 false ].

Example never_twice_example :
  nt_par 0 <> 0
  /\ (forall b h, In (PBlock b) (map PBlock nt_blocks) -> d_header b = Some h ->
        h_hash h = d_hash b /\ h_parent h = nt_par (h_hash h) /\ h_hash h <> nt_par 0)
  /\ match p_run (pinit 0 (nt_par 0)) (map PBlock nt_blocks) with
     | (evs, e) =>
       evs = [PE (EImport 1); PE (EImport 2); PE (EImport 4); PE (EImport 3); PE (EFinal 3);
              PE (EOrphanPruned 5); PNotInTree 4; PE (ESkip 3)]
       /\ pimports evs = [1; 2; 4; 3]
       /\ map pb_hash (pe_known e) = [3; 2; 1; 0] /\ pe_root e = 3 /\ pe_ever e = [3; 4; 2; 1; 0]
     end.
Proof.
  split; [discriminate|]. split.
  - intros b h Hb Hh. cbn in Hb.
    repeat (destruct Hb as [Hb|Hb]; [injection Hb as <-; injection Hh as <-; cbn;
                                     repeat split; discriminate|]).
    contradiction.
  - vm_compute. repeat split; reflexivity.
Qed.

(* the same calls against ModelPrune's importer (pruning on): block 4 is imported twice *)
Example two_envs_differ :
  let run_t_blocks := fix go (e : tenv) (l : list bdata) : list event :=
    match l with
    | [] => []
    | b :: r => match import_block_t true e b with (ev, e1, _) => ev ++ go e1 r end
    end in
  run_t_blocks (mktenv [mkkb 0 99 0] [0] 0) nt_blocks
  = [EImport 1; EImport 2; EImport 4; EImport 3; EFinal 3; EOrphanPruned 5; EImport 4; ESkip 3].
Proof. vm_compute. reflexivity. Qed.
