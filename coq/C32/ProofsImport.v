(* C32/ProofsImport.v — handing good chains whose first parent is known to the importer never
   meets an unknown parent or a known header, and imports no stated hash twice. *)
From Coq Require Import NArith ZArith List Bool Lia.
From Common Require Import Outcome.
From C32 Require Import Gen Model ModelSpec ProofsChain.
Import ListNotations.
Local Open Scope N_scope.

Definition sub_env (e e' : env) : Prop := forall h, knows e h = true -> knows e' h = true.
Definition imported_known (imported : list N) (e : env) : Prop :=
  forall s, In s imported -> knows e s = true.

Lemma sub_env_refl e : sub_env e e.
Proof. intros h H; exact H. Qed.
Lemma sub_env_trans a b c : sub_env a b -> sub_env b c -> sub_env a c.
Proof. intros H1 H2 h H. auto. Qed.

Lemma knows_cons e x h : knows (mkenv (x :: known e) (fin e)) h = (h =? x) || knows e h.
Proof. reflexivity. Qed.

Lemma knows_fin e f h : knows (mkenv (known e) f) h = knows e h.
Proof. reflexivity. Qed.

Lemma events_ok_app ev1 : forall imp ev2,
  events_ok_b imp (ev1 ++ ev2) =
  (let (ok, imp1) := events_ok_b imp ev1 in if ok then events_ok_b imp1 ev2 else (false, imp1)).
Proof.
  induction ev1 as [|e ev1 IH]; intros imp ev2; [reflexivity|].
  cbn [app events_ok_b]. destruct e; try apply IH; try reflexivity.
  destruct (existsb (N.eqb stated) imp); [reflexivity|apply IH].
Qed.

(* one good block whose parent (or the block itself) is known *)
Lemma import_block_good e b h imported :
  d_header b = Some h -> h_hash h = d_hash b -> d_body b = true ->
  knows e (h_parent h) = true \/ knows e (d_hash b) = true ->
  imported_known imported e ->
  exists evs e' imported',
    import_block e b = (evs, e', false)
    /\ events_ok_b imported evs = (true, imported')
    /\ imported_known imported' e' /\ sub_env e e' /\ knows e' (d_hash b) = true.
Proof.
  intros Hh Hm Hb Hk I. unfold import_block.
  destruct (knows e (d_hash b)) eqn:K.
  - exists [ESkip (d_hash b)], e, imported. repeat split; auto using sub_env_refl.
  - destruct Hk as [Hk|Hk]; [|congruence].
    rewrite Hh, Hb, Hk. cbn [negb]. rewrite Hm, K.
    set (e1 := mkenv (d_hash b :: known e) (fin e)).
    assert (S1 : sub_env e e1).
    { intros x Hx. unfold e1. rewrite knows_cons, Hx. apply orb_true_r. }
    assert (K1 : knows e1 (d_hash b) = true).
    { unfold e1. rewrite knows_cons, N.eqb_refl. reflexivity. }
    assert (NI : existsb (N.eqb (d_hash b)) imported = false).
    { destruct (existsb (N.eqb (d_hash b)) imported) eqn:X; [|reflexivity].
      apply existsb_exists in X. destruct X as (x & Hx & E). apply N.eqb_eq in E. subst x.
      rewrite (I _ Hx) in K. discriminate. }
    assert (I1 : imported_known (d_hash b :: imported) e1).
    { intros x [<-|Hx]; [exact K1|]. apply S1. now apply I. }
    destruct (d_just b).
    + rewrite K1. cbn [negb].
      eexists _, _, (d_hash b :: imported). split; [reflexivity|].
      cbn [app events_ok_b]. rewrite NI. repeat split; auto.
    + eexists _, _, (d_hash b :: imported). split; [reflexivity|].
      cbn [events_ok_b]. rewrite NI. repeat split; auto.
Qed.

Lemma import_all_app l1 : forall e l2,
  import_all e (l1 ++ l2) =
  match import_all e l1 with
  | (ev1, e1, true) => (ev1, e1, true)
  | (ev1, e1, false) => match import_all e1 l2 with (ev2, e2, err) => (ev1 ++ ev2, e2, err) end
  end.
Proof.
  induction l1 as [|b l1 IH]; intros e l2.
  - cbn [app import_all]. destruct (import_all e l2) as [[ev2 e2] err]. reflexivity.
  - cbn [app import_all]. destruct (import_block e b) as [[ev e1] [|]]; [reflexivity|].
    rewrite IH. destruct (import_all e1 l1) as [[ev1 e1'] [|]]; [reflexivity|].
    destruct (import_all e1' l2) as [[ev2 e2] err]. now rewrite app_assoc.
Qed.

(* the outcome we want of handing a list of blocks to the importer *)
Definition clean_import (e : env) (imported : list N) (l : list bdata) : Prop :=
  exists evs e' imported',
    import_all e l = (evs, e', false)
    /\ events_ok_b imported evs = (true, imported')
    /\ imported_known imported' e' /\ sub_env e e'
    /\ Forall (fun b => knows e' (d_hash b) = true) l.

Lemma first_known_cases (l : list bdata) (e : env) :
  chain_ok l ->
  match l with
  | b :: _ => match d_header b with
              | Some h => knows e (h_parent h) = true \/ knows e (d_hash b) = true
              | None => False
              end
  | [] => True
  end ->
  forall imported, imported_known imported e -> clean_import e imported l.
Proof.
  intro C. revert e. induction C as [|b G|a b l G P C IH]; intros e F imported I.
  - exists [], e, imported. repeat split; auto using sub_env_refl.
  - destruct G as (h & Hh & Hm & Hb). rewrite Hh in F.
    destruct (import_block_good e b h imported Hh Hm Hb F I) as (evs & e' & imp' & E & Ev & I' & S & K).
    exists evs, e', imp'. cbn [import_all]. rewrite E. rewrite app_nil_r. repeat split; auto.
  - destruct G as (h & Hh & Hm & Hb). rewrite Hh in F.
    destruct (import_block_good e a h imported Hh Hm Hb F I) as (evs & e1 & imp1 & E & Ev & I1 & S1 & K1).
    assert (F2 : match d_header b with
                 | Some hb => knows e1 (h_parent hb) = true \/ knows e1 (d_hash b) = true
                 | None => False end).
    { unfold is_parent in P. rewrite Hh in P. destruct (d_header b) as [hb|]; [|discriminate].
      injection P as P. apply andb_prop in P. destruct P as [_ P]. apply N.eqb_eq in P.
      left. now rewrite <- P. }
    destruct (IH e1 F2 imp1 I1) as (evs2 & e2 & imp2 & E2 & Ev2 & I2 & S2 & K2).
    exists (evs ++ evs2), e2, imp2.
    assert (Ea : import_all e [a] = (evs, e1, false)) by (cbn [import_all]; rewrite E; now rewrite app_nil_r).
    change (a :: b :: l) with ([a] ++ b :: l). rewrite import_all_app, Ea, E2.
    repeat split; auto.
    + rewrite events_ok_app, Ev. exact Ev2.
    + eapply sub_env_trans; eauto.
    + constructor; [apply S2; exact K1|exact K2].
Qed.

(* a concatenation of non-empty good chains, each with its first parent known beforehand *)
Inductive importable (e : env) : list bdata -> Prop :=
| imp_nil : importable e []
| imp_frag f rest b h :
    chain_ok f -> f = b :: tl f -> d_header b = Some h -> knows e (h_parent h) = true ->
    importable e rest -> importable e (f ++ rest).

Lemma importable_mono e e' l : sub_env e e' -> importable e l -> importable e' l.
Proof.
  intros S H. induction H; [constructor|]. econstructor; eauto.
Qed.

Lemma importable_app e l1 l2 : importable e l1 -> importable e l2 -> importable e (l1 ++ l2).
Proof.
  intros H1 H2. induction H1; [exact H2|]. rewrite <- app_assoc. econstructor; eauto.
Qed.

Lemma importable_clean e l : importable e l ->
  forall e' imported, sub_env e e' -> imported_known imported e' -> clean_import e' imported l.
Proof.
  intro H. induction H as [|f rest b h C Ef Hh K Hr IH]; intros e' imported S I.
  - exists [], e', imported. repeat split; auto using sub_env_refl.
  - assert (F : match f with
                | b :: _ => match d_header b with
                            | Some h => knows e' (h_parent h) = true \/ knows e' (d_hash b) = true
                            | None => False end
                | [] => True end).
    { rewrite Ef. rewrite Hh. left. now apply S. }
    destruct (first_known_cases f e' C F imported I) as (ev1 & e1 & imp1 & E1 & Ev1 & I1 & S1 & K1).
    destruct (IH e1 imp1 (sub_env_trans _ _ _ S S1) I1) as (ev2 & e2 & imp2 & E2 & Ev2 & I2 & S2 & K2).
    exists (ev1 ++ ev2), e2, imp2. rewrite import_all_app, E1, E2. repeat split; auto.
    + rewrite events_ok_app, Ev1. exact Ev2.
    + eapply sub_env_trans; eauto.
    + apply Forall_app. split; [|exact K2].
      eapply Forall_impl; [|exact K1]. intros x Hx. now apply S2.
Qed.
