(* C32/VmCheck.v — boolean comparison of a run of the model with the observables of the Go code,
   evaluated with vm_compute inside Coq on a sample of every trace (bin/check: vm_sample).  It
   guards the extraction and the OCaml driver: the terms are printed by props/C32/driver.ml
   (--coq) from the parsed input and the parsed observation. *)
From Coq Require Import NArith ZArith List Bool.
From Common Require Import Outcome.
From C32 Require Import Gen Model ModelSpec.
Import ListNotations.
Local Open Scope N_scope.

Fixpoint list_eqb {A} (eq : A -> A -> bool) (a b : list A) : bool :=
  match a, b with
  | [], [] => true
  | x :: r, y :: s => eq x y && list_eqb eq r s
  | _, _ => false
  end.

Definition pair_eqb (a b : N * N) : bool := (fst a =? fst b) && (snd a =? snd b).

Definition ev_code (e : event) : N * N :=
  match e with
  | EImport s => (0, s) | ESkip s => (1, s) | EOrphan s => (2, s)
  | EDup s => (3, s) | ENothing s => (4, s) | EFinal s => (5, s)
  | EOrphanPruned s => (6, s)
  end.

Definition q_code (q : qreq) : N * N :=
  match q with QAncestors h => (0, h) | QBody h => (1, h) end.

(* what is observed of one Process call *)
Record pobs := mkpobs {
  o_error : bool;
  o_events : list (N * N);
  o_reps : list (N * N);
  o_bans : list N;
  o_disjoint : list (list N);
  o_queue : list (N * N);          (* (0, h) ancestor search from h, (1, h) body request for h *)
  o_accepted : list bool
}.

Definition pobs_eqb (a b : pobs) : bool :=
  Bool.eqb (o_error a) (o_error b)
  && list_eqb pair_eqb (o_events a) (o_events b)
  && list_eqb pair_eqb (o_reps a) (o_reps b)
  && list_eqb N.eqb (o_bans a) (o_bans b)
  && list_eqb (list_eqb N.eqb) (o_disjoint a) (o_disjoint b)
  && list_eqb pair_eqb (o_queue a) (o_queue b)
  && list_eqb Bool.eqb (o_accepted a) (o_accepted b).

Fixpoint project (bad : list N) (steps : list step) (outs : list (option presult)) : list pobs :=
  match steps, outs with
  | SProcess rs :: sr, Some r :: orr =>
    mkpobs (pr_error r) (map ev_code (pr_events r)) (pr_reps r) (pr_bans r)
           (map (map d_hash) (u_disjoint (p_un (pr_state r)))) (map q_code (p_queue (pr_state r)))
           (match accepted true true true bad rs with Some l => l | None => [] end)
    :: project bad sr orr
  | _ :: sr, _ :: orr => project bad sr orr
  | _, _ => []
  end.

(* a history that ran to its end without a panic: the model shows exactly [expected], and the
   property predicate holds of it (on the well-formed histories) *)
Definition vm_history (bad : list N) (steps : list step) (expected : list pobs) : bool :=
  match run true true true bad (init_state 0) steps with
  | (outs, false, _) =>
    (length outs =? length steps)%nat && list_eqb pobs_eqb (project bad steps outs) expected
    && (negb (steps_wf_b steps) || history_ok_b [] steps (observe bad steps outs))
  | _ => false
  end.

(* the environment model against the real blockImporter *)
Definition vm_import (kn : list N) (f : N) (blocks : list bdata) (events : list (N * N)) (err : bool)
  : bool :=
  match import_all (mkenv kn f) blocks with
  | (evs, _, e) => list_eqb pair_eqb (map ev_code evs) events && Bool.eqb e err
  end.
