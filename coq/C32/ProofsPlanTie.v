(* C32/ProofsPlanTie.v — the ascending requests of FullSyncStrategy.NextActions are the plan of C31
   for the heights best+1 .. min(best+1+n*127, target): C31_plan_partition applies to them. *)
From Coq Require Import NArith ZArith List Bool Lia.
From C31 Require Model ModelSpec Properties.
From C32 Require Import Gen Model.
Import ListNotations.
Local Open Scope N_scope.

Lemma next_asc_none n best target : target <= best -> best < 4294967296 -> next_asc n best target = [].
Proof.
  intros H B. unfold next_asc. rewrite N.mod_small by exact B.
  destruct (N.leb_spec target best); [reflexivity|lia].
Qed.

Lemma next_asc_plan n best target :
  best < target -> target < 4294967296 -> n < 4294967296 ->
  let start := best + 1 in
  let stop := N.min (start + n * 127) target in
  let p := next_asc n best target in
     p = C31.Model.plan start stop
  /\ C31.ModelSpec.plan_ok_b start stop p = true
  /\ concat (map C31.ModelSpec.heights p) = C31.Model.nseq start (N.to_nat (stop - start + 1))
  /\ Forall (fun r => 1 <= snd r <= C31.Model.max_resp) p.
Proof.
  intros H T Hn start stop p.
  assert (E : p = C31.Model.plan start stop).
  { unfold p, next_asc. rewrite (N.mod_small best) by lia.
    destruct (N.leb_spec target best); [lia|].
    unfold add64, two64. rewrite (N.mod_small (best + 1)) by lia.
    rewrite (N.mod_small (n * 127)) by lia. rewrite (N.mod_small (best + 1 + n * 127)) by lia.
    fold start. unfold stop. destruct (N.ltb_spec target (start + n * 127)).
    - now rewrite N.min_r by lia.
    - now rewrite N.min_l by lia. }
  split; [exact E|]. rewrite E.
  assert (A : start <= stop) by (unfold start, stop; lia).
  assert (B : stop < C31.Model.two64) by (unfold stop, C31.Model.two64; lia).
  assert (C : stop - start + 1 < C31.Model.two64) by (unfold stop, start, C31.Model.two64; lia).
  destruct (C31.Properties.C31_plan_partition start stop A B C) as (P1 & P2 & P3 & _). auto.
Qed.
