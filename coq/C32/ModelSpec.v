(* C32/ModelSpec.v — the property predicates of C32 as executable booleans (definitions only). *)
From Coq Require Import NArith ZArith List Bool.
From Common Require Import Outcome.
From C32 Require Import Gen Model.
Import ListNotations.
Local Open Scope N_scope.

(* ---- the importer is only handed blocks whose parent is known, and never a block twice.
   With the recording environment this reads: no call is refused for an unknown parent (EOrphan)
   or for a header hash that is already in the block state (EDup), and no stated hash is imported
   twice. *)
Fixpoint events_ok_b (imported : list N) (evs : list event) : bool * list N :=
  match evs with
  | [] => (true, imported)
  | e :: r =>
    match e with
    | EOrphan _ => (false, imported)
    | EDup _ => (false, imported)
    | EImport s =>
      if existsb (N.eqb s) imported then (false, imported) else events_ok_b (s :: imported) r
    | _ => events_ok_b imported r
    end
  end.

(* ---- a response that is not a hash-linked chain, or in which a stated hash differs from the hash
   of the header, is rejected: every completed result with a header request whose response (read
   in ascending order) contains a block with header whose stated hash is not the header's hash,
   or two consecutive blocks that are not parent and child by hash and number, must not reach the
   importer.  Checked on the observables: such a result earns its sender a reputation change. *)
Definition linked_true (a b : bdata) : bool :=
  match d_header a, d_header b with
  | Some ha, Some hb => (add64 (h_number ha) 1 =? h_number hb) && (h_hash ha =? h_parent hb)
  | _, _ => false
  end.
Fixpoint true_chain_from (prev : bdata) (l : list bdata) : bool :=
  match l with
  | [] => true
  | b :: r => linked_true prev b && true_chain_from b r
  end.
Definition true_chain (l : list bdata) : bool :=
  match l with [] => true | b :: r => true_chain_from b r end.

Definition forged (l : list bdata) : bool := existsb (fun b => negb (hash_matches b)) l.

Definition has_nil_header (l : list bdata) : bool :=
  existsb (fun b => match d_header b with None => true | Some _ => false end) l.

(* must this result be rejected?  Completed, and either a block whose stated hash differs from
   the hash of its header, or headers were requested and the response, read in ascending order,
   lacks a header or has two consecutive blocks that are not parent and child by HEADER hash and
   number *)
Definition must_reject (r : result) : bool :=
  let q := r_req r in
  let resp := if q_dir q =? dir_desc then rev (r_resp r) else r_resp r in
  r_completed r
  && (forged resp
      || (req_field q f_header && (has_nil_header resp || negb (true_chain resp)))).

(* acc: the observed decisions of validateResults, one per result *)
Fixpoint rejections_ok_b (rs : list result) (acc : list bool) : bool :=
  match rs, acc with
  | r :: rr, a :: ar => (negb a || negb (must_reject r)) && rejections_ok_b rr ar
  | _, _ => true
  end.

(* ---- histories: per Process step the events of the importer and the accept decisions *)
Fixpoint history_ok_b (imported : list N) (steps : list step)
  (outs : list (list event * list bool)) : bool :=
  match steps, outs with
  | _, [] => true
  | [], _ => true
  | s :: sr, (evs, acc) :: orr =>
    match s with
    | SProcess rs =>
      let (ok, imported') := events_ok_b imported evs in
      ok && rejections_ok_b rs acc && history_ok_b imported' sr orr
    | _ => history_ok_b imported sr ((evs, acc) :: orr)
    end
  end.

(* what a run of the model shows of each Process step: the importer's events and the decisions
   of validateResults *)
Fixpoint observe (bad : list N) (steps : list step) (outs : list (option presult))
  : list (list event * list bool) :=
  match steps, outs with
  | SProcess rs :: sr, Some r :: orr =>
    (pr_events r, match accepted true true true bad rs with Some l => l | None => [] end)
    :: observe bad sr orr
  | _ :: sr, _ :: orr => observe bad sr orr
  | _, _ => []
  end.

(* the histories the theorems are about: at most 12 ready fragments per Process call
   (slices.SortFunc is the stable insertion sort of the model up to 12 elements; a result with a
   header request yields at most one fragment, a body-only result at most one per block), every
   request asks for bodies (the requests full sync makes are header+body+justification or
   body+justification) *)
Definition result_wf_b (r : result) : bool := req_field (r_req r) f_body.
Definition result_weight (r : result) : nat :=
  if req_field (r_req r) f_header then 1%nat else length (r_resp r).
(* only the second condition: every request asks for bodies *)
Definition steps_body_b (steps : list step) : bool :=
  forallb (fun s => match s with SProcess rs => forallb result_wf_b rs | _ => true end) steps.

(* every event of the importer during a run, in order *)
Definition all_events (outs : list (option presult)) : list event :=
  flat_map (fun o => match o with Some r => pr_events r | None => [] end) outs.

Definition steps_wf_b (steps : list step) : bool :=
  forallb (fun s => match s with
                    | SProcess rs =>
                      (fold_right (fun r acc => (result_weight r + acc)%nat) 0%nat rs <=? 12)%nat
                      && forallb result_wf_b rs
                    | _ => true
                    end) steps.
