(* C32/ProofsProcess.v — the stages of the repaired FullSyncStrategy.Process keep every fragment a
   non-empty good chain, never panic, and hand the importer only importable lists. *)
From Coq Require Import NArith ZArith List Bool Lia Permutation Sorted.
From Common Require Import Outcome.
From C32 Require Import Gen Model ModelSpec ProofsChain ProofsImport.
Import ListNotations.
Local Open Scope N_scope.

Definition inv_un (u : unready) : Prop :=
  Forall hdr_ok (u_incomplete u) /\ Forall gfrag (u_disjoint u).

Definition valid_entry (p : request * list bdata) : Prop :=
  req_field (fst p) f_body = true /\ snd p <> []
  /\ (req_field (fst p) f_header = true -> chain_ok (snd p))
  /\ Forall (fun b => d_body b = true) (snd p).

(* ---------------------------------------------------------------- validation *)
Lemma is_chain_from_some prev l :
  d_header prev <> None -> Forall (fun b => d_header b <> None) l -> is_chain_from prev l <> None.
Proof.
  revert prev. induction l as [|b l IH]; intros prev Hp F; cbn [is_chain_from]; [discriminate|].
  inversion F; subst. unfold is_parent.
  destruct (d_header prev); [|congruence]. destruct (d_header b) eqn:E; [|congruence].
  destruct (_ && _); [|discriminate]. apply IH; auto. congruence.
Qed.

Lemma is_chain_some l : Forall (fun b => d_header b <> None) l -> is_chain l <> None.
Proof.
  intro F. destruct l as [|b l]; [discriminate|]. destruct l as [|c l]; [discriminate|].
  cbn [is_chain]. inversion F; subst. now apply is_chain_from_some.
Qed.

Lemma classify_fixed lg bad r :
  req_field (r_req r) f_body = true ->
  match classify true true lg bad r with
  | VAccept q resp => q = r_req r /\ valid_entry (q, resp)
  | VPanic => lg = false
  | _ => True
  end.
Proof.
  intro RB. unfold classify. destruct (negb (r_completed r)); [exact I|].
  set (q := r_req r) in *.
  set (resp := if q_dir q =? dir_desc then rev (r_resp r) else r_resp r). clearbody resp.
  destruct (validate_fields true q resp) as [[| |]|] eqn:V; try exact I.
  apply validate_fields_none in V.
  assert (FB : Forall (fun b => d_body b = true) resp).
  { eapply Forall_impl; [|exact V]. intros b (_ & H & _). auto. }
  destruct (req_field q f_header) eqn:RH.
  - assert (FH : Forall (fun b => d_header b <> None) resp).
    { eapply Forall_impl; [|exact V]. intros b (H & _ & _). auto. }
    assert (FG : Forall good resp).
    { eapply Forall_impl; [|exact V]. intros b (H1 & H2 & H3). eapply good_of_validated; eauto. }
    destruct (is_chain resp) as [[|]|] eqn:IC; try exact I.
    + destruct (find (is_bad bad) resp) as [b|] eqn:FB'.
      * apply find_some in FB'. destruct FB' as [Hin _].
        rewrite Forall_forall in FH. specialize (FH b Hin).
        destruct (d_header b); [exact I|congruence].
      * cbn [andb]. destruct resp as [|b0 resp0] eqn:ER; [exact I|].
        split; [reflexivity|]. unfold valid_entry. cbn [fst snd]. repeat split; auto.
        -- discriminate.
        -- intros _. apply is_chain_ok; auto.
    + exfalso. eapply is_chain_some; eauto.
  - destruct (find (is_bad bad) resp) as [b|] eqn:FB'.
    + destruct (d_header b); [exact I|]. destruct lg; [exact I|reflexivity].
    + cbn [andb]. destruct resp as [|b0 resp0] eqn:ER; [exact I|].
      split; [reflexivity|]. unfold valid_entry. cbn [fst snd]. repeat split; auto.
      * discriminate.
      * intro. congruence.
Qed.

Lemma validate_results_fixed bad rs : forall acc,
  Forall (fun r => result_wf_b r = true) rs ->
  Forall valid_entry (v_ok acc) ->
  exists v, validate_results true true true bad rs acc = Ok v /\ Forall valid_entry (v_ok v).
Proof.
  induction rs as [|r rs IH]; intros acc W A; [exists acc; auto|].
  inversion W as [|? ? Wr Wrs]; subst. unfold result_wf_b in Wr.
  pose proof (classify_fixed true bad r Wr) as C. cbn [validate_results].
  destruct (classify true true true bad r) as [|c| |q resp|]; try (apply IH; auto; fail).
  - destruct C as [-> VE]. apply IH; auto. cbn [v_ok]. apply Forall_app. split; auto.
  - discriminate.
Qed.

(* ---------------------------------------------------------------- unready blocks *)
Lemma find_connect_ok lb frs : good lb -> Forall gfrag frs -> forall i0,
  find_connect (Some lb) frs i0 = Ok None
  \/ exists k fb r, find_connect (Some lb) frs i0 = Ok (Some (i0 + k)%nat) /\ (k < length frs)%nat
       /\ nth k frs [] = fb :: r /\ is_parent lb fb = Some true.
Proof.
  intros G F. induction F as [|f frs [NE C] F IH]; intro i0; [left; reflexivity|].
  cbn [find_connect]. destruct f as [|fb r]; [congruence|].
  assert (Gfb : good fb) by (apply chain_ok_good in C; now inversion C).
  destruct (good_is_parent lb fb G Gfb) as [[|] P]; rewrite P.
  - right. exists 0%nat, fb, r. rewrite Nat.add_0_r. cbn. repeat split; auto. lia.
  - destruct (IH (S i0)) as [H|(k & fb' & r' & H & L & N & P')]; [left; exact H|].
    right. exists (S k), fb', r'. replace (i0 + S k)%nat with (S i0 + k)%nat by lia.
    cbn [length nth]. repeat split; auto. lia.
Qed.

Lemma Forall_remove_nth {A} (P : A -> Prop) n : forall l, Forall P l -> Forall P (remove_nth n l).
Proof.
  induction n as [|n IH]; intros l F; destruct l as [|x l]; cbn [remove_nth]; auto;
    inversion F; subst; auto.
Qed.

Lemma Forall_nth_default {A} (P : A -> Prop) (l : list A) n d : Forall P l -> (n < length l)%nat -> P (nth n l d).
Proof. intros F L. rewrite Forall_forall in F. apply F. now apply nth_In. Qed.

Lemma update_disjoint_ok u resp : inv_un u -> chain_ok resp -> resp <> [] ->
  exists o u', update_disjoint u resp = Ok (o, u') /\ inv_un u'
               /\ match o with Some frag => gfrag frag | None => True end.
Proof.
  intros [I1 I2] C NE. unfold update_disjoint.
  destruct (last_some_nonempty resp NE) as (lb & L & Hin). rewrite L.
  assert (G : good lb).
  { apply chain_ok_good in C. rewrite Forall_forall in C. auto. }
  destruct (find_connect_ok lb (u_disjoint u) G I2 0) as [H|(k & fb & r & H & Lk & N & P)]; rewrite H.
  - exists None, u. repeat split; auto.
  - cbn [plus]. exists (Some (resp ++ nth k (u_disjoint u) [])), (mkun (u_incomplete u) (remove_nth k (u_disjoint u))).
    repeat split; cbn [u_incomplete u_disjoint]; auto.
    + now apply Forall_remove_nth.
    + destruct resp; [congruence|discriminate].
    + pose proof (Forall_nth_default _ _ k [] I2 Lk) as [_ Ck].
      eapply chain_ok_app; eauto.
Qed.

Lemma update_incomplete_ok chain : forall inc,
  Forall hdr_ok inc -> Forall (fun b => d_body b = true) chain ->
  Forall good (fst (update_incomplete inc chain)) /\ Forall hdr_ok (snd (update_incomplete inc chain)).
Proof.
  induction chain as [|b chain IH]; intros inc I B; cbn [update_incomplete]; [cbn [fst snd]; auto|].
  pose proof (Forall_inv B) as Bb. pose proof (Forall_inv_tail B) as Bc.
  destruct (find (fun x => d_hash x =? d_hash b) inc) as [x|] eqn:F.
  - assert (I' : Forall hdr_ok (filter (fun y => negb (d_hash y =? d_hash b)) inc)).
    { apply Forall_forall. intros y Hy. apply filter_In in Hy. rewrite Forall_forall in I. apply I. tauto. }
    specialize (IH _ I' Bc).
    destruct (update_incomplete (filter (fun y => negb (d_hash y =? d_hash b)) inc) chain) as [cs inc'].
    cbn [fst snd] in *. destruct IH as [IH1 IH2]. split; [|exact IH2].
    constructor; [|exact IH1].
    apply find_some in F. destruct F as [Hin _]. rewrite Forall_forall in I.
    destruct (I x Hin) as (h & Hh & Hm). exists h. cbn [d_header d_hash d_body]. auto.
  - apply IH; auto.
Qed.

Lemma gfrag_valid_under fin f : chain_ok f -> valid_under fin f <> [] -> gfrag (valid_under fin f).
Proof. intros C NE. split; [exact NE|now apply chain_ok_valid_under]. Qed.

Lemma collect_ready_ok fin0 vs : forall u ready,
  inv_un u -> Forall valid_entry vs -> Forall gfrag ready ->
  exists u' ready', collect_ready true fin0 u vs ready = Ok (u', ready')
                    /\ inv_un u' /\ Forall gfrag ready'.
Proof.
  induction vs as [|[q resp] vs IH]; intros u ready I V R; [exists u, ready; auto|].
  inversion V as [|? ? (VB & VN & VC & VBody) Vs]; subst. cbn [fst snd] in *.
  cbn [collect_ready]. destruct (req_field q f_header) eqn:RH.
  - destruct (update_disjoint_ok u resp I (VC eq_refl) VN) as (o & u' & E & I' & Ho). rewrite E.
    destruct o as [frag|].
    + destruct Ho as [_ Cf].
      destruct (valid_under fin0 frag) as [|b0 v0] eqn:EV; [apply IH; auto|].
      apply IH; auto. apply Forall_app. split; [exact R|]. constructor; [|constructor].
      rewrite <- EV. apply gfrag_valid_under; auto. rewrite EV. discriminate.
    + apply IH; auto. apply Forall_app. split; [exact R|]. constructor; [|constructor].
      split; auto.
  - destruct I as [I1 I2].
    pose proof (update_incomplete_ok resp (u_incomplete u) I1 VBody) as [G H].
    destruct (update_incomplete (u_incomplete u) resp) as [cs inc'] eqn:EU. cbn [fst snd] in *.
    apply IH; auto.
    + split; assumption.
    + apply Forall_app. split; [exact R|]. apply Forall_forall. intros f Hf.
      apply in_map_iff in Hf. destruct Hf as (c & <- & Hc). rewrite Forall_forall in G.
      split; [discriminate|]. constructor. auto.
Qed.

(* ---------------------------------------------------------------- ordering *)
Lemma Forall_insert_frag (P : list bdata -> Prop) f : forall l, P f -> Forall P l -> Forall P (insert_frag f l).
Proof.
  induction l as [|g l IH]; intros Pf F; cbn [insert_frag]; [auto|].
  inversion F; subst. destruct (first_num f <? first_num g); auto.
Qed.

Lemma Forall_sort_frags (P : list bdata -> Prop) l : Forall P l -> Forall P (sort_frags l).
Proof.
  unfold sort_frags. assert (G : forall l acc, Forall P l -> Forall P acc ->
    Forall P (fold_left (fun acc f => insert_frag f acc) l acc)).
  { clear. induction l as [|f l IH]; intros acc F A; [exact A|]. inversion F; subst. cbn [fold_left].
    apply IH; auto. now apply Forall_insert_frag. }
  intro F. apply G; auto.
Qed.

Lemma has_empty_gfrag l : Forall gfrag l -> has_empty l = false.
Proof.
  intro F. unfold has_empty. destruct (existsb _ l) eqn:E; [|reflexivity].
  apply existsb_exists in E. destruct E as (f & Hf & E). rewrite Forall_forall in F.
  destruct (F f Hf) as [NE _]. destruct f; [congruence|discriminate].
Qed.

(* what the safety proof needs of the sort: it keeps every property all fragments have.  Every
   permutation does (in particular whatever slices.SortFunc produces); so does sort_frags. *)
Definition keeps_forall (srt : list (list bdata) -> list (list bdata)) : Prop :=
  forall (P : list bdata -> Prop) l, Forall P l -> Forall P (srt l).

Lemma perm_keeps_forall srt : (forall l, Permutation (srt l) l) -> keeps_forall srt.
Proof. intros H P l F. eapply Permutation_Forall; [apply Permutation_sym, H|exact F]. Qed.

Lemma sort_frags_keeps : keeps_forall sort_frags.
Proof. intros P l F. now apply Forall_sort_frags. Qed.

Lemma insert_frag_perm f : forall l, Permutation (insert_frag f l) (f :: l).
Proof.
  induction l as [|g l IH]; cbn [insert_frag]; [reflexivity|].
  destruct (first_num f <? first_num g); [reflexivity|].
  rewrite IH. apply perm_swap.
Qed.

Lemma sort_frags_perm l : Permutation (sort_frags l) l.
Proof.
  unfold sort_frags.
  assert (G : forall l acc, Permutation (fold_left (fun acc f => insert_frag f acc) l acc) (l ++ acc)).
  { clear. induction l as [|f l IH]; intro acc; cbn [fold_left app]; [reflexivity|].
    rewrite IH. rewrite insert_frag_perm. symmetry. apply Permutation_middle. }
  rewrite G. now rewrite app_nil_r.
Qed.

(* the model's sort is a sort: the result is ordered by the number of the first block *)
Lemma insert_frag_sorted f : forall l,
  StronglySorted (fun a b => first_num a <= first_num b) l ->
  StronglySorted (fun a b => first_num a <= first_num b) (insert_frag f l).
Proof.
  induction l as [|g l IH]; intro S; cbn [insert_frag]; [repeat constructor|].
  inversion S as [|? ? Sl Fg]; subst.
  destruct (first_num f <? first_num g) eqn:E.
  - apply N.ltb_lt in E. constructor; [exact S|]. constructor; [lia|].
    eapply Forall_impl; [|exact Fg]. cbn. intros a Ha. lia.
  - apply N.ltb_ge in E. constructor; [now apply IH|].
    eapply Permutation_Forall; [apply Permutation_sym, insert_frag_perm|]. constructor; auto.
Qed.

Lemma sort_frags_sorted l : StronglySorted (fun a b => first_num a <= first_num b) (sort_frags l).
Proof.
  unfold sort_frags.
  assert (G : forall l acc, StronglySorted (fun a b => first_num a <= first_num b) acc ->
    StronglySorted (fun a b => first_num a <= first_num b) (fold_left (fun acc f => insert_frag f acc) l acc)).
  { clear. induction l as [|f l IH]; intros acc S; cbn [fold_left]; [exact S|].
    apply IH. now apply insert_frag_sorted. }
  apply G. constructor.
Qed.

Lemma sort_fragments_with_ok srt l : keeps_forall srt -> Forall gfrag l ->
  sort_fragments_with srt l = Ok (srt l) /\ Forall gfrag (srt l).
Proof.
  intros K F. unfold sort_fragments_with. rewrite (has_empty_gfrag l F), andb_false_r.
  split; [reflexivity|now apply K].
Qed.

Lemma sort_fragments_ok l : Forall gfrag l ->
  sort_fragments l = Ok (sort_frags l) /\ Forall gfrag (sort_frags l).
Proof. exact (sort_fragments_with_ok sort_frags l sort_frags_keeps). Qed.

Lemma merge_loop_ok rest : forall merged cur,
  Forall gfrag merged -> gfrag cur -> Forall gfrag rest ->
  exists m, merge_loop merged cur rest = Ok m /\ Forall gfrag m.
Proof.
  induction rest as [|f rest IH]; intros merged cur M C R; cbn [merge_loop].
  - exists (merged ++ [cur]). split; [reflexivity|]. apply Forall_app. auto.
  - inversion R as [|? ? [NEf Cf] Rr]; subst. destruct C as [NEc Cc].
    destruct (last_some_nonempty cur NEc) as (lb & L & Hin). rewrite L.
    destruct f as [|fb r]; [congruence|].
    assert (Glb : good lb) by (apply chain_ok_good in Cc; rewrite Forall_forall in Cc; auto).
    assert (Gfb : good fb) by (apply chain_ok_good in Cf; now inversion Cf).
    destruct (good_is_parent lb fb Glb Gfb) as [[|] P]; rewrite P.
    + apply IH; auto. split.
      * destruct cur; [congruence|discriminate].
      * eapply chain_ok_app; eauto.
    + apply IH; auto.
      * apply Forall_app. split; auto. constructor; [split; auto|constructor].
      * split; auto.
Qed.

Lemma merge_fragments_ok l : Forall gfrag l -> exists m, merge_fragments l = Ok m /\ Forall gfrag m.
Proof.
  intro F. destruct l as [|f l]; [exists []; auto|]. inversion F; subst.
  cbn [merge_fragments]. apply merge_loop_ok; auto.
Qed.

Lemma gfrag_first f : gfrag f -> exists b h r, f = b :: r /\ d_header b = Some h /\ chain_ok f.
Proof.
  intros [NE C]. destruct f as [|b r]; [congruence|].
  assert (G : good b) by (apply chain_ok_good in C; now inversion C).
  destruct G as (h & Hh & _). exists b, h, r. auto.
Qed.

Lemma split_known_ok e frs : forall next dis,
  Forall gfrag frs -> importable e next -> Forall gfrag dis ->
  exists next' dis', split_known e frs next dis = Ok (next', dis')
                     /\ importable e next' /\ Forall gfrag dis'.
Proof.
  induction frs as [|f frs IH]; intros next dis F N D; [exists next, dis; auto|].
  inversion F as [|? ? Gf Fr]; subst.
  destruct (gfrag_first f Gf) as (b & h & r & -> & Hh & C). cbn [split_known]. rewrite Hh.
  destruct (knows e (h_parent h)) eqn:K.
  - apply IH; auto. apply importable_app; auto.
    rewrite <- (app_nil_r (b :: r)). exact (imp_frag e (b :: r) [] b h C eq_refl Hh K (imp_nil e)).
  - apply IH; auto. apply Forall_app. split; auto.
Qed.

Lemma second_round_ok e dis : forall u queue next,
  Forall gfrag dis -> inv_un u -> importable e next ->
  exists u' q' next', second_round e dis u queue next = Ok (u', q', next')
                      /\ inv_un u' /\ importable e next'.
Proof.
  induction dis as [|f dis IH]; intros u queue next F I N; [exists u, queue, next; auto|].
  inversion F as [|? ? [NE C] Fr]; subst. cbn [second_round].
  destruct (valid_under (fin e) f) as [|b v] eqn:EV; [apply IH; auto|].
  assert (Gv : gfrag (b :: v)).
  { rewrite <- EV. apply gfrag_valid_under; auto. rewrite EV. discriminate. }
  destruct (gfrag_first _ Gv) as (b' & h & r & E & Hh & Cv). injection E as <- <-. rewrite Hh.
  destruct (knows e (h_parent h)) eqn:K.
  - apply IH; auto. apply importable_app; auto.
    rewrite <- (app_nil_r (b :: v)). exact (imp_frag e (b :: v) [] b h Cv eq_refl Hh K (imp_nil e)).
  - destruct (sub64 (h_number h) 1 <=? fin e); [apply IH; auto|].
    apply IH; auto. destruct I as [I1 I2]. split; cbn [u_incomplete u_disjoint]; auto.
    apply Forall_app. split; auto.
Qed.

Lemma remove_irrelevant_ok u fin : inv_un u -> inv_un (remove_irrelevant u fin).
Proof.
  intros [I1 I2]. split; cbn [remove_irrelevant u_incomplete u_disjoint].
  - apply Forall_forall. intros b Hb. apply filter_In in Hb. rewrite Forall_forall in I1. apply I1. tauto.
  - apply Forall_forall. intros f Hf. apply filter_In in Hf. destruct Hf as [Hin NE].
    apply in_map_iff in Hin. destruct Hin as (g & <- & Hg). rewrite Forall_forall in I2.
    destruct (I2 g Hg) as [_ Cg]. split.
    + destruct (cut_fragment fin (rev g) []); [discriminate|discriminate].
    + now apply chain_ok_cut.
Qed.

Lemma new_incomplete_ok u h : inv_un u -> inv_un (new_incomplete u h).
Proof.
  intros [I1 I2]. split; cbn [new_incomplete u_incomplete u_disjoint]; auto.
  constructor.
  - exists h. auto.
  - apply Forall_forall. intros b Hb. apply filter_In in Hb. rewrite Forall_forall in I1. apply I1. tauto.
Qed.

(* ---------------------------------------------------------------- Process *)
Definition inv_state (st : pstate) (imported : list N) : Prop :=
  inv_un (p_un st) /\ imported_known imported (p_env st).

Lemma inv_state_intro e u q imp : inv_un u -> imported_known imp e -> inv_state (mkps e u q) imp.
Proof. intros; split; auto. Qed.

Lemma process_with_fixed_ok srt bad st rs imported :
  keeps_forall srt ->
  inv_state st imported -> Forall (fun r => result_wf_b r = true) rs ->
  exists r imported',
    process_with srt true true true bad st rs = Ok r
    /\ pr_error r = false
    /\ events_ok_b imported (pr_events r) = (true, imported')
    /\ inv_state (pr_state r) imported'.
Proof.
  intros KS [IU IK] W. unfold process_with.
  destruct (validate_results_fixed bad rs (mkval [] [] []) W (Forall_nil _)) as (v & EV & VV). rewrite EV.
  destruct (collect_ready_ok (fin (p_env st)) (v_ok v) (p_un st) [] IU VV (Forall_nil _))
    as (u1 & ready & EC & IU1 & FR). rewrite EC.
  destruct (sort_fragments_with_ok srt ready KS FR) as [ES FS]. rewrite ES.
  destruct (merge_fragments_ok _ FS) as (ordered & EM & FO). rewrite EM.
  destruct (split_known_ok (p_env st) ordered [] [] FO (imp_nil _) (Forall_nil _))
    as (next & dis & EK & IN & FD). rewrite EK.
  destruct next as [|nb next0] eqn:ENx; destruct dis as [|df dis0] eqn:EDs.
  - (* nothing to do *)
    eexists _, imported. split; [reflexivity|]. cbn [pr_error pr_events pr_state events_ok_b].
    split; [reflexivity|]. split; [reflexivity|].
    apply inv_state_intro; auto using remove_irrelevant_ok.
  - rewrite <- EDs in *. clear EDs.
    cbn [import_all].
    destruct (second_round_ok (p_env st) dis u1 (p_queue st) [] FD IU1 (imp_nil _))
      as (u2 & q2 & next2 & E2 & IU2 & IN2). rewrite E2.
    destruct next2 as [|b2 n2] eqn:EN2.
    + eexists _, imported. split; [reflexivity|]. cbn [pr_error pr_events pr_state events_ok_b].
      split; [reflexivity|]. split; [reflexivity|].
      apply inv_state_intro; auto using remove_irrelevant_ok.
    + rewrite <- EN2 in *. clear EN2.
      destruct (importable_clean _ _ IN2 (p_env st) imported (sub_env_refl _) IK)
        as (ev2 & e2 & imp2 & EI & EO & IK2 & S2 & _). rewrite EI.
      eexists _, imp2. split; [reflexivity|]. cbn [pr_error pr_events pr_state app].
      split; [reflexivity|]. split; [exact EO|].
      apply inv_state_intro; auto using remove_irrelevant_ok.
  - rewrite <- ENx in *. clear ENx.
    destruct (importable_clean _ _ IN (p_env st) imported (sub_env_refl _) IK)
      as (ev1 & e1 & imp1 & EI & EO & IK1 & S1 & _). rewrite EI.
    cbn [second_round].
    eexists _, imp1. split; [reflexivity|]. cbn [pr_error pr_events pr_state].
    split; [reflexivity|]. split; [exact EO|].
    apply inv_state_intro; auto using remove_irrelevant_ok.
  - rewrite <- ENx, <- EDs in *. clear ENx EDs.
    destruct (importable_clean _ _ IN (p_env st) imported (sub_env_refl _) IK)
      as (ev1 & e1 & imp1 & EI & EO & IK1 & S1 & _). rewrite EI.
    destruct (second_round_ok e1 dis u1 (p_queue st) [] FD IU1 (imp_nil _))
      as (u2 & q2 & next2 & E2 & IU2 & IN2). rewrite E2.
    destruct next2 as [|b2 n2] eqn:EN2.
    + eexists _, imp1. split; [reflexivity|]. cbn [pr_error pr_events pr_state].
      split; [reflexivity|]. split; [exact EO|].
      apply inv_state_intro; auto using remove_irrelevant_ok.
    + rewrite <- EN2 in *. clear EN2.
      destruct (importable_clean _ _ IN2 e1 imp1 (sub_env_refl _) IK1)
        as (ev2 & e2 & imp2 & EI2 & EO2 & IK2 & S2 & _). rewrite EI2.
      eexists _, imp2. split; [reflexivity|]. cbn [pr_error pr_events pr_state].
      split; [reflexivity|]. split; [rewrite events_ok_app, EO; exact EO2|].
      apply inv_state_intro; auto using remove_irrelevant_ok.
Qed.

Lemma process_fixed_ok bad st rs imported :
  inv_state st imported -> Forall (fun r => result_wf_b r = true) rs ->
  exists r imported',
    process true true true bad st rs = Ok r
    /\ pr_error r = false
    /\ events_ok_b imported (pr_events r) = (true, imported')
    /\ inv_state (pr_state r) imported'.
Proof. exact (process_with_fixed_ok sort_frags bad st rs imported sort_frags_keeps). Qed.
