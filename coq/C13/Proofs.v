(* C13/Proofs.v — lemmas about the Uint128 model. *)
From Coq Require Import ZifyN ZifyNat ZifyBool.
From Common Require Import Bytes Dec.
From C13 Require Import Model.
Local Open Scope N_scope.

Lemma pow256_8 : 256 ^ N.of_nat 8 = two64.
Proof. reflexivity. Qed.
Lemma pow256_16 : 256 ^ N.of_nat 16 = two64 * two64.
Proof. reflexivity. Qed.

Lemma wf_bounds u : wf u = true -> upper u < two64 /\ lower u < two64.
Proof. unfold wf. intro H. apply andb_prop in H. destruct H as [A B]. split; lia. Qed.

Lemma value_lt u : wf u = true -> value u < two64 * two64.
Proof. intro H. apply wf_bounds in H. unfold value. nia. Qed.

(* --- 16-byte forms denote value --- *)
Lemma le_val_bytes16 u : wf u = true -> le_val (bytes16 LE u) = value u.
Proof.
  intro H. apply wf_bounds in H. destruct H as [Hu Hl]. unfold bytes16, value.
  rewrite le_val_app, le_bytes_length, pow256_8.
  rewrite !le_val_le_bytes_small by (rewrite pow256_8; assumption). lia.
Qed.

Lemma be_val_bytes16 u : wf u = true -> be_val (bytes16 BE u) = value u.
Proof.
  intro H. apply wf_bounds in H. destruct H as [Hu Hl]. unfold bytes16, value.
  rewrite be_val_app, be_bytes_length, pow256_8.
  rewrite !be_val_be_bytes_small by (rewrite pow256_8; assumption). lia.
Qed.

Lemma le_val_bytes u : wf u = true -> le_val (bytes LE u) = value u.
Proof. intro H. unfold bytes, trim. rewrite le_val_strip. now apply le_val_bytes16. Qed.

Lemma be_val_bytes u : wf u = true -> be_val (bytes BE u) = value u.
Proof. intro H. unfold bytes, trim. rewrite be_val_strip. now apply be_val_bytes16. Qed.

(* --- strings --- *)
Lemma to_string_value u : wf u = true -> to_string u = decimal (value u).
Proof. intro H. unfold to_string. now rewrite be_val_bytes. Qed.

Lemma parse_to_string u : wf u = true -> parse_decimal (to_string u) = Some (value u).
Proof. intro H. rewrite to_string_value by assumption. apply parse_decimal_decimal. Qed.

(* --- uniqueness of fixed-length encodings --- *)
Lemma be_bytes_be_val l : be_bytes (length l) (be_val l) = l.
Proof.
  unfold be_bytes. rewrite <- (rev_involutive l) at 3. f_equal.
  rewrite <- le_val_rev. rewrite <- (rev_length l). apply le_bytes_le_val.
Qed.

Lemma be_val_inj_len a b : length a = length b -> be_val a = be_val b -> a = b.
Proof.
  intros L V. rewrite <- (be_bytes_be_val a), <- (be_bytes_be_val b). now rewrite L, V.
Qed.

(* --- minimal big-endian bytes --- *)
Lemma strip_leading_zeros_length l : (length (strip_leading_zeros l) <= length l)%nat.
Proof.
  induction l as [|b l IH]; cbn [strip_leading_zeros length]; [lia|].
  destruct (b2n b =? 0); cbn [length]; lia.
Qed.

Lemma strip_head_nonzero l b r : strip_leading_zeros l = b :: r -> b2n b <> 0.
Proof.
  induction l as [|x l IH]; cbn [strip_leading_zeros]; [discriminate|].
  destruct (N.eqb_spec (b2n x) 0) as [E|E]; [exact IH|].
  intro H; injection H as -> _. exact E.
Qed.

Lemma be_val_ge_head b r : b2n b <> 0 -> 256 ^ N.of_nat (length r) <= be_val (b :: r).
Proof. intro H. rewrite be_val_cons. nia. Qed.

Lemma be_val_big_bytes n : be_val (big_bytes n) = n.
Proof.
  unfold big_bytes. rewrite be_val_strip. apply be_val_be_bytes_small.
  rewrite N2Nat.id. pose proof (N.size_gt n) as G.
  eapply N.lt_le_trans; [exact G|].
  change 256 with (2 ^ 8). rewrite <- N.pow_mul_r. apply N.pow_le_mono_r; lia.
Qed.

Lemma big_bytes_length n k : n < 256 ^ N.of_nat k -> (length (big_bytes n) <= k)%nat.
Proof.
  intro H. pose proof (be_val_big_bytes n) as V.
  destruct (big_bytes n) as [|b r] eqn:E; [cbn; lia|].
  assert (NZ : b2n b <> 0) by (eapply strip_head_nonzero; unfold big_bytes in E; exact E).
  pose proof (be_val_ge_head b r NZ) as G. rewrite V in G.
  cbn [length]. destruct (Nat.le_gt_cases (S (length r)) k) as [|C]; [assumption|exfalso].
  assert (256 ^ N.of_nat k <= 256 ^ N.of_nat (length r)) by (apply N.pow_le_mono_r; lia). lia.
Qed.

(* --- splitting a 16-byte big-endian string --- *)
Lemma be_split16 l : length l = 16%nat ->
  be_val (firstn 8 l) = be_val l / two64 /\ be_val (firstn 8 (skipn 8 l)) = be_val l mod two64.
Proof.
  intro L.
  assert (L1 : length (firstn 8 l) = 8%nat) by (rewrite firstn_length; lia).
  assert (L2 : length (skipn 8 l) = 8%nat) by (rewrite skipn_length; lia).
  assert (F : firstn 8 (skipn 8 l) = skipn 8 l) by (apply firstn_all2; lia).
  rewrite F. pose proof (be_val_lt (skipn 8 l)) as B. rewrite L2, pow256_8 in B.
  rewrite <- (firstn_skipn 8 l) at 2 4. rewrite be_val_app, L2, pow256_8.
  split.
  - rewrite N.div_add_l by (unfold two64; lia). rewrite (N.div_small _ _ B). lia.
  - rewrite N.add_comm, N.mod_add by (unfold two64; lia). symmetry. now apply N.mod_small.
Qed.

Lemma of_big_value u : wf u = true -> of_big (value u) = u.
Proof.
  intro H. pose proof (value_lt u H) as VL. apply wf_bounds in H. destruct H as [Hu Hl].
  unfold of_big.
  pose proof (big_bytes_length (value u) 16) as BL. rewrite pow256_16 in BL. specialize (BL VL).
  set (b := big_bytes (value u)) in *.
  set (b' := if (length b <? 16)%nat then pad BE b else b).
  assert (L : length b' = 16%nat).
  { unfold b'. destruct (Nat.ltb_spec (length b) 16) as [C|C].
    - unfold pad, pad_front, zeros. rewrite app_length, repeat_length. lia.
    - lia. }
  assert (V : be_val b' = value u).
  { unfold b'. destruct (length b <? 16)%nat.
    - unfold pad. rewrite be_val_pad_front. apply be_val_big_bytes.
    - apply be_val_big_bytes. }
  destruct (be_split16 b' L) as [A B]. unfold get_u64. rewrite A, B, V. unfold value.
  destruct u as [up lo]; cbn [upper lower] in *. f_equal.
  - rewrite N.div_add_l by (unfold two64; lia). rewrite (N.div_small lo) by assumption. lia.
  - rewrite N.add_comm, N.mod_add by (unfold two64; lia). now apply N.mod_small.
Qed.

(* --- JSON round trip --- *)
Lemma decimal_head_not_sign n : strip_sign (decimal n) = decimal n.
Proof.
  pose proof (parse_decimal_decimal n) as P.
  destruct (decimal n) as [|b r] eqn:E; [reflexivity|].
  cbn [strip_sign].
  destruct ((b2n b =? 43) || (b2n b =? 45)) eqn:S; [|reflexivity].
  exfalso. unfold parse_decimal in P. cbn [bytes_to_uint] in P.
  unfold digit_of_byte in P.
  apply orb_prop in S. destruct S as [S|S]; apply N.eqb_eq in S; rewrite S in P; cbn in P; discriminate.
Qed.

Lemma json_roundtrip u : wf u = true -> unmarshal_json (marshal_json u) = Some u.
Proof.
  intro H. unfold unmarshal_json, marshal_json. rewrite to_string_value by assumption.
  rewrite decimal_head_not_sign, parse_decimal_decimal. cbn [option_map].
  now rewrite of_big_value.
Qed.

(* --- little-endian constructor round trip --- *)
Lemma le_split16 l : length l = 16%nat ->
  le_val (firstn 8 l) = le_val l mod two64 /\ le_val (firstn 8 (skipn 8 l)) = le_val l / two64.
Proof.
  intro L.
  assert (L1 : length (firstn 8 l) = 8%nat) by (rewrite firstn_length; lia).
  assert (L2 : length (skipn 8 l) = 8%nat) by (rewrite skipn_length; lia).
  assert (F : firstn 8 (skipn 8 l) = skipn 8 l) by (apply firstn_all2; lia).
  rewrite F. pose proof (le_val_lt (firstn 8 l)) as B. rewrite L1, pow256_8 in B.
  rewrite <- (firstn_skipn 8 l) at 2 4. rewrite le_val_app, L1, pow256_8.
  split.
  - rewrite N.mul_comm, N.mod_add by (unfold two64; lia). symmetry. now apply N.mod_small.
  - rewrite N.mul_comm, N.div_add by (unfold two64; lia). rewrite (N.div_small _ _ B). lia.
Qed.

Lemma strip_trailing_zeros_length l : (length (strip_trailing_zeros l) <= length l)%nat.
Proof.
  unfold strip_trailing_zeros. rewrite rev_length.
  etransitivity; [apply strip_leading_zeros_length|]. now rewrite rev_length.
Qed.

Lemma bytes16_length o u : length (bytes16 o u) = 16%nat.
Proof. destruct o; unfold bytes16; rewrite app_length, ?le_bytes_length, ?be_bytes_length; reflexivity. Qed.

Lemma of_bytes_le_bytes u : wf u = true -> of_bytes LE (bytes LE u) = u.
Proof.
  intro H. pose proof (le_val_bytes u H) as V. apply wf_bounds in H. destruct H as [Hu Hl].
  unfold of_bytes.
  assert (BL : (length (bytes LE u) <= 16)%nat).
  { unfold bytes, trim. etransitivity; [apply strip_trailing_zeros_length|]. now rewrite bytes16_length. }
  set (b := bytes LE u) in *.
  set (b' := if (length b <? 16)%nat then pad LE b else b).
  assert (L : length b' = 16%nat).
  { unfold b'. destruct (Nat.ltb_spec (length b) 16) as [C|C].
    - unfold pad, pad_back, zeros. rewrite app_length, repeat_length. lia.
    - lia. }
  assert (V' : le_val b' = value u).
  { unfold b'. destruct (length b <? 16)%nat; [unfold pad; rewrite le_val_pad_back|]; exact V. }
  destruct (le_split16 b' L) as [A B]. unfold get_u64. rewrite A, B, V'. unfold value.
  destruct u as [up lo]; cbn [upper lower] in *. f_equal.
  - rewrite N.div_add_l by (unfold two64; lia). rewrite (N.div_small lo) by assumption. lia.
  - rewrite N.add_comm, N.mod_add by (unfold two64; lia). now apply N.mod_small.
Qed.

(* --- Compare is numeric comparison --- *)
Lemma compare_value u v : wf u = true -> wf v = true -> compare u v = (value u ?= value v).
Proof.
  intros Hu Hv. apply wf_bounds in Hu, Hv. destruct Hu as [A B], Hv as [C D].
  unfold compare, value. symmetry.
  destruct (N.compare_spec (upper u) (upper v)) as [E|E|E].
  - rewrite E. destruct (N.compare_spec (lower u) (lower v)) as [F|F|F].
    + rewrite F. apply N.compare_refl.
    + apply N.compare_lt_iff. lia.
    + apply N.compare_gt_iff. lia.
  - apply N.compare_lt_iff. nia.
  - apply N.compare_gt_iff. nia.
Qed.

(* --- the pre-fix String() was wrong: witness 256 --- *)
Lemma to_string_prefix_refuted :
  exists u, wf u = true /\ parse_decimal (to_string_prefix u) <> Some (value u).
Proof. exists (mk128 0 256). split; [reflexivity|]. vm_compute. discriminate. Qed.
