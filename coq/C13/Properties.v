(* C13/Properties.v — property C13: 128-bit integers have consistent numeric views.
   Only statements, each closed by `exact <lemma>`, with Print Assumptions beneath. *)
From Common Require Import Bytes Dec.
From C13 Require Import Model Proofs.
Local Open Scope N_scope.

(* Every view of a 128-bit value denotes value u = upper * 2^64 + lower:
   decimal string, JSON form, little- and big-endian byte forms, big-integer conversion. *)
Theorem C13_views : forall u, wf u = true ->
     parse_decimal (to_string u) = Some (value u)
  /\ to_string u = decimal (value u)
  /\ marshal_json u = decimal (value u)
  /\ le_val (bytes LE u) = value u
  /\ be_val (bytes BE u) = value u
  /\ of_big (value u) = u
  /\ of_bytes LE (bytes LE u) = u.
Proof.
  intros u H. repeat split.
  - exact (parse_to_string u H).
  - exact (to_string_value u H).
  - exact (to_string_value u H).
  - exact (le_val_bytes u H).
  - exact (be_val_bytes u H).
  - exact (of_big_value u H).
  - exact (of_bytes_le_bytes u H).
Qed.
Print Assumptions C13_views.

Theorem C13_json_roundtrip : forall u, wf u = true -> unmarshal_json (marshal_json u) = Some u.
Proof. exact json_roundtrip. Qed.
Print Assumptions C13_json_roundtrip.

Theorem C13_compare_numeric : forall u v, wf u = true -> wf v = true ->
  compare u v = (value u ?= value v).
Proof. exact compare_value. Qed.
Print Assumptions C13_compare_numeric.

(* non-vacuity: a value with both halves non-zero and interior zero bytes *)
Example C13_nonvacuous :
  let u := mk128 72057594037927937 256 in
  wf u = true /\ value u = 1329227995784915891350551133989896448
  /\ length (bytes LE u) = 16%nat /\ length (bytes BE u) = 16%nat.
Proof. vm_compute. repeat split; reflexivity. Qed.

(* the String() of the pinned tree before the fix (LE bytes read as BE) violated C13_views *)
Theorem C13_string_prefix_refuted :
  exists u, wf u = true /\ parse_decimal (to_string_prefix u) <> Some (value u).
Proof. exact to_string_prefix_refuted. Qed.
Print Assumptions C13_string_prefix_refuted.
