(* C13/Properties.v — property C13: 128-bit integers have consistent numeric views.
   Only statements, each closed by `exact <lemma>`, with Print Assumptions beneath. *)
From Common Require Import Bytes Dec.
From C13 Require Import Model Proofs ProofsMore.
Local Open Scope N_scope.

(* Every view of a 128-bit value denotes value u = upper * 2^64 + lower:
   decimal string, JSON form, little- and big-endian byte forms, big-integer conversion, and
   the library's own readers of the two byte forms (NewUint128 with either byte order; the
   big-endian one after fixes/C13-newuint128-be.patch). *)
Theorem C13_views : forall u, wf u = true ->
     parse_decimal (to_string u) = Some (value u)
  /\ to_string u = decimal (value u)
  /\ marshal_json u = decimal (value u)
  /\ le_val (bytes LE u) = value u
  /\ be_val (bytes BE u) = value u
  /\ of_big (value u) = u
  /\ of_bytes LE (bytes LE u) = u
  /\ of_bytes BE (bytes BE u) = u.
Proof. exact views_all. Qed.
Print Assumptions C13_views.

Theorem C13_json_roundtrip : forall u, wf u = true -> unmarshal_json (marshal_json u) = Some u.
Proof. exact json_roundtrip. Qed.
Print Assumptions C13_json_roundtrip.

Theorem C13_compare_numeric : forall u v, wf u = true -> wf v = true ->
  compare u v = (value u ?= value v).
Proof. exact compare_value. Qed.
Print Assumptions C13_compare_numeric.

(* The constructors denote the number their INPUT denotes, for every input (not only for the byte
   forms of a value): NewUint128 from at most 16 bytes in either order, NewUint128 from a big
   integer below 2^128, UnmarshalJSON of the decimal numeral of a number below 2^128. *)
Theorem C13_from_bytes : forall o b, (length b <= 16)%nat ->
  wf (of_bytes o b) = true /\ value (of_bytes o b) = val_of o b.
Proof. exact of_bytes_value. Qed.
Print Assumptions C13_from_bytes.

Theorem C13_from_big : forall n, n < two64 * two64 ->
  wf (of_big n) = true /\ value (of_big n) = n.
Proof. exact of_big_wf_value. Qed.
Print Assumptions C13_from_big.

Theorem C13_json_decode : forall n, n < two64 * two64 ->
  exists u, unmarshal_json (decimal n) = Some u /\ wf u = true /\ value u = n.
Proof. exact unmarshal_decimal. Qed.
Print Assumptions C13_json_decode.

(* no two 128-bit values share a decimal string, a JSON form or a byte form *)
Theorem C13_views_injective : forall u v, wf u = true -> wf v = true ->
  (to_string u = to_string v \/ marshal_json u = marshal_json v \/
   bytes LE u = bytes LE v \/ bytes BE u = bytes BE v) -> u = v.
Proof. exact views_injective. Qed.
Print Assumptions C13_views_injective.

(* non-vacuity: a value with both halves non-zero and interior zero bytes *)
Example C13_nonvacuous :
  let u := mk128 72057594037927937 256 in
  wf u = true /\ value u = 1329227995784915891350551133989896448
  /\ length (bytes LE u) = 16%nat /\ length (bytes BE u) = 16%nat.
Proof. vm_compute. repeat split; reflexivity. Qed.

(* the String() of the pinned tree before the fix (LE bytes read as BE) violated C13_views *)
Theorem C13_string_prefix_refuted :
  exists u, wf u = true /\ parse_decimal (to_string_prefix u) <> Some (value u).
Proof. exact to_string_prefix_refuted. Qed.
Print Assumptions C13_string_prefix_refuted.

(* NewUint128(bytes, BigEndian) of the tree before fixes/C13-newuint128-be.patch exchanged the
   halves: the big-endian byte form of 1 was read back as 2^64 *)
Theorem C13_from_bytes_prefix_refuted :
  exists u, wf u = true /\ of_bytes_prefix BE (bytes BE u) <> u /\
            value (of_bytes_prefix BE (bytes BE u)) <> be_val (bytes BE u).
Proof. exact of_bytes_prefix_refuted. Qed.
Print Assumptions C13_from_bytes_prefix_refuted.
