From Coq Require Import Extraction ExtrOcamlBasic.
From Common Require Import Bytes Dec Drv.
From C13 Require Import Model.
Extraction "model.ml" drv_b2n drv_n2b drv_z_of_n drv_n_of_z drv_nat_of_n drv_n_of_nat
  mk128 wf value bytes of_bytes of_big to_string marshal_json unmarshal_json compare
  le_val be_val decimal parse_decimal.
