(* C13/Model.v — executable model of pkg/scale/uint128.go (definitions only).
   Mirrors: Uint128{Upper,Lower}, padBytes, NewUint128 (from a big.Int and from []byte with an
   order), Bytes(order) with trimBytes, String, Compare, MarshalJSON, UnmarshalJSON. *)
From Common Require Import Bytes Dec.
Local Open Scope N_scope.

Record u128 := mk128 { upper : N; lower : N }.

Definition two64 : N := 18446744073709551616.
Definition wf (u : u128) : bool := (upper u <? two64) && (lower u <? two64).
Definition value (u : u128) : N := upper u * two64 + lower u.

Inductive order := LE | BE.

(* binary.<order>.Uint64(b): reads the first 8 bytes *)
Definition get_u64 (o : order) (b : list byte) : N :=
  match o with LE => le_val (firstn 8 b) | BE => be_val (firstn 8 b) end.

(* padBytes: loops until len == 16 (only called when len < 16) *)
Definition pad (o : order) (b : list byte) : list byte :=
  match o with BE => pad_front 16 b | LE => pad_back 16 b end.

(* u.Bytes(order): 16 bytes then trimBytes *)
Definition bytes16 (o : order) (u : u128) : list byte :=
  match o with
  | LE => le_bytes 8 (lower u) ++ le_bytes 8 (upper u)
  | BE => be_bytes 8 (upper u) ++ be_bytes 8 (lower u)
  end.
Definition trim (o : order) (b : list byte) : list byte :=
  match o with LE => strip_trailing_zeros b | BE => strip_leading_zeros b end.
Definition bytes (o : order) (u : u128) : list byte := trim o (bytes16 o u).

(* NewUint128([]byte, order) after fixes/C13-newuint128-be.patch: the most significant half is
   in[8:] for little endian and in[:8] for big endian *)
Definition of_bytes (o : order) (b : list byte) : u128 :=
  let b' := if (length b <? 16)%nat then pad o b else b in
  match o with
  | LE => mk128 (get_u64 LE (skipn 8 b')) (get_u64 LE b')
  | BE => mk128 (get_u64 BE b') (get_u64 BE (skipn 8 b'))
  end.

(* the pre-fix constructor, kept for the refutation witness: Upper: o.Uint64(in[8:]),
   Lower: o.Uint64(in[:8]) for BOTH orders, which exchanges the halves of a big-endian input *)
Definition of_bytes_prefix (o : order) (b : list byte) : u128 :=
  let b' := if (length b <? 16)%nat then pad o b else b in
  mk128 (get_u64 o (skipn 8 b')) (get_u64 o b').

(* big.Int.Bytes(): minimal big-endian magnitude *)
Definition big_bytes (n : N) : list byte :=
  strip_leading_zeros (be_bytes (N.to_nat (N.size n)) n).

(* NewUint128 from a big.Int *)
Definition of_big (n : N) : u128 :=
  let b := big_bytes n in
  let b' := if (length b <? 16)%nat then pad BE b else b in
  mk128 (get_u64 BE b') (get_u64 BE (skipn 8 b')).

(* big.NewInt(0).SetBytes(b) = be_val b; String() = %d of SetBytes(u.Bytes(BigEndian)) *)
Definition to_string (u : u128) : list byte := decimal (be_val (bytes BE u)).
Definition marshal_json (u : u128) : list byte := to_string u.

(* UnmarshalJSON: big.Int.SetString(s, 10) then NewUint128(big).  SetString accepts an optional
   sign; the magnitude is what in.Bytes() returns, so the sign is dropped. *)
Definition strip_sign (l : list byte) : list byte :=
  match l with
  | b :: r => if (b2n b =? 43) || (b2n b =? 45) then r else l
  | [] => []
  end.
Definition unmarshal_json (s : list byte) : option u128 :=
  option_map of_big (parse_decimal (strip_sign s)).

Definition compare (u v : u128) : comparison :=
  match upper u ?= upper v with
  | Gt => Gt | Lt => Lt
  | Eq => match lower u ?= lower v with Gt => Gt | Lt => Lt | Eq => Eq end
  end.

(* ---- the pre-fix String(), kept for the refutation witness: SetBytes(u.Bytes()) read the
   little-endian bytes as big-endian *)
Definition to_string_prefix (u : u128) : list byte := decimal (be_val (bytes LE u)).
