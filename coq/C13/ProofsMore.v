(* C13/ProofsMore.v — second-round lemmas (auditor): the constructors denote the number their
   input denotes, for EVERY input (not only for the byte forms of a value), in both byte orders;
   the big-endian constructor of the tree before fixes/C13-newuint128-be.patch exchanged the
   halves. *)
From Coq Require Import ZifyN ZifyNat ZifyBool.
From Common Require Import Bytes Dec.
From C13 Require Import Model Proofs.
Local Open Scope N_scope.

Definition val_of (o : order) (b : list byte) : N :=
  match o with LE => le_val b | BE => be_val b end.

Lemma two64_pos : two64 <> 0.
Proof. unfold two64. lia. Qed.

Lemma value_inj u v : wf u = true -> wf v = true -> value u = value v -> u = v.
Proof.
  intros Hu Hv E. apply wf_bounds in Hu, Hv. destruct Hu as [A B], Hv as [C D].
  destruct u as [a b], v as [c d]; cbn [upper lower] in *. unfold value in E; cbn [upper lower] in E.
  assert (a = c) by nia. subst c. assert (b = d) by nia. now subst d.
Qed.

Lemma split_wf_value x : x < two64 * two64 ->
  wf (mk128 (x / two64) (x mod two64)) = true /\ value (mk128 (x / two64) (x mod two64)) = x.
Proof.
  intro H. pose proof two64_pos as P. split.
  - unfold wf; cbn [upper lower]. apply andb_true_intro. split; apply N.ltb_lt.
    + apply N.div_lt_upper_bound; assumption.
    + now apply N.mod_lt.
  - unfold value; cbn [upper lower]. rewrite (N.div_mod x two64) at 3 by assumption. lia.
Qed.

Lemma padded_length o b : (length b <= 16)%nat ->
  length (if (length b <? 16)%nat then pad o b else b) = 16%nat.
Proof.
  intro L. destruct (Nat.ltb_spec (length b) 16) as [C|C]; [|lia].
  destruct o; unfold pad, pad_front, pad_back, zeros; rewrite app_length, repeat_length; lia.
Qed.

Lemma padded_val o b :
  val_of o (if (length b <? 16)%nat then pad o b else b) = val_of o b.
Proof.
  destruct (length b <? 16)%nat; [|reflexivity].
  destruct o; unfold pad, val_of; [apply le_val_pad_back|apply be_val_pad_front].
Qed.

(* NewUint128(b, order) for any b of at most 16 bytes: a well-formed value denoting the number
   the bytes denote in that order *)
Lemma of_bytes_value o b : (length b <= 16)%nat ->
  wf (of_bytes o b) = true /\ value (of_bytes o b) = val_of o b.
Proof.
  intro L. pose proof (padded_length o b L) as L16. pose proof (padded_val o b) as V.
  unfold of_bytes. set (b' := if (length b <? 16)%nat then pad o b else b) in *.
  destruct o; unfold get_u64, val_of in *.
  - destruct (le_split16 b' L16) as [A B]. rewrite A, B, <- V.
    apply split_wf_value. pose proof (le_val_lt b') as LT. now rewrite L16, pow256_16 in LT.
  - destruct (be_split16 b' L16) as [A B]. rewrite A, B, <- V.
    apply split_wf_value. pose proof (be_val_lt b') as LT. now rewrite L16, pow256_16 in LT.
Qed.

Lemma bytes_length o u : (length (bytes o u) <= 16)%nat.
Proof.
  unfold bytes, trim. pose proof (bytes16_length o u) as L.
  destruct o; rewrite <- L; [apply strip_trailing_zeros_length|apply strip_leading_zeros_length].
Qed.

Lemma val_of_bytes o u : wf u = true -> val_of o (bytes o u) = value u.
Proof. intro H. destruct o; [now apply le_val_bytes|now apply be_val_bytes]. Qed.

(* both constructors invert both byte forms *)
Lemma of_bytes_bytes o u : wf u = true -> of_bytes o (bytes o u) = u.
Proof.
  intro H. destruct (of_bytes_value o (bytes o u) (bytes_length o u)) as [W V].
  apply value_inj; [exact W|exact H|]. rewrite V. now apply val_of_bytes.
Qed.

(* NewUint128 from a big.Int, for every number below 2^128 *)
Lemma of_big_wf_value n : n < two64 * two64 -> wf (of_big n) = true /\ value (of_big n) = n.
Proof.
  intro H. pose proof (split_wf_value n H) as [W V].
  assert (E : of_big n = mk128 (n / two64) (n mod two64)).
  { rewrite <- V at 1. apply of_big_value. exact W. }
  rewrite E. now split.
Qed.

(* UnmarshalJSON of the decimal numeral of every number below 2^128 *)
Lemma unmarshal_decimal n : n < two64 * two64 ->
  exists u, unmarshal_json (decimal n) = Some u /\ wf u = true /\ value u = n.
Proof.
  intro H. exists (of_big n). destruct (of_big_wf_value n H) as [W V]. split; [|now split].
  unfold unmarshal_json. now rewrite decimal_head_not_sign, parse_decimal_decimal.
Qed.

(* distinct values have distinct views: String / JSON / byte forms are injective *)
Lemma to_string_inj u v : wf u = true -> wf v = true -> to_string u = to_string v -> u = v.
Proof.
  intros Hu Hv E. apply value_inj; try assumption.
  pose proof (parse_to_string u Hu) as A. pose proof (parse_to_string v Hv) as B.
  rewrite E in A. rewrite A in B. now injection B.
Qed.

Lemma bytes_inj o u v : wf u = true -> wf v = true -> bytes o u = bytes o v -> u = v.
Proof.
  intros Hu Hv E. rewrite <- (of_bytes_bytes o u Hu), <- (of_bytes_bytes o v Hv). now rewrite E.
Qed.

(* the tree before the fix: the big-endian constructor exchanges the halves (little endian is
   unaffected) *)
Lemma of_bytes_prefix_le b : of_bytes_prefix LE b = of_bytes LE b.
Proof. reflexivity. Qed.

Lemma of_bytes_prefix_swaps b :
  of_bytes_prefix BE b = mk128 (lower (of_bytes BE b)) (upper (of_bytes BE b)).
Proof. reflexivity. Qed.

Lemma of_bytes_prefix_refuted :
  exists u, wf u = true /\ of_bytes_prefix BE (bytes BE u) <> u /\
            value (of_bytes_prefix BE (bytes BE u)) <> be_val (bytes BE u).
Proof. exists (mk128 0 1). split; [reflexivity|]. vm_compute. split; discriminate. Qed.

(* all the views of C13_views, in one lemma *)
Lemma views_all u : wf u = true ->
     parse_decimal (to_string u) = Some (value u)
  /\ to_string u = decimal (value u)
  /\ marshal_json u = decimal (value u)
  /\ le_val (bytes LE u) = value u
  /\ be_val (bytes BE u) = value u
  /\ of_big (value u) = u
  /\ of_bytes LE (bytes LE u) = u
  /\ of_bytes BE (bytes BE u) = u.
Proof.
  intro H. repeat split.
  - exact (parse_to_string u H).
  - exact (to_string_value u H).
  - exact (to_string_value u H).
  - exact (le_val_bytes u H).
  - exact (be_val_bytes u H).
  - exact (of_big_value u H).
  - exact (of_bytes_bytes LE u H).
  - exact (of_bytes_bytes BE u H).
Qed.

Lemma views_injective u v : wf u = true -> wf v = true ->
  (to_string u = to_string v \/ marshal_json u = marshal_json v \/
   bytes LE u = bytes LE v \/ bytes BE u = bytes BE v) -> u = v.
Proof.
  intros Hu Hv [E|[E|[E|E]]].
  - now apply to_string_inj.
  - now apply to_string_inj.
  - now apply (bytes_inj LE).
  - now apply (bytes_inj BE).
Qed.
