(* Common/Lock.v — lock modes read from the Go source by tools/gosrc (Gen.v files). *)
From Coq Require Import String List Bool.
Inductive lockmode := LockExclusive | LockShared | LockNone.
Definition lockmode_eqb (a b : lockmode) : bool :=
  match a, b with
  | LockExclusive, LockExclusive | LockShared, LockShared | LockNone, LockNone => true
  | _, _ => false
  end.
(* lookup of a method's (mode, released-by-defer) in a generated table *)
Fixpoint lock_of (tbl : list (string * lockmode * bool)) (m : string) : option (lockmode * bool) :=
  match tbl with
  | nil => None
  | (n, md, d) :: r => if String.eqb n m then Some (md, d) else lock_of r m
  end.
