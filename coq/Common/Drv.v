(* Common/Drv.v — the handful of conversions every extracted driver needs.
   Each property's Extract.v lists these so that vutil.ml finds them in Model. *)
From Common Require Import Bytes.
Definition drv_b2n : byte -> N := b2n.
Definition drv_n2b : N -> byte := n2b.
Definition drv_z_of_n : N -> Z := Z.of_N.
Definition drv_n_of_z : Z -> N := Z.to_N.
Definition drv_nat_of_n : N -> nat := N.to_nat.
Definition drv_n_of_nat : nat -> N := N.of_nat.
