(* Common/Bytes.v — bytes, little/big-endian views, shared by all property models.
   Definitions and their basic lemmas.  Stdlib only. *)
From Coq Require Export List NArith ZArith Lia Bool.
From Coq Require Import Strings.Byte ZifyN ZifyNat ZifyBool.
Export ListNotations.
Local Open Scope N_scope.

Notation byte := Coq.Init.Byte.byte.

Definition b2n (b : byte) : N := Byte.to_N b.

(* total byte-of-number: reduces modulo 256 (Go's byte(x) conversion) *)
Definition n2b (n : N) : byte :=
  match Byte.of_N (N.land n 255) with Some b => b | None => Byte.x00 end.

Lemma b2n_lt b : b2n b < 256.
Proof. unfold b2n. pose proof (Byte.to_N_bounded b). lia. Qed.

Lemma n2b_b2n b : n2b (b2n b) = b.
Proof.
  unfold n2b, b2n.
  replace (N.land (Byte.to_N b) 255) with (Byte.to_N b).
  - now rewrite Byte.of_to_N.
  - change 255 with (N.ones 8). rewrite N.land_ones.
    symmetry; apply N.mod_small. pose proof (Byte.to_N_bounded b). change (2^8) with 256. lia.
Qed.

Lemma land255_mod n : N.land n 255 = n mod 256.
Proof. change 255 with (N.ones 8). now rewrite N.land_ones. Qed.

Lemma b2n_n2b n : b2n (n2b n) = n mod 256.
Proof.
  unfold n2b, b2n. rewrite land255_mod.
  assert (H : n mod 256 < 256) by (apply N.mod_lt; lia).
  destruct (Byte.of_N (n mod 256)) as [b|] eqn:E.
  - now apply Byte.to_of_N.
  - exfalso. pose proof (Byte.to_of_N_option_map (n mod 256)) as M.
    rewrite E in M. cbn in M.
    destruct (N.leb_spec (n mod 256) 255); [discriminate | lia].
Qed.

Lemma b2n_n2b_small n : n < 256 -> b2n (n2b n) = n.
Proof. intro H. rewrite b2n_n2b. now apply N.mod_small. Qed.

Lemma b2n_inj a b : b2n a = b2n b -> a = b.
Proof. intro H. rewrite <- (n2b_b2n a), <- (n2b_b2n b). now rewrite H. Qed.

Definition byte_eqb (a b : byte) : bool := N.eqb (b2n a) (b2n b).
Lemma byte_eqb_spec a b : reflect (a = b) (byte_eqb a b).
Proof.
  unfold byte_eqb. destruct (N.eqb_spec (b2n a) (b2n b)) as [E|E]; constructor.
  - now apply b2n_inj.
  - intro; subst; now apply E.
Qed.

Fixpoint bytes_eqb (a b : list byte) : bool :=
  match a, b with
  | [], [] => true
  | x :: a', y :: b' => byte_eqb x y && bytes_eqb a' b'
  | _, _ => false
  end.
Lemma bytes_eqb_spec a b : reflect (a = b) (bytes_eqb a b).
Proof.
  revert b; induction a as [|x a IH]; intros [|y b]; cbn; try (constructor; congruence).
  destruct (byte_eqb_spec x y) as [->|N]; cbn.
  - destruct (IH b) as [->|N]; constructor; congruence.
  - constructor; congruence.
Qed.

(* little-endian and big-endian numeric value of a byte string *)
Fixpoint le_val (l : list byte) : N :=
  match l with [] => 0 | b :: r => b2n b + 256 * le_val r end.

Definition be_val (l : list byte) : N :=
  fold_left (fun acc b => acc * 256 + b2n b) l 0.

Lemma be_val_acc l acc :
  fold_left (fun a b => a * 256 + b2n b) l acc = acc * 256 ^ N.of_nat (length l) + be_val l.
Proof.
  unfold be_val. revert acc; induction l as [|b l IH]; intro acc.
  - cbn. lia.
  - cbn [fold_left length]. rewrite IH. rewrite (IH (0 * 256 + b2n b)).
    rewrite Nat2N.inj_succ, N.pow_succ_r'. lia.
Qed.

Lemma be_val_cons b l : be_val (b :: l) = b2n b * 256 ^ N.of_nat (length l) + be_val l.
Proof. unfold be_val at 1. cbn [fold_left]. rewrite be_val_acc. lia. Qed.

Lemma be_val_app a b : be_val (a ++ b) = be_val a * 256 ^ N.of_nat (length b) + be_val b.
Proof. unfold be_val at 1. rewrite fold_left_app. fold (be_val a). now rewrite be_val_acc. Qed.

Lemma le_val_app a b : le_val (a ++ b) = le_val a + 256 ^ N.of_nat (length a) * le_val b.
Proof.
  induction a as [|x a IH]; cbn [app le_val length].
  - change (N.of_nat 0) with 0. rewrite N.pow_0_r. lia.
  - rewrite IH, Nat2N.inj_succ, N.pow_succ_r'. ring.
Qed.

Lemma le_val_rev l : le_val (rev l) = be_val l.
Proof.
  induction l as [|b l IH]; [reflexivity|].
  cbn [rev]. rewrite le_val_app, rev_length, IH, be_val_cons. cbn [le_val]. lia.
Qed.

Lemma be_val_rev l : be_val (rev l) = le_val l.
Proof. rewrite <- le_val_rev, rev_involutive. reflexivity. Qed.

Lemma le_val_lt l : le_val l < 256 ^ N.of_nat (length l).
Proof.
  induction l as [|b l IH]; cbn [le_val length].
  - cbn. lia.
  - rewrite Nat2N.inj_succ, N.pow_succ_r'. pose proof (b2n_lt b). lia.
Qed.

Lemma be_val_lt l : be_val l < 256 ^ N.of_nat (length l).
Proof. rewrite <- le_val_rev, <- rev_length. apply le_val_lt. Qed.

(* k-byte little-endian / big-endian encodings (truncating, like Go's PutUintXX) *)
Fixpoint le_bytes (k : nat) (n : N) : list byte :=
  match k with O => [] | S k' => n2b n :: le_bytes k' (N.shiftr n 8) end.

Definition be_bytes (k : nat) (n : N) : list byte := rev (le_bytes k n).

Lemma le_bytes_length k n : length (le_bytes k n) = k.
Proof. revert n; induction k; intro n; cbn; [reflexivity | now rewrite IHk]. Qed.

Lemma be_bytes_length k n : length (be_bytes k n) = k.
Proof. unfold be_bytes. now rewrite rev_length, le_bytes_length. Qed.

Lemma le_val_le_bytes k n : le_val (le_bytes k n) = n mod 256 ^ N.of_nat k.
Proof.
  revert n; induction k as [|k IH]; intro n.
  - cbn. now rewrite N.mod_1_r.
  - cbn [le_bytes le_val]. rewrite IH, b2n_n2b, N.shiftr_div_pow2.
    rewrite Nat2N.inj_succ, N.pow_succ_r'. change (2^8) with 256.
    rewrite N.mod_mul_r by (try apply N.pow_nonzero; lia). lia.
Qed.

Lemma le_val_le_bytes_small k n : n < 256 ^ N.of_nat k -> le_val (le_bytes k n) = n.
Proof. intro H. rewrite le_val_le_bytes. now apply N.mod_small. Qed.

Lemma be_val_be_bytes_small k n : n < 256 ^ N.of_nat k -> be_val (be_bytes k n) = n.
Proof. intro H. unfold be_bytes. rewrite be_val_rev. now apply le_val_le_bytes_small. Qed.

Lemma le_bytes_le_val l : le_bytes (length l) (le_val l) = l.
Proof.
  induction l as [|b l IH]; [reflexivity|].
  cbn [length le_bytes le_val]. f_equal.
  - apply b2n_inj. rewrite b2n_n2b. pose proof (b2n_lt b).
    rewrite (N.mul_comm 256), N.mod_add by lia.
    now apply N.mod_small.
  - rewrite N.shiftr_div_pow2. change (2^8) with 256. pose proof (b2n_lt b).
    rewrite (N.mul_comm 256), N.div_add by lia.
    rewrite (N.div_small (b2n b)) by assumption. now rewrite N.add_0_l.
Qed.

(* strip zeros *)
Fixpoint strip_leading_zeros (l : list byte) : list byte :=
  match l with
  | b :: r => if N.eqb (b2n b) 0 then strip_leading_zeros r else l
  | [] => []
  end.

Definition strip_trailing_zeros (l : list byte) : list byte :=
  rev (strip_leading_zeros (rev l)).

Lemma be_val_strip l : be_val (strip_leading_zeros l) = be_val l.
Proof.
  induction l as [|b l IH]; [reflexivity|].
  cbn [strip_leading_zeros]. destruct (N.eqb_spec (b2n b) 0) as [E|E]; [|reflexivity].
  rewrite IH, be_val_cons, E. lia.
Qed.

Lemma le_val_strip l : le_val (strip_trailing_zeros l) = le_val l.
Proof.
  unfold strip_trailing_zeros. rewrite le_val_rev, be_val_strip, be_val_rev. reflexivity.
Qed.

(* padding *)
Definition zeros (k : nat) : list byte := repeat Byte.x00 k.

Lemma be_val_zeros k : be_val (zeros k) = 0.
Proof.
  induction k as [|k IH]; [reflexivity|].
  unfold zeros in *. cbn [repeat]. rewrite be_val_cons, IH. cbn. lia.
Qed.
Lemma le_val_zeros k : le_val (zeros k) = 0.
Proof. induction k as [|k IH]; [reflexivity|]. unfold zeros in *. cbn [repeat le_val]. rewrite IH. cbn; lia. Qed.

Definition pad_front (k : nat) (l : list byte) : list byte := zeros (k - length l) ++ l.
Definition pad_back (k : nat) (l : list byte) : list byte := l ++ zeros (k - length l).

Lemma be_val_pad_front k l : be_val (pad_front k l) = be_val l.
Proof. unfold pad_front. rewrite be_val_app, be_val_zeros. lia. Qed.
Lemma le_val_pad_back k l : le_val (pad_back k l) = le_val l.
Proof. unfold pad_back. rewrite le_val_app, le_val_zeros. lia. Qed.
