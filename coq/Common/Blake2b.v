(* Common/Blake2b.v — BLAKE2b (RFC 7693) in Gallina, unkeyed and keyed, any digest size 1..64.
   64-bit words are N with masks written out. Used to run the models (trie roots, header
   hashes, BABE secondary author) and as the reference digest for C29. *)
From Common Require Import Bytes.
Local Open Scope N_scope.

Definition mask64 : N := 18446744073709551615.
Definition add64 (a b : N) : N := N.land (a + b) mask64.
Definition rotr64 (x : N) (k : N) : N :=
  N.lor (N.shiftr x k) (N.land (N.shiftl x (64 - k)) mask64).

Definition iv : list N :=
  [ 7640891576956012808; 13503953896175478587; 4354685564936845355; 11912009170470909681;
    5840696475078001361; 11170449401992604703; 2270897969802886507; 6620516959819538809 ].

Definition sigma : list (list nat) :=
  [ [0;1;2;3;4;5;6;7;8;9;10;11;12;13;14;15];
    [14;10;4;8;9;15;13;6;1;12;0;2;11;7;5;3];
    [11;8;12;0;5;2;15;13;10;14;3;6;7;1;9;4];
    [7;9;3;1;13;12;11;14;2;6;5;10;4;0;15;8];
    [9;0;5;7;2;4;10;15;14;1;11;12;6;8;3;13];
    [2;12;6;10;0;11;8;3;4;13;7;5;15;14;1;9];
    [12;5;1;15;14;13;4;10;0;7;6;3;9;2;8;11];
    [13;11;7;14;12;1;3;9;5;0;15;4;8;6;2;10];
    [6;15;14;9;11;3;0;8;12;2;13;7;1;4;10;5];
    [10;2;8;4;7;6;1;5;15;11;9;14;3;12;13;0];
    [0;1;2;3;4;5;6;7;8;9;10;11;12;13;14;15];
    [14;10;4;8;9;15;13;6;1;12;0;2;11;7;5;3] ]%nat.

Definition g (a b c d x y : N) : N * N * N * N :=
  let a := add64 (add64 a b) x in
  let d := rotr64 (N.lxor d a) 32 in
  let c := add64 c d in
  let b := rotr64 (N.lxor b c) 24 in
  let a := add64 (add64 a b) y in
  let d := rotr64 (N.lxor d a) 16 in
  let c := add64 c d in
  let b := rotr64 (N.lxor b c) 63 in
  (a, b, c, d).

Record st16 := mk16 {
  v0 : N; v1 : N; v2 : N; v3 : N; v4 : N; v5 : N; v6 : N; v7 : N;
  v8 : N; v9 : N; v10 : N; v11 : N; v12 : N; v13 : N; v14 : N; v15 : N }.

Definition round (m : list N) (s : list nat) (v : st16) : st16 :=
  let w i := nth (nth i s 0%nat) m 0 in
  let '(a0, b0, c0, d0) := g (v0 v) (v4 v) (v8 v) (v12 v) (w 0%nat) (w 1%nat) in
  let '(a1, b1, c1, d1) := g (v1 v) (v5 v) (v9 v) (v13 v) (w 2%nat) (w 3%nat) in
  let '(a2, b2, c2, d2) := g (v2 v) (v6 v) (v10 v) (v14 v) (w 4%nat) (w 5%nat) in
  let '(a3, b3, c3, d3) := g (v3 v) (v7 v) (v11 v) (v15 v) (w 6%nat) (w 7%nat) in
  let '(a0, b1, c2, d3) := g a0 b1 c2 d3 (w 8%nat) (w 9%nat) in
  let '(a1, b2, c3, d0) := g a1 b2 c3 d0 (w 10%nat) (w 11%nat) in
  let '(a2, b3, c0, d1) := g a2 b3 c0 d1 (w 12%nat) (w 13%nat) in
  let '(a3, b0, c1, d2) := g a3 b0 c1 d2 (w 14%nat) (w 15%nat) in
  mk16 a0 a1 a2 a3 b0 b1 b2 b3 c0 c1 c2 c3 d0 d1 d2 d3.

(* 16 little-endian 64-bit words of a 128-byte block *)
Fixpoint words (k : nat) (b : list byte) : list N :=
  match k with
  | O => []
  | S k' => le_val (firstn 8 b) :: words k' (skipn 8 b)
  end.

Definition compress (h : list N) (block : list byte) (t : N) (last : bool) : list N :=
  let m := words 16 block in
  let hh i := nth i h 0 in
  let ivv i := nth i iv 0 in
  let v := mk16 (hh 0%nat) (hh 1%nat) (hh 2%nat) (hh 3%nat) (hh 4%nat) (hh 5%nat) (hh 6%nat) (hh 7%nat)
                (ivv 0%nat) (ivv 1%nat) (ivv 2%nat) (ivv 3%nat)
                (N.lxor (ivv 4%nat) (N.land t mask64))
                (N.lxor (ivv 5%nat) (N.land (N.shiftr t 64) mask64))
                (if last then N.lxor (ivv 6%nat) mask64 else ivv 6%nat)
                (ivv 7%nat) in
  let v := fold_left (fun v s => round m s v) sigma v in
  [ N.lxor (hh 0%nat) (N.lxor (v0 v) (v8 v)); N.lxor (hh 1%nat) (N.lxor (v1 v) (v9 v));
    N.lxor (hh 2%nat) (N.lxor (v2 v) (v10 v)); N.lxor (hh 3%nat) (N.lxor (v3 v) (v11 v));
    N.lxor (hh 4%nat) (N.lxor (v4 v) (v12 v)); N.lxor (hh 5%nat) (N.lxor (v5 v) (v13 v));
    N.lxor (hh 6%nat) (N.lxor (v6 v) (v14 v)); N.lxor (hh 7%nat) (N.lxor (v7 v) (v15 v)) ].

(* process all blocks; [fuel] bounds the number of 128-byte blocks (length msg / 128 + 1) *)
Fixpoint blocks (fuel : nat) (h : list N) (msg : list byte) (t : N) : list N :=
  match fuel with
  | O => h
  | S fuel' =>
    if (length msg <=? 128)%nat then
      compress h (pad_back 128 msg) (t + N.of_nat (length msg)) true
    else
      blocks fuel' (compress h (firstn 128 msg) (t + 128) false) (skipn 128 msg) (t + 128)
  end.

(* nn = digest length in bytes, key of length kk <= 64 *)
Definition blake2b_keyed (nn : nat) (key msg : list byte) : list byte :=
  let kk := length key in
  let p := N.lxor (N.lxor 16842752 (N.shiftl (N.of_nat kk) 8)) (N.of_nat nn) in
  let h := match iv with x :: r => N.lxor x p :: r | [] => [] end in
  let data := match key with [] => msg | _ => pad_back 128 key ++ msg end in
  let h := blocks (S (length data / 128)) h data 0 in
  firstn nn (flat_map (le_bytes 8) h).

Definition blake2b (nn : nat) (msg : list byte) : list byte := blake2b_keyed nn [] msg.
Definition blake2b_256 (msg : list byte) : list byte := blake2b 32 msg.
Definition blake2b_128 (msg : list byte) : list byte := blake2b 16 msg.

Lemma flat_le_bytes_length (h : list N) : length (flat_map (le_bytes 8) h) = (8 * length h)%nat.
Proof.
  induction h as [|x h IH]; [reflexivity|].
  cbn [flat_map]. rewrite app_length, le_bytes_length, IH. cbn [length]. lia.
Qed.

Lemma firstn_flat_le_bytes_length nn (h : list N) :
  (nn <= 8 * length h)%nat -> length (firstn nn (flat_map (le_bytes 8) h)) = nn.
Proof. intro H. rewrite firstn_length, flat_le_bytes_length. lia. Qed.
