(* Common/Outcome.v — results of modelled Go calls: Go panics and exhausted fuel are explicit. *)
Inductive outcome (A : Type) : Type :=
| Ok (a : A)
| Err (class : nat)        (* an error return; the class is a small per-property enum *)
| Panic                    (* the Go code panics on this input *)
| OutOfFuel.               (* the model's fuel ran out: excluded by a proved bound, or a hang candidate *)
Arguments Ok {A} a.
Arguments Err {A} class.
Arguments Panic {A}.
Arguments OutOfFuel {A}.

Definition obind {A B} (x : outcome A) (f : A -> outcome B) : outcome B :=
  match x with Ok a => f a | Err c => Err c | Panic => Panic | OutOfFuel => OutOfFuel end.
Definition is_ok {A} (x : outcome A) : bool := match x with Ok _ => true | _ => false end.
