(* Common/Dec.v — decimal strings (ASCII digit byte lists) of naturals, via the standard
   library's Decimal.uint so that the print/parse round trip is the stdlib theorem. *)
From Coq Require Import DecimalN Decimal.
From Common Require Import Bytes.
Local Open Scope N_scope.

Fixpoint uint_to_bytes (d : uint) : list byte :=
  match d with
  | Nil => []
  | D0 r => n2b 48 :: uint_to_bytes r | D1 r => n2b 49 :: uint_to_bytes r
  | D2 r => n2b 50 :: uint_to_bytes r | D3 r => n2b 51 :: uint_to_bytes r
  | D4 r => n2b 52 :: uint_to_bytes r | D5 r => n2b 53 :: uint_to_bytes r
  | D6 r => n2b 54 :: uint_to_bytes r | D7 r => n2b 55 :: uint_to_bytes r
  | D8 r => n2b 56 :: uint_to_bytes r | D9 r => n2b 57 :: uint_to_bytes r
  end.

Definition digit_of_byte (b : byte) : option (uint -> uint) :=
  let n := b2n b in
  if n =? 48 then Some D0 else if n =? 49 then Some D1 else if n =? 50 then Some D2 else
  if n =? 51 then Some D3 else if n =? 52 then Some D4 else if n =? 53 then Some D5 else
  if n =? 54 then Some D6 else if n =? 55 then Some D7 else if n =? 56 then Some D8 else
  if n =? 57 then Some D9 else None.

Fixpoint bytes_to_uint (l : list byte) : option uint :=
  match l with
  | [] => Some Nil
  | b :: r => match digit_of_byte b, bytes_to_uint r with
              | Some d, Some u => Some (d u)
              | _, _ => None
              end
  end.

Lemma bytes_to_uint_to_bytes d : bytes_to_uint (uint_to_bytes d) = Some d.
Proof. induction d; cbn [uint_to_bytes bytes_to_uint]; try reflexivity; rewrite IHd; reflexivity. Qed.

(* canonical decimal string of n: "0" for zero, no leading zeros otherwise *)
Definition decimal (n : N) : list byte := uint_to_bytes (N.to_uint n).

(* parse: one or more ASCII digits (leading zeros allowed, as math/big does) *)
Definition parse_decimal (l : list byte) : option N :=
  match l with
  | [] => None
  | _ => option_map N.of_uint (bytes_to_uint l)
  end.

Lemma decimal_nonempty n : decimal n <> [].
Proof.
  unfold decimal. destruct n as [|p]; [cbn; discriminate|].
  intro H. assert (E : bytes_to_uint (uint_to_bytes (N.to_uint (N.pos p))) = Some Nil)
    by (rewrite H; reflexivity).
  rewrite bytes_to_uint_to_bytes in E. injection E as E.
  pose proof (DecimalN.Unsigned.of_to (N.pos p)) as R.
  change (N.to_uint (N.pos p)) with (Pos.to_uint p) in *. rewrite E in R. discriminate.
Qed.

Theorem parse_decimal_decimal n : parse_decimal (decimal n) = Some n.
Proof.
  unfold parse_decimal. pose proof (decimal_nonempty n) as NE.
  destruct (decimal n) eqn:E; [congruence|]. rewrite <- E. unfold decimal.
  rewrite bytes_to_uint_to_bytes. cbn. now rewrite DecimalN.Unsigned.of_to.
Qed.
