(* Trie/Sem.v — L1: the meaning of a trie node.
   lookup (the lookup function without the empty-key quirks), the characterising equations of the
   nested fixpoints, entries as the graph of lookup, strict sortedness of entries. *)
From Common Require Import Bytes Outcome.
From Trie Require Import Nibbles Node Model NibblesProofs.
From Coq Require Import Arith Lia Sorting.Sorted.
Local Open Scope nat_scope.

(* ---------- lookup ---------- *)
Fixpoint lookup (t : tnode) (k : key) {struct t} : option value :=
  match t with
  | Leaf pk v => if key_eqb pk k then Some v else None
  | Branch pk ov cs =>
    if key_eqb pk k then ov
    else if is_prefix pk k then
      (fix go (l : list (option tnode)) (i : nat) {struct l} : option value :=
         match l with
         | [] => None
         | oc :: r =>
           match i with
           | O => match oc with None => None | Some c => lookup c (skipn (S (length pk)) k) end
           | S j => go r j
           end
         end) cs (nth (length pk) k 0)
    else None
  end.
Definition lookup_opt (t : trie) (k : key) : option value :=
  match t with None => None | Some n => lookup n k end.

Lemma lookup_branch pk ov cs k :
  lookup (Branch pk ov cs) k =
  if key_eqb pk k then ov
  else if is_prefix pk k then lookup_opt (child_at cs (nth (length pk) k 0)) (skipn (S (length pk)) k)
  else None.
Proof.
  cbn [lookup]. destruct (key_eqb pk k); auto. destruct (is_prefix pk k); auto.
  generalize (nth (length pk) k 0) as i. unfold child_at.
  induction cs as [|oc r IH]; intros [|j]; simpl; auto.
Qed.

(* lookup of a key below a branch *)
Lemma lookup_branch_child pk ov cs i rest :
  lookup (Branch pk ov cs) (pk ++ i :: rest) = lookup_opt (child_at cs i) rest.
Proof.
  rewrite lookup_branch.
  replace (key_eqb pk (pk ++ i :: rest)) with false.
  - now rewrite is_prefix_app, nth_app_mid, skipn_app_mid.
  - symmetry. apply key_eqb_neq. intros E. apply (f_equal (@length _)) in E.
    rewrite app_length in E; simpl in E; lia.
Qed.
Lemma lookup_branch_self pk ov cs : lookup (Branch pk ov cs) pk = ov.
Proof. now rewrite lookup_branch, key_eqb_refl. Qed.

(* ---------- children helpers ---------- *)
Lemma child_at_set_child_same cs i c : i < length cs -> child_at (set_child cs i c) i = c.
Proof. unfold child_at. revert i; induction cs; intros [|i]; simpl; intros; auto; try lia. apply IHcs; lia. Qed.
Lemma child_at_set_child_other cs i j c : i <> j -> child_at (set_child cs i c) j = child_at cs j.
Proof.
  unfold child_at. revert i j; induction cs as [|x cs IH]; intros [|i] [|j] N; simpl; auto; try congruence.
Qed.
Lemma set_child_length cs i c : length (set_child cs i c) = length cs.
Proof. revert i; induction cs; intros [|i]; simpl; auto. Qed.
Lemma child_at_no_children i : child_at no_children i = None.
Proof.
  unfold child_at, no_children. do 17 (destruct i as [|i]; [reflexivity|]). simpl. now destruct i.
Qed.
Lemma no_children_length : length no_children = 16.
Proof. reflexivity. Qed.
Lemma child_at_oob cs i : length cs <= i -> child_at cs i = None.
Proof. unfold child_at. intros. now apply nth_overflow. Qed.
Lemma set_child_oob cs i c : length cs <= i -> set_child cs i c = cs.
Proof. revert i; induction cs; intros [|i]; simpl; intros; auto; try lia. f_equal. apply IHcs; lia. Qed.
Lemma set_child_same cs i : set_child cs i (child_at cs i) = cs.
Proof. unfold child_at. revert i; induction cs; intros [|i]; simpl; auto. now rewrite IHcs. Qed.
Lemma children_ext (a b : list (option tnode)) :
  length a = length b -> (forall i, child_at a i = child_at b i) -> a = b.
Proof.
  unfold child_at. revert b; induction a as [|x a IH]; intros [|y b] L E; simpl in *; try lia; auto.
  f_equal.
  - apply (E 0).
  - apply IH; [lia|]. intros i. apply (E (S i)).
Qed.
Lemma Forall_child_at (P : tnode -> Prop) cs i c :
  Forall (opt_all P) cs -> child_at cs i = Some c -> P c.
Proof.
  unfold child_at. intros F E. destruct (Nat.lt_ge_cases i (length cs)) as [L|L].
  - rewrite Forall_forall in F. specialize (F (nth i cs None) (nth_In _ _ L)). rewrite E in F. exact F.
  - rewrite nth_overflow in E by lia. discriminate.
Qed.
Lemma Forall_set_child (P : tnode -> Prop) cs i oc :
  Forall (opt_all P) cs -> opt_all P oc -> Forall (opt_all P) (set_child cs i oc).
Proof.
  intros F; revert i; induction F; intros [|i] Hc; simpl; constructor; auto.
Qed.
Lemma Forall_no_children (P : tnode -> Prop) : Forall (opt_all P) no_children.
Proof. unfold no_children. apply Forall_forall. intros x Hx. apply repeat_spec in Hx. now subst. Qed.

(* count_children *)
Lemma count_children_zero cs : count_children cs = 0 <-> forall i, child_at cs i = None.
Proof.
  unfold child_at. induction cs as [|[c|] cs IH]; simpl.
  - split; auto. intros _ i. now destruct i.
  - split; [lia|]. intros H. specialize (H 0). discriminate.
  - rewrite IH. split; intros H i.
    + destruct i; auto.
    + apply (H (S i)).
Qed.
Lemma count_children_pos cs i c : child_at cs i = Some c -> 1 <= count_children cs.
Proof.
  unfold child_at. revert i; induction cs as [|[x|] cs IH]; intros [|i]; simpl; intros E; try discriminate; try lia.
  apply (IH _ E).
Qed.
Lemma count_children_set_none cs i c :
  child_at cs i = Some c -> count_children (set_child cs i None) = count_children cs - 1.
Proof.
  unfold child_at. revert i; induction cs as [|[x|] cs IH]; intros [|i]; simpl; intros E; try discriminate; try lia.
  - rewrite (IH _ E). pose proof (count_children_pos cs i c E). lia.
  - apply (IH _ E).
Qed.
Lemma count_children_set_some cs i c :
  i < length cs -> count_children (set_child cs i (Some c)) =
  count_children cs + (if is_some (child_at cs i) then 0 else 1).
Proof.
  unfold child_at. revert i; induction cs as [|[x|] cs IH]; intros [|i]; simpl; intros L; try lia.
  - rewrite IH; lia.
  - rewrite IH; lia.
Qed.
Lemma count_children_no_children : count_children no_children = 0.
Proof. reflexivity. Qed.

(* first_child *)
Lemma first_child_spec cs s i c :
  first_child cs s = Some (i, c) ->
  s <= i /\ child_at cs (i - s) = Some c /\ forall j, j < i - s -> child_at cs j = None.
Proof.
  unfold child_at. revert s; induction cs as [|[x|] cs IH]; simpl; intros s E; try discriminate.
  - inversion E; subst. rewrite Nat.sub_diag. simpl. repeat split; auto. intros; lia.
  - destruct (IH _ E) as (L & A & B). split; [lia|].
    replace (i - s) with (S (i - S s)) by lia. simpl. split; auto.
    intros [|j] Hj; auto. apply B; lia.
Qed.
Lemma first_child_none cs s : first_child cs s = None -> count_children cs = 0.
Proof. revert s; induction cs as [|[x|] cs IH]; simpl; intros s E; try discriminate; eauto. Qed.
(* exactly one child: every other slot is empty *)
Lemma count_children_one cs i c :
  count_children cs = 1 -> child_at cs i = Some c -> forall j, j <> i -> child_at cs j = None.
Proof.
  unfold child_at. revert i; induction cs as [|[x|] cs IH]; intros [|i]; simpl; intros C E j N; try discriminate.
  - destruct j; [congruence|]. assert (Z : count_children cs = 0) by lia.
    now apply count_children_zero.
  - exfalso. apply count_children_pos in E. lia.
  - destruct j; auto. apply (IH i); auto.
Qed.

(* ---------- entries ---------- *)
(* the nested traversal, named *)
Fixpoint entries_children (f : tnode -> key -> list (key * value)) (q : key)
         (l : list (option tnode)) (i : nat) : list (key * value) :=
  match l with
  | [] => []
  | oc :: r => (match oc with Some c => f c (q ++ [i]) | None => [] end) ++ entries_children f q r (S i)
  end.
Lemma entries_node_branch pk ov cs p :
  entries_node (Branch pk ov cs) p =
  (match ov with Some v => [(p ++ pk, v)] | None => [] end)
    ++ entries_children entries_node (p ++ pk) cs 0.
Proof.
  cbn [entries_node]. f_equal. generalize 0 as i.
  induction cs as [|oc r IH]; intros i; simpl; auto.
  rewrite IH. f_equal. destruct oc; auto. now rewrite <- app_assoc.
Qed.

Lemma in_entries_children f q l s x :
  In x (entries_children f q l s) <->
  exists j c, child_at l j = Some c /\ In x (f c (q ++ [s + j])).
Proof.
  unfold child_at. revert s; induction l as [|oc r IH]; intros s; simpl.
  - split; [tauto|]. intros (j & c & E & _). destruct j; discriminate.
  - rewrite in_app_iff, IH. split.
    + intros [H|(j & c & E & H)].
      * destruct oc as [c|]; [|contradiction]. exists 0, c. rewrite Nat.add_0_r. auto.
      * exists (S j), c. rewrite Nat.add_succ_r. auto.
    + intros (j & c & E & H). destruct j as [|j].
      * left. rewrite E. now rewrite Nat.add_0_r in H.
      * right. exists j, c. rewrite Nat.add_succ_r in H. auto.
Qed.

(* entries is the graph of lookup (shifted by the path prefix) *)
Lemma in_entries_node t : forall p k v,
  In (k, v) (entries_node t p) <-> exists k', k = p ++ k' /\ lookup t k' = Some v.
Proof.
  induction t as [pk lv|pk ov cs IH] using tnode_ind'; intros p k v.
  - simpl. split.
    + intros [E|[]]. inversion E; subst. exists pk. now rewrite key_eqb_refl.
    + intros (k' & -> & H). destruct (key_eqb_spec pk k'); [|discriminate].
      inversion H; subst. auto.
  - rewrite entries_node_branch, in_app_iff, in_entries_children. split.
    + intros [H|(j & c & E & H)].
      * destruct ov as [bv|]; [|contradiction]. destruct H as [H|[]]. inversion H; subst.
        exists pk. now rewrite lookup_branch_self.
      * pose proof (Forall_child_at _ _ _ _ IH E) as IHc. simpl in H.
        apply IHc in H as (k' & -> & H).
        exists (pk ++ j :: k'). split; [now rewrite <- !app_assoc|].
        rewrite lookup_branch_child, E. exact H.
    + intros (k' & -> & H). rewrite lookup_branch in H.
      destruct (key_eqb_spec pk k') as [->|N].
      * left. subst. now left.
      * destruct (is_prefix pk k') eqn:P; [|discriminate].
        right. set (i := nth (length pk) k' 0) in *.
        destruct (child_at cs i) as [c|] eqn:E; [|discriminate]. simpl in H.
        exists i, c. split; auto. simpl.
        apply (Forall_child_at _ _ _ _ IH E).
        exists (skipn (S (length pk)) k'). split; auto.
        assert (L : length pk < length k').
        { pose proof (is_prefix_length _ _ P). destruct (Nat.eq_dec (length pk) (length k')); [|lia].
          exfalso; apply N. now apply is_prefix_same_length. }
        rewrite (is_prefix_split pk k' P L) at 1. subst i. now rewrite <- !app_assoc.
Qed.

Lemma in_entries t k v : In (k, v) (entries t) <-> lookup_opt t k = Some v.
Proof.
  destruct t as [n|]; simpl; [|split; [tauto|discriminate]].
  rewrite in_entries_node. split.
  - intros (k' & -> & H). exact H.
  - intros H. now exists k.
Qed.

(* ---------- sortedness ---------- *)
Definition key_lt (a b : key * value) : Prop := key_compare (fst a) (fst b) = Lt.
Definition sorted (l : list (key * value)) : Prop := StronglySorted key_lt l.

Lemma sorted_app a b :
  sorted a -> sorted b -> (forall x y, In x a -> In y b -> key_lt x y) -> sorted (a ++ b).
Proof.
  intros Sa Sb H. induction Sa as [|x a Sa IH Fx]; simpl; auto.
  constructor.
  - apply IH. intros; apply H; simpl; auto.
  - apply Forall_app. split; auto. apply Forall_forall. intros y Hy. apply H; simpl; auto.
Qed.

Lemma entries_node_prefix t p x : In x (entries_node t p) -> exists s, fst x = p ++ s.
Proof. destruct x as [k v]. intros H. apply in_entries_node in H as (k' & -> & _). now exists k'. Qed.

Lemma sorted_entries_children (f : tnode -> key -> list (key * value)) q l s :
  (forall c j, child_at l j = Some c -> sorted (f c (q ++ [s + j]))) ->
  (forall c j x, child_at l j = Some c -> In x (f c (q ++ [s + j])) -> exists r, fst x = q ++ [s + j] ++ r) ->
  sorted (entries_children f q l s).
Proof.
  unfold child_at. revert s; induction l as [|oc r IH]; intros s HS HP; simpl; [constructor|].
  apply sorted_app.
  - destruct oc as [c|]; [|constructor]. specialize (HS c 0 eq_refl). now rewrite Nat.add_0_r in HS.
  - apply IH.
    + intros c j E. specialize (HS c (S j) E). now replace (s + S j) with (S s + j) in HS by lia.
    + intros c j x E I. replace (S s + j) with (s + S j) in * by lia. apply (HP c (S j) x E I).
  - intros x y Hx Hy. destruct oc as [c|]; [|contradiction].
    destruct (HP c 0 x eq_refl) as [r1 E1]; [now rewrite Nat.add_0_r|].
    apply in_entries_children in Hy as (j & c' & E & Hy).
    replace (S s + j) with (s + S j) in Hy by lia.
    destruct (HP c' (S j) y E Hy) as [r2 E2].
    unfold key_lt. rewrite E1, E2. simpl. apply key_compare_diverge. lia.
Qed.

Lemma sorted_entries_node t : forall p, sorted (entries_node t p).
Proof.
  induction t as [pk lv|pk ov cs IH] using tnode_ind'; intros p.
  - simpl. repeat constructor.
  - rewrite entries_node_branch. apply sorted_app.
    + destruct ov; repeat constructor.
    + apply sorted_entries_children.
      * intros c j E. apply (Forall_child_at _ _ _ _ IH E).
      * intros c j x E I. apply entries_node_prefix in I as [s ->]. exists s.
        now rewrite <- !app_assoc.
    + intros x y Hx Hy. destruct ov as [bv|]; [|contradiction]. destruct Hx as [<-|[]].
      apply in_entries_children in Hy as (j & c & E & Hy).
      apply entries_node_prefix in Hy as [s Es]. unfold key_lt. rewrite Es. simpl.
      rewrite <- app_assoc. simpl. apply key_compare_prefix_lt.
Qed.

Lemma sorted_entries t : sorted (entries t).
Proof. destruct t; simpl; [apply sorted_entries_node|constructor]. Qed.

(* two strictly sorted lists with the same elements are equal *)
Lemma key_lt_irrefl x : ~ key_lt x x.
Proof. unfold key_lt. rewrite key_compare_refl. discriminate. Qed.
Lemma key_lt_trans x y z : key_lt x y -> key_lt y z -> key_lt x z.
Proof. unfold key_lt. apply key_compare_lt_trans. Qed.

Lemma sorted_ext (a b : list (key * value)) :
  sorted a -> sorted b -> (forall x, In x a <-> In x b) -> a = b.
Proof.
  intros Sa; revert b; induction Sa as [|x a Sa IH Fx]; intros b Sb E.
  - destruct b as [|y b]; auto. exfalso. apply (E y). simpl; auto.
  - destruct Sb as [|y b Sb Fy].
    + exfalso. apply (E x). simpl; auto.
    + assert (x = y).
      { destruct (proj1 (E x) (or_introl eq_refl)) as [->|Hx]; auto.
        destruct (proj2 (E y) (or_introl eq_refl)) as [->|Hy]; auto.
        rewrite Forall_forall in Fx, Fy. exfalso.
        apply (key_lt_irrefl x). eapply key_lt_trans; [apply Fx, Hy|apply Fy, Hx]. }
      subst y. f_equal. apply IH; auto. intros z. split; intros Hz.
      * destruct (proj1 (E z) (or_intror Hz)) as [->|]; auto.
        rewrite Forall_forall in Fx. exfalso. apply (key_lt_irrefl z), Fx, Hz.
      * destruct (proj2 (E z) (or_intror Hz)) as [->|]; auto.
        rewrite Forall_forall in Fy. exfalso. apply (key_lt_irrefl z), Fy, Hz.
Qed.

(* a strictly sorted list is functional *)
Lemma sorted_functional l k v1 v2 : sorted l -> In (k, v1) l -> In (k, v2) l -> v1 = v2.
Proof.
  induction 1 as [|x l S IH F]; simpl; [tauto|]. rewrite Forall_forall in F.
  intros [->|H1] [E|H2].
  - congruence.
  - exfalso. apply (key_lt_irrefl (k, v1)). specialize (F _ H2). exact F.
  - subst x. exfalso. apply (key_lt_irrefl (k, v2)). specialize (F _ H1). exact F.
  - auto.
Qed.
