(* Trie/LimitProofs.v — deleteNodesLimit / clearPrefixLimit.
   Outside the order guard (a matching key that is a proper prefix of the (limit+1)-th matching key
   among the first [limit]) a limited clear removes exactly the [limit] smallest matching keys. *)
From Common Require Import Bytes Outcome.
From Trie Require Import Nibbles Node Encode Model Spec NibblesProofs Sem InsertProofs DeleteProofs BuildProofs MapProofs QueryProofs ClearProofs.
From Coq Require Import Arith Lia ZifyN ZifyNat Sorting.Sorted.
Local Open Scope nat_scope.

(* ---------- the loop of deleteNodesLimit, named ---------- *)
Fixpoint dnl_loop (pk : key) (ov : option value) (done rest : list (option tnode)) (limit vd : N)
  : option tnode * N :=
  match rest with
  | [] => (None, if is_some ov then (vd + 1)%N else vd)
  | None :: r => dnl_loop pk ov (done ++ [None]) r limit vd
  | Some c :: r =>
    let '(nc, nd) := delete_nodes_limit c limit in
    let cs' := done ++ nc :: r in
    let limit' := (limit - nd)%N in
    let vd' := (vd + nd)%N in
    if (count_children cs' =? 0) && is_none ov then (None, vd')
    else if (limit' =? 0)%N then (Some (handle_deletion pk ov cs' pk), vd')
    else dnl_loop pk ov (done ++ [nc]) r limit' vd'
  end.

Lemma delete_nodes_limit_leaf pk v limit :
  delete_nodes_limit (Leaf pk v) limit = if (limit =? 0)%N then (Some (Leaf pk v), 0%N) else (None, 1%N).
Proof. reflexivity. Qed.
Lemma delete_nodes_limit_branch pk ov cs limit :
  delete_nodes_limit (Branch pk ov cs) limit =
  if (limit =? 0)%N then (Some (Branch pk ov cs), 0%N) else dnl_loop pk ov [] cs limit 0%N.
Proof.
  cbn [delete_nodes_limit]. destruct (limit =? 0)%N; auto.
  assert (G : forall rest done l vd,
    (fix loop (done rest : list (option tnode)) (limit vd : N) {struct rest} : option tnode * N :=
       match rest with
       | [] => (None, if is_some ov then (vd + 1)%N else vd)
       | None :: r => loop (done ++ [None]) r limit vd
       | Some c :: r =>
         let '(nc, nd) := delete_nodes_limit c limit in
         let cs' := done ++ nc :: r in
         let limit' := (limit - nd)%N in
         let vd' := (vd + nd)%N in
         if (count_children cs' =? 0)%nat && is_none ov then (None, vd')
         else if (limit' =? 0)%N then (Some (handle_deletion pk ov cs' pk), vd')
         else loop (done ++ [nc]) r limit' vd'
       end) done rest l vd = dnl_loop pk ov done rest l vd).
  { induction rest as [|oc r IH]; intros done l vd; cbn [dnl_loop]; auto.
    destruct oc as [c|]; auto.
    destruct (delete_nodes_limit c l) as [nc nd]. cbv zeta.
    destruct ((count_children (done ++ nc :: r) =? 0) && is_none ov); auto.
    destruct (l - nd =? 0)%N; auto. }
  apply G.
Qed.

(* ---------- sizes ---------- *)
Definition E (t : tnode) : list (key * value) := entries_node t [].
Definition size (t : tnode) : nat := length (E t).
Fixpoint total (l : list (option tnode)) : nat :=
  match l with
  | [] => 0
  | None :: r => total r
  | Some c :: r => size c + total r
  end.
Lemma child_entries_length l s : length (child_entries l s) = total l.
Proof.
  revert s; induction l as [|[c|] r IH]; intros s; simpl; auto.
  rewrite app_length, IH. unfold shift. now rewrite map_length.
Qed.
Lemma size_pos t : Canon t -> 1 <= size t.
Proof.
  intros C. unfold size, E. destruct (entries_nonempty t C) as (r & v & H).
  destruct (entries_node t []); [contradiction|simpl; lia].
Qed.
Lemma total_zero_count l : Forall (opt_all Canon) l -> (total l = 0 <-> count_children l = 0).
Proof.
  induction 1 as [|[c|] r Hc F IH]; simpl; try tauto.
  simpl in Hc. pose proof (size_pos c Hc). split; lia.
Qed.

Definition all_none (l : list (option tnode)) : Prop := forall i, child_at l i = None.
Lemma all_none_nil : all_none [].
Proof. intros i. unfold child_at. now destruct i. Qed.
Lemma all_none_snoc l : all_none l -> all_none (l ++ [None]).
Proof.
  unfold all_none, child_at. intros H i. destruct (Nat.lt_ge_cases i (length l)).
  - rewrite app_nth1 by lia. apply H.
  - rewrite app_nth2 by lia. destruct (i - length l) as [|[|j]]; reflexivity.
Qed.
Lemma count_children_app a b : count_children (a ++ b) = count_children a + count_children b.
Proof. induction a as [|[x|] a IH]; simpl; auto. Qed.
Lemma all_none_count l : all_none l -> count_children l = 0.
Proof. intros H. now apply count_children_zero. Qed.
Lemma child_entries_app a b s : child_entries (a ++ b) s = child_entries a s ++ child_entries b (s + length a).
Proof.
  revert s; induction a as [|oc a IH]; intros s; simpl.
  - now rewrite Nat.add_0_r.
  - rewrite IH, <- app_assoc. do 3 f_equal. lia.
Qed.
Lemma all_none_child_entries l s : all_none l -> child_entries l s = [].
Proof.
  revert s; induction l as [|oc l IH]; intros s H; simpl; auto.
  assert (oc = None) by (apply (H 0)). subst. simpl. apply IH. intros i. apply (H (S i)).
Qed.

(* ---------- the order guard on a sorted key list ---------- *)
Definition order_guard (L : list key) (d : nat) : bool :=
  (d <? length L) && existsb (fun k => is_prefix k (nth d L [])) (firstn d L).

Lemma order_guard_ge L d : length L <= d -> order_guard L d = false.
Proof. intros H. unfold order_guard. replace (d <? length L) with false; auto. symmetry. apply Nat.ltb_ge. lia. Qed.

Lemma existsb_false_app {A} (f : A -> bool) a b :
  existsb f (a ++ b) = false <-> existsb f a = false /\ existsb f b = false.
Proof. rewrite existsb_app. apply orb_false_iff. Qed.

(* stripping a common first part *)
Lemma order_guard_map_app q L d :
  order_guard (map (app q) L) d = order_guard L d.
Proof.
  unfold order_guard. rewrite map_length. destruct (Nat.ltb_spec d (length L)) as [Ld|Ld].
  2:{ assert (X : (d <? length L) = false) by (apply Nat.ltb_ge; lia). unfold key in *. rewrite X. reflexivity. }
  assert (X : (d <? length L) = true) by (apply Nat.ltb_lt; lia). unfold key in *. rewrite X.
  cbn [andb].
  rewrite (nth_indep _ [] (q ++ [])) by (rewrite map_length; lia).
  rewrite (map_nth (app q) L [] d). rewrite firstn_map.
  induction (firstn d L) as [|x l IH]; simpl; auto. now rewrite is_prefix_app_inv, IH.
Qed.

(* guard inside the first block *)
Lemma order_guard_app_l A B d : d < length A -> order_guard (A ++ B) d = order_guard A d.
Proof.
  intros H. unfold order_guard. rewrite app_length.
  replace (d <? length A + length B) with true by (symmetry; apply Nat.ltb_lt; lia).
  replace (d <? length A) with true by (symmetry; apply Nat.ltb_lt; lia).
  rewrite app_nth1 by lia. rewrite firstn_app. replace (d - length A) with 0 by lia.
  simpl. now rewrite app_nil_r.
Qed.
(* guard in the second block implies guard on the whole *)
Lemma order_guard_app_r A B d : length A <= d ->
  order_guard (A ++ B) d = false -> order_guard B (d - length A) = false.
Proof.
  intros H. unfold order_guard. rewrite app_length.
  destruct (Nat.ltb_spec (d - length A) (length B)) as [L1|L1]; auto.
  replace (d <? length A + length B) with true by (symmetry; apply Nat.ltb_lt; lia).
  simpl. rewrite app_nth2 by lia. rewrite firstn_app, firstn_all2 by lia.
  intros G. apply existsb_false_app in G. tauto.
Qed.

(* ---------- deleteNodesLimit removes the [limit] smallest keys of the subtree ---------- *)
Definition dnl_ok (t : tnode) : Prop :=
  forall limit, 0 < limit -> order_guard (map fst (E t)) limit = false ->
    N.to_nat (snd (delete_nodes_limit t (N.of_nat limit))) = Nat.min limit (size t) /\
    Canon_opt (fst (delete_nodes_limit t (N.of_nat limit))) /\
    entries (fst (delete_nodes_limit t (N.of_nat limit))) = skipn limit (E t).

Lemma entries_nil_none (t : trie) : Canon_opt t -> entries t = [] -> t = None.
Proof.
  destruct t as [n|]; auto. simpl. intros C H. destruct (entries_nonempty n C) as (r & v & I).
  rewrite H in I. contradiction.
Qed.

Lemma dnl_ok_all t limit : Canon t -> dnl_ok t -> 0 < limit -> size t <= limit ->
  delete_nodes_limit t (N.of_nat limit) = (None, N.of_nat (size t)).
Proof.
  intros C H L1 L2. destruct (H limit L1) as (A & B & D).
  { apply order_guard_ge. rewrite map_length. exact L2. }
  destruct (delete_nodes_limit t (N.of_nat limit)) as [nc nd]. cbn [fst snd] in *.
  f_equal.
  - apply entries_nil_none; auto. rewrite D. apply skipn_all2. exact L2.
  - lia.
Qed.

Lemma Forall_all_none (P : tnode -> Prop) l : all_none l -> Forall (opt_all P) l.
Proof.
  intros H. apply Forall_opt_all_child_at. intros i c E. rewrite H in E. discriminate.
Qed.

Lemma dnl_loop_all pk ov : forall rest done limit vd,
  all_none done -> Forall (opt_all Canon) rest -> Forall (opt_all dnl_ok) rest ->
  0 < limit -> total rest + (if is_some ov then 1 else 0) <= limit ->
  dnl_loop pk ov done rest (N.of_nat limit) vd =
  (None, (vd + N.of_nat (total rest + (if is_some ov then 1 else 0)))%N).
Proof.
  induction rest as [|oc r IH]; intros done limit vd AN FC FD L1 L2; cbn [dnl_loop total].
  - f_equal. destruct ov; simpl; lia.
  - inversion FC; subst. inversion FD; subst. destruct oc as [c|]; cbn [total] in *.
    + simpl in H1, H3. pose proof (size_pos c H1) as Sp.
      rewrite (dnl_ok_all c limit H1 H3 L1) by lia.
      rewrite count_children_app, (all_none_count done AN). cbn [count_children plus].
      destruct ((count_children r =? 0) && is_none ov) eqn:T.
      * apply andb_true_iff in T as [T1 T2]. apply Nat.eqb_eq in T1.
        apply (total_zero_count r H2) in T1. destruct ov; [discriminate|]. f_equal. simpl. lia.
      * destruct (N.eqb_spec (N.of_nat limit - N.of_nat (size c)) 0) as [Z|Z].
        -- exfalso. assert (total r = 0 /\ is_some ov = false) as [Z1 Z2] by (destruct ov; simpl in *; lia).
           apply (total_zero_count r H2) in Z1. rewrite Z1 in T. destruct ov; simpl in *; discriminate.
        -- replace (N.of_nat limit - N.of_nat (size c))%N with (N.of_nat (limit - size c)) by lia.
           rewrite IH; auto; try lia.
           ++ f_equal. lia.
           ++ now apply all_none_snoc.
    + apply IH; auto. now apply all_none_snoc.
Qed.

Lemma skipn_app_le {A} n (a b : list A) : n <= length a -> skipn n (a ++ b) = skipn n a ++ b.
Proof. intros H. rewrite skipn_app. replace (n - length a) with 0 by lia. reflexivity. Qed.
Lemma skipn_app_ge {A} n (a b : list A) : length a <= n -> skipn n (a ++ b) = skipn (n - length a) b.
Proof. intros H. rewrite skipn_app, skipn_all2 by lia. reflexivity. Qed.
Lemma skipn_shift q n m : skipn n (shift q m) = shift q (skipn n m).
Proof. unfold shift. now rewrite skipn_map. Qed.
Lemma map_fst_shift q m : map fst (shift q m) = map (app q) (map fst m).
Proof. unfold shift. rewrite !map_map. reflexivity. Qed.
Lemma shift_length q m : length (shift q m) = length m.
Proof. unfold shift. apply map_length. Qed.

(* lookup-equal nodes have the same entries *)
Lemma entries_lookup_ext t1 t2 : (forall k, lookup t1 k = lookup t2 k) -> E t1 = E t2.
Proof.
  intros H. unfold E. apply sorted_ext; try apply sorted_entries_node.
  intros [k v]. rewrite !in_entries_node. split; intros (k' & -> & L); exists k'; split; auto; congruence.
Qed.

Lemma E_branch pk ov cs :
  E (Branch pk ov cs) = shift pk ((match ov with Some v => [([], v)] | None => [] end) ++ child_entries cs 0).
Proof. apply entries_branch_explicit. Qed.

Lemma dnl_loop_partial pk : forall rest done limit vd,
  all_none done -> length done + length rest = 16 -> nibbles_ok pk ->
  Forall (opt_all Canon) rest -> Forall (opt_all dnl_ok) rest ->
  0 < limit -> limit < total rest ->
  order_guard (map fst (child_entries rest (length done))) limit = false ->
  snd (dnl_loop pk None done rest (N.of_nat limit) vd) = (vd + N.of_nat limit)%N /\
  Canon_opt (fst (dnl_loop pk None done rest (N.of_nat limit) vd)) /\
  entries (fst (dnl_loop pk None done rest (N.of_nat limit) vd)) =
    shift pk (skipn limit (child_entries rest (length done))).
Proof.
  induction rest as [|oc r IH]; intros done limit vd AN Len Hpk FC FD L1 L2 G; cbn [total] in L2; [lia|].
  inversion FC; subst. inversion FD; subst. destruct oc as [c|]; cbn [dnl_loop total child_entries] in *.
  - simpl in H1, H3. pose proof (size_pos c H1) as Sp. set (s := length done) in *.
    rewrite map_app, map_fst_shift in G.
    (* the result when the limit runs out at this child *)
    assert (Stop : forall nc, Canon_opt nc -> 1 <= count_children (done ++ nc :: r) ->
              Canon (handle_deletion pk None (done ++ nc :: r) pk) /\
              entries (Some (handle_deletion pk None (done ++ nc :: r) pk)) =
              shift pk (match nc with Some c' => shift [s] (E c') | None => [] end ++ child_entries r (S s))).
    { intros nc Cn Cnt.
      destruct (handle_deletion_spec pk None (done ++ nc :: r) pk Hpk) as [Hc Hl].
      - rewrite app_length. simpl. simpl in Len. lia.
      - apply Forall_app. split; [now apply Forall_all_none|]. constructor; auto.
      - unfold occupants. simpl. lia.
      - apply is_prefix_refl.
      - split; auto. cbn [entries]. fold (E (handle_deletion pk None (done ++ nc :: r) pk)).
        rewrite (entries_lookup_ext _ _ Hl), E_branch. cbn [app].
        rewrite child_entries_app, (all_none_child_entries done 0 AN). cbn [app child_entries plus].
        fold s. destruct nc; reflexivity. }
    destruct (Nat.lt_trichotomy limit (size c)) as [Lt|[Eq|Gt]].
    + (* the limit runs out inside this child *)
      assert (Gc : order_guard (map fst (E c)) limit = false).
      { rewrite <- (order_guard_map_app [s]).
        rewrite <- (order_guard_app_l _ (map fst (child_entries r (S s)))); auto.
        rewrite !map_length. exact Lt. }
      destruct (H3 limit L1 Gc) as (A & B & D).
      destruct (delete_nodes_limit c (N.of_nat limit)) as [nc nd]. cbn [fst snd] in *.
      assert (Nd : nd = N.of_nat limit) by lia. subst nd.
      destruct nc as [c'|].
      2:{ simpl in D. symmetry in D. apply (f_equal (@length _)) in D. rewrite skipn_length in D.
          unfold size in Lt. simpl in D. lia. }
      rewrite count_children_app. cbn [count_children].
      replace (count_children done + S (count_children r) =? 0) with false by (symmetry; apply Nat.eqb_neq; lia).
      cbn [andb]. rewrite N.sub_diag. cbn [N.eqb fst snd].
      destruct (Stop (Some c') B) as [Hc He].
      { rewrite count_children_app. simpl. lia. }
      split; [reflexivity|]. split; [exact Hc|]. etransitivity; [exact He|]. f_equal.
      rewrite skipn_app_le by (rewrite shift_length; unfold size, E in *; lia).
      rewrite skipn_shift. simpl in D. unfold E at 1. rewrite D. reflexivity.
    + (* this child goes completely and the limit is used up *)
      rewrite (dnl_ok_all c limit H1 H3 L1) by lia.
      assert (Cr : 1 <= count_children r).
      { destruct (Nat.eq_dec (count_children r) 0) as [Z|Z]; [|lia].
        apply (total_zero_count r H2) in Z. lia. }
      rewrite count_children_app, (all_none_count done AN). cbn [count_children plus].
      replace (count_children r =? 0) with false by (symmetry; apply Nat.eqb_neq; lia).
      cbn [andb]. replace (N.of_nat limit - N.of_nat (size c))%N with 0%N by lia. cbn [N.eqb fst snd].
      destruct (Stop None I) as [Hc He].
      { rewrite count_children_app. simpl. lia. }
      split; [lia|]. split; [exact Hc|]. etransitivity; [exact He|]. f_equal. cbn [app].
      rewrite skipn_app_ge by (rewrite shift_length; unfold size, E in *; lia).
      rewrite shift_length. replace (limit - length (entries_node c [])) with 0 by (unfold size, E in *; lia). reflexivity.
    + (* this child goes completely, continue with the rest *)
      rewrite (dnl_ok_all c limit H1 H3 L1) by lia.
      assert (Cr : 1 <= count_children r).
      { destruct (Nat.eq_dec (count_children r) 0) as [Z|Z]; [|lia].
        apply (total_zero_count r H2) in Z. lia. }
      rewrite count_children_app, (all_none_count done AN). cbn [count_children plus].
      replace (count_children r =? 0) with false by (symmetry; apply Nat.eqb_neq; lia).
      cbn [andb].
      replace (N.of_nat limit - N.of_nat (size c) =? 0)%N with false by (symmetry; apply N.eqb_neq; lia).
      replace (N.of_nat limit - N.of_nat (size c))%N with (N.of_nat (limit - size c)) by lia.
      destruct (IH (done ++ [None]) (limit - size c) (vd + N.of_nat (size c))%N) as (A & B & D); auto.
      * now apply all_none_snoc.
      * rewrite app_length. simpl in *. lia.
      * lia.
      * lia.
      * rewrite app_length. simpl. replace (length done + 1) with (S s) by (unfold s; lia).
        apply order_guard_app_r in G; [|rewrite !map_length; unfold size, E in *; lia].
        rewrite !map_length in G. exact G.
      * rewrite app_length in D. simpl in D. replace (length done + 1) with (S s) in D by (unfold s; lia).
        split; [rewrite A; lia|]. split; [exact B|]. rewrite D. f_equal.
        rewrite skipn_app_ge by (rewrite shift_length; unfold size, E in *; lia).
        now rewrite shift_length.
  - (* an empty slot *)
    destruct (IH (done ++ [None]) limit vd) as (A & B & D); auto.
    + now apply all_none_snoc.
    + rewrite app_length. simpl in *. lia.
    + rewrite app_length. simpl. replace (length done + 1) with (S (length done)) by lia. exact G.
    + rewrite app_length in D. simpl in D. replace (length done + 1) with (S (length done)) in D by lia.
      auto.
Qed.

Theorem dnl_correct t : Canon t -> dnl_ok t.
Proof.
  induction t as [pk lv|pk ov cs IH] using tnode_ind'; intros C limit L1 G.
  - rewrite delete_nodes_limit_leaf.
    replace (N.of_nat limit =? 0)%N with false by (symmetry; apply N.eqb_neq; lia).
    cbn [fst snd]. unfold size, E. simpl. split; [lia|]. split; [exact I|].
    destruct limit as [|l]; [lia|]. simpl. now destruct l.
  - pose proof C as C0. apply Canon_branch_inv in C as (Hpk & L & F & C1 & C2).
    assert (FD : Forall (opt_all dnl_ok) cs).
    { apply Forall_opt_all_child_at. intros i c Ec.
      apply (Forall_child_at _ _ _ _ IH Ec). apply (Forall_child_at _ _ _ _ F Ec). }
    rewrite delete_nodes_limit_branch.
    replace (N.of_nat limit =? 0)%N with false by (symmetry; apply N.eqb_neq; lia).
    assert (Sz : size (Branch pk ov cs) = total cs + (if is_some ov then 1 else 0)).
    { unfold size. rewrite E_branch, shift_length, app_length, child_entries_length. destruct ov; simpl; lia. }
    destruct (Nat.le_gt_cases (size (Branch pk ov cs)) limit) as [Ge|Lt].
    + rewrite (dnl_loop_all pk ov cs [] limit 0%N all_none_nil F FD L1) by lia.
      cbn [fst snd]. split; [lia|]. split; [exact I|]. simpl. symmetry. apply skipn_all2. exact Ge.
    + destruct ov as [bv|].
      * (* a branch value and limit < size: the guard holds *)
        exfalso. rewrite E_branch, map_fst_shift, order_guard_map_app in G.
        unfold order_guard in G. cbn [app map fst] in G.
        unfold size in Lt. rewrite E_branch, shift_length in Lt. cbn [app] in Lt.
        cbn [length] in G, Lt. rewrite map_length in G.
        replace (limit <? S (length (child_entries cs 0))) with true in G by (symmetry; apply Nat.ltb_lt; lia).
        destruct limit as [|l]; [lia|]. cbn [andb firstn existsb is_prefix orb] in G. discriminate.
      * simpl in Sz.
        rewrite E_branch, map_fst_shift, order_guard_map_app in G. cbn [app] in G.
        destruct (dnl_loop_partial pk cs [] limit 0%N all_none_nil) as (A & B & D); auto; try lia.
        split; [rewrite A; lia|]. split; [exact B|]. rewrite D, E_branch. cbn [app length].
        now rewrite skipn_shift.
Qed.

(* ---------- clearPrefixLimit at the nibble level ---------- *)
(* remove the first n elements that satisfy f *)
Fixpoint remove_first {A} (n : nat) (f : A -> bool) (l : list A) : list A :=
  match l with
  | [] => []
  | x :: r => if f x then (match n with O => l | S n' => remove_first n' f r end)
              else x :: remove_first n f r
  end.

Lemma remove_first_none {A} n (f : A -> bool) l : (forall x, In x l -> f x = false) -> remove_first n f l = l.
Proof.
  induction l as [|x l IH]; intros H; simpl; auto. rewrite (H x) by (simpl; auto).
  f_equal. apply IH. intros; apply H; simpl; auto.
Qed.
Lemma remove_first_all {A} n (f : A -> bool) l : (forall x, In x l -> f x = true) -> remove_first n f l = skipn n l.
Proof.
  revert n; induction l as [|x l IH]; intros n H; simpl.
  - now destruct n.
  - rewrite (H x) by (simpl; auto). destruct n; auto. apply IH. intros; apply H; simpl; auto.
Qed.
Lemma remove_first_app_l {A} n (f : A -> bool) a b :
  (forall x, In x a -> f x = false) -> remove_first n f (a ++ b) = a ++ remove_first n f b.
Proof.
  induction a as [|x a IH]; intros H; simpl; auto. rewrite (H x) by (simpl; auto).
  f_equal. apply IH. intros; apply H; simpl; auto.
Qed.
Lemma remove_first_app_r {A} n (f : A -> bool) a b :
  (forall x, In x b -> f x = false) -> remove_first n f (a ++ b) = remove_first n f a ++ b.
Proof.
  revert n; induction a as [|x a IH]; intros n H; simpl.
  - now apply remove_first_none.
  - destruct (f x).
    + destruct n; auto.
    + simpl. now rewrite IH.
Qed.
Lemma remove_first_zero_nomatch {A} (f : A -> bool) l : remove_first 0 f l = l.
Proof. induction l as [|x l IH]; simpl; auto. destruct (f x); auto. now rewrite IH. Qed.
Lemma remove_first_map {A B} n (g : A -> B) (f : B -> bool) (f' : A -> bool) l :
  (forall x, f (g x) = f' x) -> remove_first n f (map g l) = map g (remove_first n f' l).
Proof.
  intros H. revert n; induction l as [|x l IH]; intros n; simpl; auto. rewrite H.
  destruct (f' x).
  - destruct n; auto.
  - simpl. now rewrite IH.
Qed.
Lemma filter_app_none {A} (f : A -> bool) a : (forall x, In x a -> f x = false) -> filter f a = [].
Proof. apply filter_none. Qed.

(* the entries of a branch around the block of one child *)
Lemma child_entries_split cs ci s :
  child_entries cs s =
  child_entries (firstn ci cs) s
    ++ (match child_at cs ci with Some c => shift [s + ci] (E c) | None => [] end)
    ++ child_entries (skipn (S ci) cs) (s + S ci).
Proof.
  unfold child_at. revert ci s; induction cs as [|oc r IH]; intros ci s; simpl.
  - destruct ci; reflexivity.
  - destruct ci as [|ci]; simpl.
    + rewrite Nat.add_0_r. replace (s + 1) with (S s) by lia. reflexivity.
    + rewrite (IH ci (S s)), <- app_assoc.
      replace (S s + ci) with (s + S ci) by lia. replace (S s + S ci) with (s + S (S ci)) by lia. reflexivity.
Qed.
Lemma firstn_set_child cs ci x : firstn ci (set_child cs ci x) = firstn ci cs.
Proof. revert ci; induction cs as [|oc r IH]; intros [|ci]; simpl; auto. now rewrite IH. Qed.
Lemma skipn_set_child cs ci x : skipn (S ci) (set_child cs ci x) = skipn (S ci) cs.
Proof. revert ci; induction cs as [|oc r IH]; intros [|ci]; simpl; auto. apply IH. Qed.

Definition before_block (ov : option value) (cs : list (option tnode)) (ci : nat) : list (key * value) :=
  (match ov with Some v => [([], v)] | None => [] end) ++ child_entries (firstn ci cs) 0.
Definition after_block (cs : list (option tnode)) (ci : nat) : list (key * value) :=
  child_entries (skipn (S ci) cs) (S ci).

Lemma E_branch_block pk ov cs ci nc : ci < length cs ->
  E (Branch pk ov (set_child cs ci nc)) =
  shift pk (before_block ov cs ci) ++ shift (pk ++ [ci]) (entries nc) ++ shift pk (after_block cs ci).
Proof.
  intros L. rewrite E_branch. unfold before_block, after_block.
  rewrite (child_entries_split (set_child cs ci nc) ci 0), firstn_set_child, skipn_set_child.
  rewrite child_at_set_child_same by exact L. cbn [plus].
  rewrite !shift_app, <- !app_assoc. do 2 f_equal.
  destruct nc as [c|]; simpl; auto. now rewrite shift_shift.
Qed.
Lemma E_branch_block_same pk ov cs ci :
  E (Branch pk ov cs) =
  shift pk (before_block ov cs ci) ++ shift (pk ++ [ci]) (entries (child_at cs ci)) ++ shift pk (after_block cs ci).
Proof.
  destruct (Nat.lt_ge_cases ci (length cs)) as [L|L].
  - rewrite <- (E_branch_block pk ov cs ci (child_at cs ci) L). now rewrite set_child_same.
  - rewrite E_branch. unfold before_block, after_block.
    rewrite child_at_oob, firstn_all2, skipn_all2 by lia. simpl. now rewrite !app_nil_r.
Qed.

(* entries outside the block of child ci do not start with pk ++ [ci] *)
Lemma before_block_nomatch pk ov cs ci r x :
  In x (shift pk (before_block ov cs ci)) -> has_prefix (pk ++ ci :: r) x = false.
Proof.
  unfold before_block. rewrite shift_app, in_app_iff. intros [H|H].
  - destruct ov as [v|]; [|contradiction]. destruct H as [<-|[]]. unfold has_prefix. simpl.
    rewrite app_nil_r. apply is_prefix_longer.
  - unfold shift in H. apply in_map_iff in H as ([k v] & <- & H).
    apply in_child_entries in H as (j & c & r' & v' & Ec & _ & Eq). inversion Eq; subst.
    unfold has_prefix. simpl. rewrite is_prefix_app_inv. simpl.
    assert (j < ci).
    { unfold child_at in Ec. destruct (Nat.lt_ge_cases j ci); auto.
      rewrite nth_overflow in Ec; [discriminate|]. rewrite firstn_length. lia. }
    replace (ci =? j) with false by (symmetry; apply Nat.eqb_neq; lia). reflexivity.
Qed.
Lemma after_block_nomatch pk cs ci r x :
  In x (shift pk (after_block cs ci)) -> has_prefix (pk ++ ci :: r) x = false.
Proof.
  unfold after_block, shift. intros H. apply in_map_iff in H as ([k v] & <- & H).
  apply in_child_entries in H as (j & c & r' & v' & Ec & _ & Eq). inversion Eq; subst.
  unfold has_prefix. simpl. rewrite is_prefix_app_inv. simpl.
  replace (ci =? S (ci + j)) with false by (symmetry; apply Nat.eqb_neq; lia). reflexivity.
Qed.

Definition matching (p : key) (t : tnode) : list (key * value) := filter (has_prefix p) (E t).

Definition cpl_ok (t : tnode) : Prop :=
  forall p limit, nibbles_ok p -> 0 < limit -> order_guard (map fst (matching p t)) limit = false ->
    let r := clear_prefix_limit_node t p (N.of_nat limit) in
    N.to_nat (snd (fst r)) = Nat.min limit (length (matching p t)) /\
    snd r = (length (matching p t) <=? limit) /\
    Canon_opt (fst (fst r)) /\
    entries (fst (fst r)) = remove_first limit (has_prefix p) (E t).

Lemma clear_prefix_limit_leaf pk v p limit :
  clear_prefix_limit_node (Leaf pk v) p limit =
  if is_prefix p pk then (None, 1%N, true) else (Some (Leaf pk v), 0%N, true).
Proof. reflexivity. Qed.

Lemma clear_prefix_limit_branch pk ov cs p limit :
  clear_prefix_limit_node (Branch pk ov cs) p limit =
  if is_prefix p pk then
    (fst (delete_nodes_limit (Branch pk ov cs) limit), snd (delete_nodes_limit (Branch pk ov cs) limit),
     is_none (fst (delete_nodes_limit (Branch pk ov cs) limit)))
  else if prefix_is_child pk p then
    let ci := nth (length pk) p 0 in
    match child_at cs ci with
    | None => (Some (Branch pk ov cs), 0%N, true)
    | Some c =>
      if (snd (delete_nodes_limit c limit) =? 0)%N then (Some (Branch pk ov cs), 0%N, false)
      else (Some (handle_deletion pk ov (set_child cs ci (fst (delete_nodes_limit c limit))) p),
            snd (delete_nodes_limit c limit), is_none (fst (delete_nodes_limit c limit)))
    end
  else if no_prefix_for_node pk p then (Some (Branch pk ov cs), 0%N, true)
  else
    let cp := skipn (length pk + 1) p in
    let ci := nth (length pk) p 0 in
    match child_at cs ci with
    | None => (Some (Branch pk ov cs), 0%N, true)
    | Some c =>
      let r := clear_prefix_limit_node c cp limit in
      if (snd (fst r) =? 0)%N then (Some (Branch pk ov cs), 0%N, snd r)
      else (Some (handle_deletion pk ov (set_child cs ci (fst (fst r))) p), snd (fst r), snd r)
    end.
Proof.
  cbn [clear_prefix_limit_node]. destruct (is_prefix p pk).
  { destruct (delete_nodes_limit (Branch pk ov cs) limit) as [np vd]. reflexivity. }
  destruct (prefix_is_child pk p).
  { cbv zeta. destruct (child_at cs (nth (length pk) p 0)) as [c|]; auto.
    destruct (delete_nodes_limit c limit) as [nc vd]. reflexivity. }
  destruct (no_prefix_for_node pk p); auto. cbv zeta.
  generalize (skipn (length pk + 1) p) as cp. intros cp.
  assert (G : forall l i,
    (fix go (l : list (option tnode)) (i : nat) {struct l} : option (option tnode * N * bool) :=
       match l with
       | [] => None
       | oc :: r =>
         match i with
         | O => match oc with
                | None => None
                | Some c => Some (clear_prefix_limit_node c cp limit)
                end
         | S j => go r j
         end
       end) l i =
    match child_at l i with None => None | Some c => Some (clear_prefix_limit_node c cp limit) end).
  { unfold child_at. induction l as [|oc r IH]; intros [|i]; cbn [nth]; auto. }
  rewrite G. destruct (child_at cs (nth (length pk) p 0)) as [c|]; auto.
  destruct (clear_prefix_limit_node c cp limit) as [[nc vd] ad]. reflexivity.
Qed.

Lemma has_prefix_shift_block pk ci r e :
  has_prefix (pk ++ ci :: r) ((pk ++ [ci]) ++ fst e, snd e) = has_prefix r e.
Proof.
  unfold has_prefix. cbn [fst]. rewrite <- app_assoc. cbn [app].
  rewrite is_prefix_app_inv. cbn [is_prefix]. now rewrite Nat.eqb_refl.
Qed.

Lemma filter_shift_block pk ci r l :
  filter (has_prefix (pk ++ ci :: r)) (shift (pk ++ [ci]) l) = shift (pk ++ [ci]) (filter (has_prefix r) l).
Proof.
  induction l as [|e l IH]; simpl; auto. rewrite has_prefix_shift_block.
  destruct (has_prefix r e); simpl; now rewrite IH.
Qed.

Lemma matching_block pk ov cs ci r :
  matching (pk ++ ci :: r) (Branch pk ov cs) =
  shift (pk ++ [ci]) (filter (has_prefix r) (entries (child_at cs ci))).
Proof.
  unfold matching. rewrite (E_branch_block_same pk ov cs ci), !filter_app.
  rewrite (filter_none _ (shift pk (before_block ov cs ci))) by (intros x; apply before_block_nomatch).
  rewrite (filter_none _ (shift pk (after_block cs ci))) by (intros x; apply after_block_nomatch).
  rewrite app_nil_l, app_nil_r. apply filter_shift_block.
Qed.

Lemma remove_first_block pk ov cs ci r n :
  remove_first n (has_prefix (pk ++ ci :: r)) (E (Branch pk ov cs)) =
  shift pk (before_block ov cs ci)
    ++ shift (pk ++ [ci]) (remove_first n (has_prefix r) (entries (child_at cs ci)))
    ++ shift pk (after_block cs ci).
Proof.
  rewrite (E_branch_block_same pk ov cs ci).
  rewrite remove_first_app_l by (intros x; apply before_block_nomatch).
  rewrite remove_first_app_r by (intros x; apply after_block_nomatch).
  do 2 f_equal. unfold shift. apply remove_first_map. intros e. apply has_prefix_shift_block.
Qed.

Lemma filter_nil_all {A} (f : A -> bool) l : filter f l = [] -> forall x, In x l -> f x = false.
Proof.
  induction l as [|y l IH]; simpl; [tauto|]. destruct (f y) eqn:Fy; [discriminate|].
  intros H x [<-|Hx]; auto.
Qed.

Lemma is_none_entries (t : trie) n : Canon_opt t -> entries t = skipn n (entries t ++ []) -> True.
Proof. trivial. Qed.

(* allDeleted = (newParent == nil) is "nothing of the subtree is left" *)
Lemma is_none_skipn (nc : trie) (l : list (key * value)) n :
  Canon_opt nc -> entries nc = skipn n l -> is_none nc = (length l <=? n).
Proof.
  intros C D. destruct nc as [c|]; simpl in *.
  - destruct (entries_nonempty c C) as (r & v & H). rewrite D in H.
    symmetry. apply Nat.leb_gt. destruct (Nat.lt_ge_cases n (length l)); auto.
    rewrite skipn_all2 in H by lia. contradiction.
  - symmetry. apply Nat.leb_le. apply (f_equal (@length _)) in D. rewrite skipn_length in D. simpl in D. lia.
Qed.

Theorem cpl_correct t : Canon t -> cpl_ok t.
Proof.
  induction t as [pk lv|pk ov cs IH] using tnode_ind'; intros C p limit Hp L1 G; cbv zeta.
  - rewrite clear_prefix_limit_leaf. unfold matching, E in *. cbn [entries_node app filter] in *.
    unfold has_prefix at 1 2 3. cbn [fst]. unfold has_prefix in G. cbn [fst] in G.
    destruct (is_prefix p pk) eqn:P; cbn [fst snd length entries].
    + split; [lia|]. split; [symmetry; apply Nat.leb_le; lia|]. split; [exact I|].
      simpl. rewrite P. destruct limit; [lia|reflexivity].
    + split; [lia|]. split; [reflexivity|]. split; [exact C|]. simpl. now rewrite P.
  - pose proof C as C0. apply Canon_branch_inv in C as (Hpk & L & F & C1 & C2).
    rewrite clear_prefix_limit_branch.
    destruct (is_prefix p pk) eqn:P1.
    + (* the whole subtree matches *)
      assert (All : forall x, In x (E (Branch pk ov cs)) -> has_prefix p x = true).
      { intros [k v] H. unfold E in H. apply in_entries_node in H as (k' & -> & Hl). cbn [app] in *.
        unfold has_prefix. cbn [fst]. eapply is_prefix_trans; [exact P1|].
        apply (lookup_some_prefix _ _ _ Hl). }
      assert (EM : matching p (Branch pk ov cs) = E (Branch pk ov cs)) by (apply filter_all; exact All).
      rewrite EM in *.
      destruct (dnl_correct _ C0 limit L1 G) as (A & B & D).
      cbn [fst snd]. split; [exact A|]. split; [|split; [exact B|]].
      * apply is_none_skipn; auto.
      * rewrite D. symmetry. apply remove_first_all. exact All.
    + destruct (prefix_is_child pk p) eqn:P2.
      * (* the prefix is one child slot *)
        apply prefix_is_child_spec in P2 as [ci ->]. cbv zeta. rewrite nth_app_mid.
        apply nibbles_ok_app in Hp as [_ Hci]. apply nibbles_ok_cons in Hci as [Hci _].
        assert (EM := matching_block pk ov cs ci []).
        assert (ER := remove_first_block pk ov cs ci [] limit).
        assert (AllT : forall l : list (key * value), filter (has_prefix []) l = l)
          by (intros l; apply filter_all; reflexivity).
        rewrite AllT in EM.
        destruct (child_at cs ci) as [c|] eqn:Ec.
        -- pose proof (Forall_child_at _ _ _ _ F Ec) as Cc.
           cbn [entries] in EM, ER. fold (E c) in EM, ER.
           assert (Gc : order_guard (map fst (E c)) limit = false).
           { rewrite EM, map_fst_shift, order_guard_map_app in G. exact G. }
           destruct (dnl_correct c Cc limit L1 Gc) as (A & B & D).
           pose proof (size_pos c Cc) as Sp.
           replace (snd (delete_nodes_limit c (N.of_nat limit)) =? 0)%N with false
             by (symmetry; apply N.eqb_neq; lia).
           set (nc := fst (delete_nodes_limit c (N.of_nat limit))) in *.
           destruct (handle_deletion_spec pk ov (set_child cs ci nc) (pk ++ [ci]) Hpk) as [Hc Hl].
           { now rewrite set_child_length. }
           { apply Forall_set_child; auto. }
           { now apply occupants_set_child_ge. }
           { apply is_prefix_app. }
           cbn [fst snd]. rewrite EM, shift_length. fold (size c).
           split; [exact A|]. split; [apply is_none_skipn; auto|]. split; [exact Hc|].
           cbn [entries]. fold (E (handle_deletion pk ov (set_child cs ci nc) (pk ++ [ci]))).
           rewrite (entries_lookup_ext _ _ Hl), E_branch_block by lia.
           rewrite ER, D. rewrite remove_first_all by reflexivity. reflexivity.
        -- cbn [fst snd]. rewrite EM. cbn [entries shift map length].
           split; [lia|]. split; [reflexivity|]. split; [exact C0|].
           cbn [entries]. fold (E (Branch pk ov cs)). rewrite ER. cbn [entries remove_first].
           symmetry. rewrite (E_branch_block_same pk ov cs ci), Ec. reflexivity.
      * destruct (no_prefix_for_node pk p) eqn:P3.
        -- (* no key under this branch has the prefix *)
           assert (NoM : forall x, In x (E (Branch pk ov cs)) -> has_prefix p x = false).
           { intros [k v] H. unfold E in H. apply in_entries_node in H as (k' & -> & Hl). cbn [app] in *.
             unfold has_prefix. cbn [fst]. destruct (is_prefix p k') eqn:Q1; auto. exfalso.
             pose proof (lookup_some_prefix _ _ _ Hl) as Q2. cbn [node_pk] in Q2.
             unfold no_prefix_for_node in P3. apply orb_true_iff in P3 as [P3|P3].
             - apply Nat.leb_le in P3. rewrite (is_prefix_comparable p pk k' Q1 Q2 P3) in P1. discriminate.
             - apply Nat.ltb_lt in P3. destruct (Nat.le_ge_cases (length p) (length pk)) as [Lp|Lp].
               + rewrite (is_prefix_comparable p pk k' Q1 Q2 Lp) in P1. discriminate.
               + pose proof (is_prefix_comparable pk p k' Q2 Q1 Lp) as X. apply cpl_prefix_l in X. lia. }
           assert (EM : matching p (Branch pk ov cs) = []) by (apply filter_none; exact NoM).
           rewrite EM. cbn [fst snd length].
           split; [lia|]. split; [reflexivity|]. split; [exact C0|].
           cbn [entries]. fold (E (Branch pk ov cs)). symmetry. now apply remove_first_none.
        -- (* descend *)
           unfold no_prefix_for_node in P3. apply orb_false_iff in P3 as [P3 P4].
           apply Nat.leb_gt in P3. apply Nat.ltb_ge in P4.
           assert (Pp : is_prefix pk p = true).
           { apply cpl_prefix_l. pose proof (cpl_le_l pk p). lia. }
           cbv zeta. set (ci := nth (length pk) p 0).
           replace (length pk + 1) with (S (length pk)) by lia. set (cp := skipn (S (length pk)) p).
           assert (Ep : p = pk ++ ci :: cp) by (apply is_prefix_split; auto).
           assert (Hcp : nibbles_ok cp /\ ci < 16).
           { rewrite Ep in Hp. apply nibbles_ok_app in Hp as [_ Hp]. apply nibbles_ok_cons in Hp. tauto. }
           destruct Hcp as [Hcp Hci].
           assert (EM := matching_block pk ov cs ci cp).
           assert (ER := remove_first_block pk ov cs ci cp limit).
           rewrite <- Ep in EM, ER.
           destruct (child_at cs ci) as [c|] eqn:Ec.
           ++ pose proof (Forall_child_at _ _ _ _ F Ec) as Cc.
              cbn [entries] in EM, ER. fold (E c) in EM, ER. fold (matching cp c) in EM.
              assert (Gc : order_guard (map fst (matching cp c)) limit = false).
              { rewrite EM, map_fst_shift, order_guard_map_app in G. exact G. }
              destruct (Forall_child_at _ _ _ _ IH Ec Cc cp limit Hcp L1 Gc) as (A & B & Cn & D).
              rewrite EM, shift_length.
              destruct (N.eqb_spec (snd (fst (clear_prefix_limit_node c cp (N.of_nat limit)))) 0) as [Z|Z].
              ** assert (M0 : matching cp c = []).
                 { destruct (matching cp c); auto. simpl in A. lia. }
                 cbn [fst snd]. rewrite M0 in *. cbn [length] in *.
                 split; [lia|]. split; [exact B|]. split; [exact C0|].
                 cbn [entries]. fold (E (Branch pk ov cs)). rewrite ER.
                 rewrite (remove_first_none limit (has_prefix cp) (E c)) by (apply filter_nil_all; exact M0).
                 symmetry. rewrite (E_branch_block_same pk ov cs ci), Ec. reflexivity.
              ** set (nc := fst (fst (clear_prefix_limit_node c cp (N.of_nat limit)))) in *.
                 destruct (handle_deletion_spec pk ov (set_child cs ci nc) p Hpk) as [Hc Hl].
                 { now rewrite set_child_length. }
                 { apply Forall_set_child; auto. }
                 { now apply occupants_set_child_ge. }
                 { exact Pp. }
                 cbn [fst snd]. split; [exact A|]. split; [exact B|]. split; [exact Hc|].
                 cbn [entries]. fold (E (handle_deletion pk ov (set_child cs ci nc) p)).
                 rewrite (entries_lookup_ext _ _ Hl), E_branch_block by lia.
                 rewrite ER, D. reflexivity.
           ++ cbn [fst snd]. rewrite EM. cbn [entries filter shift map length].
              split; [lia|]. split; [reflexivity|]. split; [exact C0|].
              cbn [entries]. fold (E (Branch pk ov cs)). rewrite ER. cbn [entries remove_first].
              symmetry. rewrite (E_branch_block_same pk ov cs ci), Ec. reflexivity.
Qed.

(* ---------- byte level ---------- *)
Definition bmatch (p : list byte) (e : list byte * value) : bool := bytes_prefix p (fst e).

Lemma bm_clear_prefix_limit_spec m p : forall limit,
  bm_clear_prefix_limit m p limit =
  (remove_first (N.to_nat limit) (bmatch p) m,
   N.of_nat (Nat.min (N.to_nat limit) (length (filter (bmatch p) m))),
   length (filter (bmatch p) m) <=? N.to_nat limit).
Proof.
  induction m as [|[k v] m IH]; intros limit; simpl.
  - now destruct (N.to_nat limit).
  - change (bmatch p (k, v)) with (bytes_prefix p k). destruct (bytes_prefix p k) eqn:B.
    + destruct (N.eqb_spec limit 0) as [->|Z].
      * reflexivity.
      * rewrite IH. replace (N.to_nat limit) with (S (N.to_nat (limit - 1))) by lia.
        cbn [length Nat.min Nat.leb]. f_equal. f_equal. lia.
    + rewrite IH. reflexivity.
Qed.

Lemma remove_first_kv_of_bmap n (f : list byte * value -> bool) (g : key * value -> bool) (m : bmap) :
  (forall e, In e m -> g (key_le_to_nibbles (fst e), snd e) = f e) ->
  kv_of_bmap (remove_first n f m) = remove_first n g (kv_of_bmap m).
Proof.
  revert n; induction m as [|[kb v] m IH]; intros n H; simpl; auto.
  pose proof (H (kb, v) (or_introl eq_refl)) as H0. cbn [fst snd] in H0. rewrite H0.
  destruct (f (kb, v)).
  - destruct n; auto. apply IH. intros e He. apply H. simpl; auto.
  - simpl. rewrite IH; auto. intros e He. apply H. simpl; auto.
Qed.

Lemma order_guard_bytes (M : list (list byte)) l : 0 < l ->
  order_guard (map key_le_to_nibbles M) l =
  (0 <? l) && (l <? length M) && existsb (fun k => bytes_prefix k (nth l M [])) (firstn l M).
Proof.
  intros L. unfold order_guard. rewrite map_length.
  replace (0 <? l) with true by (symmetry; apply Nat.ltb_lt; lia). cbn [andb].
  destruct (l <? length M) eqn:Lm; auto. cbn [andb]. apply Nat.ltb_lt in Lm.
  change (@nil nibble) with (key_le_to_nibbles []). rewrite map_nth, firstn_map.
  induction (firstn l M) as [|x r IH]; simpl; auto. now rewrite bytes_prefix_nibbles, IH.
Qed.

Lemma bm_clear_limit_zero m p :
  existsb (bmatch p) m = true -> bm_clear_prefix_limit m p 0 = (m, 0%N, false).
Proof.
  induction m as [|[k v] m IH]; simpl; [discriminate|].
  unfold bmatch at 1. cbn [fst]. destruct (bytes_prefix p k); auto. simpl. intros H.
  rewrite (IH H). reflexivity.
Qed.

Theorem Rep_clear_prefix_limit t m p limit : Rep t m ->
  guard_trim m p = false -> guard_limit_zero m p limit = false -> guard_limit_order m p limit = false ->
  let r := trie_clear_prefix_limit t p limit in
  let s := bm_clear_prefix_limit m p limit in
  Rep (fst (fst r)) (fst (fst s)) /\ snd (fst r) = snd (fst s) /\ snd r = snd s.
Proof.
  intros R G1 G2 G3. cbv zeta. unfold trie_clear_prefix_limit, trie_clear_prefix_limit_pinned.
  destruct (N.eqb_spec limit 0) as [->|Z].
  - (* limit 0: some key has the prefix, so both sides report "not all deleted" *)
    unfold guard_limit_zero in G2. cbn [N.eqb andb] in G2.
    assert (X : existsb (bmatch p) m = true).
    { destruct (existsb (bmatch p) m) eqn:Ex; auto. exfalso.
      assert (forallb (fun e => negb (bytes_prefix p (fst e))) m = true); [|congruence].
      apply forallb_forall. intros e He. destruct (bytes_prefix p (fst e)) eqn:B; auto.
      assert (existsb (bmatch p) m = true); [|congruence].
      apply existsb_exists. exists e. auto. }
    rewrite (bm_clear_limit_zero m p X). cbn [fst snd]. auto.
  - rewrite bm_clear_prefix_limit_spec. cbn [fst snd].
    set (l := N.to_nat limit). assert (L1 : 0 < l) by (unfold l; lia).
    destruct t as [n|].
    + destruct R as [C E0]. simpl in E0.
      set (pn := trim_zero_suffix (key_le_to_nibbles p)).
      assert (Agree : forall e, In e m -> has_prefix pn (key_le_to_nibbles (fst e), snd e) = bmatch p e).
      { intros e He. unfold has_prefix, bmatch. cbn [fst]. apply (guard_trim_false m p G1 e He). }
      assert (EM : matching pn n = kv_of_bmap (filter (bmatch p) m)).
      { unfold matching, E. rewrite E0. symmetry. apply kv_of_bmap_filter. exact Agree. }
      assert (Gn : order_guard (map fst (matching pn n)) l = false).
      { rewrite EM. unfold kv_of_bmap. rewrite map_map. cbn [fst].
        replace (map (fun x : list byte * value => key_le_to_nibbles (fst x)) (filter (bmatch p) m))
          with (map key_le_to_nibbles (bm_keys_with_prefix m p))
          by (unfold bm_keys_with_prefix; now rewrite map_map).
        rewrite order_guard_bytes by exact L1. exact G3. }
      destruct (cpl_correct n C pn l) as (A & B & Cn & D); auto.
      { apply trim_zero_suffix_ok, key_le_to_nibbles_ok. }
      replace (N.of_nat l) with limit in * by (unfold l; lia).
      rewrite EM in A, B. unfold kv_of_bmap in A, B. rewrite map_length in A, B.
      split; [split; [exact Cn|]|split; [rewrite <- A; now rewrite N2Nat.id|exact B]].
      etransitivity; [exact D|]. unfold E. rewrite E0. symmetry. apply remove_first_kv_of_bmap. exact Agree.
    + apply Rep_nil_map in R. subst. cbn [fst snd filter length remove_first].
      split; [apply Rep_empty|]. split; [|reflexivity]. now rewrite Nat.min_0_r.
Qed.
