(* Trie/ClearProofs.v — ClearPrefix: clear_prefix_node removes exactly the keys with the nibble
   prefix and keeps the canonical form; byte level under the trim guard. *)
From Common Require Import Bytes Outcome.
From Trie Require Import Nibbles Node Encode Model Spec NibblesProofs Sem InsertProofs DeleteProofs BuildProofs MapProofs QueryProofs.
From Coq Require Import Arith Lia Sorting.Sorted.
Local Open Scope nat_scope.

Lemma clear_prefix_leaf pk v p :
  clear_prefix_node (Leaf pk v) p = if is_prefix p pk then (None, true) else (Some (Leaf pk v), false).
Proof. reflexivity. Qed.

Lemma clear_prefix_branch pk ov cs p :
  clear_prefix_node (Branch pk ov cs) p =
  if is_prefix p pk then (None, true)
  else if prefix_is_child pk p then
    let ci := nth (length pk) p 0 in
    match child_at cs ci with
    | None => (Some (Branch pk ov cs), false)
    | Some _ => (Some (handle_deletion pk ov (set_child cs ci None) p), true)
    end
  else if no_prefix_for_node pk p then (Some (Branch pk ov cs), false)
  else
    let cp := skipn (length pk + 1) p in
    let ci := nth (length pk) p 0 in
    match child_at cs ci with
    | None => (Some (Branch pk ov cs), false)
    | Some c =>
      if snd (clear_prefix_node c cp)
      then (Some (handle_deletion pk ov (set_child cs ci (fst (clear_prefix_node c cp))) p), true)
      else (Some (Branch pk ov cs), false)
    end.
Proof.
  cbn [clear_prefix_node]. destruct (is_prefix p pk); auto.
  destruct (prefix_is_child pk p); auto. destruct (no_prefix_for_node pk p); auto.
  cbv zeta. generalize (nth (length pk) p 0) as i. generalize (skipn (length pk + 1) p) as cp. intros cp.
  assert (G : forall l i,
    (fix go (l : list (option tnode)) (i : nat) {struct l} : option (list (option tnode)) :=
       match l with
       | [] => None
       | oc :: r =>
         match i with
         | O => match oc with
                | None => None
                | Some c => let '(nc, ch) := clear_prefix_node c cp in
                            if ch then Some (nc :: r) else None
                end
         | S j => match go r j with Some r' => Some (oc :: r') | None => None end
         end
       end) l i =
    match child_at l i with
    | None => None
    | Some c => if snd (clear_prefix_node c cp) then Some (set_child l i (fst (clear_prefix_node c cp))) else None
    end).
  { unfold child_at. induction l as [|oc r IH]; intros [|i]; cbn [nth set_child]; auto.
    - destruct oc as [c|]; auto. destruct (clear_prefix_node c cp) as [nc ch]. reflexivity.
    - rewrite IH. destruct (nth i r None) as [c|]; auto. destruct (snd (clear_prefix_node c cp)); auto. }
  intros i. rewrite G. destruct (child_at cs i) as [c|]; auto.
  destruct (snd (clear_prefix_node c cp)); auto.
Qed.

Definition clear_spec (t : tnode) (p : key) : Prop :=
  Canon_opt (fst (clear_prefix_node t p)) /\
  (forall k', lookup_opt (fst (clear_prefix_node t p)) k' = if is_prefix p k' then None else lookup t k') /\
  (snd (clear_prefix_node t p) = false -> fst (clear_prefix_node t p) = Some t).

(* every key stored under a node extends the node's partial key *)
Lemma lookup_some_prefix t k v : lookup t k = Some v -> is_prefix (node_pk t) k = true.
Proof.
  destruct t as [pk lv|pk ov cs]; simpl node_pk.
  - rewrite lookup_leaf. destruct (key_eqb_spec pk k) as [->|]; [intros _; apply is_prefix_refl|discriminate].
  - rewrite lookup_branch. destruct (key_eqb_spec pk k) as [->|]; [intros _; apply is_prefix_refl|].
    destruct (is_prefix pk k); [reflexivity|discriminate].
Qed.

Lemma prefix_is_child_spec pk p : prefix_is_child pk p = true <-> exists ci, p = pk ++ [ci].
Proof.
  unfold prefix_is_child. split.
  - intros H. apply andb_true_iff in H as [L P]. apply Nat.eqb_eq in L.
    assert (E : firstn (length p - 1) p = pk).
    { apply is_prefix_same_length; auto. rewrite firstn_length. lia. }
    exists (nth (length pk) p 0).
    rewrite <- (firstn_skipn (length p - 1) p) at 1. rewrite E. f_equal.
    replace (length p - 1) with (length pk) by lia.
    assert (Ls : length (skipn (length pk) p) = 1) by (rewrite skipn_length; lia).
    destruct (skipn (length pk) p) as [|x [|y r]] eqn:Es; simpl in Ls; try lia.
    f_equal. rewrite <- (firstn_skipn (length pk) p), Es.
    rewrite app_nth2 by (rewrite firstn_length; lia). rewrite firstn_length.
    replace (length pk - Nat.min (length pk) (length p)) with 0 by lia. reflexivity.
  - intros [ci ->]. rewrite app_length. simpl. apply andb_true_iff. split.
    + apply Nat.eqb_eq. lia.
    + replace (length pk + 1 - 1) with (length pk) by lia. rewrite firstn_app_exact. apply is_prefix_refl.
Qed.

Theorem clear_correct t : forall p, Canon t -> nibbles_ok p -> clear_spec t p.
Proof.
  induction t as [pk lv|pk ov cs IH] using tnode_ind'; intros p C Hp; unfold clear_spec.
  - rewrite clear_prefix_leaf. destruct (is_prefix p pk) eqn:P; cbn [fst snd].
    + split; [exact I|]. split; [|discriminate]. intros k'. cbn [lookup_opt]. rewrite lookup_leaf.
      destruct (key_eqb_spec pk k') as [<-|]; [now rewrite P|]. now destruct (is_prefix p k').
    + split; [exact C|]. split; [|reflexivity]. intros k'. cbn [lookup_opt]. rewrite lookup_leaf.
      destruct (key_eqb_spec pk k') as [<-|]; [now rewrite P|]. now destruct (is_prefix p k').
  - pose proof C as C0. apply Canon_branch_inv in C as (Hpk & L & F & C1 & C2).
    rewrite clear_prefix_branch.
    (* keys under this branch extend pk *)
    assert (Under : forall k' v', lookup (Branch pk ov cs) k' = Some v' -> is_prefix pk k' = true)
      by (intros k' v' H; apply (lookup_some_prefix _ _ _ H)).
    assert (NoMatch : (forall k', is_prefix p k' = true -> is_prefix pk k' = true -> False) ->
              forall k', lookup_opt (Some (Branch pk ov cs)) k' =
                         if is_prefix p k' then None else lookup (Branch pk ov cs) k').
    { intros H k'. cbn [lookup_opt]. destruct (is_prefix p k') eqn:Q; auto.
      destruct (lookup (Branch pk ov cs) k') as [v'|] eqn:Lk; auto.
      exfalso. apply (H k' Q). eapply Under; eauto. }
    destruct (is_prefix p pk) eqn:P1.
    + (* the whole subtree goes *)
      cbn [fst snd]. split; [exact I|]. split; [|discriminate].
      intros k'. cbn [lookup_opt]. destruct (is_prefix p k') eqn:Q; auto.
      destruct (lookup (Branch pk ov cs) k') as [v'|] eqn:Lk; auto.
      apply Under in Lk. rewrite (is_prefix_trans p pk k' P1 Lk) in Q. discriminate.
    + destruct (prefix_is_child pk p) eqn:P2.
      * (* the prefix selects one child slot *)
        apply prefix_is_child_spec in P2 as [ci ->]. cbv zeta. rewrite nth_app_mid.
        apply nibbles_ok_app in Hp as [_ Hci]. apply nibbles_ok_cons in Hci as [Hci _].
        destruct (child_at cs ci) as [c|] eqn:E.
        -- destruct (handle_deletion_spec pk ov (set_child cs ci None) (pk ++ [ci]) Hpk) as [Hc Hl].
           { now rewrite set_child_length. }
           { apply Forall_set_child; simpl; auto. }
           { now apply occupants_set_child_ge. }
           { apply is_prefix_app. }
           cbn [fst snd]. split; [exact Hc|]. split; [|discriminate].
           intros k'. cbn [lookup_opt]. rewrite Hl.
           destruct (under_total pk k') as [->|j r' ->|U].
           ++ rewrite !lookup_branch_self. now rewrite is_prefix_longer.
           ++ rewrite !lookup_branch_child, is_prefix_app_inv. cbn [is_prefix].
              destruct (Nat.eq_dec j ci) as [->|Nj].
              ** rewrite Nat.eqb_refl. cbn [andb]. rewrite child_at_set_child_same by lia. reflexivity.
              ** rewrite child_at_set_child_other by congruence. apply Nat.eqb_neq in Nj.
                 rewrite Nat.eqb_sym, Nj. reflexivity.
           ++ rewrite !lookup_branch_out by exact U. now destruct (is_prefix (pk ++ [ci]) k').
        -- cbn [fst snd]. split; [exact C0|]. split; [|reflexivity].
           intros k'. cbn [lookup_opt]. destruct (is_prefix (pk ++ [ci]) k') eqn:Q; auto.
           apply is_prefix_spec in Q as [s ->]. rewrite <- app_assoc. cbn [app].
           rewrite lookup_branch_child, E. reflexivity.
      * destruct (no_prefix_for_node pk p) eqn:P3.
        -- (* no key under this branch has the prefix *)
           cbn [fst snd]. split; [exact C0|]. split; [|reflexivity].
           apply NoMatch. intros k' Q1 Q2. unfold no_prefix_for_node in P3.
           apply orb_true_iff in P3 as [P3|P3].
           ++ apply Nat.leb_le in P3. rewrite (is_prefix_comparable p pk k' Q1 Q2 P3) in P1. discriminate.
           ++ apply Nat.ltb_lt in P3. destruct (Nat.le_ge_cases (length p) (length pk)) as [Lp|Lp].
              ** rewrite (is_prefix_comparable p pk k' Q1 Q2 Lp) in P1. discriminate.
              ** pose proof (is_prefix_comparable pk p k' Q2 Q1 Lp) as X.
                 apply cpl_prefix_l in X. lia.
        -- (* descend *)
           unfold no_prefix_for_node in P3. apply orb_false_iff in P3 as [P3 P4].
           apply Nat.leb_gt in P3. apply Nat.ltb_ge in P4.
           assert (Pp : is_prefix pk p = true).
           { apply cpl_prefix_l. pose proof (cpl_le_l pk p). lia. }
           cbv zeta. set (ci := nth (length pk) p 0).
           replace (length pk + 1) with (S (length pk)) by lia. set (cp := skipn (S (length pk)) p).
           assert (Ep : p = pk ++ ci :: cp) by (apply is_prefix_split; auto).
           assert (Hcp : nibbles_ok cp /\ ci < 16).
           { rewrite Ep in Hp. apply nibbles_ok_app in Hp as [_ Hp]. apply nibbles_ok_cons in Hp. tauto. }
           destruct Hcp as [Hcp Hci].
           destruct (child_at cs ci) as [c|] eqn:E.
           ++ pose proof (Forall_child_at _ _ _ _ F E) as Cc.
              destruct (Forall_child_at _ _ _ _ IH E cp Cc Hcp) as (Dc & Dl & Du).
              destruct (snd (clear_prefix_node c cp)) eqn:D.
              ** set (nc := fst (clear_prefix_node c cp)) in *.
                 destruct (handle_deletion_spec pk ov (set_child cs ci nc) p Hpk) as [Hc Hl].
                 { now rewrite set_child_length. }
                 { apply Forall_set_child; auto. }
                 { now apply occupants_set_child_ge. }
                 { exact Pp. }
                 cbn [fst snd]. split; [exact Hc|]. split; [|discriminate].
                 intros k'. cbn [lookup_opt]. rewrite Hl.
                 destruct (under_total pk k') as [->|j r' ->|U].
                 --- rewrite !lookup_branch_self. rewrite Ep, is_prefix_longer. reflexivity.
                 --- rewrite !lookup_branch_child. rewrite Ep, is_prefix_app_inv. cbn [is_prefix].
                     destruct (Nat.eq_dec j ci) as [->|Nj].
                     +++ rewrite Nat.eqb_refl. cbn [andb].
                         rewrite child_at_set_child_same by lia. rewrite E. cbn [lookup_opt]. apply Dl.
                     +++ rewrite child_at_set_child_other by congruence.
                         apply Nat.eqb_neq in Nj. now rewrite Nat.eqb_sym, Nj.
                 --- rewrite !lookup_branch_out by exact U.
                     destruct (is_prefix p k') eqn:Q; auto.
              ** cbn [fst snd]. split; [exact C0|]. split; [|reflexivity].
                 intros k'. cbn [lookup_opt]. destruct (is_prefix p k') eqn:Q; auto.
                 rewrite Ep in Q. apply is_prefix_spec in Q as [s ->]. rewrite <- app_assoc. cbn [app].
                 rewrite lookup_branch_child, E. cbn [lookup_opt].
                 specialize (Du eq_refl). specialize (Dl (cp ++ s)). rewrite Du, is_prefix_app in Dl.
                 cbn [lookup_opt] in Dl. exact Dl.
           ++ cbn [fst snd]. split; [exact C0|]. split; [|reflexivity].
              intros k'. cbn [lookup_opt]. destruct (is_prefix p k') eqn:Q; auto.
              rewrite Ep in Q. apply is_prefix_spec in Q as [s ->]. rewrite <- app_assoc. cbn [app].
              rewrite lookup_branch_child, E. reflexivity.
Qed.

(* ---------- entries after the clear ---------- *)
Lemma sorted_filter (f : key * value -> bool) l : sorted l -> sorted (filter f l).
Proof.
  induction 1 as [|x l S IH F]; simpl; [constructor|].
  destruct (f x); auto. constructor; auto.
  rewrite Forall_forall in *. intros y Hy. apply filter_In in Hy as [Hy _]. auto.
Qed.

Theorem entries_clear t p : Canon t -> nibbles_ok p ->
  Canon_opt (fst (clear_prefix_node t p)) /\
  entries (fst (clear_prefix_node t p)) = filter (fun e => negb (is_prefix p (fst e))) (entries (Some t)).
Proof.
  intros C Hp. destruct (clear_correct t p C Hp) as (Cc & Lc & _). split; auto.
  apply entries_ext.
  - apply sorted_filter, sorted_entries.
  - intros k v. rewrite filter_In, Lc. cbn [fst]. rewrite (in_entries (Some t)). cbn [lookup_opt].
    destruct (is_prefix p k); simpl; split; try tauto; try discriminate. intros [_ ?]; discriminate.
Qed.

(* ---------- byte level ---------- *)
Lemma trim_zero_suffix_ok k : nibbles_ok k -> nibbles_ok (trim_zero_suffix k).
Proof.
  induction k as [|x k IH]; simpl; auto. intros H. apply nibbles_ok_cons in H as [Hx Hk].
  destruct k as [|y k].
  - destruct (x =? 0); [constructor|now apply nibbles_ok_cons].
  - apply nibbles_ok_cons. split; auto.
Qed.

Lemma kv_of_bmap_filter (f : list byte * value -> bool) (g : key * value -> bool) (m : bmap) :
  (forall e, In e m -> g (key_le_to_nibbles (fst e), snd e) = f e) ->
  kv_of_bmap (filter f m) = filter g (kv_of_bmap m).
Proof.
  induction m as [|[kb v] m IH]; intros H; simpl; auto.
  pose proof (H (kb, v) (or_introl eq_refl)) as H0. cbn [fst snd] in H0. rewrite H0.
  destruct (f (kb, v)); simpl; rewrite IH; auto; intros e He; apply H; simpl; auto.
Qed.

Theorem Rep_clear_prefix t m p : Rep t m -> guard_trim m p = false ->
  Rep (trie_clear_prefix t p) (bm_clear_prefix m p).
Proof.
  intros R G. unfold trie_clear_prefix, trie_clear_prefix_pinned, bm_clear_prefix.
  destruct p as [|b p'].
  - split; [exact I|]. simpl. rewrite filter_none; auto.
  - set (p := b :: p') in *. destruct t as [n|].
    + destruct R as [C E].
      destruct (entries_clear n (trim_zero_suffix (key_le_to_nibbles p)) C) as [Cc Ec].
      { apply trim_zero_suffix_ok, key_le_to_nibbles_ok. }
      split; [exact Cc|]. rewrite Ec, E. symmetry. apply kv_of_bmap_filter.
      intros e He. cbn [fst]. f_equal. apply (guard_trim_false m p G e He).
    + apply Rep_nil_map in R. subst. split; [exact I|reflexivity].
Qed.
