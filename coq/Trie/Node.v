(* Trie/Node.v — the pure trie node (definitions only).
   node.Node of pkg/trie/node/node.go without the bookkeeping fields (Generation, Dirty,
   MerkleValue cache, Descendants: subjects of C03) and without MustBeHashed/IsHashedValue
   (MustBeHashed is a function of the trie version and the value when the version is fixed
   before the first Put, see Encode.must_be_hashed; IsHashedValue is only set on nodes loaded
   from a database).
   Kind() = Branch iff Children != nil; a leaf always has a value; a branch value may be absent. *)
From Common Require Import Bytes.
From Trie Require Import Nibbles.

Inductive tnode : Type :=
| Leaf (pk : key) (v : value)
| Branch (pk : key) (ov : option value) (cs : list (option tnode)).

Definition trie := option tnode.          (* InMemoryTrie.root; None = nil root *)

Definition node_pk (t : tnode) : key := match t with Leaf pk _ => pk | Branch pk _ _ => pk end.
Definition children_capacity : nat := 16.
Definition no_children : list (option tnode) := repeat None 16.

(* children[i] (nil when absent or out of range) *)
Definition child_at (cs : list (option tnode)) (i : nat) : option tnode := nth i cs None.
(* children[i] = c *)
Fixpoint set_child (cs : list (option tnode)) (i : nat) (c : option tnode) : list (option tnode) :=
  match cs, i with
  | [], _ => []
  | _ :: r, O => c :: r
  | x :: r, S j => x :: set_child r j c
  end.

(* nested induction principle *)
Definition opt_all (P : tnode -> Prop) (oc : option tnode) : Prop :=
  match oc with Some c => P c | None => True end.

Section Ind.
  Variable P : tnode -> Prop.
  Hypothesis HL : forall pk v, P (Leaf pk v).
  Hypothesis HB : forall pk ov cs, Forall (opt_all P) cs -> P (Branch pk ov cs).
  Fixpoint tnode_ind' (t : tnode) : P t :=
    match t with
    | Leaf pk v => HL pk v
    | Branch pk ov cs =>
      HB pk ov cs
         ((fix go (l : list (option tnode)) : Forall (opt_all P) l :=
             match l with
             | [] => Forall_nil _
             | oc :: r =>
               @Forall_cons _ (opt_all P) oc r
                 (match oc as o return opt_all P o with
                  | Some c => tnode_ind' c
                  | None => I
                  end) (go r)
             end) cs)
    end.
End Ind.
