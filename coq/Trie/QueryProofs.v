(* Trie/QueryProofs.v — L6: Get, Entries, NextKey and GetKeysWithPrefix as functions of the entries. *)
From Common Require Import Bytes Outcome.
From Trie Require Import Nibbles Node Encode Model Spec NibblesProofs Sem InsertProofs DeleteProofs BuildProofs MapProofs.
From Coq Require Import Arith Lia Sorting.Sorted.
Local Open Scope nat_scope.

(* ---------- get ---------- *)
Lemma get_branch pk ov cs k :
  get (Branch pk ov cs) k =
  if (length k =? 0) || key_eqb pk k then ov
  else if negb (is_prefix pk k) then None
  else
    let n := cpl pk k in
    let ck := skipn (S n) k in
    match child_at cs (nth n k 0) with
    | None => None
    | Some c => if (length ck =? 0) && (0 <? length (node_pk c)) then None else get c ck
    end.
Proof.
  cbn [get]. destruct ((length k =? 0) || key_eqb pk k); auto.
  destruct (negb (is_prefix pk k)); auto. cbv zeta.
  generalize (nth (cpl pk k) k 0) as i. generalize (skipn (S (cpl pk k)) k) as ck. intros ck.
  unfold child_at. induction cs as [|oc r IH]; intros [|i]; cbn [nth]; auto.
Qed.

Theorem get_lookup t : forall k, not_exhausted t k -> get t k = lookup t k.
Proof.
  induction t as [pk lv|pk ov cs IH] using tnode_ind'; intros k NE.
  - reflexivity.
  - rewrite get_branch, lookup_branch.
    assert (EQ : (length k =? 0) || key_eqb pk k = key_eqb pk k).
    { destruct k as [|x k]; [|reflexivity]. destruct NE as [NE|NE]; [congruence|].
      simpl in NE. subst. reflexivity. }
    rewrite EQ. destruct (key_eqb_spec pk k) as [<-|N]; auto.
    destruct (is_prefix pk k) eqn:P; cbn [negb]; auto. cbv zeta.
    rewrite (proj2 (cpl_prefix_l pk k) P).
    destruct (child_at cs (nth (length pk) k 0)) as [c|] eqn:E; auto. cbn [lookup_opt].
    set (ck := skipn (S (length pk)) k).
    destruct ((length ck =? 0) && (0 <? length (node_pk c))) eqn:X.
    + apply andb_true_iff in X as [X1 X2]. apply Nat.eqb_eq in X1. apply Nat.ltb_lt in X2.
      apply length_zero_iff_nil in X1. rewrite X1.
      destruct c as [cpk cv|cpk cov ccs]; simpl in X2.
      * rewrite lookup_leaf. destruct cpk; [simpl in X2; lia|reflexivity].
      * symmetry. apply lookup_branch_out. destruct cpk; [simpl in X2; lia|reflexivity].
    + apply (Forall_child_at _ _ _ _ IH E). unfold not_exhausted.
      apply andb_false_iff in X as [X|X].
      * left. apply Nat.eqb_neq in X. destruct ck; [simpl in X; lia|discriminate].
      * right. apply Nat.ltb_ge in X. destruct (node_pk c); [reflexivity|simpl in X; lia].
Qed.

(* lookup through the byte-keyed map *)
Lemma kv_get_of_bmap m k : kv_get (kv_of_bmap m) (key_le_to_nibbles k) = bm_get m k.
Proof.
  induction m as [|[k0 v0] m IH]; simpl; auto.
  rewrite bytes_eqb_nibbles. destruct (key_eqb (key_le_to_nibbles k0) (key_le_to_nibbles k)); auto.
Qed.
Lemma kv_get_in m k v : sorted m -> (In (k, v) m <-> kv_get m k = Some v).
Proof.
  induction m as [|[k0 v0] m IH]; intros S; simpl.
  - split; [tauto|discriminate].
  - apply sorted_inv in S as [S F]. rewrite Forall_forall in F.
    destruct (key_eqb_spec k0 k) as [->|N].
    + split.
      * intros [E|H]; [now inversion E|]. exfalso. apply (key_lt_irrefl (k, v)). apply (F _ H).
      * intros E. inversion E. auto.
    + rewrite <- (IH S). split; [intros [E|H]; [inversion E; congruence|auto]|auto].
Qed.

Lemma Rep_lookup t m k : Rep t m -> lookup_opt t (key_le_to_nibbles k) = bm_get m k.
Proof.
  intros [C E]. rewrite <- kv_get_of_bmap, <- E.
  destruct (lookup_opt t (key_le_to_nibbles k)) as [v|] eqn:L.
  - symmetry. apply kv_get_in; [apply sorted_entries|]. now apply in_entries.
  - destruct (kv_get (entries t) (key_le_to_nibbles k)) as [v|] eqn:G; auto.
    apply kv_get_in in G; [|apply sorted_entries]. apply in_entries in G. congruence.
Qed.

Lemma guard_get_exhausted_spec t k :
  guard_get_exhausted t k = false ->
  match t with None => True | Some n => not_exhausted n (key_le_to_nibbles k) \/ lookup n (key_le_to_nibbles k) = get n (key_le_to_nibbles k) end.
Proof.
  unfold guard_get_exhausted, not_exhausted. destruct t as [n|]; auto.
  destruct k as [|b k]; [|intros _; left; left; discriminate].
  simpl. destruct n as [pk v|pk [v|] cs]; intros G.
  - right. reflexivity.
  - left. right. simpl. destruct pk; [reflexivity|discriminate].
  - right. rewrite get_branch, lookup_branch. destruct pk; reflexivity.
Qed.

Theorem Rep_get t m k : Rep t m -> guard_get_exhausted t k = false -> trie_get t k = bm_get m k.
Proof.
  intros R G. rewrite <- (Rep_lookup t m k R). unfold trie_get.
  apply guard_get_exhausted_spec in G. destruct t as [n|]; auto. cbn [lookup_opt].
  destruct G as [NE|E]; [now apply get_lookup|congruence].
Qed.

(* a key that is present is never in the guard *)
Lemma present_not_guarded t m k v : Rep t m -> bm_get m k = Some v -> guard_get_exhausted t k = false.
Proof.
  intros R G. rewrite <- (Rep_lookup t m k R) in G.
  unfold guard_get_exhausted. destruct k as [|b k]; auto.
  destruct t as [[pk lv|pk [bv|] cs]|]; auto. cbn [lookup_opt key_le_to_nibbles] in G.
  rewrite lookup_branch in G. destruct pk; auto. discriminate.
Qed.

(* ---------- Entries() ---------- *)
Lemma kv_of_bmap_in m k v : In (k, v) (kv_of_bmap m) -> exists kb, k = key_le_to_nibbles kb /\ In (kb, v) m.
Proof.
  unfold kv_of_bmap. intros H. apply in_map_iff in H as ([kb v'] & E & H). inversion E; subst. eauto.
Qed.

Lemma sorted_bm_get m k v : sorted (kv_of_bmap m) -> In (k, v) m -> bm_get m k = Some v.
Proof.
  intros S H. rewrite <- kv_get_of_bmap. apply kv_get_in; auto.
  unfold kv_of_bmap. apply in_map_iff. exists (k, v). auto.
Qed.

Theorem Rep_entries t m : Rep t m -> trie_entries t = map (fun e => (fst e, Some (snd e))) m.
Proof.
  intros R. pose proof R as [C E]. unfold trie_entries. rewrite E. unfold kv_of_bmap. rewrite map_map.
  apply map_ext_in. intros [kb v] H. simpl. rewrite nibbles_to_key_le_of_bytes. f_equal.
  assert (G : bm_get m kb = Some v).
  { apply sorted_bm_get; auto. rewrite <- E. apply sorted_entries. }
  rewrite (Rep_get t m kb R (present_not_guarded t m kb v R G)). exact G.
Qed.

(* ---------- NextKey ---------- *)
Definition after (s : key) (e : key * value) : bool := key_ltb s (fst e).

Lemma find_app {A} (f : A -> bool) a b :
  find f (a ++ b) = match find f a with Some x => Some x | None => find f b end.
Proof. induction a as [|x a IH]; simpl; auto. destruct (f x); auto. Qed.
Lemma find_none_all {A} (f : A -> bool) l : (forall x, In x l -> f x = false) -> find f l = None.
Proof. induction l as [|x l IH]; simpl; intros H; auto. rewrite (H x) by auto. apply IH. intros; apply H; auto. Qed.

Lemma find_next_branch pk ov cs prefix search :
  find_next (Branch pk ov cs) prefix search =
  let full := prefix ++ pk in
  let on_children (start : nat) :=
      (fix go (l : list (option tnode)) (i : nat) {struct l} : option (key * value) :=
         match l with
         | [] => None
         | oc :: r =>
           match (if i <? start then None
                  else match oc with
                       | Some c => find_next c (full ++ [i]) search
                       | None => None
                       end) with
           | Some e => Some e
           | None => go r (S i)
           end
         end) cs 0 in
  match key_compare search full with
  | Lt => match ov with Some v => Some (full, v) | None => on_children 0 end
  | Eq => on_children 0
  | Gt => if length search <=? length full then None
          else on_children (nth (length full) search 0)
  end.
Proof. reflexivity. Qed.

(* the scan over the children from index s on, skipping those below start *)
Fixpoint scan (f : tnode -> key -> option (key * value)) (q : key) (start : nat)
         (l : list (option tnode)) (i : nat) : option (key * value) :=
  match l with
  | [] => None
  | oc :: r =>
    match (if i <? start then None else match oc with Some c => f c (q ++ [i]) | None => None end) with
    | Some e => Some e
    | None => scan f q start r (S i)
    end
  end.

(* keys below a different, smaller branch of the trie are smaller *)
Lemma key_compare_below q i r j s : i < j -> key_compare (q ++ j :: s) (q ++ i :: r) = Gt.
Proof. intros L. apply key_compare_gt_lt. now apply key_compare_diverge. Qed.

Lemma key_ltb_false_of_gt a b : key_compare a b = Gt -> key_ltb a b = false.
Proof. unfold key_ltb. now intros ->. Qed.

(* search > full, not longer than full: search is greater than every extension of full *)
Lemma compare_gt_short s full ext :
  key_compare s full = Gt -> length s <= length full -> key_compare s (full ++ ext) = Gt.
Proof.
  revert full; induction s as [|x s IH]; intros [|y full]; simpl; try discriminate; try lia.
  destruct (Nat.compare x y) eqn:Cx; try discriminate; auto. intros H L. apply IH; auto. lia.
Qed.
(* search > full but full is not a prefix of search: same conclusion *)
Lemma compare_gt_diverge s full ext :
  key_compare s full = Gt -> is_prefix full s = false -> key_compare s (full ++ ext) = Gt.
Proof.
  revert full; induction s as [|x s IH]; intros [|y full]; simpl; try discriminate.
  destruct (Nat.compare_spec x y) as [->| |]; try discriminate; auto.
  rewrite Nat.eqb_refl. simpl. apply IH.
Qed.

Theorem find_next_spec t : forall prefix search,
  find_next t prefix search = find (after search) (entries_node t prefix).
Proof.
  induction t as [pk lv|pk ov cs IH] using tnode_ind'; intros prefix search.
  - simpl. unfold after, key_ltb. simpl. destruct (key_compare search (prefix ++ pk)); reflexivity.
  - rewrite find_next_branch, entries_node_branch. cbv zeta.
    set (full := prefix ++ pk).
    (* the scan is find over the children's entries, restricted to children >= start *)
    assert (Scan : forall start l i,
               Forall (opt_all (fun t => forall prefix search, find_next t prefix search = find (after search) (entries_node t prefix))) l ->
               (forall j c, j < start -> i <= j -> child_at l (j - i) = Some c ->
                            find (after search) (entries_node c (full ++ [j])) = None) ->
               (fix go (l : list (option tnode)) (i : nat) {struct l} : option (key * value) :=
                  match l with
                  | [] => None
                  | oc :: r =>
                    match (if i <? start then None
                           else match oc with
                                | Some c => find_next c (full ++ [i]) search
                                | None => None
                                end) with
                    | Some e => Some e
                    | None => go r (S i)
                    end
                  end) l i = find (after search) (entries_children entries_node full l i)).
    { intros start l. induction l as [|oc r IHl]; intros i F Hs; simpl; auto.
      inversion F; subst. rewrite find_app.
      assert (Hr : forall j c, j < start -> S i <= j -> child_at r (j - S i) = Some c ->
                               find (after search) (entries_node c (full ++ [j])) = None).
      { intros j c L1 L2 E. apply (Hs j c L1); [lia|]. replace (j - i) with (S (j - S i)) by lia. exact E. }
      destruct (Nat.ltb_spec i start) as [Li|Li].
      - destruct oc as [c|].
        + rewrite (Hs i c Li (le_n i)); [|now rewrite Nat.sub_diag]. apply IHl; auto.
        + simpl. apply IHl; auto.
      - destruct oc as [c|]; simpl.
        + simpl in H1. rewrite H1. destruct (find (after search) (entries_node c (full ++ [i]))); auto.
        + apply IHl; auto. }
    destruct (key_compare search full) eqn:Cmp.
    + (* search = full *)
      apply key_compare_eq in Cmp.
      rewrite find_app. destruct ov as [bv|]; cbn [find].
      * unfold after at 1. cbn [fst]. fold full. rewrite Cmp at 1. rewrite key_ltb_irrefl.
        apply (Scan 0); auto. intros; lia.
      * apply (Scan 0); auto. intros; lia.
    + (* search < full *)
      rewrite find_app. destruct ov as [bv|]; cbn [find].
      * unfold after at 1. cbn [fst]. fold full. unfold key_ltb. now rewrite Cmp.
      * apply (Scan 0); auto. intros; lia.
    + (* search > full *)
      rewrite find_app.
      assert (Own : forall A (x y : option A), x = None -> match x with Some e => Some e | None => y end = y)
        by (intros A x y ->; reflexivity).
      rewrite Own by (destruct ov; cbn [find]; auto; unfold after; cbn [fst]; fold full;
                      now rewrite (key_ltb_false_of_gt _ _ Cmp)).
      clear Own.
      destruct (Nat.leb_spec (length search) (length full)) as [Ls|Ls].
      * symmetry. apply find_none_all. intros [k v] H.
        apply in_entries_children in H as (j & c & E & H). apply entries_node_prefix in H as [s Es].
        simpl in Es. unfold after. simpl. rewrite Es, <- app_assoc.
        apply key_ltb_false_of_gt. now apply compare_gt_short.
      * apply Scan; auto. intros j c Lj _ E. rewrite Nat.sub_0_r in E.
        apply find_none_all. intros [k v] H. apply entries_node_prefix in H as [s Es]. simpl in Es.
        unfold after. simpl. rewrite Es, <- app_assoc. apply key_ltb_false_of_gt.
        destruct (is_prefix full search) eqn:P.
        -- rewrite (is_prefix_split full search P Ls). simpl.
           now apply key_compare_below.
        -- now apply compare_gt_diverge.
Qed.

(* on a sorted list, the first entry after the search key is the smallest strictly greater key *)
Lemma bm_next_key_find m s :
  bm_next_key m s = option_map (fun e => nibbles_to_key_le (fst e)) (find (after (key_le_to_nibbles s)) (kv_of_bmap m)).
Proof.
  induction m as [|[k v] m IH]; simpl; auto.
  unfold after at 1. simpl. rewrite <- bytes_ltb_nibbles. destruct (bytes_ltb s k); auto.
  simpl. now rewrite nibbles_to_key_le_of_bytes.
Qed.

Theorem Rep_next_key t m k : Rep t m -> trie_next_key t k = bm_next_key m k.
Proof.
  intros [C E]. rewrite bm_next_key_find, <- E. unfold trie_next_key.
  destruct t as [n|]; simpl; auto. rewrite find_next_spec.
  destruct (find (after (key_le_to_nibbles k)) (entries_node n [])) as [[fk fv]|]; reflexivity.
Qed.

(* ---------- GetKeysWithPrefix ---------- *)
Lemma all_keys_branch pk ov cs prefix :
  all_keys (Branch pk ov cs) prefix =
  (if is_some ov then [prefix ++ pk] else []) ++
  (fix go (l : list (option tnode)) (i : nat) {struct l} : list key :=
     match l with
     | [] => []
     | oc :: r => (match oc with Some c => all_keys c (prefix ++ pk ++ [i]) | None => [] end) ++ go r (S i)
     end) cs 0.
Proof. reflexivity. Qed.

Theorem all_keys_entries t : forall prefix, all_keys t prefix = map fst (entries_node t prefix).
Proof.
  induction t as [pk lv|pk ov cs IH] using tnode_ind'; intros prefix.
  - reflexivity.
  - rewrite all_keys_branch, entries_node_branch, map_app. f_equal.
    + destruct ov; reflexivity.
    + generalize 0 as i. induction cs as [|oc r IHr]; intros i; simpl; auto.
      inversion IH; subst. rewrite map_app, IHr by assumption. f_equal.
      destruct oc as [c|]; auto. simpl in H1. rewrite H1. now rewrite <- app_assoc.
Qed.

Definition has_prefix (p : key) (e : key * value) : bool := is_prefix p (fst e).

Lemma keys_with_prefix_branch pk ov cs prefix k :
  keys_with_prefix (Branch pk ov cs) prefix k =
  if (length k =? 0) || is_prefix k pk then Ok (all_keys (Branch pk ov cs) prefix)
  else if negb (is_prefix pk k) then Ok []
  else match skipn (length pk) k with
       | [] => Panic
       | ci :: ck =>
         match child_at cs ci with
         | None => Ok []
         | Some c => keys_with_prefix c (prefix ++ pk ++ [ci]) ck
         end
       end.
Proof.
  cbn [keys_with_prefix]. destruct ((length k =? 0) || is_prefix k pk); auto.
  destruct (negb (is_prefix pk k)); auto. destruct (skipn (length pk) k) as [|ci ck]; auto.
  assert (G : forall l i,
    (fix go (l : list (option tnode)) (i : nat) {struct l} : outcome (list key) :=
       match l with
       | [] => Ok []
       | oc :: r =>
         match i with
         | O => match oc with
                | None => Ok []
                | Some c => keys_with_prefix c (prefix ++ pk ++ [ci]) ck
                end
         | S j => go r j
         end
       end) l i =
    match child_at l i with
    | None => Ok []
    | Some c => keys_with_prefix c (prefix ++ pk ++ [ci]) ck
    end).
  { unfold child_at. induction l as [|oc r IH]; intros [|i]; cbn [nth]; auto. }
  apply G.
Qed.

Lemma filter_all {A} (f : A -> bool) l : (forall x, In x l -> f x = true) -> filter f l = l.
Proof. induction l as [|x l IH]; simpl; intros H; auto. rewrite (H x) by auto. f_equal. apply IH. intros; apply H; auto. Qed.
Lemma filter_none {A} (f : A -> bool) l : (forall x, In x l -> f x = false) -> filter f l = [].
Proof. induction l as [|x l IH]; simpl; intros H; auto. rewrite (H x) by auto. apply IH. intros; apply H; auto. Qed.

(* filtering the children's entries by a prefix that enters child ci keeps only that child's entries *)
Lemma filter_children_one q ci ck l s :
  filter (has_prefix (q ++ ci :: ck)) (entries_children entries_node q l s) =
  if ci <? s then []
  else match child_at l (ci - s) with
       | Some c => filter (has_prefix (q ++ ci :: ck)) (entries_node c (q ++ [ci]))
       | None => []
       end.
Proof.
  unfold child_at. revert s; induction l as [|oc r IH]; intros s; simpl.
  - destruct (ci <? s); auto. now destruct (ci - s).
  - rewrite filter_app, IH.
    assert (Other : forall c, s <> ci -> filter (has_prefix (q ++ ci :: ck)) (entries_node c (q ++ [s])) = []).
    { intros c N. apply filter_none. intros [k v] H. apply entries_node_prefix in H as [x Ex]. simpl in Ex.
      unfold has_prefix. simpl. rewrite Ex, <- app_assoc, is_prefix_app_inv. simpl.
      apply Nat.eqb_neq in N. now rewrite Nat.eqb_sym, N. }
    destruct (Nat.ltb_spec ci s) as [L1|L1].
    + replace (ci <? S s) with true by (symmetry; apply Nat.ltb_lt; lia). rewrite app_nil_r.
      destruct oc as [c|]; auto. apply Other. lia.
    + destruct (Nat.eq_dec ci s) as [->|N].
      * rewrite Nat.sub_diag. replace (s <? S s) with true by (symmetry; apply Nat.ltb_lt; lia).
        rewrite app_nil_r. destruct oc; auto.
      * replace (ci <? S s) with false by (symmetry; apply Nat.ltb_ge; lia).
        replace (ci - s) with (S (ci - S s)) by lia.
        destruct oc as [c|]; simpl; auto. rewrite Other by congruence. reflexivity.
Qed.

Theorem keys_with_prefix_spec t : forall prefix k,
  keys_with_prefix t prefix k = Ok (map fst (filter (has_prefix (prefix ++ k)) (entries_node t prefix))).
Proof.
  induction t as [pk lv|pk ov cs IH] using tnode_ind'; intros prefix k.
  - cbn [keys_with_prefix entries_node filter]. unfold has_prefix at 1. cbn [fst].
    rewrite is_prefix_app_inv.
    destruct k as [|x k]; [reflexivity|]. cbn [length Nat.eqb orb].
    destruct (is_prefix (x :: k) pk); reflexivity.
  - rewrite keys_with_prefix_branch.
    destruct ((length k =? 0) || is_prefix k pk) eqn:A.
    + (* the whole subtree matches *)
      rewrite all_keys_entries. f_equal. f_equal. symmetry. apply filter_all.
      intros [k' v'] H. apply in_entries_node in H as (s & -> & Hl). unfold has_prefix. cbn [fst].
      rewrite is_prefix_app_inv.
      apply orb_true_iff in A as [A|A].
      * apply Nat.eqb_eq, length_zero_iff_nil in A. now subst.
      * assert (P : is_prefix pk s = true).
        { rewrite lookup_branch in Hl. destruct (key_eqb_spec pk s) as [Eq|]; [rewrite <- Eq; apply is_prefix_refl|].
          destruct (is_prefix pk s); [reflexivity|discriminate]. }
        eapply is_prefix_trans; eauto.
    + apply orb_false_iff in A as [A1 A2].
      destruct (is_prefix pk k) eqn:P; cbn [negb].
      * (* descend *)
        assert (Lk : length pk < length k).
        { pose proof (is_prefix_length _ _ P). destruct (Nat.eq_dec (length pk) (length k)); [|lia].
          apply is_prefix_same_length in P; auto. subst. now rewrite is_prefix_refl in A2. }
        rewrite (is_prefix_split pk k P Lk) at 1 2. rewrite skipn_app_exact.
        set (ci := nth (length pk) k 0). set (ck := skipn (S (length pk)) k).
        rewrite entries_node_branch, filter_app.
        assert (Eb : forall (a b : list (key * value)), a = [] -> a ++ b = b) by (intros a b ->; reflexivity).
        rewrite Eb by (destruct ov; cbn [filter]; auto; unfold has_prefix; cbn [fst];
                       rewrite is_prefix_app_inv, is_prefix_longer; reflexivity).
        clear Eb.
        rewrite (app_assoc prefix pk (ci :: ck)), filter_children_one. cbn [Nat.ltb Nat.leb]. rewrite Nat.sub_0_r.
        destruct (child_at cs ci) as [c|] eqn:E; auto.
        rewrite (Forall_child_at _ _ _ _ IH E). rewrite <- !app_assoc. reflexivity.
      * (* no key below this branch matches *)
        f_equal. symmetry. rewrite filter_none; auto.
        intros [k' v'] H. apply in_entries_node in H as (s & -> & Hl). unfold has_prefix. cbn [fst].
        rewrite is_prefix_app_inv.
        assert (Ps : is_prefix pk s = true).
        { rewrite lookup_branch in Hl. destruct (key_eqb_spec pk s) as [Eq|]; [rewrite <- Eq; apply is_prefix_refl|].
          destruct (is_prefix pk s); [reflexivity|discriminate]. }
        destruct (is_prefix k s) eqn:Q; auto. exfalso.
        destruct (Nat.le_ge_cases (length pk) (length k)) as [L|L].
        -- rewrite (is_prefix_comparable pk k s Ps Q L) in P. discriminate.
        -- rewrite (is_prefix_comparable k pk s Q Ps L) in A2. discriminate.
Qed.

(* byte level: outside the trim guard the keys are those with the byte prefix, ascending *)
Lemma trim_zero_suffix_prefix k : is_prefix (trim_zero_suffix k) k = true.
Proof.
  induction k as [|x k IH]; simpl; auto. destruct k as [|y k].
  - destruct (x =? 0); simpl; auto. now rewrite Nat.eqb_refl.
  - cbn [is_prefix]. now rewrite Nat.eqb_refl, IH.
Qed.

Lemma bytes_prefix_go_prefix p k : bytes_prefix p k = true -> go_prefix p k = true.
Proof.
  intros H. unfold go_prefix. rewrite bytes_prefix_nibbles in H.
  eapply is_prefix_trans; [apply trim_zero_suffix_prefix|exact H].
Qed.

Lemma guard_trim_false m p : guard_trim m p = false ->
  forall e, In e m -> go_prefix p (fst e) = bytes_prefix p (fst e).
Proof.
  unfold guard_trim. intros G e He.
  destruct (bytes_prefix p (fst e)) eqn:B; [now apply bytes_prefix_go_prefix|].
  destruct (go_prefix p (fst e)) eqn:Gp; auto.
  assert (X : existsb (fun e => go_prefix p (fst e) && negb (bytes_prefix p (fst e))) m = true).
  { apply existsb_exists. exists e. split; auto. now rewrite Gp, B. }
  congruence.
Qed.

Lemma Rep_nil_map m : Rep None m -> m = [].
Proof. intros [_ E]. simpl in E. destruct m; [reflexivity|discriminate]. Qed.

Lemma keys_filter_bmap pn p (m : bmap) :
  (forall e, In e m -> is_prefix pn (key_le_to_nibbles (fst e)) = bytes_prefix p (fst e)) ->
  map nibbles_to_key_le (map fst (filter (has_prefix pn) (kv_of_bmap m))) =
  map fst (filter (fun e => bytes_prefix p (fst e)) m).
Proof.
  induction m as [|[kb v] m IH]; intros H; simpl; auto.
  unfold has_prefix at 1. cbn [fst]. pose proof (H (kb, v) (or_introl eq_refl)) as H0. cbn [fst] in H0. rewrite H0.
  destruct (bytes_prefix p kb); simpl; rewrite ?nibbles_to_key_le_of_bytes, IH; auto;
    intros e He; apply H; simpl; auto.
Qed.

Theorem Rep_keys_with_prefix t m p : Rep t m -> guard_trim m p = false ->
  trie_keys_with_prefix t p = Ok (bm_keys_with_prefix m p).
Proof.
  intros R G. unfold trie_keys_with_prefix, bm_keys_with_prefix.
  destruct t as [n|].
  - destruct R as [C E]. simpl in E.
    rewrite keys_with_prefix_spec, app_nil_l, E. f_equal.
    apply keys_filter_bmap. intros e He. rewrite <- (guard_trim_false m p G e He).
    unfold go_prefix. destruct p; reflexivity.
  - apply Rep_nil_map in R. subst. reflexivity.
Qed.
