(* Trie/Model.v — executable model of the in-memory trie (definitions only).
   Mirrors pkg/trie/inmemory/in_memory.go and iterator.go function by function on the pure node
   of Trie/Node.v (nibble keys).  Every Go function that recurses through branch.Children[i]
   becomes a nested fixpoint walking the children list down to index i.
   Not modelled: Generation/Dirty/MerkleValue cache/Descendants bookkeeping, delta tracking
   (C03), database-backed hashed values (IsHashedValue), child tries.
   The functions in this file are those of the PINNED tree (suffix-free names are the repaired
   behaviour once a fix exists; see the *_pinned definitions further down). *)
From Common Require Import Bytes Outcome.
From Trie Require Import Nibbles Node.
From Coq Require Import Arith.
Local Open Scope nat_scope.

(* ---------- helpers on children ---------- *)
Fixpoint count_children (cs : list (option tnode)) : nat :=
  match cs with
  | [] => 0
  | None :: r => count_children r
  | Some _ :: r => S (count_children r)
  end.
(* first non-nil child at or after index i *)
Fixpoint first_child (cs : list (option tnode)) (i : nat) : option (nat * tnode) :=
  match cs with
  | [] => None
  | Some c :: _ => Some (i, c)
  | None :: r => first_child r (S i)
  end.
Definition is_none {A} (o : option A) : bool := match o with None => true | Some _ => false end.
Definition is_some {A} (o : option A) : bool := match o with None => false | Some _ => true end.

(* ---------- insert / insertInLeaf / insertInBranch ---------- *)
Definition insert_in_leaf (pk : key) (lv : value) (k : key) (v : value) : tnode :=
  if key_eqb pk k then Leaf pk v
  else
    let n := cpl k pk in
    if length k =? n then
      (* key is included in parent leaf key *)
      Branch (firstn n k) (Some v)
             (if length k <? length pk
              then set_child no_children (nth n pk 0) (Some (Leaf (skipn (S n) pk) lv))
              else no_children)
    else if length pk =? n then
      (* the key of the parent leaf is at this new branch *)
      Branch (firstn n k) (Some lv)
             (set_child no_children (nth n k 0) (Some (Leaf (skipn (S n) k) v)))
    else
      Branch (firstn n k) None
             (set_child (set_child no_children (nth n pk 0) (Some (Leaf (skipn (S n) pk) lv)))
                        (nth n k 0) (Some (Leaf (skipn (S n) k) v))).

Fixpoint insert (t : tnode) (k : key) (v : value) {struct t} : tnode :=
  match t with
  | Leaf pk lv => insert_in_leaf pk lv k v
  | Branch pk ov cs =>
    if key_eqb k pk then Branch pk (Some v) cs
    else if is_prefix pk k then
      (* key is included in parent branch key *)
      let n := cpl k pk in
      let rk := skipn (S n) k in
      Branch pk ov
        ((fix go (l : list (option tnode)) (i : nat) {struct l} : list (option tnode) :=
            match l with
            | [] => []
            | oc :: r =>
              match i with
              | O => Some (match oc with None => Leaf rk v | Some c => insert c rk v end) :: r
              | S j => oc :: go r j
              end
            end) cs (nth n k 0))
    else
      (* branch out at the point where the keys diverge *)
      let n := cpl k pk in
      let moved := set_child no_children (nth n pk 0) (Some (Branch (skipn (S n) pk) ov cs)) in
      if length k <=? n then Branch (firstn n k) (Some v) moved
      else Branch (firstn n k) None (set_child moved (nth n k 0) (Some (Leaf (skipn (S n) k) v)))
  end.

Definition insert_opt (t : trie) (k : key) (v : value) : tnode :=
  match t with None => Leaf k v | Some n => insert n k v end.

(* ---------- retrieve / retrieveFromLeaf / retrieveFromBranch (pinned) ---------- *)
Fixpoint get_pinned (t : tnode) (k : key) {struct t} : option value :=
  match t with
  | Leaf pk v => if key_eqb pk k then Some v else None
  | Branch pk ov cs =>
    if (length k =? 0) || key_eqb pk k then ov
    else if (length k <? length pk) && is_prefix k pk then None
    else
      let n := cpl pk k in
      let ck := skipn (S n) k in
      (fix go (l : list (option tnode)) (i : nat) {struct l} : option value :=
         match l with
         | [] => None
         | oc :: r =>
           match i with
           | O => match oc with None => None | Some c => get_pinned c ck end
           | S j => go r j
           end
         end) cs (nth n k 0)
  end.

(* ---------- handleDeletion ---------- *)
Definition handle_deletion (pk : key) (ov : option value) (cs : list (option tnode)) (k : key) : tnode :=
  match count_children cs, ov with
  | 0, Some v => Leaf (firstn (cpl pk k) k) v
  | 1, None =>
    match first_child cs 0 with
    | Some (i, Leaf cpk cv) => Leaf (pk ++ [i] ++ cpk) cv
    | Some (i, Branch cpk cov ccs) => Branch (pk ++ [i] ++ cpk) cov ccs
    | None => Branch pk ov cs
    end
  | _, _ => Branch pk ov cs
  end.

(* ---------- deleteAtNode / deleteLeaf / deleteBranch (pinned) ---------- *)
Fixpoint delete_pinned (t : tnode) (k : key) {struct t} : option tnode * bool :=
  match t with
  | Leaf pk v =>
    if (0 <? length k) && negb (key_eqb k pk) then (Some t, false) else (None, true)
  | Branch pk ov cs =>
    if (length k =? 0) || key_eqb pk k then (Some (handle_deletion pk None cs k), true)
    else
      let n := cpl pk k in
      if n =? length k then (Some t, false)
      else
        let ck := skipn (S n) k in
        match (fix go (l : list (option tnode)) (i : nat) {struct l} : option (list (option tnode)) :=
                 match l with
                 | [] => None
                 | oc :: r =>
                   match i with
                   | O => match oc with
                          | None => None
                          | Some c => let '(nc, d) := delete_pinned c ck in
                                      if d then Some (nc :: r) else None
                          end
                   | S j => match go r j with Some r' => Some (oc :: r') | None => None end
                   end
                 end) cs (nth n k 0) with
        | None => (Some t, false)
        | Some cs' => (Some (handle_deletion pk ov cs' k), true)
        end
  end.

(* ---------- clearPrefixAtNode ---------- *)
(* HasPrefix(branch.PartialKey, prefix[:len(prefix)-1]) && len(prefix) == len(pk)+1 *)
Definition prefix_is_child (pk p : key) : bool :=
  (length p =? length pk + 1) && is_prefix (firstn (length p - 1) p) pk.
Definition no_prefix_for_node (pk p : key) : bool :=
  (length p <=? length pk) || (cpl pk p <? length pk).

Fixpoint clear_prefix_node (t : tnode) (p : key) {struct t} : option tnode * bool :=
  match t with
  | Leaf pk v => if is_prefix p pk then (None, true) else (Some t, false)
  | Branch pk ov cs =>
    if is_prefix p pk then (None, true)
    else if prefix_is_child pk p then
      let ci := nth (length pk) p 0 in
      match child_at cs ci with
      | None => (Some t, false)
      | Some _ => (Some (handle_deletion pk ov (set_child cs ci None) p), true)
      end
    else if no_prefix_for_node pk p then (Some t, false)
    else
      let cp := skipn (length pk + 1) p in
      match (fix go (l : list (option tnode)) (i : nat) {struct l} : option (list (option tnode)) :=
               match l with
               | [] => None
               | oc :: r =>
                 match i with
                 | O => match oc with
                        | None => None
                        | Some c => let '(nc, ch) := clear_prefix_node c cp in
                                    if ch then Some (nc :: r) else None
                        end
                 | S j => match go r j with Some r' => Some (oc :: r') | None => None end
                 end
               end) cs (nth (length pk) p 0) with
      | None => (Some t, false)
      | Some cs' => (Some (handle_deletion pk ov cs' p), true)
      end
  end.

(* ---------- deleteNodesLimit ---------- *)
Local Open Scope N_scope.
Fixpoint delete_nodes_limit (t : tnode) (limit : N) {struct t} : option tnode * N :=
  if limit =? 0 then (Some t, 0)
  else
  match t with
  | Leaf _ _ => (None, 1)
  | Branch pk ov cs =>
    (fix loop (done rest : list (option tnode)) (limit vd : N) {struct rest} : option tnode * N :=
       match rest with
       | [] => (None, if is_some ov then vd + 1 else vd)
       | None :: r => loop (done ++ [None]) r limit vd
       | Some c :: r =>
         let '(nc, nd) := delete_nodes_limit c limit in
         let cs' := done ++ nc :: r in
         let limit' := limit - nd in
         let vd' := vd + nd in
         if (count_children cs' =? 0)%nat && is_none ov then (None, vd')
         else if limit' =? 0 then (Some (handle_deletion pk ov cs' pk), vd')
         else loop (done ++ [nc]) r limit' vd'
       end) [] cs limit 0
  end.

Definition delete_nodes_limit_opt (t : trie) (limit : N) : option tnode * N :=
  match t with None => (None, 0) | Some n => delete_nodes_limit n limit end.

(* ---------- clearPrefixLimitAtNode / clearPrefixLimitBranch / clearPrefixLimitChild ---------- *)
Fixpoint clear_prefix_limit_node (t : tnode) (p : key) (limit : N) {struct t}
  : option tnode * N * bool :=
  match t with
  | Leaf pk v => if is_prefix p pk then (None, 1, true) else (Some t, 0, true)
  | Branch pk ov cs =>
    if is_prefix p pk then
      let '(np, vd) := delete_nodes_limit t limit in (np, vd, is_none np)
    else if prefix_is_child pk p then
      let ci := nth (length pk) p 0%nat in
      match child_at cs ci with
      | None => (Some t, 0, true)
      | Some c =>
        let '(nc, vd) := delete_nodes_limit c limit in
        if vd =? 0 then (Some t, 0, false)
        else (Some (handle_deletion pk ov (set_child cs ci nc) p), vd, is_none nc)
      end
    else if no_prefix_for_node pk p then (Some t, 0, true)
    else
      let cp := skipn (length pk + 1) p in
      let ci := nth (length pk) p 0%nat in
      match (fix go (l : list (option tnode)) (i : nat) {struct l}
               : option (option tnode * N * bool) :=
               match l with
               | [] => None
               | oc :: r =>
                 match i with
                 | O => match oc with
                        | None => None
                        | Some c => Some (clear_prefix_limit_node c cp limit)
                        end
                 | S j => go r j
                 end
               end) cs ci with
      | None => (Some t, 0, true)       (* nil child: (nil, 0, true), valuesDeleted == 0 *)
      | Some (nc, vd, ad) =>
        if vd =? 0 then (Some t, 0, ad)
        else (Some (handle_deletion pk ov (set_child cs ci nc) p), vd, ad)
      end
  end.
Local Close Scope N_scope.

(* ---------- addAllKeys / getKeysWithPrefix (nibble keys; converted to LE by the API) ---------- *)
Fixpoint all_keys (t : tnode) (prefix : key) {struct t} : list key :=
  match t with
  | Leaf pk _ => [prefix ++ pk]
  | Branch pk ov cs =>
    (if is_some ov then [prefix ++ pk] else []) ++
    (fix go (l : list (option tnode)) (i : nat) {struct l} : list key :=
       match l with
       | [] => []
       | oc :: r =>
         (match oc with Some c => all_keys c (prefix ++ pk ++ [i]) | None => [] end) ++ go r (S i)
       end) cs 0
  end.

Fixpoint keys_with_prefix_pinned (t : tnode) (prefix k : key) {struct t} : outcome (list key) :=
  match t with
  | Leaf pk _ => if (length k =? 0) || is_prefix k pk then Ok [prefix ++ pk] else Ok []
  | Branch pk ov cs =>
    if (length k =? 0) || is_prefix k pk then Ok (all_keys t prefix)
    else if (length k <? length pk) && negb (is_prefix k pk) then Ok []
    else
      match skipn (length pk) k with
      | [] => Panic                       (* key[0] on an empty slice *)
      | ci :: ck =>
        (fix go (l : list (option tnode)) (i : nat) {struct l} : outcome (list key) :=
           match l with
           | [] => Ok []
           | oc :: r =>
             match i with
             | O => match oc with
                    | None => Ok []
                    | Some c => keys_with_prefix_pinned c (prefix ++ pk ++ [ci]) ck
                    end
             | S j => go r j
             end
           end) cs ci
      end
  end.

(* ---------- findNextNode / findNextKeyOnChildren ---------- *)
Fixpoint find_next (t : tnode) (prefix search : key) {struct t} : option (key * value) :=
  match t with
  | Leaf pk v =>
    let full := prefix ++ pk in
    match key_compare search full with Lt => Some (full, v) | _ => None end
  | Branch pk ov cs =>
    let full := prefix ++ pk in
    let on_children (start : nat) :=
        (fix go (l : list (option tnode)) (i : nat) {struct l} : option (key * value) :=
           match l with
           | [] => None
           | oc :: r =>
             match (if i <? start then None
                    else match oc with
                         | Some c => find_next c (full ++ [i]) search
                         | None => None
                         end) with
             | Some e => Some e
             | None => go r (S i)
             end
           end) cs 0 in
    match key_compare search full with
    | Lt => match ov with Some v => Some (full, v) | None => on_children 0 end
    | Eq => on_children 0
    | Gt => if length search <=? length full then None
            else on_children (nth (length full) search 0)
    end
  end.

(* ---------- in-order listing (buildEntriesMap traversal) ---------- *)
Fixpoint entries_node (t : tnode) (prefix : key) {struct t} : list (key * value) :=
  match t with
  | Leaf pk v => [(prefix ++ pk, v)]
  | Branch pk ov cs =>
    (match ov with Some v => [(prefix ++ pk, v)] | None => [] end) ++
    (fix go (l : list (option tnode)) (i : nat) {struct l} : list (key * value) :=
       match l with
       | [] => []
       | oc :: r =>
         (match oc with Some c => entries_node c (prefix ++ pk ++ [i]) | None => [] end) ++ go r (S i)
       end) cs 0
  end.
Definition entries (t : trie) : list (key * value) :=
  match t with None => [] | Some n => entries_node n [] end.

(* ====================================================================================
   Repaired functions (fixes/C02-get-diverging-key, C02-delete-diverging-key,
   C02-keys-prefix-descent, C02-get-exhausted-key-nested, C02-delete-exhausted-key-nested):
   a branch is only descended into when its partial key is a prefix of the remaining key, and a
   child with a non-empty partial key is not entered with an exhausted key.  The behaviour of
   retrieve/deleteAtNode called directly with an empty key (len(key) == 0 matches the node),
   which the package's unit tests pin down, is unchanged: it is only reachable from the API with
   the empty storage key.
   ==================================================================================== *)
Fixpoint get (t : tnode) (k : key) {struct t} : option value :=
  match t with
  | Leaf pk v => if key_eqb pk k then Some v else None
  | Branch pk ov cs =>
    if (length k =? 0) || key_eqb pk k then ov
    else if negb (is_prefix pk k) then None
    else
      let n := cpl pk k in
      let ck := skipn (S n) k in
      (fix go (l : list (option tnode)) (i : nat) {struct l} : option value :=
         match l with
         | [] => None
         | oc :: r =>
           match i with
           | O => match oc with
                  | None => None
                  | Some c =>
                    (* the key ends at this child slot and the keys below it are longer *)
                    if (length ck =? 0) && (0 <? length (node_pk c)) then None else get c ck
                  end
           | S j => go r j
           end
         end) cs (nth n k 0)
  end.

Fixpoint delete (t : tnode) (k : key) {struct t} : option tnode * bool :=
  match t with
  | Leaf pk v =>
    if (0 <? length k) && negb (key_eqb k pk) then (Some t, false) else (None, true)
  | Branch pk ov cs =>
    if (length k =? 0) || key_eqb pk k then (Some (handle_deletion pk None cs k), true)
    else
      let n := cpl pk k in
      if n <? length pk then (Some t, false)
      else
        let ck := skipn (S n) k in
        match (fix go (l : list (option tnode)) (i : nat) {struct l} : option (list (option tnode)) :=
                 match l with
                 | [] => None
                 | oc :: r =>
                   match i with
                   | O => match oc with
                          | None => None
                          | Some c =>
                            if (length ck =? 0) && (0 <? length (node_pk c)) then None
                            else let '(nc, d) := delete c ck in
                                 if d then Some (nc :: r) else None
                          end
                   | S j => match go r j with Some r' => Some (oc :: r') | None => None end
                   end
                 end) cs (nth n k 0) with
        | None => (Some t, false)
        | Some cs' => (Some (handle_deletion pk ov cs' k), true)
        end
  end.

Fixpoint keys_with_prefix (t : tnode) (prefix k : key) {struct t} : outcome (list key) :=
  match t with
  | Leaf pk _ => if (length k =? 0) || is_prefix k pk then Ok [prefix ++ pk] else Ok []
  | Branch pk ov cs =>
    if (length k =? 0) || is_prefix k pk then Ok (all_keys t prefix)
    else if negb (is_prefix pk k) then Ok []
    else
      match skipn (length pk) k with
      | [] => Panic
      | ci :: ck =>
        (fix go (l : list (option tnode)) (i : nat) {struct l} : outcome (list key) :=
           match l with
           | [] => Ok []
           | oc :: r =>
             match i with
             | O => match oc with
                    | None => Ok []
                    | Some c => keys_with_prefix c (prefix ++ pk ++ [ci]) ck
                    end
             | S j => go r j
             end
           end) cs ci
      end
  end.

(* ====================================================================================
   Byte-level API of InMemoryTrie (keys in "little endian" byte form), pinned tree.
   ==================================================================================== *)
Definition trie_put (t : trie) (k : list byte) (v : value) : trie :=
  Some (insert_opt t (key_le_to_nibbles k) v).

Definition trie_get_pinned (t : trie) (k : list byte) : option value :=
  match t with None => None | Some n => get_pinned n (key_le_to_nibbles k) end.

Definition trie_delete_pinned (t : trie) (k : list byte) : trie :=
  match t with None => None | Some n => fst (delete_pinned n (key_le_to_nibbles k)) end.

(* ClearPrefix: the empty prefix drops the root; otherwise the nibble prefix loses one trailing
   zero nibble (bytes.TrimSuffix) *)
Definition trie_clear_prefix_pinned (t : trie) (p : list byte) : trie :=
  match p with
  | [] => None
  | _ => match t with
         | None => None
         | Some n => fst (clear_prefix_node n (trim_zero_suffix (key_le_to_nibbles p)))
         end
  end.

(* ClearPrefixLimit: (new trie, deleted, allDeleted) *)
Definition trie_clear_prefix_limit_pinned (t : trie) (p : list byte) (limit : N) : trie * N * bool :=
  if (limit =? 0)%N then (t, 0%N, false)
  else match t with
       | None => (None, 0%N, true)
       | Some n => clear_prefix_limit_node n (trim_zero_suffix (key_le_to_nibbles p)) limit
       end.

(* GetKeysWithPrefix *)
Definition trie_keys_with_prefix_pinned (t : trie) (p : list byte) : outcome (list (list byte)) :=
  let pn := match p with [] => [] | _ => trim_zero_suffix (key_le_to_nibbles p) end in
  match t with
  | None => Ok []
  | Some n => match keys_with_prefix_pinned n [] pn with
              | Ok l => Ok (map nibbles_to_key_le l)
              | Err c => Err c | Panic => Panic | OutOfFuel => OutOfFuel
              end
  end.

(* NextKey *)
Definition trie_next_key (t : trie) (k : list byte) : option (list byte) :=
  match t with
  | None => None
  | Some n => match find_next n [] (key_le_to_nibbles k) with
              | Some (fk, _) => Some (nibbles_to_key_le fk)
              | None => None
              end
  end.

(* Entries(): the traversal lists the full keys; each value is fetched with Get(keyLE).
   (The Go result is a map: the driver sorts it and lets a later duplicate win.) *)
Definition trie_entries_pinned (t : trie) : list (list byte * option value) :=
  map (fun kv => let kb := nibbles_to_key_le (fst kv) in (kb, trie_get_pinned t kb)) (entries t).

(* ====================================================================================
   Byte-level API, repaired code.
   ==================================================================================== *)
Definition trie_get (t : trie) (k : list byte) : option value :=
  match t with None => None | Some n => get n (key_le_to_nibbles k) end.

Definition trie_delete (t : trie) (k : list byte) : trie :=
  match t with None => None | Some n => fst (delete n (key_le_to_nibbles k)) end.

Definition trie_clear_prefix := trie_clear_prefix_pinned.
Definition trie_clear_prefix_limit := trie_clear_prefix_limit_pinned.

Definition trie_keys_with_prefix (t : trie) (p : list byte) : outcome (list (list byte)) :=
  let pn := match p with [] => [] | _ => trim_zero_suffix (key_le_to_nibbles p) end in
  match t with
  | None => Ok []
  | Some n => match keys_with_prefix n [] pn with
              | Ok l => Ok (map nibbles_to_key_le l)
              | Err c => Err c | Panic => Panic | OutOfFuel => OutOfFuel
              end
  end.

Definition trie_entries (t : trie) : list (list byte * option value) :=
  map (fun kv => let kb := nibbles_to_key_le (fst kv) in (kb, trie_get t kb)) (entries t).

(* ====================================================================================
   Guards of the known-finding classes get-exhausted-key / delete-exhausted-key (C01, C02, C08):
   the path of the key through the trie uses the key up exactly on entering a node whose partial
   key is not empty.
   ==================================================================================== *)
(* finding get-exhausted-key: the lookup path uses up the key exactly on entering a branch that has
   a non-empty partial key and a value (retrieveFromBranch: len(key) == 0 returns the value) *)
Fixpoint get_exhausted (t : tnode) (k : key) {struct t} : bool :=
  match t with
  | Leaf _ _ => false
  | Branch pk ov cs =>
    if length k =? 0 then negb (length pk =? 0) && is_some ov
    else if key_eqb pk k then false
    else if negb (is_prefix pk k) then false
    else
      let n := cpl pk k in
      let ck := skipn (S n) k in
      (fix go (l : list (option tnode)) (i : nat) {struct l} : bool :=
         match l with
         | [] => false
         | oc :: r =>
           match i with
           | O => match oc with None => false | Some c => get_exhausted c ck end
           | S j => go r j
           end
         end) cs (nth n k 0)
  end.
(* after fixes/C02-get-exhausted-key-nested the class is only reachable at the root: Get of the
   empty key on a root branch with a non-empty partial key and a value *)
Definition guard_get_exhausted (t : trie) (k : list byte) : bool :=
  match k, t with
  | [], Some (Branch pk (Some _) _) => 0 <? length pk
  | _, _ => false
  end.
Definition guard_get_exhausted_pinned (t : trie) (k : list byte) : bool :=
  match t with None => false | Some n => get_exhausted n (key_le_to_nibbles k) end.

(* finding delete-exhausted-key: same path, deleteLeaf / deleteBranch treat len(key) == 0 as a match *)
Fixpoint delete_exhausted (t : tnode) (k : key) {struct t} : bool :=
  match t with
  | Leaf pk _ => (length k =? 0) && negb (length pk =? 0)
  | Branch pk ov cs =>
    if length k =? 0 then negb (length pk =? 0) && is_some ov
    else if key_eqb pk k then false
    else if cpl pk k <? length pk then false
    else
      let n := cpl pk k in
      let ck := skipn (S n) k in
      (fix go (l : list (option tnode)) (i : nat) {struct l} : bool :=
         match l with
         | [] => false
         | oc :: r =>
           match i with
           | O => match oc with None => false | Some c => delete_exhausted c ck end
           | S j => go r j
           end
         end) cs (nth n k 0)
  end.
(* after fixes/C02-delete-exhausted-key-nested: Delete of the empty key on a root leaf with a
   non-empty partial key, or on a root branch with a non-empty partial key and a value *)
Definition guard_delete_exhausted (t : trie) (k : list byte) : bool :=
  match k, t with
  | [], Some (Leaf pk _) => 0 <? length pk
  | [], Some (Branch pk (Some _) _) => 0 <? length pk
  | _, _ => false
  end.
Definition guard_delete_exhausted_pinned (t : trie) (k : list byte) : bool :=
  match t with None => false | Some n => delete_exhausted n (key_le_to_nibbles k) end.

(* ====================================================================================
   Guard of the known-finding class prefix-trim (C02, C38).
   ==================================================================================== *)
(* what the Go code matches a byte prefix with: the nibble prefix minus one trailing zero nibble *)
Definition go_prefix (p k : list byte) : bool :=
  is_prefix (trim_zero_suffix (key_le_to_nibbles p)) (key_le_to_nibbles k).

(* finding prefix-trim: some stored key matches the trimmed nibble prefix but not the byte prefix *)
Definition guard_trim (m : list (list byte * value)) (p : list byte) : bool :=
  existsb (fun e => go_prefix p (fst e) && negb (bytes_prefix p (fst e))) m.


(* ====================================================================================
   Guards of the known-finding classes clear-limit-zero and clear-limit-order (C02).
   ==================================================================================== *)
(* limit 0 and no key has the prefix (Go reports allDeleted = false) *)
Definition guard_limit_zero (m : list (list byte * value)) (p : list byte) (limit : N) : bool :=
  (limit =? 0)%N && forallb (fun e => negb (bytes_prefix p (fst e))) m.

(* 0 < limit < number of matching keys and the (limit+1)-th matching key extends one of the first
   [limit] (Go removes a key that is a prefix of other matching keys after them) *)
Definition guard_limit_order (m : list (list byte * value)) (p : list byte) (limit : N) : bool :=
  let M := map fst (filter (fun e => bytes_prefix p (fst e)) m) in
  let l := N.to_nat limit in
  (0 <? l) && (l <? length M) && existsb (fun k => bytes_prefix k (nth l M [])) (firstn l M).
