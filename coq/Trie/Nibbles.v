(* Trie/Nibbles.v — nibble keys (definitions only).
   Mirrors pkg/trie/codec/nibbles.go (KeyLEToNibbles, NibblesToKeyLE) and the byte-slice helpers the
   in-memory trie uses on nibble slices (bytes.Equal, bytes.HasPrefix, bytes.Compare,
   lenCommonPrefix, bytes.TrimSuffix(_, {0})).
   A nibble is a [nat] (invariant: < 16); a key is a list of nibbles. *)
From Common Require Import Bytes.
From Coq Require Import Arith.
Local Open Scope nat_scope.

Definition nibble := nat.
Definition key := list nibble.
Definition value := list byte.

Definition hi_nib (b : byte) : nibble := N.to_nat (b2n b / 16).
Definition lo_nib (b : byte) : nibble := N.to_nat (b2n b mod 16).

(* codec.KeyLEToNibbles: two nibbles per byte, high one first *)
Fixpoint key_le_to_nibbles (k : list byte) : key :=
  match k with
  | [] => []
  | b :: r => hi_nib b :: lo_nib b :: key_le_to_nibbles r
  end.

(* (a << 4 & 0xf0) | (b & 0xf) on Go bytes *)
Definition nib_byte (a b : nibble) : byte :=
  n2b (N.of_nat (a mod 16) * 16 + N.of_nat (b mod 16)).

Fixpoint pack_pairs (l : key) : list byte :=
  match l with
  | a :: b :: r => nib_byte a b :: pack_pairs r
  | _ => []
  end.

(* codec.NibblesToKeyLE: odd length puts the first nibble alone in the first byte *)
Definition nibbles_to_key_le (l : key) : list byte :=
  if Nat.even (length l) then pack_pairs l
  else match l with
       | [] => []
       | a :: r => n2b (N.of_nat a) :: pack_pairs r
       end.

Definition nibbles_ok (k : key) : Prop := Forall (fun x => x < 16) k.
Definition nibbles_okb (k : key) : bool := forallb (fun x => x <? 16) k.

(* bytes.Equal *)
Fixpoint key_eqb (a b : key) : bool :=
  match a, b with
  | [], [] => true
  | x :: a', y :: b' => (x =? y) && key_eqb a' b'
  | _, _ => false
  end.

(* bytes.HasPrefix(k, p) *)
Fixpoint is_prefix (p k : key) : bool :=
  match p, k with
  | [], _ => true
  | x :: p', y :: k' => (x =? y) && is_prefix p' k'
  | _ :: _, [] => false
  end.

(* lenCommonPrefix *)
Fixpoint cpl (a b : key) : nat :=
  match a, b with
  | x :: a', y :: b' => if x =? y then S (cpl a' b') else 0
  | _, _ => 0
  end.

(* bytes.Compare on nibble slices: lexicographic, a proper prefix is smaller *)
Fixpoint key_compare (a b : key) : comparison :=
  match a, b with
  | [], [] => Eq
  | [], _ :: _ => Lt
  | _ :: _, [] => Gt
  | x :: a', y :: b' =>
    match Nat.compare x y with
    | Eq => key_compare a' b'
    | c => c
    end
  end.
Definition key_ltb (a b : key) : bool := match key_compare a b with Lt => true | _ => false end.

(* bytes.TrimSuffix(k, []byte{0}): drops ONE trailing zero nibble if there is one *)
Fixpoint trim_zero_suffix (k : key) : key :=
  match k with
  | [] => []
  | [x] => if x =? 0 then [] else [x]
  | x :: r => x :: trim_zero_suffix r
  end.

(* bytes.Compare / bytes.HasPrefix on byte strings (the abstract ordered map is keyed by these) *)
Fixpoint bytes_compare (a b : list byte) : comparison :=
  match a, b with
  | [], [] => Eq
  | [], _ :: _ => Lt
  | _ :: _, [] => Gt
  | x :: a', y :: b' =>
    match N.compare (b2n x) (b2n y) with
    | Eq => bytes_compare a' b'
    | c => c
    end
  end.
Definition bytes_ltb (a b : list byte) : bool := match bytes_compare a b with Lt => true | _ => false end.
Fixpoint bytes_prefix (p k : list byte) : bool :=
  match p, k with
  | [], _ => true
  | x :: p', y :: k' => byte_eqb x y && bytes_prefix p' k'
  | _ :: _, [] => false
  end.
