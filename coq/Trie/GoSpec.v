(* Trie/GoSpec.v — what the three prefix operations of the Go trie compute, as functions of the
   ordered byte-string map (definitions only; added by the audit round).
   GetKeysWithPrefix / ClearPrefix / ClearPrefixLimit match a byte prefix p through
   go_prefix p k = "the nibbles of k start with the nibbles of p minus ONE trailing zero nibble"
   (bytes.TrimSuffix(prefixNibbles, {0}), known finding prefix-trim).  The go_* functions below are
   the ordered-map operations with that matching rule; Trie/GoPrefixProofs.v proves that the trie
   model computes exactly them — with no guard for the key listing and the unlimited clear, and
   outside the order guard for the limited clear — and says when they coincide with the
   byte-wise operations bm_* of Spec.v. *)
From Common Require Import Bytes.
From Trie Require Import Nibbles Node Encode Model Spec.
From Coq Require Import Arith.
Local Open Scope nat_scope.

Definition gmatch (p : list byte) (e : list byte * value) : bool := go_prefix p (fst e).
Definition bmatch_b (p : list byte) (e : list byte * value) : bool := bytes_prefix p (fst e).

Definition go_keys_with_prefix (m : bmap) (p : list byte) : list (list byte) :=
  map fst (filter (gmatch p) m).
Definition go_clear_prefix (m : bmap) (p : list byte) : bmap :=
  filter (fun e => negb (gmatch p e)) m.

(* remove the [limit] smallest entries that satisfy f; (map, removed, none remain) *)
Fixpoint clear_limit_by (f : list byte * value -> bool) (m : bmap) (limit : N) : bmap * N * bool :=
  match m with
  | [] => ([], 0%N, true)
  | e :: r =>
    if f e then
      if (limit =? 0)%N then (m, 0%N, false)
      else let '(r', n, a) := clear_limit_by f r (limit - 1)%N in (r', (n + 1)%N, a)
    else let '(r', n, a) := clear_limit_by f r limit in (e :: r', n, a)
  end.
(* ClearPrefixLimit: limit 0 returns (0, false) without looking at the trie *)
Definition go_clear_prefix_limit (m : bmap) (p : list byte) (limit : N) : bmap * N * bool :=
  if (limit =? 0)%N then (m, 0%N, false) else clear_limit_by (gmatch p) m limit.

(* clear-limit-order on the keys the Go code matches: 0 < limit < matches and the (limit+1)-th
   matching key extends one of the first [limit] *)
Definition guard_limit_order_go (m : bmap) (p : list byte) (limit : N) : bool :=
  let M := map fst (filter (gmatch p) m) in
  let l := N.to_nat limit in
  (0 <? l) && (l <? length M) && existsb (fun k => bytes_prefix k (nth l M [])) (firstn l M).

(* prefix-trim for the limited clear, for 0 < limit: one of the [limit] smallest keys the Go code
   matches does not have the byte prefix (so a key is removed that must stay), or the two
   matching rules disagree on "no matching key remains" *)
Definition guard_trim_limit (m : bmap) (p : list byte) (limit : N) : bool :=
  let l := N.to_nat limit in
  let G := filter (gmatch p) m in
  let B := filter (bmatch_b p) m in
  negb (forallb (bmatch_b p) (firstn l G)) || negb (Bool.eqb (length G <=? l) (length B <=? l)).
