(* Trie/DeleteProofs.v — L2/L3 for handle_deletion and delete. *)
From Common Require Import Bytes Outcome.
From Trie Require Import Nibbles Node Model NibblesProofs Sem InsertProofs.
From Coq Require Import Arith Lia.
Local Open Scope nat_scope.

(* ---------- a node under a longer path ---------- *)
Definition prepend (q : key) (t : tnode) : tnode :=
  match t with
  | Leaf pk v => Leaf (q ++ pk) v
  | Branch pk ov cs => Branch (q ++ pk) ov cs
  end.

Lemma nth_app_shift0 (q : key) r n : nth (length q + n) (q ++ r) 0 = nth n r 0.
Proof. induction q; simpl; auto. Qed.
Lemma skipn_app_shift0 (q : key) r n : skipn (length q + n) (q ++ r) = skipn n r.
Proof. induction q; simpl; auto. Qed.

Lemma lookup_prepend_in q t r : lookup (prepend q t) (q ++ r) = lookup t r.
Proof.
  destruct t as [pk v|pk ov cs]; simpl prepend.
  - rewrite !lookup_leaf. now rewrite key_eqb_app_l.
  - rewrite !lookup_branch. rewrite key_eqb_app_l, is_prefix_app_inv, app_length.
    rewrite nth_app_shift0.
    replace (S (length q + length pk)) with (length q + S (length pk)) by lia.
    now rewrite skipn_app_shift0.
Qed.
Lemma lookup_prepend_out q t k : is_prefix q k = false -> lookup (prepend q t) k = None.
Proof.
  intros E. destruct t as [pk v|pk ov cs]; simpl prepend.
  - rewrite lookup_leaf. now rewrite key_eqb_out_l.
  - apply lookup_branch_out. destruct (is_prefix (q ++ pk) k) eqn:P; auto.
    rewrite (is_prefix_trans q (q ++ pk) k) in E; auto. apply is_prefix_app.
Qed.
Lemma Canon_prepend q t : nibbles_ok q -> Canon t -> Canon (prepend q t).
Proof.
  intros Hq C. destruct t as [pk v|pk ov cs]; simpl.
  - inversion C; subst. constructor. now apply nibbles_ok_app.
  - apply Canon_branch_inv in C as (Hpk & L & F & C1 & C2).
    apply Canon_branch'; auto. now apply nibbles_ok_app.
Qed.
Lemma Canon_nibbles_ok t : Canon t -> nibbles_ok (node_pk t).
Proof. intros C; inversion C; subst; auto. Qed.

(* ---------- handle_deletion ---------- *)
Lemma handle_deletion_merge pk cs k i c :
  count_children cs = 1 -> first_child cs 0 = Some (i, c) ->
  handle_deletion pk None cs k = prepend (pk ++ [i]) c.
Proof.
  intros C E. unfold handle_deletion. rewrite C, E.
  destruct c; simpl; now rewrite <- app_assoc.
Qed.

Lemma first_child_exists cs : 1 <= count_children cs -> exists i c, first_child cs 0 = Some (i, c).
Proof.
  intros C. destruct (first_child cs 0) as [[i c]|] eqn:E; eauto.
  apply first_child_none in E. lia.
Qed.

Lemma child_at_lt cs i (c : tnode) : child_at cs i = Some c -> i < length cs.
Proof.
  intros E. destruct (Nat.lt_ge_cases i (length cs)); auto.
  rewrite child_at_oob in E by lia. discriminate.
Qed.

Lemma lookup_branch_no_children pk ov cs k :
  count_children cs = 0 -> lookup (Branch pk ov cs) k = if key_eqb pk k then ov else None.
Proof.
  intros C. rewrite lookup_branch. destruct (key_eqb pk k); auto.
  destruct (is_prefix pk k); auto.
  rewrite (proj1 (count_children_zero cs) C). reflexivity.
Qed.

Lemma handle_deletion_spec pk ov cs k :
  nibbles_ok pk -> length cs = 16 -> Forall (opt_all Canon) cs -> 1 <= occupants ov cs ->
  is_prefix pk k = true ->
  Canon (handle_deletion pk ov cs k) /\
  forall k', lookup (handle_deletion pk ov cs k) k' = lookup (Branch pk ov cs) k'.
Proof.
  intros Hpk L F O P. unfold occupants in O.
  assert (Epk : firstn (cpl pk k) k = pk).
  { apply cpl_prefix_l in P. rewrite P. apply is_prefix_firstn. now apply cpl_prefix_l. }
  destruct (count_children cs) as [|[|n]] eqn:C.
  - destruct ov as [v|]; [|simpl in O; lia].
    unfold handle_deletion. rewrite C, Epk. split; [now constructor|].
    intros k'. rewrite lookup_branch_no_children by exact C. reflexivity.
  - destruct ov as [v|].
    + unfold handle_deletion. rewrite C. split; [|reflexivity].
      apply Canon_branch'; auto; [lia|unfold occupants; simpl; lia].
    + destruct (first_child_exists cs) as (i & c & E); [lia|].
      rewrite (handle_deletion_merge pk cs k i c C E).
      destruct (first_child_spec _ _ _ _ E) as (_ & A & _). rewrite Nat.sub_0_r in A.
      pose proof (Forall_child_at _ _ _ _ F A) as Cc.
      pose proof (child_at_lt _ _ _ A) as Li.
      split.
      * apply Canon_prepend; auto. apply nibbles_ok_app. split; auto.
        apply nibbles_ok_cons. split; [lia|constructor].
      * intros k'. destruct (under_total pk k') as [->|j r' ->|U].
        -- rewrite lookup_branch_self. apply lookup_prepend_out.
           rewrite <- (app_nil_r pk) at 2. rewrite is_prefix_app_inv. reflexivity.
        -- rewrite lookup_branch_child. destruct (Nat.eq_dec j i) as [->|Nj].
           ++ rewrite A. cbn [lookup_opt].
              change (pk ++ i :: r') with (pk ++ [i] ++ r'). rewrite app_assoc.
              apply lookup_prepend_in.
           ++ rewrite (count_children_one cs i c C A j Nj). cbn [lookup_opt].
              apply lookup_prepend_out. rewrite is_prefix_app_inv. simpl.
              apply Nat.eqb_neq in Nj. now rewrite Nat.eqb_sym, Nj.
        -- rewrite lookup_branch_out by exact U. apply lookup_prepend_out.
           destruct (is_prefix (pk ++ [i]) k') eqn:Q; auto.
           rewrite (is_prefix_trans pk (pk ++ [i]) k') in U; auto. apply is_prefix_app.
  - unfold handle_deletion. rewrite C. split.
    + apply Canon_branch'; auto; [lia|unfold occupants; lia].
    + destruct ov; reflexivity.
Qed.

(* ---------- the equations of delete ---------- *)
Lemma delete_leaf pk v k :
  delete (Leaf pk v) k =
  if (0 <? length k) && negb (key_eqb k pk) then (Some (Leaf pk v), false) else (None, true).
Proof. reflexivity. Qed.

Lemma delete_branch pk ov cs k :
  delete (Branch pk ov cs) k =
  if (length k =? 0) || key_eqb pk k then (Some (handle_deletion pk None cs k), true)
  else
    let n := cpl pk k in
    if n <? length pk then (Some (Branch pk ov cs), false)
    else
      let ck := skipn (S n) k in
      let i := nth n k 0 in
      match child_at cs i with
      | None => (Some (Branch pk ov cs), false)
      | Some c =>
        if (length ck =? 0) && (0 <? length (node_pk c)) then (Some (Branch pk ov cs), false)
        else if snd (delete c ck)
             then (Some (handle_deletion pk ov (set_child cs i (fst (delete c ck))) k), true)
             else (Some (Branch pk ov cs), false)
      end.
Proof.
  cbn [delete]. destruct ((length k =? 0) || key_eqb pk k); auto.
  cbv zeta. destruct (cpl pk k <? length pk); auto.
  generalize (nth (cpl pk k) k 0) as i. generalize (skipn (S (cpl pk k)) k) as ck. intros ck.
  assert (G : forall l i,
    (fix go (l : list (option tnode)) (i : nat) {struct l} : option (list (option tnode)) :=
       match l with
       | [] => None
       | oc :: r =>
         match i with
         | O => match oc with
                | None => None
                | Some c =>
                  if (length ck =? 0) && (0 <? length (node_pk c)) then None
                  else let '(nc, d) := delete c ck in if d then Some (nc :: r) else None
                end
         | S j => match go r j with Some r' => Some (oc :: r') | None => None end
         end
       end) l i =
    match child_at l i with
    | None => None
    | Some c => if (length ck =? 0) && (0 <? length (node_pk c)) then None
                else if snd (delete c ck) then Some (set_child l i (fst (delete c ck))) else None
    end).
  { unfold child_at. induction l as [|oc r IH]; intros [|i]; cbn [nth set_child]; auto.
    - destruct oc as [c|]; auto. destruct ((length ck =? 0) && (0 <? length (node_pk c))); auto.
      destruct (delete c ck) as [nc d]. reflexivity.
    - rewrite IH. destruct (nth i r None) as [c|]; auto.
      destruct ((length ck =? 0) && (0 <? length (node_pk c))); auto.
      destruct (snd (delete c ck)); auto. }
  intros i. rewrite G. destruct (child_at cs i) as [c|]; auto.
  destruct ((length ck =? 0) && (0 <? length (node_pk c))); auto.
  destruct (snd (delete c ck)); auto.
Qed.

(* ---------- correctness of delete ---------- *)
Definition delete_spec (t : tnode) (k : key) : Prop :=
  Canon_opt (fst (delete t k)) /\
  (forall k', lookup_opt (fst (delete t k)) k' = if key_eqb k k' then None else lookup t k') /\
  (snd (delete t k) = false -> fst (delete t k) = Some t).

(* the state in which the empty-key quirk is not met: the key is not exhausted on entering a
   node with a non-empty partial key *)
Definition not_exhausted (t : tnode) (k : key) : Prop := k <> [] \/ node_pk t = [].

Lemma occupants_set_child_ge ov cs i oc :
  2 <= occupants ov cs -> 1 <= occupants ov (set_child cs i oc).
Proof.
  unfold occupants. intros H.
  destruct (Nat.lt_ge_cases i (length cs)) as [Li|Li]; [|rewrite set_child_oob by lia; lia].
  destruct oc as [c|].
  - rewrite count_children_set_some by lia. lia.
  - destruct (child_at cs i) as [c|] eqn:E.
    + rewrite (count_children_set_none _ _ _ E). lia.
    + replace (set_child cs i None) with cs; [lia|].
      rewrite <- E. now rewrite set_child_same.
Qed.

Theorem delete_correct t : forall k, Canon t -> nibbles_ok k -> not_exhausted t k -> delete_spec t k.
Proof.
  induction t as [pk lv|pk ov cs IH] using tnode_ind'; intros k C Hk NE; unfold delete_spec.
  - rewrite delete_leaf. destruct (key_eqb_spec k pk) as [->|N].
    + rewrite andb_false_r. cbn [fst snd]. split; [exact I|]. split; [|discriminate].
      intros k'. cbn [lookup_opt]. rewrite lookup_leaf. destruct (key_eqb pk k'); reflexivity.
    + destruct k as [|x k].
      * destruct NE as [NE|NE]; [congruence|]. simpl in NE. subst. congruence.
      * cbn [length Nat.ltb Nat.leb andb negb fst snd]. split; [exact C|]. split; [|reflexivity].
        intros k'. cbn [lookup_opt]. rewrite lookup_leaf.
        destruct (key_eqb_spec (x :: k) k') as [<-|]; auto.
        apply key_eqb_neq in N. now rewrite key_eqb_sym, N.
  - apply Canon_branch_inv in C as (Hpk & L & F & C1 & C2).
    rewrite delete_branch.
    assert (EQ : (length k =? 0) || key_eqb pk k = key_eqb pk k).
    { destruct k as [|x k]; [|reflexivity]. destruct NE as [NE|NE]; [congruence|].
      simpl in NE. subst. reflexivity. }
    rewrite EQ. destruct (key_eqb_spec pk k) as [<-|N].
    + (* the branch's own key *)
      destruct (handle_deletion_spec pk None cs pk Hpk L F) as [Hc Hl].
      { unfold occupants in *. simpl. lia. }
      { apply is_prefix_refl. }
      cbn [fst snd]. split; [exact Hc|]. split; [|discriminate].
      intros k'. cbn [lookup_opt]. rewrite Hl, !lookup_branch. destruct (key_eqb pk k'); reflexivity.
    + cbv zeta. destruct (Nat.ltb_spec (cpl pk k) (length pk)) as [Lt|Ge].
      * (* the key leaves the partial key *)
        cbn [fst snd]. split; [now apply Canon_branch'|]. split; [|reflexivity].
        intros k'. cbn [lookup_opt]. destruct (key_eqb_spec k k') as [<-|]; auto.
        apply lookup_branch_out. destruct (is_prefix pk k) eqn:P; auto.
        apply cpl_prefix_l in P. lia.
      * assert (P : is_prefix pk k = true).
        { apply cpl_prefix_l. pose proof (cpl_le_l pk k). lia. }
        assert (Lk : length pk < length k).
        { pose proof (is_prefix_length _ _ P). destruct (Nat.eq_dec (length pk) (length k)); [|lia].
          exfalso. apply N. now apply is_prefix_same_length. }
        rewrite (proj2 (cpl_prefix_l pk k) P).
        set (i := nth (length pk) k 0). set (ck := skipn (S (length pk)) k).
        assert (Ek : k = pk ++ i :: ck) by (apply is_prefix_split; auto).
        assert (Unchanged : forall k', (forall r', k' = pk ++ i :: r' -> key_eqb ck r' = true ->
                                          lookup_opt (child_at cs i) r' = None) ->
                  lookup_opt (Some (Branch pk ov cs)) k' =
                  if key_eqb k k' then None else lookup (Branch pk ov cs) k').
        { intros k' Hn. cbn [lookup_opt]. destruct (key_eqb_spec k k') as [<-|]; auto.
          rewrite Ek at 1. rewrite lookup_branch_child. apply (Hn ck); auto. apply key_eqb_refl. }
        destruct (child_at cs i) as [c|] eqn:E.
        -- pose proof (Forall_child_at _ _ _ _ F E) as Cc.
           pose proof (Forall_child_at _ _ _ _ IH E) as IHc. simpl in IHc.
           assert (Hck : nibbles_ok ck).
           { rewrite Ek in Hk. apply nibbles_ok_app in Hk as [_ Hk].
             now apply nibbles_ok_cons in Hk as [_ Hk]. }
           destruct ((length ck =? 0) && (0 <? length (node_pk c))) eqn:X.
           ++ (* exhausted key at a child with a longer key *)
              cbn [fst snd]. split; [now apply Canon_branch'|]. split; [|reflexivity].
              intros k'. apply Unchanged. intros r' -> Er. apply key_eqb_eq in Er. subst r'.
              cbn [lookup_opt]. apply andb_true_iff in X as [X1 X2].
              apply Nat.eqb_eq in X1. apply Nat.ltb_lt in X2.
              apply length_zero_iff_nil in X1. rewrite X1.
              destruct c as [cpk cv|cpk cov ccs]; simpl in X2.
              ** rewrite lookup_leaf. destruct cpk; [simpl in X2; lia|reflexivity].
              ** apply lookup_branch_out. destruct cpk; [simpl in X2; lia|reflexivity].
           ++ assert (NEc : not_exhausted c ck).
              { unfold not_exhausted. apply andb_false_iff in X as [X|X].
                - left. apply Nat.eqb_neq in X. destruct ck; [simpl in X; lia|discriminate].
                - right. apply Nat.ltb_ge in X. destruct (node_pk c); [reflexivity|simpl in X; lia]. }
              destruct (IHc ck Cc Hck NEc) as (Dc & Dl & Du).
              destruct (snd (delete c ck)) eqn:D.
              ** (* the child changed *)
                 set (nc := fst (delete c ck)) in *.
                 destruct (handle_deletion_spec pk ov (set_child cs i nc) k Hpk) as [Hc Hl].
                 { now rewrite set_child_length. }
                 { apply Forall_set_child; auto. }
                 { now apply occupants_set_child_ge. }
                 { exact P. }
                 cbn [fst snd]. split; [exact Hc|]. split; [|discriminate].
                 intros k'. cbn [lookup_opt]. rewrite Hl.
                 destruct (under_total pk k') as [->|j r' ->|U].
                 --- rewrite !lookup_branch_self. rewrite Ek, key_eqb_prefix_l. reflexivity.
                 --- rewrite !lookup_branch_child. rewrite Ek, key_eqb_app_l, key_eqb_cons.
                     destruct (Nat.eq_dec j i) as [->|Nj].
                     +++ rewrite Nat.eqb_refl. cbn [andb].
                         rewrite child_at_set_child_same by (apply child_at_lt in E; exact E).
                         rewrite ?E. cbn [lookup_opt]. apply Dl.
                     +++ rewrite child_at_set_child_other by congruence.
                         apply Nat.eqb_neq in Nj. now rewrite Nat.eqb_sym, Nj.
                 --- rewrite !lookup_branch_out by exact U. rewrite Ek, key_eqb_out_l by exact U. reflexivity.
              ** (* the child did not change *)
                 cbn [fst snd]. split; [now apply Canon_branch'|]. split; [|reflexivity].
                 intros k'. apply Unchanged. intros r' -> Er. apply key_eqb_eq in Er. subst r'.
                 rewrite ?E. cbn [lookup_opt]. specialize (Du eq_refl). specialize (Dl ck).
                 rewrite Du, key_eqb_refl in Dl. exact Dl.
        -- (* no child on the path *)
           cbn [fst snd]. split; [now apply Canon_branch'|]. split; [|reflexivity].
           intros k'. apply Unchanged. intros r' _ _. reflexivity.
Qed.
