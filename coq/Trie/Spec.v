(* Trie/Spec.v — the specification side (definitions only).
   1. kv: finite maps from nibble keys to values as association lists sorted by key_compare,
      with get/put/del.
   2. build: the canonical radix-16 Patricia trie of a kv map, constructed by longest common
      prefix and bucketing on the next nibble (no reference to the Go insertion algorithm);
      spec_root H ver m: the Polkadot/Substrate Merkle-Patricia root of m.
   3. bmap: the ordered map over byte-string keys that the trie API must behave as (C02/C38):
      get, put, del, next_key, keys_with_prefix, clear_prefix, clear_prefix_limit. *)
From Common Require Import Bytes.
From Trie Require Import Nibbles Node Encode.
From Coq Require Import Arith.
Local Open Scope nat_scope.

(* ---------- 1. sorted association lists over nibble keys ---------- *)
Definition kv := list (key * value).

Fixpoint kv_get (m : kv) (k : key) : option value :=
  match m with
  | [] => None
  | (k', v) :: r => if key_eqb k' k then Some v else kv_get r k
  end.

Fixpoint kv_put (m : kv) (k : key) (v : value) : kv :=
  match m with
  | [] => [(k, v)]
  | (k', v') :: r =>
    match key_compare k k' with
    | Lt => (k, v) :: m
    | Eq => (k, v) :: r
    | Gt => (k', v') :: kv_put r k v
    end
  end.

Fixpoint kv_del (m : kv) (k : key) : kv :=
  match m with
  | [] => []
  | (k', v') :: r => if key_eqb k' k then r else (k', v') :: kv_del r k
  end.

Definition kv_of_list (l : list (key * value)) : kv :=
  fold_left (fun m e => kv_put m (fst e) (snd e)) l [].

Fixpoint kv_sorted (m : kv) : bool :=
  match m with
  | [] => true
  | (k, _) :: r => match r with
                   | [] => true
                   | (k', _) :: _ => key_ltb k k' && kv_sorted r
                   end
  end.

(* ---------- 2. canonical trie of a map ---------- *)
(* longest common prefix *)
Fixpoint lcp (a b : key) : key :=
  match a, b with
  | x :: a', y :: b' => if x =? y then x :: lcp a' b' else []
  | _, _ => []
  end.
Definition lcp_all (ks : list key) : key :=
  match ks with [] => [] | k :: r => fold_left lcp r k end.

(* drop n nibbles from every key *)
Definition strip (n : nat) (m : kv) : kv := map (fun e => (skipn n (fst e), snd e)) m.
(* the entries whose key starts with nibble i, without that nibble *)
Fixpoint bucket (i : nibble) (m : kv) : kv :=
  match m with
  | [] => []
  | (x :: k', v) :: r => if x =? i then (k', v) :: bucket i r else bucket i r
  | ([], _) :: r => bucket i r
  end.

Definition max_key_len (m : kv) : nat := fold_right (fun e a => Nat.max (length (fst e)) a) 0 m.

Fixpoint build (fuel : nat) (m : kv) : option tnode :=
  match fuel with
  | O => None
  | S f =>
    match m with
    | [] => None
    | [(k, v)] => Some (Leaf k v)
    | _ =>
      let p := lcp_all (map fst m) in
      let m' := strip (length p) m in
      Some (Branch p (kv_get m' []) (map (fun i => build f (bucket i m')) (seq 0 16)))
    end
  end.

Definition build_trie (m : kv) : trie := build (S (max_key_len m)) m.

Section Root.
  Variable H : list byte -> list byte.
  Variable ver : version.
  (* the spec root: H(0x00) for the empty map, else the hash of the encoding of the canonical trie *)
  Definition spec_root (m : kv) : list byte := trie_root H ver (build_trie m).
End Root.

(* ---------- 3. ordered map over byte-string keys ---------- *)
Definition bmap := list (list byte * value).

Fixpoint bm_get (m : bmap) (k : list byte) : option value :=
  match m with
  | [] => None
  | (k', v) :: r => if bytes_eqb k' k then Some v else bm_get r k
  end.

Fixpoint bm_put (m : bmap) (k : list byte) (v : value) : bmap :=
  match m with
  | [] => [(k, v)]
  | (k', v') :: r =>
    match bytes_compare k k' with
    | Lt => (k, v) :: m
    | Eq => (k, v) :: r
    | Gt => (k', v') :: bm_put r k v
    end
  end.

Fixpoint bm_del (m : bmap) (k : list byte) : bmap :=
  match m with
  | [] => []
  | (k', v') :: r => if bytes_eqb k' k then r else (k', v') :: bm_del r k
  end.

(* smallest key strictly greater than k *)
Fixpoint bm_next_key (m : bmap) (k : list byte) : option (list byte) :=
  match m with
  | [] => None
  | (k', _) :: r => if bytes_ltb k k' then Some k' else bm_next_key r k
  end.

(* keys starting (byte-wise) with p, ascending *)
Definition bm_keys_with_prefix (m : bmap) (p : list byte) : list (list byte) :=
  map fst (filter (fun e => bytes_prefix p (fst e)) m).

Definition bm_clear_prefix (m : bmap) (p : list byte) : bmap :=
  filter (fun e => negb (bytes_prefix p (fst e))) m.

(* remove the [limit] smallest keys starting with p; (map, removed, none remain) *)
Fixpoint bm_clear_prefix_limit (m : bmap) (p : list byte) (limit : N) : bmap * N * bool :=
  match m with
  | [] => ([], 0%N, true)
  | (k, v) :: r =>
    if bytes_prefix p k then
      if (limit =? 0)%N then (m, 0%N, false)
      else let '(r', n, a) := bm_clear_prefix_limit r p (limit - 1)%N in (r', (n + 1)%N, a)
    else let '(r', n, a) := bm_clear_prefix_limit r p limit in ((k, v) :: r', n, a)
  end.

Definition bm_of_list (l : list (list byte * value)) : bmap :=
  fold_left (fun m e => bm_put m (fst e) (snd e)) l [].

Fixpoint bm_sorted (m : bmap) : bool :=
  match m with
  | [] => true
  | (k, _) :: r => match r with
                   | [] => true
                   | (k', _) :: _ => bytes_ltb k k' && bm_sorted r
                   end
  end.

Definition kv_of_bmap (m : bmap) : kv := map (fun e => (key_le_to_nibbles (fst e), snd e)) m.

(* the spec root of a byte-keyed state *)
Definition spec_root_bytes (H : list byte -> list byte) (ver : version) (m : bmap) : list byte :=
  spec_root H ver (kv_of_bmap m).
