(* Trie/NibblesProofs.v — L0: lemmas about nibble keys and their relation to byte keys. *)
From Common Require Import Bytes.
From Trie Require Import Nibbles.
From Coq Require Import Arith Lia ZifyN ZifyNat ZifyBool.
Local Open Scope nat_scope.

(* ---------- key_eqb ---------- *)
Lemma key_eqb_spec a b : reflect (a = b) (key_eqb a b).
Proof.
  revert b; induction a as [|x a IH]; intros [|y b]; simpl; try (constructor; congruence).
  destruct (Nat.eqb_spec x y) as [->|N]; simpl.
  - destruct (IH b); constructor; congruence.
  - constructor; congruence.
Qed.
Lemma key_eqb_refl a : key_eqb a a = true.
Proof. destruct (key_eqb_spec a a); congruence. Qed.
Lemma key_eqb_eq a b : key_eqb a b = true <-> a = b.
Proof. destruct (key_eqb_spec a b); split; congruence. Qed.
Lemma key_eqb_neq a b : key_eqb a b = false <-> a <> b.
Proof. destruct (key_eqb_spec a b); split; congruence. Qed.
Lemma key_eqb_sym a b : key_eqb a b = key_eqb b a.
Proof. destruct (key_eqb_spec a b), (key_eqb_spec b a); congruence. Qed.

(* ---------- is_prefix ---------- *)
Lemma is_prefix_app p s : is_prefix p (p ++ s) = true.
Proof. induction p; simpl; auto. now rewrite Nat.eqb_refl. Qed.
Lemma is_prefix_refl p : is_prefix p p = true.
Proof. rewrite <- (app_nil_r p) at 2. apply is_prefix_app. Qed.
Lemma is_prefix_spec p k : is_prefix p k = true <-> exists s, k = p ++ s.
Proof.
  split.
  - revert k; induction p as [|x p IH]; intros k Hp; simpl in *.
    + now exists k.
    + destruct k as [|y k]; [discriminate|].
      apply andb_true_iff in Hp as [E Hp]. apply Nat.eqb_eq in E; subst.
      destruct (IH _ Hp) as [s ->]. now exists s.
  - intros [s ->]. apply is_prefix_app.
Qed.
Lemma is_prefix_nil_r p : is_prefix p [] = true -> p = [].
Proof. destruct p; simpl; congruence. Qed.
Lemma is_prefix_length p k : is_prefix p k = true -> length p <= length k.
Proof. intros H; apply is_prefix_spec in H as [s ->]. rewrite app_length; lia. Qed.
Lemma is_prefix_firstn p k : is_prefix p k = true <-> firstn (length p) k = p /\ length p <= length k.
Proof.
  split.
  - intros H; apply is_prefix_spec in H as [s ->]. split.
    + now rewrite firstn_app, Nat.sub_diag, firstn_all, app_nil_r.
    + rewrite app_length; lia.
  - intros [H _]. rewrite <- (firstn_skipn (length p) k), H. apply is_prefix_app.
Qed.
Lemma is_prefix_trans a b c : is_prefix a b = true -> is_prefix b c = true -> is_prefix a c = true.
Proof.
  intros H1 H2. apply is_prefix_spec in H1 as [s ->]. apply is_prefix_spec in H2 as [s' ->].
  rewrite <- app_assoc. apply is_prefix_app.
Qed.
Lemma is_prefix_same_length p k : is_prefix p k = true -> length p = length k -> p = k.
Proof.
  intros H L. apply is_prefix_spec in H as [s ->]. rewrite app_length in L.
  destruct s; [now rewrite app_nil_r|simpl in L; lia].
Qed.
Lemma is_prefix_app_inv p a b : is_prefix (p ++ a) (p ++ b) = is_prefix a b.
Proof. induction p; simpl; auto. now rewrite Nat.eqb_refl. Qed.
Lemma is_prefix_antisym a b : is_prefix a b = true -> is_prefix b a = true -> a = b.
Proof.
  intros H1 H2. apply is_prefix_same_length; auto.
  apply is_prefix_length in H1, H2. lia.
Qed.
(* two prefixes of the same key are comparable *)
Lemma is_prefix_comparable a b k :
  is_prefix a k = true -> is_prefix b k = true -> length a <= length b -> is_prefix a b = true.
Proof.
  revert b k; induction a as [|x a IH]; intros b k Ha Hb L; simpl; auto.
  destruct k as [|z k]; [discriminate|]. destruct b as [|y b]; [simpl in L; lia|].
  simpl in *. apply andb_true_iff in Ha as [E1 Ha], Hb as [E2 Hb].
  apply Nat.eqb_eq in E1, E2; subst. rewrite Nat.eqb_refl; simpl. apply (IH b k); auto; lia.
Qed.

(* ---------- cpl ---------- *)
Lemma cpl_le_l a b : cpl a b <= length a.
Proof. revert b; induction a as [|x a IH]; intros [|y b]; simpl; try lia. destruct (x =? y); [specialize (IH b)|]; lia. Qed.
Lemma cpl_le_r a b : cpl a b <= length b.
Proof. revert b; induction a as [|x a IH]; intros [|y b]; simpl; try lia. destruct (x =? y); [specialize (IH b)|]; lia. Qed.
Lemma cpl_comm a b : cpl a b = cpl b a.
Proof.
  revert b; induction a as [|x a IH]; intros [|y b]; simpl; auto.
  rewrite (Nat.eqb_sym y x). destruct (x =? y); auto.
Qed.
Lemma cpl_firstn a b : firstn (cpl a b) a = firstn (cpl a b) b.
Proof.
  revert b; induction a as [|x a IH]; intros [|y b]; simpl; auto.
  destruct (Nat.eqb_spec x y) as [->|]; simpl; auto. now rewrite IH.
Qed.
Lemma cpl_prefix_l a b : cpl a b = length a <-> is_prefix a b = true.
Proof.
  revert b; induction a as [|x a IH]; intros [|y b]; simpl; try tauto; try (split; [lia|discriminate]).
  destruct (Nat.eqb_spec x y) as [->|]; simpl.
  - rewrite <- IH. lia.
  - split; [lia|discriminate].
Qed.
Lemma cpl_prefix p s : cpl p (p ++ s) = length p.
Proof. apply cpl_prefix_l, is_prefix_app. Qed.
Lemma cpl_app p a b : cpl (p ++ a) (p ++ b) = length p + cpl a b.
Proof. induction p; simpl; auto. now rewrite Nat.eqb_refl, IHp. Qed.
Lemma cpl_refl a : cpl a a = length a.
Proof. apply cpl_prefix_l, is_prefix_refl. Qed.
(* at the common prefix length the two keys differ (when both are longer) *)
Lemma cpl_diff a b : cpl a b < length a -> cpl a b < length b -> nth (cpl a b) a 0 <> nth (cpl a b) b 0.
Proof.
  revert b; induction a as [|x a IH]; intros [|y b]; simpl; try lia.
  destruct (Nat.eqb_spec x y) as [->|N]; simpl; intros; auto. apply IH; lia.
Qed.
(* decomposition of a key around position n *)
Lemma key_split n (k : key) : n < length k -> k = firstn n k ++ nth n k 0 :: skipn (S n) k.
Proof.
  revert k; induction n as [|n IH]; intros [|x k] L; simpl in *; try lia; auto.
  f_equal. apply IH; lia.
Qed.
Lemma is_prefix_split p k : is_prefix p k = true -> length p < length k ->
  k = p ++ nth (length p) k 0 :: skipn (S (length p)) k.
Proof.
  intros H L. rewrite (key_split (length p) k L) at 1. f_equal.
  apply is_prefix_firstn in H. tauto.
Qed.
Lemma nth_app_mid (p : key) x s : nth (length p) (p ++ x :: s) 0 = x.
Proof. rewrite app_nth2, Nat.sub_diag; auto. Qed.
Lemma skipn_app_mid (p : key) x s : skipn (S (length p)) (p ++ x :: s) = s.
Proof.
  replace (S (length p)) with (length (p ++ [x])) by (rewrite app_length; simpl; lia).
  replace (p ++ x :: s) with ((p ++ [x]) ++ s) by (rewrite <- app_assoc; auto).
  rewrite skipn_app, skipn_all, Nat.sub_diag; auto.
Qed.
Lemma skipn_app_exact (p s : key) : skipn (length p) (p ++ s) = s.
Proof. rewrite skipn_app, skipn_all, Nat.sub_diag; auto. Qed.
Lemma firstn_app_exact (p s : key) : firstn (length p) (p ++ s) = p.
Proof. rewrite firstn_app, Nat.sub_diag, firstn_all; simpl. apply app_nil_r. Qed.

(* ---------- key_compare ---------- *)
Lemma key_compare_refl a : key_compare a a = Eq.
Proof. induction a; simpl; auto. now rewrite Nat.compare_refl. Qed.
Lemma key_compare_eq a b : key_compare a b = Eq <-> a = b.
Proof.
  split; [|intros ->; apply key_compare_refl].
  revert b; induction a as [|x a IH]; intros [|y b]; simpl; try congruence.
  destruct (Nat.compare_spec x y); try discriminate. subst. intros H; f_equal; auto.
Qed.
Lemma key_compare_antisym a b : key_compare b a = CompOpp (key_compare a b).
Proof.
  revert b; induction a as [|x a IH]; intros [|y b]; simpl; auto.
  rewrite (Nat.compare_antisym x y). destruct (x ?= y); simpl; auto.
Qed.
Lemma key_compare_app p a b : key_compare (p ++ a) (p ++ b) = key_compare a b.
Proof. induction p; simpl; auto. now rewrite Nat.compare_refl. Qed.
Lemma key_compare_prefix_lt p x s : key_compare p (p ++ x :: s) = Lt.
Proof. induction p; simpl; auto. now rewrite Nat.compare_refl. Qed.
Lemma key_compare_lt_trans a b c : key_compare a b = Lt -> key_compare b c = Lt -> key_compare a c = Lt.
Proof.
  revert b c; induction a as [|x a IH]; intros [|y b] [|z c]; simpl; try congruence.
  destruct (Nat.compare_spec x y), (Nat.compare_spec y z); try discriminate; intros H1 H2; subst.
  - rewrite Nat.compare_refl. eauto.
  - destruct (Nat.compare_spec y z); auto; lia.
  - destruct (Nat.compare_spec x z); auto; lia.
  - destruct (Nat.compare_spec x z); auto; lia.
Qed.
Lemma key_ltb_lt a b : key_ltb a b = true <-> key_compare a b = Lt.
Proof. unfold key_ltb. destruct (key_compare a b); split; congruence. Qed.
Lemma key_ltb_irrefl a : key_ltb a a = false.
Proof. unfold key_ltb. now rewrite key_compare_refl. Qed.
Lemma key_ltb_trans a b c : key_ltb a b = true -> key_ltb b c = true -> key_ltb a c = true.
Proof. rewrite !key_ltb_lt. apply key_compare_lt_trans. Qed.
Lemma key_compare_gt_lt a b : key_compare a b = Gt <-> key_compare b a = Lt.
Proof. rewrite (key_compare_antisym a b). destruct (key_compare a b); simpl; split; congruence. Qed.
(* keys that differ at the first position after a common prefix *)
Lemma key_compare_diverge p x y a b : x < y -> key_compare (p ++ x :: a) (p ++ y :: b) = Lt.
Proof. intros L. rewrite key_compare_app. simpl. destruct (Nat.compare_spec x y); auto; lia. Qed.
Lemma key_compare_is_prefix a b : is_prefix a b = true -> key_compare a b <> Gt.
Proof.
  intros H. apply is_prefix_spec in H as [s ->]. destruct s.
  - rewrite app_nil_r, key_compare_refl. discriminate.
  - rewrite key_compare_prefix_lt. discriminate.
Qed.

(* ---------- nibbles of bytes ---------- *)
Local Open Scope N_scope.
Lemma hi_nib_lt b : (hi_nib b < 16)%nat.
Proof. unfold hi_nib. pose proof (b2n_lt b). pose proof (N.div_lt_upper_bound (b2n b) 16 16). lia. Qed.
Lemma lo_nib_lt b : (lo_nib b < 16)%nat.
Proof. unfold lo_nib. pose proof (N.mod_lt (b2n b) 16). lia. Qed.
Lemma nib_byte_hi_lo b : nib_byte (hi_nib b) (lo_nib b) = b.
Proof.
  unfold nib_byte, hi_nib, lo_nib.
  pose proof (hi_nib_lt b) as H1. pose proof (lo_nib_lt b) as H2. unfold hi_nib, lo_nib in *.
  rewrite !Nat.mod_small by lia. rewrite !N2Nat.id.
  rewrite <- (n2b_b2n b) at 3. f_equal.
  pose proof (N.div_mod (b2n b) 16). lia.
Qed.
Lemma hi_lo_inj a b : hi_nib a = hi_nib b -> lo_nib a = lo_nib b -> a = b.
Proof. intros H1 H2. rewrite <- (nib_byte_hi_lo a), <- (nib_byte_hi_lo b). congruence. Qed.
Local Open Scope nat_scope.

Lemma key_le_to_nibbles_length k : length (key_le_to_nibbles k) = 2 * length k.
Proof. induction k; simpl; auto. lia. Qed.
Lemma key_le_to_nibbles_ok k : nibbles_ok (key_le_to_nibbles k).
Proof.
  induction k; simpl; constructor; [apply hi_nib_lt|]. constructor; [apply lo_nib_lt|auto].
Qed.
Lemma pack_pairs_nibbles k : pack_pairs (key_le_to_nibbles k) = k.
Proof. induction k; simpl; auto. now rewrite nib_byte_hi_lo, IHk. Qed.
Lemma nibbles_to_key_le_of_bytes k : nibbles_to_key_le (key_le_to_nibbles k) = k.
Proof.
  unfold nibbles_to_key_le. rewrite key_le_to_nibbles_length.
  replace (Nat.even (2 * length k)) with true.
  - apply pack_pairs_nibbles.
  - symmetry. apply Nat.even_spec. now exists (length k).
Qed.
Lemma key_le_to_nibbles_inj a b : key_le_to_nibbles a = key_le_to_nibbles b -> a = b.
Proof. intros H. rewrite <- (nibbles_to_key_le_of_bytes a), <- (nibbles_to_key_le_of_bytes b). congruence. Qed.
Lemma key_le_to_nibbles_app a b : key_le_to_nibbles (a ++ b) = key_le_to_nibbles a ++ key_le_to_nibbles b.
Proof. induction a; simpl; auto. now rewrite IHa. Qed.
Lemma key_le_to_nibbles_nil k : key_le_to_nibbles k = [] <-> k = [].
Proof. destruct k; simpl; split; congruence. Qed.

(* byte-wise equality / prefix / order coincide with the nibble versions *)
Lemma bytes_eqb_nibbles a b : bytes_eqb a b = key_eqb (key_le_to_nibbles a) (key_le_to_nibbles b).
Proof.
  destruct (bytes_eqb_spec a b) as [->|N].
  - now rewrite key_eqb_refl.
  - symmetry. apply key_eqb_neq. intros E; apply N. now apply key_le_to_nibbles_inj.
Qed.
Lemma byte_eqb_nibbles x y : byte_eqb x y = (hi_nib x =? hi_nib y) && (lo_nib x =? lo_nib y).
Proof.
  destruct (byte_eqb_spec x y) as [->|N].
  - now rewrite !Nat.eqb_refl.
  - symmetry. apply andb_false_iff.
    destruct (Nat.eqb_spec (hi_nib x) (hi_nib y)); auto.
    destruct (Nat.eqb_spec (lo_nib x) (lo_nib y)); auto.
    exfalso; apply N. now apply hi_lo_inj.
Qed.
Lemma bytes_prefix_nibbles p k : bytes_prefix p k = is_prefix (key_le_to_nibbles p) (key_le_to_nibbles k).
Proof.
  revert k; induction p as [|x p IH]; intros [|y k]; simpl; auto.
  rewrite byte_eqb_nibbles, IH. now rewrite <- andb_assoc.
Qed.
Lemma byte_compare_nibbles x y :
  N.compare (b2n x) (b2n y) =
  match Nat.compare (hi_nib x) (hi_nib y) with
  | Eq => Nat.compare (lo_nib x) (lo_nib y)
  | c => c
  end.
Proof.
  unfold hi_nib, lo_nib.
  pose proof (N.div_mod (b2n x) 16). pose proof (N.div_mod (b2n y) 16).
  pose proof (N.mod_lt (b2n x) 16). pose proof (N.mod_lt (b2n y) 16).
  destruct (Nat.compare_spec (N.to_nat (b2n x / 16)) (N.to_nat (b2n y / 16)));
    [destruct (Nat.compare_spec (N.to_nat (b2n x mod 16)) (N.to_nat (b2n y mod 16)))|..];
    destruct (N.compare_spec (b2n x) (b2n y)); auto; lia.
Qed.
Lemma bytes_compare_nibbles a b : bytes_compare a b = key_compare (key_le_to_nibbles a) (key_le_to_nibbles b).
Proof.
  revert b; induction a as [|x a IH]; intros [|y b]; simpl; auto.
  rewrite byte_compare_nibbles, IH.
  destruct (Nat.compare (hi_nib x) (hi_nib y)); auto.
Qed.
Lemma bytes_ltb_nibbles a b : bytes_ltb a b = key_ltb (key_le_to_nibbles a) (key_le_to_nibbles b).
Proof. unfold bytes_ltb, key_ltb. now rewrite bytes_compare_nibbles. Qed.

(* trim_zero_suffix is the identity unless the key ends in a zero nibble *)
Lemma trim_zero_suffix_id k : last k 1 <> 0 -> trim_zero_suffix k = k.
Proof.
  induction k as [|x k IH]; simpl; auto. destruct k as [|y k].
  - intros H. destruct (Nat.eqb_spec x 0) as [E|E]; [exfalso; apply H; exact E|reflexivity].
  - intros H. f_equal. apply IH. exact H.
Qed.
