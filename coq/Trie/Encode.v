(* Trie/Encode.v — node encoding and Merkle values (definitions only).
   Mirrors pkg/trie/node: encodeHeader (header.go), Node.Encode (encode.go),
   encodeChildrenOpportunisticParallel/encodeChild (branch_encode.go; the goroutine fan-out
   writes the child encodings in index order, so the pure function is a left-to-right map),
   MerkleValue / MerkleValueRoot (hash.go), and trie.EmptyHash, mustBeHashed
   (pkg/trie/inmemory/in_memory.go, pkg/trie/layout.go).
   The hash is the section variable H (BLAKE2b-256 when run). *)
From Common Require Import Bytes.
From Trie Require Import Nibbles Node.
Local Open Scope N_scope.

Inductive version := V0 | V1.

(* trie.V1.MaxInlineValue() = 32; V0 = math.MaxInt *)
Definition v1_max_inline_value : nat := 32.
(* mustBeHashed: version == V1 && len(value) > 32 *)
Definition must_be_hashed (ver : version) (v : value) : bool :=
  match ver with V0 => false | V1 => (v1_max_inline_value <? length v)%nat end.

(* SCALE compact encoding of an unsigned integer (scale.encodeUint as used for lengths) *)
Definition byte_count (n : N) : nat := N.to_nat ((N.size n + 7) / 8).
Definition compact (n : N) : list byte :=
  if n <? 64 then [n2b (n * 4)]
  else if n <? 16384 then le_bytes 2 (n * 4 + 1)
  else if n <? 1073741824 then le_bytes 4 (n * 4 + 2)
  else let k := byte_count n in n2b (N.of_nat (k - 4) * 4 + 3) :: le_bytes k n.
(* scale encoding of a []byte: compact length then the bytes *)
Definition scale_bytes (b : list byte) : list byte := compact (N.of_nat (length b)) ++ b.

(* the bytes after the header byte when the partial key length does not fit:
   255 while >= 255 remains, then the remainder (possibly 0) *)
Definition pk_len_rest (n : N) : list byte :=
  repeat (n2b 255) (N.to_nat (n / 255)) ++ [n2b (n mod 255)].
(* encodeHeader with variant bits [bits] and partial key length mask [mask] *)
Definition header (bits mask : N) (pklen : N) : list byte :=
  if pklen <? mask then [n2b (bits + pklen)]
  else n2b (bits + mask) :: pk_len_rest (pklen - mask).

Definition leaf_bits : N := 64.            (* 0b01_000000, mask 0b00_111111 *)
Definition leaf_hashed_bits : N := 32.     (* 0b001_00000, mask 0b000_11111 *)
Definition branch_bits : N := 128.         (* 0b10_000000 *)
Definition branch_value_bits : N := 192.   (* 0b11_000000 *)
Definition branch_hashed_bits : N := 16.   (* 0b0001_0000, mask 0b0000_1111 *)

Definition node_header (is_branch : bool) (has_value hashed : bool) (pklen : N) : list byte :=
  if is_branch then
    if negb has_value then header branch_bits 63 pklen
    else if hashed then header branch_hashed_bits 15 pklen
    else header branch_value_bits 63 pklen
  else
    if hashed then header leaf_hashed_bits 31 pklen else header leaf_bits 63 pklen.

(* ChildrenBitmap as 2 little-endian bytes *)
Fixpoint bitmap_from (i : N) (cs : list (option tnode)) : N :=
  match cs with
  | [] => 0
  | None :: r => bitmap_from (i + 1) r
  | Some _ :: r => 2 ^ i + bitmap_from (i + 1) r
  end.
Definition children_bitmap (cs : list (option tnode)) : list byte := le_bytes 2 (bitmap_from 0 cs).

Section Enc.
  Variable H : list byte -> list byte.
  Variable ver : version.

  (* the storage value part of Node.Encode *)
  Definition enc_value (v : value) : list byte :=
    if must_be_hashed ver v then H v else scale_bytes v.

  (* node.MerkleValue: the encoding itself when shorter than 32 bytes, else its hash *)
  Definition merkle_of_encoding (e : list byte) : list byte :=
    if (length e <? 32)%nat then e else H e.

  (* Node.Encode *)
  Fixpoint enc (t : tnode) : list byte :=
    match t with
    | Leaf pk v =>
      node_header false true (must_be_hashed ver v) (N.of_nat (length pk))
        ++ nibbles_to_key_le pk ++ enc_value v
    | Branch pk ov cs =>
      node_header true (match ov with Some _ => true | None => false end)
                  (match ov with Some v => must_be_hashed ver v | None => false end)
                  (N.of_nat (length pk))
        ++ nibbles_to_key_le pk ++ children_bitmap cs
        ++ (match ov with Some v => enc_value v | None => [] end)
        ++ (fix enc_children (l : list (option tnode)) : list byte :=
              match l with
              | [] => []
              | None :: r => enc_children r
              | Some c :: r => scale_bytes (merkle_of_encoding (enc c)) ++ enc_children r
              end) cs
    end.

  (* Node.CalculateMerkleValue / CalculateRootMerkleValue *)
  Definition merkle_value (t : tnode) : list byte := merkle_of_encoding (enc t).
  Definition root_merkle_value (t : tnode) : list byte := H (enc t).

  (* trie.EmptyHash = H [0x00]; InMemoryTrie.Hash *)
  Definition empty_root : list byte := H [n2b 0].
  Definition trie_root (t : trie) : list byte :=
    match t with None => empty_root | Some n => root_merkle_value n end.
End Enc.
