(* Trie/InsertProofs.v — L2/L3 for insert: canonical form, the equations characterising insert,
   lookup after insert, preservation of the canonical form. *)
From Common Require Import Bytes Outcome.
From Trie Require Import Nibbles Node Model NibblesProofs Sem.
From Coq Require Import Arith Lia.
Local Open Scope nat_scope.

(* ---------- canonical form ---------- *)
Definition occupants (ov : option value) (cs : list (option tnode)) : nat :=
  count_children cs + (if is_some ov then 1 else 0).

Inductive Canon : tnode -> Prop :=
| Canon_leaf pk v : nibbles_ok pk -> Canon (Leaf pk v)
| Canon_branch pk ov cs :
    nibbles_ok pk -> length cs = 16 -> (forall i c, child_at cs i = Some c -> Canon c) ->
    1 <= count_children cs -> 2 <= occupants ov cs -> Canon (Branch pk ov cs).

Lemma Forall_opt_all_child_at (P : tnode -> Prop) cs :
  Forall (opt_all P) cs <-> forall i c, child_at cs i = Some c -> P c.
Proof.
  split.
  - intros F i c E. exact (Forall_child_at _ _ _ _ F E).
  - unfold child_at. induction cs as [|oc r IH]; intros H; constructor.
    + destruct oc as [c|]; simpl; auto. apply (H 0 c). reflexivity.
    + apply IH. intros i c E. apply (H (S i) c). exact E.
Qed.
Lemma Canon_branch' pk ov cs :
  nibbles_ok pk -> length cs = 16 -> Forall (opt_all Canon) cs ->
  1 <= count_children cs -> 2 <= occupants ov cs -> Canon (Branch pk ov cs).
Proof. intros. constructor; auto. now apply Forall_opt_all_child_at. Qed.
Lemma Canon_branch_inv pk ov cs : Canon (Branch pk ov cs) ->
  nibbles_ok pk /\ length cs = 16 /\ Forall (opt_all Canon) cs /\
  1 <= count_children cs /\ 2 <= occupants ov cs.
Proof. intros C. inversion C; subst. repeat split; auto. now apply Forall_opt_all_child_at. Qed.
Definition Canon_opt (t : trie) : Prop := opt_all Canon t.

(* ---------- the four ways two keys relate ---------- *)
Inductive key_rel (a b : key) : Prop :=
| KR_eq : a = b -> key_rel a b
| KR_a_shorter x s : b = a ++ x :: s -> key_rel a b
| KR_b_shorter y r : a = b ++ y :: r -> key_rel a b
| KR_diverge p x s y r : x <> y -> a = p ++ x :: s -> b = p ++ y :: r -> key_rel a b.

Lemma key_rel_total a b : key_rel a b.
Proof.
  revert b; induction a as [|x a IH]; intros [|y b].
  - now apply KR_eq.
  - now apply (KR_a_shorter _ _ y b).
  - now apply (KR_b_shorter _ _ x a).
  - destruct (Nat.eq_dec x y) as [->|N].
    + destruct (IH b) as [->|x' s ->|y' r ->|p x' s y' r N' -> ->].
      * now apply KR_eq.
      * now apply (KR_a_shorter _ _ x' s).
      * now apply (KR_b_shorter _ _ y' r).
      * now apply (KR_diverge _ _ (y :: p) x' s y' r).
    + now apply (KR_diverge _ _ [] x a y b).
Qed.

(* ---------- arithmetic on decomposed keys ---------- *)
Lemma key_eqb_app_l p a b : key_eqb (p ++ a) (p ++ b) = key_eqb a b.
Proof. induction p; simpl; auto. now rewrite Nat.eqb_refl. Qed.
Lemma key_eqb_prefix_r p x s : key_eqb p (p ++ x :: s) = false.
Proof. rewrite <- (app_nil_r p) at 1. now rewrite key_eqb_app_l. Qed.
Lemma key_eqb_prefix_l p x s : key_eqb (p ++ x :: s) p = false.
Proof. now rewrite key_eqb_sym, key_eqb_prefix_r. Qed.
Lemma key_eqb_diverge p x s y r : x <> y -> key_eqb (p ++ x :: s) (p ++ y :: r) = false.
Proof. intros N. rewrite key_eqb_app_l. simpl. now apply Nat.eqb_neq in N as ->. Qed.
Lemma is_prefix_longer p x s : is_prefix (p ++ x :: s) p = false.
Proof.
  destruct (is_prefix (p ++ x :: s) p) eqn:E; auto.
  apply is_prefix_length in E. rewrite app_length in E. simpl in E. lia.
Qed.
Lemma is_prefix_diverge p x s y r : x <> y -> is_prefix (p ++ x :: s) (p ++ y :: r) = false.
Proof. intros N. rewrite is_prefix_app_inv. simpl. now apply Nat.eqb_neq in N as ->. Qed.
Lemma cpl_prefix_r p s : cpl (p ++ s) p = length p.
Proof. rewrite cpl_comm. apply cpl_prefix. Qed.
Lemma cpl_diverge p x s y r : x <> y -> cpl (p ++ x :: s) (p ++ y :: r) = length p.
Proof. intros N. rewrite cpl_app. simpl. apply Nat.eqb_neq in N as ->. lia. Qed.
Lemma length_app_cons (p : key) x s : length (p ++ x :: s) = S (length p + length s).
Proof. rewrite app_length. simpl. lia. Qed.

Lemma nth_app_shift (p : key) x r n : nth (length p + S n) (p ++ x :: r) 0 = nth n r 0.
Proof. induction p; simpl; auto. Qed.
Lemma skipn_app_shift (p : key) x r n : skipn (S (length p + S n)) (p ++ x :: r) = skipn (S n) r.
Proof. induction p; simpl; auto. Qed.

Lemma nibbles_ok_app a b : nibbles_ok (a ++ b) <-> nibbles_ok a /\ nibbles_ok b.
Proof. unfold nibbles_ok. apply Forall_app. Qed.
Lemma nibbles_ok_cons x a : nibbles_ok (x :: a) <-> x < 16 /\ nibbles_ok a.
Proof. unfold nibbles_ok. split; [intros H; inversion H; auto|intros []; constructor; auto]. Qed.

(* ---------- the equations of insert ---------- *)
Lemma insert_in_leaf_same pk lv v : insert_in_leaf pk lv pk v = Leaf pk v.
Proof. unfold insert_in_leaf. now rewrite key_eqb_refl. Qed.

Lemma insert_in_leaf_key_shorter p x s lv v :
  insert_in_leaf (p ++ x :: s) lv p v =
  Branch p (Some v) (set_child no_children x (Some (Leaf s lv))).
Proof.
  unfold insert_in_leaf. rewrite key_eqb_prefix_l, cpl_prefix, Nat.eqb_refl.
  rewrite length_app_cons.
  replace (length p <? S (length p + length s)) with true by (symmetry; apply Nat.ltb_lt; lia).
  now rewrite firstn_all, nth_app_mid, skipn_app_mid.
Qed.

Lemma insert_in_leaf_key_longer p y r lv v :
  insert_in_leaf p lv (p ++ y :: r) v =
  Branch p (Some lv) (set_child no_children y (Some (Leaf r v))).
Proof.
  unfold insert_in_leaf. rewrite key_eqb_prefix_r, cpl_prefix_r, length_app_cons.
  replace (S (length p + length r) =? length p) with false by (symmetry; apply Nat.eqb_neq; lia).
  now rewrite Nat.eqb_refl, firstn_app_exact, nth_app_mid, skipn_app_mid.
Qed.

Lemma insert_in_leaf_diverge p x s y r lv v : x <> y ->
  insert_in_leaf (p ++ x :: s) lv (p ++ y :: r) v =
  Branch p None (set_child (set_child no_children x (Some (Leaf s lv))) y (Some (Leaf r v))).
Proof.
  intros N. unfold insert_in_leaf.
  rewrite (key_eqb_diverge p x s y r N), (cpl_diverge p y r x s) by congruence.
  rewrite !length_app_cons.
  replace (S (length p + length r) =? length p) with false by (symmetry; apply Nat.eqb_neq; lia).
  replace (S (length p + length s) =? length p) with false by (symmetry; apply Nat.eqb_neq; lia).
  now rewrite firstn_app_exact, !nth_app_mid, !skipn_app_mid.
Qed.

(* the nested fixpoint of insert is set_child *)
Lemma insert_branch pk ov cs k v :
  insert (Branch pk ov cs) k v =
  if key_eqb k pk then Branch pk (Some v) cs
  else if is_prefix pk k then
    let n := cpl k pk in
    Branch pk ov (set_child cs (nth n k 0) (Some (insert_opt (child_at cs (nth n k 0)) (skipn (S n) k) v)))
  else
    let n := cpl k pk in
    let moved := set_child no_children (nth n pk 0) (Some (Branch (skipn (S n) pk) ov cs)) in
    if length k <=? n then Branch (firstn n k) (Some v) moved
    else Branch (firstn n k) None (set_child moved (nth n k 0) (Some (Leaf (skipn (S n) k) v))).
Proof.
  cbn [insert]. destruct (key_eqb k pk); auto. destruct (is_prefix pk k); auto.
  cbv zeta. f_equal. generalize (nth (cpl k pk) k 0) as i.
  generalize (skipn (S (cpl k pk)) k) as rk. unfold child_at. intros rk.
  induction cs as [|oc r IH]; intros [|i]; cbn [set_child nth]; auto.
  now rewrite IH.
Qed.

Lemma insert_branch_same pk ov cs v : insert (Branch pk ov cs) pk v = Branch pk (Some v) cs.
Proof. now rewrite insert_branch, key_eqb_refl. Qed.

Lemma insert_branch_child pk ov cs y r v :
  insert (Branch pk ov cs) (pk ++ y :: r) v =
  Branch pk ov (set_child cs y (Some (insert_opt (child_at cs y) r v))).
Proof.
  rewrite insert_branch, key_eqb_prefix_l, is_prefix_app. cbv zeta.
  now rewrite cpl_prefix_r, nth_app_mid, skipn_app_mid.
Qed.

Lemma insert_branch_key_shorter p x s ov cs v :
  insert (Branch (p ++ x :: s) ov cs) p v =
  Branch p (Some v) (set_child no_children x (Some (Branch s ov cs))).
Proof.
  rewrite insert_branch, key_eqb_prefix_r, is_prefix_longer. cbv zeta.
  rewrite cpl_prefix, Nat.leb_refl. now rewrite firstn_all, nth_app_mid, skipn_app_mid.
Qed.

Lemma insert_branch_diverge p x s y r ov cs v : x <> y ->
  insert (Branch (p ++ x :: s) ov cs) (p ++ y :: r) v =
  Branch p None (set_child (set_child no_children x (Some (Branch s ov cs))) y (Some (Leaf r v))).
Proof.
  intros N. rewrite insert_branch.
  rewrite (key_eqb_diverge p y r x s) by congruence.
  rewrite (is_prefix_diverge p x s y r N). cbv zeta.
  rewrite (cpl_diverge p y r x s) by congruence. rewrite length_app_cons.
  replace (S (length p + length r) <=? length p) with false by (symmetry; apply Nat.leb_gt; lia).
  now rewrite firstn_app_exact, !nth_app_mid, !skipn_app_mid.
Qed.

(* ---------- lookup in the small branches insert builds ---------- *)
(* a key either is p, extends p by a nibble, or does not have p as a prefix *)
Inductive under (p k : key) : Prop :=
| U_self : k = p -> under p k
| U_child i r : k = p ++ i :: r -> under p k
| U_out : is_prefix p k = false -> under p k.
Lemma under_total p k : under p k.
Proof.
  destruct (is_prefix p k) eqn:E; [|now apply U_out].
  apply is_prefix_spec in E as [[|i r] ->].
  - apply U_self. now rewrite app_nil_r.
  - now apply (U_child _ _ i r).
Qed.

Lemma lookup_branch_out pk ov cs k : is_prefix pk k = false -> lookup (Branch pk ov cs) k = None.
Proof.
  intros E. rewrite lookup_branch, E.
  destruct (key_eqb_spec pk k) as [->|]; auto. now rewrite is_prefix_refl in E.
Qed.
Lemma lookup_leaf pk v k : lookup (Leaf pk v) k = if key_eqb pk k then Some v else None.
Proof. reflexivity. Qed.
Lemma key_eqb_out_l p s k : is_prefix p k = false -> key_eqb (p ++ s) k = false.
Proof.
  intros E. apply key_eqb_neq. intros <-. now rewrite is_prefix_app in E.
Qed.
Lemma key_eqb_out_r p s k : is_prefix p k = false -> key_eqb k (p ++ s) = false.
Proof. intros. rewrite key_eqb_sym. now apply key_eqb_out_l. Qed.
Lemma key_eqb_out_self p k : is_prefix p k = false -> key_eqb p k = false.
Proof. intros. rewrite <- (app_nil_r p). now apply key_eqb_out_l. Qed.
Lemma key_eqb_cons x a y b : key_eqb (x :: a) (y :: b) = (x =? y) && key_eqb a b.
Proof. reflexivity. Qed.

Ltac keysimp :=
  repeat (rewrite ?key_eqb_app_l, ?key_eqb_prefix_r, ?key_eqb_prefix_l, ?key_eqb_refl,
          ?lookup_branch_child, ?lookup_branch_self, ?lookup_leaf, ?key_eqb_cons,
          ?Nat.eqb_refl; cbn [lookup_opt andb]).

(* ---------- lookup after insert, canonical form after insert ---------- *)
Definition insert_spec (t : tnode) (k : key) (v : value) : Prop :=
  Canon (insert t k v) /\ forall k', lookup (insert t k v) k' = if key_eqb k k' then Some v else lookup t k'.

Lemma child_two x y (a b : tnode) : x < 16 -> y < 16 -> x <> y ->
  let cs := set_child (set_child no_children x (Some a)) y (Some b) in
  length cs = 16 /\ count_children cs = 2 /\ child_at cs x = Some a /\ child_at cs y = Some b
  /\ forall i, i <> x -> i <> y -> child_at cs i = None.
Proof.
  intros Hx Hy N cs. subst cs. rewrite !set_child_length. split; [reflexivity|]. split.
  - rewrite count_children_set_some by (rewrite set_child_length; exact Hy).
    rewrite child_at_set_child_other, child_at_no_children by exact N.
    rewrite count_children_set_some by exact Hx. now rewrite child_at_no_children.
  - split; [|split].
    + rewrite child_at_set_child_other by congruence. now apply child_at_set_child_same.
    + apply child_at_set_child_same. now rewrite set_child_length.
    + intros i N1 N2. rewrite !child_at_set_child_other by congruence. apply child_at_no_children.
Qed.
Lemma child_one x (a : tnode) : x < 16 ->
  let cs := set_child no_children x (Some a) in
  length cs = 16 /\ count_children cs = 1 /\ child_at cs x = Some a
  /\ forall i, i <> x -> child_at cs i = None.
Proof.
  intros Hx cs. subst cs. rewrite set_child_length. split; [reflexivity|]. split.
  - rewrite count_children_set_some by exact Hx. now rewrite child_at_no_children.
  - split.
    + now apply child_at_set_child_same.
    + intros i N1. rewrite child_at_set_child_other by congruence. apply child_at_no_children.
Qed.

Lemma Forall_two (P : tnode -> Prop) x y a b :
  P a -> P b -> Forall (opt_all P) (set_child (set_child no_children x (Some a)) y (Some b)).
Proof. intros. repeat apply Forall_set_child; auto. apply Forall_no_children. Qed.
Lemma Forall_one (P : tnode -> Prop) x a :
  P a -> Forall (opt_all P) (set_child no_children x (Some a)).
Proof. intros. apply Forall_set_child; auto. apply Forall_no_children. Qed.

Lemma insert_leaf_spec pk lv k v : nibbles_ok pk -> nibbles_ok k -> insert_spec (Leaf pk lv) k v.
Proof.
  intros Hpk Hk. unfold insert_spec. cbn [insert].
  destruct (key_rel_total k pk) as [->|x s ->|y r ->|p y r x s N -> ->].
  - rewrite insert_in_leaf_same. split; [now constructor|].
    intros k'. simpl. destruct (key_eqb pk k'); auto.
  - rewrite insert_in_leaf_key_shorter.
    apply nibbles_ok_app in Hpk as [Hp Hxs]. apply nibbles_ok_cons in Hxs as [Hx Hs].
    destruct (child_one x (Leaf s lv) Hx) as (L & C & E & O). split.
    + apply Canon_branch'; [assumption|assumption|apply Forall_one; now constructor|lia|unfold occupants; cbn [is_some]; lia].
    + intros k'. destruct (under_total k k') as [->|i r' ->|U].
      * keysimp. reflexivity.
      * keysimp. destruct (Nat.eq_dec i x) as [->|Ni].
        -- rewrite E. keysimp. reflexivity.
        -- rewrite O by exact Ni. apply Nat.eqb_neq in Ni.
           rewrite Nat.eqb_sym, Ni. reflexivity.
      * rewrite lookup_branch_out, (key_eqb_out_self _ _ U) by exact U.
        keysimp. now rewrite key_eqb_out_l.
  - rewrite insert_in_leaf_key_longer.
    apply nibbles_ok_app in Hk as [Hp Hyr]. apply nibbles_ok_cons in Hyr as [Hy Hr].
    destruct (child_one y (Leaf r v) Hy) as (L & C & E & O). split.
    + apply Canon_branch'; [assumption|assumption|apply Forall_one; now constructor|lia|unfold occupants; cbn [is_some]; lia].
    + intros k'. destruct (under_total pk k') as [->|i r' ->|U].
      * keysimp. reflexivity.
      * keysimp. destruct (Nat.eq_dec i y) as [->|Ni].
        -- rewrite E. keysimp. reflexivity.
        -- rewrite O by exact Ni. apply Nat.eqb_neq in Ni.
           rewrite Nat.eqb_sym, Ni. reflexivity.
      * rewrite lookup_branch_out by exact U. keysimp.
        now rewrite key_eqb_out_l, key_eqb_out_self.
  - rewrite insert_in_leaf_diverge by congruence.
    apply nibbles_ok_app in Hk as [Hp Hyr]. apply nibbles_ok_cons in Hyr as [Hy Hr].
    apply nibbles_ok_app in Hpk as [_ Hxs]. apply nibbles_ok_cons in Hxs as [Hx Hs].
    destruct (child_two x y (Leaf s lv) (Leaf r v) Hx Hy) as (L & C & Ex & Ey & O); [congruence|]. split.
    + apply Canon_branch'; [assumption|assumption|apply Forall_two; now constructor|lia|unfold occupants; cbn [is_some]; lia].
    + intros k'. destruct (under_total p k') as [->|i r' ->|U].
      * keysimp. reflexivity.
      * keysimp. destruct (Nat.eq_dec i y) as [->|Ny].
        -- rewrite Ey. keysimp. apply Nat.eqb_neq in N. rewrite Nat.eqb_sym, N. simpl.
           destruct (key_eqb r r'); reflexivity.
        -- destruct (Nat.eq_dec i x) as [->|Nx].
           ++ rewrite Ex. keysimp. apply Nat.eqb_neq in N. rewrite N. reflexivity.
           ++ rewrite O by assumption. apply Nat.eqb_neq in Ny, Nx.
              rewrite (Nat.eqb_sym y i), Ny, (Nat.eqb_sym x i), Nx. reflexivity.
      * rewrite lookup_branch_out by exact U. keysimp. now rewrite !key_eqb_out_l.
Qed.

Lemma insert_opt_canon (t : trie) k v :
  nibbles_ok k -> (forall c, t = Some c -> insert_spec c k v) ->
  Canon (insert_opt t k v) /\
  forall k', lookup (insert_opt t k v) k' = if key_eqb k k' then Some v else lookup_opt t k'.
Proof.
  intros Hk H. destruct t as [c|]; simpl.
  - apply H. reflexivity.
  - split; [now constructor|]. intros k'. reflexivity.
Qed.

Theorem insert_correct t : forall k v, Canon t -> nibbles_ok k -> insert_spec t k v.
Proof.
  induction t as [pk lv|pk ov cs IH] using tnode_ind'; intros k v C Hk.
  - inversion C; subst. now apply insert_leaf_spec.
  - apply Canon_branch_inv in C as (Hpk & L & F & C1 & C2). unfold insert_spec.
    destruct (key_rel_total k pk) as [->|x s ->|y r ->|p y r x s N -> ->].
    + (* overwrite the branch value *)
      rewrite insert_branch_same. split.
      * apply Canon_branch'; [assumption|assumption|assumption|assumption|unfold occupants in *; cbn [is_some]; lia].
      * intros k'. rewrite !lookup_branch. destruct (key_eqb pk k'); reflexivity.
    + (* the key ends inside the partial key *)
      rewrite insert_branch_key_shorter.
      apply nibbles_ok_app in Hpk as [Hp Hxs]. apply nibbles_ok_cons in Hxs as [Hx Hs].
      destruct (child_one x (Branch s ov cs) Hx) as (L1 & C1' & E & O). split.
      * apply Canon_branch'; [assumption|assumption|apply Forall_one; now apply Canon_branch'|lia|unfold occupants; cbn [is_some]; lia].
      * intros k'. destruct (under_total k k') as [->|i r' ->|U].
        -- keysimp. reflexivity.
        -- keysimp. destruct (Nat.eq_dec i x) as [->|Ni].
           ++ rewrite E. cbn [lookup_opt]. rewrite !lookup_branch.
              rewrite key_eqb_app_l, is_prefix_app_inv. cbn [key_eqb is_prefix]. rewrite Nat.eqb_refl. cbn [andb].
              rewrite app_length. cbn [length].
              now rewrite nth_app_shift, skipn_app_shift.
           ++ rewrite O by exact Ni. rewrite lookup_branch_out; [reflexivity|].
              rewrite is_prefix_app_inv. simpl. apply Nat.eqb_neq in Ni. now rewrite Nat.eqb_sym, Ni.
        -- rewrite lookup_branch_out, (key_eqb_out_self _ _ U) by exact U.
           rewrite lookup_branch_out; [reflexivity|].
           destruct (is_prefix (k ++ x :: s) k') eqn:P; auto.
           rewrite (is_prefix_trans k (k ++ x :: s) k') in U; auto. apply is_prefix_app.
    + (* descend into a child *)
      rewrite insert_branch_child.
      apply nibbles_ok_app in Hk as [Hp Hyr]. apply nibbles_ok_cons in Hyr as [Hy Hr].
      destruct (insert_opt_canon (child_at cs y) r v Hr) as [Cc Lc].
      { intros c E. apply (Forall_child_at _ _ _ _ IH E); auto. apply (Forall_child_at _ _ _ _ F E). }
      split.
      * apply Canon_branch'; [assumption|now rewrite set_child_length|apply Forall_set_child; auto
                              |rewrite count_children_set_some by lia; lia
                              |unfold occupants in *; rewrite count_children_set_some by lia; lia].
      * intros k'. destruct (under_total pk k') as [->|i r' ->|U].
        -- keysimp. reflexivity.
        -- keysimp. destruct (Nat.eq_dec i y) as [->|Ni].
           ++ rewrite child_at_set_child_same by lia. keysimp. apply Lc.
           ++ rewrite child_at_set_child_other by congruence. apply Nat.eqb_neq in Ni.
              now rewrite Nat.eqb_sym, Ni.
        -- rewrite !lookup_branch_out by exact U. now rewrite key_eqb_out_l.
    + (* branch out inside the partial key *)
      rewrite insert_branch_diverge by congruence.
      apply nibbles_ok_app in Hk as [Hp Hyr]. apply nibbles_ok_cons in Hyr as [Hy Hr].
      apply nibbles_ok_app in Hpk as [_ Hxs]. apply nibbles_ok_cons in Hxs as [Hx Hs].
      destruct (child_two x y (Branch s ov cs) (Leaf r v) Hx Hy) as (L2 & C2' & Ex & Ey & O); [congruence|]. split.
      * apply Canon_branch'; [assumption|assumption|apply Forall_two; [now apply Canon_branch'|now constructor]|lia|unfold occupants; cbn [is_some]; lia].
      * intros k'. destruct (under_total p k') as [->|i r' ->|U].
        -- keysimp. rewrite lookup_branch_out by apply is_prefix_longer. reflexivity.
        -- keysimp. destruct (Nat.eq_dec i y) as [->|Ny].
           ++ rewrite Ey. keysimp. rewrite lookup_branch_out.
              ** destruct (key_eqb r r'); reflexivity.
              ** apply is_prefix_diverge. congruence.
           ++ apply Nat.eqb_neq in Ny. rewrite (Nat.eqb_sym y i), Ny. cbn [andb].
              destruct (Nat.eq_dec i x) as [->|Nx].
              ** rewrite Ex. cbn [lookup_opt]. rewrite !lookup_branch.
                 rewrite key_eqb_app_l, is_prefix_app_inv. cbn [key_eqb is_prefix]. rewrite Nat.eqb_refl. cbn [andb].
                 rewrite app_length. cbn [length].
                 now rewrite nth_app_shift, skipn_app_shift.
              ** rewrite O; [|exact Nx|apply Nat.eqb_neq; exact Ny].
                 rewrite lookup_branch_out; [reflexivity|].
                 rewrite is_prefix_app_inv. simpl. apply Nat.eqb_neq in Nx. now rewrite Nat.eqb_sym, Nx.
        -- rewrite lookup_branch_out by exact U. rewrite key_eqb_out_l by exact U.
           rewrite lookup_branch_out; [reflexivity|].
           destruct (is_prefix (p ++ x :: s) k') eqn:P; auto.
           rewrite (is_prefix_trans p (p ++ x :: s) k') in U; auto. apply is_prefix_app.
Qed.

Corollary insert_canon t k v : Canon t -> nibbles_ok k -> Canon (insert t k v).
Proof. intros C H. apply (insert_correct t k v C H). Qed.
Corollary lookup_insert t k v k' : Canon t -> nibbles_ok k ->
  lookup (insert t k v) k' = if key_eqb k k' then Some v else lookup t k'.
Proof. intros C H. apply (insert_correct t k v C H). Qed.

Corollary insert_opt_correct (t : trie) k v : Canon_opt t -> nibbles_ok k ->
  Canon (insert_opt t k v) /\
  forall k', lookup (insert_opt t k v) k' = if key_eqb k k' then Some v else lookup_opt t k'.
Proof.
  intros C H. apply insert_opt_canon; auto. intros c ->. now apply insert_correct.
Qed.
