(* Trie/GoPrefixProofs.v — the prefix operations of the trie model compute the go_* operations of
   Trie/GoSpec.v on the ordered map (no prefix-trim guard needed), and the go_* operations
   coincide with the byte-wise bm_* operations exactly outside the guards (added by the audit round). *)
From Common Require Import Bytes Outcome.
From Trie Require Import Nibbles Node Encode Model Spec NibblesProofs Sem InsertProofs DeleteProofs
     BuildProofs MapProofs QueryProofs ClearProofs LimitProofs SpecProofs GoSpec.
From Coq Require Import Arith Lia.
Local Open Scope nat_scope.

Definition pn_of (p : list byte) : key := trim_zero_suffix (key_le_to_nibbles p).

Lemma pn_of_ok p : nibbles_ok (pn_of p).
Proof. apply trim_zero_suffix_ok, key_le_to_nibbles_ok. Qed.

Lemma has_prefix_gmatch p (e : list byte * value) :
  has_prefix (pn_of p) (key_le_to_nibbles (fst e), snd e) = gmatch p e.
Proof. reflexivity. Qed.

Lemma bmatch_gmatch p e : bmatch_b p e = true -> gmatch p e = true.
Proof. apply bytes_prefix_go_prefix. Qed.

Lemma gmatch_nil e : gmatch [] e = true.
Proof. reflexivity. Qed.

(* ---------- GetKeysWithPrefix ---------- *)
Lemma keys_filter_bmap_gen (g : key * value -> bool) (f : list byte * value -> bool) (m : bmap) :
  (forall e, In e m -> g (key_le_to_nibbles (fst e), snd e) = f e) ->
  map nibbles_to_key_le (map fst (filter g (kv_of_bmap m))) = map fst (filter f m).
Proof.
  induction m as [|[kb v] m IH]; intros H; simpl; auto.
  pose proof (H (kb, v) (or_introl eq_refl)) as H0. cbn [fst snd] in H0. rewrite H0.
  destruct (f (kb, v)); simpl; rewrite ?nibbles_to_key_le_of_bytes, IH; auto;
    intros e He; apply H; simpl; auto.
Qed.

Theorem Rep_keys_go t m p : Rep t m -> trie_keys_with_prefix t p = Ok (go_keys_with_prefix m p).
Proof.
  intros R. unfold trie_keys_with_prefix, go_keys_with_prefix. destruct t as [n|].
  - destruct R as [C E]. simpl in E.
    replace (match p with [] => [] | _ :: _ => trim_zero_suffix (key_le_to_nibbles p) end)
      with (pn_of p) by (destruct p; reflexivity).
    rewrite keys_with_prefix_spec, app_nil_l, E. f_equal.
    apply keys_filter_bmap_gen. intros e _. apply has_prefix_gmatch.
  - apply Rep_nil_map in R. subst. reflexivity.
Qed.

(* ---------- ClearPrefix ---------- *)
Theorem Rep_clear_prefix_go t m p : Rep t m -> Rep (trie_clear_prefix t p) (go_clear_prefix m p).
Proof.
  intros R. unfold trie_clear_prefix, trie_clear_prefix_pinned, go_clear_prefix.
  destruct p as [|b p'].
  - split; [exact I|]. simpl. rewrite filter_none; auto.
  - set (p := b :: p') in *. destruct t as [n|].
    + destruct R as [C E].
      destruct (entries_clear n (pn_of p) C (pn_of_ok p)) as [Cc Ec].
      split; [exact Cc|]. unfold pn_of in Ec. rewrite Ec, E. symmetry.
      apply (kv_of_bmap_filter (fun e => negb (gmatch p e))
               (fun e => negb (is_prefix (trim_zero_suffix (key_le_to_nibbles p)) (fst e)))).
      intros e _. reflexivity.
    + apply Rep_nil_map in R. subst. split; [exact I|reflexivity].
Qed.

(* ---------- ClearPrefixLimit ---------- *)
Lemma clear_limit_by_spec f m : forall limit,
  clear_limit_by f m limit =
  (remove_first (N.to_nat limit) f m,
   N.of_nat (Nat.min (N.to_nat limit) (length (filter f m))),
   length (filter f m) <=? N.to_nat limit).
Proof.
  induction m as [|e m IH]; intros limit; simpl.
  - now destruct (N.to_nat limit).
  - destruct (f e) eqn:B.
    + destruct (N.eqb_spec limit 0) as [->|Z].
      * reflexivity.
      * rewrite IH. replace (N.to_nat limit) with (S (N.to_nat (limit - 1))) by lia.
        cbn [length Nat.min Nat.leb]. f_equal. f_equal. lia.
    + rewrite IH. reflexivity.
Qed.

Lemma bm_clear_prefix_limit_by m p limit :
  bm_clear_prefix_limit m p limit = clear_limit_by (bmatch_b p) m limit.
Proof. rewrite bm_clear_prefix_limit_spec, clear_limit_by_spec. reflexivity. Qed.

Theorem Rep_clear_prefix_limit_go t m p limit : Rep t m ->
  limit <> 0%N -> guard_limit_order_go m p limit = false ->
  let r := trie_clear_prefix_limit t p limit in
  let s := go_clear_prefix_limit m p limit in
  Rep (fst (fst r)) (fst (fst s)) /\ snd (fst r) = snd (fst s) /\ snd r = snd s.
Proof.
  intros R Z G3. cbv zeta.
  unfold trie_clear_prefix_limit, trie_clear_prefix_limit_pinned, go_clear_prefix_limit.
  destruct (N.eqb_spec limit 0) as [->|_]; [congruence|].
  rewrite clear_limit_by_spec. cbn [fst snd].
  set (l := N.to_nat limit). assert (L1 : 0 < l) by (unfold l; lia).
  destruct t as [n|].
  - destruct R as [C E0]. simpl in E0.
    assert (Agree : forall e, In e m -> has_prefix (pn_of p) (key_le_to_nibbles (fst e), snd e) = gmatch p e).
    { intros e _. reflexivity. }
    assert (EM : matching (pn_of p) n = kv_of_bmap (filter (gmatch p) m)).
    { unfold matching, E. rewrite E0. symmetry. apply kv_of_bmap_filter. exact Agree. }
    assert (Gn : order_guard (map fst (matching (pn_of p) n)) l = false).
    { rewrite EM. unfold kv_of_bmap. rewrite map_map. cbn [fst].
      replace (map (fun x : list byte * value => key_le_to_nibbles (fst x)) (filter (gmatch p) m))
        with (map key_le_to_nibbles (map fst (filter (gmatch p) m))) by (now rewrite map_map).
      rewrite order_guard_bytes by exact L1. exact G3. }
    destruct (cpl_correct n C (pn_of p) l (pn_of_ok p) L1 Gn) as (A & B & Cn & D).
    replace (N.of_nat l) with limit in * by (unfold l; lia).
    rewrite EM in A, B. unfold kv_of_bmap in A, B. rewrite map_length in A, B.
    split; [split; [exact Cn|]|split; [rewrite <- A; now rewrite N2Nat.id|exact B]].
    etransitivity; [exact D|]. unfold E. rewrite E0. symmetry. apply remove_first_kv_of_bmap. exact Agree.
  - apply Rep_nil_map in R. subst. cbn [fst snd filter length remove_first].
    split; [apply Rep_empty|]. split; [|reflexivity]. now rewrite Nat.min_0_r.
Qed.

(* ---------- when the Go matching rule and the byte-wise rule give the same limited clear ---------- *)
Section Agree.
  Context {A : Type} (f g : A -> bool).
  Hypothesis Hfg : forall x, f x = true -> g x = true.

  Lemma f_false_of_g x : g x = false -> f x = false.
  Proof. intros G. destruct (f x) eqn:F; auto. rewrite (Hfg x F) in G. discriminate. Qed.

  Lemma remove_first_agree l : forall n,
    forallb f (firstn n (filter g l)) = true ->
    remove_first n g l = remove_first n f l /\
    Nat.min n (length (filter g l)) = Nat.min n (length (filter f l)).
  Proof.
    induction l as [|x l IH]; intros n H; [simpl; auto|].
    cbn [filter remove_first] in *. destruct (g x) eqn:G.
    - destruct n as [|n'].
      + destruct (f x); [split; reflexivity|]. rewrite remove_first_zero_nomatch. split; reflexivity.
      + cbn [firstn forallb] in H. apply andb_true_iff in H as [F H]. rewrite F.
        destruct (IH n' H) as [E1 E2]. split; [exact E1|]. cbn [length]. simpl. now rewrite E2.
    - rewrite (f_false_of_g x G). destruct (IH n H) as [E1 E2]. split; [now rewrite E1|exact E2].
  Qed.

End Agree.

  (* an element satisfying h that is among the first n g-elements is missing afterwards *)
Lemma remove_first_count {A} (g h : A -> bool) l : forall n,
    length (filter h (remove_first n g l)) + length (filter h (firstn n (filter g l))) = length (filter h l).
  Proof.
    induction l as [|x l IH]; intros n; [now destruct n|].
    cbn [filter remove_first]. destruct (g x) eqn:G.
    - destruct n as [|n'].
      + cbn [firstn filter length]. lia.
      + cbn [firstn filter]. specialize (IH n'). destruct (h x); cbn [length]; lia.
    - cbn [filter]. specialize (IH n). destruct (h x); cbn [length]; lia.
  Qed.

Lemma forallb_false_exists {A} (f : A -> bool) l : forallb f l = false -> exists x, In x l /\ f x = false.
Proof.
  induction l as [|x l IH]; simpl; [discriminate|]. destruct (f x) eqn:F.
  - intros H. destruct (IH H) as (y & Hy & Fy). exists y. auto.
  - intros _. exists x. auto.
Qed.

Lemma filter_length_pos {A} (h : A -> bool) l x : In x l -> h x = true -> 1 <= length (filter h l).
Proof.
  induction l as [|y l IH]; simpl; [contradiction|]. intros [->|H] Hx.
  - rewrite Hx. simpl. lia.
  - destruct (h y); simpl; [lia|exact (IH H Hx)].
Qed.

(* outside guard_trim_limit the two limited clears are the same function of the map *)
Theorem trim_limit_agree m p limit : guard_trim_limit m p limit = false ->
  clear_limit_by (gmatch p) m limit = clear_limit_by (bmatch_b p) m limit.
Proof.
  unfold guard_trim_limit. intros G. apply orb_false_iff in G as [G1 G2].
  apply negb_false_iff in G1. apply negb_false_iff in G2. apply Bool.eqb_prop in G2.
  rewrite !clear_limit_by_spec.
  destruct (remove_first_agree (bmatch_b p) (gmatch p) (bmatch_gmatch p) m (N.to_nat limit) G1) as [E1 E2].
  now rewrite E1, E2, G2.
Qed.

(* inside it they differ: the guard is exact *)
Theorem trim_limit_exact m p limit : guard_trim_limit m p limit = true ->
  clear_limit_by (gmatch p) m limit <> clear_limit_by (bmatch_b p) m limit.
Proof.
  unfold guard_trim_limit. intros G. rewrite !clear_limit_by_spec. intros E.
  inversion E as [[E1 E2 E3]]. clear E.
  apply orb_true_iff in G as [G|G]; apply negb_true_iff in G.
  - apply forallb_false_exists in G as (x & Hx & Fx).
    set (h := fun e => negb (bmatch_b p e)).
    pose proof (remove_first_count (gmatch p) h m (N.to_nat limit)) as Cg.
    pose proof (filter_remove_first_neg (bmatch_b p) (N.to_nat limit) m) as Cb.
    rewrite E1 in Cg. fold h in Cb. rewrite Cb in Cg.
    assert (1 <= length (filter h (firstn (N.to_nat limit) (filter (gmatch p) m)))).
    { apply (filter_length_pos h _ x Hx). unfold h. now rewrite Fx. }
    lia.
  - rewrite E3 in G. now rewrite Bool.eqb_reflx in G.
Qed.

(* the unlimited operations: the prefix-trim guard is exact *)
Lemma filter_ext_in_iff {A} (f g : A -> bool) l : (forall x, In x l -> f x = g x) -> filter f l = filter g l.
Proof.
  induction l as [|x l IH]; intros H; simpl; auto.
  rewrite (H x (or_introl eq_refl)). destruct (g x); rewrite IH; auto; intros; apply H; simpl; auto.
Qed.

Theorem go_keys_agree m p : guard_trim m p = false -> go_keys_with_prefix m p = bm_keys_with_prefix m p.
Proof.
  intros G. unfold go_keys_with_prefix, bm_keys_with_prefix. f_equal.
  apply filter_ext_in_iff. intros e He. apply (guard_trim_false m p G e He).
Qed.

Theorem go_clear_agree m p : guard_trim m p = false -> go_clear_prefix m p = bm_clear_prefix m p.
Proof.
  intros G. unfold go_clear_prefix, bm_clear_prefix.
  apply filter_ext_in_iff. intros e He. unfold gmatch. now rewrite (guard_trim_false m p G e He).
Qed.

Lemma filter_length_le_imp {A} (f g : A -> bool) l :
  (forall x, In x l -> g x = true -> f x = true) -> length (filter g l) <= length (filter f l).
Proof.
  induction l as [|x l IH]; intros H; simpl; auto.
  destruct (g x) eqn:Gx.
  - rewrite (H x (or_introl eq_refl) Gx). simpl. apply le_n_S. apply IH. intros; apply H; simpl; auto.
  - destruct (f x); simpl; [apply le_S|]; apply IH; intros; apply H; simpl; auto.
Qed.
Lemma filter_length_lt_imp {A} (f g : A -> bool) l :
  (forall x, In x l -> g x = true -> f x = true) ->
  (exists x, In x l /\ f x = true /\ g x = false) -> length (filter g l) < length (filter f l).
Proof.
  induction l as [|x l IH]; intros H (y & Hy & Fy & Gy); simpl in *; [contradiction|].
  destruct Hy as [->|Hy].
  - rewrite Fy, Gy. simpl. apply le_n_S. apply filter_length_le_imp. intros; apply H; auto.
  - destruct (g x) eqn:Gx.
    + rewrite (H x (or_introl eq_refl) Gx). simpl. apply -> Nat.succ_lt_mono. apply IH; eauto.
    + destruct (f x); simpl; [apply Nat.lt_lt_succ_r|]; apply IH; eauto.
Qed.

Theorem go_keys_exact m p : guard_trim m p = true -> go_keys_with_prefix m p <> bm_keys_with_prefix m p.
Proof.
  unfold guard_trim. intros G E. apply existsb_exists in G as (e & He & Ge).
  apply andb_true_iff in Ge as [G1 G2]. apply negb_true_iff in G2.
  apply (f_equal (@length _)) in E. unfold go_keys_with_prefix, bm_keys_with_prefix in E. rewrite !map_length in E.
  assert (X : length (filter (bmatch_b p) m) < length (filter (gmatch p) m)).
  { apply filter_length_lt_imp.
    - intros x _ Hx. now apply bmatch_gmatch.
    - exists e. auto. }
  unfold bmatch_b in X. lia.
Qed.

Theorem go_clear_exact m p : guard_trim m p = true -> go_clear_prefix m p <> bm_clear_prefix m p.
Proof.
  unfold guard_trim. intros G E. apply existsb_exists in G as (e & He & Ge).
  apply andb_true_iff in Ge as [G1 G2]. apply negb_true_iff in G2.
  apply (f_equal (@length _)) in E. unfold go_clear_prefix, bm_clear_prefix in E.
  assert (X : length (filter (fun e => negb (gmatch p e)) m) < length (filter (fun e => negb (bytes_prefix p (fst e))) m)).
  { apply filter_length_lt_imp.
    - intros x _ Hx. apply negb_true_iff in Hx. apply negb_true_iff.
      destruct (bytes_prefix p (fst x)) eqn:B; auto. rewrite (bmatch_gmatch p x B) in Hx. discriminate.
    - exists e. split; auto. split; [now rewrite G2|]. unfold gmatch. now rewrite G1. }
  lia.
Qed.
