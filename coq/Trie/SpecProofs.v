(* Trie/SpecProofs.v — adequacy of the specification side (added by the audit round).
   The ordered byte-string map of Spec.v is a list of definitions; the lemmas here say, in
   the words of properties C01/C02, what those definitions compute:
     bm_next_key            = the smallest key strictly greater than the argument
     bm_keys_with_prefix    = exactly the keys with the byte prefix, in ascending order
     bm_clear_prefix_limit  = the non-matching entries are untouched, the matching ones lose
                              their [limit] smallest, the count is min(limit, matches) and the
                              flag says that no matching key remains
   and, for the Merkle root (C01):
     every sorted map is represented by a (unique) canonical trie, which is build_trie of the
     map; it is reached by a puts-only history. *)
From Common Require Import Bytes Outcome.
From Trie Require Import Nibbles Node Encode Model Spec NibblesProofs Sem InsertProofs DeleteProofs
     BuildProofs MapProofs QueryProofs ClearProofs LimitProofs.
From Coq Require Import Arith Lia.
Local Open Scope nat_scope.

Definition bm_keys (m : bmap) : list (list byte) := map fst m.
Definition bytes_lt (a b : list byte) : Prop := bytes_compare a b = Lt.

(* ---------- order facts on byte strings (through the nibble lemmas) ---------- *)
Lemma bytes_ltb_lt a b : bytes_ltb a b = true <-> bytes_lt a b.
Proof. unfold bytes_ltb, bytes_lt. destruct (bytes_compare a b); split; congruence. Qed.

Lemma bytes_lt_trans a b c : bytes_lt a b -> bytes_lt b c -> bytes_lt a c.
Proof. unfold bytes_lt. rewrite !bytes_compare_nibbles. apply key_compare_lt_trans. Qed.

Lemma bytes_lt_irrefl a : ~ bytes_lt a a.
Proof. unfold bytes_lt. rewrite bytes_compare_nibbles, key_compare_refl. discriminate. Qed.

Lemma bytes_compare_eq a b : bytes_compare a b = Eq <-> a = b.
Proof.
  rewrite bytes_compare_nibbles, key_compare_eq. split; [apply key_le_to_nibbles_inj|congruence].
Qed.

Lemma bytes_lt_total a b : bytes_lt a b \/ a = b \/ bytes_lt b a.
Proof.
  unfold bytes_lt. destruct (bytes_compare a b) eqn:C; auto.
  - right. left. now apply bytes_compare_eq.
  - right. right. rewrite bytes_compare_nibbles in *. now apply key_compare_gt_lt.
Qed.

(* every later key of a sorted map is greater than the head *)
Lemma bm_sorted_tail k v r : bm_sorted ((k, v) :: r) = true -> bm_sorted r = true.
Proof.
  destruct r as [|[k' v'] r']; [reflexivity|]. intros H. change (bytes_ltb k k' && bm_sorted ((k', v') :: r') = true) in H.
  apply andb_true_iff in H. exact (proj2 H).
Qed.

Lemma bm_sorted_head k v r : bm_sorted ((k, v) :: r) = true -> forall k', In k' (bm_keys r) -> bytes_lt k k'.
Proof.
  revert k v. induction r as [|[k1 v1] r IH]; intros k v S k' H; [contradiction|].
  pose proof (bm_sorted_tail _ _ _ S) as S2.
  change (bytes_ltb k k1 && bm_sorted ((k1, v1) :: r) = true) in S.
  apply andb_true_iff in S as [L _]. apply bytes_ltb_lt in L.
  destruct H as [<-|H]; [exact L|]. eapply bytes_lt_trans; [exact L|exact (IH k1 v1 S2 k' H)].
Qed.

(* ---------- next_key: the smallest strictly greater key ---------- *)
Theorem bm_next_key_some m k k' : bm_sorted m = true -> bm_next_key m k = Some k' ->
  In k' (bm_keys m) /\ bytes_lt k k' /\
  forall k'', In k'' (bm_keys m) -> bytes_lt k k'' -> k'' = k' \/ bytes_lt k' k''.
Proof.
  induction m as [|[k0 v0] m IH]; intros S E; [discriminate|]. simpl in E.
  destruct (bytes_ltb k k0) eqn:L.
  - inversion E; subst k0. apply bytes_ltb_lt in L. split; [simpl; auto|]. split; auto.
    intros k'' [<-|H] _; auto. right. eapply bm_sorted_head; eauto.
  - destruct (IH (bm_sorted_tail _ _ _ S) E) as (A & B & C). split; [simpl; auto|]. split; auto.
    intros k'' [<-|H] Lt; auto.
    exfalso. apply bytes_ltb_lt in Lt. cbn [fst] in Lt. congruence.
Qed.

Theorem bm_next_key_none m k : bm_next_key m k = None ->
  forall k'', In k'' (bm_keys m) -> ~ bytes_lt k k''.
Proof.
  induction m as [|[k0 v0] m IH]; intros E k'' H; [contradiction|]. simpl in E.
  destruct (bytes_ltb k k0) eqn:L; [discriminate|].
  destruct H as [<-|H]; [|now apply IH].
  intros Lt. apply bytes_ltb_lt in Lt. cbn [fst] in Lt. congruence.
Qed.

(* ---------- keys_with_prefix: byte-wise, ascending, each once ---------- *)
Theorem bm_keys_with_prefix_in m p k :
  In k (bm_keys_with_prefix m p) <-> In k (bm_keys m) /\ bytes_prefix p k = true.
Proof.
  unfold bm_keys_with_prefix, bm_keys. rewrite !in_map_iff. split.
  - intros ([k0 v] & <- & H). apply filter_In in H as [H B]. split; [exists (k0, v); auto|exact B].
  - intros (([k0 v] & <- & H) & B). exists (k0, v). split; auto. apply filter_In. auto.
Qed.

(* the listing is the key list of the map with the non-matching keys struck out (order kept) *)
Theorem bm_keys_with_prefix_order m p :
  bm_keys_with_prefix m p = filter (bytes_prefix p) (bm_keys m).
Proof.
  unfold bm_keys_with_prefix, bm_keys. induction m as [|[k v] m IH]; simpl; auto.
  destruct (bytes_prefix p k); simpl; now rewrite IH.
Qed.

(* ---------- clear_prefix ---------- *)
Theorem bm_clear_prefix_in m p k v :
  In (k, v) (bm_clear_prefix m p) <-> In (k, v) m /\ bytes_prefix p k = false.
Proof.
  unfold bm_clear_prefix. rewrite filter_In. cbn [fst]. rewrite negb_true_iff. tauto.
Qed.

(* ---------- clear_prefix_limit ---------- *)
Lemma filter_remove_first_neg {A} (f : A -> bool) n l :
  filter (fun x => negb (f x)) (remove_first n f l) = filter (fun x => negb (f x)) l.
Proof.
  revert n; induction l as [|x l IH]; intros n; simpl; auto.
  destruct (f x) eqn:F.
  - destruct n; simpl; rewrite ?F; simpl; auto.
  - simpl. rewrite F. simpl. now rewrite IH.
Qed.

Lemma filter_remove_first_pos {A} (f : A -> bool) n l :
  filter f (remove_first n f l) = skipn n (filter f l).
Proof.
  revert n; induction l as [|x l IH]; intros n; simpl; [now destruct n|].
  destruct (f x) eqn:F.
  - destruct n; simpl; rewrite ?F; auto.
  - simpl. rewrite F. apply IH.
Qed.

(* the entries without the prefix are untouched; those with the prefix lose their [limit] first
   (= smallest, the map being sorted); the count and the flag are as the property says *)
Theorem bm_clear_prefix_limit_meaning m p limit :
  let '(m', n, all) := bm_clear_prefix_limit m p limit in
  let M := filter (bmatch p) m in
  filter (fun e => negb (bmatch p e)) m' = filter (fun e => negb (bmatch p e)) m /\
  filter (bmatch p) m' = skipn (N.to_nat limit) M /\
  n = N.of_nat (Nat.min (N.to_nat limit) (length M)) /\
  (all = true <-> filter (bmatch p) m' = []).
Proof.
  rewrite bm_clear_prefix_limit_spec. cbv zeta.
  split; [apply filter_remove_first_neg|]. split; [apply filter_remove_first_pos|]. split; [reflexivity|].
  rewrite filter_remove_first_pos. split.
  - intros L. apply Nat.leb_le in L. now apply skipn_all2.
  - intros E. apply Nat.leb_le. destruct (Nat.le_gt_cases (length (filter (bmatch p) m)) (N.to_nat limit)); auto.
    apply (f_equal (@length _)) in E. rewrite skipn_length in E. simpl in E. lia.
Qed.

(* ---------- every sorted map has a representing trie; it is unique ---------- *)
Lemma bm_put_head k v r : bm_sorted ((k, v) :: r) = true -> bm_put r k v = (k, v) :: r.
Proof.
  destruct r as [|[k' v'] r']; auto. simpl. intros S. apply andb_true_iff in S as [L _].
  unfold bytes_ltb in L. destruct (bytes_compare k k'); try discriminate. reflexivity.
Qed.

(* the trie obtained by putting the entries of m, largest key first *)
Definition trie_of_bmap (m : bmap) : trie := fold_right (fun e t => trie_put t (fst e) (snd e)) None m.

Theorem Rep_trie_of_bmap m : bm_sorted m = true -> Rep (trie_of_bmap m) m.
Proof.
  induction m as [|[k v] r IH]; intros S; [apply Rep_empty|].
  simpl. rewrite <- (bm_put_head k v r S). apply Rep_put. apply IH. eapply bm_sorted_tail; eauto.
Qed.

Theorem Rep_unique t t' m : Rep t m -> Rep t' m -> t = t'.
Proof.
  intros [C E] [C' E']. rewrite <- (build_trie_entries_opt t C), <- (build_trie_entries_opt t' C').
  now rewrite E, E'.
Qed.

(* the canonical trie the specification root is computed from holds exactly the map *)
Theorem build_trie_adequate m : bm_sorted m = true ->
  Rep (build_trie (kv_of_bmap m)) m.
Proof.
  intros S. destruct (Rep_trie_of_bmap m S) as [C E].
  rewrite <- E, build_trie_entries_opt by exact C. split; auto.
Qed.

Corollary build_trie_lookup m k : bm_sorted m = true ->
  lookup_opt (build_trie (kv_of_bmap m)) (key_le_to_nibbles k) = bm_get m k.
Proof. intros S. apply Rep_lookup. now apply build_trie_adequate. Qed.

(* the maps that histories denote are sorted *)
Lemma Rep_sorted_bmap t m : Rep t m -> bm_sorted m = true.
Proof.
  intros [_ E]. pose proof (sorted_entries t) as S. rewrite E in S. clear E t.
  induction m as [|[k v] r IH]; auto. simpl in *.
  apply sorted_inv in S as [S F]. destruct r as [|[k' v'] r']; auto.
  apply andb_true_iff. split; [|now apply IH].
  apply Forall_inv in F. unfold key_lt in F. simpl in F. unfold bytes_ltb.
  now rewrite bytes_compare_nibbles, F.
Qed.
