(* Trie/BuildProofs.v — L4/L5: a canonical trie is the canonical trie of its own entries:
   Canon t -> build_trie (entries (Some t)) = Some t. *)
From Common Require Import Bytes Outcome.
From Trie Require Import Nibbles Node Encode Model Spec NibblesProofs Sem InsertProofs DeleteProofs.
From Coq Require Import Arith Lia.
Local Open Scope nat_scope.

(* ---------- lcp ---------- *)
Lemma lcp_prefix_l a b : is_prefix (lcp a b) a = true.
Proof.
  revert b; induction a as [|x a IH]; intros [|y b]; simpl; auto.
  destruct (Nat.eqb_spec x y); simpl; auto. now rewrite Nat.eqb_refl, IH.
Qed.
Lemma lcp_prefix_r a b : is_prefix (lcp a b) b = true.
Proof.
  revert b; induction a as [|x a IH]; intros [|y b]; simpl; auto.
  destruct (Nat.eqb_spec x y) as [->|]; simpl; auto. now rewrite Nat.eqb_refl, IH.
Qed.
Lemma lcp_glb q a b : is_prefix q a = true -> is_prefix q b = true -> is_prefix q (lcp a b) = true.
Proof.
  revert a b; induction q as [|z q IH]; intros [|x a] [|y b]; simpl; auto; try discriminate.
  intros H1 H2. apply andb_true_iff in H1 as [E1 H1], H2 as [E2 H2].
  apply Nat.eqb_eq in E1, E2; subst. rewrite Nat.eqb_refl. simpl. rewrite Nat.eqb_refl. simpl. auto.
Qed.

Lemma fold_lcp_prefix_acc l k : is_prefix (fold_left lcp l k) k = true.
Proof.
  revert k; induction l as [|x l IH]; intros k; simpl; [apply is_prefix_refl|].
  eapply is_prefix_trans; [apply IH|apply lcp_prefix_l].
Qed.
Lemma fold_lcp_prefix_all l k x : In x l -> is_prefix (fold_left lcp l k) x = true.
Proof.
  revert k; induction l as [|y l IH]; intros k; simpl; [tauto|].
  intros [->|H].
  - eapply is_prefix_trans; [apply fold_lcp_prefix_acc|apply lcp_prefix_r].
  - now apply IH.
Qed.
Lemma fold_lcp_glb q l k :
  is_prefix q k = true -> (forall x, In x l -> is_prefix q x = true) -> is_prefix q (fold_left lcp l k) = true.
Proof.
  revert k; induction l as [|y l IH]; intros k Hk H; simpl; auto.
  apply IH.
  - apply lcp_glb; auto. apply H. simpl; auto.
  - intros x Hx. apply H. simpl; auto.
Qed.

Lemma lcp_all_prefix l x : In x l -> is_prefix (lcp_all l) x = true.
Proof.
  destruct l as [|k l]; simpl; [tauto|]. intros [<-|H].
  - apply fold_lcp_prefix_acc.
  - now apply fold_lcp_prefix_all.
Qed.
Lemma lcp_all_glb q l : l <> [] -> (forall x, In x l -> is_prefix q x = true) -> is_prefix q (lcp_all l) = true.
Proof.
  destruct l as [|k l]; [congruence|]. intros _ H. simpl. apply fold_lcp_glb.
  - apply H. simpl; auto.
  - intros x Hx. apply H. simpl; auto.
Qed.

(* the common prefix of a key set that contains p itself, or two keys leaving p by different nibbles *)
Lemma lcp_all_exact p l :
  (forall x, In x l -> is_prefix p x = true) ->
  (In p l \/ exists i a j b, i <> j /\ In (p ++ i :: a) l /\ In (p ++ j :: b) l) ->
  lcp_all l = p.
Proof.
  intros Hall Hw.
  assert (NE : l <> []) by (destruct Hw as [H|(i & a & j & b & _ & H & _)]; intros ->; contradiction).
  apply is_prefix_antisym; [|now apply lcp_all_glb].
  destruct Hw as [H|(i & a & j & b & N & H1 & H2)].
  - now apply lcp_all_prefix.
  - pose proof (lcp_all_prefix l _ H1) as P1. pose proof (lcp_all_prefix l _ H2) as P2.
    pose proof (lcp_all_glb p l NE Hall) as P0.
    apply is_prefix_spec in P0 as [s Es]. rewrite Es in *.
    rewrite is_prefix_app_inv in P1, P2. destruct s as [|z s].
    + rewrite app_nil_r. apply is_prefix_refl.
    + simpl in P1, P2. apply andb_true_iff in P1 as [E1 _], P2 as [E2 _].
      apply Nat.eqb_eq in E1, E2. congruence.
Qed.

(* ---------- entries relative to a path prefix ---------- *)
Definition shift (p : key) (m : list (key * value)) : list (key * value) :=
  map (fun e => (p ++ fst e, snd e)) m.

Lemma shift_app p a b : shift p (a ++ b) = shift p a ++ shift p b.
Proof. apply map_app. Qed.
Lemma shift_shift p q m : shift p (shift q m) = shift (p ++ q) m.
Proof. unfold shift. rewrite map_map. apply map_ext. intros [k v]; simpl. now rewrite app_assoc. Qed.
Lemma shift_nil m : shift [] m = m.
Proof. unfold shift. rewrite <- (map_id m) at 2. apply map_ext. now intros [k v]. Qed.

Lemma entries_children_shift (f : tnode -> key -> list (key * value)) q l s :
  (forall c j p, child_at l j = Some c -> f c p = shift p (f c [])) ->
  entries_children f q l s = shift q (entries_children (fun c p => f c p) [] l s).
Proof.
  unfold child_at. revert s; induction l as [|oc r IH]; intros s H; simpl; auto.
  rewrite shift_app. f_equal.
  - destruct oc as [c|]; auto. rewrite (H c 0 (q ++ [s]) eq_refl), (H c 0 [s] eq_refl).
    now rewrite shift_shift.
  - apply IH. intros c j p E. apply (H c (S j) p E).
Qed.

Lemma entries_node_shift t : forall p, entries_node t p = shift p (entries_node t []).
Proof.
  induction t as [pk lv|pk ov cs IH] using tnode_ind'; intros p.
  - reflexivity.
  - rewrite !entries_node_branch, shift_app. f_equal.
    + destruct ov; simpl; auto.
    + rewrite app_nil_l.
      rewrite (entries_children_shift entries_node (p ++ pk)), (entries_children_shift entries_node pk).
      * now rewrite shift_shift.
      * intros c j q E. apply (Forall_child_at _ _ _ _ IH E).
      * intros c j q E. apply (Forall_child_at _ _ _ _ IH E).
Qed.

(* the entries of a branch, with the child index made explicit *)
Fixpoint child_entries (l : list (option tnode)) (i : nat) : list (key * value) :=
  match l with
  | [] => []
  | oc :: r => (match oc with Some c => shift [i] (entries_node c []) | None => [] end)
                 ++ child_entries r (S i)
  end.
Lemma entries_children_child_entries l s :
  entries_children entries_node [] l s = child_entries l s.
Proof.
  revert s; induction l as [|oc r IH]; intros s; simpl; auto.
  rewrite IH. f_equal. destruct oc; auto. apply entries_node_shift.
Qed.
Lemma entries_branch_explicit pk ov cs :
  entries_node (Branch pk ov cs) [] =
  shift pk ((match ov with Some v => [([], v)] | None => [] end) ++ child_entries cs 0).
Proof.
  rewrite entries_node_branch, app_nil_l, shift_app. f_equal.
  - destruct ov; simpl; auto. now rewrite app_nil_r.
  - rewrite (entries_children_shift entries_node pk).
    + now rewrite entries_children_child_entries.
    + intros c j p _. apply entries_node_shift.
Qed.

Lemma in_child_entries l s x :
  In x (child_entries l s) <-> exists j c r v, child_at l j = Some c /\ In (r, v) (entries_node c []) /\ x = ((s + j) :: r, v).
Proof.
  unfold child_at. revert s; induction l as [|oc l IH]; intros s; simpl.
  - split; [tauto|]. intros (j & c & r & v & E & _). destruct j; discriminate.
  - rewrite in_app_iff, IH. split.
    + intros [H|(j & c & r & v & E & H1 & H2)].
      * destruct oc as [c|]; [|contradiction]. unfold shift in H. apply in_map_iff in H as ([r v] & <- & H).
        exists 0, c, r, v. rewrite Nat.add_0_r. auto.
      * exists (S j), c, r, v. rewrite Nat.add_succ_r. auto.
    + intros (j & c & r & v & E & H1 & ->). destruct j as [|j].
      * left. rewrite E. rewrite Nat.add_0_r. unfold shift. apply in_map_iff. exists (r, v). auto.
      * right. exists j, c, r, v. rewrite Nat.add_succ_r. auto.
Qed.

(* a canonical node has at least one entry *)
Lemma entries_nonempty t : Canon t -> exists r v, In (r, v) (entries_node t []).
Proof.
  induction t as [pk lv|pk ov cs IH] using tnode_ind'; intros C.
  - exists pk, lv. simpl. auto.
  - apply Canon_branch_inv in C as (Hpk & L & F & C1 & C2).
    destruct (first_child_exists cs C1) as (i & c & E).
    destruct (first_child_spec _ _ _ _ E) as (_ & A & _). rewrite Nat.sub_0_r in A.
    destruct (Forall_child_at _ _ _ _ IH A (Forall_child_at _ _ _ _ F A)) as (r & v & H).
    exists (pk ++ i :: r), v. apply in_entries_node. exists (pk ++ i :: r). split; auto.
    rewrite lookup_branch_child, A. cbn [lookup_opt].
    apply in_entries_node in H as (k' & Ek & H). simpl in Ek. now subst.
Qed.

(* ---------- strip / bucket ---------- *)
Lemma strip_shift p m : strip (length p) (shift p m) = m.
Proof.
  unfold strip, shift. rewrite map_map. rewrite <- (map_id m) at 2. apply map_ext.
  intros [k v]. simpl. now rewrite skipn_app_exact.
Qed.

Lemma bucket_app i a b : bucket i (a ++ b) = bucket i a ++ bucket i b.
Proof.
  induction a as [|[[|x k] v] a IH]; simpl; auto.
  destruct (x =? i); simpl; now rewrite IH.
Qed.
Lemma bucket_shift_same i m : bucket i (shift [i] m) = m.
Proof. induction m as [|[k v] m IH]; simpl; auto. now rewrite Nat.eqb_refl, IH. Qed.
Lemma bucket_shift_other i j m : i <> j -> bucket i (shift [j] m) = [].
Proof.
  intros N. induction m as [|[k v] m IH]; simpl; auto.
  apply Nat.eqb_neq in N. now rewrite Nat.eqb_sym, N.
Qed.
Lemma bucket_child_entries i l s :
  bucket i (child_entries l s) =
  if i <? s then [] else match child_at l (i - s) with Some c => entries_node c [] | None => [] end.
Proof.
  unfold child_at. revert s; induction l as [|oc l IH]; intros s; simpl.
  - destruct (i <? s); auto. now destruct (i - s).
  - rewrite bucket_app, IH.
    destruct (Nat.ltb_spec i s) as [L1|L1].
    + replace (i <? S s) with true by (symmetry; apply Nat.ltb_lt; lia). rewrite app_nil_r.
      destruct oc; auto. apply bucket_shift_other. lia.
    + destruct (Nat.eq_dec i s) as [->|N].
      * rewrite Nat.sub_diag. replace (s <? S s) with true by (symmetry; apply Nat.ltb_lt; lia).
        rewrite app_nil_r. destruct oc; auto. apply bucket_shift_same.
      * replace (i <? S s) with false by (symmetry; apply Nat.ltb_ge; lia).
        replace (i - s) with (S (i - S s)) by lia.
        destruct oc; simpl; auto. rewrite bucket_shift_other by lia. reflexivity.
Qed.

(* ---------- height and fuel ---------- *)
Fixpoint height (t : tnode) : nat :=
  match t with
  | Leaf _ _ => 1
  | Branch _ _ cs =>
    S ((fix go (l : list (option tnode)) : nat :=
          match l with
          | [] => 0
          | oc :: r => Nat.max (match oc with Some c => height c | None => 0 end) (go r)
          end) cs)
  end.
Fixpoint max_child_height (l : list (option tnode)) : nat :=
  match l with
  | [] => 0
  | oc :: r => Nat.max (match oc with Some c => height c | None => 0 end) (max_child_height r)
  end.
Lemma height_branch pk ov cs : height (Branch pk ov cs) = S (max_child_height cs).
Proof. reflexivity. Qed.
Lemma max_child_height_ge l i c : child_at l i = Some c -> height c <= max_child_height l.
Proof.
  unfold child_at. revert i; induction l as [|oc r IH]; intros [|i]; simpl; intros E; try discriminate.
  - subst. lia.
  - specialize (IH _ E). lia.
Qed.

Lemma max_key_len_app a b : max_key_len (a ++ b) = Nat.max (max_key_len a) (max_key_len b).
Proof. unfold max_key_len. induction a as [|[k v] a IH]; simpl; auto. rewrite IH. lia. Qed.
Lemma max_key_len_in m k v : In (k, v) m -> length k <= max_key_len m.
Proof.
  unfold max_key_len. induction m as [|[k' v'] m IH]; simpl; [tauto|].
  intros [E|H]; [inversion E; subst; lia|specialize (IH H); lia].
Qed.
Lemma max_key_len_le m n : (forall k v, In (k, v) m -> length k <= n) -> max_key_len m <= n.
Proof.
  unfold max_key_len. induction m as [|[k' v'] m IH]; simpl; intros H; [lia|].
  pose proof (H k' v' (or_introl eq_refl)). assert (fold_right (fun e a => Nat.max (length (fst e)) a) 0 m <= n); [|lia].
  apply IH. intros k v Hk. apply (H k v). auto.
Qed.

Lemma height_le_keys t : Canon t -> height t <= S (max_key_len (entries_node t [])).
Proof.
  induction t as [pk lv|pk ov cs IH] using tnode_ind'; intros C.
  - simpl. lia.
  - rewrite height_branch. apply Canon_branch_inv in C as (Hpk & L & F & C1 & C2).
    apply le_n_S.
    assert (G : forall l, Forall (opt_all (fun t => Canon t -> height t <= S (max_key_len (entries_node t [])))) l ->
                Forall (opt_all Canon) l ->
                forall n, (forall i c r v, child_at l i = Some c -> In (r, v) (entries_node c []) -> S (length r) <= n) ->
                max_child_height l <= n).
    { induction l as [|oc r IHl]; intros F1 F2 n H; simpl; [lia|].
      inversion F1; subst. inversion F2; subst.
      apply Nat.max_lub.
      - destruct oc as [c|]; [|lia]. simpl in *.
        etransitivity; [apply H2; auto|].
        destruct (entries_nonempty c H4) as (r0 & v0 & H0).
        pose proof (H 0 c r0 v0 eq_refl H0) as Hn. destruct n as [|n]; [lia|]. apply le_n_S.
        apply max_key_len_le. intros k v Hk. specialize (H 0 c k v eq_refl Hk). lia.
      - apply IHl; auto. intros i c r' v' E I. apply (H (S i) c r' v' E I). }
    apply (G cs IH F). intros i c r v E I.
    assert (In (pk ++ i :: r, v) (entries_node (Branch pk ov cs) [])) as Hin.
    { apply in_entries_node. exists (pk ++ i :: r). split; auto.
      rewrite lookup_branch_child, E. cbn [lookup_opt].
      apply in_entries_node in I as (k' & Ek & I). simpl in Ek. now subst. }
    apply max_key_len_in in Hin. rewrite length_app_cons in Hin. lia.
Qed.

(* ---------- the main lemma ---------- *)
Lemma kv_get_shift_nil ov rest :
  (forall k v, In (k, v) rest -> k <> []) ->
  kv_get ((match ov with Some v => [([], v)] | None => [] end) ++ rest) [] = ov.
Proof.
  intros H. destruct ov as [v|]; simpl; auto.
  induction rest as [|[k v] rest IH]; simpl; auto.
  destruct (key_eqb_spec k []) as [->|].
  - exfalso. apply (H [] v); simpl; auto.
  - apply IH. intros k' v' I. apply (H k' v'). simpl; auto.
Qed.

Lemma two_entries_not_single (m : list (key * value)) :
  2 <= length m -> exists a b r, m = a :: b :: r.
Proof. destruct m as [|a [|b r]]; simpl; intros; try lia. eauto. Qed.

Lemma child_entries_length_ge l s i c :
  Forall (opt_all Canon) l -> child_at l i = Some c -> 1 <= length (child_entries l s).
Proof.
  unfold child_at. revert s i; induction l as [|oc l IH]; intros s [|i] F E; simpl in *; try discriminate.
  - subst. inversion F; subst. simpl in *. rewrite app_length. unfold shift. rewrite map_length.
    destruct (entries_nonempty c H1) as (r & v & H). destruct (entries_node c []); [contradiction|simpl; lia].
  - inversion F; subst. rewrite app_length. specialize (IH (S s) i H2 E). lia.
Qed.
Lemma child_entries_length_two l s :
  Forall (opt_all Canon) l -> 2 <= count_children l -> 2 <= length (child_entries l s).
Proof.
  revert s; induction l as [|oc l IH]; intros s F C; simpl in *; [lia|].
  inversion F; subst. rewrite app_length. destruct oc as [c|].
  - simpl in *. unfold shift. rewrite map_length.
    destruct (entries_nonempty c H1) as (r & v & H).
    assert (1 <= length (entries_node c [])) by (destruct (entries_node c []); [contradiction|simpl; lia]).
    destruct (first_child_exists l) as (i & c' & E); [lia|].
    destruct (first_child_spec _ _ _ _ E) as (_ & A & _). rewrite Nat.sub_0_r in A.
    pose proof (child_entries_length_ge l (S s) i c' H2 A) as H3.
    exact (Nat.add_le_mono 1 _ 1 _ H0 H3).
  - simpl. apply IH; auto.
Qed.

Lemma build_two f m : 2 <= length m ->
  build (S f) m =
  let p := lcp_all (map fst m) in
  let m' := strip (length p) m in
  Some (Branch p (kv_get m' []) (map (fun i => build f (bucket i m')) (seq 0 16))).
Proof.
  intros L. destruct m as [|[k v] [|b r]]; simpl in L; try lia. reflexivity.
Qed.

Theorem build_entries t : forall f, Canon t -> height t <= f -> build f (entries_node t []) = Some t.
Proof.
  induction t as [pk lv|pk ov cs IH] using tnode_ind'; intros f C Hf.
  - destruct f; [simpl in Hf; lia|]. reflexivity.
  - rewrite height_branch in Hf. destruct f as [|f]; [lia|].
    pose proof C as C0. apply Canon_branch_inv in C as (Hpk & L & F & C1 & C2).
    rewrite entries_branch_explicit.
    set (inner := (match ov with Some v => [([], v)] | None => [] end) ++ child_entries cs 0).
    assert (Len : 2 <= length inner).
    { unfold inner. rewrite app_length. unfold occupants in C2. destruct ov as [v|]; simpl in *.
      - destruct (first_child_exists cs C1) as (i & c & E).
        destruct (first_child_spec _ _ _ _ E) as (_ & A & _). rewrite Nat.sub_0_r in A.
        pose proof (child_entries_length_ge cs 0 i c F A) as H3. exact (le_n_S _ _ H3).
      - apply child_entries_length_two; auto. lia. }
    assert (Len' : 2 <= length (shift pk inner)) by (unfold shift; now rewrite map_length).
    rewrite (build_two f _ Len'). cbv zeta. clear Len'.
    (* the common prefix is pk *)
    assert (Hin : forall k v, In (k, v) (child_entries cs 0) -> exists j c r, child_at cs j = Some c /\ In (r, v) (entries_node c []) /\ k = j :: r).
    { intros k v H. apply in_child_entries in H as (j & c & r & v' & E & I & Eq). inversion Eq; subst.
      exists j, c, r. auto. }
    assert (Hlcp : lcp_all (map fst (shift pk inner)) = pk).
    { apply lcp_all_exact.
      - intros x Hx. apply in_map_iff in Hx as ([k v] & <- & Hx). unfold shift in Hx.
        apply in_map_iff in Hx as ([k0 v0] & E0 & _). inversion E0; subst. apply is_prefix_app.
      - unfold occupants in C2. destruct ov as [v|].
        + left. apply in_map_iff. exists (pk, v). split; auto. unfold shift. apply in_map_iff.
          exists ([], v). split; [simpl; now rewrite app_nil_r|]. unfold inner. simpl. auto.
        + right. simpl in C2.
          destruct (first_child_exists cs C1) as (i & c & E).
          destruct (first_child_spec _ _ _ _ E) as (_ & A & B). rewrite Nat.sub_0_r in A, B.
          assert (exists j c', j <> i /\ child_at cs j = Some c') as (j & c' & Nj & A').
          { destruct (Nat.eq_dec (count_children (set_child cs i None)) 0) as [Z|Z].
            - rewrite (count_children_set_none _ _ _ A) in Z. lia.
            - destruct (first_child_exists (set_child cs i None)) as (j & c' & E'); [lia|].
              destruct (first_child_spec _ _ _ _ E') as (_ & A' & _). rewrite Nat.sub_0_r in A'.
              destruct (Nat.eq_dec j i) as [->|Nj].
              + rewrite child_at_set_child_same in A' by (apply child_at_lt in A; exact A). discriminate.
              + rewrite child_at_set_child_other in A' by congruence. eauto. }
          destruct (entries_nonempty c (Forall_child_at _ _ _ _ F A)) as (r1 & v1 & H1).
          destruct (entries_nonempty c' (Forall_child_at _ _ _ _ F A')) as (r2 & v2 & H2).
          exists i, r1, j, r2. split; [congruence|]. split.
          * apply in_map_iff. exists (pk ++ i :: r1, v1). split; auto. unfold shift. apply in_map_iff.
            exists (i :: r1, v1). split; auto. unfold inner. simpl. apply in_child_entries.
            exists i, c, r1, v1. auto.
          * apply in_map_iff. exists (pk ++ j :: r2, v2). split; auto. unfold shift. apply in_map_iff.
            exists (j :: r2, v2). split; auto. unfold inner. simpl. apply in_child_entries.
            exists j, c', r2, v2. auto. }
    rewrite Hlcp, strip_shift.
    f_equal. f_equal.
    + unfold inner. apply kv_get_shift_nil. intros k v H. apply Hin in H as (j & c & r & _ & _ & ->). discriminate.
    + apply children_ext; [rewrite map_length, seq_length; lia|].
      intros i. unfold child_at at 1.
      destruct (Nat.lt_ge_cases i 16) as [Li|Li].
      * rewrite (nth_indep _ None (build f (bucket 0 inner))) by (rewrite map_length, seq_length; lia).
        rewrite (map_nth (fun i => build f (bucket i inner)) (seq 0 16) 0 i).
        rewrite seq_nth by lia. simpl.
        unfold inner. rewrite bucket_app.
        assert (Eb : forall (a b : kv), a = [] -> a ++ b = b) by (intros a b ->; reflexivity).
        rewrite Eb by (destruct ov; reflexivity). clear Eb.
        rewrite bucket_child_entries. simpl. rewrite Nat.sub_0_r.
        destruct (child_at cs i) as [c|] eqn:E.
        -- apply (Forall_child_at _ _ _ _ IH E); [apply (Forall_child_at _ _ _ _ F E)|].
           pose proof (max_child_height_ge _ _ _ E). lia.
        -- destruct f; reflexivity.
      * rewrite nth_overflow by (rewrite map_length, seq_length; lia).
        symmetry. apply child_at_oob. lia.
Qed.

Theorem build_trie_entries t : Canon t -> build_trie (entries_node t []) = Some t.
Proof. intros C. unfold build_trie. apply build_entries; auto. now apply height_le_keys. Qed.

Corollary build_trie_entries_opt (t : trie) : Canon_opt t -> build_trie (entries t) = t.
Proof.
  destruct t as [n|]; simpl; intros C.
  - now apply build_trie_entries.
  - reflexivity.
Qed.
