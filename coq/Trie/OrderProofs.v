(* Trie/OrderProofs.v — exactness of the clear-limit-order guard (audit round 3).
   deleteNodesLimit, for EVERY limit (no guard): the result is canonical, its entries are entries of
   the subtree, and the surviving keys are closed under taking stored prefixes (a branch's own value
   is removed after everything below it).  Hence inside the order guard — the (limit+1)-th key
   extends one of the first [limit] — the result is never "the first [limit] keys removed". *)
From Common Require Import Bytes Outcome.
From Trie Require Import Nibbles Node Encode Model Spec NibblesProofs Sem InsertProofs DeleteProofs
     BuildProofs MapProofs QueryProofs ClearProofs LimitProofs SpecProofs GoSpec GoPrefixProofs.
From Coq Require Import Arith Lia.
Local Open Scope nat_scope.

Definition closed_in (L S : list (key * value)) : Prop :=
  forall k v k' v', In (k, v) L -> In (k', v') S -> is_prefix k k' = true -> In (k, v) S.

Definition dnl_gen (t : tnode) : Prop := forall limit, (0 < limit)%N ->
  let r := delete_nodes_limit t limit in
  (snd r <= limit)%N /\ (fst r <> None -> snd r = limit) /\
  Canon_opt (fst r) /\ incl (entries (fst r)) (E t) /\ closed_in (E t) (entries (fst r)).

Lemma in_shift q l k v : In (k, v) (shift q l) <-> exists k0, k = q ++ k0 /\ In (k0, v) l.
Proof.
  unfold shift. rewrite in_map_iff. split.
  - intros ([k0 v0] & E & H). inversion E; subst. eauto.
  - intros (k0 & -> & H). exists (k0, v). auto.
Qed.

Lemma shift_inj q a b : shift q a = shift q b -> a = b.
Proof.
  revert b; induction a as [|[k v] a IH]; intros [|[k' v'] b] H; try discriminate; auto.
  simpl in H. inversion H as [[H1 H2 H3]]. apply app_inv_head in H1. subst. f_equal. now apply IH.
Qed.

Lemma child_entries_head l s k v : In (k, v) (child_entries l s) -> exists j r, k = (s + j) :: r.
Proof. intros H. apply in_child_entries in H as (j & c & r & v0 & _ & _ & E). inversion E; subst. eauto. Qed.

Definition ovp (ov : option value) : list (key * value) := match ov with Some v => [([], v)] | None => [] end.

Lemma dnl_loop_gen pk ov : nibbles_ok pk -> forall rest done limit vd,
  all_none done -> length (done ++ rest) = 16 -> Forall (opt_all Canon) rest -> Forall (opt_all dnl_gen) rest ->
  (0 < limit)%N ->
  let r := dnl_loop pk ov done rest limit vd in
  let L := ovp ov ++ child_entries rest (length done) in
  (snd r <= vd + limit)%N /\ (fst r <> None -> snd r = (vd + limit)%N) /\
  Canon_opt (fst r) /\
  exists SS, entries (fst r) = shift pk SS /\ incl SS L /\ closed_in L SS.
Proof.
  intros Hpk. induction rest as [|oc r IH]; intros done limit vd AN Len FC FD L0; cbv zeta.
  - cbn [dnl_loop fst snd]. split; [destruct ov; simpl; lia|]. split; [congruence|]. split; [exact I|].
    exists []. split; [reflexivity|]. split; [intros x []|]. intros k v k' v' _ [].
  - inversion FC as [|? ? C1 C2]; subst. inversion FD as [|? ? D1 D2]; subst.
    destruct oc as [c|].
    + cbn [dnl_loop]. simpl in C1, D1. specialize (D1 limit L0). cbv zeta in D1.
      destruct (delete_nodes_limit c limit) as [nc nd] eqn:Edn. cbn [fst snd] in D1.
      destruct D1 as (N1 & N2 & Cn & In1 & Cl1). cbv zeta.
      set (i := length done) in *.
      assert (CE : child_entries (done ++ nc :: r) 0 = shift [i] (entries nc) ++ child_entries r (S i)).
      { rewrite child_entries_app, (all_none_child_entries done 0 AN). cbn [app child_entries plus]. fold i.
        f_equal. destruct nc; reflexivity. }
      destruct ((count_children (done ++ nc :: r) =? 0) && is_none ov) eqn:T.
      * cbn [fst snd]. split; [lia|]. split; [congruence|]. split; [exact I|].
        exists []. split; [reflexivity|]. split; [intros x []|]. intros k v k' v' _ [].
      * destruct (N.eqb_spec (limit - nd) 0) as [Z|Z].
        -- (* the limit is used up inside this child *)
           assert (nd = limit) by lia. subst nd. cbn [fst snd].
           split; [lia|]. split; [reflexivity|].
           assert (Lcs : length (done ++ nc :: r) = 16) by (rewrite app_length in *; simpl in *; lia).
           assert (Fcs : Forall (opt_all Canon) (done ++ nc :: r)).
           { apply Forall_app. split; [now apply Forall_all_none|]. constructor; auto. }
           assert (Occ : 1 <= occupants ov (done ++ nc :: r)).
           { unfold occupants. apply andb_false_iff in T as [T|T].
             - apply Nat.eqb_neq in T. lia.
             - destruct ov; [simpl; lia|discriminate]. }
           destruct (handle_deletion_spec pk ov (done ++ nc :: r) pk Hpk Lcs Fcs Occ (is_prefix_refl pk)) as [Hc Hl].
           split; [exact Hc|].
           exists (ovp ov ++ shift [i] (entries nc) ++ child_entries r (S i)).
           split.
           { cbn [entries]. fold (E (handle_deletion pk ov (done ++ nc :: r) pk)).
             rewrite (entries_lookup_ext _ _ Hl), E_branch, CE. reflexivity. }
           cbn [child_entries]. fold (E c).
           split.
           { intros [k v] H. apply in_app_or in H as [H|H]; [apply in_or_app; auto|].
             apply in_or_app. right. apply in_app_or in H as [H|H]; apply in_or_app; auto.
             left. apply in_shift in H as (k0 & -> & H). apply in_shift. exists k0. split; auto. }
           { intros k v k' v' HL HS P.
             apply in_app_or in HL as [HL|HL]; [apply in_or_app; auto|].
             apply in_or_app. right. apply in_app_or in HL as [HL|HL]; apply in_or_app; auto.
             left. apply in_shift in HL as (k0 & -> & HL).
             apply in_app_or in HS as [HS|HS].
             - destruct ov; simpl in HS; [|contradiction]. destruct HS as [HS|[]]. inversion HS; subst. discriminate.
             - apply in_app_or in HS as [HS|HS].
               + apply in_shift in HS as (k0' & -> & HS). apply in_shift. exists k0. split; auto.
                 cbn [app is_prefix] in P. apply andb_true_iff in P as [_ P]. exact (Cl1 k0 v k0' v' HL HS P).
               + apply child_entries_head in HS as (j & r0 & ->). cbn [app is_prefix] in P.
                 apply andb_true_iff in P as [P _]. apply Nat.eqb_eq in P. lia. }
        -- (* the child is gone and the limit is not used up *)
           assert (nc = None).
           { destruct nc as [x|]; auto. assert (nd = limit) by (apply N2; discriminate). lia. }
           subst nc.
           destruct (IH (done ++ [None]) (limit - nd)%N (vd + nd)%N) as (A1 & A2 & A3 & SS & A4 & A5 & A6); auto.
           { now apply all_none_snoc. }
           { rewrite !app_length in *. cbn [length] in *. lia. }
           { lia. }
           rewrite app_length in A5, A6. cbn [length] in A5, A6. replace (length done + 1) with (S i) in * by (unfold i; lia).
           split; [lia|]. split; [intros X; rewrite (A2 X); lia|]. split; [exact A3|].
           exists SS. split; [exact A4|]. cbn [child_entries]. fold (E c).
           split.
           { intros x H. apply A5 in H. apply in_app_or in H as [H|H]; apply in_or_app; [left; exact H|].
             right. apply in_or_app. right. exact H. }
           { intros k v k' v' HL HS P.
             apply in_app_or in HL as [HL|HL]; [apply (A6 k v k' v'); auto; apply in_or_app; left; exact HL|].
             apply in_app_or in HL as [HL|HL]; [|apply (A6 k v k' v'); auto; apply in_or_app; right; exact HL].
             exfalso. apply in_shift in HL as (k0 & -> & HL). apply A5 in HS.
             apply in_app_or in HS as [HS|HS].
             - destruct ov; simpl in HS; [|contradiction]. destruct HS as [HS|[]]. inversion HS; subst. discriminate.
             - apply child_entries_head in HS as (j & r0 & ->). cbn [app is_prefix] in P.
               apply andb_true_iff in P as [P _]. apply Nat.eqb_eq in P. lia. }
    + cbn [dnl_loop].
      destruct (IH (done ++ [None]) limit vd) as (A1 & A2 & A3 & SS & A4 & A5 & A6); auto.
      { now apply all_none_snoc. }
      { rewrite !app_length in *. cbn [length] in *. lia. }
      rewrite app_length in A5, A6. cbn [length] in A5, A6. replace (length done + 1) with (S (length done)) in * by lia.
      split; [exact A1|]. split; [exact A2|]. split; [exact A3|]. exists SS. auto.
Qed.

Theorem dnl_gen_all t : Canon t -> dnl_gen t.
Proof.
  induction t as [pk lv|pk ov cs IH] using tnode_ind'; intros C limit L0; cbv zeta.
  - rewrite delete_nodes_limit_leaf. destruct (N.eqb_spec limit 0) as [Z|Z]; [lia|]. cbn [fst snd].
    split; [lia|]. split; [congruence|]. split; [exact I|]. split; [intros x []|]. intros k v k' v' _ [].
  - rewrite delete_nodes_limit_branch. destruct (N.eqb_spec limit 0) as [Z|Z]; [lia|].
    apply Canon_branch_inv in C as (Hpk & L & F & C1 & C2).
    assert (FD : Forall (opt_all dnl_gen) cs).
    { rewrite Forall_forall in *. intros [c|] Hc; simpl; auto. apply (IH _ Hc). apply (F _ Hc). }
    destruct (dnl_loop_gen pk ov Hpk cs [] limit 0%N) as (A1 & A2 & A3 & SS & A4 & A5 & A6); auto.
    { intros i. unfold child_at. destruct i; reflexivity. }
    cbn [length] in A5, A6.
    split; [lia|]. split; [intros X; rewrite (A2 X); lia|]. split; [exact A3|].
    rewrite A4, E_branch. fold (ovp ov). split.
    + intros [k v] H. apply in_shift in H as (k0 & -> & H). apply in_shift. exists k0. split; auto.
    + intros k v k' v' HL HS P. apply in_shift in HL as (k0 & -> & HL). apply in_shift in HS as (k0' & -> & HS).
      rewrite is_prefix_app_inv in P. apply in_shift. exists k0. split; auto. exact (A6 k0 v k0' v' HL HS P).
Qed.

Lemma In_skipn {A} (l : list A) n x : In x (skipn n l) -> In x l.
Proof. revert n; induction l as [|y l IH]; intros [|n] H; simpl in *; auto. right. eapply IH; eauto. Qed.
Lemma In_firstn {A} (l : list A) n x : In x (firstn n l) -> In x l.
Proof. revert n; induction l as [|y l IH]; intros [|n] H; simpl in *; auto; try contradiction. destruct H; eauto. Qed.
Lemma nth_in_skipn {A} (l : list A) n d : n < length l -> In (nth n l d) (skipn n l).
Proof.
  revert n; induction l as [|y l IH]; intros [|n] H; simpl in *; try lia; auto. apply IH. lia.
Qed.

(* a strictly sorted list has no key both among its first n entries and after them *)
Lemma sorted_firstn_skipn_disjoint l n k v1 v2 : sorted l -> In (k, v1) (firstn n l) -> In (k, v2) (skipn n l) -> False.
Proof.
  revert n; induction l as [|y l IH]; intros n S H1 H2; [destruct n; contradiction|].
  destruct n as [|n]; [contradiction|]. apply sorted_inv in S as [S F]. cbn [firstn skipn] in *.
  destruct H1 as [->|H1].
  - rewrite Forall_forall in F. apply In_skipn in H2. specialize (F _ H2). unfold key_lt in F. cbn [fst] in F.
    rewrite key_compare_refl in F. discriminate.
  - exact (IH n S H1 H2).
Qed.

(* inside the order guard the keys left by deleteNodesLimit are not "all but the first [limit]" *)
Theorem dnl_guard_differs t l : Canon t -> 0 < l -> order_guard (map fst (E t)) l = true ->
  map fst (entries (fst (delete_nodes_limit t (N.of_nat l)))) <> map fst (skipn l (E t)).
Proof.
  intros C L1 G Eq. unfold order_guard in G. apply andb_true_iff in G as [G1 G2].
  apply Nat.ltb_lt in G1. rewrite map_length in G1.
  apply existsb_exists in G2 as (ki & Hki & P). rewrite firstn_map in Hki.
  apply in_map_iff in Hki as ([ki0 vi] & Eki & Hki). cbn [fst] in Eki. subst ki0.
  set (d := (@nil nibble, @nil byte)).
  change (@nil nibble) with (fst d) in P. rewrite map_nth in P.
  destruct (nth l (E t) d) as [k' v'] eqn:En. cbn [fst] in P.
  assert (H' : In (k', v') (skipn l (E t))) by (rewrite <- En; now apply nth_in_skipn).
  destruct (dnl_gen_all t C (N.of_nat l)) as (_ & _ & _ & _ & Cl); [lia|].
  assert (K' : In k' (map fst (entries (fst (delete_nodes_limit t (N.of_nat l)))))).
  { rewrite Eq. apply in_map_iff. exists (k', v'). auto. }
  apply in_map_iff in K' as ([k0 v''] & E0 & K'). cbn [fst] in E0. subst k0.
  pose proof (Cl ki vi k' v'' (In_firstn _ _ _ Hki) K' P) as Ki.
  assert (Ki' : In ki (map fst (skipn l (E t)))).
  { rewrite <- Eq. apply in_map_iff. exists (ki, vi). auto. }
  apply in_map_iff in Ki' as ([k0 v2] & E0 & Ki'). cbn [fst] in E0. subst k0.
  apply (sorted_firstn_skipn_disjoint (E t) l ki vi v2); auto. apply sorted_entries_node.
Qed.

Lemma map_fst_shift_inj q (a b : list (key * value)) : map fst (shift q a) = map fst (shift q b) -> map fst a = map fst b.
Proof.
  rewrite !map_fst_shift. generalize (map fst a) (map fst b). clear.
  induction l as [|x l IH]; intros [|y l'] H; try discriminate; auto.
  simpl in H. inversion H as [[H1 H2]]. apply app_inv_head in H1. subst. f_equal. now apply IH.
Qed.

Lemma remove_first_le {A} (f : A -> bool) l : forall n, length (remove_first n f l) <= length l.
Proof.
  induction l as [|y l IH]; intros n; cbn [remove_first length]; auto.
  destruct (f y).
  - destruct n as [|n']; cbn [length]; [lia|specialize (IH n'); lia].
  - cbn [length]. specialize (IH n). lia.
Qed.
Lemma remove_first_length {A} n (f : A -> bool) l : 0 < n -> filter f l <> [] ->
  length (remove_first n f l) < length l.
Proof.
  revert n; induction l as [|x l IH]; intros n N0 NE; [simpl in NE; congruence|].
  cbn [remove_first filter] in *. destruct (f x).
  - destruct n as [|n']; [lia|]. cbn [length]. pose proof (remove_first_le f l n'). lia.
  - cbn [length]. specialize (IH n N0 NE). lia.
Qed.

Lemma order_guard_nonempty L d : order_guard L d = true -> L <> [].
Proof. unfold order_guard. destruct L; [|discriminate]. simpl. rewrite Nat.ltb_irrefl || destruct d; discriminate. Qed.

(* clearPrefixLimit inside the order guard: canonical result, never the first [limit] matching entries removed *)
Definition cpl_dif (t : tnode) : Prop :=
  forall p limit, nibbles_ok p -> 0 < limit -> order_guard (map fst (matching p t)) limit = true ->
    let r := clear_prefix_limit_node t p (N.of_nat limit) in
    Canon_opt (fst (fst r)) /\ incl (entries (fst (fst r))) (E t) /\
    map fst (entries (fst (fst r))) <> map fst (remove_first limit (has_prefix p) (E t)).

Theorem cpl_differs t : Canon t -> cpl_dif t.
Proof.
  induction t as [pk lv|pk ov cs IH] using tnode_ind'; intros C p limit Hp L1 G; cbv zeta.
  - exfalso. unfold order_guard in G. apply andb_true_iff in G as [G1 _]. apply Nat.ltb_lt in G1.
    rewrite map_length in G1. unfold matching, E in G1. cbn [entries_node filter] in G1.
    destruct (has_prefix p ([] ++ pk, lv)); cbn [length] in G1; lia.
  - pose proof C as C0. apply Canon_branch_inv in C as (Hpk & L & F & C1 & C2).
    pose proof (order_guard_nonempty _ _ G) as NE.
    assert (NE' : filter (has_prefix p) (E (Branch pk ov cs)) <> []).
    { intros X. apply NE. unfold matching. now rewrite X. }
    rewrite clear_prefix_limit_branch.
    destruct (is_prefix p pk) eqn:P1.
    + assert (All : forall x, In x (E (Branch pk ov cs)) -> has_prefix p x = true).
      { intros [k v] H. unfold E in H. apply in_entries_node in H as (k' & -> & Hl). cbn [app] in *.
        unfold has_prefix. cbn [fst]. eapply is_prefix_trans; [exact P1|].
        apply (lookup_some_prefix _ _ _ Hl). }
      assert (EM : matching p (Branch pk ov cs) = E (Branch pk ov cs)) by (apply filter_all; exact All).
      rewrite EM in G. cbn [fst snd].
      destruct (dnl_gen_all _ C0 (N.of_nat limit)) as (_ & _ & Cn & In0 & _); [lia|].
      split; [exact Cn|]. split; [exact In0|]. rewrite (remove_first_all limit _ _ All). now apply dnl_guard_differs.
    + destruct (prefix_is_child pk p) eqn:P2.
      * apply prefix_is_child_spec in P2 as [ci ->]. cbv zeta. rewrite nth_app_mid.
        apply nibbles_ok_app in Hp as [_ Hci]. apply nibbles_ok_cons in Hci as [Hci _].
        assert (EM := matching_block pk ov cs ci []).
        assert (ER := remove_first_block pk ov cs ci [] limit).
        assert (AllT : forall l : list (key * value), filter (has_prefix []) l = l)
          by (intros l; apply filter_all; reflexivity).
        rewrite AllT in EM.
        destruct (child_at cs ci) as [c|] eqn:Ec.
        -- pose proof (Forall_child_at _ _ _ _ F Ec) as Cc.
           cbn [entries] in EM, ER. fold (E c) in EM, ER.
           assert (Gc : order_guard (map fst (E c)) limit = true).
           { rewrite EM, map_fst_shift, order_guard_map_app in G. exact G. }
           destruct (dnl_gen_all c Cc (N.of_nat limit)) as (_ & _ & Cn & Inc & _); [lia|].
           pose proof (dnl_guard_differs c limit Cc L1 Gc) as Dc.
           destruct (N.eqb_spec (snd (delete_nodes_limit c (N.of_nat limit))) 0) as [Z|Z].
           ++ cbn [fst snd]. split; [exact C0|]. cbn [entries]. fold (E (Branch pk ov cs)).
              split; [apply incl_refl|]. intros Eq. apply (f_equal (@length _)) in Eq. rewrite !map_length in Eq.
              pose proof (remove_first_length limit (has_prefix (pk ++ [ci])) (E (Branch pk ov cs)) L1 NE'). lia.
           ++ set (nc := fst (delete_nodes_limit c (N.of_nat limit))) in *.
              destruct (handle_deletion_spec pk ov (set_child cs ci nc) (pk ++ [ci]) Hpk) as [Hc Hl].
              { now rewrite set_child_length. }
              { apply Forall_set_child; auto. }
              { now apply occupants_set_child_ge. }
              { apply is_prefix_app. }
              cbn [fst snd]. split; [exact Hc|].
              cbn [entries]. fold (E (handle_deletion pk ov (set_child cs ci nc) (pk ++ [ci]))).
              rewrite (entries_lookup_ext _ _ Hl), E_branch_block by lia.
              split.
              { rewrite (E_branch_block_same pk ov cs ci), Ec. cbn [entries]. fold (E c).
                intros x H. apply in_app_or in H as [H|H]; [apply in_or_app; auto|]. apply in_or_app. right.
                apply in_app_or in H as [H|H]; apply in_or_app; auto. left.
                destruct x as [k v]. apply in_shift in H as (k0 & -> & H). apply in_shift. exists k0. split; auto. }
              rewrite ER. rewrite remove_first_all by reflexivity. rewrite !map_app.
              intros Eq. apply app_inv_head in Eq. apply app_inv_tail in Eq. apply map_fst_shift_inj in Eq. now apply Dc.
        -- exfalso. rewrite EM in NE. cbn [entries shift map] in NE. congruence.
      * destruct (no_prefix_for_node pk p) eqn:P3.
        -- exfalso.
           assert (NoM : forall x, In x (E (Branch pk ov cs)) -> has_prefix p x = false).
           { intros [k v] H. unfold E in H. apply in_entries_node in H as (k' & -> & Hl). cbn [app] in *.
             unfold has_prefix. cbn [fst]. destruct (is_prefix p k') eqn:Q1; auto. exfalso.
             pose proof (lookup_some_prefix _ _ _ Hl) as Q2. cbn [node_pk] in Q2.
             unfold no_prefix_for_node in P3. apply orb_true_iff in P3 as [P3|P3].
             - apply Nat.leb_le in P3. rewrite (is_prefix_comparable p pk k' Q1 Q2 P3) in P1. discriminate.
             - apply Nat.ltb_lt in P3. destruct (Nat.le_ge_cases (length p) (length pk)) as [Lp|Lp].
               + rewrite (is_prefix_comparable p pk k' Q1 Q2 Lp) in P1. discriminate.
               + pose proof (is_prefix_comparable pk p k' Q2 Q1 Lp) as X. apply cpl_prefix_l in X. lia. }
           apply NE'. apply filter_none. exact NoM.
        -- unfold no_prefix_for_node in P3. apply orb_false_iff in P3 as [P3 P4].
           apply Nat.leb_gt in P3. apply Nat.ltb_ge in P4.
           assert (Pp : is_prefix pk p = true).
           { apply cpl_prefix_l. pose proof (cpl_le_l pk p). lia. }
           cbv zeta. set (ci := nth (length pk) p 0).
           replace (length pk + 1) with (S (length pk)) by lia. set (cp := skipn (S (length pk)) p).
           assert (Ep : p = pk ++ ci :: cp) by (apply is_prefix_split; auto).
           assert (Hcp : nibbles_ok cp /\ ci < 16).
           { rewrite Ep in Hp. apply nibbles_ok_app in Hp as [_ Hp]. apply nibbles_ok_cons in Hp. tauto. }
           destruct Hcp as [Hcp Hci].
           assert (EM := matching_block pk ov cs ci cp).
           assert (ER := remove_first_block pk ov cs ci cp limit).
           rewrite <- Ep in EM, ER.
           destruct (child_at cs ci) as [c|] eqn:Ec.
           ++ pose proof (Forall_child_at _ _ _ _ F Ec) as Cc.
              cbn [entries] in EM, ER. fold (E c) in EM, ER. fold (matching cp c) in EM.
              assert (Gc : order_guard (map fst (matching cp c)) limit = true).
              { rewrite EM, map_fst_shift, order_guard_map_app in G. exact G. }
              destruct (Forall_child_at _ _ _ _ IH Ec Cc cp limit Hcp L1 Gc) as (Cn & Inc & Dc).
              destruct (N.eqb_spec (snd (fst (clear_prefix_limit_node c cp (N.of_nat limit)))) 0) as [Z|Z].
              ** cbn [fst snd]. split; [exact C0|]. cbn [entries]. fold (E (Branch pk ov cs)).
              split; [apply incl_refl|]. intros Eq. apply (f_equal (@length _)) in Eq. rewrite !map_length in Eq.
              pose proof (remove_first_length limit (has_prefix p) (E (Branch pk ov cs)) L1 NE'). lia.
              ** set (nc := fst (fst (clear_prefix_limit_node c cp (N.of_nat limit)))) in *.
                 destruct (handle_deletion_spec pk ov (set_child cs ci nc) p Hpk) as [Hc Hl].
                 { now rewrite set_child_length. }
                 { apply Forall_set_child; auto. }
                 { now apply occupants_set_child_ge. }
                 { exact Pp. }
                 cbn [fst snd]. split; [exact Hc|].
                 cbn [entries]. fold (E (handle_deletion pk ov (set_child cs ci nc) p)).
                 rewrite (entries_lookup_ext _ _ Hl), E_branch_block by lia.
                 split.
                 { rewrite (E_branch_block_same pk ov cs ci), Ec. cbn [entries]. fold (E c).
                   intros x H. apply in_app_or in H as [H|H]; [apply in_or_app; auto|]. apply in_or_app. right.
                   apply in_app_or in H as [H|H]; apply in_or_app; auto. left.
                   destruct x as [k v]. apply in_shift in H as (k0 & -> & H). apply in_shift. exists k0. split; auto. }
                 rewrite ER. rewrite !map_app.
                 intros Eq. apply app_inv_head in Eq. apply app_inv_tail in Eq. apply map_fst_shift_inj in Eq. now apply Dc.
           ++ exfalso. rewrite EM in NE. cbn [entries filter shift map] in NE. congruence.
Qed.

(* ---------- byte level ---------- *)
Lemma map_fst_kv_of_bmap (m : bmap) : map fst (kv_of_bmap m) = map key_le_to_nibbles (map fst m).
Proof. unfold kv_of_bmap. rewrite !map_map. reflexivity. Qed.

Lemma remove_first_ext {A} (f g : A -> bool) l : (forall x, In x l -> f x = g x) ->
  forall n, remove_first n f l = remove_first n g l.
Proof.
  induction l as [|x l IH]; intros H n; [reflexivity|]. cbn [remove_first].
  rewrite <- (H x (or_introl eq_refl)). destruct (f x).
  - destruct n; auto. apply IH. intros; apply H; simpl; auto.
  - f_equal. apply IH. intros; apply H; simpl; auto.
Qed.

(* ClearPrefixLimit inside the order guard (on the keys the code matches): the keys left in the trie
   are keys of the map, and they are NOT the map's keys minus the [limit] smallest matched ones *)
Theorem order_guard_exact_keys t m p limit : Rep t m -> limit <> 0%N -> guard_limit_order_go m p limit = true ->
  let t' := fst (fst (trie_clear_prefix_limit t p limit)) in
  incl (entries t') (kv_of_bmap m) /\
  map fst (entries t') <> map key_le_to_nibbles (map fst (remove_first (N.to_nat limit) (gmatch p) m)).
Proof.
  intros R Z G. cbv zeta. unfold trie_clear_prefix_limit, trie_clear_prefix_limit_pinned.
  destruct (N.eqb_spec limit 0) as [->|_]; [congruence|].
  set (l := N.to_nat limit). assert (L1 : 0 < l) by (unfold l; lia).
  destruct t as [n|].
  - destruct R as [C E0]. simpl in E0.
    assert (Agree : forall e, In e m -> has_prefix (pn_of p) (key_le_to_nibbles (fst e), snd e) = gmatch p e).
    { intros e _. reflexivity. }
    assert (EM : matching (pn_of p) n = kv_of_bmap (filter (gmatch p) m)).
    { unfold matching, E. rewrite E0. symmetry. apply kv_of_bmap_filter. exact Agree. }
    assert (Gn : order_guard (map fst (matching (pn_of p) n)) l = true).
    { rewrite EM, map_fst_kv_of_bmap. rewrite order_guard_bytes by exact L1. exact G. }
    destruct (cpl_differs n C (pn_of p) l (pn_of_ok p) L1 Gn) as (_ & Inc & D).
    replace (N.of_nat l) with limit in * by (unfold l; lia).
    fold (pn_of p). split.
    + unfold E in Inc. now rewrite E0 in Inc.
    + unfold E in D. rewrite E0 in D. rewrite <- (remove_first_kv_of_bmap l (gmatch p) _ m Agree) in D.
      now rewrite map_fst_kv_of_bmap in D.
  - exfalso. apply Rep_nil_map in R. subst. unfold guard_limit_order_go in G. cbn [filter map length] in G.
    destruct (0 <? N.to_nat limit); simpl in G; discriminate.
Qed.

(* ====================================================================================
   Round 4: counts inside the order guard, and the corner where the trimmed prefix and the
   order guard meet.
   ==================================================================================== *)
Definition dnl_posP (t : tnode) : Prop := forall limit, (0 < limit)%N -> (0 < snd (delete_nodes_limit t limit))%N.

Lemma dnl_loop_lower pk ov : forall rest done limit vd,
  Forall (opt_all dnl_posP) rest -> (0 < limit)%N ->
  (vd <= snd (dnl_loop pk ov done rest limit vd))%N /\
  ((exists c, In (Some c) rest) -> (vd < snd (dnl_loop pk ov done rest limit vd))%N).
Proof.
  induction rest as [|oc r IH]; intros done limit vd FP L0.
  - cbn [dnl_loop snd]. split; [destruct ov; simpl; lia|]. intros (c & []).
  - inversion FP as [|? ? P1 P2]; subst. destruct oc as [c|]; cbn [dnl_loop].
    + simpl in P1. specialize (P1 limit L0). destruct (delete_nodes_limit c limit) as [nc nd]. cbn [snd] in P1. cbv zeta.
      destruct ((count_children (done ++ nc :: r) =? 0) && is_none ov); [cbn [snd]; split; [lia|intros _; lia]|].
      destruct (N.eqb_spec (limit - nd) 0) as [Z|Z]; [cbn [snd]; split; [lia|intros _; lia]|].
      destruct (IH (done ++ [nc]) (limit - nd)%N (vd + nd)%N P2) as [A _]; [lia|]. split; [lia|intros _; lia].
    + destruct (IH (done ++ [None]) limit vd P2 L0) as [A B]. split; auto.
      intros (c & [E|H]); [discriminate|]. apply B. eauto.
Qed.

Theorem dnl_pos t : Canon t -> dnl_posP t.
Proof.
  induction t as [pk lv|pk ov cs IH] using tnode_ind'; intros C limit L0.
  - rewrite delete_nodes_limit_leaf. destruct (N.eqb_spec limit 0); [lia|]. simpl. lia.
  - rewrite delete_nodes_limit_branch. destruct (N.eqb_spec limit 0); [lia|].
    apply Canon_branch_inv in C as (Hpk & L & F & C1 & C2).
    assert (FP : Forall (opt_all dnl_posP) cs).
    { rewrite Forall_forall in *. intros [c|] Hc; simpl; auto. apply (IH _ Hc). apply (F _ Hc). }
    destruct (dnl_loop_lower pk ov cs [] limit 0%N FP L0) as [_ B]. apply B.
    destruct (first_child_exists cs C1) as (i & c & E). apply first_child_spec in E as (_ & A & _).
    exists c. rewrite <- A. unfold child_at. apply nth_In. apply child_at_lt in A. lia.
Qed.

(* inside the order guard clearPrefixLimit deletes something, and either uses the limit up or leaves no
   entry with the prefix *)
Definition cpl_cntP (t : tnode) : Prop :=
  forall p limit, nibbles_ok p -> 0 < limit -> order_guard (map fst (matching p t)) limit = true ->
    let r := clear_prefix_limit_node t p (N.of_nat limit) in
    (0 < snd (fst r))%N /\
    (N.to_nat (snd (fst r)) = limit \/ forall e, In e (entries (fst (fst r))) -> has_prefix p e = false).

Theorem cpl_cnt t : Canon t -> cpl_cntP t.
Proof.
  induction t as [pk lv|pk ov cs IH] using tnode_ind'; intros C p limit Hp L1 G; cbv zeta.
  - exfalso. unfold order_guard in G. apply andb_true_iff in G as [G1 _]. apply Nat.ltb_lt in G1.
    rewrite map_length in G1. unfold matching, E in G1. cbn [entries_node filter] in G1.
    destruct (has_prefix p ([] ++ pk, lv)); cbn [length] in G1; lia.
  - pose proof C as C0. apply Canon_branch_inv in C as (Hpk & L & F & C1 & C2).
    pose proof (order_guard_nonempty _ _ G) as NE.
    assert (NE' : filter (has_prefix p) (E (Branch pk ov cs)) <> []).
    { intros X. apply NE. unfold matching. now rewrite X. }
    assert (LN : (0 < N.of_nat limit)%N) by lia.
    rewrite clear_prefix_limit_branch.
    destruct (is_prefix p pk) eqn:P1.
    + cbn [fst snd]. split; [apply (dnl_pos _ C0 _ LN)|].
      destruct (dnl_gen_all _ C0 (N.of_nat limit) LN) as (_ & N2 & _).
      destruct (fst (delete_nodes_limit (Branch pk ov cs) (N.of_nat limit))) as [x|].
      * left. rewrite N2 by discriminate. lia.
      * right. intros e [].
    + destruct (prefix_is_child pk p) eqn:P2.
      * apply prefix_is_child_spec in P2 as [ci ->]. cbv zeta. rewrite nth_app_mid.
        apply nibbles_ok_app in Hp as [_ Hci]. apply nibbles_ok_cons in Hci as [Hci _].
        assert (EM := matching_block pk ov cs ci []).
        destruct (child_at cs ci) as [c|] eqn:Ec.
        -- pose proof (Forall_child_at _ _ _ _ F Ec) as Cc.
           pose proof (dnl_pos c Cc _ LN) as Pc.
           destruct (dnl_gen_all c Cc (N.of_nat limit) LN) as (_ & N2 & Cn & _ & _).
           destruct (N.eqb_spec (snd (delete_nodes_limit c (N.of_nat limit))) 0) as [Z|Z]; [lia|].
           cbn [fst snd]. split; [exact Pc|].
           destruct (fst (delete_nodes_limit c (N.of_nat limit))) as [x|] eqn:Enc.
           ++ left. rewrite N2 by discriminate. lia.
           ++ right.
              destruct (handle_deletion_spec pk ov (set_child cs ci None) (pk ++ [ci]) Hpk) as [Hc Hl].
              { now rewrite set_child_length. }
              { apply Forall_set_child; auto. }
              { now apply occupants_set_child_ge. }
              { apply is_prefix_app. }
              cbn [entries]. fold (E (handle_deletion pk ov (set_child cs ci None) (pk ++ [ci]))).
              rewrite (entries_lookup_ext _ _ Hl), E_branch_block by lia. cbn [entries shift map app].
              intros e He. apply in_app_or in He as [He|He].
              ** exact (before_block_nomatch pk ov cs ci [] e He).
              ** exact (after_block_nomatch pk cs ci [] e He).
        -- exfalso. rewrite EM in NE. cbn [entries filter shift map] in NE. congruence.
      * destruct (no_prefix_for_node pk p) eqn:P3.
        -- exfalso.
           assert (NoM : forall x, In x (E (Branch pk ov cs)) -> has_prefix p x = false).
           { intros [k v] H. unfold E in H. apply in_entries_node in H as (k' & -> & Hl). cbn [app] in *.
             unfold has_prefix. cbn [fst]. destruct (is_prefix p k') eqn:Q1; auto. exfalso.
             pose proof (lookup_some_prefix _ _ _ Hl) as Q2. cbn [node_pk] in Q2.
             unfold no_prefix_for_node in P3. apply orb_true_iff in P3 as [P3|P3].
             - apply Nat.leb_le in P3. rewrite (is_prefix_comparable p pk k' Q1 Q2 P3) in P1. discriminate.
             - apply Nat.ltb_lt in P3. destruct (Nat.le_ge_cases (length p) (length pk)) as [Lp|Lp].
               + rewrite (is_prefix_comparable p pk k' Q1 Q2 Lp) in P1. discriminate.
               + pose proof (is_prefix_comparable pk p k' Q2 Q1 Lp) as X. apply cpl_prefix_l in X. lia. }
           apply NE'. apply filter_none. exact NoM.
        -- unfold no_prefix_for_node in P3. apply orb_false_iff in P3 as [P3 P4].
           apply Nat.leb_gt in P3. apply Nat.ltb_ge in P4.
           assert (Pp : is_prefix pk p = true).
           { apply cpl_prefix_l. pose proof (cpl_le_l pk p). lia. }
           cbv zeta. set (ci := nth (length pk) p 0).
           replace (length pk + 1) with (S (length pk)) by lia. set (cp := skipn (S (length pk)) p).
           assert (Ep : p = pk ++ ci :: cp) by (apply is_prefix_split; auto).
           assert (Hcp : nibbles_ok cp /\ ci < 16).
           { rewrite Ep in Hp. apply nibbles_ok_app in Hp as [_ Hp]. apply nibbles_ok_cons in Hp. tauto. }
           destruct Hcp as [Hcp Hci].
           assert (EM := matching_block pk ov cs ci cp). rewrite <- Ep in EM.
           destruct (child_at cs ci) as [c|] eqn:Ec.
           ++ pose proof (Forall_child_at _ _ _ _ F Ec) as Cc.
              cbn [entries] in EM. fold (E c) in EM. fold (matching cp c) in EM.
              assert (Gc : order_guard (map fst (matching cp c)) limit = true).
              { rewrite EM, map_fst_shift, order_guard_map_app in G. exact G. }
              destruct (Forall_child_at _ _ _ _ IH Ec Cc cp limit Hcp L1 Gc) as (Pc & Fc).
              destruct (cpl_differs c Cc cp limit Hcp L1 Gc) as (Cn & _ & _).
              destruct (N.eqb_spec (snd (fst (clear_prefix_limit_node c cp (N.of_nat limit)))) 0) as [Z|Z]; [lia|].
              set (nc := fst (fst (clear_prefix_limit_node c cp (N.of_nat limit)))) in *.
              cbn [fst snd]. split; [exact Pc|].
              destruct Fc as [Fc|Fc]; [left; exact Fc|right].
              destruct (handle_deletion_spec pk ov (set_child cs ci nc) p Hpk) as [Hc Hl].
              { now rewrite set_child_length. }
              { apply Forall_set_child; auto. }
              { now apply occupants_set_child_ge. }
              { exact Pp. }
              cbn [entries]. fold (E (handle_deletion pk ov (set_child cs ci nc) p)).
              rewrite (entries_lookup_ext _ _ Hl), E_branch_block by lia.
              intros e He. rewrite Ep. apply in_app_or in He as [He|He]; [exact (before_block_nomatch pk ov cs ci cp e He)|].
              apply in_app_or in He as [He|He]; [|exact (after_block_nomatch pk cs ci cp e He)].
              destruct e as [k v]. apply in_shift in He as (k0 & -> & He).
              pose proof (has_prefix_shift_block pk ci cp (k0, v)) as X. cbn [fst snd] in X. exact (eq_trans X (Fc (k0, v) He)).
           ++ exfalso. rewrite EM in NE. cbn [entries filter shift map] in NE. congruence.
Qed.

(* ---------- byte keys have an even number of nibbles ---------- *)
Lemma trim_zero_suffix_cases k : trim_zero_suffix k = k \/ k = trim_zero_suffix k ++ [0].
Proof.
  induction k as [|x k IH]; [left; reflexivity|]. destruct k as [|y k].
  - simpl. destruct (Nat.eqb_spec x 0) as [->|]; [right; reflexivity|left; reflexivity].
  - change (trim_zero_suffix (x :: y :: k)) with (x :: trim_zero_suffix (y :: k)).
    destruct IH as [->|E]; [left; reflexivity|right]. cbn [app]. now rewrite <- E.
Qed.

(* a key that matches the trimmed prefix only is greater than every key with the byte prefix *)
Lemma trimmed_only_greater p ke ky :
  go_prefix p ke = true -> bytes_prefix p ke = false -> bytes_prefix p ky = true -> bytes_lt ky ke.
Proof.
  unfold go_prefix. rewrite !bytes_prefix_nibbles. intros G B Y.
  destruct (trim_zero_suffix_cases (key_le_to_nibbles p)) as [E|E]; [rewrite E in G; congruence|].
  set (pn := trim_zero_suffix (key_le_to_nibbles p)) in *.
  rewrite E in B, Y. apply is_prefix_spec in Y as (ry & Ey). apply is_prefix_spec in G as (re & Ee).
  rewrite <- app_assoc in Ey. cbn [app] in Ey.
  assert (Lp := key_le_to_nibbles_length p). rewrite E, app_length in Lp. cbn [length] in Lp.
  assert (Le := key_le_to_nibbles_length ke). rewrite Ee, app_length in Le.
  destruct re as [|x re]; [cbn [length] in Le; lia|].
  destruct (Nat.eq_dec x 0) as [->|Nx].
  { exfalso. rewrite Ee in B. rewrite is_prefix_app_inv in B. discriminate. }
  unfold bytes_lt. rewrite bytes_compare_nibbles, Ey, Ee. apply key_compare_diverge. lia.
Qed.

(* hence, in a sorted map, an element among the first l matched keys that lacks the byte prefix has
   all keys with the byte prefix before it: there are fewer than l of them *)
Lemma byte_prefix_initial_segment p : forall m l x, bm_sorted m = true ->
  In x (firstn l (filter (gmatch p) m)) -> bmatch_b p x = false -> length (filter (bmatch_b p) m) < l.
Proof.
  induction m as [|e r IH]; intros l x S Hx Bx; [destruct l; contradiction|].
  destruct e as [ke ve]. pose proof (bm_sorted_tail _ _ _ S) as S2.
  cbn [filter] in *. destruct (gmatch p (ke, ve)) eqn:Ge.
  - destruct (bmatch_b p (ke, ve)) eqn:Be.
    + destruct l as [|l']; [contradiction|]. cbn [firstn] in Hx. destruct Hx as [<-|Hx]; [congruence|].
      cbn [length]. specialize (IH l' x S2 Hx Bx). lia.
    + assert (Z : filter (bmatch_b p) r = []).
      { apply filter_none. intros [ky vy] Hy. destruct (bmatch_b p (ky, vy)) eqn:By; auto. exfalso.
        pose proof (bm_sorted_head ke ve r S ky) as Lt1.
        assert (In ky (bm_keys r)) by (apply in_map_iff; exists (ky, vy); auto). specialize (Lt1 H).
        pose proof (trimmed_only_greater p ke ky Ge Be By) as Lt2.
        exact (bytes_lt_irrefl _ (bytes_lt_trans _ _ _ Lt1 Lt2)). }
      rewrite Z. destruct l; [contradiction|]. cbn [length]. lia.
  - assert (Be : bmatch_b p (ke, ve) = false).
    { destruct (bmatch_b p (ke, ve)) eqn:Be; auto. rewrite (bmatch_gmatch p _ Be) in Ge. discriminate. }
    rewrite Be. exact (IH l x S2 Hx Bx).
Qed.

(* ClearPrefixLimit inside the order guard: something is deleted, and either the limit is used up or no
   key matching the (trimmed) prefix is left *)
Theorem order_guard_count t m p limit : Rep t m -> limit <> 0%N -> guard_limit_order_go m p limit = true ->
  let r := trie_clear_prefix_limit t p limit in
  snd (fst r) = limit \/ forall e, In e (entries (fst (fst r))) -> has_prefix (pn_of p) e = false.
Proof.
  intros R Z G. cbv zeta. unfold trie_clear_prefix_limit, trie_clear_prefix_limit_pinned.
  destruct (N.eqb_spec limit 0) as [->|_]; [congruence|].
  set (l := N.to_nat limit). assert (L1 : 0 < l) by (unfold l; lia).
  destruct t as [n|].
  - destruct R as [C E0]. simpl in E0.
    assert (Agree : forall e, In e m -> has_prefix (pn_of p) (key_le_to_nibbles (fst e), snd e) = gmatch p e).
    { intros e _. reflexivity. }
    assert (EM : matching (pn_of p) n = kv_of_bmap (filter (gmatch p) m)).
    { unfold matching, E. rewrite E0. symmetry. apply kv_of_bmap_filter. exact Agree. }
    assert (Gn : order_guard (map fst (matching (pn_of p) n)) l = true).
    { rewrite EM, map_fst_kv_of_bmap. rewrite order_guard_bytes by exact L1. exact G. }
    destruct (cpl_cnt n C (pn_of p) l (pn_of_ok p) L1 Gn) as (_ & F1).
    replace (N.of_nat l) with limit in * by (unfold l; lia).
    fold (pn_of p). destruct F1 as [F1|F1]; [left; apply N2Nat.inj; exact F1|right; exact F1].
  - exfalso. apply Rep_nil_map in R. subst. unfold guard_limit_order_go in G. cbn [filter map length] in G.
    destruct (0 <? N.to_nat limit); simpl in G; discriminate.
Qed.
