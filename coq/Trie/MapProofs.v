(* Trie/MapProofs.v — the trie as a finite map: entries after put/delete are kv_put/kv_del of the
   entries before; transport between byte keys (bmap) and nibble keys (kv). *)
From Common Require Import Bytes Outcome.
From Trie Require Import Nibbles Node Encode Model Spec NibblesProofs Sem InsertProofs DeleteProofs BuildProofs.
From Coq Require Import Arith Lia Sorting.Sorted.
Local Open Scope nat_scope.

(* ---------- kv_put / kv_del on sorted lists ---------- *)
Lemma key_lt_fst (a b : key * value) : key_lt a b <-> key_compare (fst a) (fst b) = Lt.
Proof. reflexivity. Qed.

Lemma sorted_inv x l : sorted (x :: l) -> sorted l /\ Forall (key_lt x) l.
Proof. intros H; inversion H; auto. Qed.

Lemma in_kv_put m k v : sorted m -> forall k' v',
  In (k', v') (kv_put m k v) <-> (if key_eqb k k' then v' = v else In (k', v') m).
Proof.
  induction m as [|[k0 v0] m IH]; intros S k' v'; simpl.
  - destruct (key_eqb_spec k k') as [->|N]; split.
    + intros [E|[]]. now inversion E.
    + intros ->. auto.
    + intros [E|[]]. inversion E; congruence.
    + tauto.
  - apply sorted_inv in S as [S F]. rewrite Forall_forall in F.
    destruct (key_compare k k0) eqn:Cmp.
    + apply key_compare_eq in Cmp. subst k0. simpl.
      destruct (key_eqb_spec k k') as [->|N]; split.
      * intros [E|H]; [now inversion E|]. exfalso. apply (key_lt_irrefl (k', v')).
        specialize (F _ H). exact F.
      * intros ->. auto.
      * intros [E|H]; [inversion E; congruence|auto].
      * intros [E|H]; [inversion E; congruence|auto].
    + simpl. destruct (key_eqb_spec k k') as [->|N]; split.
      * intros [E|[E|H]]; [now inversion E| |].
        -- inversion E; subst. rewrite key_compare_refl in Cmp. discriminate.
        -- exfalso. specialize (F _ H). unfold key_lt in F. simpl in F.
           pose proof (key_compare_lt_trans _ _ _ Cmp F) as X. rewrite key_compare_refl in X. discriminate.
      * intros ->. auto.
      * intros [E|H]; [inversion E; congruence|auto].
      * intros H. auto.
    + simpl. rewrite (IH S). destruct (key_eqb_spec k k') as [->|N]; split.
      * intros [E|H]; auto. inversion E; subst. rewrite key_compare_refl in Cmp. discriminate.
      * intros ->. auto.
      * tauto.
      * tauto.
Qed.

Lemma sorted_kv_put m k v : sorted m -> sorted (kv_put m k v).
Proof.
  induction m as [|[k0 v0] m IH]; intros S; simpl.
  - repeat constructor.
  - pose proof S as S0. apply sorted_inv in S as [S F].
    destruct (key_compare k k0) eqn:Cmp.
    + apply key_compare_eq in Cmp. subst k0. constructor; [exact S|exact F].
    + constructor; [exact S0|]. constructor; [exact Cmp|].
      rewrite Forall_forall in *. intros x Hx. eapply key_lt_trans; [|apply F, Hx]. exact Cmp.
    + constructor; [apply IH, S|]. apply Forall_forall. intros [k1 v1] H1.
      apply (in_kv_put m k v S) in H1. destruct (key_eqb_spec k k1) as [<-|N].
      * apply key_compare_gt_lt in Cmp. exact Cmp.
      * rewrite Forall_forall in F. now apply F.
Qed.

Lemma in_kv_del m k : sorted m -> forall k' v',
  In (k', v') (kv_del m k) <-> (key_eqb k k' = false /\ In (k', v') m).
Proof.
  induction m as [|[k0 v0] m IH]; intros S k' v'; simpl.
  - tauto.
  - apply sorted_inv in S as [S F]. rewrite Forall_forall in F.
    destruct (key_eqb_spec k0 k) as [->|N0].
    + split.
      * intros H. split; auto. apply key_eqb_neq. intros <-.
        apply (key_lt_irrefl (k, v')). specialize (F _ H). exact F.
      * intros [N [E|H]]; auto. inversion E; subst. rewrite key_eqb_refl in N. discriminate.
    + simpl. rewrite (IH S). split.
      * intros [E|[N H]]; [inversion E; subst|auto].
        split; auto. apply key_eqb_neq. congruence.
      * intros [N [E|H]]; auto.
Qed.

Lemma sorted_kv_del m k : sorted m -> sorted (kv_del m k).
Proof.
  induction m as [|[k0 v0] m IH]; intros S; simpl; auto.
  pose proof S as S0. apply sorted_inv in S as [S F].
  destruct (key_eqb k0 k); auto. constructor; [apply IH, S|].
  apply Forall_forall. intros [k1 v1] H1. apply (in_kv_del m k S) in H1 as [_ H1].
  rewrite Forall_forall in F. now apply F.
Qed.

(* ---------- nibble-level put / delete on tries ---------- *)
Lemma entries_ext (t : trie) (m : kv) :
  sorted m -> (forall k v, In (k, v) m <-> lookup_opt t k = Some v) -> entries t = m.
Proof.
  intros S H. apply sorted_ext; auto using sorted_entries.
  intros [k v]. rewrite in_entries. symmetry. apply H.
Qed.

Theorem entries_insert (t : trie) k v : Canon_opt t -> nibbles_ok k ->
  Canon (insert_opt t k v) /\ entries (Some (insert_opt t k v)) = kv_put (entries t) k v.
Proof.
  intros C Hk. destruct (insert_opt_correct t k v C Hk) as [Ci Li]. split; auto.
  apply entries_ext.
  - apply sorted_kv_put, sorted_entries.
  - intros k' v'. rewrite in_kv_put by apply sorted_entries. cbn [lookup_opt]. rewrite Li.
    destruct (key_eqb k k').
    + split; [intros ->; reflexivity|congruence].
    + apply in_entries.
Qed.

(* Delete at the root: correct unless the empty-key guard is met *)
Definition delete_guard (t : tnode) (k : key) : bool :=
  match k, t with
  | [], Leaf pk _ => 0 <? length pk
  | [], Branch pk (Some _) _ => 0 <? length pk
  | _, _ => false
  end.

Lemma delete_root_correct t k : Canon t -> nibbles_ok k -> delete_guard t k = false ->
  Canon_opt (fst (delete t k)) /\
  forall k', lookup_opt (fst (delete t k)) k' = if key_eqb k k' then None else lookup t k'.
Proof.
  intros C Hk G.
  assert (D : not_exhausted t k \/ exists pk cs, k = [] /\ pk <> [] /\ t = Branch pk None cs).
  { unfold not_exhausted. destruct k as [|x k]; [|left; left; discriminate].
    destruct t as [pk v|pk [v|] cs]; simpl in *.
    - left. right. destruct pk; [reflexivity|discriminate].
    - left. right. destruct pk; [reflexivity|discriminate].
    - destruct pk as [|y pk]; [left; right; reflexivity|]. right. exists (y :: pk), cs. repeat split. discriminate. }
  destruct D as [NE|(pk & cs & -> & Npk & ->)].
  - destruct (delete_correct t k C Hk NE) as (A & B & _). auto.
  - rewrite delete_branch. cbn [length Nat.eqb orb fst snd].
    apply Canon_branch_inv in C as (Hpk & L & F & C1 & C2). unfold occupants in C2. simpl in C2.
    assert (E : handle_deletion pk None cs [] = Branch pk None cs).
    { unfold handle_deletion. destruct (count_children cs) as [|[|n]]; try lia. reflexivity. }
    rewrite E. split.
    + apply Canon_branch'; auto; unfold occupants; simpl; lia.
    + intros k'. cbn [lookup_opt]. destruct (key_eqb_spec [] k') as [<-|]; auto.
      apply lookup_branch_out. destruct pk; [congruence|reflexivity].
Qed.

Theorem entries_delete t k : Canon t -> nibbles_ok k -> delete_guard t k = false ->
  Canon_opt (fst (delete t k)) /\ entries (fst (delete t k)) = kv_del (entries (Some t)) k.
Proof.
  intros C Hk G. destruct (delete_root_correct t k C Hk G) as [Cd Ld]. split; auto.
  apply entries_ext.
  - apply sorted_kv_del, sorted_entries.
  - intros k' v'. rewrite in_kv_del by apply sorted_entries. rewrite Ld.
    destruct (key_eqb k k').
    + split; [intros [? _]; discriminate|discriminate].
    + rewrite (in_entries (Some t)). cbn [lookup_opt]. tauto.
Qed.

(* ---------- byte keys ---------- *)
Lemma kv_of_bmap_put m k v :
  kv_of_bmap (bm_put m k v) = kv_put (kv_of_bmap m) (key_le_to_nibbles k) v.
Proof.
  induction m as [|[k0 v0] m IH]; simpl; auto.
  rewrite bytes_compare_nibbles. destruct (key_compare (key_le_to_nibbles k) (key_le_to_nibbles k0)); simpl; auto.
  now rewrite IH.
Qed.
Lemma kv_of_bmap_del m k :
  kv_of_bmap (bm_del m k) = kv_del (kv_of_bmap m) (key_le_to_nibbles k).
Proof.
  induction m as [|[k0 v0] m IH]; simpl; auto.
  rewrite bytes_eqb_nibbles. destruct (key_eqb (key_le_to_nibbles k0) (key_le_to_nibbles k)); simpl; auto.
  now rewrite IH.
Qed.

(* the trie t represents the byte-keyed map m *)
Definition Rep (t : trie) (m : bmap) : Prop := Canon_opt t /\ entries t = kv_of_bmap m.

Lemma Rep_empty : Rep None [].
Proof. split; simpl; auto. Qed.

Theorem Rep_put t m k v : Rep t m -> Rep (trie_put t k v) (bm_put m k v).
Proof.
  intros [C E]. unfold trie_put.
  destruct (entries_insert t (key_le_to_nibbles k) v C (key_le_to_nibbles_ok k)) as [Ci Ei].
  split; [exact Ci|]. now rewrite Ei, E, kv_of_bmap_put.
Qed.

Lemma guard_delete_exhausted_spec t k :
  guard_delete_exhausted t k = match t with None => false | Some n => delete_guard n (key_le_to_nibbles k) end.
Proof.
  unfold guard_delete_exhausted. destruct k as [|b k]; simpl.
  - destruct t as [[pk v|pk [v|] cs]|]; reflexivity.
  - destruct t as [[pk v|pk [v|] cs]|]; reflexivity.
Qed.

Theorem Rep_delete t m k : Rep t m -> guard_delete_exhausted t k = false ->
  Rep (trie_delete t k) (bm_del m k).
Proof.
  intros [C E] G. unfold trie_delete. destruct t as [n|].
  - rewrite guard_delete_exhausted_spec in G.
    destruct (entries_delete n (key_le_to_nibbles k) C (key_le_to_nibbles_ok k) G) as [Cd Ed].
    split; [exact Cd|]. now rewrite Ed, E, kv_of_bmap_del.
  - split; [exact I|]. simpl in *. rewrite kv_of_bmap_del, <- E. reflexivity.
Qed.

(* the root of a trie that represents m is the spec root of m *)
Theorem Rep_root H ver t m : Rep t m -> trie_root H ver t = spec_root_bytes H ver m.
Proof.
  intros [C E]. unfold spec_root_bytes, spec_root. rewrite <- E.
  now rewrite build_trie_entries_opt.
Qed.
