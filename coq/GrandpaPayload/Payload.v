(* GrandpaPayload/Payload.v — the bytes a GRANDPA vote signature is made over.

   lib/grandpa:  scale.Marshal(FullVote{Stage Subround (1 byte), Vote{Hash [32]byte, Number uint32},
                                         Round uint64, SetID uint64})
   internal/primitives/consensus/grandpa:  NewLocalizedPayload(round, setID, Message) =
                 scale(struct{Message (enum: variant index byte, then the vote), RoundNumber u64, SetID u64})
   Both are:  stage byte ++ 32-byte hash ++ number (little endian, 4 bytes for uint32 / 8 for uint64)
              ++ round (8 bytes LE) ++ set id (8 bytes LE);   stage: 0 prevote, 1 precommit, 2 primary proposal.
   Shared by C18 and C19 (agent aud-commit). *)
From Coq Require Import List NArith Lia.
From Common Require Import Bytes.
Import ListNotations.
Local Open Scope N_scope.

Definition stage_prevote : N := 0.
Definition stage_precommit : N := 1.
Definition stage_primary : N := 2.

Definition vote_payload (nw : nat) (stage : N) (hash : list byte) (num round setid : N) : list byte :=
  n2b stage :: hash ++ le_bytes nw num ++ le_bytes 8 round ++ le_bytes 8 setid.

Lemma vote_payload_length nw stage hash num round setid :
  length (vote_payload nw stage hash num round setid) = (1 + length hash + nw + 16)%nat.
Proof. unfold vote_payload. cbn [length]. rewrite !app_length, !le_bytes_length. lia. Qed.

Lemma app_eq_len {A} (a a' b b' : list A) :
  length a = length a' -> a ++ b = a' ++ b' -> a = a' /\ b = b'.
Proof.
  revert a'. induction a as [|x r IH]; intros [|y s] L E; cbn in *; try discriminate.
  - auto.
  - inversion E; subst. destruct (IH s) as [-> ->]; auto.
Qed.

Lemma le_bytes_inj k a b :
  a < 256 ^ N.of_nat k -> b < 256 ^ N.of_nat k -> le_bytes k a = le_bytes k b -> a = b.
Proof.
  intros Ha Hb E. rewrite <- (le_val_le_bytes_small k a Ha), <- (le_val_le_bytes_small k b Hb). now rewrite E.
Qed.

(* the payload determines every field: a signature over the payload of (stage, vote, round, set) is
   not a signature over the payload of any other stage, vote, round or set *)
Theorem vote_payload_inj nw s h n r i s' h' n' r' i' :
  length h = length h' -> s < 256 -> s' < 256 ->
  n < 256 ^ N.of_nat nw -> n' < 256 ^ N.of_nat nw ->
  r < 256 ^ N.of_nat 8 -> r' < 256 ^ N.of_nat 8 -> i < 256 ^ N.of_nat 8 -> i' < 256 ^ N.of_nat 8 ->
  vote_payload nw s h n r i = vote_payload nw s' h' n' r' i' ->
  s = s' /\ h = h' /\ n = n' /\ r = r' /\ i = i'.
Proof.
  intros Lh Hs Hs' Hn Hn' Hr Hr' Hi Hi' E. unfold vote_payload in E.
  assert (Es : n2b s = n2b s') by (exact (f_equal (fun l => hd (n2b 0) l) E)).
  assert (E1 : h ++ le_bytes nw n ++ le_bytes 8 r ++ le_bytes 8 i
               = h' ++ le_bytes nw n' ++ le_bytes 8 r' ++ le_bytes 8 i') by (exact (f_equal (@tl byte) E)).
  clear E.
  apply app_eq_len in E1; [|assumption]. destruct E1 as [-> E2].
  apply app_eq_len in E2; [|now rewrite !le_bytes_length]. destruct E2 as [En E3].
  apply app_eq_len in E3; [|now rewrite !le_bytes_length]. destruct E3 as [Er Ei].
  split.
  - rewrite <- (b2n_n2b_small s Hs), <- (b2n_n2b_small s' Hs'). now rewrite Es.
  - split; [reflexivity|]. split; [exact (le_bytes_inj nw n n' Hn Hn' En)|].
    split; [exact (le_bytes_inj 8 r r' Hr Hr' Er) | exact (le_bytes_inj 8 i i' Hi Hi' Ei)].
Qed.

(* payloads of different number widths never coincide (53 vs 57 bytes for a 32-byte hash) *)
Lemma vote_payload_width_differs s h n r i s' h' n' r' i' :
  length h = length h' -> vote_payload 4 s h n r i <> vote_payload 8 s' h' n' r' i'.
Proof.
  intros L E. apply (f_equal (@length byte)) in E. rewrite !vote_payload_length in E. lia.
Qed.

(* a known vector: precommit for hash 0x01..01, number 0x01020304, round 5, set 7 *)
Example vote_payload_vector :
  map b2n (vote_payload 4 stage_precommit (repeat (n2b 1) 32) 16909060 5 7)
  = [1] ++ repeat 1 32 ++ [4; 3; 2; 1] ++ [5; 0; 0; 0; 0; 0; 0; 0] ++ [7; 0; 0; 0; 0; 0; 0; 0].
Proof. vm_compute. reflexivity. Qed.
