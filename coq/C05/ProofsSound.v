(* C05/ProofsSound.v — soundness of proof.Verify against arbitrary (adversarial) proof node sets.

   If Verify accepts (key, value) under the root hash of a well-formed trie t, then t holds value
   under key — provided the hash does not collide between a supplied proof item and one of the
   strings of t (encodings of its nodes, its hashed values): [no_coll].

   Argument: the node chosen as root has the root hash, hence is the encoding of t's root; every
   child found among the proof items by its Merkle value is the encoding of that child of t; so
   the proof trie is a partial view of t [pview] (children may be missing, never different), and
   Get on a partial view only returns what t holds. *)
From Common Require Import Bytes Outcome.
From Coq Require Import Strings.Byte ZifyN ZifyNat ZifyBool.
From TrieCodec Require Import Codec View Db ProofsBasic ProofsHeader ProofsDecode ProofsDb.
From C05 Require Import Model.
Local Open Scope N_scope.

Section Sound.
Variable H : list byte -> list byte.
Hypothesis Hlen : forall x, length (H x) = 32%nat.
Variable st : bool * bool.
Variable dfix : bool.
Variable ifix : bool.

(* the strings of a trie: the encoding of every node and every value that is stored by hash *)
Fixpoint strings_of (t : tnode) : list (list byte) :=
  match t with
  | TN pk sv mbh cs =>
    encode H t
    :: (match sv with Some v => if mbh then [v] else [] | None => [] end)
    ++ flat_map (fun oc => match oc with None => [] | Some c => strings_of c end) cs
  end.

Definition no_coll (nodes : list (list byte)) (t : tnode) : Prop :=
  forall e s, In e nodes -> In s (strings_of t) -> H e = H s -> e = s.

Lemma strings_of_self t : In (encode H t) (strings_of t).
Proof. destruct t. now left. Qed.

Lemma strings_of_child pk sv mbh cs c s :
  In (Some c) cs -> In s (strings_of c) -> In s (strings_of (TN pk sv mbh cs)).
Proof.
  intros Hin Hs. cbn [strings_of]. right. apply in_or_app. right.
  apply in_flat_map. exists (Some c). auto.
Qed.

Lemma no_coll_child nodes pk sv mbh cs c :
  no_coll nodes (TN pk sv mbh cs) -> In (Some c) cs -> no_coll nodes c.
Proof. intros Hn Hin e s He Hs. apply Hn; [assumption|]. eapply strings_of_child; eassumption. Qed.

(* ------------------------------------------------------------------ partial views *)
Definition pval_ok (sv : option (list byte)) (mbh : bool) (sv' : option (list byte)) (ihv : bool) : Prop :=
  match sv with
  | None => sv' = None /\ ihv = false
  | Some v => if mbh then sv' = Some (H v) /\ ihv = true else sv' = Some v /\ ihv = false
  end.

Inductive pview : tnode -> pnode -> Prop :=
| pview_node pk sv mbh cs sv' ihv mv cs' :
    pval_ok sv mbh sv' ihv ->
    (cs' = [] \/ Forall2 pview_child cs cs') ->
    pview (TN pk sv mbh cs) (PN pk sv' ihv mv cs')
with pview_child : option tnode -> option pnode -> Prop :=
| pvc_none oc : pview_child oc None
| pvc_some c p : pview c p -> pview_child (Some c) (Some p).

Lemma pval_view sv mbh : pval_ok sv mbh (fst (pval (view_val H sv mbh))) (snd (pval (view_val H sv mbh))).
Proof.
  destruct sv as [v|]; cbn; [|auto]. destruct mbh; cbn; [auto|].
  unfold zb_bytes. cbn. rewrite app_nil_r. auto.
Qed.

(* the image of a fully inlined subtree *)
Lemma pview_inline : forall c, wf_node c = true -> (length (encode H c) < 32)%nat ->
  pview c (pnode_of (view H c)).
Proof.
  induction c as [pk sv mbh cs IH] using tnode_ind'. intros W Hs.
  destruct (small_unfold H Hlen _ _ _ _ W Hs) as [-> Hch].
  destruct (wf_unfold H Hlen _ _ _ _ W) as (_ & _ & Wsv & _ & Wch).
  destruct cs as [|c0 cs0].
  - destruct sv as [v|]; [|destruct Wsv as [_ Z]; congruence].
    cbn [view view_val pnode_of pval]. constructor; [|now left].
    cbn. unfold zb_bytes. cbn. rewrite app_nil_r. auto.
  - rewrite (view_branch H). remember (c0 :: cs0) as cs eqn:Ecs. cbn [pnode_of].
    pose proof (pval_view sv false) as Hpv. destruct (pval (view_val H sv false)) as [sv' ihv]. cbn [fst snd] in Hpv.
    constructor; [assumption|]. right.
    rewrite map_map. clear Ecs Wsv Hpv Hs W.
    induction cs as [|oc cs IHcs]; [constructor|].
    inversion IH as [|? ? IH0 IHr]; subst. inversion Wch as [|? ? W0 Wr]; subst.
    constructor.
    + destruct oc as [c|]; cbn [vchild]; [|constructor].
      specialize (Hch c (or_introl eq_refl)).
      destruct (Nat.ltb_spec (length (encode H c)) 32); [|lia].
      constructor. apply IH0; assumption.
    + apply IHcs; try assumption. intros c Hin. apply Hch. now right.
Qed.

(* ------------------------------------------------------------------ the proof map *)
Definition map_ok (nodes : list (list byte)) (m : list (list byte * list byte)) : Prop :=
  forall k e, In (k, e) m -> k = H e /\ In e nodes.

Lemma find_enc_in m d e : find_enc m d = Some e -> In (d, e) m.
Proof.
  induction m as [|[k x] m IH]; [discriminate|]. cbn [find_enc].
  destruct (find_enc m d) as [y|] eqn:E.
  - intro Ey. inversion Ey; subst. right. now apply IH.
  - destruct (bytes_eqb_spec k d) as [->|]; [|discriminate]. intro Ey. inversion Ey; subst. now left.
Qed.

Lemma build_scan_ok nodes0 : forall nodes root_hash root m root' m',
  incl nodes nodes0 -> map_ok nodes0 m ->
  (forall e, root = Some e -> H e = root_hash /\ In e nodes0) ->
  build_scan H nodes root_hash root m = (root', m') ->
  map_ok nodes0 m' /\ (forall e, root' = Some e -> H e = root_hash /\ In e nodes0).
Proof.
  induction nodes as [|e nodes IH]; intros root_hash root m root' m' Hi Hm Hr E.
  - cbn in E. inversion E; subst. auto.
  - cbn [build_scan] in E.
    assert (Hi' : incl nodes nodes0) by (intros x Hx; apply Hi; now right).
    assert (He : In e nodes0) by (apply Hi; now left).
    assert (Hm' : map_ok nodes0 (m ++ [(H e, e)])).
    { intros k x Hx. apply in_app_or in Hx as [Hx|[Hx|[]]]; [now apply Hm|]. inversion Hx; subst. auto. }
    destruct root as [r0|].
    + eapply IH; eauto.
    + destruct (bytes_eqb_spec (H e) root_hash) as [Eh|Nh].
      * eapply IH; [exact Hi'|exact Hm| |exact E]. intros x Hx. inversion Hx; subst. auto.
      * eapply IH; [exact Hi'|exact Hm'| |exact E]. intros x Hx. discriminate.
Qed.

(* ------------------------------------------------------------------ loadProof yields a partial view *)
Lemma pnode_of_stub x : pnode_of (DStub (x, 0)) = PN [] None false x [].
Proof. cbn. unfold zb_bytes. cbn. now rewrite app_nil_r. Qed.

Lemma lp_children_pview nodes m (rec : pnode -> outcome pnode) :
  map_ok nodes m ->
  forall cs,
  (forall c, In (Some c) cs -> wf_node c = true /\ no_coll nodes c) ->
  (forall c p, In (Some c) cs -> rec (pnode_of (view H c)) = Ok p -> pview c p) ->
  forall cs', lp_children st dfix ifix rec m (map (fun oc => match oc with None => None | Some c => Some (pnode_of c) end)
                                                 (map (vchild H) cs)) = Ok cs' ->
  Forall2 pview_child cs cs'.
Proof.
  intros Hm. induction cs as [|oc cs IH]; intros Hwf Hrec cs' E.
  - cbn in E. inversion E. constructor.
  - assert (Hwf' : forall c, In (Some c) cs -> wf_node c = true /\ no_coll nodes c)
      by (intros c Hin; apply Hwf; now right).
    assert (Hrec' : forall c p, In (Some c) cs -> rec (pnode_of (view H c)) = Ok p -> pview c p)
      by (intros c p Hin; apply Hrec; now right).
    cbn [map] in E. destruct oc as [c|]; cbn [vchild] in E.
    + destruct (Hwf c (or_introl eq_refl)) as [Wc Nc].
      destruct (Nat.ltb_spec (length (encode H c)) 32) as [Hs|Hs].
      * (* inlined child: kept as decoded, or dropped *)
        pose proof (pview_inline c Wc Hs) as Hpv.
        cbn [lp_children] in E. destruct (pnode_of (view H c)) as [cpk csv cihv cmv ccs] eqn:Ep.
        assert (Hmv : cmv = []).
        { destruct c as [? ? ? [|? ?]]; cbn in Ep.
          - destruct (view_val H sv mbh) as [[?|?]|]; cbn in Ep; inversion Ep; reflexivity.
          - destruct (pval (view_val H sv mbh)); inversion Ep; reflexivity. }
        subst cmv.
        assert (Hf : find_enc m [] = None).
        { destruct (find_enc m []) as [x|] eqn:Ef; [|reflexivity].
          apply find_enc_in in Ef. destruct (Hm _ _ Ef) as [Hk _].
          apply (f_equal (@length byte)) in Hk. rewrite Hlen in Hk. discriminate. }
        rewrite Hf in E.
        destruct (lp_children st dfix ifix rec m _) as [r'| | |] eqn:Er; cbn [obind] in E; try discriminate.
        inversion E; subst. constructor; [|now apply IH].
        destruct (if ifix then _ else _); [now constructor|constructor].
      * (* child referenced by hash *)
        rewrite pnode_of_stub in E. cbn [lp_children] in E.
        destruct (find_enc m (H (encode H c))) as [enc|] eqn:Ef.
        -- apply find_enc_in in Ef. destruct (Hm _ _ Ef) as [Hk Hin].
           assert (enc = encode H c) by (apply Nc; [assumption|apply strings_of_self|congruence]).
           subst enc. rewrite (decode_encode H Hlen st dfix c Wc) in E.
           destruct (rec (pnode_of (view H c))) as [p| | |] eqn:Erec; cbn [obind] in E; try discriminate.
           destruct (lp_children st dfix ifix rec m _) as [r'| | |] eqn:Er; cbn [obind] in E; try discriminate.
           inversion E; subst. constructor; [|now apply IH].
           constructor. apply (Hrec c p (or_introl eq_refl) Erec).
        -- destruct (lp_children st dfix ifix rec m _) as [r'| | |] eqn:Er; cbn [obind] in E; try discriminate.
           inversion E; subst. constructor; [|now apply IH].
           destruct (if ifix then _ else _) eqn:Einl; [|constructor].
           (* a stub kept as a child: impossible, it has no value, no children and a Merkle value *)
           exfalso. destruct ifix; [|cbn in Einl; discriminate].
           pose proof (Hlen (encode H c)) as Hl. destruct (H (encode H c)); [discriminate|discriminate].
    + cbn [lp_children] in E.
      destruct (lp_children st dfix ifix rec m _) as [r'| | |] eqn:Er; cbn [obind] in E; try discriminate.
      inversion E; subst. constructor; [constructor|now apply IH].
Qed.

Theorem load_proof_pview nodes m : map_ok nodes m ->
  forall fuel t p, wf_node t = true -> no_coll nodes t ->
  load_proof st dfix ifix fuel m (pnode_of (view H t)) = Ok p -> pview t p.
Proof.
  intro Hm. induction fuel as [|f IH]; intros t p W Nc E; [discriminate|].
  destruct t as [pk sv mbh cs].
  destruct (wf_unfold H Hlen _ _ _ _ W) as (_ & _ & Wsv & _ & Wch).
  destruct cs as [|c0 cs0].
  - destruct sv as [v|]; [|destruct Wsv as [_ Z]; congruence].
    cbn [view view_val pnode_of] in E.
    pose proof (pval_view (Some v) mbh) as Hpv. cbn [view_val] in Hpv.
    destruct (pval (Some (if mbh then DVHashed (H v) else DVInline (v, 0)))) as [sv' ihv]. cbn [fst snd] in Hpv.
    cbn [load_proof] in E. inversion E; subst. constructor; [assumption|now left].
  - rewrite (view_branch H) in E. remember (c0 :: cs0) as cs eqn:Ecs. cbn [pnode_of] in E.
    pose proof (pval_view sv mbh) as Hpv. destruct (pval (view_val H sv mbh)) as [sv' ihv]. cbn [fst snd] in Hpv.
    cbn [load_proof] in E.
    destruct (map _ (map (vchild H) cs)) as [|x xs] eqn:Emap.
    { subst cs. discriminate. }
    rewrite <- Emap in E.
    destruct (lp_children st dfix ifix (load_proof st dfix ifix f m) m _) as [cs'| | |] eqn:El;
      cbn [obind] in E; try discriminate.
    inversion E; subst p. constructor; [assumption|].
    destruct (has_child cs'); [right|now left].
    eapply (lp_children_pview nodes m); [exact Hm| | |exact El].
    + intros c Hin. rewrite Forall_forall in Wch. split; [exact (Wch _ Hin)|].
      eapply no_coll_child; eassumption.
    + intros c p Hin Er. rewrite Forall_forall in Wch. apply (IH c p (Wch _ Hin)); [|assumption].
      eapply no_coll_child; eassumption.
Qed.

(* ------------------------------------------------------------------ Get on a partial view *)
Lemma proofdb_get_in nodes k x : proofdb_get H nodes k = Some x -> In x nodes /\ H x = k.
Proof.
  induction nodes as [|e nodes IH]; [discriminate|]. cbn [proofdb_get].
  destruct (proofdb_get H nodes k) as [y|] eqn:E.
  - intro Ey. inversion Ey; subst. destruct (IH eq_refl). split; [now right|assumption].
  - destruct (bytes_eqb_spec (H e) k) as [<-|]; [|discriminate]. intro Ey. inversion Ey; subst.
    split; [now left|reflexivity].
Qed.

Lemma node_value_sound nodes t pk sv mbh cs sv' ihv (use_db : bool) v :
  t = TN pk sv mbh cs -> no_coll nodes t -> pval_ok sv mbh sv' ihv ->
  (ihv = true -> use_db = true) ->
  match sv' with
  | Some x => if ihv && use_db then hashed_lookup H nodes x else Ok (Some x)
  | None => Ok None
  end = Ok (Some v) -> sv = Some v.
Proof.
  intros -> Nc Hp Hu E. unfold pval_ok in Hp. destruct sv as [w|].
  - destruct mbh; destruct Hp as [-> ->].
    + rewrite (Hu eq_refl) in E. cbn [andb] in E. unfold hashed_lookup in E.
      rewrite Hlen in E. cbn in E. injection E as E1.
      apply proofdb_get_in in E1 as [Hin Hh].
      assert (Hvw : v = w).
      { apply Nc; [assumption| |assumption]. cbn [strings_of]. right. apply in_or_app. left. now left. }
      now subst.
    + cbn in E. congruence.
  - destruct Hp as [-> ->]. discriminate.
Qed.

Definition t_pk (t : tnode) := match t with TN pk _ _ _ => pk end.

Theorem retrieve_sound nodes : forall t, forall p key v,
  pview t p -> no_coll nodes t -> (key <> [] \/ t_pk t = []) ->
  retrieve H true true nodes p key = Ok (Some v) -> lookup t key = Some v.
Proof.
  induction t as [pk sv mbh cs IH] using tnode_ind'. intros p key v Hpv Nc Hk E.
  inversion Hpv as [pk0 sv0 mbh0 cs0 sv' ihv mv cs' Hval Hcs]; subst.
  cbn [lookup]. destruct cs' as [|c0' cs0'].
  - (* no children left in the proof trie *)
    cbn [retrieve] in E. destruct (bytes_eqb pk key) eqn:Ek; [|discriminate].
    eapply (node_value_sound nodes _ pk sv mbh cs sv' ihv true v eq_refl Nc Hval); [auto|].
    destruct sv' as [x|]; [|assumption]. rewrite andb_true_r. exact E.
  - destruct Hcs as [Z|Hf2]; [discriminate|].
    cbn [retrieve] in E.
    assert (Ek0 : (match key with [] => true | _ => false end || bytes_eqb pk key) = bytes_eqb pk key).
    { destruct key as [|k0 key']; [|reflexivity]. destruct Hk as [Z|Z]; [congruence|].
      cbn in Z. subst pk. reflexivity. }
    rewrite Ek0 in E. destruct (bytes_eqb pk key) eqn:Ek.
    + eapply (node_value_sound nodes _ pk sv mbh cs sv' ihv true v eq_refl Nc Hval); [auto|exact E].
    + destruct (is_prefix pk key) eqn:Ep; cbn [negb] in E; [|discriminate].
      destruct (skipn (length pk) key) as [|i rest] eqn:Es; [discriminate|].
      rewrite pick_nth in E. rewrite pick_nth.
      assert (Hnth0 : forall k, pview_child (nth k cs None) (nth k (c0' :: cs0') None)).
      { clear -Hf2. induction Hf2 as [|a b l l' Hab Hl IHl]; intro k.
        - destruct k; constructor.
        - destruct k; [exact Hab|apply IHl]. }
      pose proof (Hnth0 (N.to_nat (b2n i))) as Hnth.
      set (k := N.to_nat (b2n i)) in *.
      destruct (nth k (c0' :: cs0') None) as [pc|] eqn:Enp; [|discriminate].
      inversion Hnth as [|c pc' Hpc Ec Epc]; subst.
      assert (Hin : In (Some c) cs).
      { rewrite Ec. apply nth_In. destruct (Nat.lt_ge_cases k (length cs)); [assumption|].
        rewrite nth_overflow in Ec by assumption. discriminate. }
      rewrite Forall_forall in IH. specialize (IH _ Hin). cbn in IH.
      destruct c as [cpk csv cmbh ccs]. inversion Hpc; subst.
      destruct (match rest with [] => true | _ => false end) eqn:Er.
      * destruct cpk as [|x cpk'].
        -- cbn [andb] in E. eapply IH; [exact Hpc| |right; reflexivity|exact E].
           eapply no_coll_child; eassumption.
        -- cbn in E. discriminate.
      * cbn [andb] in E. eapply IH; [exact Hpc| | |exact E].
        -- eapply no_coll_child; eassumption.
        -- left. destruct rest; [discriminate|discriminate].
Qed.

(* ------------------------------------------------------------------ Verify *)
Theorem verify_sound nodes t key value :
  wf_node t = true -> no_coll nodes t ->
  (key <> [] \/ t_pk t = []) ->
  verify H st dfix true ifix true nodes (H (encode H t)) key value = Ok tt ->
  exists v, lookup t (nibbles_of_bytes key) = Some v /\ (value = [] \/ value = v).
Proof.
  intros W Nc Hk E. unfold verify in E.
  destruct (build_trie H st dfix ifix nodes (H (encode H t))) as [p| | |] eqn:Eb; cbn [obind] in E; try discriminate.
  destruct (retrieve H true true nodes p (nibbles_of_bytes key)) as [[v|]| | |] eqn:Er; cbn [obind] in E; try discriminate.
  exists v. split.
  - assert (Eb' : exists fuel m, map_ok nodes m /\
                   load_proof st dfix ifix fuel m (pnode_of (view H t)) = Ok p).
    { unfold build_trie in Eb.
      destruct (build_scan H nodes (H (encode H t)) None []) as [root m] eqn:Es.
      destruct (build_scan_ok nodes nodes (H (encode H t)) None [] root m (incl_refl _)
                              ltac:(intros ? ? []) ltac:(discriminate) Es) as [Hm Hr].
      destruct nodes as [|n0 nodes']; [discriminate|].
      destruct root as [e|]; [|discriminate].
      destruct (Hr e eq_refl) as [He Hin].
      assert (e = encode H t) by (apply Nc; [assumption|apply strings_of_self|assumption]). subst e.
      rewrite (decode_encode H Hlen st dfix t W) in Eb. eauto. }
    destruct Eb' as (fuel & m & Hm & El).
    pose proof (load_proof_pview nodes m Hm fuel t p W Nc El) as Hpv.
    apply (retrieve_sound nodes t p (nibbles_of_bytes key) v Hpv Nc); [|exact Er].
    destruct Hk as [Hk|Hk]; [left|now right].
    destruct key; [congruence|discriminate].
  - destruct value as [|b value']; [now left|]. right.
    destruct (bytes_eqb_spec (b :: value') v); [assumption|discriminate].
Qed.

End Sound.
