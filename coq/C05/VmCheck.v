(* C05/VmCheck.v — comparison used by the vm_compute cross-check of the extraction (definitions only). *)
From Common Require Import Bytes Outcome Blake2b.
From C05 Require Import Model.

(* code 0 = Verify returned nil; otherwise the error class of Model.v *)
Definition vres_is (r : outcome unit) (code : nat) : bool :=
  match r with
  | Ok _ => Nat.eqb code 0
  | Err k => Nat.eqb k code && negb (Nat.eqb code 0)
  | _ => false
  end.
