(* C05/ProofsGen.v — what proof.Generate puts into a proof: for every requested key that is present,
   the encodings of the non-inlined nodes on its path and the value when it is stored by hash. *)
From Common Require Import Bytes Outcome.
From Coq Require Import Strings.Byte ZifyN ZifyNat ZifyBool.
From TrieCodec Require Import Codec View Db ProofsBasic ProofsHeader ProofsDecode ProofsDb.
From C05 Require Import Model ProofsSound ProofsInj.
Local Open Scope N_scope.

Section Gen.
Variable H : list byte -> list byte.
Hypothesis Hlen : forall x, length (H x) = 32%nat.

(* the proof items N cover the path of [key] in t *)
Fixpoint covers (N : list (list byte)) (r : bool) (t : tnode) (key : list byte) : Prop :=
  match t with
  | TN pk sv mbh cs =>
    ((r = true \/ (32 <= length (encode H t))%nat) -> In (encode H t) N)
    /\ if bytes_eqb pk key then (forall v, mbh = true -> sv = Some v -> In v N)
       else if is_prefix pk key then
         match skipn (length pk) key with
         | [] => True
         | i :: rest => pick (fun c => covers N false c rest) True cs (N.to_nat (b2n i))
         end
       else True
  end.

Lemma covers_incl N N' : incl N N' -> forall t r key, covers N r t key -> covers N' r t key.
Proof.
  intro Hi. induction t as [pk sv mbh cs IH] using tnode_ind'. intros r key [C1 C2].
  cbn [covers]. split; [intro Hc; apply Hi, C1, Hc|].
  destruct (bytes_eqb pk key); [intros v Hm Hs; apply Hi; eauto|].
  destruct (is_prefix pk key); [|exact I].
  destruct (skipn (length pk) key) as [|i rest]; [exact I|].
  rewrite pick_nth in *. destruct (nth (N.to_nat (b2n i)) cs None) as [c|] eqn:En; [|exact I].
  assert (Hin : In (Some c) cs).
  { rewrite <- En. apply nth_In. destruct (Nat.lt_ge_cases (N.to_nat (b2n i)) (length cs)); [assumption|].
    rewrite nth_overflow in En by assumption. discriminate. }
  rewrite Forall_forall in IH. exact (IH _ Hin false rest C2).
Qed.

(* a present key: the shape of the lookup *)
Lemma lookup_cases pk sv mbh cs key v : lookup (TN pk sv mbh cs) key = Some v ->
  (bytes_eqb pk key = true /\ sv = Some v)
  \/ (bytes_eqb pk key = false /\ exists i rest c, key = pk ++ i :: rest
      /\ nth (N.to_nat (b2n i)) cs None = Some c /\ lookup c rest = Some v).
Proof.
  cbn [lookup]. destruct (bytes_eqb pk key) eqn:Ek; [auto|]. intro E. right. split; [reflexivity|].
  destruct (is_prefix pk key) eqn:Ep; [|discriminate].
  destruct (is_prefix_app _ _ Ep) as [rest0 ->]. rewrite skipn_app_exact in E.
  destruct rest0 as [|i rest]; [discriminate|]. rewrite pick_nth in E.
  destruct (nth (N.to_nat (b2n i)) cs None) as [c|] eqn:En; [|discriminate].
  exists i, rest, c. auto.
Qed.

Lemma nth_some_in {A} k (l : list (option A)) c : nth k l None = Some c -> In (Some c) l.
Proof.
  intro En. rewrite <- En. apply nth_In. destruct (Nat.lt_ge_cases k (length l)); [assumption|].
  rewrite nth_overflow in En by assumption. discriminate.
Qed.

Lemma Ok_inj {A} (a b : A) : @Ok A a = Ok b -> a = b.
Proof. congruence. Qed.

Lemma walk_unfold r pk sv mbh cs key :
  walk H true r (TN pk sv mbh cs) key =
  let enc := encode H (TN pk sv mbh cs) in
  let here := if r || negb (length enc <? 32)%nat then [enc] else [] in
  if match key with [] => true | _ => false end || bytes_eqb pk key
  then Ok (here ++ found_extra true (TN pk sv mbh cs))
  else match cs with
       | [] => Err R_KEYNOTFOUND
       | _ =>
         if negb (length pk <? length key)%nat then Err R_KEYNOTFOUND
         else
           match nth_error key (cpl pk key) with
           | None => Panic
           | Some i =>
             pick (fun ch => obind (walk H true false ch (skipn (S (cpl pk key)) key))
                                   (fun deeper => Ok (here ++ deeper)))
                  (match skipn (S (cpl pk key)) key with [] => Ok here | _ => Err R_KEYNOTFOUND end)
                  cs (N.to_nat (b2n i))
           end
       end.
Proof. destruct cs; reflexivity. Qed.

Theorem walk_covers : forall t r key v l,
  lookup t key = Some v -> walk H true r t key = Ok l -> covers l r t key.
Proof.
  induction t as [pk sv mbh cs IH] using tnode_ind'. intros r key v l Hl Hw.
  destruct (lookup_cases _ _ _ _ _ _ Hl) as [[Ek Hsv]|(Ek & i & rest & c & -> & En & Hlc)].
  - subst sv. rewrite walk_unfold in Hw. cbv zeta in Hw. rewrite Ek, orb_true_r in Hw.
    apply Ok_inj in Hw. subst l.
    cbn [covers]. rewrite Ek. split.
    + intro Hc. apply in_or_app. left.
      destruct Hc as [->|Hc]; [now left|].
      destruct (Nat.ltb_spec (length (encode H (TN pk (Some v) mbh cs))) 32); [lia|].
      cbn [negb]. rewrite orb_true_r. now left.
    + intros v' -> Ev. inversion Ev; subst. apply in_or_app. right. cbn. now left.
  - rewrite walk_unfold in Hw. cbv zeta in Hw. rewrite Ek in Hw.
    assert (Hk : match pk ++ i :: rest with [] => true | _ => false end = false) by (now destruct pk).
    rewrite Hk in Hw. cbn [orb] in Hw.
    destruct cs as [|c0 cs0]; [now destruct (N.to_nat (b2n i))|].
    remember (c0 :: cs0) as cs' eqn:Ecs.
    assert (Hlt : negb (length pk <? length (pk ++ i :: rest))%nat = false).
    { rewrite app_length. cbn [length]. apply negb_false_iff, Nat.ltb_lt. lia. }
    rewrite Hlt in Hw. rewrite cpl_app in Hw.
    assert (Hnth : nth_error (pk ++ i :: rest) (length pk) = Some i)
      by (rewrite nth_error_app2 by lia; now rewrite Nat.sub_diag).
    rewrite Hnth in Hw.
    assert (Hskip : skipn (S (length pk)) (pk ++ i :: rest) = rest).
    { clear. induction pk as [|x pk IHp]; [reflexivity|]. exact IHp. }
    rewrite Hskip in Hw. rewrite pick_nth, En in Hw.
    destruct (walk H true false c rest) as [deeper| | |] eqn:Ewc; cbn [obind] in Hw; try discriminate.
    apply Ok_inj in Hw. subst l.
    rewrite Forall_forall in IH. pose proof (IH _ (nth_some_in _ _ _ En) false rest v deeper Hlc Ewc) as Hc.
    cbn [covers]. rewrite Ek, is_prefix_app_true, skipn_app_exact, pick_nth, En. split.
    + intro Hcond. apply in_or_app. left.
      destruct Hcond as [->|Hcond]; [now left|].
      destruct (Nat.ltb_spec (length (encode H (TN pk sv mbh cs'))) 32); [lia|].
      cbn [negb]. rewrite orb_true_r. now left.
    + eapply covers_incl; [|exact Hc]. apply incl_appr, incl_refl.
Qed.

(* everything a walk emits is a string of the trie *)
Theorem walk_strings : forall t r key l, walk H true r t key = Ok l -> incl l (strings_of H t).
Proof.
  induction t as [pk sv mbh cs IH] using tnode_ind'. intros r key l Hw.
  assert (Hhere : forall (b : bool), incl (if b then [encode H (TN pk sv mbh cs)] else []) (strings_of H (TN pk sv mbh cs))).
  { intros [|] x Hx; [|contradiction]. destruct Hx as [<-|[]]. apply strings_of_self. }
  rewrite walk_unfold in Hw. cbv zeta in Hw.
  destruct (match key with [] => true | _ => false end || bytes_eqb pk key).
  - apply Ok_inj in Hw. subst l. apply incl_app; [apply Hhere|].
    intros x Hx. destruct sv as [v|]; [|contradiction]. destruct mbh; [|contradiction].
    destruct Hx as [<-|[]]. cbn [strings_of]. right. apply in_or_app. left. now left.
  - destruct cs as [|c0 cs0]; [discriminate|]. remember (c0 :: cs0) as cs' eqn:Ecs.
    destruct (negb (length pk <? length key)%nat); [discriminate|].
    destruct (nth_error key (cpl pk key)) as [i|]; [|discriminate].
    rewrite pick_nth in Hw.
    destruct (nth (N.to_nat (b2n i)) cs' None) as [c|] eqn:En.
    + destruct (walk H true false c (skipn (S (cpl pk key)) key)) as [deeper| | |] eqn:Ewc;
        cbn [obind] in Hw; try discriminate.
      apply Ok_inj in Hw. subst l. apply incl_app; [apply Hhere|].
      rewrite Forall_forall in IH. pose proof (IH _ (nth_some_in _ _ _ En) _ _ _ Ewc) as Hd.
      intros x Hx. eapply strings_of_child; [exact (nth_some_in _ _ _ En)|apply Hd, Hx].
    + destruct (skipn (S (cpl pk key)) key); [|discriminate]. apply Ok_inj in Hw. subst l. apply Hhere.
Qed.

(* ------------------------------------------------------------------ deduplication *)
Lemma mem_bytes_in x l : mem_bytes x l = true <-> In x l.
Proof.
  induction l as [|y l IH]; cbn [mem_bytes]; [split; [discriminate|contradiction]|].
  rewrite orb_true_iff, IH. split.
  - intros [E|Hin]; [left; symmetry; now apply bytes_eqb_eq|now right].
  - intros [<-|Hin]; [left; apply bytes_eqb_refl|now right].
Qed.

Definition seen_ok (seen acc : list (list byte)) : Prop :=
  forall h, In h seen -> exists e, In e acc /\ merkle_value H e = h.

Lemma dedup_add_spec : forall new seen acc seen' acc',
  dedup_add H seen acc new = (seen', acc') -> seen_ok seen acc ->
  incl acc acc' /\ incl acc' (acc ++ new) /\ seen_ok seen' acc'
  /\ (forall e, In e new -> exists e', In e' acc' /\ merkle_value H e' = merkle_value H e).
Proof.
  induction new as [|e new IH]; intros seen acc seen' acc' E Hs.
  - cbn in E. inversion E; subst. rewrite app_nil_r. repeat split; try apply incl_refl; [assumption|contradiction].
  - cbn [dedup_add] in E. destruct (mem_bytes (merkle_value H e) seen) eqn:Em.
    + destruct (IH _ _ _ _ E Hs) as (I1 & I2 & I3 & I4). repeat split; try assumption.
      * intros x Hx. apply I2 in Hx. apply in_app_or in Hx as [Hx|Hx]; apply in_or_app; [now left|right; now right].
      * intros x [<-|Hx]; [|now apply I4].
        apply mem_bytes_in in Em. destruct (Hs _ Em) as (e' & He' & Hm). exists e'. split; [now apply I1|assumption].
    + assert (Hs' : seen_ok (merkle_value H e :: seen) (acc ++ [e])).
      { intros h [<-|Hh].
        - exists e. split; [apply in_or_app; right; now left|reflexivity].
        - destruct (Hs _ Hh) as (e' & He' & Hm). exists e'. split; [apply in_or_app; now left|assumption]. }
      destruct (IH _ _ _ _ E Hs') as (I1 & I2 & I3 & I4). repeat split; try assumption.
      * intros x Hx. apply I1. apply in_or_app. now left.
      * intros x Hx. apply I2 in Hx. rewrite <- app_assoc in Hx. exact Hx.
      * intros x [<-|Hx]; [|now apply I4].
        exists e. split; [apply I1; apply in_or_app; right; now left|reflexivity].
Qed.

Lemma merkle_inj S : inj_on H S -> forall x y, In x S -> In y S ->
  merkle_value H x = merkle_value H y -> x = y.
Proof.
  intros Hinj x y Hx Hy. unfold merkle_value.
  destruct (Nat.ltb_spec (length x) 32), (Nat.ltb_spec (length y) 32); intro E.
  - assumption.
  - exfalso. apply (f_equal (@length byte)) in E. rewrite Hlen in E. lia.
  - exfalso. apply (f_equal (@length byte)) in E. rewrite Hlen in E. lia.
  - now apply Hinj.
Qed.

Theorem gen_keys_spec t : forall keys seen acc nodes,
  gen_keys H true (Some t) keys seen acc = Ok nodes ->
  seen_ok seen acc -> incl acc (strings_of H t) ->
  incl acc nodes /\ incl nodes (strings_of H t)
  /\ forall k, In k keys -> exists l, walk H true true t (nibbles_of_bytes k) = Ok l
       /\ forall e, In e l -> exists e', In e' nodes /\ merkle_value H e' = merkle_value H e.
Proof.
  induction keys as [|k keys IH]; intros seen acc nodes E Hs Ha.
  - cbn in E. inversion E; subst. repeat split; [apply incl_refl|assumption|contradiction].
  - cbn [gen_keys walk_root] in E.
    destruct (walk H true true t (nibbles_of_bytes k)) as [new| | |] eqn:Ew; cbn [obind] in E; try discriminate.
    destruct (dedup_add H seen acc new) as [seen' acc'] eqn:Ed.
    destruct (dedup_add_spec _ _ _ _ _ Ed Hs) as (I1 & I2 & I3 & I4).
    assert (Ha' : incl acc' (strings_of H t)).
    { intros x Hx. apply I2 in Hx. apply in_app_or in Hx as [Hx|Hx]; [now apply Ha|].
      eapply walk_strings; eassumption. }
    destruct (IH _ _ _ E I3 Ha') as (J1 & J2 & J3). repeat split.
    + intros x Hx. apply J1, I1, Hx.
    + assumption.
    + intros k' [<-|Hk']; [|now apply J3].
      exists new. split; [assumption|]. intros e He.
      destruct (I4 _ He) as (e' & He' & Hm). exists e'. split; [apply J1, He'|assumption].
Qed.

Theorem generate_covers t ks N k v :
  inj_on H (strings_of H t) ->
  generate H true true (Some t) ks = Ok N -> In k ks ->
  lookup t (nibbles_of_bytes k) = Some v ->
  incl N (strings_of H t) /\ covers N true t (nibbles_of_bytes k).
Proof.
  intros Hinj Eg Hk Hl. unfold generate, generate_loaded in Eg.
  destruct (gen_keys_spec t ks [] [] N Eg) as (_ & J2 & J3).
  - intros h [].
  - intros x [].
  - split; [assumption|].
    destruct (J3 _ Hk) as (l & Ew & Hall).
    eapply covers_incl; [|eapply walk_covers; eassumption].
    intros e He. destruct (Hall _ He) as (e' & He' & Hm).
    assert (e' = e).
    { apply (merkle_inj _ Hinj); [apply J2, He'|eapply walk_strings; eassumption|assumption]. }
    now subst.
Qed.

End Gen.
