From Coq Require Import Extraction ExtrOcamlBasic.
From Common Require Import Bytes Outcome Drv Blake2b.
From C05 Require Import Model.
Extraction "model.ml" drv_b2n drv_n2b drv_z_of_n drv_n_of_z drv_nat_of_n drv_n_of_nat
  hash256 encode erase entries generate verify load write_dirty wf_node empty_root lookup
  nibbles_of_bytes.
