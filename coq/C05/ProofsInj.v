(* C05/ProofsInj.v — when the hash does not collide on the strings of a trie, different subtrees
   have different encodings: a proper subtree never encodes like the tree it is part of. *)
From Common Require Import Bytes Outcome.
From Coq Require Import Strings.Byte ZifyN ZifyNat ZifyBool.
From TrieCodec Require Import Codec View Db ProofsBasic ProofsHeader ProofsDecode ProofsDb.
From C05 Require Import Model ProofsSound.
Local Open Scope N_scope.

Section Inj.
Variable H : list byte -> list byte.
Hypothesis Hlen : forall x, length (H x) = 32%nat.

(* all subtrees, the tree itself first *)
Fixpoint subtrees (t : tnode) : list tnode :=
  match t with
  | TN _ _ _ cs => t :: flat_map (fun oc => match oc with None => [] | Some c => subtrees c end) cs
  end.

Definition proper_subtrees (t : tnode) : list tnode :=
  match t with
  | TN _ _ _ cs => flat_map (fun oc => match oc with None => [] | Some c => subtrees c end) cs
  end.

Lemma subtrees_self t : In t (subtrees t).
Proof. destruct t. now left. Qed.

Lemma subtrees_unfold t : subtrees t = t :: proper_subtrees t.
Proof. destruct t. reflexivity. Qed.

Fixpoint size (t : tnode) : nat :=
  match t with
  | TN _ _ _ cs => S (fold_right (fun oc m => match oc with None => m | Some c => (size c + m)%nat end) O cs)
  end.

Lemma size_child pk sv mbh cs c : In (Some c) cs -> (size c < size (TN pk sv mbh cs))%nat.
Proof.
  cbn [size]. induction cs as [|oc cs IH]; [contradiction|]. intros [->|Hin]; cbn [fold_right].
  - lia.
  - specialize (IH Hin). destruct oc; lia.
Qed.

Lemma subtrees_size : forall t c, In c (subtrees t) -> (size c <= size t)%nat.
Proof.
  induction t as [pk sv mbh cs IH] using tnode_ind'. intros c Hin.
  rewrite subtrees_unfold in Hin. destruct Hin as [<-|Hin]; [lia|].
  cbn [proper_subtrees] in Hin. apply in_flat_map in Hin as ([ch|] & Hch & Hin); [|contradiction].
  rewrite Forall_forall in IH. specialize (IH _ Hch c Hin). cbn in IH.
  pose proof (size_child pk sv mbh cs ch Hch). lia.
Qed.

Lemma proper_subtrees_size t c : In c (proper_subtrees t) -> (size c < size t)%nat.
Proof.
  destruct t as [pk sv mbh cs]. cbn [proper_subtrees]. intro Hin.
  apply in_flat_map in Hin as ([ch|] & Hch & Hin); [|contradiction].
  pose proof (subtrees_size ch c Hin). pose proof (size_child pk sv mbh cs ch Hch). lia.
Qed.

(* strings of subtrees are strings of the tree *)
Lemma strings_of_subtree : forall t c s, In c (subtrees t) -> In s (strings_of H c) -> In s (strings_of H t).
Proof.
  induction t as [pk sv mbh cs IH] using tnode_ind'. intros c s Hc Hs.
  rewrite subtrees_unfold in Hc. destruct Hc as [<-|Hc]; [assumption|].
  cbn [proper_subtrees] in Hc. apply in_flat_map in Hc as ([ch|] & Hch & Hc); [|contradiction].
  rewrite Forall_forall in IH. specialize (IH _ Hch c s Hc Hs). cbn in IH.
  eapply strings_of_child; eassumption.
Qed.

Lemma subtrees_wf : forall t c, wf_node t = true -> In c (subtrees t) -> wf_node c = true.
Proof.
  induction t as [pk sv mbh cs IH] using tnode_ind'. intros c W Hc.
  rewrite subtrees_unfold in Hc. destruct Hc as [<-|Hc]; [assumption|].
  cbn [proper_subtrees] in Hc. apply in_flat_map in Hc as ([ch|] & Hch & Hc); [|contradiction].
  destruct (wf_unfold H Hlen _ _ _ _ W) as (_ & _ & _ & _ & Wch).
  rewrite Forall_forall in IH, Wch. apply (IH _ Hch c (Wch _ Hch) Hc).
Qed.

Lemma subtrees_trans : forall t c d, In c (subtrees t) -> In d (subtrees c) -> In d (subtrees t).
Proof.
  induction t as [pk sv mbh cs IH] using tnode_ind'. intros c d Hc Hd.
  rewrite subtrees_unfold in Hc. destruct Hc as [<-|Hc]; [assumption|].
  rewrite subtrees_unfold. right.
  cbn [proper_subtrees] in *. apply in_flat_map in Hc as ([ch|] & Hch & Hc); [|contradiction].
  apply in_flat_map. exists (Some ch). split; [assumption|].
  rewrite Forall_forall in IH. apply (IH _ Hch c d Hc Hd).
Qed.

(* H does not collide on a set of strings *)
Definition inj_on (S : list (list byte)) : Prop :=
  forall x y, In x S -> In y S -> H x = H y -> x = y.

Lemma vchild_eq_cases (ca cb : tnode) :
  vchild H (Some ca) = vchild H (Some cb) ->
  ((length (encode H ca) < 32)%nat /\ (length (encode H cb) < 32)%nat /\ view H ca = view H cb)
  \/ ((32 <= length (encode H ca))%nat /\ (32 <= length (encode H cb))%nat
      /\ H (encode H ca) = H (encode H cb)).
Proof.
  cbn [vchild].
  destruct (Nat.ltb_spec (length (encode H ca)) 32), (Nat.ltb_spec (length (encode H cb)) 32); intro E.
  - left. inversion E. auto.
  - exfalso. inversion E as [E1]. eapply (view_not_stub H ca); exact E1.
  - exfalso. inversion E as [E1]. symmetry in E1. eapply (view_not_stub H cb); exact E1.
  - right. inversion E. auto.
Qed.

Lemma vchild_some_not_none c : vchild H (Some c) <> None.
Proof. cbn [vchild]. destruct (_ <? _)%nat; discriminate. Qed.

Lemma children_eq S : inj_on S ->
  forall csa csb,
  (forall ca, In (Some ca) csa -> wf_node ca = true /\ incl (strings_of H ca) S /\
              (forall b, wf_node b = true -> incl (strings_of H b) S -> encode H ca = encode H b -> ca = b)) ->
  (forall cb, In (Some cb) csb -> wf_node cb = true /\ incl (strings_of H cb) S) ->
  map (vchild H) csa = map (vchild H) csb -> csa = csb.
Proof.
  intros Hinj. induction csa as [|oa csa IHl]; intros [|ob csb] Ha Hb Emap; try discriminate; [reflexivity|].
  cbn [map] in Emap. inversion Emap as [[Eo Er]].
  f_equal.
  - destruct oa as [ca|], ob as [cb|].
    + destruct (Ha ca (or_introl eq_refl)) as (Wa & Sa & IHa).
      destruct (Hb cb (or_introl eq_refl)) as (Wb & Sb).
      destruct (vchild_eq_cases ca cb Eo) as [(La & Lb & Ev)|(La & Lb & Eh)].
      * destruct (inline_view H Hlen ca Wa La) as [_ Ea].
        destruct (inline_view H Hlen cb Wb Lb) as [_ Eb]. f_equal. congruence.
      * f_equal. apply IHa; [assumption|assumption|].
        apply Hinj; [apply Sa, strings_of_self|apply Sb, strings_of_self|assumption].
    + exfalso. exact (vchild_some_not_none ca Eo).
    + exfalso. symmetry in Eo. exact (vchild_some_not_none cb Eo).
    + reflexivity.
  - apply IHl; [| |assumption].
    + intros ca Hin. apply Ha. now right.
    + intros cb Hin. apply Hb. now right.
Qed.

Theorem encode_inj S : inj_on S ->
  forall a, wf_node a = true -> incl (strings_of H a) S ->
  forall b, wf_node b = true -> incl (strings_of H b) S ->
  encode H a = encode H b -> a = b.
Proof.
  intros Hinj. induction a as [pk sv mbh cs IH] using tnode_ind'.
  intros Wa Sa [pk' sv' mbh' cs'] Wb Sb E.
  assert (Ev : view H (TN pk sv mbh cs) = view H (TN pk' sv' mbh' cs')).
  { pose proof (decode_encode H Hlen (false, false) true _ Wa) as Da.
    pose proof (decode_encode H Hlen (false, false) true _ Wb) as Db.
    rewrite E in Da. rewrite Da in Db. now inversion Db. }
  destruct (wf_unfold H Hlen _ _ _ _ Wa) as (_ & _ & Wsva & _ & Wcha).
  destruct (wf_unfold H Hlen _ _ _ _ Wb) as (_ & _ & Wsvb & _ & Wchb).
  assert (Hval : forall v v', sv = Some v -> sv' = Some v' ->
            (if mbh then DVHashed (H v) else DVInline (v, 0)) = (if mbh' then DVHashed (H v') else DVInline (v', 0)) ->
            v = v' /\ mbh = mbh').
  { intros v v' -> -> Ed. destruct mbh, mbh'; inversion Ed as [Eh]; [|auto].
    split; [|reflexivity]. apply Hinj; [| |assumption].
    - apply Sa. cbn [strings_of]. right. apply in_or_app. left. now left.
    - apply Sb. cbn [strings_of]. right. apply in_or_app. left. now left. }
  destruct cs as [|c0 cs0], cs' as [|c0' cs0'].
  - destruct sv as [v|]; [|destruct Wsva as [_ Z]; congruence].
    destruct sv' as [v'|]; [|destruct Wsvb as [_ Z]; congruence].
    cbn [view view_val] in Ev. inversion Ev as [[Epk Ed]].
    destruct (Hval v v' eq_refl eq_refl Ed) as [-> ->]. reflexivity.
  - exfalso. rewrite (view_branch H) in Ev. destruct sv; cbn in Ev; discriminate.
  - exfalso. rewrite (view_branch H) in Ev. destruct sv'; cbn in Ev; discriminate.
  - rewrite !(view_branch H) in Ev. remember (c0 :: cs0) as csa. remember (c0' :: cs0') as csb.
    inversion Ev as [[Epk Eval Edesc Emap]]. subst pk'.
    assert (Esv : sv = sv' /\ mbh = mbh').
    { destruct sv as [v|], sv' as [v'|]; cbn [view_val] in Eval; try discriminate.
      - inversion Eval as [Ed]. destruct (Hval v v' eq_refl eq_refl Ed) as [-> ->]. auto.
      - destruct Wsva as [-> _]. destruct Wsvb as [-> _]. auto. }
    destruct Esv as [<- <-]. f_equal.
    apply (children_eq S Hinj); [| |assumption].
    + intros ca Hin. rewrite Forall_forall in IH, Wcha.
      assert (Sc : incl (strings_of H ca) S).
      { intros s Hs. apply Sa. eapply strings_of_child; eassumption. }
      repeat split; [exact (Wcha _ Hin)|exact Sc|].
      intros b Wbb Sbb Eb. exact (IH _ Hin (Wcha _ Hin) Sc b Wbb Sbb Eb).
    + intros cb Hin. rewrite Forall_forall in Wchb. split; [exact (Wchb _ Hin)|].
      intros s Hs. apply Sb. eapply strings_of_child; eassumption.
Qed.

(* a proper subtree never has the encoding of the tree *)
Theorem proper_subtree_enc t c : wf_node t = true -> inj_on (strings_of H t) ->
  In c (proper_subtrees t) -> encode H c <> encode H t.
Proof.
  intros W Hinj Hc E.
  assert (Hcs : In c (subtrees t)) by (rewrite subtrees_unfold; now right).
  assert (c = t).
  { apply (encode_inj (strings_of H t) Hinj c (subtrees_wf t c W Hcs)); [|assumption|apply incl_refl|assumption].
    intros s Hs. eapply strings_of_subtree; eassumption. }
  subst c. pose proof (proper_subtrees_size t t Hc). lia.
Qed.

End Inj.
