(* C05/ProofsRobust.v — proof.Verify does not panic when it checks against the root hash of a
   (non-empty) well-formed state, whatever proof items are supplied.

   The two nil dereferences of verify.go (root.Dirty = true / child.Dirty = true on the nil node that
   node.Decode returns for the item 00) need an item whose hash is the root hash, or the Merkle value
   of a child, and which decodes to the empty node: under [no_coll] such an item is the encoding of
   the root / of that child, which decodes to a node.  The remaining panics of the model (a stored
   value hash that is not 32 bytes long, an exhausted key below a branch) cannot happen on a partial
   view of a well-formed trie. *)
From Common Require Import Bytes Outcome.
From Coq Require Import Strings.Byte ZifyN ZifyNat ZifyBool.
From TrieCodec Require Import Codec View Db ProofsBasic ProofsHeader ProofsDecode ProofsDb.
From C05 Require Import Model ProofsSound.
Local Open Scope N_scope.

Section Robust.
Variable H : list byte -> list byte.
Hypothesis Hlen : forall x, length (H x) = 32%nat.
Variable st : bool * bool.
Variable dfix : bool.
Variable ifix : bool.

Definition no_panic {A} (x : outcome A) : Prop := x <> Panic.

Lemma obind_no_panic {A B} (x : outcome A) (f : A -> outcome B) :
  no_panic x -> (forall a, x = Ok a -> no_panic (f a)) -> no_panic (obind x f).
Proof. unfold no_panic. destruct x; cbn; intros Hx Hf; try congruence. now apply Hf. Qed.

Lemma pnode_of_view_mv c : exists pk sv ihv cs, pnode_of (view H c) = PN pk sv ihv [] cs.
Proof.
  destruct c as [pk sv mbh [|c0 cs0]].
  - cbn [view]. destruct (view_val H sv mbh) as [[z|h]|]; cbn; eauto.
  - rewrite (view_branch H). cbn [pnode_of]. destruct (pval (view_val H sv mbh)). eauto.
Qed.

Lemma find_enc_empty nodes m : map_ok H nodes m -> find_enc m [] = None.
Proof.
  intro Hm. destruct (find_enc m []) as [x|] eqn:Ef; [|reflexivity].
  apply find_enc_in in Ef. destruct (Hm _ _ Ef) as [Hk _].
  apply (f_equal (@length byte)) in Hk. rewrite Hlen in Hk. discriminate.
Qed.

Lemma lp_children_no_panic nodes m (rec : pnode -> outcome pnode) :
  map_ok H nodes m ->
  forall cs,
  (forall c, In (Some c) cs -> wf_node c = true /\ no_coll H nodes c) ->
  (forall c, In (Some c) cs -> no_panic (rec (pnode_of (view H c)))) ->
  no_panic (lp_children st dfix ifix rec m
              (map (fun oc => match oc with None => None | Some c => Some (pnode_of c) end)
                   (map (vchild H) cs))).
Proof.
  intros Hm. induction cs as [|oc cs IH]; intros Hwf Hrec.
  - cbn. discriminate.
  - assert (IH' : no_panic (lp_children st dfix ifix rec m
              (map (fun oc => match oc with None => None | Some c => Some (pnode_of c) end)
                   (map (vchild H) cs)))).
    { apply IH; intros c Hin; [apply Hwf|apply Hrec]; now right. }
    cbn [map]. destruct oc as [c|]; cbn [vchild].
    + destruct (Hwf c (or_introl eq_refl)) as [Wc Nc].
      destruct (Nat.ltb_spec (length (encode H c)) 32) as [Hs|Hs].
      * destruct (pnode_of_view_mv c) as (cpk & csv & cihv & ccs & ->).
        cbn [lp_children]. rewrite (find_enc_empty nodes m Hm).
        apply obind_no_panic; [exact IH'|discriminate].
      * rewrite pnode_of_stub. cbn [lp_children].
        destruct (find_enc m (H (encode H c))) as [enc|] eqn:Ef.
        -- apply find_enc_in in Ef. destruct (Hm _ _ Ef) as [Hk Hin].
           assert (enc = encode H c) by (apply Nc; [assumption|apply strings_of_self|congruence]).
           subst enc. rewrite (decode_encode H Hlen st dfix c Wc).
           apply obind_no_panic; [apply Hrec; now left|].
           intros; apply obind_no_panic; [exact IH'|discriminate].
        -- apply obind_no_panic; [exact IH'|discriminate].
    + cbn [lp_children]. apply obind_no_panic; [exact IH'|discriminate].
Qed.

Theorem load_proof_no_panic nodes m : map_ok H nodes m ->
  forall fuel t, wf_node t = true -> no_coll H nodes t ->
  no_panic (load_proof st dfix ifix fuel m (pnode_of (view H t))).
Proof.
  intro Hm. induction fuel as [|f IH]; intros t W Nc; [discriminate|].
  destruct t as [pk sv mbh cs].
  destruct (wf_unfold H Hlen _ _ _ _ W) as (_ & _ & Wsv & _ & Wch).
  destruct cs as [|c0 cs0].
  - destruct sv as [v|]; [|destruct Wsv as [_ Z]; congruence].
    cbn [view view_val pnode_of].
    destruct (pval (Some (if mbh then DVHashed (H v) else DVInline (v, 0)))) as [sv' ihv].
    cbn [load_proof]. discriminate.
  - rewrite (view_branch H). remember (c0 :: cs0) as cs eqn:Ecs. cbn [pnode_of].
    destruct (pval (view_val H sv mbh)) as [sv' ihv].
    cbn [load_proof].
    destruct (map _ (map (vchild H) cs)) as [|x xs] eqn:Emap.
    { subst cs. discriminate. }
    rewrite <- Emap.
    apply obind_no_panic; [|discriminate].
    apply (lp_children_no_panic nodes m); [exact Hm| |].
    + intros c Hin. rewrite Forall_forall in Wch. split; [exact (Wch _ Hin)|].
      eapply no_coll_child; eassumption.
    + intros c Hin. rewrite Forall_forall in Wch. apply (IH c (Wch _ Hin)).
      eapply no_coll_child; eassumption.
Qed.

(* Get on a partial view never panics *)
Lemma value_no_panic nodes sv mbh sv' ihv (use_db : bool) :
  pval_ok H sv mbh sv' ihv ->
  no_panic (match sv' with
            | Some x => if ihv && use_db then hashed_lookup H nodes x else Ok (Some x)
            | None => Ok None
            end).
Proof.
  intro Hp. unfold pval_ok in Hp. destruct sv as [w|].
  - destruct mbh; destruct Hp as [-> ->]; cbn [andb].
    + destruct use_db; [|discriminate]. unfold hashed_lookup. rewrite Hlen. cbn. discriminate.
    + discriminate.
  - destruct Hp as [-> ->]. discriminate.
Qed.

Theorem retrieve_no_panic nodes : forall t p key,
  pview H t p -> no_panic (retrieve H true true nodes p key).
Proof.
  induction t as [pk sv mbh cs IH] using tnode_ind'. intros p key Hpv.
  inversion Hpv as [pk0 sv0 mbh0 cs0 sv' ihv mv cs' Hval Hcs]; subst.
  destruct cs' as [|c0' cs0'].
  - cbn [retrieve]. destruct (bytes_eqb pk key); [|discriminate].
    pose proof (value_no_panic nodes sv mbh sv' ihv true Hval) as Hv.
    destruct sv' as [x|]; [|discriminate]. now rewrite andb_true_r in Hv.
  - destruct Hcs as [Z|Hf2]; [discriminate|].
    cbn [retrieve].
    destruct (match key with [] => true | _ => false end || bytes_eqb pk key) eqn:Ek.
    + exact (value_no_panic nodes sv mbh sv' ihv true Hval).
    + apply orb_false_iff in Ek as [_ Ek].
      destruct (is_prefix pk key) eqn:Ep; cbn [negb]; [|discriminate].
      destruct (is_prefix_app _ _ Ep) as [r ->]. rewrite skipn_app_exact.
      destruct r as [|i rest].
      { rewrite app_nil_r in Ek. now rewrite bytes_eqb_refl in Ek. }
      rewrite pick_nth.
      assert (Hnth : pview_child H (nth (N.to_nat (b2n i)) cs None) (nth (N.to_nat (b2n i)) (c0' :: cs0') None)).
      { clear -Hf2. generalize (N.to_nat (b2n i)) as k.
        induction Hf2 as [|a b l l' Hab Hl IHl]; intro k.
        - destruct k; constructor.
        - destruct k; [exact Hab|apply IHl]. }
      set (k := N.to_nat (b2n i)) in *.
      destruct (nth k (c0' :: cs0') None) as [pc|] eqn:Enp; [|discriminate].
      inversion Hnth as [|c pc' Hpc Ec Epc]; subst.
      assert (Hin : In (Some c) cs).
      { rewrite Ec. apply nth_In. destruct (Nat.lt_ge_cases k (length cs)); [assumption|].
        rewrite nth_overflow in Ec by assumption. discriminate. }
      rewrite Forall_forall in IH. specialize (IH _ Hin). cbn in IH.
      destruct (_ && _); [discriminate|]. now apply IH.
Qed.

(* Verify against the root hash of a well-formed state never panics *)
Theorem verify_no_panic nodes t key value :
  wf_node t = true -> no_coll H nodes t ->
  verify H st dfix true ifix true nodes (H (encode H t)) key value <> Panic.
Proof.
  intros W Nc. unfold verify.
  apply obind_no_panic.
  - unfold build_trie.
    destruct (build_scan H nodes (H (encode H t)) None []) as [root m] eqn:Es.
    destruct (build_scan_ok H nodes nodes (H (encode H t)) None [] root m (incl_refl _)
                            ltac:(intros ? ? []) ltac:(discriminate) Es) as [Hm Hr].
    destruct nodes as [|n0 nodes']; [discriminate|].
    destruct root as [e|]; [|discriminate].
    destruct (Hr e eq_refl) as [He Hin].
    assert (e = encode H t) by (apply Nc; [assumption|apply strings_of_self|assumption]). subst e.
    rewrite (decode_encode H Hlen st dfix t W).
    now apply (load_proof_no_panic (n0 :: nodes') m Hm).
  - intros p Eb.
    assert (Hpv : pview H t p).
    { unfold build_trie in Eb.
      destruct (build_scan H nodes (H (encode H t)) None []) as [root m] eqn:Es.
      destruct (build_scan_ok H nodes nodes (H (encode H t)) None [] root m (incl_refl _)
                              ltac:(intros ? ? []) ltac:(discriminate) Es) as [Hm Hr].
      destruct nodes as [|n0 nodes']; [discriminate|].
      destruct root as [e|]; [|discriminate].
      destruct (Hr e eq_refl) as [He Hin].
      assert (e = encode H t) by (apply Nc; [assumption|apply strings_of_self|assumption]). subst e.
      rewrite (decode_encode H Hlen st dfix t W) in Eb.
      exact (load_proof_pview H Hlen st dfix ifix (n0 :: nodes') m Hm _ t p W Nc Eb). }
    apply obind_no_panic; [now apply (retrieve_no_panic nodes t)|].
    intros got _. destruct got as [v|]; [|discriminate].
    destruct value; [discriminate|]. destruct (bytes_eqb _ _); discriminate.
Qed.

End Robust.
