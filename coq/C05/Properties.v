(* C05/Properties.v — property C05: storage read proofs are complete and sound.
   Only statements, each closed by `exact <lemma>`, with Print Assumptions beneath.

   Model: coq/C05/Model.v (proof.Generate / walkRoot / walk, proof.Verify / buildTrie / loadProof,
   db.NewMemoryDBFromProof, InMemoryTrie.Get) over the node codec of C07 and the database model
   of C04; tied to the Go code by props/C05 (honest and adversarial node sets).

   Both halves are proved for the repaired code: completeness for every trie, key set and present
   key (C05_complete), soundness for every node set (C05_sound).  The pinned tree violates both
   (C05_pinned_refuted). *)
From Common Require Import Bytes Outcome Blake2b.
From TrieCodec Require Import Codec View Db ProofsBasic ProofsDecode ProofsDb.
From C05 Require Import Model ProofsSound ProofsInj ProofsGen ProofsComplete ProofsRobust ProofsFuel Examples.
Local Open Scope N_scope.

(* Completeness.  For every well-formed state trie t (either version: any mix of inline and hashed
   values, inlined and hashed children), every key set ks for which Generate succeeds and every
   requested key k that is present with value v: Verify (fixes C05-1..3) accepts (k, v) and
   (k, empty) with the generated proof under the root hash of t — the proof trie rebuilt by
   loadProof contains the whole path of k and, for a value stored by hash, the value itself; the
   recursion never runs out of the fuel the model gives it.  [inj_on]: H does not collide on the
   strings of t (node encodings and hashed values). *)
Theorem C05_complete :
  forall (H : list byte -> list byte), (forall x, length (H x) = 32%nat) ->
  forall st dfix gx t ks nodes k v value,
  wf_node t = true -> inj_on H (strings_of H t) ->
  generate H true true (Some t) ks = Ok nodes -> In k ks ->
  lookup t (nibbles_of_bytes k) = Some v -> (value = v \/ value = []) ->
  verify H st dfix true true gx nodes (H (encode H t)) k value = Ok tt.
Proof. exact verify_generated. Qed.
Print Assumptions C05_complete.

(* Soundness.  Whatever proof items are supplied (omitted, duplicated, foreign, altered, reordered
   nodes), if Verify (with fixes/C05-2, C02-get-exhausted-key-nested) accepts (key, value) under the
   root hash of a well-formed trie t, then t holds a value under key, and it is [value] unless the
   caller passed the empty value (the documented "existence only" query).
   [no_coll nodes t]: no supplied item collides under H with a different string of t (node
   encodings, hashed values).  The empty key is excluded unless the root has an empty partial key
   (known finding verify-empty-key). *)
Theorem C05_sound :
  forall (H : list byte -> list byte), (forall x, length (H x) = 32%nat) ->
  forall st dfix ifix nodes t key value,
  wf_node t = true -> no_coll H nodes t ->
  (key <> [] \/ t_pk t = []) ->
  verify H st dfix true ifix true nodes (H (encode H t)) key value = Ok tt ->
  exists v, lookup t (nibbles_of_bytes key) = Some v /\ (value = [] \/ value = v).
Proof. exact verify_sound. Qed.
Print Assumptions C05_sound.

(* in particular an absent key is never confirmed, and a wrong non-empty value is never confirmed *)
Theorem C05_sound_absent :
  forall (H : list byte -> list byte), (forall x, length (H x) = 32%nat) ->
  forall st dfix ifix nodes t key value,
  wf_node t = true -> no_coll H nodes t -> (key <> [] \/ t_pk t = []) ->
  lookup t (nibbles_of_bytes key) = None ->
  verify H st dfix true ifix true nodes (H (encode H t)) key value <> Ok tt.
Proof.
  intros H Hlen st dfix ifix nodes t key value W Nc Hk Hl E.
  destruct (verify_sound H Hlen st dfix ifix nodes t key value W Nc Hk E) as (v & Hv & _). congruence.
Qed.
Print Assumptions C05_sound_absent.

(* Robustness against the supplied nodes: checked against the root hash of a well-formed (non-empty)
   state, Verify never panics, whatever proof items are supplied.  (verify.go dereferences the nil
   node that node.Decode returns for the item 00 when that item is picked as the root or as a child;
   under no_coll an item picked under a hash of the state is the encoding of a node of the state.)
   The panic the harness observes (`AN:00` with the root hash of the empty state) is outside this
   theorem's hypothesis and outside the property text: nothing is confirmed. *)
Theorem C05_verify_no_panic :
  forall (H : list byte -> list byte), (forall x, length (H x) = 32%nat) ->
  forall st dfix ifix nodes t key value,
  wf_node t = true -> no_coll H nodes t ->
  verify H st dfix true ifix true nodes (H (encode H t)) key value <> Panic.
Proof. exact verify_no_panic. Qed.
Print Assumptions C05_verify_no_panic.

(* Totality: against the root hash of a well-formed state Verify answers nil or an error for EVERY
   proof item list — no panic, and the fuel S (S (length nodes)) that the model gives loadProof (Go
   has none) is never exhausted: on one descent every child found among the items is the encoding of
   a nested subtree (no_coll), nested subtrees have different encodings (inj_on), so a descent of
   depth k meets k different items.  Hence C05_sound does not rest on the model's fuel: whenever Go
   would answer, the model answers the same. *)
Theorem C05_verify_total :
  forall (H : list byte -> list byte), (forall x, length (H x) = 32%nat) ->
  forall st dfix ifix nodes t key value,
  wf_node t = true -> no_coll H nodes t -> inj_on H (strings_of H t) ->
     verify H st dfix true ifix true nodes (H (encode H t)) key value = Ok tt
  \/ exists c, verify H st dfix true ifix true nodes (H (encode H t)) key value = Err c.
Proof.
  intros H Hlen st dfix ifix nodes t key value W Nc Hinj.
  pose proof (verify_total H Hlen st dfix ifix nodes t key value W Nc Hinj) as Hv.
  destruct (verify _ _ _ _ _ _ _ _ _ _) as [[]|c| |]; cbn in Hv; try contradiction; eauto.
Qed.
Print Assumptions C05_verify_total.

(* ... and it does panic on the item 00 under the root hash of the empty state *)
Example C05_verify_panics_on_empty_node :
  verify B (false, false) true true true true [[n2b 0]] (B [n2b 0]) (nib [1]) [] = Panic.
Proof. vm_compute. reflexivity. Qed.

(* ------------------------------------------------------------------ examples with the real hash
   (the states ex_* and their evaluation are in Examples.v) *)
(* non-vacuity: with the repaired code the generated proofs of the three states verify, a wrong
   value and an absent key are rejected *)
Example C05_nonvacuous :
     wf_node ex_leaf = true /\ wf_node ex_branch = true /\ wf_node ex_empty = true
  /\ length (gen true ex_leaf (nib [31; 16])) = 2%nat
  /\ verify B (false, false) true true true true (gen true ex_leaf (nib [31; 16])) (rootB ex_leaf) (nib [31; 16]) v33 = Ok tt
  /\ verify B (false, false) true true true true (gen true ex_branch (nib [16])) (rootB ex_branch) (nib [16]) v33 = Ok tt
  /\ verify B (false, false) true true true true (gen true ex_empty (nib [1])) (rootB ex_empty) (nib [1]) [] = Ok tt
  /\ verify B (false, false) true true true true (gen true ex_leaf (nib [31; 16])) (rootB ex_leaf) (nib [31; 16]) (nib [9]) = Err R_MISMATCH
  /\ verify B (false, false) true true true true (gen true ex_leaf (nib [31; 16])) (rootB ex_leaf) (nib [31; 17]) v33 = Err R_NOTFOUND.
Proof. exact C05_nonvacuous_holds. Qed.

(* the pinned tree: (1) Generate does not ship hashed values, so the real value of 0x1f10 is not
   confirmed; (2) Get returns the hash kept in a branch, so the real value of 0x10 is rejected and
   its hash is confirmed as the value; (3) loadProof drops an inlined leaf with an empty value;
   (4) Generate on the empty state panics *)
Theorem C05_pinned_refuted :
     verify B (false, false) true false false false (gen false ex_leaf (nib [31; 16])) (rootB ex_leaf) (nib [31; 16]) v33
     = Err R_NOTFOUND
  /\ verify B (false, false) true false false false (gen true ex_branch (nib [16])) (rootB ex_branch) (nib [16]) v33
     = Err R_MISMATCH
  /\ verify B (false, false) true false false false (gen true ex_branch (nib [16])) (rootB ex_branch) (nib [16]) (B v33)
     = Ok tt
  /\ lookup ex_branch (nibbles_of_bytes (nib [16])) = Some v33
  /\ verify B (false, false) true true false false (gen true ex_empty (nib [1])) (rootB ex_empty) (nib [1]) []
     = Err R_NOTFOUND
  /\ lookup ex_empty (nibbles_of_bytes (nib [1])) = Some []
  /\ generate B false false None [[]] = Panic.
Proof. exact C05_pinned_refuted_holds. Qed.
Print Assumptions C05_pinned_refuted.

