(* C05/Properties.v — property C05 (work in progress) *)
From Common Require Import Bytes Outcome.
From C05 Require Import Model.

Theorem C05_placeholder : R_NOTFOUND <> R_MISMATCH.
Proof. discriminate. Qed.
Print Assumptions C05_placeholder.
