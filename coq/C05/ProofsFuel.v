(* C05/ProofsFuel.v — proof.Verify is total against the root hash of a well-formed state: whatever
   proof items are supplied it returns nil or an error — no panic, and the recursion of loadProof
   never exhausts the fuel S (S (length nodes)) the model gives it.

   Go has no fuel: loadProof recurses once per child found among the items.  The model's fuel is
   enough because every item found under a hash of the state is the encoding of that subtree
   [no_coll], the subtrees on one descent are nested, and nested subtrees have different encodings
   when H does not collide on the strings of the state [inj_on] (ProofsInj.proper_subtree_enc): a
   descent of depth k meets k different items of the list. *)
From Common Require Import Bytes Outcome.
From Coq Require Import Strings.Byte ZifyN ZifyNat ZifyBool.
From TrieCodec Require Import Codec View Db ProofsBasic ProofsHeader ProofsDecode ProofsDb.
From C05 Require Import Model ProofsSound ProofsInj ProofsComplete ProofsRobust.
Local Open Scope N_scope.

Section Fuel.
Variable H : list byte -> list byte.
Hypothesis Hlen : forall x, length (H x) = 32%nat.
Variable st : bool * bool.
Variable dfix : bool.
Variable ifix : bool.

Variable t0 : tnode.
Variable nodes : list (list byte).
Variable m : list (list byte * list byte).
Hypothesis W0 : wf_node t0 = true.
Hypothesis Hinj : inj_on H (strings_of H t0).
Hypothesis Nc0 : no_coll H nodes t0.
Hypothesis Hm : map_ok H nodes m.

Lemma sub_str c : In c (subtrees t0) -> In (encode H c) (strings_of H t0).
Proof. intro Hc. eapply (strings_of_subtree H); [exact Hc|apply strings_of_self]. Qed.

Lemma found_is_subtree c x : In c (subtrees t0) ->
  find_enc m (H (encode H c)) = Some x -> x = encode H c /\ In (encode H c) nodes.
Proof.
  intros Hc Ef. apply find_enc_in in Ef. destruct (Hm _ _ Ef) as [Hk Hin].
  assert (x = encode H c) by (apply Nc0; [assumption|now apply sub_str|congruence]).
  subst x. auto.
Qed.

Lemma lp_children_okerr (rec : pnode -> outcome pnode) : forall cs,
  (forall c, In (Some c) cs -> wf_node c = true /\ In c (subtrees t0)) ->
  (forall c, In (Some c) cs -> (32 <= length (encode H c))%nat -> In (encode H c) nodes ->
             okerr (rec (pnode_of (view H c)))) ->
  okerr (lp_children st dfix ifix rec m
           (map (fun oc => match oc with None => None | Some c => Some (pnode_of c) end)
                (map (vchild H) cs))).
Proof.
  induction cs as [|oc cs IH]; intros Hwf Hrec.
  - exact I.
  - assert (IH' : okerr (lp_children st dfix ifix rec m
              (map (fun oc => match oc with None => None | Some c => Some (pnode_of c) end)
                   (map (vchild H) cs)))).
    { apply IH; intros c Hin; [apply Hwf|apply Hrec]; now right. }
    cbn [map]. destruct oc as [c|]; cbn [vchild].
    + destruct (Hwf c (or_introl eq_refl)) as [Wc Hc].
      destruct (Nat.ltb_spec (length (encode H c)) 32) as [Hs|Hs].
      * destruct (pnode_of_view_mv H c) as (cpk & csv & cihv & ccs & ->).
        cbn [lp_children]. rewrite (find_enc_empty H Hlen nodes m Hm).
        apply okerr_obind; [exact IH'|intros; exact I].
      * rewrite pnode_of_stub. cbn [lp_children].
        destruct (find_enc m (H (encode H c))) as [enc|] eqn:Ef.
        -- destruct (found_is_subtree c enc Hc Ef) as [-> HinN].
           rewrite (decode_encode H Hlen st dfix c Wc).
           apply okerr_obind; [apply Hrec; [now left|assumption|assumption]|].
           intros; apply okerr_obind; [exact IH'|intros; exact I].
        -- apply okerr_obind; [exact IH'|intros; exact I].
    + cbn [lp_children]. apply okerr_obind; [exact IH'|intros; exact I].
Qed.

Theorem load_proof_okerr : forall c, In c (subtrees t0) ->
  forall fuel U, NoDup U ->
  (forall d, In d (proper_subtrees c) -> (32 <= length (encode H d))%nat -> In (encode H d) nodes ->
             In (encode H d) U) ->
  (length U < fuel)%nat ->
  okerr (load_proof st dfix ifix fuel m (pnode_of (view H c))).
Proof.
  induction c as [pk sv mbh cs IH] using tnode_ind'. intros Hc fuel U HU Hcover Hf.
  destruct fuel as [|f]; [lia|].
  pose proof (subtrees_wf H Hlen t0 _ W0 Hc) as W.
  destruct (wf_unfold H Hlen _ _ _ _ W) as (_ & _ & Wsv & _ & Wch).
  destruct cs as [|c0 cs0].
  - destruct sv as [v|]; [|destruct Wsv as [_ Z]; congruence].
    cbn [view view_val pnode_of].
    destruct (pval (Some (if mbh then DVHashed (H v) else DVInline (v, 0)))) as [sv' ihv].
    exact I.
  - rewrite (view_branch H). remember (c0 :: cs0) as cs eqn:Ecs. cbn [pnode_of].
    destruct (pval (view_val H sv mbh)) as [sv' ihv].
    cbn [load_proof].
    destruct (map _ (map (vchild H) cs)) as [|x0 xs0] eqn:Emap.
    { subst cs. discriminate. }
    rewrite <- Emap.
    assert (Hchild : forall ci, In (Some ci) cs -> In ci (subtrees t0) /\ In ci (proper_subtrees (TN pk sv mbh cs))).
    { intros ci Hin. assert (Hp : In ci (proper_subtrees (TN pk sv mbh cs))).
      { cbn [proper_subtrees]. apply in_flat_map. exists (Some ci). split; [assumption|apply subtrees_self]. }
      split; [|assumption]. eapply subtrees_trans; [exact Hc|]. rewrite subtrees_unfold. now right. }
    apply okerr_obind; [|intros; exact I].
    apply lp_children_okerr.
    + intros ci Hin. rewrite Forall_forall in Wch. split; [exact (Wch _ Hin)|apply Hchild, Hin].
    + intros ci Hin Hs HinN. destruct (Hchild ci Hin) as [Hci Hpi].
      pose proof (Hcover ci Hpi Hs HinN) as HinU.
      rewrite Forall_forall in IH.
      apply (IH _ Hin Hci f (remove bytes_eq_dec (encode H ci) U)).
      * now apply NoDup_remove_fn.
      * intros d Hd Hds HdN. apply in_in_remove.
        -- assert (Wci : wf_node ci = true) by (rewrite Forall_forall in Wch; exact (Wch _ Hin)).
           apply (proper_subtree_enc H Hlen ci d Wci); [|assumption].
           intros sx sy Hx Hy. apply Hinj; eapply (strings_of_subtree H); eassumption.
        -- apply Hcover; [|assumption|assumption].
           cbn [proper_subtrees]. apply in_flat_map. exists (Some ci). split; [assumption|].
           rewrite subtrees_unfold. now right.
      * pose proof (remove_length_lt bytes_eq_dec U (encode H ci) HinU). lia.
Qed.

End Fuel.

Section Total.
Variable H : list byte -> list byte.
Hypothesis Hlen : forall x, length (H x) = 32%nat.
Variable st : bool * bool.
Variable dfix : bool.
Variable ifix : bool.

Lemma value_okerr nodes sv mbh sv' ihv (use_db : bool) :
  pval_ok H sv mbh sv' ihv ->
  okerr (match sv' with
         | Some x => if ihv && use_db then hashed_lookup H nodes x else Ok (Some x)
         | None => Ok None
         end).
Proof.
  intro Hp. unfold pval_ok in Hp. destruct sv as [w|].
  - destruct mbh; destruct Hp as [-> ->]; cbn [andb]; [|exact I].
    destruct use_db; [|exact I]. unfold hashed_lookup. rewrite Hlen. exact I.
  - destruct Hp as [-> ->]. exact I.
Qed.

Theorem retrieve_okerr nodes : forall t p key,
  pview H t p -> okerr (retrieve H true true nodes p key).
Proof.
  induction t as [pk sv mbh cs IH] using tnode_ind'. intros p key Hpv.
  inversion Hpv as [pk0 sv0 mbh0 cs0 sv' ihv mv cs' Hval Hcs]; subst.
  destruct cs' as [|c0' cs0'].
  - cbn [retrieve]. destruct (bytes_eqb pk key); [|exact I].
    pose proof (value_okerr nodes sv mbh sv' ihv true Hval) as Hv.
    destruct sv' as [x|]; [|exact I]. now rewrite andb_true_r in Hv.
  - destruct Hcs as [Z|Hf2]; [discriminate|].
    cbn [retrieve].
    destruct (match key with [] => true | _ => false end || bytes_eqb pk key) eqn:Ek.
    + exact (value_okerr nodes sv mbh sv' ihv true Hval).
    + apply orb_false_iff in Ek as [_ Ek].
      destruct (is_prefix pk key) eqn:Ep; cbn [negb]; [|exact I].
      destruct (is_prefix_app _ _ Ep) as [r ->]. rewrite skipn_app_exact.
      destruct r as [|i rest].
      { rewrite app_nil_r in Ek. now rewrite bytes_eqb_refl in Ek. }
      rewrite pick_nth.
      assert (Hnth : pview_child H (nth (N.to_nat (b2n i)) cs None) (nth (N.to_nat (b2n i)) (c0' :: cs0') None)).
      { clear -Hf2. generalize (N.to_nat (b2n i)) as k.
        induction Hf2 as [|a b l l' Hab Hl IHl]; intro k.
        - destruct k; constructor.
        - destruct k; [exact Hab|apply IHl]. }
      set (k := N.to_nat (b2n i)) in *.
      destruct (nth k (c0' :: cs0') None) as [pc|] eqn:Enp; [|exact I].
      inversion Hnth as [|c pc' Hpc Ec Epc]; subst.
      assert (Hin : In (Some c) cs).
      { rewrite Ec. apply nth_In. destruct (Nat.lt_ge_cases k (length cs)); [assumption|].
        rewrite nth_overflow in Ec by assumption. discriminate. }
      rewrite Forall_forall in IH. specialize (IH _ Hin). cbn in IH.
      destruct (_ && _); [exact I|]. now apply IH.
Qed.

Theorem verify_total nodes t key value :
  wf_node t = true -> no_coll H nodes t -> inj_on H (strings_of H t) ->
  okerr (verify H st dfix true ifix true nodes (H (encode H t)) key value).
Proof.
  intros W Nc Hinj. unfold verify.
  assert (Hb : okerr (build_trie H st dfix ifix nodes (H (encode H t)))
               /\ forall p, build_trie H st dfix ifix nodes (H (encode H t)) = Ok p -> pview H t p).
  { unfold build_trie.
    destruct (build_scan H nodes (H (encode H t)) None []) as [root m] eqn:Es.
    destruct (build_scan_ok H nodes nodes (H (encode H t)) None [] root m (incl_refl _)
                            ltac:(intros ? ? []) ltac:(discriminate) Es) as [Hm Hr].
    destruct nodes as [|n0 nodes'] eqn:En; [split; [exact I|discriminate]|].
    rewrite <- En in *.
    destruct root as [e|]; [|split; [exact I|discriminate]].
    destruct (Hr e eq_refl) as [He Hin].
    assert (e = encode H t) by (apply Nc; [assumption|apply strings_of_self|assumption]). subst e.
    rewrite (decode_encode H Hlen st dfix t W). split.
    - apply (load_proof_okerr H Hlen st dfix ifix t nodes m W Hinj Nc Hm t (subtrees_self t)
               (S (S (length nodes))) (nodup bytes_eq_dec nodes)).
      + apply NoDup_nodup.
      + intros d _ _ Hd. now apply nodup_In.
      + assert (Hi : incl (nodup bytes_eq_dec nodes) nodes) by (intros z Hz; now apply nodup_In in Hz).
        pose proof (NoDup_incl_length (NoDup_nodup bytes_eq_dec nodes) Hi). lia.
    - intros p Eb. exact (load_proof_pview H Hlen st dfix ifix nodes m Hm _ t p W Nc Eb). }
  destruct Hb as [Hb1 Hb2].
  apply okerr_obind; [exact Hb1|].
  intros p Eb. apply okerr_obind; [apply (retrieve_okerr nodes t), Hb2, Eb|].
  intros got _. destruct got as [v|]; [|exact I].
  destruct value; [exact I|]. destruct (bytes_eqb _ _); exact I.
Qed.

End Total.
