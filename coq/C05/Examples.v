(* C05/Examples.v — concrete states (Blake2b-256) and the evaluated facts about them that
   Properties.v quotes.  Kept apart so that re-checking Properties.v does not recompute the hashes. *)
From Common Require Import Bytes Outcome Blake2b.
From TrieCodec Require Import Codec View Db ProofsDecode ProofsDb.
From C05 Require Import Model.
Local Open Scope N_scope.

Definition nib (l : list N) : list byte := map n2b l.
Definition v33 : list byte := repeat (n2b 7) 33.
Definition none16 : list (option tnode) := repeat None 16.
Definition at_ (i : nat) (c : tnode) (l : list (option tnode)) : list (option tnode) :=
  firstn i l ++ Some c :: skipn (S i) l.

(* V1 state {0x1f10 -> 33 bytes}: a leaf whose value is stored by hash *)
Definition ex_leaf : tnode := TN (nib [1; 15; 1; 0]) (Some v33) true [].
(* V1 state {0x10 -> 33 bytes, 0x1001 -> 01}: a branch whose value is stored by hash *)
Definition ex_branch : tnode :=
  TN (nib [1; 0]) (Some v33) true (at_ 0 (TN (nib [1]) (Some (nib [1])) false []) none16).
(* {0x01 -> empty, 0x02 -> 01}: an inlined leaf with an empty value *)
Definition ex_empty : tnode :=
  TN (nib [0]) None false
     (at_ 1 (TN [] (Some []) false []) (at_ 2 (TN [] (Some (nib [1])) false []) none16)).

Definition B := blake2b_256.
Definition rootB (t : tnode) : list byte := B (encode B t).
Definition gen (vfix : bool) (t : tnode) (k : list byte) : list (list byte) :=
  match generate B vfix true (Some t) [k] with Ok l => l | _ => [] end.

Lemma C05_nonvacuous_holds :
     wf_node ex_leaf = true /\ wf_node ex_branch = true /\ wf_node ex_empty = true
  /\ length (gen true ex_leaf (nib [31; 16])) = 2%nat
  /\ verify B (false, false) true true true true (gen true ex_leaf (nib [31; 16])) (rootB ex_leaf) (nib [31; 16]) v33 = Ok tt
  /\ verify B (false, false) true true true true (gen true ex_branch (nib [16])) (rootB ex_branch) (nib [16]) v33 = Ok tt
  /\ verify B (false, false) true true true true (gen true ex_empty (nib [1])) (rootB ex_empty) (nib [1]) [] = Ok tt
  /\ verify B (false, false) true true true true (gen true ex_leaf (nib [31; 16])) (rootB ex_leaf) (nib [31; 16]) (nib [9]) = Err R_MISMATCH
  /\ verify B (false, false) true true true true (gen true ex_leaf (nib [31; 16])) (rootB ex_leaf) (nib [31; 17]) v33 = Err R_NOTFOUND.
Proof. repeat split; vm_compute; reflexivity. Qed.

Lemma C05_pinned_refuted_holds :
     verify B (false, false) true false false false (gen false ex_leaf (nib [31; 16])) (rootB ex_leaf) (nib [31; 16]) v33
     = Err R_NOTFOUND
  /\ verify B (false, false) true false false false (gen true ex_branch (nib [16])) (rootB ex_branch) (nib [16]) v33
     = Err R_MISMATCH
  /\ verify B (false, false) true false false false (gen true ex_branch (nib [16])) (rootB ex_branch) (nib [16]) (B v33)
     = Ok tt
  /\ lookup ex_branch (nibbles_of_bytes (nib [16])) = Some v33
  /\ verify B (false, false) true true false false (gen true ex_empty (nib [1])) (rootB ex_empty) (nib [1]) []
     = Err R_NOTFOUND
  /\ lookup ex_empty (nibbles_of_bytes (nib [1])) = Some []
  /\ generate B false false None [[]] = Panic.
Proof. repeat split; vm_compute; reflexivity. Qed.

