(* C05/ProofsComplete.v — completeness of read proofs: with the proof generated for a key set, Verify
   confirms every requested key that is present, with its value (and with the empty value). *)
From Common Require Import Bytes Outcome.
From Coq Require Import Strings.Byte ZifyN ZifyNat ZifyBool.
From TrieCodec Require Import Codec View Db ProofsBasic ProofsHeader ProofsDecode ProofsDb.
From C05 Require Import Model ProofsSound ProofsInj ProofsGen.
Local Open Scope N_scope.

Definition bytes_eq_dec : forall a b : list byte, {a = b} + {a <> b} := list_eq_dec Byte.byte_eq_dec.

Lemma NoDup_remove_fn (x : list byte) l : NoDup l -> NoDup (remove bytes_eq_dec x l).
Proof.
  induction 1 as [|y l Hy Hl IH]; [constructor|]. cbn [remove].
  destruct (bytes_eq_dec x y); [assumption|]. constructor; [|assumption].
  intro Hin. apply in_remove in Hin as [Hin _]. contradiction.
Qed.

Section Complete.
Variable H : list byte -> list byte.
Hypothesis Hlen : forall x, length (H x) = 32%nat.
Variable st : bool * bool.
Variable dfix : bool.
Variable gx : bool.

(* ------------------------------------------------------------------ the scan of buildTrie *)
Lemma build_scan_some nodes : forall rh r0 m root' m',
  build_scan H nodes rh (Some r0) m = (root', m') ->
  root' = Some r0 /\ incl m m' /\ forall e, In e nodes -> In (H e, e) m'.
Proof.
  induction nodes as [|e nodes IH]; intros rh r0 m root' m' E.
  - cbn in E. inversion E; subst. repeat split; [apply incl_refl|contradiction].
  - cbn [build_scan] in E. destruct (IH _ _ _ _ _ E) as (R & I1 & I2). repeat split; [assumption| |].
    + intros x Hx. apply I1. apply in_or_app. now left.
    + intros x [<-|Hx]; [apply I1; apply in_or_app; right; now left|now apply I2].
Qed.

Lemma build_scan_none nodes : forall rh m root' m',
  build_scan H nodes rh None m = (root', m') ->
  incl m m' /\
  match root' with
  | None => forall e, In e nodes -> H e <> rh
  | Some e0 => In e0 nodes /\ H e0 = rh /\ forall e, In e nodes -> e <> e0 -> In (H e, e) m'
  end.
Proof.
  induction nodes as [|e nodes IH]; intros rh m root' m' E.
  - cbn in E. inversion E; subst. split; [apply incl_refl|contradiction].
  - cbn [build_scan] in E. destruct (bytes_eqb_spec (H e) rh) as [Eh|Nh].
    + destruct (build_scan_some _ _ _ _ _ _ E) as (-> & I1 & I2). split; [assumption|].
      repeat split; [now left|assumption|].
      intros x [<-|Hx] Hne; [congruence|now apply I2].
    + destruct (IH _ _ _ _ E) as (I1 & I2). split.
      * intros x Hx. apply I1. apply in_or_app. now left.
      * destruct root' as [e0|].
        -- destruct I2 as (A & B & C). repeat split; [now right|assumption|].
           intros x [<-|Hx] Hne; [apply I1; apply in_or_app; right; now left|now apply C].
        -- intros x [<-|Hx]; [assumption|now apply I2].
Qed.

Lemma find_enc_some m d e : In (d, e) m -> exists x, find_enc m d = Some x.
Proof.
  induction m as [|[k y] m IH]; [contradiction|]. intro Hin. cbn [find_enc].
  destruct (find_enc m d) as [x|] eqn:Ef; [now exists x|].
  destruct Hin as [Hin|Hin].
  - inversion Hin; subst. rewrite bytes_eqb_refl. now exists e.
  - destruct (IH Hin) as [x Hx]. discriminate.
Qed.

Lemma proofdb_get_some nodes v : In v nodes -> exists x, proofdb_get H nodes (H v) = Some x.
Proof.
  induction nodes as [|e nodes IH]; [contradiction|]. intro Hin. cbn [proofdb_get].
  destruct (proofdb_get H nodes (H v)) as [x|] eqn:Ef; [now exists x|].
  destruct Hin as [->|Hin].
  - rewrite bytes_eqb_refl. now exists v.
  - destruct (IH Hin) as [x Hx]. discriminate.
Qed.

(* ------------------------------------------------------------------ the setting: one trie, one proof *)
Variable t0 : tnode.
Variable N : list (list byte).
Variable m : list (list byte * list byte).
Hypothesis W0 : wf_node t0 = true.
Hypothesis Hinj : inj_on H (strings_of H t0).
Hypothesis HN : incl N (strings_of H t0).
Hypothesis Hm_ok : map_ok H N m.
Hypothesis Hm_has : forall e, In e N -> e <> encode H t0 -> In (H e, e) m.

Lemma sub_string c : In c (subtrees t0) -> In (encode H c) (strings_of H t0).
Proof. intro Hc. eapply (strings_of_subtree H); [exact Hc|apply strings_of_self]. Qed.

Lemma find_hashed c x : In c (subtrees t0) -> find_enc m (H (encode H c)) = Some x -> x = encode H c.
Proof.
  intros Hc Ef. apply find_enc_in in Ef. destruct (Hm_ok _ _ Ef) as [Hk Hin].
  apply Hinj; [apply HN, Hin|now apply sub_string|congruence].
Qed.

Lemma find_enc_nil : find_enc m [] = None.
Proof.
  destruct (find_enc m []) as [x|] eqn:Ef; [|reflexivity].
  apply find_enc_in in Ef. destruct (Hm_ok _ _ Ef) as [Hk _].
  apply (f_equal (@length byte)) in Hk. rewrite Hlen in Hk. discriminate.
Qed.

Lemma proper_in_sub c d : In c (subtrees t0) -> In d (proper_subtrees c) -> In d (proper_subtrees t0) \/ False.
Proof.
  intros Hc Hd. left. rewrite subtrees_unfold in Hc. destruct Hc as [<-|Hc]; [assumption|].
  assert (Hds : In d (subtrees c)) by (rewrite subtrees_unfold; now right).
  destruct t0 as [pk sv mbh cs]. cbn [proper_subtrees] in *.
  apply in_flat_map in Hc as ([ch|] & Hch & Hc); [|contradiction].
  apply in_flat_map. exists (Some ch). split; [assumption|].
  eapply subtrees_trans; eassumption.
Qed.

(* ------------------------------------------------------------------ values *)
Lemma value_ok pk sv mbh cs v (use_db : bool) :
  In (TN pk sv mbh cs) (subtrees t0) -> sv = Some v -> (mbh = true -> In v N) ->
  (mbh = true -> use_db = true) ->
  match fst (pval (view_val H sv mbh)) with
  | Some x => if snd (pval (view_val H sv mbh)) && use_db then hashed_lookup H N x else Ok (Some x)
  | None => Ok None
  end = Ok (Some v).
Proof.
  intros Hc -> Hv Hu. cbn [view_val]. destruct mbh; cbn [pval fst snd].
  - rewrite (Hu eq_refl). cbn [andb]. unfold hashed_lookup. rewrite Hlen, Nat.eqb_refl.
    destruct (proofdb_get_some N v (Hv eq_refl)) as [x Hx]. rewrite Hx.
    apply proofdb_get_in in Hx as [Hin Hh].
    assert (x = v).
    { apply Hinj; [apply HN, Hin| |assumption].
      eapply (strings_of_subtree H); [exact Hc|]. cbn [strings_of]. right. apply in_or_app. left. now left. }
    now subst.
  - cbn [andb]. unfold zb_bytes. cbn. now rewrite app_nil_r.
Qed.

(* ------------------------------------------------------------------ shape of the image of a node *)
Lemma pnode_of_view_shape c : wf_node c = true ->
  exists cs'', pnode_of (view H c)
               = PN (t_pk c) (fst (pval (view_val H (t_sv c) (t_mbh c)))) (snd (pval (view_val H (t_sv c) (t_mbh c)))) [] cs''
               /\ (t_cs c = [] -> cs'' = [])
               /\ (t_cs c <> [] -> cs'' = map (fun oc => match oc with None => None | Some d => Some (pnode_of d) end)
                                              (map (vchild H) (t_cs c))).
Proof.
  intro W. destruct c as [pk sv mbh [|c0 cs0]].
  - destruct (wf_unfold H Hlen _ _ _ _ W) as (_ & _ & Wsv & _).
    cbn [view t_pk t_sv t_mbh t_cs]. exists []. split; [|split; [auto|congruence]].
    destruct sv as [v|]; cbn [view_val pnode_of]; [|destruct Wsv as [_ Z]; congruence].
    destruct (pval (Some (if mbh then DVHashed (H v) else DVInline (v, 0)))); reflexivity.
  - rewrite (view_branch H). cbn [pnode_of t_pk t_sv t_mbh t_cs].
    eexists. split; [|split; [discriminate|reflexivity]].
    destruct (pval (view_val H sv mbh)); reflexivity.
Qed.

(* ------------------------------------------------------------------ what a loaded node must satisfy *)
Definition Q (c : tnode) (p : pnode) : Prop :=
  (exists sv' ihv mv cs'', p = PN (t_pk c) sv' ihv mv cs'') /\
  forall r key v, covers H N r c key -> lookup c key = Some v ->
                  retrieve H true gx N p key = Ok (Some v).

Lemma lookup_nil_pk c v : lookup c [] = Some v -> t_pk c = [].
Proof.
  destruct c as [pk sv mbh cs]. intro Hl.
  destruct (lookup_cases _ _ _ _ _ _ Hl) as [[Ek _]|(_ & i & rest & ch & E & _)].
  - apply bytes_eqb_eq in Ek. exact Ek.
  - destruct pk; discriminate.
Qed.

Lemma nth_map_opt {A B} (f : A -> B) l k :
  nth k (map (fun oc => match oc with None => None | Some d => Some (f d) end) l) None
  = match nth k l None with None => None | Some d => Some (f d) end.
Proof. revert k; induction l as [|x l IH]; intro k; destruct k; cbn; auto. Qed.

(* retrieval in a node whose children satisfy Q where it matters *)
Lemma retrieve_node pk sv mbh cs cs' :
  In (TN pk sv mbh cs) (subtrees t0) ->
  (cs' = [] \/ (forall k ci, nth k cs None = Some ci ->
                  forall rest v, covers H N false ci rest -> lookup ci rest = Some v ->
                  exists pi, nth k cs' None = Some pi /\ Q ci pi)) ->
  (forall r key v, covers H N r (TN pk sv mbh cs) key -> lookup (TN pk sv mbh cs) key = Some v ->
     bytes_eqb pk key = false -> cs' <> []) ->
  forall r key v, covers H N r (TN pk sv mbh cs) key -> lookup (TN pk sv mbh cs) key = Some v ->
  retrieve H true gx N
    (PN pk (fst (pval (view_val H sv mbh))) (snd (pval (view_val H sv mbh))) [] cs') key = Ok (Some v).
Proof.
  intros Hc Hch Hne r key v Hcov Hl.
  destruct (lookup_cases _ _ _ _ _ _ Hl) as [[Ek Hsv]|(Ek & i & rest & ci & -> & En & Hlc)].
  - cbn [covers] in Hcov. rewrite Ek in Hcov. destruct Hcov as [_ Hv].
    pose proof (value_ok pk sv mbh cs v true Hc Hsv (fun Hm => Hv v Hm Hsv) (fun _ => eq_refl)) as Hval.
    destruct cs' as [|c0' cs0']; cbn [retrieve]; rewrite Ek.
    + destruct (fst (pval (view_val H sv mbh))) as [x|]; [|exact Hval].
      rewrite andb_true_r in Hval. exact Hval.
    + rewrite orb_true_r. exact Hval.
  - specialize (Hne r _ v Hcov Hl Ek).
    cbn [covers] in Hcov. rewrite Ek, is_prefix_app_true, skipn_app_exact, pick_nth, En in Hcov.
    destruct Hcov as [_ Hcc].
    destruct Hch as [Z|Hch]; [contradiction|].
    destruct (Hch _ _ En rest v Hcc Hlc) as (pi & Enp & (Hshape & Hret)).
    destruct cs' as [|c0' cs0']; [contradiction|]. cbn [retrieve].
    assert (Hk : match pk ++ i :: rest with [] => true | _ => false end = false) by (now destruct pk).
    rewrite Hk, Ek. cbn [orb]. rewrite is_prefix_app_true. cbn [negb]. rewrite skipn_app_exact.
    rewrite pick_nth, Enp.
    destruct Hshape as (sv' & ihv & mv & cs'' & ->).
    assert (Hg : gx && match rest with [] => true | _ => false end
                 && match PN (t_pk ci) sv' ihv mv cs'' with PN [] _ _ _ _ => false | _ => true end = false).
    { destruct rest as [|x rest']; [|now rewrite andb_false_r].
      rewrite (lookup_nil_pk ci v Hlc). now rewrite andb_false_r. }
    rewrite Hg. apply (Hret false); assumption.
Qed.

(* a fully inlined subtree *)
Lemma Q_inline : forall c, In c (subtrees t0) -> wf_node c = true ->
  (length (encode H c) < 32)%nat -> Q c (pnode_of (view H c)).
Proof.
  induction c as [pk sv mbh cs IH] using tnode_ind'. intros Hc W Hs.
  destruct (pnode_of_view_shape (TN pk sv mbh cs) W) as (cs'' & Esh & Hnil & Hcons).
  cbn [t_pk t_sv t_mbh t_cs] in *. split; [rewrite Esh; eauto|].
  rewrite Esh. destruct (small_unfold H Hlen _ _ _ _ W Hs) as [Hmbh Hchs].
  destruct (wf_unfold H Hlen _ _ _ _ W) as (_ & _ & _ & _ & Wch).
  apply (retrieve_node pk sv mbh cs cs'' Hc).
  - destruct cs as [|c0 cs0]; [left; now apply Hnil|right].
    rewrite (Hcons ltac:(discriminate)).
    intros k ci En rest v _ _. pose proof (nth_some_in _ _ _ En) as Hin.
    exists (pnode_of (view H ci)). split.
    + rewrite nth_map_opt, nth_map_vchild, En. cbn [vchild].
      destruct (Nat.ltb_spec (length (encode H ci)) 32) as [_|Hge]; [reflexivity|].
      specialize (Hchs ci Hin). lia.
    + rewrite Forall_forall in IH, Wch. apply (IH _ Hin).
      * eapply subtrees_trans; [exact Hc|]. rewrite subtrees_unfold. right. cbn [proper_subtrees].
        apply in_flat_map. exists (Some ci). split; [assumption|apply subtrees_self].
      * exact (Wch _ Hin).
      * exact (Hchs ci Hin).
  - intros r key v _ Hl Ek. destruct (lookup_cases _ _ _ _ _ _ Hl) as [[Ek' _]|(_ & i & rest & ci & _ & En & _)]; [congruence|].
    destruct cs as [|c0 cs0]; [now destruct (N.to_nat (b2n i))|].
    rewrite (Hcons ltac:(discriminate)). discriminate.
Qed.

(* ------------------------------------------------------------------ the children loop *)
Definition crel (oc : option tnode) (op : option pnode) : Prop :=
  match oc with
  | None => op = None
  | Some c =>
    if (length (encode H c) <? 32)%nat then op = Some (pnode_of (view H c))
    else (find_enc m (H (encode H c)) = None /\ op = None) \/ (exists p, op = Some p /\ Q c p)
  end.

Lemma lp_children_complete (rec : pnode -> outcome pnode) : forall cs,
  (forall c, In (Some c) cs -> wf_node c = true /\ In c (subtrees t0)) ->
  (forall c, In (Some c) cs -> (32 <= length (encode H c))%nat ->
             find_enc m (H (encode H c)) <> None ->
             exists p, rec (pnode_of (view H c)) = Ok p /\ Q c p) ->
  exists cs', lp_children st dfix true rec m
                (map (fun oc => match oc with None => None | Some d => Some (pnode_of d) end) (map (vchild H) cs))
              = Ok cs' /\ Forall2 crel cs cs'.
Proof.
  induction cs as [|oc cs IH]; intros Hwf Hrec.
  - exists []. split; [reflexivity|constructor].
  - destruct IH as (cs' & El & Hf2).
    { intros c Hin. apply Hwf. now right. }
    { intros c Hin. apply Hrec. now right. }
    cbn [map]. destruct oc as [c|]; cbn [vchild].
    + destruct (Hwf c (or_introl eq_refl)) as [Wc Hc].
      destruct (Nat.ltb_spec (length (encode H c)) 32) as [Hs|Hs].
      * destruct (pnode_of_view_shape c Wc) as (cs'' & Esh & _).
        rewrite Esh. cbn [lp_children]. rewrite find_enc_nil, El. cbn [obind].
        eexists. split; [reflexivity|]. constructor; [|assumption].
        cbn [crel]. destruct (Nat.ltb_spec (length (encode H c)) 32); [now rewrite Esh|lia].
      * rewrite pnode_of_stub. cbn [lp_children].
        destruct (find_enc m (H (encode H c))) as [x|] eqn:Ef.
        -- rewrite (find_hashed c x Hc Ef). rewrite (decode_encode H Hlen st dfix c Wc).
           destruct (Hrec c (or_introl eq_refl) Hs) as (p & Er & Hq); [congruence|].
           rewrite Er, El. cbn [obind]. eexists. split; [reflexivity|]. constructor; [|assumption].
           cbn [crel]. destruct (Nat.ltb_spec (length (encode H c)) 32); [lia|]. right. eauto.
        -- rewrite El. cbn [obind].
           assert (Hne : match H (encode H c) with [] => true | _ :: _ => false end = false).
           { pose proof (Hlen (encode H c)). destruct (H (encode H c)); [discriminate|reflexivity]. }
           rewrite Hne. eexists. split; [reflexivity|]. constructor; [|assumption].
           cbn [crel]. destruct (Nat.ltb_spec (length (encode H c)) 32); [lia|]. left. auto.
    + cbn [lp_children]. rewrite El. cbn [obind]. eexists. split; [reflexivity|].
      constructor; [reflexivity|assumption].
Qed.

Lemma Forall2_nth {A B} (R : A -> B -> Prop) da db l l' : Forall2 R l l' -> R da db ->
  forall k, R (nth k l da) (nth k l' db).
Proof.
  intros Hf Hd. induction Hf as [|a b l l' Hab Hl IH]; intro k; destruct k; cbn; auto.
Qed.

(* ------------------------------------------------------------------ loadProof rebuilds the paths *)
Theorem lp_complete : forall c, In c (subtrees t0) ->
  forall fuel U, NoDup U ->
  (forall d, In d (proper_subtrees c) -> (32 <= length (encode H d))%nat -> In (encode H d) N -> In (encode H d) U) ->
  (length U < fuel)%nat ->
  exists p, load_proof st dfix true fuel m (pnode_of (view H c)) = Ok p /\ Q c p.
Proof.
  induction c as [pk sv mbh cs IH] using tnode_ind'. intros Hc fuel U HU Hcover Hf.
  destruct fuel as [|f]; [lia|].
  pose proof (subtrees_wf H Hlen t0 _ W0 Hc) as W.
  destruct (wf_unfold H Hlen _ _ _ _ W) as (_ & _ & Wsv & _ & Wch).
  destruct (pnode_of_view_shape (TN pk sv mbh cs) W) as (cs'' & Esh & Hnil & Hcons).
  cbn [t_pk t_sv t_mbh t_cs] in *. rewrite Esh.
  destruct cs as [|c0 cs0].
  - rewrite (Hnil eq_refl). cbn [load_proof]. eexists. split; [reflexivity|].
    split; [eauto|].
    apply (retrieve_node pk sv mbh [] [] Hc); [now left|].
    intros r key v _ Hl Ek. destruct (lookup_cases _ _ _ _ _ _ Hl) as [[Ek' _]|(_ & i & rest & ci & _ & En & _)]; [congruence|].
    now destruct (N.to_nat (b2n i)).
  - remember (c0 :: cs0) as cs eqn:Ecs.
    assert (Hcsne : cs <> []) by (subst; discriminate).
    rewrite (Hcons Hcsne).
    assert (Hchild : forall ci, In (Some ci) cs -> In ci (subtrees t0) /\ In ci (proper_subtrees (TN pk sv mbh cs))).
    { intros ci Hin. assert (Hp : In ci (proper_subtrees (TN pk sv mbh cs))).
      { cbn [proper_subtrees]. apply in_flat_map. exists (Some ci). split; [assumption|apply subtrees_self]. }
      split; [|assumption]. eapply subtrees_trans; [exact Hc|]. rewrite subtrees_unfold. now right. }
    destruct (lp_children_complete (load_proof st dfix true f m) cs) as (cs' & El & Hf2).
    { intros ci Hin. rewrite Forall_forall in Wch. split; [exact (Wch _ Hin)|apply Hchild, Hin]. }
    { intros ci Hin Hs Hfound. destruct (Hchild ci Hin) as [Hci Hpi].
      destruct (find_enc m (H (encode H ci))) as [x|] eqn:Ef; [|congruence].
      pose proof (find_hashed ci x Hci Ef) as Hx. subst x.
      apply find_enc_in in Ef. destruct (Hm_ok _ _ Ef) as [_ HinN].
      pose proof (Hcover ci Hpi Hs HinN) as HinU.
      rewrite Forall_forall in IH.
      apply (IH _ Hin Hci f (remove bytes_eq_dec (encode H ci) U)).
      - now apply NoDup_remove_fn.
      - intros d Hd Hds HdN. apply in_in_remove.
        + assert (Wci : wf_node ci = true) by (rewrite Forall_forall in Wch; exact (Wch _ Hin)).
          apply (proper_subtree_enc H Hlen ci d Wci); [|assumption].
          intros x y Hx Hy. apply Hinj; eapply (strings_of_subtree H); eassumption.
        + apply Hcover; [|assumption|assumption].
          cbn [proper_subtrees]. apply in_flat_map. exists (Some ci). split; [assumption|].
          rewrite subtrees_unfold. now right.
      - pose proof (remove_length_lt bytes_eq_dec U (encode H ci) HinU). lia. }
    cbn [load_proof].
    assert (Hmapne : exists x xs, map (fun oc => match oc with None => None | Some d => Some (pnode_of d) end)
                                      (map (vchild H) cs) = x :: xs).
    { subst cs. cbn [map]. eauto. }
    destruct Hmapne as (x0 & xs0 & Emap). rewrite Emap. rewrite <- Emap. rewrite El. cbn [obind].
    eexists. split; [reflexivity|]. split; [eauto|].
    apply (retrieve_node pk sv mbh cs _ Hc).
    + destruct (has_child cs') eqn:Eh; [right|now left].
      intros k ci En rest v Hcov Hl.
      pose proof (nth_some_in _ _ _ En) as Hin. destruct (Hchild ci Hin) as [Hci Hpi].
      pose proof (Forall2_nth crel None None cs cs' Hf2 eq_refl k) as Hrel. rewrite En in Hrel. cbn [crel] in Hrel.
      destruct (Nat.ltb_spec (length (encode H ci)) 32) as [Hs|Hs].
      * exists (pnode_of (view H ci)). split; [assumption|].
        rewrite Forall_forall in Wch. apply Q_inline; [assumption|exact (Wch _ Hin)|assumption].
      * destruct Hrel as [[Hnone _]|(p & Ep & Hq)]; [|eauto].
        exfalso. destruct ci as [cpk csv cmbh ccs]. cbn [covers] in Hcov. destruct Hcov as [Hcv _].
        pose proof (Hcv (or_intror Hs)) as HinN.
        assert (Hne0 : encode H (TN cpk csv cmbh ccs) <> encode H t0).
        { destruct (proper_in_sub _ _ Hc Hpi) as [Hp0|[]].
          apply (proper_subtree_enc H Hlen t0 _ W0 Hinj Hp0). }
        destruct (find_enc_some m _ _ (Hm_has _ HinN Hne0)) as [x Hx]. congruence.
    + intros r key v Hcov Hl Ek.
      destruct (lookup_cases _ _ _ _ _ _ Hl) as [[Ek' _]|(_ & i & rest & ci & -> & En & Hlc)]; [congruence|].
      cbn [covers] in Hcov. rewrite Ek, is_prefix_app_true, skipn_app_exact, pick_nth, En in Hcov.
      destruct Hcov as [_ Hcc].
      pose proof (nth_some_in _ _ _ En) as Hin. destruct (Hchild ci Hin) as [Hci Hpi].
      pose proof (Forall2_nth crel None None cs cs' Hf2 eq_refl (N.to_nat (b2n i))) as Hrel.
      rewrite En in Hrel. cbn [crel] in Hrel.
      assert (Hsome : exists pi, nth (N.to_nat (b2n i)) cs' None = Some pi).
      { destruct (Nat.ltb_spec (length (encode H ci)) 32) as [Hs|Hs]; [eauto|].
        destruct Hrel as [[Hnone _]|(p & Ep & _)]; [|eauto].
        exfalso. destruct ci as [cpk csv cmbh ccs]. cbn [covers] in Hcc. destruct Hcc as [Hcv _].
        pose proof (Hcv (or_intror Hs)) as HinN.
        assert (Hne0 : encode H (TN cpk csv cmbh ccs) <> encode H t0).
        { destruct (proper_in_sub _ _ Hc Hpi) as [Hp0|[]].
          apply (proper_subtree_enc H Hlen t0 _ W0 Hinj Hp0). }
        destruct (find_enc_some m _ _ (Hm_has _ HinN Hne0)) as [x Hx]. congruence. }
      destruct Hsome as [pi Epi].
      assert (Hhc : has_child cs' = true).
      { unfold has_child. apply existsb_exists. exists (Some pi). split; [|reflexivity].
        rewrite <- Epi. apply nth_In. destruct (Nat.lt_ge_cases (N.to_nat (b2n i)) (length cs')); [assumption|].
        rewrite nth_overflow in Epi by assumption. discriminate. }
      rewrite Hhc. intro Z. rewrite Z in Epi. now destruct (N.to_nat (b2n i)).
Qed.

End Complete.

(* ------------------------------------------------------------------ Verify on a generated proof *)
Section VerifyComplete.
Variable H : list byte -> list byte.
Hypothesis Hlen : forall x, length (H x) = 32%nat.
Variable st : bool * bool.
Variable dfix : bool.
Variable gx : bool.

Lemma build_trie_nonempty ifix N rh : N <> [] ->
  build_trie H st dfix ifix N rh =
  let '(root, m) := build_scan H N rh None [] in
  match root with
  | None => Err R_NOROOT
  | Some e =>
    match decode st dfix e with
    | Ok (Some d) => load_proof st dfix ifix (S (S (length N))) m (pnode_of d)
    | Ok None => Panic
    | Err _ => Err R_DECODE
    | Panic => Panic
    | OutOfFuel => OutOfFuel
    end
  end.
Proof. destruct N; [congruence|reflexivity]. Qed.

Theorem verify_covered t N key v value :
  wf_node t = true -> inj_on H (strings_of H t) -> incl N (strings_of H t) ->
  covers H N true t (nibbles_of_bytes key) ->
  lookup t (nibbles_of_bytes key) = Some v -> (value = v \/ value = []) ->
  verify H st dfix true true gx N (H (encode H t)) key value = Ok tt.
Proof.
  intros W Hinj HN Hcov Hl Hval. unfold verify.
  assert (HtN : In (encode H t) N).
  { destruct t as [pk sv mbh cs]. cbn [covers] in Hcov. destruct Hcov as [Hc _]. apply Hc. now left. }
  rewrite build_trie_nonempty by (intros ->; contradiction).
  destruct (build_scan H N (H (encode H t)) None []) as [root m] eqn:Es.
  destruct (build_scan_ok H N N (H (encode H t)) None [] root m (incl_refl _)
                          ltac:(intros ? ? []) ltac:(discriminate) Es) as [Hm _].
  destruct (build_scan_none H N _ _ _ _ Es) as [_ Hroot].
  destruct root as [e0|].
  2:{ exfalso. exact (Hroot _ HtN eq_refl). }
  destruct Hroot as (He0 & Hh0 & Hhas).
  assert (e0 = encode H t) by (apply Hinj; [apply HN, He0|apply strings_of_self|assumption]). subst e0.
  rewrite (decode_encode H Hlen st dfix t W).
  destruct (lp_complete H Hlen st dfix gx t N m W Hinj HN Hm Hhas t (subtrees_self t)
              (S (S (length N))) (nodup bytes_eq_dec N)) as (p & Ep & (_ & Hret)).
  - apply NoDup_nodup.
  - intros d _ _ Hd. now apply nodup_In.
  - assert (Hi : incl (nodup bytes_eq_dec N) N) by (intros x Hx; now apply nodup_In in Hx).
    pose proof (NoDup_incl_length (NoDup_nodup bytes_eq_dec N) Hi) as Hle. lia.
  - rewrite Ep. cbn [obind].
    rewrite (Hret true _ v Hcov Hl). cbn [obind].
    destruct Hval as [-> | ->]; [|reflexivity].
    destruct v as [|b v']; [reflexivity|]. now rewrite bytes_eqb_refl.
Qed.

Theorem verify_generated t ks N k v value :
  wf_node t = true -> inj_on H (strings_of H t) ->
  generate H true true (Some t) ks = Ok N -> In k ks ->
  lookup t (nibbles_of_bytes k) = Some v -> (value = v \/ value = []) ->
  verify H st dfix true true gx N (H (encode H t)) k value = Ok tt.
Proof.
  intros W Hinj Eg Hk Hl Hval.
  destruct (generate_covers H Hlen t ks N k v Hinj Eg Hk Hl) as [HN Hcov].
  now apply (verify_covered t N k v value).
Qed.

End VerifyComplete.
