(* C05/Model.v — executable model of pkg/trie/inmemory/proof (definitions only).

   generate : proof.Generate = InMemoryTrie.Load from the database, then walkRoot / walk for every
              key, deduplicated by Merkle value.
   verify   : proof.Verify = db.NewMemoryDBFromProof, buildTrie, loadProof, InMemoryTrie.Get
              (retrieve / retrieveFromLeaf / retrieveFromBranch of pkg/trie/inmemory), the value
              comparison.

   Switches (pinned tree = false):
     vfix  : fixes/C05-1-generate-hashed-values.patch — the raw value of a hashed (V1) value is
             shipped with the proof (as an item addressed by its hash)
     bfix  : fixes/C05-2-branch-hashed-value.patch — retrieveFromBranch resolves a hashed value
             like retrieveFromLeaf does
     ifix  : fixes/C05-3-loadproof-inlined-empty-value.patch — loadProof recognises an inlined
             child by its missing Merkle value, not by "has a non-empty value or children"
     rfix  : fixes/C05-4-rootnode-empty-trie.patch — RootNode() of the empty trie is nil
     gx    : fixes/C02-get-exhausted-key-nested.patch of agent trie-core (probed by the harness) *)
From Common Require Import Bytes Outcome Blake2b.
From Coq Require Import Strings.Byte.
From TrieCodec Require Export Codec View Db.
Local Open Scope N_scope.

Definition hash256 : list byte -> list byte := blake2b_256.

(* result classes of Generate / Verify *)
Definition R_KEYNOTFOUND : nat := 30.   (* proof.ErrKeyNotFound (Generate) *)
Definition R_LOAD        : nat := 31.   (* loading trie failed *)
Definition R_NOTFOUND    : nat := 40.   (* ErrKeyNotFoundInProofTrie *)
Definition R_MISMATCH    : nat := 41.   (* ErrValueMismatchProofTrie *)
Definition R_EMPTYPROOF  : nat := 42.   (* ErrEmptyProof *)
Definition R_NOROOT      : nat := 43.   (* ErrRootNodeNotFound *)
Definition R_DECODE      : nat := 44.   (* a proof node does not decode *)

(* ------------------------------------------------------------------ Generate *)
Section Gen.
Variable H : list byte -> list byte.
Variable vfix : bool.

(* what a visited node contributes: its encoding (root: always; others: when >= 32 bytes) and,
   with vfix, the raw value when the node stores only its hash and the node is the one searched *)
Definition found_extra (n : tnode) : list (list byte) :=
  match n with
  | TN _ (Some v) true _ => if vfix then [v] else []
  | _ => []
  end.

Fixpoint walk (is_root : bool) (n : tnode) (key : list byte) : outcome (list (list byte)) :=
  match n with
  | TN pk sv mbh cs =>
    let enc := encode H n in
    let here := if is_root || negb (length enc <? 32)%nat then [enc] else [] in
    if match key with [] => true | _ => false end || bytes_eqb pk key then Ok (here ++ found_extra n)
    else match cs with
         | [] => Err R_KEYNOTFOUND
         | _ =>
           if negb (length pk <? length key)%nat then Err R_KEYNOTFOUND
           else
             let c := cpl pk key in
             match nth_error key c with
             | None => Panic
             | Some i =>
               let rest := skipn (S c) key in
               pick (fun ch => obind (walk false ch rest) (fun deeper => Ok (here ++ deeper)))
                    (* walk(nil, rest) *)
                    (match rest with [] => Ok here | _ => Err R_KEYNOTFOUND end)
                    cs (N.to_nat (b2n i))
             end
         end
  end.

Definition walk_root (t : option tnode) (key : list byte) : outcome (list (list byte)) :=
  match t with
  | None => match key with [] => Ok [] | _ => Err R_KEYNOTFOUND end
  | Some n => walk true n key
  end.

Fixpoint mem_bytes (x : list byte) (l : list (list byte)) : bool :=
  match l with [] => false | y :: r => bytes_eqb x y || mem_bytes x r end.

(* the deduplication by Merkle value *)
Fixpoint dedup_add (seen : list (list byte)) (acc new : list (list byte)) : list (list byte) * list (list byte) :=
  match new with
  | [] => (seen, acc)
  | e :: r =>
    let h := merkle_value H e in
    if mem_bytes h seen then dedup_add seen acc r
    else dedup_add (h :: seen) (acc ++ [e]) r
  end.

Fixpoint gen_keys (t : option tnode) (keys : list (list byte)) (seen acc : list (list byte))
  : outcome (list (list byte)) :=
  match keys with
  | [] => Ok acc
  | k :: r =>
    obind (walk_root t (nibbles_of_bytes k)) (fun new =>
    let '(seen', acc') := dedup_add seen acc new in gen_keys t r seen' acc')
  end.

(* Generate over an already loaded trie *)
Definition generate_loaded (t : option tnode) (keys : list (list byte)) : outcome (list (list byte)) :=
  gen_keys t keys [] [].

(* proof.Generate after the Load.  rfix = fixes/C05-4-rootnode-empty-trie.patch: RootNode() of an
   empty trie is nil (the pinned tree dereferences the nil root) *)
Definition generate (rfix : bool) (t : option tnode) (keys : list (list byte)) : outcome (list (list byte)) :=
  match t with
  | None => if rfix then generate_loaded None keys else Panic
  | Some _ => generate_loaded t keys
  end.

End Gen.

(* ------------------------------------------------------------------ Verify *)
(* nodes of the proof trie: node.Node with the fields Get reads *)
Inductive pnode := PN (pk : list byte) (sv : option (list byte)) (ihv : bool) (mv : list byte)
                      (cs : list (option pnode)).

Section Ver.
Variable H : list byte -> list byte.
Variable st : bool * bool.
Variable dfix : bool.
Variable bfix ifix gx : bool.

Definition pval (v : option dval) : option (list byte) * bool :=
  match v with
  | None => (None, false)
  | Some (DVInline z) => (Some (zb_bytes z), false)
  | Some (DVHashed h) => (Some h, true)
  end.

(* a decoded node as a proof-trie node *)
Fixpoint pnode_of (n : dnode) : pnode :=
  match n with
  | DStub mv => PN [] None false (zb_bytes mv) []
  | DLeaf pk v => let '(sv, ihv) := pval (Some v) in PN pk sv ihv [] []
  | DBranch pk v _ cs =>
    let '(sv, ihv) := pval v in
    PN pk sv ihv [] (map (fun oc => match oc with None => None | Some c => Some (pnode_of c) end) cs)
  end.

Definition has_child (cs : list (option pnode)) : bool :=
  existsb (fun oc => match oc with Some _ => true | None => false end) cs.

(* digestToEncoding: later entries overwrite earlier ones; all entries with one digest are equal
   unless the hash collides, the lookup returns the last one *)
Fixpoint find_enc (m : list (list byte * list byte)) (d : list byte) : option (list byte) :=
  match m with
  | [] => None
  | (k, e) :: r => match find_enc r d with
                   | Some x => Some x
                   | None => if bytes_eqb k d then Some e else None
                   end
  end.

(* the children loop of loadProof; [rec] loads below a child found among the proof nodes *)
Fixpoint lp_children (rec : pnode -> outcome pnode) (m : list (list byte * list byte))
         (l : list (option pnode)) : outcome (list (option pnode)) :=
  match l with
  | [] => Ok []
  | None :: r => obind (lp_children rec m r) (fun r' => Ok (None :: r'))
  | Some (PN cpk csv cihv cmv ccs as child) :: r =>
    match find_enc m cmv with
    | None =>
      let inlined :=
          if ifix then match cmv with [] => true | _ => false end
          else match csv with Some (_ :: _) => true | _ => false end || has_child ccs in
      obind (lp_children rec m r) (fun r' => Ok ((if inlined then Some child else None) :: r'))
    | Some enc =>
      match decode st dfix enc with
      | Ok (Some d) =>
        obind (rec (pnode_of d)) (fun c' => obind (lp_children rec m r) (fun r' => Ok (Some c' :: r')))
      | Ok None => Panic                   (* child.Dirty = true on a nil node *)
      | Err _ => Err R_DECODE
      | Panic => Panic
      | OutOfFuel => OutOfFuel
      end
    end
  end.

(* loadProof *)
Fixpoint load_proof (fuel : nat) (m : list (list byte * list byte)) (n : pnode) : outcome pnode :=
  match fuel with
  | O => OutOfFuel
  | S f =>
    match n with
    | PN pk sv ihv mv [] => Ok n
    | PN pk sv ihv mv cs =>
      obind (lp_children (load_proof f m) m cs)
            (fun cs' => Ok (PN pk sv ihv mv (if has_child cs' then cs' else [])))
    end
  end.

(* buildTrie: the first node whose digest is the root hash is the root, all others go to the map *)
Fixpoint build_scan (nodes : list (list byte)) (root_hash : list byte) (root : option (list byte))
         (m : list (list byte * list byte)) : option (list byte) * list (list byte * list byte) :=
  match nodes with
  | [] => (root, m)
  | e :: r =>
    let d := H e in
    match root with
    | None => if bytes_eqb d root_hash then build_scan r root_hash (Some e) m
              else build_scan r root_hash None (m ++ [(d, e)])
    | Some _ => build_scan r root_hash root (m ++ [(d, e)])
    end
  end.

(* the map is filled while the list is scanned and the root is decoded inside the loop: a decode
   error of the root aborts at once *)
Definition build_trie (nodes : list (list byte)) (root_hash : list byte) : outcome pnode :=
  match nodes with
  | [] => Err R_EMPTYPROOF
  | _ =>
    let '(root, m) := build_scan nodes root_hash None [] in
    match root with
    | None => Err R_NOROOT
    | Some e =>
      match decode st dfix e with
      | Ok (Some d) => load_proof (S (S (length nodes))) m (pnode_of d)
      | Ok None => Panic                                 (* root.Dirty = true on a nil node *)
      | Err _ => Err R_DECODE
      | Panic => Panic
      | OutOfFuel => OutOfFuel
      end
    end
  end.

(* MemoryDB built from the proof: Get by 32-byte key, nil when missing *)
Fixpoint proofdb_get (nodes : list (list byte)) (k : list byte) : option (list byte) :=
  match nodes with
  | [] => None
  | e :: r => match proofdb_get r k with
              | Some x => Some x
              | None => if bytes_eqb (H e) k then Some e else None
              end
  end.

(* the value a node yields; None = nil *)
Definition hashed_lookup (nodes : list (list byte)) (h : list byte) : outcome (option (list byte)) :=
  if (length h =? 32)%nat then Ok (proofdb_get nodes h) else Panic.

(* retrieve *)
Fixpoint retrieve (nodes : list (list byte)) (n : pnode) (key : list byte) : outcome (option (list byte)) :=
  match n with
  | PN pk sv ihv _ [] =>
    if bytes_eqb pk key then
      match sv with
      | Some v => if ihv then hashed_lookup nodes v else Ok (Some v)
      | None => Ok None
      end
    else Ok None
  | PN pk sv ihv _ cs =>
    if match key with [] => true | _ => false end || bytes_eqb pk key then
      match sv with
      | Some v => if ihv && bfix then hashed_lookup nodes v else Ok (Some v)
      | None => Ok None
      end
    else if negb (is_prefix pk key) then Ok None
    else
      match skipn (length pk) key with
      | [] => Panic
      | i :: rest =>
        pick (fun c =>
                if gx && match rest with [] => true | _ => false end
                   && match c with PN [] _ _ _ _ => false | _ => true end
                then Ok None else retrieve nodes c rest)
             (Ok None) cs (N.to_nat (b2n i))
      end
  end.

(* Verify: Ok tt = nil error *)
Definition verify (nodes : list (list byte)) (root_hash key value : list byte) : outcome unit :=
  obind (build_trie nodes root_hash) (fun root =>
  obind (retrieve nodes root (nibbles_of_bytes key)) (fun got =>
  match got with
  | None => Err R_NOTFOUND
  | Some v =>
    match value with
    | [] => Ok tt
    | _ => if bytes_eqb value v then Ok tt else Err R_MISMATCH
    end
  end)).

End Ver.

Definition entries (t : option tnode) : list (list byte * list byte) :=
  match t with
  | None => []
  | Some n => map (fun kv => (nibbles_to_key_le (fst kv), snd kv)) (entries_node [] n)
  end.
