(* C03/Proofs.v — witnesses computed on the model (the general proofs are in Tree.v, Cache.v,
   Frame.v, Ops.v, Spec.v, Insert.v, Delete.v, View.v, Inv.v, Mutate.v, Main.v). *)
From Common Require Import Bytes Blake2b.
From C03 Require Import Model Gen.

(* constants read from the Go source on every run (props/C03/consts.json) *)
Example gen_v1_max_inline : Gen.v1_max_inline_value_size = 32%Z.
Proof. reflexivity. Qed.
Example gen_children_capacity : Gen.children_capacity = Z.of_nat (length no_kids).
Proof. reflexivity. Qed.
Example must_hash_threshold : forall v,
  must_hash true v = (Z.to_nat Gen.v1_max_inline_value_size <? length v)%nat.
Proof. reflexivity. Qed.

Definition k12 : list byte := [n2b 18].
Definition k1234 : list byte := [n2b 18; n2b 52].
Definition v40 : list byte := repeat (n2b 176) 40.
Definition v3 : list byte := [n2b 1; n2b 2; n2b 3].

(* the pinned code (fx = false): V0 trie with a 40-byte value, Snapshot, SetVersion(V1) on the
   snapshot, re-Put of the same value: the ORIGINAL handle's view changes *)
Definition bad_hist : list step := [Put 0 k12 v40; Snap 0; SetVer 1 true; Put 1 k12 v40].

Lemma version_upgrade_refuted :
  frozen_parents bad_hist = true /\
  view blake2b_256 false (run blake2b_256 false false bad_hist init_state) 0
    <> view blake2b_256 false (run blake2b_256 false false (firstn 3 bad_hist) init_state) 0.
Proof. vm_compute. split; [reflexivity | intro E; discriminate E]. Qed.

(* the same history on the repaired code leaves the original alone, and the snapshot does change *)
Lemma version_upgrade_repaired :
  view blake2b_256 false (run blake2b_256 true false bad_hist init_state) 0
    = view blake2b_256 false (run blake2b_256 true false (firstn 3 bad_hist) init_state) 0
  /\ view blake2b_256 false (run blake2b_256 true false bad_hist init_state) 1
    <> view blake2b_256 false (run blake2b_256 true false (firstn 3 bad_hist) init_state) 1.
Proof. vm_compute. split; [reflexivity | intro E; discriminate E]. Qed.

(* a fork history with snapshots of snapshots, a version upgrade, deletions and WriteDirty that
   satisfies the hypothesis of the isolation theorem and in which the handles really diverge *)
Definition fork_hist : list step :=
  [Put 0 k12 v40; Put 0 k1234 v3; Commit 0; Snap 0; Snap 0; SetVer 1 true; Put 1 k12 v40;
   Del 2 k1234; Snap 1; Put 3 k1234 v40; Commit 3; Clear 2 k12; HashOp 0].

Lemma fork_hist_nonvacuous :
  frozen_parents fork_hist = true
  /\ length (s_hs (run blake2b_256 true false fork_hist init_state)) = 4
  /\ (let st := run blake2b_256 true false fork_hist init_state in
      view blake2b_256 false st 0 <> view blake2b_256 false st 1
      /\ view blake2b_256 false st 1 <> view blake2b_256 false st 2
      /\ view blake2b_256 false st 1 <> view blake2b_256 false st 3
      /\ view blake2b_256 false st 0 <> None).
Proof.
  vm_compute. repeat split; try reflexivity; intro E; discriminate E.
Qed.

(* informational: mutating a handle AFTER a snapshot was taken from it is visible through the
   snapshot (the nodes of the parent's generation are shared and rewritten in place): this is the
   documented copy-on-write contract, excluded by frozen_parents *)
Definition parent_hist : list step := [Put 0 k12 v3; Snap 0; Put 0 k12 v40].
Lemma parent_mutation_shares :
  frozen_parents parent_hist = false /\
  view blake2b_256 false (run blake2b_256 true false parent_hist init_state) 1
    <> view blake2b_256 false (run blake2b_256 true false (firstn 2 parent_hist) init_state) 1.
Proof. vm_compute. split; [reflexivity | intro E; discriminate E]. Qed.

(* the same for a SNAPSHOT that is mutated after a snapshot was taken from it: handle 1 (a snapshot
   of handle 0) writes a node of its own generation, handle 2 is a snapshot of handle 1, then
   handle 1 rewrites that node in place: handle 2 sees the new value.  The fork tree
   0 -> 1 -> 2 with an operation on the inner node 1 after 2 was forked is outside frozen_parents. *)
Definition snap_parent_hist : list step :=
  [Put 0 k12 v3; Snap 0; Put 1 k1234 v3; Snap 1; Put 1 k1234 v40].
Lemma snapshot_parent_mutation_shares :
  frozen_parents snap_parent_hist = false /\
  frozen_parents (firstn 4 snap_parent_hist) = true /\
  view blake2b_256 false (run blake2b_256 true false snap_parent_hist init_state) 2
    <> view blake2b_256 false (run blake2b_256 true false (firstn 4 snap_parent_hist) init_state) 2.
Proof. vm_compute. repeat split; try reflexivity. intro E; discriminate E. Qed.

(* ClearPrefixLimit on two snapshots of a committed trie with limits below and above the number of
   matching keys: the handles diverge, the source keeps its view *)
Definition limit_hist : list xstep :=
  [Core (Put 0 [n2b 18; n2b 1] v3); Core (Put 0 [n2b 18; n2b 18] v40); Core (Put 0 [n2b 18; n2b 31] v3);
   Core (Put 0 [n2b 32] v3); Core (Commit 0); Core (Snap 0); Core (Snap 0);
   ClearLimit 1 [n2b 18] 1%N; ClearLimit 2 [n2b 18] 100%N; ClearLimit 1 [] 1%N].
Lemma limit_hist_nonvacuous :
  xfrozen_parents limit_hist = true
  /\ (let st := xrun blake2b_256 true false limit_hist init_state in
      let st0 := xrun blake2b_256 true false (firstn 7 limit_hist) init_state in
      view blake2b_256 false st 0 = view blake2b_256 false st0 0
      /\ view blake2b_256 false st 1 <> view blake2b_256 false st 0
      /\ view blake2b_256 false st 2 <> view blake2b_256 false st 0
      /\ view blake2b_256 false st 1 <> view blake2b_256 false st 2).
Proof. vm_compute. repeat split; try reflexivity; intro E; discriminate E. Qed.
