(* C03/Proofs.v — placeholder while the pipeline is wired; the invariant proofs live in Inv*.v *)
From Common Require Import Bytes Blake2b.
From C03 Require Import Model.

Definition k12 : list byte := [n2b 18].
Definition v40 : list byte := repeat (n2b 176) 40.
Definition bad_hist : list step := [Put 0 k12 v40; Snap 0; SetVer 1 true; Put 1 k12 v40].

Lemma version_upgrade_refuted :
  frozen_parents bad_hist = true /\
  view blake2b_256 false (run blake2b_256 false false bad_hist init_state) 0
    <> view blake2b_256 false (run blake2b_256 false false (firstn 3 bad_hist) init_state) 0.
Proof. vm_compute. split; [reflexivity | intro E; discriminate E]. Qed.
