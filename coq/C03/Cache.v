(* C03/Cache.v — the Merkle-value cache.  [penc], [mvn], [hr]: the encoding, the Merkle value and
   the root hash of an addressed tree as pure functions of the tree; [cache_ok]: every clean
   cached value is the right one; [mvcalc_spec]: CalculateMerkleValue / EncodeAndHash with the
   cache return the pure value and only make valid cache fills ([fillsP]). *)
From Common Require Import Bytes.
From Trie Require Import Nibbles Encode.
From C03 Require Import Model Tree.
From Coq Require Import Arith Lia.
Local Open Scope nat_scope.

Section Cache.
Variable H : list byte -> list byte.

Definition kenc (f : atree -> list byte) : list (option atree) -> list byte :=
  fix go l :=
    match l with
    | [] => []
    | None :: r => go r
    | Some k :: r => scale_bytes (merkle_of H (f k)) ++ go r
    end.

(* Node.Encode as a function of the tree *)
Fixpoint penc (t : atree) : list byte :=
  match t with
  | AN _ pk sv mbh _ isb ks => enc_fields H pk sv mbh isb (bitmap_from 0 (map oroot ks)) (kenc penc ks)
  end.
Definition mvn (t : atree) : list byte := merkle_of H (penc t).   (* Merkle value of a non-root node *)
Definition hr (t : atree) : list byte := H (penc t).               (* Merkle value of the root *)

Lemma penc_cell c t ke : cell_is c t -> ke = kenc penc (akids t) -> enc_cell H c ke = penc t.
Proof.
  destruct t. unfold cell_is, enc_cell. intros (-> & -> & -> & _ & -> & ->) ->. reflexivity.
Qed.

(* a clean cached value is the Merkle value of the node (for a trie root also its root hash) *)
Definition ok_at (rs : bool) (c : cell) (t : atree) : Prop :=
  c_dirty c = false -> forall v, c_mv c = Some v -> v = mvn t \/ (rs = true /\ v = hr t).

Fixpoint cache_ok (rs : bool) (h : heap) (t : atree) : Prop :=
  match t with
  | AN a pk sv mbh gn isb ks =>
    (forall c, h a = Some c -> ok_at rs c (AN a pk sv mbh gn isb ks)) /\ oall (cache_ok false h) ks
  end.

Lemma cache_ok_unfold rs h t :
  cache_ok rs h t <-> (forall c, h (aroot t) = Some c -> ok_at rs c t)
                      /\ (forall k, In (Some k) (akids t) -> cache_ok false h k).
Proof. destruct t; simpl. now rewrite oall_in. Qed.

Lemma cache_ok_kid rs h t k : cache_ok rs h t -> In (Some k) (akids t) -> cache_ok false h k.
Proof. rewrite cache_ok_unfold. intros [_ Hk]; auto. Qed.

Lemma ok_at_weaken c t : ok_at false c t -> forall rs, ok_at rs c t.
Proof. unfold ok_at. intros Ho rs Hd v Hv. destruct (Ho Hd v Hv) as [?|[? _]]; [auto | discriminate]. Qed.

Lemma cache_ok_weaken h t : cache_ok false h t -> forall rs, cache_ok rs h t.
Proof.
  intros Hc rs. apply cache_ok_unfold in Hc. apply cache_ok_unfold. destruct Hc as (H1 & H2). split; auto.
  intros c Hc. apply ok_at_weaken; auto.
Qed.

(* cache_ok only looks at the cells of the tree *)
Lemma cache_ok_frame rs h h' t :
  cache_ok rs h t -> (forall x, In x (addrs t) -> h' x = h x) -> cache_ok rs h' t.
Proof.
  revert rs. induction t using atree_ind'. rewrite oall_in in H0. intros rs Hc Hf.
  apply cache_ok_unfold in Hc. apply cache_ok_unfold. destruct Hc as (H1 & H2). split.
  - intros c Hc. apply H1. rewrite <- Hf; auto. apply aroot_in_addrs.
  - intros k Hk. apply H0; auto. intros x Hx. apply Hf. apply in_addrs. right; eauto.
Qed.

(* a dirty root makes the root cell trivially fine *)
Lemma cache_ok_dirty_root rs h t c :
  h (aroot t) = Some c -> c_dirty c = true ->
  (forall k, In (Some k) (akids t) -> cache_ok false h k) -> cache_ok rs h t.
Proof.
  intros Hc Hd Hk. apply cache_ok_unfold. split; auto.
  intros c' Hc'. rewrite Hc in Hc'. inversion Hc'; subst. intros Hd'. congruence.
Qed.

(* ---------- valid cache fills ---------- *)
(* h' is h up to cache fills: node fields are kept; a cell either keeps Dirty and its cached value,
   or caches the Merkle value of a tree of S rooted there, or the root hash of a tree of R *)
Definition fillsP (S R : atree -> Prop) (h h' : heap) : Prop :=
  forall x,
    match h x with
    | None => h' x = None
    | Some c =>
      exists c', h' x = Some c' /\ samef c c'
        /\ ((c_dirty c' = c_dirty c /\ c_mv c' = c_mv c)
            \/ (exists s, S s /\ aroot s = x /\ c_mv c' = Some (mvn s))
            \/ (exists r, R r /\ aroot r = x /\ c_mv c' = Some (hr r)))
    end.

Lemma fillsP_refl S R h : fillsP S R h h.
Proof. intros x. destruct (h x) eqn:E; auto. exists c. repeat split; auto. Qed.

Lemma fillsP_mono (S R S' R' : atree -> Prop) h h' :
  fillsP S R h h' -> (forall s, S s -> S' s) -> (forall r, R r -> R' r) -> fillsP S' R' h h'.
Proof.
  intros Hf HS HR x. specialize (Hf x). destruct (h x); auto.
  destruct Hf as (c' & ? & ? & [?|[(s & ? & ? & ?)|(r & ? & ? & ?)]]); exists c'; split; auto; split; auto.
  - right; left; eauto.
  - right; right; eauto.
Qed.

Lemma fillsP_trans S R h1 h2 h3 : fillsP S R h1 h2 -> fillsP S R h2 h3 -> fillsP S R h1 h3.
Proof.
  intros H12 H23 x. specialize (H12 x). specialize (H23 x).
  destruct (h1 x) as [c1|].
  - destruct H12 as (c2 & E2 & S12 & D12). rewrite E2 in H23.
    destruct H23 as (c3 & E3 & S23 & D23). exists c3. split; auto. split; [eapply samef_trans; eauto|].
    destruct D23 as [[Hd Hm]|D23]; [|auto].
    destruct D12 as [[Hd' Hm']|D12].
    + left; split; congruence.
    + right. rewrite Hm. auto.
  - rewrite H12 in H23. auto.
Qed.

Lemma fillsP_samef S R h h' x : fillsP S R h h' -> samef_o (h x) (h' x).
Proof.
  intros Hf. specialize (Hf x). destruct (h x).
  - destruct Hf as (c' & -> & ? & _). simpl; auto.
  - rewrite Hf. simpl; auto.
Qed.

Lemma fillsP_rep S R h h' t : fillsP S R h h' -> rep h t -> rep h' t.
Proof. intros Hf Hr. eapply rep_frame; eauto. intros; eapply fillsP_samef; eauto. Qed.

Lemma fillsP_out S R h h' x :
  fillsP S R h h' -> (forall s, S s \/ R s -> aroot s <> x) -> h' x = h x.
Proof.
  intros Hf Hn. specialize (Hf x). destruct (h x) as [c|]; auto.
  destruct Hf as (c' & E & Hs & [[Hd Hm]|[(s & ? & ? & ?)|(r & ? & ? & ?)]]).
  - rewrite E. f_equal. destruct c, c'; unfold samef in Hs; simpl in *. intuition congruence.
  - exfalso. eapply Hn; eauto.
  - exfalso. eapply Hn; eauto.
Qed.

(* valid fills keep every cache_ok *)
Lemma fillsP_cache_ok (S R : atree -> Prop) h h' :
  fillsP S R h h' ->
  (forall s, S s \/ R s -> rep h s) ->
  forall u rs', rep h u -> sep u ->
    (forall r, R r -> In (aroot r) (addrs u) -> aroot u = aroot r /\ rs' = true) ->
    cache_ok rs' h u -> cache_ok rs' h' u.
Proof.
  intros Hf Hrep. induction u using atree_ind'. rewrite oall_in in H0.
  intros rs' Hu Hsep Hroot Hc.
  apply cache_ok_unfold in Hc. destruct Hc as (Hc1 & Hc2). apply cache_ok_unfold. split.
  - intros c' Hc'. pose proof (Hf a) as Hfa. simpl in Hc'.
    destruct (rep_cell _ _ Hu) as (c & Hca & _). simpl in Hca. rewrite Hca in Hfa.
    destruct Hfa as (c'' & E & Hs & D). rewrite Hc' in E. inversion E; subst c''. clear E.
    destruct D as [[Hd Hm]|[(s & HS & Hrs & Hm)|(r & HR & Hrr & Hm)]].
    + intros Hd' v Hv. apply (Hc1 c Hca); congruence.
    + intros _ v Hv. left. rewrite Hm in Hv. injection Hv as <-.
      f_equal. apply (rep_det h s); auto.
    + intros _ v Hv. rewrite Hm in Hv. injection Hv as <-.
      destruct (Hroot r HR) as (_ & ->). { rewrite Hrr. simpl; auto. }
      right. split; auto. f_equal. apply (rep_det h r); auto.
  - intros k Hk. apply H0; auto.
    + eapply rep_kid in Hu; eauto.
    + eapply sep_kid in Hsep; eauto.
    + intros r HR Hin. exfalso.
      destruct (Hroot r HR) as (E & _).
      { apply in_addrs. right; eauto. }
      eapply (sep_root_not_in_kid _ k Hsep Hk). rewrite E. auto.
Qed.

(* ---------- CalculateMerkleValue ---------- *)
Definition sub_of (t : atree) : atree -> Prop := fun s => In s (subts t).
Definition sub_of_kids (ks : list (option atree)) : atree -> Prop :=
  fun s => exists k, In (Some k) ks /\ In s (subts k).
Definition none_of : atree -> Prop := fun _ => False.
Definition only (t : atree) (b : bool) : atree -> Prop := fun r => b = true /\ r = t.

Lemma cache_hit_value rs c t v :
  ok_at rs c t -> cache_hit rs c = Some v -> v = (if rs then hr t else mvn t).
Proof.
  unfold cache_hit, ok_at. destruct (c_dirty c); [discriminate|].
  destruct (c_mv c) as [w|]; [|discriminate]. intros Ho Hh.
  destruct rs.
  - destruct (Nat.eqb_spec (length w) 32); [|discriminate]. inversion Hh; subst.
    destruct (Ho eq_refl v eq_refl) as [E|[_ E]]; auto.
    unfold mvn, merkle_of in E. unfold hr.
    destruct (Nat.ltb_spec (length (penc t)) 32); auto. subst v. lia.
  - inversion Hh; subst. destruct (Ho eq_refl v eq_refl) as [E|[E _]]; [auto | discriminate].
Qed.

Lemma set_mv_fills (S R : atree -> Prop) h a v :
  (exists s, S s /\ aroot s = a /\ v = mvn s) \/ (exists r, R r /\ aroot r = a /\ v = hr r) ->
  fillsP S R h (set_mv h a v).
Proof.
  intros Hv x. unfold set_mv. destruct (h a) as [ca|] eqn:Ea.
  - destruct (N.eq_dec x a) as [->|Hne].
    + rewrite Ea, upd_eq. exists (set_mv_c v ca). split; auto. split; [repeat split|].
      right. destruct Hv as [(s & ? & ? & ->)|(r & ? & ? & ->)]; [left | right]; eauto.
    + rewrite upd_neq by auto. destruct (h x) as [c|]; auto. exists c. repeat split; auto.
  - destruct (h x) as [c|]; auto. exists c. repeat split; auto.
Qed.

Lemma mvcalc_spec : forall fuel chk rs h t,
  depth t < fuel -> rep h t -> sep t -> cache_ok rs h t ->
  exists h', mvcalc H fuel chk rs h (aroot t) = (h', if rs then hr t else mvn t)
             /\ fillsP (sub_of t) (only t rs) h h'
             /\ (chk = false -> exists c', h' (aroot t) = Some c' /\ c_mv c' = Some (if rs then hr t else mvn t)).
Proof.
  induction fuel as [|f IH]; intros chk rs h t Hd Hr Hs Hc; [lia|].
  destruct t as [a pk sv mbh gn isb ks]. simpl aroot. simpl mvcalc.
  destruct (rep_cell _ _ Hr) as (c & Hca & Hci). simpl in Hca. rewrite Hca.
  pose proof (proj1 (cache_ok_unfold _ _ _) Hc) as (Hc1 & Hc2). simpl in Hc1, Hc2.
  destruct (if chk then cache_hit rs c else None) as [v|] eqn:Ehit.
  - destruct chk; [|discriminate]. exists h. split; [|split; [apply fillsP_refl | discriminate]].
    f_equal. eapply cache_hit_value; eauto.
  - (* encode: fold over the children *)
    assert (Hfold : forall ks0 h0,
               (forall k, In (Some k) ks0 -> In (Some k) ks) ->
               (forall k, In (Some k) ks0 -> rep h0 k /\ cache_ok false h0 k) ->
               exists h1, fold_kids (mvcalc H f true false) (map oroot ks0) h0 = (h1, kenc penc ks0)
                          /\ fillsP (sub_of_kids ks0) none_of h0 h1).
    { induction ks0 as [|[k|] ks0 IHk]; intros h0 Hin Hk0; simpl.
      - exists h0. split; auto. apply fillsP_refl.
      - destruct (Hk0 k (or_introl eq_refl)) as (Hrk & Hck).
        assert (Hdk : depth k < f).
        { assert (depth k < depth (AN a pk sv mbh gn isb ks)) by (apply depth_kid; simpl; apply Hin; simpl; auto). lia. }
        assert (Hsk : sep k) by (eapply sep_kid; eauto; simpl; apply Hin; simpl; auto).
        destruct (IH true false h0 k Hdk Hrk Hsk Hck) as (h1 & E1 & F1 & _). rewrite E1.
        assert (F1' : fillsP (sub_of k) none_of h0 h1).
        { eapply fillsP_mono; eauto. intros r [? _]; discriminate. }
        destruct (IHk h1) as (h2 & E2 & F2).
        + intros; apply Hin; simpl; auto.
        + intros k' Hk'. destruct (Hk0 k' (or_intror Hk')) as (Hrk' & Hck'). split.
          * eapply fillsP_rep; eauto.
          * eapply fillsP_cache_ok; eauto.
            -- intros s [Hs0|Hn]; [|destruct Hn]. exact (rep_subt _ _ _ Hrk Hs0).
            -- apply (sep_kid _ k' Hs). simpl. apply Hin; simpl; auto.
            -- intros r Hn; destruct Hn.
        + rewrite E2. exists h2. split; auto.
          eapply fillsP_trans.
          * eapply fillsP_mono; [exact F1' | | auto]. intros s Hs0. exists k; simpl; auto.
          * eapply fillsP_mono; [exact F2 | | auto]. intros s (k' & ? & ?). exists k'; simpl; auto.
      - destruct (IHk h0) as (h2 & E2 & F2).
        + intros; apply Hin; simpl; auto.
        + intros; apply Hk0; simpl; auto.
        + exists h2. split; auto. eapply fillsP_mono; [exact F2 | | auto].
          intros s (k' & ? & ?). exists k'; simpl; auto. }
    destruct (Hfold ks h) as (h1 & E1 & F1); auto.
    { intros k Hk. split; [eapply rep_kid in Hr; eauto | auto]. }
    assert (Hkids : c_kids c = map oroot ks) by (unfold cell_is in Hci; tauto).
    rewrite Hkids, E1.
    assert (Henc : enc_cell H c (kenc penc ks) = penc (AN a pk sv mbh gn isb ks)) by (apply penc_cell; auto).
    rewrite Henc. eexists. split; [reflexivity|]. split.
    + eapply fillsP_trans.
      * eapply fillsP_mono; [exact F1 | | intros r []].
        intros s (k & Hk & Hsk). apply in_subts. right; eauto.
      * apply set_mv_fills. destruct rs.
        -- right. exists (AN a pk sv mbh gn isb ks). repeat split; auto.
        -- left. exists (AN a pk sv mbh gn isb ks). repeat split; auto. apply in_subts_self.
    + intros _. unfold set_mv. pose proof (F1 a) as Fa. rewrite Hca in Fa. destruct Fa as (c1 & Ec1 & _).
      rewrite Ec1, upd_eq. eexists. split; [reflexivity|]. destruct rs; reflexivity.
Qed.

Lemma set_clean_fills (S R : atree -> Prop) h a c v :
  h a = Some c -> c_mv c = Some v ->
  (exists s, S s /\ aroot s = a /\ v = mvn s) \/ (exists r, R r /\ aroot r = a /\ v = hr r) ->
  fillsP S R h (set_clean h a).
Proof.
  intros Ea Hm Hv x. unfold set_clean. rewrite Ea.
  destruct (N.eq_dec x a) as [->|Hne].
  - rewrite Ea, upd_eq. exists (set_clean_c c). split; auto. split; [repeat split|].
    right. simpl. rewrite Hm. destruct Hv as [(s & ? & ? & ->)|(r & ? & ? & ->)]; [left | right]; eauto.
  - rewrite upd_neq by auto. destruct (h x) as [c0|]; auto. exists c0. repeat split; auto.
Qed.

(* writeDirtyNode only makes valid cache fills *)
Lemma commit_node_spec : forall fuel cf rs h t,
  depth t < cf -> rep h t -> sep t -> cache_ok rs h t ->
  fillsP (sub_of t) (only t rs) h (commit_node H fuel cf rs h (aroot t)).
Proof.
  induction fuel as [|f IH]; intros cf rs h t Hd Hr Hs Hc; [apply fillsP_refl|].
  destruct t as [a pk sv mbh gn isb ks]. set (t := AN a pk sv mbh gn isb ks) in *.
  destruct (rep_cell _ _ Hr) as (c & Hca & Hci). simpl in Hca.
  change (aroot t) with a. cbn [commit_node]. rewrite Hca.
  destruct (negb (c_dirty c)); [apply fillsP_refl|].
  destruct (mvcalc_spec cf false rs h t Hd Hr Hs Hc) as (h1 & E1 & F1 & Hmv).
  change (aroot t) with a in E1. rewrite E1.
  destruct (Hmv eq_refl) as (c1 & Hc1 & Hm1). change (aroot t) with a in Hc1.
  assert (Hvalid : (exists s, sub_of t s /\ aroot s = a /\ (if rs then hr t else mvn t) = mvn s)
                   \/ (exists r, only t rs r /\ aroot r = a /\ (if rs then hr t else mvn t) = hr r)).
  { destruct rs; [right | left]; exists t; repeat split; auto. apply in_subts_self. }
  assert (Hclean1 : fillsP (sub_of t) (only t rs) h (set_clean h1 a)).
  { eapply fillsP_trans; [exact F1|]. eapply set_clean_fills; eauto. }
  destruct (length (if rs then hr t else mvn t) <? 32); [exact Hclean1|].
  destruct (negb (c_isb c)); [exact Hclean1|].
  (* the children *)
  assert (Hkids : c_kids c = map oroot ks) by (unfold t, cell_is in Hci; tauto).
  rewrite Hkids.
  assert (Hfold : forall ks0 h0,
             (forall k, In (Some k) ks0 -> In (Some k) ks) ->
             (forall k, In (Some k) ks0 -> rep h0 k /\ cache_ok false h0 k) ->
             fillsP (sub_of_kids ks0) none_of h0
                    (fold_left (fun hh k => match k with Some ka => commit_node H f cf false hh ka | None => hh end)
                               (map oroot ks0) h0)).
  { induction ks0 as [|[k|] ks0 IHk]; intros h0 Hin Hk0; simpl.
    - apply fillsP_refl.
    - destruct (Hk0 k (or_introl eq_refl)) as (Hrk & Hck).
      assert (Hink : In (Some k) ks) by (apply Hin; simpl; auto).
      assert (Hdk : depth k < cf).
      { assert (depth k < depth t) by (apply depth_kid; auto). lia. }
      assert (Hsk : sep k) by (eapply (sep_kid t); eauto).
      pose proof (IH cf false h0 k Hdk Hrk Hsk Hck) as Fk.
      set (h0' := commit_node H f cf false h0 (aroot k)) in *.
      assert (Fk' : fillsP (sub_of k) none_of h0 h0').
      { eapply fillsP_mono; eauto. intros r [? _]; discriminate. }
      eapply fillsP_trans.
      + eapply fillsP_mono; [exact Fk' | | auto]. intros s Hs0. exists k; simpl; auto.
      + eapply fillsP_mono; [apply IHk | | auto].
        * intros; apply Hin; simpl; auto.
        * intros k' Hk'. destruct (Hk0 k' (or_intror Hk')) as (Hrk' & Hck'). split.
          -- eapply fillsP_rep; eauto.
          -- eapply fillsP_cache_ok; eauto.
             ++ intros s [Hs0|Hn]; [|destruct Hn]. exact (rep_subt _ _ _ Hrk Hs0).
             ++ apply (sep_kid t k' Hs). apply Hin; simpl; auto.
             ++ intros r Hn; destruct Hn.
        * intros s (k' & ? & ?). exists k'; simpl; auto.
    - eapply fillsP_mono; [apply IHk | | auto].
      + intros; apply Hin; simpl; auto.
      + intros; apply Hk0; simpl; auto.
      + intros s (k' & ? & ?). exists k'; simpl; auto. }
  set (h2 := fold_left _ (map oroot ks) h1).
  assert (F2 : fillsP (sub_of_kids ks) none_of h1 h2).
  { apply Hfold; auto. intros k Hk. split.
    - eapply fillsP_rep; eauto. eapply rep_kid; eauto.
    - eapply fillsP_cache_ok; eauto.
      + intros s [Hs0|[_ ->]]; auto. exact (rep_subt _ _ _ Hr Hs0).
      + eapply rep_kid; eauto.
      + eapply sep_kid; eauto.
      + intros r [_ ->] Hin. exfalso. eapply (sep_root_not_in_kid t k Hs Hk); eauto.
      + eapply cache_ok_kid; eauto. }
  assert (Ea2 : h2 a = h1 a).
  { eapply fillsP_out; eauto. intros s [(k & Hk & Hsk)|[]] E.
    eapply (sep_root_not_in_kid t k Hs Hk). change (aroot t) with a. rewrite <- E.
    eapply subts_addrs; eauto. apply aroot_in_addrs. }
  eapply fillsP_trans; [exact F1|]. eapply fillsP_trans.
  - eapply fillsP_mono; [exact F2 | | intros r []].
    intros s (k & Hk & Hsk). apply in_subts. right; eauto.
  - eapply set_clean_fills; eauto. congruence.
Qed.

End Cache.
