(* C03/PureAllX.v — agreement with the pure trie for the WHOLE mutating interface: histories that
   also contain ClearPrefixLimit steps.  The pure replay uses Trie.Model.trie_clear_prefix_limit;
   the only proviso is that no ClearPrefixLimit step reports the Go panic "got branch with all nil
   children" (deleteNodesLimit on a branch without children: the model then leaves the state
   unchanged, the pure function has no such case). *)
From Common Require Import Bytes.
From Trie Require Import Nibbles Encode Node.
From Trie Require Model Spec.
From C03 Require Import Model Tree Cache Frame Ops Spec Insert Delete Limit View Inv Mutate Main MainX
     Erase InsertPure DeletePure LimitPure ViewPure PureAll.
From Coq Require Import Arith Lia.
Local Open Scope nat_scope.

Definition pxexec (ps : list pstate) (s : xstep) : list pstate :=
  match s with
  | Core c => pexec ps c
  | ClearLimit i p limit =>
    match nth_error ps i with
    | Some (t, pv, pu) => set_nth i (fst (fst (Trie.Model.trie_clear_prefix_limit t p limit)), pv, pu) ps
    | None => ps
    end
  end.
Definition pxrun (hist : list xstep) : list pstate := fold_left pxexec hist [(None, false, true)].

Section PureAllX.
Variable H : list byte -> list byte.

Notation Inv := (Inv.Inv H).
Notation htree := (Inv.htree H).
Notation xexec := (Model.xexec H true true).
Notation xrun := (Model.xrun H true true).

(* no ClearPrefixLimit step of the history panics *)
Fixpoint xnopanic (st : state) (hist : list xstep) : Prop :=
  match hist with
  | [] => True
  | s :: r =>
    (match s with ClearLimit _ _ _ => snd (fst (xexec st s)) <> RPanic | Core _ => True end)
    /\ xnopanic (fst (fst (xexec st s))) r
  end.

Lemma clear_limit_step_er st fr ts i hd ot p limit fl :
  Inv st fr ts -> nth_error (s_hs st) i = Some hd -> nth_error ts i = Some ot -> ~ In i fr -> lwf_o fl ot ->
  let '(m1, hd1, vd, alld) := clear_limit_handle H (s_mem st) hd p limit in
  vd = panic_mark
  \/ (step_er H st fr ts i fl (set_handle st i hd1 m1)
              (fst (fst (Trie.Model.trie_clear_prefix_limit (ero ot) p limit)))
      /\ h_v1 hd1 = h_v1 hd).
Proof.
  intros I Hi Ti Hfr Hl. pose proof (iw _ _ _ _ I) as Hw. pose proof (it _ _ _ _ I i hd ot Hi Ti) as Ht.
  unfold clear_limit_handle, Trie.Model.trie_clear_prefix_limit, Trie.Model.trie_clear_prefix_limit_pinned. unfold trie.
  destruct (N.eqb_spec limit 0) as [|Hlim].
  { right. split; [|reflexivity]. apply (unchanged_er H st fr ts i hd ot fl); auto. }
  destruct ot as [t|].
  - destruct (htree_some H _ _ _ Ht) as (Er & Hr & _).
    pose proof (pre_of_htree H _ _ _ Hw Ht) as Hp.
    assert (Hold : rt_old (h_root hd) (s_mem st)).
    { intros r E. rewrite Er in E. injection E as <-. eapply rep_bounded; eauto. apply aroot_in_addrs. }
    destruct (clear_limit_node H (h_gen hd) (h_root hd) _ (s_mem st) (h_root hd) _ limit) as [[[m1 r] vd] alld] eqn:E.
    rewrite Er in E at 2.
    apply (clear_limit_spec_er H (h_gen hd) (h_root hd) fl) in E; auto.
    simpl ero. cbn [option_map]. cbv iota beta.
    destruct E as [->|[(-> & -> & -> & Epr)|(Hv1 & Epr2 & Hout)]]; [left; auto | right | right].
    + split; [|reflexivity].
      match goal with |- step_er _ _ _ _ _ _ _ ?x =>
        assert (Ex : x = ero (Some t)) by (rewrite Epr; reflexivity); rewrite Ex end.
      replace (mkH (h_gen hd) (Some (aroot t)) (h_v1 hd)) with hd by (destruct hd; simpl in *; congruence).
      apply (unchanged_er H st fr ts i hd (Some t) fl); auto.
    + split; [|reflexivity].
      apply (result_o_er_step H st fr ts i hd t m1 r true fl
               (fst (fst (Trie.Model.clear_prefix_limit_node (er t) (trim_zero_suffix (key_le_to_nibbles p)) limit)), true)); auto.
      right. split; [reflexivity|].
      destruct Hout as [(-> & Hg & Ef)|(T & -> & Hq & Ef & HlT)].
      * left. split; auto. split; auto. rewrite Ef. reflexivity.
      * right. exists T. split; auto. split; auto. split; [rewrite Ef; reflexivity | exact HlT].
  - rewrite (htree_none H _ _ Ht), clear_limit_none. right. split; [|reflexivity]. simpl.
    pose proof (htree_none H _ _ Ht) as En. rewrite <- En, handle_eta.
    apply (unchanged_er H st fr ts i hd None fl); auto.
Qed.

Definition xallowed (s : xstep) (fr : list nat) : Prop :=
  forall i, xmutated_handle s = Some i -> ~ In i fr.

Lemma pxexec_inv st fr ts ps s :
  Inv st fr ts -> PInv st ts ps -> xallowed s fr ->
  (match s with ClearLimit _ _ _ => snd (fst (xexec st s)) <> RPanic | Core _ => True end) ->
  exists ts', Inv (fst (fst (xexec st s))) (frozen_after (xcore s) fr) ts'
              /\ PInv (fst (fst (xexec st s))) ts' (pxexec ps s).
Proof.
  intros I PI Hal Hnp. destruct s as [s0|i p limit].
  - destruct (pexec_inv H st fr ts ps s0 I PI Hal) as (ts' & I' & P').
    exists ts'. simpl. destruct (Model.exec H true true st s0) as [st1 r]. simpl in *. auto.
  - pose proof PI as (Plen & P).
    assert (Hlen : length ts = length (s_hs st)) by apply (il _ _ _ _ I).
    cbn [Model.xexec pxexec xcore frozen_after] in *.
    destruct (nth_error (s_hs st) i) as [hd|] eqn:Hi.
    2:{ assert (En : nth_error ps i = None).
        { apply nth_error_None in Hi. apply nth_error_None. lia. }
        rewrite En. simpl. exists ts. split; [exact I | exact PI]. }
    assert (Hi' : i < length (s_hs st)) by (apply nth_error_lt in Hi; auto).
    destruct (nth_error ts i) as [ot|] eqn:Ti; [|apply nth_error_None in Ti; lia].
    destruct (nth_error ps i) as [[[t pv] pu]|] eqn:Pi; [|apply nth_error_None in Pi; lia].
    destruct (P i hd ot t pv pu Hi Ti Pi) as (Eo & Ev & Hl).
    pose proof (clear_limit_step_er st fr ts i hd ot p limit (fl_u pu pv) I Hi Ti (Hal i eq_refl) Hl) as Hs.
    destruct (clear_limit_handle H (s_mem st) hd p limit) as [[[m1 hd1] vd] alld].
    destruct (N.eqb_spec vd panic_mark) as [Ep|Hne]; simpl in Hnp; [congruence|]. simpl.
    destruct Hs as [?|((ot' & I' & Hl' & Eo') & Ev1)]; [contradiction|].
    exists (set_nth i ot' ts). split; [exact I'|]. rewrite <- Eo. eapply PInv_mut; eauto.
Qed.

Lemma xfrozen_cons' fr s r :
  frozen_ok fr (map xcore (s :: r)) = true ->
  xallowed s fr /\ frozen_ok (frozen_after (xcore s) fr) (map xcore r) = true.
Proof.
  intros E. simpl map in E. destruct (frozen_ok_cons _ _ _ E) as (Hal & E'). split; auto.
  intros i Hm. apply Hal. destruct s; simpl in *; auto.
Qed.

Lemma pxrun_inv : forall hist st fr ts ps,
  Inv st fr ts -> PInv st ts ps -> frozen_ok fr (map xcore hist) = true -> xnopanic st hist ->
  exists ts', Inv (xrun hist st) (frozen_after_all (map xcore hist) fr) ts'
              /\ PInv (xrun hist st) ts' (fold_left pxexec hist ps).
Proof.
  induction hist as [|s hist IH]; intros st fr ts ps I P E Hnp; simpl.
  - eauto.
  - destruct (xfrozen_cons' _ _ _ E) as (Hal & E'). destruct Hnp as (Hnp1 & Hnp2).
    destruct (pxexec_inv st fr ts ps s I P Hal Hnp1) as (ts1 & I1 & P1).
    apply (IH _ _ _ _ I1 P1 E' Hnp2).
Qed.

(* the view through every handle is the view of the pure trie of its lineage: all operations *)
Theorem pure_agrees_all : forall hist,
  xfrozen_parents hist = true -> xnopanic init_state hist ->
  forall j t pv pu, nth_error (pxrun hist) j = Some (t, pv, pu) ->
  exists h, Model.view H true (xrun hist init_state) j
            = Some (h, default_entries (Trie.Model.trie_entries t))
            /\ (pu = true -> h = Encode.trie_root H (ver_of pv) t).
Proof.
  intros hist Hfz Hnp j t pv pu Pj. unfold xfrozen_parents, frozen_parents in Hfz.
  destruct (pxrun_inv hist init_state [] [None] _ (init_inv H) PInv_init Hfz Hnp) as (ts & I & PI).
  exact (view_of_inv H _ _ _ _ I PI j t pv pu Pj).
Qed.

End PureAllX.
