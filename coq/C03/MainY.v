(* C03/MainY.v — isolation for histories with child tries: the steps of ModelY.v (a new empty trie,
   the root-copying snapshot Snapshot() takes of a child trie, the version assignment of
   PutIntoChild) preserve the global invariant; the views of all other handles are unchanged and
   the new trie shows what its source shows. *)
From Common Require Import Bytes.
From Trie Require Import Nibbles Encode.
From C03 Require Import Model Tree Cache Frame Ops Spec Insert Delete View Inv Mutate Main Limit MainX ModelY.
From Coq Require Import Arith Lia.
Local Open Scope nat_scope.

(* the same node at another address *)
Definition reroot (a' : addr) (t : atree) : atree :=
  match t with AN _ pk sv mbh gn isb ks => AN a' pk sv mbh gn isb ks end.

Lemma aroot_reroot a' t : aroot (reroot a' t) = a'.
Proof. destruct t; reflexivity. Qed.
Lemma akids_reroot a' t : akids (reroot a' t) = akids t.
Proof. destruct t; reflexivity. Qed.
Lemma agen_reroot a' t : agen (reroot a' t) = agen t.
Proof. destruct t; reflexivity. Qed.
Lemma cell_is_reroot c a' t : cell_is c t -> cell_is c (reroot a' t).
Proof. destruct t; unfold cell_is; simpl; auto. Qed.
Lemma pkeys_reroot a' t p : pkeys (reroot a' t) p = pkeys t p.
Proof. destruct t; reflexivity. Qed.
Lemma in_addrs_reroot a' t x :
  In x (addrs (reroot a' t)) <-> x = a' \/ exists k, In (Some k) (akids t) /\ In x (addrs k).
Proof. destruct t. simpl reroot. rewrite in_addrs. simpl. tauto. Qed.
Lemma in_addrs_root_or_kid t x :
  In x (addrs t) <-> x = aroot t \/ exists k, In (Some k) (akids t) /\ In x (addrs k).
Proof. destruct t. rewrite in_addrs. simpl. tauto. Qed.

Section MainY.
Variable H : list byte -> list byte.
Variables fd fg : bool.

Notation cache_ok := (Cache.cache_ok H).
Notation Inv := (Inv.Inv H).
Notation htree := (Inv.htree H).
Notation yexec := (ModelY.yexec H true fd).
Notation yrun := (ModelY.yrun H true fd).
Notation view := (Model.view H fg).

Lemma penc_reroot a' t : penc H (reroot a' t) = penc H t.
Proof. destruct t; reflexivity. Qed.
Lemma mvn_reroot a' t : mvn H (reroot a' t) = mvn H t.
Proof. unfold mvn. now rewrite penc_reroot. Qed.
Lemma hr_reroot a' t : hr H (reroot a' t) = hr H t.
Proof. unfold hr. now rewrite penc_reroot. Qed.

Lemma below_reroot g a' t : below g t -> below g (reroot a' t).
Proof. destruct t; simpl; auto. Qed.

(* ---------- reads through a copied root ---------- *)
Lemma retrieve_reroot : forall fuel h h' a' t k,
  rep h t -> rep h' (reroot a' t) ->
  retrieve fg fuel h' (Some a') k = retrieve fg fuel h (Some (aroot t)) k.
Proof.
  intros [|f] h h' a' t k H1 H2; auto.
  destruct t as [a pk sv mbh gn isb ks].
  destruct (rep_cell _ _ H1) as (c1 & Hc1 & Hi1). destruct (rep_cell _ _ H2) as (c2 & Hc2 & Hi2).
  simpl in Hc1, Hc2. unfold cell_is in *. simpl reroot in Hi2.
  destruct Hi1 as (Epk1 & Esv1 & _ & _ & Eisb1 & Eks1). destruct Hi2 as (Epk2 & Esv2 & _ & _ & Eisb2 & Eks2).
  cbn [retrieve aroot]. rewrite Hc1, Hc2, Epk1, Epk2, Esv1, Esv2, Eisb1, Eisb2, Eks1, Eks2.
  destruct (negb isb); auto.
  destruct ((length k =? 0) || key_eqb pk k); auto.
  destruct (negb (is_prefix pk k)); auto.
  rewrite !nth_map_oroot'.
  set (ok := nth (nth (cpl pk k) k 0) ks None).
  assert (Hk : forall k0, ok = Some k0 -> rep h' k0 /\ rep h k0).
  { intros k0 E. unfold ok in E.
    assert (In (Some k0) ks).
    { rewrite <- E. apply nth_In. destruct (Nat.lt_ge_cases (nth (cpl pk k) k 0) (length ks)); auto.
      rewrite nth_overflow in E by auto. discriminate. }
    split; [eapply (rep_kid h' (AN a' pk sv mbh gn isb ks)) | eapply (rep_kid h (AN a pk sv mbh gn isb ks))]; eauto. }
  rewrite (kid_pk_nonempty_rep h' h ok Hk).
  destruct (fg && (length (skipn (S (cpl pk k)) k) =? 0) && kid_pk_nonempty h (oroot ok)); auto.
  destruct ok as [k0|] eqn:Eok; simpl.
  - destruct (Hk k0 eq_refl). apply retrieve_rep; auto.
  - destruct f; reflexivity.
Qed.

Lemma node_keys_reroot fuel h' a' t p :
  depth (reroot a' t) < fuel -> rep h' (reroot a' t) ->
  node_keys fuel h' (Some a') p = pkeys t p.
Proof.
  intros Hd Hr. rewrite <- (aroot_reroot a' t) at 1.
  rewrite (node_keys_pkeys fuel h' (reroot a' t) p Hd Hr). apply pkeys_reroot.
Qed.

(* the view through a handle whose tree is a re-rooted copy of another handle's tree *)
Lemma view_tree_reroot st fr ts st' fr' ts' j j' a' t :
  Inv st fr ts -> Inv st' fr' ts' ->
  nth_error ts j = Some (Some t) -> nth_error ts' j' = Some (Some (reroot a' t)) ->
  view st' j' = view st j.
Proof.
  intros I I' Tj Tj'. unfold Model.view.
  destruct (nth_error (s_hs st) j) as [hd|] eqn:Hh.
  2:{ apply nth_error_None in Hh. rewrite <- (il _ _ _ _ I) in Hh. apply nth_error_lt in Tj. lia. }
  destruct (nth_error (s_hs st') j') as [hd'|] eqn:Hh'.
  2:{ apply nth_error_None in Hh'. rewrite <- (il _ _ _ _ I') in Hh'. apply nth_error_lt in Tj'. lia. }
  pose proof (it _ _ _ _ I j hd _ Hh Tj) as Ht. pose proof (it _ _ _ _ I' j' hd' _ Hh' Tj') as Ht'.
  pose proof (iw _ _ _ _ I) as Hw. pose proof (iw _ _ _ _ I') as Hw'.
  destruct (htree_some H _ _ _ Ht) as (Er & Hr & Hs & _ & Hc).
  destruct (htree_some H _ _ _ Ht') as (Er' & Hr' & Hs' & _ & Hc').
  f_equal.
  rewrite (hash_pure H (s_mem st) hd t), (hash_pure H (s_mem st') hd' (reroot a' t)); auto.
  rewrite hr_reroot. f_equal.
  unfold entries_handle. rewrite Er, Er'. rewrite aroot_reroot.
  rewrite (node_keys_pkeys (cfuel (s_mem st)) (hp (s_mem st)) t []) by (auto using depth_fuel).
  rewrite (node_keys_reroot (cfuel (s_mem st')) (hp (s_mem st')) a' t []) by (auto using depth_fuel).
  apply map_ext. intros k. f_equal.
  rewrite (retrieve_reroot _ (hp (s_mem st)) (hp (s_mem st')) a' t _ Hr Hr'). reflexivity.
Qed.

(* ---------- allocation keeps every old tree ---------- *)
Lemma old_tree_bounded st fr ts j tj :
  Inv st fr ts -> nth_error ts j = Some (Some tj) -> forall x, In x (addrs tj) -> (x < nx (s_mem st))%N.
Proof.
  intros I Tj x Hx.
  destruct (nth_error (s_hs st) j) as [hd|] eqn:Hh.
  2:{ apply nth_error_None in Hh. rewrite <- (il _ _ _ _ I) in Hh. apply nth_error_lt in Tj. lia. }
  destruct (htree_some H _ _ _ (it _ _ _ _ I j hd _ Hh Tj)) as (_ & Hr & _).
  eapply rep_bounded; eauto. apply (iw _ _ _ _ I).
Qed.

Lemma carried_alloc m c u :
  (forall x, In x (addrs u) -> (x < nx m)%N) -> carried H (hp m) (hp (fst (alloc m c))) u.
Proof.
  intros Hb. unfold alloc; simpl. apply carried_upd. intros Hin. specialize (Hb _ Hin). lia.
Qed.

Lemma htree_alloc m c hd ot :
  hwf m -> htree m hd ot -> htree (fst (alloc m c)) hd ot.
Proof.
  intros Hw Ht. destruct ot as [t|].
  - destruct (htree_some H _ _ _ Ht) as (Er & Hr & Hs & Hg & Hc).
    assert (Hb : forall x, In x (addrs t) -> (x < nx m)%N) by (intros; eapply rep_bounded; eauto).
    destruct (carried_alloc m c t Hb Hr) as (Hr' & Hc').
    apply htree_intro_some; auto.
  - apply htree_intro_none. apply (htree_none H _ _ Ht).
Qed.

(* ---------- NewEmptyTrie ---------- *)
Lemma nth_error_app_last {A} (l : list A) x j y :
  nth_error (l ++ [x]) j = Some y -> (j < length l /\ nth_error l j = Some y) \/ (j = length l /\ y = x).
Proof.
  intros E. destruct (Nat.lt_ge_cases j (length l)).
  - rewrite nth_error_app1 in E by lia. auto.
  - rewrite nth_error_app2 in E by lia. right. destruct (j - length l) as [|d] eqn:Ed; simpl in E.
    + inversion E. split; auto. lia.
    + destruct d; discriminate.
Qed.

Lemma newtrie_inv st fr ts :
  Inv st fr ts -> Inv (mkSt (s_mem st) (s_hs st ++ [mkH 0%N None false])) fr (ts ++ [None]).
Proof.
  intros I. pose proof (il _ _ _ _ I) as Hlen.
  constructor; simpl.
  - apply (iw _ _ _ _ I).
  - rewrite !app_length. simpl. lia.
  - intros j hd' o E T.
    destruct (nth_error_app_last _ _ _ _ E) as [(Hj & E0)|(-> & ->)];
      destruct (nth_error_app_last _ _ _ _ T) as [(Hj' & T0)|(Ej & ->)]; try lia.
    + apply (it _ _ _ _ I j hd' o E0 T0).
    + apply htree_intro_none. reflexivity.
  - intros a b hd' t t' Hab Hfr E Ta Tb.
    destruct (nth_error_app_last _ _ _ _ Ta) as [(Ha & Ta0)|(_ & Eo)]; [|discriminate].
    destruct (nth_error_app_last _ _ _ _ Tb) as [(Hb & Tb0)|(_ & Eo)]; [|discriminate].
    destruct (nth_error_app_last _ _ _ _ E) as [(_ & E0)|(-> & _)]; [|lia].
    apply (i2 _ _ _ _ I a b hd' t t'); auto.
  - intros a b t t' Ta Tb.
    destruct (nth_error_app_last _ _ _ _ Ta) as [(Ha & Ta0)|(_ & Eo)]; [|discriminate].
    destruct (nth_error_app_last _ _ _ _ Tb) as [(Hb & Tb0)|(_ & Eo)]; [|discriminate].
    apply (ij _ _ _ _ I a b t t'); auto.
Qed.

(* ---------- the root-copying snapshot ---------- *)
Lemma snapcopy_inv st fr ts i hd t c v :
  Inv st fr ts -> nth_error (s_hs st) i = Some hd -> nth_error ts i = Some (Some t) ->
  hp (s_mem st) (aroot t) = Some c ->
  Inv (mkSt (fst (alloc (s_mem st) c)) (s_hs st ++ [mkH (N.succ (h_gen hd)) (Some (nx (s_mem st))) v]))
      (i :: fr) (ts ++ [Some (reroot (nx (s_mem st)) t)]).
Proof.
  intros I Hi Ti Hc. pose proof (il _ _ _ _ I) as Hlen. pose proof (iw _ _ _ _ I) as Hw.
  destruct (htree_some H _ _ _ (it _ _ _ _ I i hd _ Hi Ti)) as (Er & Hr & Hs & Hg & Hco).
  assert (Hold0 : forall j tj, nth_error ts j = Some (Some tj) -> forall x, In x (addrs tj) -> (x < nx (s_mem st))%N).
  { intros j tj Tj x Hx. eapply old_tree_bounded; eauto. }
  set (m := s_mem st) in *. set (a' := nx m) in *. set (t' := reroot a' t).
  assert (Hbt : forall x, In x (addrs t) -> (x < a')%N) by (intros; eapply rep_bounded; eauto).
  assert (Hkb : forall k, In (Some k) (akids t) -> forall x, In x (addrs k) -> (x < a')%N).
  { intros k Hk x Hx. apply Hbt. apply in_addrs_root_or_kid. right; eauto. }
  pose proof Hold0 as Hold.
  (* the copied root in the new heap *)
  assert (Hci : cell_is c t).
  { destruct (rep_cell _ _ Hr) as (c0 & Hc0 & Hci0). rewrite Hc in Hc0. inversion Hc0; subst; auto. }
  assert (Hr' : rep (hp (fst (alloc m c))) t').
  { apply rep_unfold. unfold t'. rewrite aroot_reroot, akids_reroot. split.
    - exists c. split; [unfold alloc; simpl; apply upd_eq | apply cell_is_reroot; auto].
    - intros k Hk. apply (carried_alloc m c k (Hkb k Hk)). eapply rep_kid; eauto. }
  assert (Hs' : sep t').
  { unfold t'. destruct t as [a pk sv mbh gn isb ks]. unfold sep in *. simpl in *.
    inversion Hs; subst. constructor; auto.
    intros Hin. apply in_flat_map_o in Hin. destruct Hin as (k & Hk & Hx).
    specialize (Hkb k Hk _ Hx). unfold a' in Hkb. lia. }
  assert (Hb' : below (N.succ (h_gen hd)) t') by (apply below_reroot, good_below_succ; auto).
  assert (Hc' : cache_ok true (hp (fst (alloc m c))) t').
  { apply cache_ok_unfold. unfold t'. rewrite aroot_reroot, akids_reroot. split.
    - intros c0 Hc0. unfold alloc in Hc0; simpl in Hc0. fold a' in Hc0. rewrite upd_eq in Hc0. inversion Hc0; subst c0.
      apply cache_ok_unfold in Hco. destruct Hco as (Hroot & _). specialize (Hroot c Hc).
      unfold ok_at in *. rewrite mvn_reroot, hr_reroot. exact Hroot.
    - intros k Hk. apply (carried_alloc m c k (Hkb k Hk)).
      + eapply rep_kid; eauto.
      + eapply cache_ok_kid; eauto. }
  constructor; simpl.
  - apply hwf_alloc; auto.
  - rewrite !app_length. simpl. lia.
  - intros j hd' o E T.
    destruct (nth_error_app_last _ _ _ _ E) as [(Hj & E0)|(-> & ->)];
      destruct (nth_error_app_last _ _ _ _ T) as [(Hj' & T0)|(Ej & ->)]; try lia.
    + apply htree_alloc; auto. apply (it _ _ _ _ I j hd' o E0 T0).
    + apply htree_intro_some; auto.
      * simpl. unfold t'. now rewrite aroot_reroot.
      * simpl. apply below_good; auto.
  - intros a b hd' ta tb Hab Hfr E Ta Tb x Hx.
    assert (Hai : a <> i) by (intros ->; apply Hfr; simpl; auto).
    assert (Hfr' : ~ In a fr) by (intros ?; apply Hfr; simpl; auto).
    destruct (nth_error_app_last _ _ _ _ Ta) as [(Ha & Ta0)|(Ea & Eo)].
    + destruct (nth_error_app_last _ _ _ _ E) as [(_ & E0)|(Ea' & _)]; [|lia].
      destruct (nth_error_app_last _ _ _ _ Tb) as [(Hb & Tb0)|(Eb & Eo)].
      * apply (i2 _ _ _ _ I a b hd' ta tb); auto.
      * inversion Eo; subst tb. intros Hin. apply in_addrs_reroot in Hin. destruct Hin as [->|(k & Hk & Hxk)].
        -- apply own_addrs in Hx. specialize (Hold a ta Ta0 _ Hx). lia.
        -- apply (i2 _ _ _ _ I a i hd' ta t Hai Hfr' E0 Ta0 Ti x Hx).
           apply in_addrs_root_or_kid. right; eauto.
    + (* the new handle owns nothing yet *)
      inversion Eo; subst ta.
      destruct (nth_error_app_last _ _ _ _ E) as [(? & _)|(_ & ->)]; [lia|].
      simpl in Hx. rewrite (below_oldt _ _ Hb') in Hx. destruct Hx.
  - intros a b ta tb Ta Tb Hin.
    destruct (nth_error_app_last _ _ _ _ Ta) as [(Ha & Ta0)|(Ea & Eo)];
      destruct (nth_error_app_last _ _ _ _ Tb) as [(Hb & Tb0)|(Eb & Eo')].
    + apply (ij _ _ _ _ I a b ta tb); auto.
    + inversion Eo'; subst tb. unfold t' in Hin. rewrite aroot_reroot in Hin.
      specialize (Hold a ta Ta0 _ Hin). lia.
    + inversion Eo; subst ta. exfalso.
      apply in_addrs_reroot in Hin. destruct Hin as [E0|(k & Hk & Hxk)].
      * pose proof (Hold b tb Tb0 _ (aroot_in_addrs tb)). lia.
      * assert (Hin2 : In (aroot tb) (addrs t)) by (apply in_addrs_root_or_kid; right; eauto).
        pose proof (ij _ _ _ _ I i b t tb Ti Tb0 Hin2) as Eroot.
        eapply (sep_root_not_in_kid t k Hs Hk). rewrite <- Eroot. exact Hxk.
    + inversion Eo; inversion Eo'; subst. reflexivity.
Qed.

(* ---------- one step ---------- *)
Definition yfrozen_after (s : ystep) (fr : list nat) : list nat :=
  match ysnapped s with Some i => i :: fr | None => fr end.

Definition yallowed (s : ystep) (fr : list nat) : Prop :=
  forall i, ymutated_handle s = Some i -> ~ In i fr.

Lemma yfrozen_after_Y s0 fr : yfrozen_after (Y s0) fr = frozen_after (xcore s0) fr.
Proof. destruct s0 as [[]|]; reflexivity. Qed.

Lemma freeze_more st fr ts i : Inv st fr ts -> Inv st (i :: fr) ts.
Proof.
  intros I. constructor; try apply I.
  intros a b hd t t' Hab Hfr. apply (i2 _ _ _ _ I a b hd t t' Hab). intros Hin. apply Hfr. simpl; auto.
Qed.

Lemma yexec_inv st fr ts s :
  Inv st fr ts -> yallowed s fr ->
  exists ts', Inv (fst (yexec st s)) (yfrozen_after s fr) ts'
              /\ length (s_hs st) <= length (s_hs (fst (yexec st s)))
              /\ (forall j, ymutated_handle s <> Some j -> j < length ts -> nth_error ts' j = nth_error ts j)
              /\ (forall i, s = Y (Core (Snap i)) -> i < length ts -> nth_error ts' (length ts) = nth_error ts i)
              /\ (forall i v t, s = SnapCopy i v -> nth_error ts i = Some (Some t) ->
                    exists a', nth_error ts' (length ts) = Some (Some (reroot a' t))).
Proof.
  intros I Hal. destruct s as [s0|  |i v|i j].
  - destruct (xexec_inv H fd fg st fr ts s0 I Hal) as (ts' & I' & Hlen & Hsame & Hsnap).
    exists ts'. rewrite yfrozen_after_Y. simpl.
    split; [exact I'|]. split; [exact Hlen|]. split; [exact Hsame|]. split.
    + intros i E. inversion E; subst s0. apply Hsnap; auto.
    + intros i v t E; discriminate.
  - exists (ts ++ [None]). simpl. split; [apply newtrie_inv; auto|].
    split; [rewrite app_length; simpl; lia|]. split.
    + intros j _ Hj. apply nth_error_app1; auto.
    + split; intros; discriminate.
  - simpl. unfold yfrozen_after. simpl ysnapped.
    destruct (nth_error (s_hs st) i) as [hd|] eqn:Hi.
    2:{ simpl. exists ts. split; [apply freeze_more; auto|]. split; [lia|]. split; [auto|].
        split; [intros; discriminate|]. intros i0 v0 t E T0. inversion E; subst i0. exfalso.
        apply nth_error_None in Hi. rewrite <- (il _ _ _ _ I) in Hi. apply nth_error_lt in T0. lia. }
    destruct (nth_error ts i) as [ot|] eqn:Ti.
    2:{ apply nth_error_None in Ti. apply nth_error_lt in Hi. rewrite (il _ _ _ _ I) in Ti. lia. }
    pose proof (it _ _ _ _ I i hd ot Hi Ti) as Ht.
    destruct ot as [t|].
    + destruct (htree_some H _ _ _ Ht) as (Er & Hr & _). rewrite Er.
      destruct (rep_cell _ _ Hr) as (c & Hc & _). rewrite Hc.
      exists (ts ++ [Some (reroot (nx (s_mem st)) t)]). simpl.
      split; [apply snapcopy_inv; auto|].
      split; [rewrite app_length; simpl; lia|]. split.
      * intros j0 _ Hj. apply nth_error_app1; auto.
      * split; [intros; discriminate|].
        intros i0 v0 t0 E T0. inversion E; subst i0 v0. rewrite Ti in T0. inversion T0; subst t0.
        exists (nx (s_mem st)). rewrite nth_error_app2 by lia. rewrite Nat.sub_diag. reflexivity.
    + rewrite (htree_none H _ _ Ht). simpl.
      exists ts. split; [apply freeze_more; auto|]. split; [lia|]. split; [auto|].
      split; [intros; discriminate|]. intros i0 v0 t E T0. inversion E; subst i0. congruence.
  - simpl. unfold yfrozen_after. simpl ysnapped.
    destruct (nth_error (s_hs st) i) as [hd|] eqn:Hi; [destruct (nth_error (s_hs st) j) as [hj|] eqn:Hj|]; simpl.
    + exists ts. split; [apply setver_inv; auto|]. split; [rewrite set_nth_length; auto|]. split; auto.
      split; intros; discriminate.
    + exists ts. split; [exact I|]. split; [lia|]. split; auto. split; intros; discriminate.
    + exists ts. split; [exact I|]. split; [lia|]. split; auto. split; intros; discriminate.
Qed.

(* ---------- histories ---------- *)
Definition yfrozen_after_all (l : list ystep) (fr : list nat) : list nat :=
  fold_left (fun f s => yfrozen_after s f) l fr.

Lemma yfrozen_ok_cons fr s r :
  yfrozen_ok fr (s :: r) = true -> yallowed s fr /\ yfrozen_ok (yfrozen_after s fr) r = true.
Proof.
  simpl. intros E. apply andb_prop in E. destruct E as (E1 & E2). split.
  - intros i Hm. rewrite Hm in E1. intros Hin. apply negb_true_iff in E1.
    assert (existsb (Nat.eqb i) fr = true); [|congruence].
    apply existsb_exists. exists i. split; auto. apply Nat.eqb_refl.
  - exact E2.
Qed.

Lemma yfrozen_ok_app fr l1 l2 :
  yfrozen_ok fr (l1 ++ l2) = true -> yfrozen_ok fr l1 = true /\ yfrozen_ok (yfrozen_after_all l1 fr) l2 = true.
Proof.
  revert fr. induction l1 as [|s l1 IH]; intros fr E; simpl in *; auto.
  apply andb_prop in E. destruct E as (E1 & E2). rewrite E1. simpl.
  destruct (IH _ E2) as (? & ?). split; auto.
Qed.

Lemma yrun_inv : forall hist st fr ts,
  Inv st fr ts -> yfrozen_ok fr hist = true ->
  exists ts', Inv (yrun hist st) (yfrozen_after_all hist fr) ts'.
Proof.
  induction hist as [|s hist IH]; intros st fr ts I E; simpl.
  - eauto.
  - destruct (yfrozen_ok_cons _ _ _ E) as (Hal & E').
    destruct (yexec_inv st fr ts s I Hal) as (ts1 & I1 & _).
    apply (IH _ _ _ I1 E').
Qed.

Lemma yrun_app l1 l2 st : yrun (l1 ++ l2) st = yrun l2 (yrun l1 st).
Proof. unfold ModelY.yrun. apply fold_left_app. Qed.

(* No step of a fork history with child tries changes what is seen through any handle other than
   the one it mutates. *)
Theorem yisolation : forall hist,
  yfrozen_parents hist = true ->
  forall n s, nth_error hist n = Some s ->
  forall j, ymutated_handle s <> Some j ->
            j < length (s_hs (yrun (firstn n hist) init_state)) ->
            view (yrun (firstn (S n) hist) init_state) j = view (yrun (firstn n hist) init_state) j.
Proof.
  intros hist Hfz n s Hn j Hj Hlt.
  destruct (nth_error_split_firstn _ _ _ Hn) as (r & Er).
  unfold yfrozen_parents in Hfz. rewrite Er in Hfz.
  destruct (yfrozen_ok_app _ _ _ Hfz) as (Hfz1 & Hfz2).
  destruct (yrun_inv (firstn n hist) init_state [] [None] (init_inv H) Hfz1) as (ts & I).
  destruct (yfrozen_ok_cons _ _ _ Hfz2) as (Hal & _).
  destruct (yexec_inv _ _ _ s I Hal) as (ts' & I' & _ & Hsame & _).
  rewrite (firstn_S_nth _ _ _ Hn), yrun_app. simpl.
  assert (Hjt : j < length ts) by (rewrite (il _ _ _ _ I); auto).
  eapply (view_tree H fg); eauto.
Qed.

(* The trie Snapshot() makes of a child trie (a copy of the root node, the next generation, the
   parent's version) shows exactly what the child trie of the source shows. *)
Theorem ysnapcopy_view : forall hist,
  yfrozen_parents hist = true ->
  forall n i v, nth_error hist n = Some (SnapCopy i v) ->
  let before := yrun (firstn n hist) init_state in
  forall hd r, nth_error (s_hs before) i = Some hd -> h_root hd = Some r ->
  view (yrun (firstn (S n) hist) init_state) (length (s_hs before)) = view before i.
Proof.
  intros hist Hfz n i v Hn before hd r Hi Hroot. unfold before in *.
  destruct (nth_error_split_firstn _ _ _ Hn) as (rest & Er).
  unfold yfrozen_parents in Hfz. rewrite Er in Hfz.
  destruct (yfrozen_ok_app _ _ _ Hfz) as (Hfz1 & Hfz2).
  destruct (yrun_inv (firstn n hist) init_state [] [None] (init_inv H) Hfz1) as (ts & I).
  destruct (yfrozen_ok_cons _ _ _ Hfz2) as (Hal & _).
  destruct (yexec_inv _ _ _ (SnapCopy i v) I Hal) as (ts' & I' & _ & _ & _ & Hcopy).
  rewrite (firstn_S_nth _ _ _ Hn), yrun_app. simpl ModelY.yrun at 1.
  destruct (nth_error ts i) as [ot|] eqn:Ti.
  2:{ apply nth_error_None in Ti. apply nth_error_lt in Hi. rewrite (il _ _ _ _ I) in Ti. lia. }
  pose proof (it _ _ _ _ I i hd ot Hi Ti) as Ht.
  destruct ot as [t|]; [|rewrite (htree_none H _ _ Ht) in Hroot; discriminate].
  destruct (Hcopy i v t eq_refl Ti) as (a' & Tn).
  rewrite <- (il _ _ _ _ I).
  eapply view_tree_reroot; eauto.
Qed.

(* a root-sharing snapshot of a history with child tries *)
Theorem ysnapshot_view : forall hist,
  yfrozen_parents hist = true ->
  forall n i, nth_error hist n = Some (Y (Core (Snap i))) ->
  let before := yrun (firstn n hist) init_state in
  i < length (s_hs before) ->
  view (yrun (firstn (S n) hist) init_state) (length (s_hs before)) = view before i.
Proof.
  intros hist Hfz n i Hn before Hlt. unfold before in *.
  destruct (nth_error_split_firstn _ _ _ Hn) as (r & Er).
  unfold yfrozen_parents in Hfz. rewrite Er in Hfz.
  destruct (yfrozen_ok_app _ _ _ Hfz) as (Hfz1 & Hfz2).
  destruct (yrun_inv (firstn n hist) init_state [] [None] (init_inv H) Hfz1) as (ts & I).
  destruct (yfrozen_ok_cons _ _ _ Hfz2) as (Hal & _).
  destruct (yexec_inv _ _ _ (Y (Core (Snap i))) I Hal) as (ts' & I' & _ & _ & Hsnap & _).
  rewrite (firstn_S_nth _ _ _ Hn), yrun_app. simpl ModelY.yrun at 1.
  assert (Hit : i < length ts) by (rewrite (il _ _ _ _ I); auto).
  specialize (Hsnap i eq_refl Hit). rewrite <- (il _ _ _ _ I).
  eapply (view_tree2 H fg); eauto.
Qed.

End MainY.
