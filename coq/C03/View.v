(* C03/View.v — what a reader sees through a handle (Hash and Entries) is a function of the
   addressed tree alone, provided the caches are valid. *)
From Common Require Import Bytes.
From Trie Require Import Nibbles Encode.
From C03 Require Import Model Tree Cache.
From Coq Require Import Arith Lia.
Local Open Scope nat_scope.

(* ---------- keys ---------- *)
Definition pkeys_kids (f : atree -> key -> list key) (pfx : key) : list (option atree) -> nat -> list key :=
  fix go l i :=
    match l with
    | [] => []
    | None :: r => go r (S i)
    | Some k :: r => f k (pfx ++ [i]) ++ go r (S i)
    end.

Fixpoint pkeys (t : atree) (prefix : key) : list key :=
  match t with
  | AN _ pk sv _ _ isb ks =>
    if negb isb then [prefix ++ pk]
    else (if is_some sv then [prefix ++ pk] else []) ++ pkeys_kids pkeys (prefix ++ pk) ks 0
  end.

Lemma node_keys_none f h prefix : node_keys f h None prefix = [].
Proof. destruct f; reflexivity. Qed.

Lemma node_keys_pkeys : forall fuel h t prefix,
  depth t < fuel -> rep h t -> node_keys fuel h (Some (aroot t)) prefix = pkeys t prefix.
Proof.
  induction fuel as [|f IH]; intros h t prefix Hd Hr; [lia|].
  destruct t as [a pk sv mbh gn isb ks].
  destruct (rep_cell _ _ Hr) as (c & Hca & Hci). simpl in Hca.
  unfold cell_is in Hci. destruct Hci as (Epk & Esv & _ & _ & Eisb & Eks).
  cbn [node_keys aroot pkeys]. rewrite Hca, Epk, Esv, Eisb, Eks.
  destruct (negb isb); auto. f_equal.
  assert (Hk : forall k, In (Some k) ks -> depth k < f /\ rep h k).
  { intros k Hin. split; [|eapply rep_kid; eauto].
    assert (depth k < depth (AN a pk sv mbh gn isb ks)) by (apply depth_kid; auto). lia. }
  clear Hd Hr Hca Eks. generalize 0 as i. induction ks as [|[k|] ks IHk]; intros i; simpl; auto.
  - destruct (Hk k (or_introl eq_refl)) as (Hdk & Hrk).
    rewrite (IH h k _ Hdk Hrk). rewrite <- app_assoc. f_equal. apply IHk. intros; apply Hk; simpl; auto.
  - rewrite node_keys_none. simpl. apply IHk. intros; apply Hk; simpl; auto.
Qed.

(* ---------- point reads ---------- *)
Lemma nth_map_oroot' ks i : nth i (map oroot ks) None = oroot (nth i ks None).
Proof. change None with (oroot None) at 1. apply map_nth. Qed.

Lemma kid_pk_nonempty_rep h h' ok :
  (forall k, ok = Some k -> rep h k /\ rep h' k) ->
  kid_pk_nonempty h (oroot ok) = kid_pk_nonempty h' (oroot ok).
Proof.
  destruct ok as [k|]; simpl; auto. intros Hk. destruct (Hk k eq_refl) as (H1 & H2).
  destruct (rep_cell _ _ H1) as (c1 & -> & Hc1). destruct (rep_cell _ _ H2) as (c2 & -> & Hc2).
  destruct k. unfold cell_is in *. destruct Hc1 as (-> & _). destruct Hc2 as (-> & _). reflexivity.
Qed.

Lemma retrieve_rep fg : forall fuel h h' t k,
  rep h t -> rep h' t -> retrieve fg fuel h (Some (aroot t)) k = retrieve fg fuel h' (Some (aroot t)) k.
Proof.
  induction fuel as [|f IH]; intros h h' t k H1 H2; auto.
  destruct t as [a pk sv mbh gn isb ks].
  destruct (rep_cell _ _ H1) as (c1 & Hc1 & Hi1). destruct (rep_cell _ _ H2) as (c2 & Hc2 & Hi2).
  simpl in Hc1, Hc2. unfold cell_is in *.
  destruct Hi1 as (Epk1 & Esv1 & _ & _ & Eisb1 & Eks1). destruct Hi2 as (Epk2 & Esv2 & _ & _ & Eisb2 & Eks2).
  cbn [retrieve aroot]. rewrite Hc1, Hc2, Epk1, Epk2, Esv1, Esv2, Eisb1, Eisb2, Eks1, Eks2.
  destruct (negb isb); auto.
  destruct ((length k =? 0) || key_eqb pk k); auto.
  destruct (negb (is_prefix pk k)); auto.
  rewrite !nth_map_oroot'.
  set (ok := nth (nth (cpl pk k) k 0) ks None).
  assert (Hk : forall k0, ok = Some k0 -> rep h k0 /\ rep h' k0).
  { intros k0 E. unfold ok in E.
    assert (In (Some k0) ks).
    { rewrite <- E. apply nth_In. destruct (Nat.lt_ge_cases (nth (cpl pk k) k 0) (length ks)); auto.
      rewrite nth_overflow in E by auto. discriminate. }
    split; eapply rep_kid; eauto. }
  rewrite (kid_pk_nonempty_rep h h' ok Hk).
  destruct (fg && (length (skipn (S (cpl pk k)) k) =? 0) && kid_pk_nonempty h' (oroot ok)); auto.
  destruct ok as [k0|] eqn:Eok; simpl.
  - destruct (Hk k0 eq_refl). apply IH; auto.
  - destruct f; reflexivity.
Qed.

(* ---------- the pure view ---------- *)
Section PView.
Variable H : list byte -> list byte.
Variable fg : bool.

Lemma entries_rep m m' hd t :
  hwf m -> hwf m' -> rep (hp m) t -> rep (hp m') t -> sep t -> h_root hd = Some (aroot t) ->
  entries_handle fg m hd = entries_handle fg m' hd.
Proof.
  intros Hw Hw' Hr Hr' Hs Hroot. unfold entries_handle. rewrite Hroot.
  rewrite (node_keys_pkeys (cfuel m) (hp m) t []) by (auto using depth_fuel).
  rewrite (node_keys_pkeys (cfuel m') (hp m') t []) by (auto using depth_fuel).
  apply map_ext. intros k. f_equal. rewrite (retrieve_rep fg _ (hp m) (hp m') t _ Hr Hr'). reflexivity.
Qed.

Lemma hash_pure m hd t :
  hwf m -> rep (hp m) t -> sep t -> cache_ok H true (hp m) t -> h_root hd = Some (aroot t) ->
  snd (hash_handle H m hd) = hr H t.
Proof.
  intros Hw Hr Hs Hc Hroot. unfold hash_handle. rewrite Hroot.
  destruct (mvcalc_spec H (cfuel m) true true (hp m) t) as (h1 & E & _); auto using depth_fuel.
  rewrite E. reflexivity.
Qed.

End PView.
