(* C03/ProofsY.v — a computed witness for the child-trie histories of ModelY.v (the general proofs
   are in MainY.v). *)
From Common Require Import Bytes Blake2b.
From C03 Require Import Model ModelY Proofs.

(* ":child_storage:default:" ++ [0xaa] *)
Definition child_key_aa : list byte :=
  map n2b [58; 99; 104; 105; 108; 100; 95; 115; 116; 111; 114; 97; 103; 101; 58;
           100; 101; 102; 97; 117; 108; 116; 58; 170]%N.

Definition root_of (st : state) (i : nat) : list byte :=
  match view blake2b_256 false st i with Some (h, _) => h | None => [] end.

(* handle 0: the main trie; handle 1: its child trie (created by the first PutIntoChild) *)
Definition y_pre1 : list ystep :=
  [Y (Core (Put 0 k12 v3)); NewTrie; AdoptVer 1 0; Y (Core (HashOp 1)); Y (Core (Put 1 k12 v40));
   Y (Core (HashOp 1))].
Definition child_root1 : list byte :=
  Eval vm_compute in root_of (yrun blake2b_256 true false y_pre1 init_state) 1.
(* second PutIntoChild, WriteDirty, then Snapshot(): handle 2 = the snapshot, handle 3 = its child trie
   (a copy of the root of handle 1); the snapshot is raised to V1 and writes into its child trie *)
Definition y_pre2 : list ystep :=
  y_pre1 ++ [Y (Core (Put 0 child_key_aa child_root1))]
  ++ [AdoptVer 1 0; Y (Core (HashOp 1)); Y (Core (Put 1 k1234 v3)); Y (Core (HashOp 1))].
Definition child_root2 : list byte :=
  Eval vm_compute in root_of (yrun blake2b_256 true false y_pre2 init_state) 1.
Definition y_pre3 : list ystep :=
  y_pre2 ++ [Y (Core (Put 0 child_key_aa child_root2)); Y (Core (Commit 0)); Y (Core (Commit 1))]
  ++ snapshot_with_children 0 false [1]
  ++ [Y (Core (SetVer 2 true)); AdoptVer 3 2; Y (Core (HashOp 3)); Y (Core (Put 3 k12 v40)); Y (Core (Del 3 k1234));
      Y (Core (HashOp 3))].
Definition child_root3 : list byte :=
  Eval vm_compute in root_of (yrun blake2b_256 true false y_pre3 init_state) 3.
Definition child_hist : list ystep := y_pre3 ++ [Y (Core (Put 2 child_key_aa child_root3))].

(* the hypothesis holds; four handles; the snapshot's child trie (V1: the re-put 40-byte value is now
   hashed, one key deleted) and the snapshot differ from their sources, the sources still show what
   they showed when the snapshot was taken, and the parent tries hold the root hashes of their
   child tries *)
Lemma child_hist_nonvacuous :
  yfrozen_parents child_hist = true
  /\ (let st := yrun blake2b_256 true false child_hist init_state in
      let st0 := yrun blake2b_256 true false (firstn 16 child_hist) init_state in
      length (s_hs st) = 4
      /\ view blake2b_256 false st 0 = view blake2b_256 false st0 0
      /\ view blake2b_256 false st 1 = view blake2b_256 false st0 1
      /\ view blake2b_256 false st0 3 = view blake2b_256 false st0 1
      /\ view blake2b_256 false st 3 <> view blake2b_256 false st 1
      /\ view blake2b_256 false st 2 <> view blake2b_256 false st 0
      /\ root_of st 1 = child_root2 /\ root_of st 3 = child_root3 /\ child_root3 <> child_root2).
Proof. vm_compute. repeat split; try reflexivity; intro E; discriminate E. Qed.

(* Snapshot() of a trie with an EMPTY child trie registered (SetChild with an empty trie): the Go
   code dereferences the nil root; the model answers RPanic and leaves the state unchanged *)
Lemma snapcopy_nil_root_panics :
  yexec blake2b_256 true false (fst (yexec blake2b_256 true false init_state NewTrie)) (SnapCopy 1 false)
  = (fst (yexec blake2b_256 true false init_state NewTrie), RPanic).
Proof. reflexivity. Qed.
