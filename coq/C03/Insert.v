(* C03/Insert.v — the contract of insert / insertInLeaf / insertInBranch (repaired code, fx = true). *)
From Common Require Import Bytes.
From Trie Require Import Nibbles Encode.
From C03 Require Import Model Tree Cache Frame Ops Spec.
From Coq Require Import Arith Lia.
Local Open Scope nat_scope.

Lemma nth_set_nth {A} i j (v d : A) l :
  nth j (set_nth i v l) d = if (j =? i) && (i <? length l) then v else nth j l d.
Proof.
  destruct (Nat.eqb_spec j i) as [->|Hne]; simpl.
  - destruct (Nat.ltb_spec i (length l)).
    + apply nth_set_nth_eq; auto.
    + rewrite !nth_overflow; auto. rewrite set_nth_length; auto.
  - apply nth_set_nth_neq; auto.
Qed.

Lemma nth_map_oroot ks i : nth i (map oroot ks) None = oroot (nth i ks None).
Proof. change None with (oroot None) at 1. apply map_nth. Qed.

Lemma nth_no_kids i : nth i no_kids None = None.
Proof. unfold no_kids. destruct (Nat.lt_ge_cases i 16); [apply nth_repeat | apply nth_overflow; rewrite repeat_length; auto]. Qed.

Definition no_akids : list (option atree) := repeat None 16.
Lemma map_oroot_no_akids : map oroot no_akids = no_kids.
Proof. reflexivity. Qed.
Lemma nth_no_akids i : nth i no_akids None = None.
Proof. unfold no_akids. destruct (Nat.lt_ge_cases i 16); [apply nth_repeat | apply nth_overflow; rewrite repeat_length; auto]. Qed.
Lemma in_no_akids k : ~ In (Some k) no_akids.
Proof. unfold no_akids. intros Hin. apply repeat_spec in Hin. discriminate. Qed.

Lemma disjoint_no_akids : disjoint_kids no_akids.
Proof. intros i j ki kj x _ E. rewrite nth_no_akids in E. discriminate. Qed.

Lemma disjoint_set_nth ks idx nk :
  disjoint_kids ks ->
  (forall j kj x, j <> idx -> nth j ks None = Some kj -> In x (addrs nk) -> ~ In x (addrs kj)) ->
  disjoint_kids (set_nth idx (Some nk) ks).
Proof.
  intros Hd Hn i j ki kj x Hij. rewrite !nth_set_nth.
  destruct (Nat.eqb_spec i idx) as [->|Hi]; destruct (Nat.eqb_spec j idx) as [->|Hj]; simpl; try congruence.
  - destruct (idx <? length ks); [|apply Hd; auto].
    intros E1 E2. inversion E1; subst. eapply Hn; eauto.
  - destruct (idx <? length ks); [|apply Hd; auto].
    intros E1 E2. inversion E2; subst. intros H1 H2. eapply Hn; eauto.
  - apply Hd; auto.
Qed.

Lemma disjoint_set_nth_none ks idx : disjoint_kids ks -> disjoint_kids (set_nth idx None ks).
Proof.
  intros Hd i j ki kj x Hij. rewrite !nth_set_nth.
  destruct ((i =? idx) && (idx <? length ks)); [discriminate|].
  destruct ((j =? idx) && (idx <? length ks)); [discriminate|]. apply Hd; auto.
Qed.

Lemma in_set_nth_some {A} idx (v : option A) ks k :
  In (Some k) (set_nth idx v ks) -> v = Some k \/ exists j, j <> idx /\ nth j ks None = Some k.
Proof.
  intros Hin. apply in_set_nth_other with (d := None) in Hin.
  destruct Hin as [->|(j & ? & ? & ?)]; eauto.
Qed.

Section Insert.
Variable H : list byte -> list byte.
Variable g : N.
Variable v1 : bool.
Variable rt : option addr.

Notation is_root := (Model.is_root rt).
Notation frame := (Frame.frame H g rt).
Notation cache_ok := (Cache.cache_ok H).
Notation pre := (Spec.pre H g rt).
Notation post := (Spec.post H g rt).
Notation kid_ok := (Spec.kid_ok H g).

Lemma sep_disjoint_kids t : sep t -> disjoint_kids (akids t).
Proof. intros Hs i j ki kj x. apply sep_kids_disjoint; auto. Qed.

(* an old child whose cells are untouched so far *)
Lemma old_kid_ok m t m1 k :
  pre m t -> In (Some k) (akids t) -> (forall x, In x (addrs k) -> hp m1 x = hp m x) -> kid_ok m t m1 k.
Proof.
  intros Hp Hk Heq. pose proof (pre_kid H g rt m t k Hp Hk) as (_ & Hr & Hs & Hg & Hc & _).
  destruct Hp as (_ & _ & Hst & _ & _ & Hrt).
  destruct (is_root_kid rt t k Hst Hrt Hk) as (Hir & _). rewrite Hir in Hc.
  destruct (carried_eq H (hp m) (hp m1) k Heq Hr) as (Hr1 & Hc1).
  repeat split; auto.
  - eapply sep_root_not_in_kid; eauto.
  - intros x Hx. left. destruct (kid_in_addrs t k x Hk Hx); auto.
Qed.

(* the result of the operation on the child kt *)
Lemma new_kid_ok m t kt m1 tk :
  pre m t -> In (Some kt) (akids t) -> post m kt m1 tk -> kid_ok m t m1 tk.
Proof.
  intros Hp Hk (R1 & R2 & R3 & R4 & Hw1 & Hle & _ & P8 & _ & _).
  destruct Hp as (Hw & Hr & Hst & _ & _ & _).
  assert (Hna : ~ In (aroot t) (addrs tk)).
  { intros Hx. destruct (P8 _ Hx) as [Hx'|Hx'].
    - exact (sep_root_not_in_kid t kt Hst Hk Hx').
    - assert ((aroot t < nx m)%N) by (eapply rep_bounded; eauto; apply aroot_in_addrs). lia. }
  repeat split; auto.
  intros x Hx. destruct (P8 _ Hx) as [Hx'|Hx'].
  - left. destruct (kid_in_addrs t kt x Hk Hx'); auto.
  - right. split; auto. eapply rep_bounded; eauto.
Qed.

(* a leaf allocated since the operation began *)
Definition leaf_tree (a : addr) (pk : key) (v : value) : atree :=
  AN a pk (Some v) (must_hash v1 v) g false [].

Lemma leaf_facts h a pk v :
  h a = Some (new_leaf g v1 pk v) ->
  rep h (leaf_tree a pk v) /\ sep (leaf_tree a pk v) /\ good g (leaf_tree a pk v)
  /\ (forall rs, cache_ok rs h (leaf_tree a pk v)) /\ addrs (leaf_tree a pk v) = [a].
Proof.
  intros Hc. unfold leaf_tree. split; [|split; [|split; [|split]]].
  - split; [|simpl; auto]. exists (new_leaf g v1 pk v). split; auto. unfold cell_is, new_leaf; simpl. repeat split; auto.
  - unfold sep; simpl. constructor; auto. constructor.
  - simpl. split; [lia|]. split; [congruence | auto].
  - intros rs. eapply cache_ok_dirty_root; eauto. simpl. tauto.
  - reflexivity.
Qed.

Lemma fresh_leaf_kid_ok m t m1 pk v :
  hwf m1 -> (nx m <= nx m1)%N -> hwf m -> rep (hp m) t ->
  let m2 := fst (alloc m1 (new_leaf g v1 pk v)) in
  kid_ok m t m2 (leaf_tree (nx m1) pk v).
Proof.
  intros Hw1 Hle Hw Hr m2. unfold m2, alloc. simpl.
  destruct (leaf_facts (upd (hp m1) (nx m1) (new_leaf g v1 pk v)) (nx m1) pk v (upd_eq _ _ _)) as (L1 & L2 & L3 & L4 & L5).
  unfold Spec.kid_ok. simpl hp. simpl nx. rewrite L5.
  split; [exact L1|]. split; [exact L2|]. split; [exact L3|]. split; [apply L4|]. split.
  - intros [E|[]]. assert ((aroot t < nx m)%N) by (eapply rep_bounded; eauto; apply aroot_in_addrs).
    unfold leaf_tree in E; simpl in E. lia.
  - intros x [<-|[]]. right. lia.
Qed.

End Insert.
