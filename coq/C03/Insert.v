(* C03/Insert.v — the contract of insert / insertInLeaf / insertInBranch (repaired code, fx = true). *)
From Common Require Import Bytes.
From Trie Require Import Nibbles Encode.
From C03 Require Import Model Tree Cache Frame Ops Spec.
From Coq Require Import Arith Lia.
Local Open Scope nat_scope.

Lemma nth_set_nth {A} i j (v d : A) l :
  nth j (set_nth i v l) d = if (j =? i) && (i <? length l) then v else nth j l d.
Proof.
  destruct (Nat.eqb_spec j i) as [->|Hne]; simpl.
  - destruct (Nat.ltb_spec i (length l)).
    + apply nth_set_nth_eq; auto.
    + rewrite !nth_overflow; auto. rewrite set_nth_length; auto.
  - apply nth_set_nth_neq; auto.
Qed.

Lemma nth_map_oroot ks i : nth i (map oroot ks) None = oroot (nth i ks None).
Proof. change None with (oroot None) at 1. apply map_nth. Qed.

Lemma nth_no_kids i : nth i no_kids None = None.
Proof. unfold no_kids. destruct (Nat.lt_ge_cases i 16); [apply nth_repeat | apply nth_overflow; rewrite repeat_length; auto]. Qed.

Definition no_akids : list (option atree) := repeat None 16.
Lemma map_oroot_no_akids : map oroot no_akids = no_kids.
Proof. reflexivity. Qed.
Lemma nth_no_akids i : nth i no_akids None = None.
Proof. unfold no_akids. destruct (Nat.lt_ge_cases i 16); [apply nth_repeat | apply nth_overflow; rewrite repeat_length; auto]. Qed.
Lemma in_no_akids k : ~ In (Some k) no_akids.
Proof. unfold no_akids. intros Hin. apply repeat_spec in Hin. discriminate. Qed.

Lemma disjoint_no_akids : disjoint_kids no_akids.
Proof. intros i j ki kj x _ E. rewrite nth_no_akids in E. discriminate. Qed.

Lemma disjoint_set_nth ks idx nk :
  disjoint_kids ks ->
  (forall j kj x, j <> idx -> nth j ks None = Some kj -> In x (addrs nk) -> ~ In x (addrs kj)) ->
  disjoint_kids (set_nth idx (Some nk) ks).
Proof.
  intros Hd Hn i j ki kj x Hij. rewrite !nth_set_nth.
  destruct (Nat.eqb_spec i idx) as [->|Hi]; destruct (Nat.eqb_spec j idx) as [->|Hj]; simpl; try congruence.
  - destruct (idx <? length ks); [|apply Hd; auto].
    intros E1 E2. inversion E1; subst. eapply Hn; eauto.
  - destruct (idx <? length ks); [|apply Hd; auto].
    intros E1 E2. inversion E2; subst. intros H1 H2. eapply Hn; eauto.
  - apply Hd; auto.
Qed.

Lemma disjoint_set_nth_none ks idx : disjoint_kids ks -> disjoint_kids (set_nth idx None ks).
Proof.
  intros Hd i j ki kj x Hij. rewrite !nth_set_nth.
  destruct ((i =? idx) && (idx <? length ks)); [discriminate|].
  destruct ((j =? idx) && (idx <? length ks)); [discriminate|]. apply Hd; auto.
Qed.

Lemma in_set_nth_some {A} idx (v : option A) ks k :
  In (Some k) (set_nth idx v ks) -> v = Some k \/ exists j, j <> idx /\ nth j ks None = Some k.
Proof.
  intros Hin. apply in_set_nth_other with (d := None) in Hin.
  destruct Hin as [->|(j & ? & ? & ?)]; eauto.
Qed.

Section Insert.
Variable H : list byte -> list byte.
Variable g : N.
Variable v1 : bool.
Variable rt : option addr.

Notation is_root := (Model.is_root rt).
Notation frame := (Frame.frame H g rt).
Notation cache_ok := (Cache.cache_ok H).
Notation pre := (Spec.pre H g rt).
Notation post := (Spec.post H g rt).
Notation kid_ok := (Spec.kid_ok H g).

Lemma sep_disjoint_kids t : sep t -> disjoint_kids (akids t).
Proof. intros Hs i j ki kj x. apply sep_kids_disjoint; auto. Qed.

(* an old child whose cells are untouched so far *)
Lemma old_kid_ok m t m1 k :
  pre m t -> In (Some k) (akids t) -> (forall x, In x (addrs k) -> hp m1 x = hp m x) -> kid_ok m t m1 k.
Proof.
  intros Hp Hk Heq. pose proof (pre_kid H g rt m t k Hp Hk) as (_ & Hr & Hs & Hg & Hc & _).
  destruct Hp as (_ & _ & Hst & _ & _ & Hrt).
  destruct (is_root_kid rt t k Hst Hrt Hk) as (Hir & _). rewrite Hir in Hc.
  destruct (carried_eq H (hp m) (hp m1) k Heq Hr) as (Hr1 & Hc1).
  repeat split; auto.
  - eapply sep_root_not_in_kid; eauto.
  - intros x Hx. left. destruct (kid_in_addrs t k x Hk Hx); auto.
Qed.

(* the result of the operation on the child kt *)
Lemma new_kid_ok m t kt m1 tk :
  pre m t -> In (Some kt) (akids t) -> post m kt m1 tk -> kid_ok m t m1 tk.
Proof.
  intros Hp Hk (R1 & R2 & R3 & R4 & Hw1 & Hle & _ & P8 & _ & _).
  destruct Hp as (Hw & Hr & Hst & _ & _ & _).
  assert (Hna : ~ In (aroot t) (addrs tk)).
  { intros Hx. destruct (P8 _ Hx) as [Hx'|Hx'].
    - exact (sep_root_not_in_kid t kt Hst Hk Hx').
    - assert ((aroot t < nx m)%N) by (eapply rep_bounded; eauto; apply aroot_in_addrs). lia. }
  repeat split; auto.
  intros x Hx. destruct (P8 _ Hx) as [Hx'|Hx'].
  - left. destruct (kid_in_addrs t kt x Hk Hx'); auto.
  - right. split; auto. eapply rep_bounded; eauto.
Qed.

(* a leaf allocated since the operation began *)
Definition leaf_tree (a : addr) (pk : key) (v : value) : atree :=
  AN a pk (Some v) (must_hash v1 v) g false [].

Lemma leaf_facts h a pk v :
  h a = Some (new_leaf g v1 pk v) ->
  rep h (leaf_tree a pk v) /\ sep (leaf_tree a pk v) /\ good g (leaf_tree a pk v)
  /\ (forall rs, cache_ok rs h (leaf_tree a pk v)) /\ addrs (leaf_tree a pk v) = [a].
Proof.
  intros Hc. unfold leaf_tree. split; [|split; [|split; [|split]]].
  - split; [|simpl; auto]. exists (new_leaf g v1 pk v). split; auto. unfold cell_is, new_leaf; simpl. repeat split; auto.
  - unfold sep; simpl. constructor; auto. constructor.
  - simpl. split; [lia|]. split; [congruence | auto].
  - intros rs. eapply cache_ok_dirty_root; eauto. simpl. tauto.
  - reflexivity.
Qed.

Lemma fresh_leaf_kid_ok m t m1 pk v :
  hwf m1 -> (nx m <= nx m1)%N -> hwf m -> rep (hp m) t ->
  let m2 := fst (alloc m1 (new_leaf g v1 pk v)) in
  kid_ok m t m2 (leaf_tree (nx m1) pk v).
Proof.
  intros Hw1 Hle Hw Hr m2. unfold m2, alloc. simpl.
  destruct (leaf_facts (upd (hp m1) (nx m1) (new_leaf g v1 pk v)) (nx m1) pk v (upd_eq _ _ _)) as (L1 & L2 & L3 & L4 & L5).
  unfold Spec.kid_ok. simpl hp. simpl nx. rewrite L5.
  split; [exact L1|]. split; [exact L2|]. split; [exact L3|]. split; [apply L4|]. split.
  - intros [E|[]]. assert ((aroot t < nx m)%N) by (eapply rep_bounded; eauto; apply aroot_in_addrs).
    unfold leaf_tree in E; simpl in E. lia.
  - intros x [<-|[]]. right. lia.
Qed.

Definition result (m : mem) (t : atree) (m' : mem) (a' : addr) (mut : bool) : Prop :=
  (mut = false /\ m' = m /\ a' = aroot t) \/ (mut = true /\ exists t', aroot t' = a' /\ post m t m' t').

Lemma pre_old_kids m t : pre m t -> forall k, In (Some k) (akids t) -> kid_ok m t m k.
Proof. intros Hp k Hk. apply old_kid_ok; auto. Qed.

Lemma pre_copy m t : pre m t -> agen t <> g -> rep (hp m) t /\ cache_ok (is_root (aroot t)) (hp m) t.
Proof. intros (_ & ? & _ & _ & ? & _) _. auto. Qed.

Lemma replace_value_spec m a pk sv mbh gn isb ks c value csv m' a' mut :
  let t := AN a pk sv mbh gn isb ks in
  pre m t -> hp m a = Some c -> cell_is c t ->
  replace_value H true g v1 rt m a c value csv = (m', a', mut) ->
  result m t m' a' mut.
Proof.
  intros t Hp Hca Hci. unfold replace_value.
  destruct (Bool.eqb (c_mbh c) (must_hash v1 value) && sv_eqb (c_sv c) value).
  - intros E; inversion E; subst. left; auto.
  - destruct (prep H g rt m a csv) as [m1 a1] eqn:Ep. intros E. injection E as Em Ea Emut. subst m' a' mut.
    right. split; auto.
    exists (AN a1 pk (Some value) (must_hash v1 value) g isb ks). split; auto.
    pose proof Hp as (Hw & _).
    eapply (finish H g rt m t m c csv m1 a1); eauto.
    + lia.
    + apply frame_refl.
    + apply pre_copy; auto.
    + intros c1 a0 Hd Hg Hpk Hmbh Hisb Hk Hsv. unfold cell_is in *. simpl.
      destruct Hci as (? & ? & ? & ? & ? & ?). repeat split; auto; congruence.
    + exact (pre_old_kids m t Hp).
    + destruct Hp as (_ & _ & Hs & _). apply (sep_disjoint_kids t Hs).
Qed.

(* ---- kid lists built from the empty children array ---- *)
Lemma in_one_kid i (k0 k : atree) : In (Some k) (set_nth i (Some k0) no_akids) -> k = k0.
Proof.
  intros Hin. apply in_set_nth_some in Hin. destruct Hin as [E|(j & _ & E)]; [congruence|].
  rewrite nth_no_akids in E. discriminate.
Qed.

Lemma disjoint_one_kid i k0 : disjoint_kids (set_nth i (Some k0) no_akids).
Proof.
  apply disjoint_set_nth; [apply disjoint_no_akids|]. intros j kj x _ E. rewrite nth_no_akids in E. discriminate.
Qed.

Lemma in_two_kids i j (k0 k1 k : atree) :
  In (Some k) (set_nth j (Some k1) (set_nth i (Some k0) no_akids)) -> k = k1 \/ k = k0.
Proof.
  intros Hin. apply in_set_nth_some in Hin. destruct Hin as [E|(j' & _ & E)]; [left; congruence|].
  right. apply in_one_kid with (i := i). rewrite <- E. apply nth_In.
  destruct (Nat.lt_ge_cases j' (length (set_nth i (Some k0) no_akids))); auto.
  rewrite nth_overflow in E by auto. discriminate.
Qed.

Lemma disjoint_two_kids i j k0 k1 :
  (forall x, In x (addrs k1) -> ~ In x (addrs k0)) ->
  disjoint_kids (set_nth j (Some k1) (set_nth i (Some k0) no_akids)).
Proof.
  intros Hd. apply disjoint_set_nth; [apply disjoint_one_kid|].
  intros j' kj x _ E Hx. assert (kj = k0).
  { apply in_one_kid with (i := i). rewrite <- E. apply nth_In.
    destruct (Nat.lt_ge_cases j' (length (set_nth i (Some k0) no_akids))); auto.
    rewrite nth_overflow in E by auto. discriminate. }
  subst. auto.
Qed.

(* prepare the root of t and shorten its partial key: the node that will hang below a new branch *)
Lemma move_down m a pk sv mbh gn isb ks c pk2 m1 a1 :
  let t := AN a pk sv mbh gn isb ks in
  pre m t -> hp m a = Some c -> cell_is c t ->
  prep H g rt m a true = (m1, a1) ->
  post m t (wr m1 a1 (set_pk_c pk2)) (AN a1 pk2 sv mbh g isb ks).
Proof.
  intros t Hp Hca Hci Ep. pose proof Hp as (Hw & _).
  eapply (finish H g rt m t m c true m1 a1); eauto.
  - lia.
  - apply frame_refl.
  - apply pre_copy; auto.
  - intros c1 a0 Hd Hg Hpk Hmbh Hisb Hk Hsv. unfold cell_is in *. simpl.
    destruct Hci as (? & ? & ? & ? & ? & ?).
    assert (c_sv c1 = c_sv c) by (rewrite Hsv; destruct (N.eqb (c_gen c) g); auto).
    repeat split; auto; congruence.
  - exact (pre_old_kids m t Hp).
  - destruct Hp as (_ & _ & Hs & _). apply (sep_disjoint_kids t Hs).
Qed.

(* facts about the result of an operation, as a child of a new node *)
Lemma post_kid_facts m t m' t' :
  pre m t -> post m t m' t' ->
  rep (hp m') t' /\ sep t' /\ good g t' /\ cache_ok false (hp m') t' /\ placed g m t (nx m') t'.
Proof.
  intros Hp Hq. pose proof (post_placed H g rt m t m' t' Hp Hq) as Hpl.
  destruct Hq as (R1 & R2 & R3 & R4 & _). repeat split; auto.
Qed.

Lemma hwf_alloc m c : hwf m -> hwf (fst (alloc m c)).
Proof. intros Hw x Hx. unfold alloc in *. simpl in *. rewrite upd_neq by lia. apply Hw. lia. Qed.

Lemma new_branch_is a pk sv mbh ks : cell_is (new_branch g pk sv mbh (map oroot ks)) (AN a pk sv mbh g true ks).
Proof. unfold cell_is, new_branch; simpl. repeat split; auto. Qed.

Lemma placed_mono m t n1 n2 k : (n1 <= n2)%N -> placed g m t n1 k -> placed g m t n2 k.
Proof. intros Hle Hp x Hx. destruct (Hp x Hx) as [?|[? ?]]; [left; auto | right; split; auto; lia]. Qed.

(* a new branch over the moved node T1 (and possibly a new leaf) *)
Lemma hang_one m t m2 T1 i pk' sv' mbh' :
  pre m t -> post m t m2 T1 ->
  post m t (fst (alloc m2 (new_branch g pk' sv' mbh' (set_nth i (Some (aroot T1)) no_kids))))
       (AN (nx m2) pk' sv' mbh' g true (set_nth i (Some T1) no_akids)).
Proof.
  intros Hp Hq. pose proof Hq as (_ & _ & _ & _ & Hw2 & Hle & F & _).
  apply fresh_node_post; auto.
  - intros a'. replace (set_nth i (Some (aroot T1)) no_kids) with (map oroot (set_nth i (Some T1) no_akids)).
    + apply new_branch_is.
    + rewrite map_set_nth. reflexivity.
  - intros k Hin. apply in_one_kid in Hin. subst k. apply post_kid_facts; auto.
  - apply disjoint_one_kid.
Qed.

Lemma hang_two m t m2 T1 i j lpk lv pk' sv' mbh' :
  pre m t -> post m t m2 T1 ->
  let m3 := fst (alloc m2 (new_leaf g v1 lpk lv)) in
  post m t (fst (alloc m3 (new_branch g pk' sv' mbh'
                             (set_nth j (Some (nx m2)) (set_nth i (Some (aroot T1)) no_kids)))))
       (AN (nx m3) pk' sv' mbh' g true (set_nth j (Some (leaf_tree (nx m2) lpk lv)) (set_nth i (Some T1) no_akids))).
Proof.
  intros Hp Hq m3. pose proof Hq as (_ & _ & _ & _ & Hw2 & Hle & F & _).
  destruct (post_kid_facts m t m2 T1 Hp Hq) as (K1 & K2 & K3 & K4 & K5).
  assert (Hb1 : forall x, In x (addrs T1) -> (x < nx m2)%N) by (intros; eapply rep_bounded; eauto).
  assert (Hn : ~ In (nx m2) (addrs T1)) by (intros Hx; specialize (Hb1 _ Hx); lia).
  destruct (leaf_facts (hp m3) (nx m2) lpk lv) as (L1 & L2 & L3 & L4 & L5).
  { unfold m3, alloc; simpl. apply upd_eq. }
  apply fresh_node_post; auto.
  - apply hwf_alloc; auto.
  - unfold m3, alloc; simpl. lia.
  - eapply frame_trans with (n1 := nx m); [lia | exact F |].
    unfold m3, alloc; simpl. apply frame_fresh; [lia|]. intros c0 Hc0. rewrite Hw2 in Hc0 by lia. discriminate.
  - intros a'.
    replace (set_nth j (Some (nx m2)) (set_nth i (Some (aroot T1)) no_kids))
      with (map oroot (set_nth j (Some (leaf_tree (nx m2) lpk lv)) (set_nth i (Some T1) no_akids))).
    + apply new_branch_is.
    + rewrite !map_set_nth. reflexivity.
  - intros k Hin. apply in_two_kids in Hin. destruct Hin as [->| ->].
    + split; [exact L1|]. split; [exact L2|]. split; [exact L3|]. split; [apply L4|].
      intros x Hx. rewrite L5 in Hx. destruct Hx as [<-|[]]. right. unfold m3, alloc; simpl. lia.
    + destruct (carried_upd H (hp m2) (nx m2) (new_leaf g v1 lpk lv) T1 Hn K1) as (C1 & C2).
      split; [exact C1|]. split; [exact K2|]. split; [exact K3|]. split; [apply C2; auto|].
      eapply placed_mono; [|exact K5]. unfold m3, alloc; simpl. lia.
  - apply disjoint_two_kids. intros x Hx. rewrite L5 in Hx. destruct Hx as [<-|[]]. auto.
Qed.

(* a new branch over a new leaf only, or over nothing: the old node is dropped *)
Lemma hang_leaf m t j lpk lv pk' sv' mbh' :
  pre m t ->
  let m1 := fst (alloc m (new_leaf g v1 lpk lv)) in
  post m t (fst (alloc m1 (new_branch g pk' sv' mbh' (set_nth j (Some (nx m)) no_kids))))
       (AN (nx m1) pk' sv' mbh' g true (set_nth j (Some (leaf_tree (nx m) lpk lv)) no_akids)).
Proof.
  intros Hp m1. pose proof Hp as (Hw & _).
  destruct (leaf_facts (hp m1) (nx m) lpk lv) as (L1 & L2 & L3 & L4 & L5).
  { unfold m1, alloc; simpl. apply upd_eq. }
  apply fresh_node_post; auto.
  - apply hwf_alloc; auto.
  - unfold m1, alloc; simpl. lia.
  - unfold m1, alloc; simpl. apply frame_fresh; [lia|]. intros c0 Hc0. rewrite Hw in Hc0 by lia. discriminate.
  - intros a'. replace (set_nth j (Some (nx m)) no_kids)
      with (map oroot (set_nth j (Some (leaf_tree (nx m) lpk lv)) no_akids)).
    + apply new_branch_is.
    + rewrite map_set_nth. reflexivity.
  - intros k Hin. apply in_one_kid in Hin. subst k.
    split; [exact L1|]. split; [exact L2|]. split; [exact L3|]. split; [apply L4|].
    intros x Hx. rewrite L5 in Hx. destruct Hx as [<-|[]]. right. unfold m1, alloc; simpl. lia.
  - apply disjoint_one_kid.
Qed.

Lemma hang_none m t pk' sv' mbh' :
  pre m t ->
  post m t (fst (alloc m (new_branch g pk' sv' mbh' no_kids))) (AN (nx m) pk' sv' mbh' g true no_akids).
Proof.
  intros Hp. pose proof Hp as (Hw & _).
  apply fresh_node_post; auto.
  - lia.
  - apply frame_refl.
  - intros a'. rewrite <- map_oroot_no_akids. apply new_branch_is.
  - intros k Hin. destruct (in_no_akids k Hin).
  - apply disjoint_no_akids.
Qed.

Lemma alloc_eq m c : alloc m c = (fst (alloc m c), nx m).
Proof. reflexivity. Qed.

Lemma insert_in_leaf_spec m a pk sv mbh gn isb ks c k value m' a' mut :
  let t := AN a pk sv mbh gn isb ks in
  pre m t -> hp m a = Some c -> cell_is c t ->
  insert_in_leaf H true g v1 rt m a c k value = (m', a', mut) ->
  result m t m' a' mut.
Proof.
  intros t Hp Hca Hci. unfold insert_in_leaf.
  assert (Epk : c_pk c = pk) by (unfold t, cell_is in Hci; tauto). rewrite Epk.
  destruct (key_eqb pk k).
  { apply replace_value_spec; auto. }
  destruct (length k =? cpl k pk).
  - destruct (length k <? length pk).
    + destruct (prep H g rt m a true) as [m1 a1] eqn:Ep.
      rewrite alloc_eq. intros E. injection E as Em Ea Emut. subst m' a' mut.
      right. split; auto.
      pose proof (move_down m a pk sv mbh gn isb ks c (skipn (S (cpl k pk)) pk) m1 a1 Hp Hca Hci Ep) as HT1.
      eexists. split; [|exact (hang_one m t _ _ (nth (cpl k pk) pk 0) (firstn (cpl k pk) k) (Some value) (must_hash v1 value) Hp HT1)].
      reflexivity.
    + rewrite alloc_eq. intros E. injection E as Em Ea Emut. subst m' a' mut.
      right. split; auto. eexists. split; [|exact (hang_none m t (firstn (cpl k pk) k) (Some value) (must_hash v1 value) Hp)]. reflexivity.
  - destruct (length pk =? cpl k pk).
    + rewrite (alloc_eq m). cbv zeta. rewrite alloc_eq. intros E. injection E as Em Ea Emut. subst m' a' mut.
      right. split; auto. eexists.
      split; [|exact (hang_leaf m t (nth (cpl k pk) k 0) (skipn (S (cpl k pk)) k) value (firstn (cpl k pk) k) (c_sv c) (c_mbh c) Hp)].
      reflexivity.
    + destruct (prep H g rt m a true) as [m1 a1] eqn:Ep.
      rewrite (alloc_eq (wr m1 a1 _)). cbv zeta. rewrite alloc_eq. intros E. injection E as Em Ea Emut. subst m' a' mut.
      right. split; auto.
      pose proof (move_down m a pk sv mbh gn isb ks c (skipn (S (cpl k pk)) pk) m1 a1 Hp Hca Hci Ep) as HT1.
      eexists.
      split; [|exact (hang_two m t _ _ (nth (cpl k pk) pk 0) (nth (cpl k pk) k 0) (skipn (S (cpl k pk)) k) value
                                (firstn (cpl k pk) k) None false Hp HT1)].
      reflexivity.
Qed.

Lemma prefix_neq_nonempty (pk k : key) : is_prefix pk k = true -> key_eqb k pk = false -> 0 < length k.
Proof. destruct k, pk; simpl; intros; try discriminate; lia. Qed.

Lemma skipn_lt {A} n (l : list A) : 0 < length l -> length (skipn (S n) l) < length l.
Proof. intros. rewrite skipn_length. lia. Qed.

(* an old cell of the tree is not touched by allocating *)
Lemma alloc_old m c x : hwf m -> (x < nx m)%N -> hp (fst (alloc m c)) x = hp m x.
Proof. intros _ Hx. unfold alloc; simpl. apply upd_neq. lia. Qed.

Lemma insert_spec : forall fuel m t k value m' a' mut,
  length k < fuel -> pre m t ->
  insert H true g v1 rt fuel m (Some (aroot t)) k value = (m', a', mut) -> result m t m' a' mut.
Proof.
  induction fuel as [|f IH]; intros m t k value m' a' mut Hlen Hp; [lia|].
  destruct t as [a pk sv mbh gn isb ks]. set (t := AN a pk sv mbh gn isb ks) in *.
  pose proof Hp as (Hw & Hr & Hs & Hg & Hc & Hrt).
  destruct (rep_cell _ _ Hr) as (c & Hca & Hci). simpl in Hca.
  assert (Hb : forall x, In x (addrs t) -> (x < nx m)%N) by (intros; eapply rep_bounded; eauto).
  pose proof Hci as Hci'. unfold t, cell_is in Hci'. destruct Hci' as (Epk & Esv & Embh & Egn & Eisb & Eks).
  change (aroot t) with a. cbn [insert]. rewrite Hca.
  destruct (negb (c_isb c)).
  { apply insert_in_leaf_spec; auto. }
  rewrite Epk.
  destruct (key_eqb k pk) eqn:Ekeq.
  { apply replace_value_spec; auto. }
  destruct (is_prefix pk k) eqn:Epre.
  - (* the key continues below this branch *)
    set (n := cpl k pk). set (idx := nth n k 0). set (rk := skipn (S n) k).
    rewrite Eks, nth_map_oroot.
    destruct (nth idx ks None) as [kt|] eqn:Ekt; simpl oroot; cbv iota beta.
    + (* existing child: recurse *)
      destruct (nth_some_in _ _ _ Ekt) as (Hkin & _).
      assert (Hpk : pre m kt) by (apply (pre_kid H g rt m t kt Hp Hkin)).
      destruct (insert H true g v1 rt f m (Some (aroot kt)) rk value) as [[m1 ch'] mutated] eqn:Erec.
      assert (Hlen' : length rk < f).
      { pose proof (prefix_neq_nonempty pk k Epre Ekeq). pose proof (skipn_lt n k H0). unfold rk. lia. }
      destruct (IH m kt rk value m1 ch' mutated Hlen' Hpk Erec) as [(-> & -> & ->)|(-> & tk & Htk & Hq)].
      * simpl. intros E. injection E as Em Ea Emut. subst. left; auto.
      * simpl. destruct (prep H g rt m1 a true) as [m2 a2] eqn:Ep.
        intros E. injection E as Em Ea Emut. subst m' a' mut. right. split; auto.
        exists (AN a2 pk sv mbh g isb (set_nth idx (Some tk) ks)). split; auto.
        pose proof Hq as (_ & _ & _ & _ & Hw1 & Hle1 & F1 & P8 & _).
        assert (Hna : ~ In a (addrs kt)) by (apply (sep_root_not_in_kid t kt Hs Hkin)).
        assert (Hca1 : hp m1 a = Some c).
        { rewrite (fr_out _ _ _ _ _ _ _ F1); auto. apply Hb. apply (aroot_in_addrs t). }
        eapply (finish H g rt m t m1 c true m2 a2); eauto.
        -- eapply frame_lift_kid; eauto.
        -- intros Hng. assert (Hold : oldt g kt).
           { apply good_unfold in Hg. destruct Hg as (_ & Ho & _). apply Ho; auto. }
           split.
           ++ eapply frame_rep; eauto. intros x Hx. rewrite Hold in Hx. destruct Hx.
           ++ apply (fr_cache _ _ _ _ _ _ _ F1); auto.
              ** intros x Hx. rewrite Hold in Hx. destruct Hx.
              ** intros r Er Hin. specialize (Hrt r Er Hin). simpl in Hrt. subst r. split; auto.
                 unfold Model.is_root. rewrite Er. apply N.eqb_refl.
        -- intros c1 a0 Hd Hg1 Hpk1 Hmbh1 Hisb1 Hk1 Hsv1. unfold cell_is. simpl.
           assert (c_sv c1 = c_sv c) by (rewrite Hsv1; destruct (N.eqb (c_gen c) g); auto).
           rewrite map_set_nth. simpl oroot. rewrite Htk. repeat split; auto; congruence.
        -- intros k0 Hin. apply in_set_nth_some in Hin. destruct Hin as [E|(j & Hj & E)].
           ++ inversion E; subst k0. eapply new_kid_ok; eauto.
           ++ destruct (nth_some_in _ _ _ E) as (Hin0 & _). apply old_kid_ok; auto.
              intros x Hx. apply (fr_out _ _ _ _ _ _ _ F1).
              ** apply Hb. apply (kid_in_addrs t k0 x Hin0 Hx).
              ** intros Hx'. eapply (sep_kids_disjoint t j idx k0 kt x); eauto.
        -- apply disjoint_set_nth; [apply (sep_disjoint_kids t Hs)|].
           intros j kj x Hj E Hx Hx'. destruct (nth_some_in _ _ _ E) as (Hin0 & _).
           destruct (P8 _ Hx) as [Hx0|Hx0].
           ++ eapply (sep_kids_disjoint t idx j kt kj x); eauto.
           ++ assert ((x < nx m)%N) by (apply Hb; apply (kid_in_addrs t kj x Hin0 Hx')). lia.
    + (* no child there: a new leaf *)
      rewrite (alloc_eq m). cbv zeta.
      set (m1 := fst (alloc m (new_leaf g v1 rk value))).
      destruct (prep H g rt m1 a true) as [m2 a2] eqn:Ep.
      intros E. injection E as Em Ea Emut. subst m' a' mut. right. split; auto.
      exists (AN a2 pk sv mbh g isb (set_nth idx (Some (leaf_tree (nx m) rk value)) ks)). split; auto.
      assert (Hw1 : hwf m1) by (apply hwf_alloc; auto).
      assert (Hold : forall x, (x < nx m)%N -> hp m1 x = hp m x) by (intros; apply alloc_old; auto).
      assert (Hn : ~ In (nx m) (addrs t)) by (intros Hx; specialize (Hb _ Hx); lia).
      eapply (finish H g rt m t m1 c true m2 a2); eauto.
      * unfold m1, alloc; simpl. lia.
      * unfold m1, alloc; simpl. apply frame_fresh; [lia|]. intros c0 Hc0. rewrite Hw in Hc0 by lia. discriminate.
      * rewrite Hold; auto. apply Hb. apply (aroot_in_addrs t).
      * intros _. destruct (carried_upd H (hp m) (nx m) (new_leaf g v1 rk value) t Hn Hr) as (C1 & C2).
        split; [exact C1 | apply C2; auto].
      * intros c1 a0 Hd Hg1 Hpk1 Hmbh1 Hisb1 Hk1 Hsv1. unfold cell_is. simpl.
        assert (c_sv c1 = c_sv c) by (rewrite Hsv1; destruct (N.eqb (c_gen c) g); auto).
        rewrite map_set_nth. simpl oroot. repeat split; auto; congruence.
      * intros k0 Hin. apply in_set_nth_some in Hin. destruct Hin as [E|(j & Hj & E)].
        -- inversion E; subst k0. apply (fresh_leaf_kid_ok m t m rk value); auto. lia.
        -- destruct (nth_some_in _ _ _ E) as (Hin0 & _). apply old_kid_ok; auto.
           intros x Hx. apply Hold. apply Hb. apply (kid_in_addrs t k0 x Hin0 Hx).
      * apply disjoint_set_nth; [apply (sep_disjoint_kids t Hs)|].
        intros j kj x Hj E Hx Hx'. destruct (nth_some_in _ _ _ E) as (Hin0 & _).
        simpl in Hx. destruct Hx as [<-|[]].
        assert ((nx m < nx m)%N) by (apply Hb; apply (kid_in_addrs t kj _ Hin0 Hx')). lia.
  - (* the keys diverge inside the partial key: a new branch above this one *)
    destruct (prep H g rt m a true) as [m1 a1] eqn:Ep.
    pose proof (move_down m a pk sv mbh gn isb ks c (skipn (S (cpl k pk)) pk) m1 a1 Hp Hca Hci Ep) as HT1.
    destruct (length k <=? cpl k pk).
    + rewrite alloc_eq. intros E. injection E as Em Ea Emut. subst m' a' mut. right. split; auto.
      eexists. split; [|exact (hang_one m t _ _ (nth (cpl k pk) pk 0) (firstn (cpl k pk) k) (Some value) (must_hash v1 value) Hp HT1)].
      reflexivity.
    + rewrite (alloc_eq (wr m1 a1 _)). cbv zeta. rewrite alloc_eq.
      intros E. injection E as Em Ea Emut. subst m' a' mut. right. split; auto.
      eexists.
      split; [|exact (hang_two m t _ _ (nth (cpl k pk) pk 0) (nth (cpl k pk) k 0) (skipn (S (cpl k pk)) k) value
                                (firstn (cpl k pk) k) None false Hp HT1)].
      reflexivity.
Qed.

End Insert.
