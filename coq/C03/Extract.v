From Coq Require Import Extraction ExtrOcamlBasic.
From Common Require Import Bytes Drv Blake2b.
From Trie Require Import Nibbles Encode.
From C03 Require Import Model ModelY.
Extraction "model.ml" drv_b2n drv_n2b drv_z_of_n drv_n_of_z drv_nat_of_n drv_n_of_nat
  blake2b_256 init_state exec xexec xmutated_handle hash_handle entries_handle frozen_parents mutated_handle
  s_mem s_hs h_gen h_root h_v1 key_le_to_nibbles
  yexec ymutated_handle yfrozen_parents.
