(* C03/Tree.v — the abstraction from heaps to addressed trees: [rep h t] says that the cells of
   heap h spell the tree t (node fields and child pointers; Dirty and the cached Merkle value are
   not part of the tree).  Basic lemmas: frames, determinism, ownership by generation. *)
From Common Require Import Bytes.
From Trie Require Import Nibbles Encode.
From C03 Require Import Model.
From Coq Require Import Arith Lia FinFun.
Local Open Scope nat_scope.

(* ---------- lists ---------- *)
Lemma set_nth_length {A} i (v : A) l : length (set_nth i v l) = length l.
Proof. revert i; induction l; destruct i; simpl; auto. Qed.

Lemma nth_set_nth_eq {A} i (v d : A) l : i < length l -> nth i (set_nth i v l) d = v.
Proof. revert i; induction l; destruct i; simpl; intros; try lia; auto. apply IHl. lia. Qed.

Lemma nth_set_nth_neq {A} i j (v d : A) l : i <> j -> nth j (set_nth i v l) d = nth j l d.
Proof.
  revert i j; induction l; destruct i, j; simpl; intros; try congruence; auto.
Qed.

Lemma in_set_nth {A} i (v x : A) l : In x (set_nth i v l) -> x = v \/ In x l.
Proof.
  revert i; induction l; destruct i; simpl; intros; auto.
  - destruct H; auto.
  - destruct H; auto. apply IHl in H. tauto.
Qed.

Lemma map_set_nth {A B} (f : A -> B) i v l : map f (set_nth i v l) = set_nth i (f v) (map f l).
Proof. revert i; induction l; destruct i; simpl; auto. f_equal; auto. Qed.

(* every element of (set_nth i v l) other than the new one was at another position of l *)
Lemma in_set_nth_other {A} i (v x d : A) l :
  In x (set_nth i v l) -> x = v \/ exists j, j <> i /\ j < length l /\ nth j l d = x.
Proof.
  revert i; induction l; destruct i; simpl; intros; try tauto.
  - destruct H; auto. right. apply In_nth with (d := d) in H. destruct H as (j & Hj & E).
    exists (S j); repeat split; auto; lia.
  - destruct H.
    + right. exists 0; repeat split; auto; lia.
    + apply IHl in H. destruct H as [?|(j & ? & ? & ?)]; auto.
      right. exists (S j); repeat split; auto; lia.
Qed.

(* ---------- heaps ---------- *)
Lemma upd_eq h a c : upd h a c a = Some c.
Proof. unfold upd. now rewrite N.eqb_refl. Qed.
Lemma upd_neq h a c x : x <> a -> upd h a c x = h x.
Proof. unfold upd. intros. destruct (N.eqb_spec x a); congruence. Qed.

Global Arguments upd : simpl never.

(* all cells live below the allocation pointer *)
Definition hwf (m : mem) : Prop := forall x, (nx m <= x)%N -> hp m x = None.

(* same node fields (everything but Dirty and the cached Merkle value) *)
Definition samef (c c' : cell) : Prop :=
  c_pk c' = c_pk c /\ c_sv c' = c_sv c /\ c_mbh c' = c_mbh c /\ c_gen c' = c_gen c
  /\ c_isb c' = c_isb c /\ c_kids c' = c_kids c.
Lemma samef_refl c : samef c c.
Proof. repeat split. Qed.
Lemma samef_trans a b c : samef a b -> samef b c -> samef a c.
Proof. unfold samef; intuition congruence. Qed.
Lemma samef_sym a b : samef a b -> samef b a.
Proof. unfold samef; intuition congruence. Qed.

Definition samef_o (o o' : option cell) : Prop :=
  match o, o' with
  | Some c, Some c' => samef c c'
  | None, None => True
  | _, _ => False
  end.
Lemma samef_o_refl o : samef_o o o.
Proof. destruct o; simpl; auto using samef_refl. Qed.
Lemma samef_o_trans a b c : samef_o a b -> samef_o b c -> samef_o a c.
Proof. destruct a, b, c; simpl; try tauto. apply samef_trans. Qed.

(* ---------- addressed trees ---------- *)
Inductive atree :=
| AN (a : addr) (pk : key) (sv : option value) (mbh : bool) (gn : N) (isb : bool) (ks : list (option atree)).

Definition aroot (t : atree) : addr := match t with AN a _ _ _ _ _ _ => a end.
Definition akids (t : atree) : list (option atree) := match t with AN _ _ _ _ _ _ ks => ks end.
Definition agen (t : atree) : N := match t with AN _ _ _ _ gn _ _ => gn end.
Definition oroot (o : option atree) : option addr := option_map aroot o.

(* P on every present element *)
Definition oall {A} (P : A -> Prop) : list (option A) -> Prop :=
  fix go l := match l with [] => True | None :: r => go r | Some k :: r => P k /\ go r end.

Lemma oall_in {A} (P : A -> Prop) l : oall P l <-> (forall k, In (Some k) l -> P k).
Proof.
  induction l as [|[x|] l IH]; simpl.
  - split; intros; tauto.
  - rewrite IH. split.
    + intros [? ?] k [E|?]; [inversion E; subst; auto | auto].
    + intros Hk. split; auto.
  - rewrite IH. split; intros Hk k; [intros [E|?]; [discriminate | auto] | auto].
Qed.

Section Ind.
  Variable P : atree -> Prop.
  Hypothesis HN : forall a pk sv mbh gn isb ks, oall P ks -> P (AN a pk sv mbh gn isb ks).
  Fixpoint atree_ind' (t : atree) : P t :=
    match t with
    | AN a pk sv mbh gn isb ks =>
      HN a pk sv mbh gn isb ks
         ((fix go (l : list (option atree)) : oall P l :=
             match l with
             | [] => I
             | None :: r => go r
             | Some k :: r => conj (atree_ind' k) (go r)
             end) ks)
    end.
End Ind.

Definition oaddrs_with (f : atree -> list addr) (o : option atree) : list addr :=
  match o with Some k => f k | None => [] end.

Fixpoint addrs (t : atree) : list addr :=
  match t with AN a _ _ _ _ _ ks => a :: flat_map (oaddrs_with addrs) ks end.
Definition oaddrs := oaddrs_with addrs.

(* cells written in place by a trie of generation g: the nodes of that generation *)
Fixpoint own (g : N) (t : atree) : list addr :=
  match t with
  | AN a _ _ _ gn _ ks => (if N.eqb gn g then [a] else []) ++ flat_map (oaddrs_with (own g)) ks
  end.

Fixpoint depth (t : atree) : nat :=
  match t with
  | AN _ _ _ _ _ _ ks => S (fold_right (fun o acc => Nat.max (match o with Some k => depth k | None => 0 end) acc) 0 ks)
  end.

(* subtrees, the tree itself included *)
Fixpoint subts (t : atree) : list atree :=
  match t with AN _ _ _ _ _ _ ks => t :: flat_map (fun o => match o with Some k => subts k | None => [] end) ks end.

Lemma in_flat_map_o (f : atree -> list addr) x ks :
  In x (flat_map (oaddrs_with f) ks) <-> exists k, In (Some k) ks /\ In x (f k).
Proof.
  rewrite in_flat_map. split.
  - intros ([k|] & Hin & Hx); simpl in Hx; [eauto | tauto].
  - intros (k & Hin & Hx). exists (Some k); auto.
Qed.

Lemma in_addrs a pk sv mbh gn isb ks x :
  In x (addrs (AN a pk sv mbh gn isb ks)) <-> x = a \/ exists k, In (Some k) ks /\ In x (addrs k).
Proof. simpl. rewrite in_flat_map_o. intuition. Qed.

Lemma aroot_in_addrs t : In (aroot t) (addrs t).
Proof. destruct t; simpl; auto. Qed.

Lemma in_own g a pk sv mbh gn isb ks x :
  In x (own g (AN a pk sv mbh gn isb ks)) <-> (gn = g /\ x = a) \/ exists k, In (Some k) ks /\ In x (own g k).
Proof.
  simpl. rewrite in_app_iff, in_flat_map_o.
  destruct (N.eqb_spec gn g); simpl; intuition.
Qed.

Lemma own_addrs g t x : In x (own g t) -> In x (addrs t).
Proof.
  revert x. induction t using atree_ind'. intros x. rewrite in_own, in_addrs.
  rewrite oall_in in H.
  intros [[_ ?]|(k & Hk & Hx)]; auto. right; exists k; split; auto.
Qed.

Lemma in_subts_self t : In t (subts t).
Proof. destruct t; simpl; auto. Qed.

Lemma in_subts a pk sv mbh gn isb ks s :
  In s (subts (AN a pk sv mbh gn isb ks)) <->
  s = AN a pk sv mbh gn isb ks \/ exists k, In (Some k) ks /\ In s (subts k).
Proof.
  simpl. rewrite in_flat_map. split.
  - intros [E|([k|] & Hin & Hx)]; auto; [right; eauto | simpl in Hx; tauto].
  - intros [E|(k & Hin & Hx)]; auto. right. exists (Some k); auto.
Qed.

Lemma subts_addrs t s x : In s (subts t) -> In x (addrs s) -> In x (addrs t).
Proof.
  revert s x. induction t using atree_ind'. intros s x. rewrite in_subts.
  rewrite oall_in in H.
  intros [->|(k & Hk & Hs)] Hx; auto.
  apply in_addrs. right. exists k; split; auto. eapply H; eauto.
Qed.

Lemma subts_trans t s u : In s (subts t) -> In u (subts s) -> In u (subts t).
Proof.
  revert s u. induction t using atree_ind'. intros s u. rewrite in_subts.
  rewrite oall_in in H.
  intros [->|(k & Hk & Hs)] Hu; auto.
  apply in_subts. right. exists k; split; auto. eapply H; eauto.
Qed.

(* ---------- representation ---------- *)
Definition cell_is (c : cell) (t : atree) : Prop :=
  match t with
  | AN _ pk sv mbh gn isb ks =>
    c_pk c = pk /\ c_sv c = sv /\ c_mbh c = mbh /\ c_gen c = gn /\ c_isb c = isb /\ c_kids c = map oroot ks
  end.

Arguments cell_is : simpl never.

Fixpoint rep (h : heap) (t : atree) : Prop :=
  match t with
  | AN a pk sv mbh gn isb ks =>
    (exists c, h a = Some c /\ cell_is c (AN a pk sv mbh gn isb ks)) /\ oall (rep h) ks
  end.

Definition rep_o (h : heap) (p : option addr) (ot : option atree) : Prop :=
  match p, ot with
  | None, None => True
  | Some a, Some t => rep h t /\ aroot t = a
  | _, _ => False
  end.

Lemma rep_unfold h t :
  rep h t <-> (exists c, h (aroot t) = Some c /\ cell_is c t) /\ (forall k, In (Some k) (akids t) -> rep h k).
Proof. destruct t; simpl. now rewrite oall_in. Qed.

Lemma rep_cell h t : rep h t -> exists c, h (aroot t) = Some c /\ cell_is c t.
Proof. rewrite rep_unfold. tauto. Qed.

Lemma rep_kid h t k : rep h t -> In (Some k) (akids t) -> rep h k.
Proof. rewrite rep_unfold. intros [_ Hk]; auto. Qed.

Lemma cell_is_samef c c' t : samef c c' -> cell_is c t -> cell_is c' t.
Proof. destruct t; unfold samef, cell_is. intuition congruence. Qed.

(* rep only depends on the node fields of the cells of the tree *)
Lemma rep_frame h h' t :
  rep h t -> (forall x, In x (addrs t) -> samef_o (h x) (h' x)) -> rep h' t.
Proof.
  induction t using atree_ind'. rewrite oall_in in H.
  intros Hr Hf. apply rep_unfold. apply rep_unfold in Hr. destruct Hr as ((c & Hc & Hci) & Hk). split.
  - specialize (Hf a (or_introl eq_refl)). simpl in Hc. rewrite Hc in Hf. simpl.
    destruct (h' a) as [c'|]; simpl in Hf; [|tauto]. exists c'. split; auto.
    eapply cell_is_samef; eauto.
  - intros k Hin. apply H; auto. simpl in Hk; auto. intros x Hx. apply Hf. apply in_addrs. right; eauto.
Qed.

Lemma rep_subt h t s : rep h t -> In s (subts t) -> rep h s.
Proof.
  revert s. induction t using atree_ind'. rewrite oall_in in H. intros s Hr. rewrite in_subts.
  intros [->|(k & Hk & Hs)]; auto. eapply H; eauto. eapply rep_kid in Hr; eauto.
Qed.

Lemma rep_in_cell h t x : rep h t -> In x (addrs t) -> exists c, h x = Some c.
Proof.
  revert x. induction t using atree_ind'. rewrite oall_in in H. intros x Hr. rewrite in_addrs.
  intros [->|(k & Hk & Hx)].
  - apply rep_cell in Hr. destruct Hr as (c & ? & _); eauto.
  - eapply H; eauto. eapply rep_kid in Hr; eauto.
Qed.

Lemma rep_bounded m t x : hwf m -> rep (hp m) t -> In x (addrs t) -> (x < nx m)%N.
Proof.
  intros Hw Hr Hx. destruct (rep_in_cell _ _ _ Hr Hx) as (c & Hc).
  destruct (N.lt_ge_cases x (nx m)); auto. rewrite Hw in Hc; auto. discriminate.
Qed.

(* the node of generation g at address x, read off the heap *)
Lemma rep_own_gen h t g x :
  rep h t -> In x (addrs t) -> (In x (own g t) <-> exists c, h x = Some c /\ c_gen c = g).
Proof.
  revert x. induction t using atree_ind'. rewrite oall_in in H. intros x Hr Hx.
  pose proof (rep_cell _ _ Hr) as (c & Hc & Hci). simpl in Hc.
  unfold cell_is in Hci. destruct Hci as (_ & _ & _ & Hg & _).
  rewrite in_own. apply in_addrs in Hx. split.
  - intros [[-> ->]|(k & Hk & Ho)]; [eauto|].
    apply (H k Hk x); auto. eapply rep_kid in Hr; eauto. apply own_addrs in Ho; auto.
  - intros (c' & Hc' & Hg'). destruct Hx as [->|(k & Hk & Hxk)].
    + left. rewrite Hc in Hc'. inversion Hc'; subst. auto.
    + right. exists k; split; auto. apply (H k Hk x); eauto. eapply rep_kid in Hr; eauto.
Qed.

(* determinism: the heap and the root address determine the tree *)
Lemma map_oroot_eq_length (l1 l2 : list (option atree)) : map oroot l1 = map oroot l2 -> length l1 = length l2.
Proof. intros E. apply (f_equal (@length _)) in E. now rewrite !map_length in E. Qed.

Lemma rep_det h t1 : forall t2, rep h t1 -> rep h t2 -> aroot t1 = aroot t2 -> t1 = t2.
Proof.
  induction t1 using atree_ind'. rewrite oall_in in H.
  intros [a2 pk2 sv2 mbh2 gn2 isb2 ks2] H1 H2 E. simpl in E. subst a2.
  pose proof (rep_cell _ _ H1) as (c1 & Hc1 & Hi1). pose proof (rep_cell _ _ H2) as (c2 & Hc2 & Hi2).
  simpl in Hc1, Hc2. rewrite Hc1 in Hc2. inversion Hc2; subst c2.
  unfold cell_is in Hi1, Hi2. destruct Hi1 as (? & ? & ? & ? & ? & Hk1). destruct Hi2 as (? & ? & ? & ? & ? & Hk2).
  subst. f_equal.
  rewrite Hk1 in Hk2. clear Hk1 Hc1 Hc2.
  assert (Hr1 : forall k, In (Some k) ks -> rep h k) by (intros; eapply rep_kid in H1; eauto).
  assert (Hr2 : forall k, In (Some k) ks2 -> rep h k) by (intros; eapply rep_kid in H2; eauto).
  clear H1 H2. revert ks2 Hk2 Hr2. induction ks as [|o ks IH]; intros [|o2 ks2] Hk2 Hr2; simpl in Hk2; try discriminate; auto.
  inversion Hk2. f_equal.
  - destruct o as [k|], o2 as [k2|]; simpl in *; try discriminate; auto.
    f_equal. apply H; auto. inversion H1; auto.
  - apply IH; auto.
    + intros; apply H; simpl; auto.
    + intros; apply Hr1; simpl; auto.
    + intros; apply Hr2; simpl; auto.
Qed.

Lemma rep_subt_det h t s u : rep h t -> In s (subts t) -> rep h u -> aroot u = aroot s -> u = s.
Proof. intros Ht Hs Hu E. apply (rep_det h u s Hu (rep_subt h t s Ht Hs) E). Qed.

(* every address of a tree is the root of one of its subtrees *)
Lemma addrs_subt t x : In x (addrs t) -> exists s, In s (subts t) /\ aroot s = x.
Proof.
  revert x. induction t using atree_ind'. rewrite oall_in in H. intros x. rewrite in_addrs.
  intros [->|(k & Hk & Hx)].
  - eexists; split; [apply in_subts_self | reflexivity].
  - destruct (H k Hk x Hx) as (s & Hs & E). exists s; split; auto. apply in_subts. right; eauto.
Qed.

(* ---------- generations ---------- *)
(* no node of generation g *)
Definition oldt (g : N) (t : atree) : Prop := own g t = [].

(* generations are bounded by g, and the nodes of generation g are closed upwards:
   below a node of an older generation there is no node of generation g *)
Fixpoint good (g : N) (t : atree) : Prop :=
  match t with
  | AN a _ _ _ gn _ ks =>
    (gn <= g)%N /\ (gn <> g -> forall k, In (Some k) ks -> oldt g k) /\ oall (good g) ks
  end.

Lemma good_unfold g t :
  good g t <-> (agen t <= g)%N /\ (agen t <> g -> forall k, In (Some k) (akids t) -> oldt g k)
               /\ (forall k, In (Some k) (akids t) -> good g k).
Proof. destruct t; simpl. now rewrite oall_in. Qed.

Lemma good_kid g t k : good g t -> In (Some k) (akids t) -> good g k.
Proof. rewrite good_unfold. intros (_ & _ & Hk); auto. Qed.

Lemma oldt_unfold g t : oldt g t <-> agen t <> g /\ forall k, In (Some k) (akids t) -> oldt g k.
Proof.
  destruct t as [a pk sv mbh gn isb ks]; unfold oldt; simpl. split.
  - intros E. apply app_eq_nil in E. destruct E as (E1 & E2). split.
    + destruct (N.eqb_spec gn g); [discriminate | auto].
    + intros k Hk. destruct (own g k) eqn:Eo; auto.
      assert (In a0 (flat_map (oaddrs_with (own g)) ks)).
      { apply in_flat_map_o. exists k; split; auto. rewrite Eo; simpl; auto. }
      rewrite E2 in H. destruct H.
  - intros (Hn & Hk). destruct (N.eqb_spec gn g); [congruence|]. simpl.
    destruct (flat_map (oaddrs_with (own g)) ks) eqn:E; auto.
    assert (Hin : In a0 (flat_map (oaddrs_with (own g)) ks)) by (rewrite E; simpl; auto).
    apply in_flat_map_o in Hin. destruct Hin as (k & Hin & Hx). rewrite (Hk k Hin) in Hx. destruct Hx.
Qed.

Lemma good_old_root g t : good g t -> agen t <> g -> oldt g t.
Proof.
  intros Hg Hn. apply oldt_unfold. split; auto. apply good_unfold in Hg. destruct Hg as (_ & Ho & _); auto.
Qed.

Lemma oldt_not_own g t x : oldt g t -> ~ In x (own g t).
Proof. unfold oldt. intros ->. auto. Qed.

(* a tree whose generations are all below g is good for g *)
Fixpoint below (g : N) (t : atree) : Prop :=
  match t with AN _ _ _ _ gn _ ks => (gn < g)%N /\ oall (below g) ks end.

Lemma below_unfold g t : below g t <-> (agen t < g)%N /\ forall k, In (Some k) (akids t) -> below g k.
Proof. destruct t; simpl. now rewrite oall_in. Qed.

Lemma below_oldt g t : below g t -> oldt g t.
Proof.
  induction t using atree_ind'. rewrite oall_in in H. intros Hb. apply below_unfold in Hb. destruct Hb as (Hl & Hk).
  apply oldt_unfold. simpl in *. split; [lia|]. intros; apply H; auto.
Qed.

Lemma below_good g t : below g t -> good g t.
Proof.
  induction t using atree_ind'. rewrite oall_in in H. intros Hb. pose proof Hb as Hb0. apply below_unfold in Hb. destruct Hb as (Hl & Hk).
  apply good_unfold. simpl in *. split; [lia|]. split.
  - intros _ k Hin. apply below_oldt; auto.
  - intros; apply H; auto.
Qed.

Lemma good_below_succ g t : good g t -> below (N.succ g) t.
Proof.
  induction t using atree_ind'. rewrite oall_in in H. intros Hg. apply good_unfold in Hg. destruct Hg as (Hl & _ & Hk).
  apply below_unfold. simpl in *. split; [lia|]. intros; apply H; auto.
Qed.

(* ---------- separation: a tree, not a dag ---------- *)
Definition sep (t : atree) : Prop := NoDup (addrs t).

Lemma nodup_app {A} (l1 l2 : list A) :
  NoDup (l1 ++ l2) <-> NoDup l1 /\ NoDup l2 /\ (forall x, In x l1 -> ~ In x l2).
Proof.
  induction l1 as [|a l1 IH]; simpl.
  - split; [intros; repeat split; auto using NoDup_nil | tauto].
  - split.
    + intros Hn. inversion Hn as [|? ? Hni Hn']; subst. apply IH in Hn'. destruct Hn' as (H1 & H2 & H3).
      rewrite in_app_iff in Hni. repeat split; auto.
      * constructor; tauto.
      * intros x [->|Hx]; [tauto | auto].
    + intros (H1 & H2 & H3). inversion H1; subst. constructor.
      * rewrite in_app_iff. intros [?|?]; [tauto | eapply H3; eauto].
      * apply IH. repeat split; auto.
Qed.

Lemma NoDup_flat_map_in {A B} (f : A -> list B) l x :
  NoDup (flat_map f l) -> In x l -> NoDup (f x).
Proof.
  induction l; simpl; intros Hn Hin; [tauto|]. destruct Hin as [->|Hin].
  - apply nodup_app in Hn; tauto.
  - apply nodup_app in Hn. apply IHl; tauto.
Qed.

Lemma sep_kid t k : sep t -> In (Some k) (akids t) -> sep k.
Proof.
  destruct t; unfold sep; simpl. intros Hn Hin. inversion Hn; subst.
  eapply (NoDup_flat_map_in (oaddrs_with addrs) _ (Some k)) in H2; eauto.
Qed.

Lemma sep_root_not_in_kid t k : sep t -> In (Some k) (akids t) -> ~ In (aroot t) (addrs k).
Proof.
  destruct t; unfold sep; simpl. intros Hn Hin Hx. inversion Hn; subst. apply H1.
  apply in_flat_map_o. eauto.
Qed.

Lemma sep_subt t s : sep t -> In s (subts t) -> sep s.
Proof.
  revert s. induction t using atree_ind'. rewrite oall_in in H. intros s Hs. rewrite in_subts.
  intros [->|(k & Hk & Hin)]; auto. eapply H; eauto. eapply sep_kid in Hs; eauto.
Qed.

(* in a separated tree the only subtree rooted at the root address is the tree itself *)
Lemma sep_subt_root t s : sep t -> In s (subts t) -> aroot s = aroot t -> s = t.
Proof.
  destruct t as [a pk sv mbh gn isb ks]. intros Hs. rewrite in_subts.
  intros [->|(k & Hk & Hin)] E; auto. exfalso.
  eapply (sep_root_not_in_kid _ k Hs Hk). simpl in *. rewrite <- E.
  eapply subts_addrs; eauto. apply aroot_in_addrs.
Qed.

Lemma depth_le_length t : depth t <= length (addrs t).
Proof.
  induction t using atree_ind'. rewrite oall_in in H. simpl. apply le_n_S.
  induction ks as [|[k|] ks IH]; simpl; auto.
  - rewrite app_length. assert (depth k <= length (addrs k)) by (apply H; simpl; auto).
    assert (IH' := IH (fun k0 Hk0 => H k0 (or_intror Hk0))). lia.
  - apply IH. intros; apply H; simpl; auto.
Qed.

Lemma NoDup_bounded_length (l : list N) (n : N) :
  NoDup l -> (forall x, In x l -> (x < n)%N) -> length l <= N.to_nat n.
Proof.
  intros Hn Hb.
  assert (Hm : NoDup (map N.to_nat l)).
  { apply FinFun.Injective_map_NoDup; auto. intros x y E. apply N2Nat.inj; auto. }
  assert (Hi : incl (map N.to_nat l) (seq 0 (N.to_nat n))).
  { intros x Hx. apply in_map_iff in Hx. destruct Hx as (y & <- & Hy). apply in_seq. specialize (Hb y Hy). lia. }
  apply NoDup_incl_length in Hi; auto. rewrite map_length, seq_length in Hi. auto.
Qed.

Lemma depth_fuel m t : hwf m -> rep (hp m) t -> sep t -> depth t < cfuel m.
Proof.
  intros Hw Hr Hs. unfold cfuel.
  pose proof (depth_le_length t).
  pose proof (NoDup_bounded_length (addrs t) (nx m) Hs (fun x Hx => rep_bounded m t x Hw Hr Hx)).
  apply Nat.lt_succ_r. eapply Nat.le_trans; eauto.
Qed.

Lemma depth_kid t k : In (Some k) (akids t) -> depth k < depth t.
Proof.
  destruct t; simpl. intros Hin. apply le_n_S.
  induction ks as [|o ks IH]; simpl in *; [tauto|]. destruct Hin as [->|Hin]; [lia|].
  specialize (IH Hin). lia.
Qed.
