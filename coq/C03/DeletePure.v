(* C03/DeletePure.v — handleDeletion, Delete and ClearPrefix on the heap compute the pure
   operations of coq/Trie on the erased tree (the code with the C02 repairs: fd = true).  The
   contracts of Delete.v strengthened by the erasure equations; same case analysis, same witnesses. *)
From Common Require Import Bytes.
From Trie Require Import Nibbles Encode Node.
From Trie Require Model NibblesProofs InsertProofs DeleteProofs ClearProofs.
From C03 Require Import Model Tree Cache Frame Ops Spec Insert Delete Erase.
From Coq Require Import Arith Lia.
Local Open Scope nat_scope.

Notation phd := Trie.Model.handle_deletion.
Notation pdel := Trie.Model.delete.
Notation pclear := Trie.Model.clear_prefix_node.

Lemma count_children_ero ks : Trie.Model.count_children (map ero ks) = count_kids (map oroot ks).
Proof. induction ks as [|[k|] ks IH]; simpl; auto. Qed.

Lemma first_kid_both (ks : list (option atree)) i0 i ch :
  first_kid (map oroot ks) i0 = Some (i, ch) ->
  exists kc, In (Some kc) ks /\ aroot kc = ch /\ Trie.Model.first_child (map ero ks) i0 = Some (i, er kc).
Proof.
  revert i0. induction ks as [|[k|] ks IH]; simpl; intros i0 E; try discriminate.
  - inversion E; subst. eauto.
  - destruct (IH _ E) as (kc & ? & ? & ?). eauto.
Qed.

Lemma first_kid_none (ks : list (option atree)) i0 :
  first_kid (map oroot ks) i0 = None -> Trie.Model.first_child (map ero ks) i0 = None.
Proof. revert i0. induction ks as [|[k|] ks IH]; simpl; intros i0 E; auto; discriminate. Qed.

Lemma node_pk_er' t : node_pk (er t) = match t with AN _ pk _ _ _ _ _ => pk end.
Proof. destruct t as [a pk sv mbh gn isb ks]. rewrite er_unfold. destruct isb; reflexivity. Qed.

Section DeletePure.
Variable H : list byte -> list byte.
Variable g : N.
Variable rt : option addr.
Variable f : value -> bool -> Prop.

Notation pre := (Spec.pre H g rt).
Notation post := (Spec.post H g rt).
Notation gone := (Delete.gone H g rt).
Notation lwf := (Erase.lwf f).

Lemma lwf_retag' a pk sv mbh gn isb ks a' pk' gn' :
  lwf (AN a pk sv mbh gn isb ks) -> lwf (AN a' pk' sv mbh gn' isb ks).
Proof. rewrite !lwf_unfold. tauto. Qed.

Lemma lwf_set_kid a pk sv mbh gn ks a' gn' i (ox : option atree) :
  lwf (AN a pk sv mbh gn true ks) -> lwf_o f ox -> lwf (AN a' pk sv mbh gn' true (set_nth i ox ks)).
Proof.
  rewrite !lwf_unfold. intros (_ & Hf & Hlen & Hk) Hx. split; [congruence|]. split; auto.
  split; [rewrite set_nth_length; auto|].
  intros k Hin. apply in_set_nth_some in Hin. destruct Hin as [E|(j & _ & E)].
  - subst ox; auto.
  - apply Hk. rewrite <- E. apply nth_In. destruct (Nat.lt_ge_cases j (length ks)); auto.
    rewrite nth_overflow in E by auto. discriminate.
Qed.

Lemma lwf_set_sv_none a pk sv mbh gn ks a' gn' :
  lwf (AN a pk sv mbh gn true ks) -> lwf (AN a' pk None mbh gn' true ks).
Proof. rewrite !lwf_unfold. intros (_ & _ & Hlen & Hk). split; [congruence|]. split; [discriminate | auto]. Qed.

(* ---------- handleDeletion ---------- *)
Lemma handle_deletion_spec_er m t m3 a3 pk3 sv3 mbh3 ks3 k m4 b :
  let T := AN a3 pk3 sv3 mbh3 g true ks3 in
  pre m t -> post m t m3 T -> lwf T ->
  handle_deletion H rt m3 a3 k = (m4, b) ->
  exists T', aroot T' = b /\ post m t m4 T' /\ er T' = phd pk3 sv3 (map ero ks3) k /\ lwf T'.
Proof.
  intros T Hp Hq Hl. pose proof Hq as (R1 & R2 & R3 & R4 & Hw3 & Hle3 & F3 & P8 & P9 & P10).
  destruct (rep_cell _ _ R1) as (c3 & Hc3 & Hci3). simpl in Hc3.
  pose proof Hci3 as Hci3'. unfold T, cell_is in Hci3'. destruct Hci3' as (Epk & Esv & Embh & Egn & Eisb & Eks).
  unfold handle_deletion. rewrite Hc3. unfold Trie.Model.handle_deletion. rewrite count_children_ero, <- Eks, <- Esv.
  assert (ErT : er T = Branch pk3 sv3 (map ero ks3)) by (unfold T; rewrite er_unfold; reflexivity).
  destruct (count_kids (c_kids c3)) as [|[|n]] eqn:Ecnt.
  - (* no child *)
    destruct (c_sv c3) as [v|] eqn:Esv3.
    2:{ intros E. injection E as <- <-. exists T. rewrite ErT, <- Esv. split; [reflexivity|]. split; [exact Hq|]. split; [reflexivity | exact Hl]. }
    rewrite alloc_eq. intros E. injection E as Em Eb. subst m4 b.
    rewrite Egn. exists (AN (nx m3) (firstn (cpl (c_pk c3) k) k) (Some v) (c_mbh c3) g false []). split; [reflexivity|].
    split; [|split].
    + apply (fresh_node_post H g rt m t m3 _ (firstn (cpl (c_pk c3) k) k) (Some v) (c_mbh c3) false []);
        [exact Hp | exact Hw3 | exact Hle3 | exact F3 | reflexivity | | | ].
      * intros a'. unfold cell_is; simpl. repeat split; auto.
      * intros k0 [].
      * intros i j ki kj x _ E. destruct i; discriminate.
    + rewrite er_unfold, Epk. reflexivity.
    + unfold T in Hl. apply lwf_unfold in Hl. destruct Hl as (_ & Hf & _).
      apply lwf_unfold. split; [congruence|]. split; [rewrite Embh; intros w Ew; apply Hf; congruence|].
      split; [reflexivity | intros k0 []].
  - (* one child *)
    destruct (c_sv c3) eqn:Esv3.
    { intros E. injection E as <- <-. exists T. rewrite ErT, <- Esv. split; [reflexivity|]. split; [exact Hq|]. split; [reflexivity | exact Hl]. }
    destruct (first_kid (c_kids c3) 0) as [[i ch]|] eqn:Efk.
    2:{ rewrite Eks in Efk.
        pose proof (first_kid_none _ _ Efk) as Efc.
        rewrite Efc. intros E. injection E as <- <-. exists T. rewrite ErT, <- Esv. split; [reflexivity|]. split; [exact Hq|]. split; [reflexivity | exact Hl]. }
    rewrite Eks in Efk. destruct (first_kid_both _ _ _ _ Efk) as (kc & Hkin & Ech & Efc). subst ch. rewrite Efc.
    assert (Hrk : rep (hp m3) kc) by (eapply rep_kid; eauto).
    assert (Hsk : sep kc) by (eapply sep_kid; eauto).
    assert (Hck : Cache.cache_ok H false (hp m3) kc) by (apply (cache_ok_kid H false (hp m3) T kc (R4 false) Hkin)).
    assert (Hplace : placed g m t (nx m3) T) by (eapply post_placed; eauto).
    assert (Hkc_in : forall x, In x (addrs kc) -> In x (addrs T)).
    { intros x Hx. apply (kid_in_addrs T kc x Hkin Hx). }
    destruct (reg_spec H g rt (nx m) m3 t kc Hw3 Hrk Hsk (cache_ok_weaken H _ _ Hck _)) as (Hw3' & Enx & F3' & Fills).
    { intros x Hx. apply P8. auto. }
    set (m3' := reg H rt m3 (aroot kc)) in *.
    assert (Hrk' : rep (hp m3') kc) by (eapply fillsP_rep; eauto).
    destruct (rep_cell _ _ Hrk') as (cc & Hcc & Hcic). rewrite Hcc.
    rewrite alloc_eq. intros E. injection E as Em Eb. subst m4 b.
    assert (Hlkc : lwf kc) by (apply (lwf_kid f T kc Hl Hkin)).
    destruct kc as [ac pkc svc mbhc gnc isbc ksc]. simpl in Hcc.
    pose proof Hcic as Hcic'. unfold cell_is in Hcic'. destruct Hcic' as (Epkc & Esvc & Embhc & Egnc & Eisbc & Eksc).
    rewrite Egn. exists (AN (nx m3') (c_pk c3 ++ [i] ++ c_pk cc) (c_sv cc) (c_mbh cc) g (c_isb cc) ksc). split; [reflexivity|].
    split; [|split].
    + apply (fresh_node_post H g rt m t m3' _ (c_pk c3 ++ [i] ++ c_pk cc) (c_sv cc) (c_mbh cc) (c_isb cc) ksc);
        [exact Hp | exact Hw3' | rewrite Enx; exact Hle3 | | reflexivity | | | ].
      * eapply frame_trans with (n1 := nx m); [lia | exact F3 | exact F3'].
      * intros a'. unfold cell_is; simpl. repeat split; auto.
      * intros gk Hgk.
        assert (Hrgk : rep (hp m3) gk) by (eapply rep_kid; eauto).
        assert (Hsgk : sep gk) by (eapply (sep_kid _ gk Hsk); eauto).
        assert (Hna : ~ In ac (addrs gk)) by (apply (sep_root_not_in_kid _ gk Hsk Hgk)).
        destruct (carried_fills H (hp m3) (hp m3') _ _ gk Fills Hrk Hsgk Hna Hrgk) as (C1 & C2).
        split; [exact C1|]. split; [exact Hsgk|].
        split. { apply (good_kid g (AN ac pkc svc mbhc gnc isbc ksc) gk); auto. apply (good_kid g T); auto. }
        split. { apply C2. apply (cache_ok_kid H false (hp m3) (AN ac pkc svc mbhc gnc isbc ksc) gk); auto. }
        rewrite Enx. intros x Hx. apply Hplace. apply Hkc_in. apply (kid_in_addrs (AN ac pkc svc mbhc gnc isbc ksc) gk x Hgk Hx).
      * apply (sep_disjoint_kids (AN ac pkc svc mbhc gnc isbc ksc) Hsk).
    + rewrite !er_unfold, Epk, Epkc, Esvc, Eisbc. destruct isbc; reflexivity.
    + rewrite Esvc, Embhc, Eisbc. apply (lwf_retag' ac pkc svc mbhc gnc isbc ksc); auto.
  - intros E. injection E as <- <-. exists T. rewrite ErT, <- Esv. split; [reflexivity|]. split; [exact Hq|]. split; [reflexivity | exact Hl].
Qed.

(* ---------- deleteAtNode / clearPrefixAtNode ---------- *)
Definition result_o_er (m : mem) (t : atree) (m' : mem) (p' : option addr) (flag : bool)
           (pr : option tnode * bool) : Prop :=
  (flag = false /\ m' = m /\ p' = Some (aroot t) /\ pr = (Some (er t), false))
  \/ (flag = true /\ ((p' = None /\ gone m t m' /\ pr = (None, true))
                      \/ (exists t', p' = Some (aroot t') /\ post m t m' t' /\ pr = (Some (er t'), true) /\ lwf t'))).

Lemma kid_in_nth (ks : list (option atree)) idx kt : nth idx ks None = Some kt -> In (Some kt) ks.
Proof. intros E. destruct (nth_some_in _ _ _ E); auto. Qed.

Lemma delete_spec_er : forall fuel m t k m' p' flag,
  length k < fuel -> pre m t -> lwf t ->
  delete H g rt true fuel m (Some (aroot t)) k = (m', p', flag) ->
  result_o_er m t m' p' flag (pdel (er t) k).
Proof.
  induction fuel as [|f0 IH]; intros m t k m' p' flag Hlen Hp Hl; [lia|].
  destruct t as [a pk sv mbh gn isb ks]. set (t := AN a pk sv mbh gn isb ks) in *.
  pose proof Hp as (Hw & Hr & Hs & Hg & Hc & Hrt).
  destruct (rep_cell _ _ Hr) as (c & Hca & Hci). simpl in Hca.
  pose proof Hci as Hci'. unfold t, cell_is in Hci'. destruct Hci' as (Epk & Esv & Embh & Egn & Eisb & Eks).
  change (aroot t) with a. cbn [delete]. rewrite Hca, Eisb, Epk.
  destruct isb; cbn [negb].
  2:{ (* deleteLeaf *)
      assert (Hlv : exists lv, sv = Some lv).
      { pose proof Hl as Hl0. unfold t in Hl0. apply lwf_unfold in Hl0. destruct Hl0 as (Hs0 & _).
        destruct sv; eauto. exfalso; apply Hs0; auto. }
      destruct Hlv as (lv & Elv).
      assert (Eer : er t = Leaf pk lv) by (unfold t; rewrite er_unfold, Elv; reflexivity).
      rewrite Eer, DeleteProofs.delete_leaf.
      destruct ((0 <? length k) && negb (key_eqb k pk)).
      - intros E. injection E as <- <- <-. left. rewrite Eer. auto.
      - intros E. injection E as <- <- <-. right. split; auto. left. split; auto. split; auto.
        apply (drop_spec H g rt m t Hp). }
  assert (Eer : er t = Branch pk sv (map ero ks)) by (unfold t; rewrite er_unfold; reflexivity).
  assert (Hsame : forall m0 p0 f0, (m, Some a, false) = (m0, p0, f0) ->
            result_o_er m t m0 p0 f0 (Some (Branch pk sv (map ero ks)), false)).
  { intros m0 p0 f1 E. injection E as <- <- <-. left. rewrite Eer. auto. }
  rewrite Eer, DeleteProofs.delete_branch.
  destruct ((length k =? 0) || key_eqb pk k) eqn:E0.
  { (* the value of this branch is deleted *)
    destruct (prep H g rt m a false) as [m1 a1] eqn:Ep.
    destruct (handle_deletion H rt (wr m1 a1 (set_sv_c None)) a1 k) as [m3 b] eqn:Ehd.
    intros E. injection E as <- <- <-. right. split; auto. right.
    assert (Hq : post m t (wr m1 a1 (set_sv_c None)) (AN a1 pk None mbh g true ks)).
    { apply (finish H g rt m t m c false m1 a1 (set_sv_c None) pk None mbh true ks Hp Hw (N.le_refl _)
                    (frame_refl H g rt _ _ _) Hca Hci (pre_copy H g rt m t Hp) Ep).
      - intros c1 a0 Hd Hg1 Hpk1 Hmbh1 Hisb1 Hk1 Hsv1. unfold cell_is. simpl. repeat split; auto; congruence.
      - exact (pre_old_kids H g rt m t Hp).
      - apply (sep_disjoint_kids t Hs). }
    assert (Hl1 : lwf (AN a1 pk None mbh g true ks)) by (apply (lwf_set_sv_none a pk sv mbh gn ks); exact Hl).
    destruct (handle_deletion_spec_er m t _ a1 pk None mbh ks k m3 b Hp Hq Hl1 Ehd) as (T' & <- & HT' & Er' & Hl').
    exists T'. rewrite Er'. auto. }
  cbv zeta. set (n := cpl pk k).
  destruct (n <? length pk); [apply Hsame|].
  set (idx := nth n k 0). set (ck := skipn (S n) k).
  rewrite Eks, nth_map_oroot. unfold child_at. rewrite nth_map_ero. cbn [andb].
  destruct (nth idx ks None) as [kt|] eqn:Ekt; simpl oroot; simpl ero.
  2:{ unfold kid_pk_nonempty. rewrite andb_false_r. rewrite delete_none. simpl. apply Hsame. }
  pose proof (kid_in_nth ks idx kt Ekt) as Hkin.
  assert (Hpk : pre m kt) by (apply (pre_kid H g rt m t kt Hp Hkin)).
  assert (Hlk : lwf kt) by (apply (lwf_kid f t kt Hl Hkin)).
  (* the exhausted-key test reads the child's partial key *)
  assert (Ekp : kid_pk_nonempty (hp m) (Some (aroot kt)) = (0 <? length (node_pk (er kt)))).
  { destruct Hpk as (_ & Hrk & _). destruct (rep_cell _ _ Hrk) as (c0 & Hc0 & Hci0).
    unfold kid_pk_nonempty. rewrite Hc0, node_pk_er'. destruct kt. unfold cell_is in Hci0.
    destruct Hci0 as (-> & _). reflexivity. }
  rewrite Ekp.
  destruct ((length ck =? 0) && (0 <? length (node_pk (er kt)))); [apply Hsame|].
  destruct (delete H g rt true f0 m (Some (aroot kt)) ck) as [[m1 ch'] deleted] eqn:Erec.
  assert (Hlen' : length ck < f0).
  { apply orb_false_iff in E0. destruct E0 as (E0 & _). apply Nat.eqb_neq in E0. unfold ck. rewrite skipn_length. lia. }
  destruct (IH m kt ck m1 ch' deleted Hlen' Hpk Hlk Erec) as [(-> & -> & -> & Epr)|(-> & Hch)].
  { rewrite Epr. simpl. apply Hsame. }
  simpl negb. cbv iota.
  destruct (prep H g rt m1 a true) as [m2 a2] eqn:Ep.
  assert (Hres : exists onk, ch' = oroot onk /\ kid_result H g rt m kt m1 onk
                              /\ pdel (er kt) ck = (ero onk, true) /\ lwf_o f onk).
  { destruct Hch as [(-> & Hg0 & Epr)|(tk & -> & Hq & Epr & Hltk)].
    - exists None. split; [reflexivity|]. split; [exact Hg0|]. split; [exact Epr | exact I].
    - exists (Some tk). split; [reflexivity|]. split; [exact Hq|]. split; [exact Epr | exact Hltk]. }
  destruct Hres as (onk & -> & Hres & Epr & Hlo).
  rewrite Epr. cbn [fst snd].
  pose proof (rebuild_branch H g rt m a pk sv mbh gn true ks idx kt m1 onk c Hp Ekt Hres Hca Hci m2 a2 Ep) as Hq.
  destruct (handle_deletion H rt _ a2 k) as [m4 b] eqn:Ehd.
  intros E. injection E as <- <- <-. right. split; auto. right.
  assert (Hl2 : lwf (AN a2 pk sv mbh g true (set_nth idx onk ks))) by (apply (lwf_set_kid a pk sv mbh gn ks); auto).
  destruct (handle_deletion_spec_er m t _ a2 pk sv mbh _ k m4 b Hp Hq Hl2 Ehd) as (T' & <- & HT' & Er' & Hl').
  exists T'. rewrite Er', map_ero_set_nth. auto.
Qed.

Lemma prefix_is_child_eq pk p :
  Trie.Model.prefix_is_child pk p = ((length p =? S (length pk)) && is_prefix (removelast p) pk).
Proof.
  unfold Trie.Model.prefix_is_child. rewrite Nat.add_1_r, removelast_firstn_len, Nat.sub_1_r. reflexivity.
Qed.

Lemma clear_prefix_spec_er : forall fuel m t prefix m' p' flag,
  length prefix < fuel -> pre m t -> lwf t ->
  clear_prefix_node H g rt fuel m (Some (aroot t)) prefix = (m', p', flag) ->
  result_o_er m t m' p' flag (pclear (er t) prefix).
Proof.
  induction fuel as [|f0 IH]; intros m t prefix m' p' flag Hlen Hp Hl; [lia|].
  destruct t as [a pk sv mbh gn isb ks]. set (t := AN a pk sv mbh gn isb ks) in *.
  pose proof Hp as (Hw & Hr & Hs & Hg & Hc & Hrt).
  destruct (rep_cell _ _ Hr) as (c & Hca & Hci). simpl in Hca.
  pose proof Hci as Hci'. unfold t, cell_is in Hci'. destruct Hci' as (Epk & Esv & Embh & Egn & Eisb & Eks).
  assert (Hb : forall x, In x (addrs t) -> (x < nx m)%N) by (intros; eapply rep_bounded; eauto).
  change (aroot t) with a. cbn [clear_prefix_node]. rewrite Hca, Eisb, Epk.
  destruct isb; cbn [negb].
  2:{ assert (Hlv : exists lv, sv = Some lv).
      { pose proof Hl as Hl0. unfold t in Hl0. apply lwf_unfold in Hl0. destruct Hl0 as (Hs0 & _).
        destruct sv; eauto. exfalso; apply Hs0; auto. }
      destruct Hlv as (lv & Elv).
      assert (Eer : er t = Leaf pk lv) by (unfold t; rewrite er_unfold, Elv; reflexivity).
      rewrite Eer, ClearProofs.clear_prefix_leaf.
      destruct (is_prefix prefix pk).
      - intros E. injection E as <- <- <-. right. split; auto. left. split; auto. split; auto.
        apply (drop_spec H g rt m t Hp).
      - intros E. injection E as <- <- <-. left. rewrite Eer. auto. }
  assert (Eer : er t = Branch pk sv (map ero ks)) by (unfold t; rewrite er_unfold; reflexivity).
  assert (Hsame : forall m0 p0 f1, (m, Some a, false) = (m0, p0, f1) ->
            result_o_er m t m0 p0 f1 (Some (Branch pk sv (map ero ks)), false)).
  { intros m0 p0 f1 E. injection E as <- <- <-. left. rewrite Eer. auto. }
  rewrite Eer, ClearProofs.clear_prefix_branch, prefix_is_child_eq.
  destruct (is_prefix prefix pk).
  { intros E. injection E as <- <- <-. right. split; auto. left. split; auto. split; auto. apply (drop_spec H g rt m t Hp). }
  cbv zeta. unfold child_at. rewrite nth_map_ero.
  destruct ((length prefix =? S (length pk)) && is_prefix (removelast prefix) pk).
  { (* the prefix selects one whole child *)
    set (idx := nth (length pk) prefix 0).
    rewrite Eks, nth_map_oroot.
    destruct (nth idx ks None) as [kc|] eqn:Ekc; simpl oroot; simpl ero; [|apply Hsame].
    pose proof (kid_in_nth ks idx kc Ekc) as Hkin.
    destruct (prep H g rt m a true) as [m1 a1] eqn:Ep.
    set (m2 := reg H rt m1 (aroot kc)).
    destruct (handle_deletion H rt _ a1 prefix) as [m4 b] eqn:Ehd.
    intros E. injection E as <- <- <-. right. split; auto. right.
    assert (Hown : c_gen c = g -> In (aroot t) (own g t)).
    { intros E. apply (root_own g t). simpl. congruence. }
    assert (Hcopy : c_gen c <> g -> rep (hp m) t /\ sep t /\ Cache.cache_ok H (Model.is_root rt (aroot t)) (hp m) t).
    { intros E. split; [exact Hr | split; [exact Hs | exact Hc]]. }
    destruct (prep_spec H g rt m t c true Hw Hca Hown Hcopy (nx m) m1 a1 (N.le_refl _) Ep)
      as (Hw1 & Hle1 & (c1 & Hc1 & _) & Hcase & F1 & Hcar).
    assert (Hpk : pre m kc) by (apply (pre_kid H g rt m t kc Hp Hkin)).
    destruct Hpk as (_ & Hrk & Hsk & Hgk & Hck & _).
    assert (Hna : ~ In a (addrs kc)) by (apply (sep_root_not_in_kid t kc Hs Hkin)).
    assert (Hbk : forall x, In x (addrs kc) -> (x < nx m)%N).
    { intros x Hx. apply Hb. apply (kid_in_addrs t kc x Hkin Hx). }
    destruct (Hcar kc Hsk Hna Hbk Hrk) as (Hrk1 & Hck1).
    destruct (reg_spec H g rt (nx m) m1 t kc Hw1 Hrk1 Hsk (Hck1 _ Hck)) as (Hw2 & Enx2 & F2 & Fills).
    { intros x Hx. left. apply (kid_in_addrs t kc x Hkin Hx). }
    fold m2 in Hw2, Enx2, F2, Fills.
    assert (Hna1 : ~ In a1 (addrs kc)).
    { destruct Hcase as [(_ & -> & _)|(_ & -> & _)]; auto. intros Hx. specialize (Hbk _ Hx). lia. }
    assert (Hout : forall x, ~ In x (addrs kc) -> hp m2 x = hp m1 x).
    { intros x Hx. eapply fillsP_out; eauto. intros s0 Hs0 <-. apply Hx.
      assert (In s0 (subts kc)) by (destruct Hs0 as [?|[_ ->]]; [auto | apply in_subts_self]).
      eapply subts_addrs; eauto. apply aroot_in_addrs. }
    assert (Hq : post m t (wr m2 a1 (fun c' => set_kids_c (set_nth idx None (c_kids c')) c'))
                      (AN a1 pk sv mbh g true (set_nth idx None ks))).
    { apply (finish_gen H g rt m t m c true m1 a1 m2 (fun c' => set_kids_c (set_nth idx None (c_kids c')) c')
                        pk sv mbh true (set_nth idx None ks) Hp Hw (N.le_refl _)
                        (frame_refl H g rt _ _ _) Hca Hci (pre_copy H g rt m t Hp) Ep Hw2 Enx2 F2 (Hout a1 Hna1)).
      - intros k0 Hin. apply in_set_nth_some in Hin. destruct Hin as [E|(j & Hj & E)]; [discriminate|].
        apply carried_eq. intros x Hx. apply Hout. intros Hx'.
        eapply (sep_kids_disjoint t j idx k0 kc x); eauto.
      - intros c2 a0 Hd Hg1 Hpk1 Hmbh1 Hisb1 Hk1 Hsv1. unfold cell_is. simpl.
        assert (c_sv c2 = c_sv c) by (rewrite Hsv1; destruct (N.eqb (c_gen c) g); auto).
        rewrite map_set_nth. simpl oroot. repeat split; auto; congruence.
      - intros k0 Hin. apply in_set_nth_some in Hin. destruct Hin as [E|(j & Hj & E)]; [discriminate|].
        destruct (nth_some_in _ _ _ E) as (Hin0 & _). apply (pre_old_kids H g rt m t Hp k0 Hin0).
      - apply disjoint_set_nth_none. apply (sep_disjoint_kids t Hs). }
    assert (Hl2 : lwf (AN a1 pk sv mbh g true (set_nth idx None ks))) by (apply (lwf_set_kid a pk sv mbh gn ks); simpl; auto).
    destruct (handle_deletion_spec_er m t _ a1 pk sv mbh _ prefix m4 b Hp Hq Hl2 Ehd) as (T' & <- & HT' & Er' & Hl').
    exists T'. rewrite Er', map_ero_set_nth. auto. }
  unfold Trie.Model.no_prefix_for_node.
  destruct ((length prefix <=? length pk) || (cpl pk prefix <? length pk)) eqn:Enp; [apply Hsame|].
  set (idx := nth (length pk) prefix 0). rewrite Nat.add_1_r. set (cp := skipn (S (length pk)) prefix).
  rewrite Eks, nth_map_oroot.
  destruct (nth idx ks None) as [kt|] eqn:Ekt; simpl oroot; simpl ero.
  2:{ rewrite clear_none. simpl. apply Hsame. }
  pose proof (kid_in_nth ks idx kt Ekt) as Hkin.
  assert (Hpk : pre m kt) by (apply (pre_kid H g rt m t kt Hp Hkin)).
  assert (Hlk : lwf kt) by (apply (lwf_kid f t kt Hl Hkin)).
  destruct (clear_prefix_node H g rt f0 m (Some (aroot kt)) cp) as [[m1 ch'] removed] eqn:Erec.
  assert (Hlen' : length cp < f0).
  { apply orb_false_iff in Enp. destruct Enp as (E1 & _). apply Nat.leb_gt in E1. unfold cp. rewrite skipn_length. lia. }
  destruct (IH m kt cp m1 ch' removed Hlen' Hpk Hlk Erec) as [(-> & -> & -> & Epr)|(-> & Hch)].
  { rewrite Epr. simpl. apply Hsame. }
  simpl negb. cbv iota.
  destruct (prep H g rt m1 a true) as [m2 a2] eqn:Ep.
  assert (Hres : exists onk, ch' = oroot onk /\ kid_result H g rt m kt m1 onk
                              /\ pclear (er kt) cp = (ero onk, true) /\ lwf_o f onk).
  { destruct Hch as [(-> & Hg0 & Epr)|(tk & -> & Hq & Epr & Hltk)].
    - exists None. split; [reflexivity|]. split; [exact Hg0|]. split; [exact Epr | exact I].
    - exists (Some tk). split; [reflexivity|]. split; [exact Hq|]. split; [exact Epr | exact Hltk]. }
  destruct Hres as (onk & -> & Hres & Epr & Hlo).
  rewrite Epr. cbn [fst snd].
  pose proof (rebuild_branch H g rt m a pk sv mbh gn true ks idx kt m1 onk c Hp Ekt Hres Hca Hci m2 a2 Ep) as Hq.
  destruct (handle_deletion H rt _ a2 prefix) as [m4 b] eqn:Ehd.
  intros E. injection E as <- <- <-. right. split; auto. right.
  assert (Hl2 : lwf (AN a2 pk sv mbh g true (set_nth idx onk ks))) by (apply (lwf_set_kid a pk sv mbh gn ks); auto).
  destruct (handle_deletion_spec_er m t _ a2 pk sv mbh _ prefix m4 b Hp Hq Hl2 Ehd) as (T' & <- & HT' & Er' & Hl').
  exists T'. rewrite Er', map_ero_set_nth. auto.
Qed.

End DeletePure.
