(* C03/Limit.v — the contract of ClearPrefixLimit: deleteNodesLimit (dnl) and
   clearPrefixLimitAtNode/Branch/Child (clear_limit_node). *)
From Common Require Import Bytes.
From Trie Require Import Nibbles Encode.
From C03 Require Import Model Tree Cache Frame Ops Spec Insert Delete.
From Coq Require Import Arith Lia.
Local Open Scope nat_scope.

Section Limit.
Variable H : list byte -> list byte.
Variable g : N.
Variable rt : option addr.

Notation is_root := (Model.is_root rt).
Notation frame := (Frame.frame H g rt).
Notation cache_ok := (Cache.cache_ok H).
Notation pre := (Spec.pre H g rt).
Notation post := (Spec.post H g rt).
Notation gone := (Delete.gone H g rt).
Notation carried := (Ops.carried H).

(* ---------- extensionality ---------- *)
Lemma frame_ext n0 t h h' h'' : frame n0 t h h' -> (forall x, h'' x = h' x) -> frame n0 t h h''.
Proof.
  intros F E. constructor.
  - intros x Hx Hn. rewrite E. apply (fr_same _ _ _ _ _ _ _ F); auto.
  - intros x c Hc. rewrite E. apply (fr_gen _ _ _ _ _ _ _ F x c Hc).
  - intros x Hx Hn. rewrite E. apply (fr_out _ _ _ _ _ _ _ F); auto.
  - intros u rs' Hr Hs Hb Hd Hroot Hc. apply (cache_ok_frame H rs' h' h''); auto.
    apply (fr_cache _ _ _ _ _ _ _ F); auto.
Qed.

Lemma post_ext m t m' m'' T :
  post m t m' T -> (forall x, hp m'' x = hp m' x) -> nx m'' = nx m' -> post m t m'' T.
Proof.
  intros (R1 & R2 & R3 & R4 & Hw & Hle & F & P8 & P9 & P10) E En.
  split. { eapply rep_frame; eauto. intros x _. rewrite E. apply samef_o_refl. }
  split; [exact R2|]. split; [exact R3|].
  split. { intros rs. apply (cache_ok_frame H rs (hp m') (hp m'')); auto. }
  split. { intros x Hx. rewrite E. apply Hw. rewrite <- En. auto. }
  split; [rewrite En; auto|].
  split; [eapply frame_ext; eauto|].
  repeat split; auto.
Qed.

Lemma wr_ext m m' a f : (forall x, hp m' x = hp m x) -> nx m' = nx m ->
  (forall x, hp (wr m' a f) x = hp (wr m a f) x) /\ nx (wr m' a f) = nx (wr m a f).
Proof.
  intros E En. unfold wr. rewrite E. destruct (hp m a) as [c|]; simpl; auto.
  split; auto. intros x. unfold upd. destruct (N.eqb x a); auto.
Qed.

(* preparing an owned dirty node without a cached value changes nothing *)
Lemma prep_own_noop m a c csv :
  hp m a = Some c -> c_gen c = g -> c_dirty c = true -> c_mv c = None ->
  exists m', prep H g rt m a csv = (m', a) /\ (forall x, hp m' x = hp m x) /\ nx m' = nx m.
Proof.
  intros Hc Hg Hd Hm. unfold prep. rewrite Hc, Hg, N.eqb_refl. eexists. split; [reflexivity|]. simpl. split; auto.
  intros x. unfold upd. destruct (N.eqb_spec x a) as [->|]; auto. rewrite Hc. f_equal.
  destruct c; simpl in *; subst; reflexivity.
Qed.

(* ---------- composing two operations ---------- *)
Lemma post_trans m t m1 T1 m2 T2 :
  pre m t -> post m t m1 T1 -> post m1 T1 m2 T2 -> post m t m2 T2.
Proof.
  intros (Hw & Hr & Hs & Hg & Hc & Hrt) (A1 & A2 & A3 & A4 & Aw & Ale & AF & A8 & A9 & A10)
         (B1 & B2 & B3 & B4 & Bw & Ble & BF & B8 & B9 & B10).
  assert (Hb : forall x, In x (addrs t) -> (x < nx m)%N) by (intros; eapply rep_bounded; eauto).
  (* an old owned cell of T1 is an owned cell of t *)
  assert (Hown : forall x, (x < nx m)%N -> In x (own g T1) -> In x (own g t)).
  { intros x Hx Ho. destruct (A8 x (own_addrs _ _ _ Ho)) as [Hin|Hge]; [|exfalso; lia].
    apply (rep_own_gen _ _ g _ Hr Hin).
    destruct (rep_in_cell _ _ _ Hr Hin) as (c & Hcx).
    destruct (fr_gen _ _ _ _ _ _ _ AF x c Hcx) as (c1 & Hc1 & Eg).
    apply (rep_own_gen _ _ g _ A1 (own_addrs _ _ _ Ho)) in Ho. destruct Ho as (c1' & Hc1' & Eg').
    exists c. split; auto. congruence. }
  assert (F2 : frame (nx m) t (hp m1) (hp m2)).
  { constructor.
    - intros x Hx Hn. apply (fr_same _ _ _ _ _ _ _ BF); [lia|]. intros Ho. apply Hn. apply Hown; auto.
    - apply (fr_gen _ _ _ _ _ _ _ BF).
    - intros x Hx Hn. apply (fr_out _ _ _ _ _ _ _ BF); [lia|]. intros Hin.
      destruct (A8 x Hin) as [?|?]; [tauto | lia].
    - intros u rs' Hru Hsu Hbu Hdu Hroot Hcu. apply (fr_cache _ _ _ _ _ _ _ BF); auto.
      + intros x Hx. specialize (Hbu x Hx). lia.
      + intros x Ho Hin. exact (Hdu x (Hown x (Hbu x Hin) Ho) Hin). }
  split; [exact B1|]. split; [exact B2|]. split; [exact B3|]. split; [exact B4|].
  split; [exact Bw|]. split; [lia|].
  split. { eapply frame_trans with (n1 := nx m); [lia | exact AF | exact F2]. }
  split. { intros x Hx. destruct (B8 x Hx) as [Hin|?]; [|right; lia]. destruct (A8 x Hin); auto. }
  split. { intros x Hx Hne Hlt. destruct (B9 x Hx Hne) as [(Hin & Hne1)|Ho]; [lia | |].
           - apply (A9 x Hin Hne1 Hlt).
           - right. apply Hown; auto. }
  destruct B10 as [(E & Ho)|?]; [|right; lia].
  rewrite E. exact A10.
Qed.

(* the tree T stays what it is across a step that only allocates and fills caches *)
Lemma post_step m t m3 T m4 :
  post m t m3 T -> hwf m4 -> (nx m3 <= nx m4)%N -> frame (nx m) t (hp m3) (hp m4) ->
  carried (hp m3) (hp m4) T -> post m t m4 T.
Proof.
  intros (R1 & R2 & R3 & R4 & Hw & Hle & F & P8 & P9 & P10) Hw4 Hle4 F4 C.
  destruct (C R1) as (R1' & C2).
  split; [exact R1'|]. split; [exact R2|]. split; [exact R3|]. split; [intros rs; apply C2; auto|].
  split; [exact Hw4|]. split; [lia|].
  split. { eapply frame_trans with (n1 := nx m); [lia | exact F | exact F4]. }
  repeat split; auto.
Qed.

(* handleDeletion leaves the (prepared) branch itself as it is *)
Lemma handle_deletion_keeps m t m3 a3 pk3 sv3 mbh3 isb3 ks3 k m4 b :
  let T := AN a3 pk3 sv3 mbh3 g isb3 ks3 in
  pre m t -> post m t m3 T -> rt_ok rt T ->
  handle_deletion H rt m3 a3 k = (m4, b) ->
  post m t m4 T /\ hp m4 a3 = hp m3 a3.
Proof.
  intros T Hp Hq HrtT. pose proof Hq as (R1 & R2 & R3 & R4 & Hw3 & Hle3 & F3 & P8 & P9 & P10).
  destruct (rep_cell _ _ R1) as (c3 & Hc3 & Hci3). simpl in Hc3.
  pose proof Hci3 as Hci3'. unfold T, cell_is in Hci3'. destruct Hci3' as (Epk & Esv & Embh & Egn & Eisb & Eks).
  assert (Hb3 : forall x, In x (addrs T) -> (x < nx m3)%N) by (intros; eapply rep_bounded; eauto).
  assert (Ha3 : (a3 < nx m3)%N) by (apply Hb3; apply (aroot_in_addrs T)).
  unfold handle_deletion. rewrite Hc3.
  assert (Hsame : forall m4' b', (m3, a3) = (m4', b') -> post m t m4' T /\ hp m4' a3 = Some c3).
  { intros m4' b' E. inversion E; subst. split; auto. }
  assert (Halloc : forall m3' cl m4' b', hwf m3' -> nx m3' = nx m3 -> post m t m3' T -> hp m3' a3 = Some c3 ->
            alloc m3' cl = (m4', b') -> post m t m4' T /\ hp m4' a3 = Some c3).
  { intros m3' cl m4' b' Hw' En Hq' Ea E. rewrite alloc_eq in E. injection E as <- _. split.
    - apply (post_step m t m3' T); auto.
      + apply hwf_alloc; auto.
      + unfold alloc; simpl; lia.
      + unfold alloc; simpl. apply frame_fresh; [rewrite En; lia|]. intros c0 Hc0. rewrite Hw' in Hc0 by lia. discriminate.
      + unfold alloc; simpl. apply carried_upd. rewrite En. intros Hx. specialize (Hb3 _ Hx). lia.
    - unfold alloc; simpl. rewrite upd_neq by (rewrite En; lia). auto. }
  destruct (count_kids (c_kids c3)) as [|[|n]] eqn:Ecnt.
  - destruct (c_sv c3) as [v|] eqn:Esv3; [|apply Hsame].
    intros E. eapply (Halloc m3); eauto.
  - destruct (c_sv c3) eqn:Esv3; [apply Hsame|].
    destruct (first_kid (c_kids c3) 0) as [[i ch]|] eqn:Efk; [|apply Hsame].
    rewrite Eks in Efk. destruct (first_kid_spec _ _ _ _ Efk) as (kc & Hkin & Ech). subst ch.
    assert (Hrk : rep (hp m3) kc) by (eapply rep_kid; eauto).
    assert (Hsk : sep kc) by (eapply sep_kid; eauto).
    assert (Hck : cache_ok false (hp m3) kc) by (apply (cache_ok_kid H false (hp m3) T kc (R4 false) Hkin)).
    destruct (is_root_kid rt T kc R2 HrtT Hkin) as (Hir & _).
    destruct (reg_spec H g rt (nx m) m3 t kc Hw3 Hrk Hsk (cache_ok_weaken H _ _ Hck _)) as (Hw3' & Enx & F3' & Fills).
    { intros x Hx. apply P8. apply (kid_in_addrs T kc x Hkin Hx). }
    set (m3' := reg H rt m3 (aroot kc)) in *.
    assert (Hq' : post m t m3' T).
    { apply (post_step m t m3 T); auto; [rewrite Enx; lia|].
      intros _. split; [eapply fillsP_rep; eauto|].
      intros rs Hc. eapply fillsP_cache_ok; eauto.
      - intros s [Hs0|[_ ->]]; auto. exact (rep_subt _ _ _ Hrk Hs0).
      - intros r [Hr0 _]. rewrite Hir in Hr0. discriminate. }
    assert (Ea : hp m3' a3 = Some c3).
    { rewrite <- Hc3. eapply fillsP_out; eauto. intros s0 Hs0 E.
      assert (In s0 (subts kc)) by (destruct Hs0 as [?|[_ ->]]; [auto | apply in_subts_self]).
      apply (sep_root_not_in_kid T kc R2 Hkin). simpl. rewrite <- E. eapply subts_addrs; eauto. apply aroot_in_addrs. }
    destruct (hp m3' (aroot kc)) as [cc|].
    + intros E. eapply (Halloc m3'); eauto.
    + intros E. injection E as Em Eb. subst m4 b. split; auto.
  - apply Hsame.
Qed.

(* ---------- deleteNodesLimit ---------- *)
Definition dres (m : mem) (t : atree) (m' : mem) (np : option addr) (vd : N) : Prop :=
  vd = panic_mark
  \/ ((1 <= vd)%N /\ ((np = None /\ gone m t m') \/ exists T, np = Some (aroot T) /\ post m t m' T)).

Definition rt_old (m : mem) : Prop := forall r, rt = Some r -> (r < nx m)%N.

Lemma post_pre m t mk T : pre m t -> post m t mk T -> rt_ok rt T -> pre mk T.
Proof.
  intros _ (R1 & R2 & R3 & R4 & Hw & _) Hrt. repeat split; auto.
Qed.

Section Loop.
Variables (m : mem) (t : atree) (f : nat) (a1 : addr) (pk : key) (sv : option value) (mbh isb : bool).
Hypothesis Hp : pre m t.
Hypothesis Hold : rt_old m.
Hypothesis IHf : forall m0 t0 limit0 m' np vd,
  pre m0 t0 -> rt_old m0 -> depth t0 < f -> limit0 <> 0%N ->
  dnl H g rt f m0 (Some (aroot t0)) limit0 = (m', np, vd) -> dres m0 t0 m' np vd.

Lemma dnl_loop_spec : forall n i mk ks nilc limit vd m' np vd',
  post m t mk (AN a1 pk sv mbh g isb ks) -> rt_ok rt (AN a1 pk sv mbh g isb ks) ->
  (exists c, hp mk a1 = Some c /\ c_dirty c = true /\ c_mv c = None) ->
  (forall j k, i <= j -> nth j ks None = Some k -> depth k < f) ->
  limit <> 0%N ->
  ((1 <= vd)%N \/ exists j k, i <= j < i + n /\ nth j ks None = Some k) ->
  dnl_loop H rt (dnl H g rt f) a1 pk n i mk nilc limit vd = (m', np, vd') ->
  dres m t m' np vd'.
Proof.
  induction n as [|n IH]; intros i mk ks nilc limit vd m' np vd' Hq Hrt (c & Hc & Hd & Hm) Hdep Hlim Hpos.
  - (* all children visited *)
    simpl. rewrite Hc. intros E. injection E as <- <- <-.
    assert (Hv : (1 <= vd)%N) by (destruct Hpos as [?|(j & k & ? & _)]; [auto | lia]).
    right. split; [destruct (is_some (c_sv c)); lia|]. left. split; auto. eapply post_gone; eauto.
  - cbn [dnl_loop]. rewrite Hc.
    set (T := AN a1 pk sv mbh g isb ks) in *.
    pose proof Hq as (R1 & R2 & R3 & R4 & Hwk & Hlek & Fk & P8 & P9 & P10).
    destruct (rep_cell _ _ R1) as (c0 & Hc0 & Hci). simpl in Hc0. rewrite Hc in Hc0. injection Hc0 as <-.
    pose proof Hci as Hci'. unfold T, cell_is in Hci'. destruct Hci' as (Epk & Esv & Embh & Egn & Eisb & Eks).
    rewrite Eks, nth_map_oroot.
    destruct (nth i ks None) as [kt|] eqn:Ekt; simpl oroot.
    + (* a child to delete below *)
      destruct (nth_some_in _ _ _ Ekt) as (Hkin & _).
      assert (Hpk : pre mk T) by (eapply post_pre; eauto).
      assert (Hpkt : pre mk kt) by (apply (pre_kid H g rt mk T kt Hpk Hkin)).
      assert (Holdk : rt_old mk) by (intros r Er; specialize (Hold r Er); lia).
      destruct (dnl H g rt f mk (Some (aroot kt)) limit) as [[m1 ch'] d] eqn:Erec.
      assert (Hdk : depth kt < f) by (apply (Hdep i kt); auto).
      destruct (IHf mk kt limit m1 ch' d Hpkt Holdk Hdk Hlim Erec) as [Epanic|(Hd1 & Hout)].
      * subst d. rewrite N.eqb_refl. intros E. injection E as <- <- <-. left; auto.
      * destruct (N.eqb_spec d panic_mark) as [Ep|Hnp].
        { intros E. injection E as <- <- <-. left; auto. }
        assert (Hres : exists onk, ch' = oroot onk /\ kid_result H g rt mk kt m1 onk).
        { destruct Hout as [(-> & Hg0)|(tk & -> & Hqk)]; [exists None | exists (Some tk)]; split; auto. }
        destruct Hres as (onk & -> & Hres).
        destruct (kid_result_gone H g rt _ _ _ _ Hres) as (Hw1 & Hle1 & F1).
        assert (Hb : forall x, In x (addrs T) -> (x < nx mk)%N) by (intros; eapply rep_bounded; eauto).
        assert (Hna : ~ In a1 (addrs kt)) by (apply (sep_root_not_in_kid T kt R2 Hkin)).
        assert (Hc1 : hp m1 a1 = Some c).
        { rewrite (fr_out _ _ _ _ _ _ _ F1); auto. apply Hb. apply (aroot_in_addrs T). }
        destruct (prep_own_noop m1 a1 c true Hc1 Egn Hd Hm) as (m2 & Ep & Eext & Enx).
        set (fk := fun c' : cell => set_kids_c (set_nth i (oroot onk) (c_kids c')) c').
        pose proof (rebuild_branch H g rt mk a1 pk sv mbh g isb ks i kt m1 onk c Hpk Ekt Hres Hc Hci m2 a1 Ep) as Hq2.
        destruct (wr_ext m1 m2 a1 fk Eext Enx) as (Ew & Ewn).
        set (T' := AN a1 pk sv mbh g isb (set_nth i onk ks)) in *.
        assert (Hq2' : post mk T (wr m1 a1 fk) T').
        { eapply post_ext; [exact Hq2 | |]; intros; symmetry; auto. }
        assert (Hq3 : post m t (wr m1 a1 fk) T') by (eapply post_trans; eauto).
        assert (Hrt' : rt_ok rt T').
        { intros r Er Hin. destruct (N.eq_dec r a1) as [|Hne]; auto. exfalso.
          pose proof Hq2' as (_ & _ & _ & _ & _ & _ & _ & Q8 & Q9 & _).
          assert (Hrold : (r < nx mk)%N) by (specialize (Hold r Er); lia).
          destruct (Q9 r Hin Hne Hrold) as [(HinT & HneT)|Ho].
          - apply HneT. apply (Hrt r Er HinT).
          - apply own_addrs in Ho. specialize (Hrt r Er Ho). simpl in Hrt. congruence. }
        assert (Hc2 : exists c2, hp (wr m1 a1 fk) a1 = Some c2 /\ c_dirty c2 = true /\ c_mv c2 = None /\ c_sv c2 = c_sv c).
        { rewrite (wr_some _ _ _ _ Hc1). simpl. rewrite upd_eq. eexists. split; [reflexivity|]. simpl. auto. }
        destruct Hc2 as (c2 & Hc2 & Hd2 & Hm2 & Esv2).
        assert (Hvd : (1 <= vd + d)%N) by lia.
        destruct ((match oroot onk with None => S nilc | Some _ => nilc end =? 16) && negb (is_some (c_sv c))).
        { intros E. injection E as <- <- <-. right. split; auto. left. split; auto. eapply post_gone; eauto. }
        destruct (N.eqb_spec (limit - d) 0) as [El|El].
        { destruct (handle_deletion H rt (wr m1 a1 fk) a1 pk) as [m3 b] eqn:Ehd.
          destruct (handle_deletion_spec H g rt m t _ a1 pk sv mbh isb _ pk m3 b Hp Hq3 Ehd) as (Tnp & <- & Hqnp).
          intros E. injection E as <- <- <-. right. split; auto. right. eauto. }
        intros E. eapply (IH (S i) (wr m1 a1 fk) (set_nth i onk ks)); try exact E; auto.
        -- exists c2. auto.
        -- intros j k Hj Ej. rewrite nth_set_nth_neq in Ej by lia. apply (Hdep j k); auto; lia.
    + (* no child at this index *)
      intros E. eapply (IH (S i) mk ks); try exact E; auto.
      * exists c; auto.
      * intros j k Hj Ej. apply (Hdep j k); auto; lia.
      * destruct Hpos as [?|(j & k & Hj & Ej)]; auto. right. exists j, k. split; auto.
        destruct (Nat.eq_dec j i) as [->|]; [congruence | lia].
Qed.

End Loop.

Lemma count_kids_some (ks : list (option atree)) :
  count_kids (map oroot ks) <> 0 -> exists j k, j < length ks /\ nth j ks None = Some k.
Proof.
  induction ks as [|[k|] ks IH]; simpl; intros Hc; [congruence | |].
  - exists 0, k. split; auto. lia.
  - destruct (IH Hc) as (j & k & Hj & E). exists (S j), k. split; auto. lia.
Qed.

(* prepForMutation on the root of t, seen as an operation of its own *)
Lemma prep_post m a pk sv mbh gn isb ks c m1 a1 :
  let t := AN a pk sv mbh gn isb ks in
  pre m t -> rt_old m -> hp m a = Some c -> cell_is c t ->
  prep H g rt m a true = (m1, a1) ->
  post m t m1 (AN a1 pk sv mbh g isb ks)
  /\ rt_ok rt (AN a1 pk sv mbh g isb ks)
  /\ (exists c1, hp m1 a1 = Some c1 /\ c_dirty c1 = true /\ c_mv c1 = None).
Proof.
  intros t Hp Hold Hca Hci Ep. pose proof Hp as (Hw & Hr & Hs & Hg & Hc & Hrt).
  pose proof Hci as Hci'. unfold t, cell_is in Hci'. destruct Hci' as (Epk & Esv & Embh & Egn & Eisb & Eks).
  assert (Hown : c_gen c = g -> In (aroot t) (own g t)).
  { intros E. apply (root_own g t). simpl. congruence. }
  assert (Hcopy : c_gen c <> g -> rep (hp m) t /\ sep t /\ cache_ok (is_root (aroot t)) (hp m) t).
  { intros E. split; [exact Hr | split; [exact Hs | exact Hc]]. }
  destruct (prep_spec H g rt m t c true Hw Hca Hown Hcopy (nx m) m1 a1 (N.le_refl _) Ep)
    as (Hw1 & Hle1 & (c1 & Hc1 & Hd1 & Hg1 & Hm1 & Hpk1 & _) & Hcase & _).
  pose proof (move_down H g rt m a pk sv mbh gn isb ks c pk m1 a1 Hp Hca Hci Ep) as Hq.
  assert (Eext : forall x, hp m1 x = hp (wr m1 a1 (set_pk_c pk)) x).
  { intros x. rewrite (wr_some _ _ _ _ Hc1). simpl. unfold upd. destruct (N.eqb_spec x a1) as [->|]; auto.
    rewrite Hc1. f_equal. destruct c1; unfold set_pk_c; simpl in *. f_equal. congruence. }
  assert (Hq1 : post m t m1 (AN a1 pk sv mbh g isb ks)).
  { eapply post_ext; [exact Hq | exact Eext |]. rewrite (wr_some _ _ _ _ Hc1). reflexivity. }
  split; [exact Hq1|]. split; [|eauto].
  intros r Er Hin. simpl. destruct (N.eq_dec r a1) as [|Hne]; auto. exfalso.
  pose proof Hq1 as (_ & _ & _ & _ & _ & _ & _ & _ & Q9 & _).
  destruct (Q9 r Hin Hne (Hold r Er)) as [(HinT & HneT)|Ho].
  - apply HneT. apply (Hrt r Er HinT).
  - pose proof (Hrt r Er (own_addrs _ _ _ Ho)) as Era. simpl in Era. subst r.
    destruct Hcase as [(_ & Ea & _)|(Eg & _)]; [simpl in Ea; congruence|].
    apply Eg. rewrite Egn. apply (rep_own_gen _ _ g _ Hr (aroot_in_addrs t)) in Ho.
    destruct Ho as (c' & Hc' & Eg'). simpl in Hc'. rewrite Hca in Hc'. injection Hc' as <-. congruence.
Qed.

Lemma dnl_spec : forall fuel m t limit m' np vd,
  pre m t -> rt_old m -> depth t < fuel -> limit <> 0%N ->
  dnl H g rt fuel m (Some (aroot t)) limit = (m', np, vd) -> dres m t m' np vd.
Proof.
  induction fuel as [|f IH]; intros m t limit m' np vd Hp Hold Hdep Hlim; [lia|].
  destruct t as [a pk sv mbh gn isb ks]. set (t := AN a pk sv mbh gn isb ks) in *.
  pose proof Hp as (Hw & Hr & Hs & Hg & Hc & Hrt).
  destruct (rep_cell _ _ Hr) as (c & Hca & Hci). simpl in Hca.
  pose proof Hci as Hci'. unfold t, cell_is in Hci'. destruct Hci' as (Epk & Esv & Embh & Egn & Eisb & Eks).
  change (aroot t) with a. cbn [dnl].
  destruct (N.eqb_spec limit 0); [congruence|]. rewrite Hca.
  destruct (negb (c_isb c)).
  { intros E. injection E as <- <- <-. right. split; [lia|]. left. split; auto. apply (drop_spec H g rt m t Hp). }
  destruct (count_kids (c_kids c) =? 0) eqn:Ecnt.
  { intros E. injection E as <- <- <-. left; auto. }
  apply Nat.eqb_neq in Ecnt. rewrite Eks in Ecnt.
  destruct (count_kids_some ks Ecnt) as (j & k & Hj & Ej).
  destruct (prep H g rt m a true) as [m1 a1] eqn:Ep.
  destruct (prep_post m a pk sv mbh gn isb ks c m1 a1 Hp Hold Hca Hci Ep) as (Hq & Hrt1 & Hc1).
  rewrite Epk. intros E.
  eapply (dnl_loop_spec m t f a1 pk sv mbh isb Hp Hold IH (length (c_kids c)) 0 m1 ks); try exact E; auto.
  - intros j0 k0 _ E0. destruct (nth_some_in _ _ _ E0) as (Hin & _).
    assert (depth k0 < depth t) by (apply depth_kid; auto). lia.
  - right. exists j, k. rewrite Eks, map_length. split; auto. lia.
Qed.

(* ---------- clearPrefixLimitAtNode ---------- *)
Definition cres (m : mem) (t : atree) (m' : mem) (p' : option addr) (vd : N) : Prop :=
  vd = panic_mark
  \/ (vd = 0%N /\ m' = m /\ p' = Some (aroot t))
  \/ ((1 <= vd)%N /\ ((p' = None /\ gone m t m') \/ exists T, p' = Some (aroot T) /\ post m t m' T)).

Lemma clear_limit_none f m prefix limit : clear_limit_node H g rt f m None prefix limit = (m, None, 0%N, true).
Proof. destruct f; reflexivity. Qed.

Lemma panic_mark_pos : (1 <= panic_mark)%N.
Proof. unfold panic_mark. lia. Qed.

Lemma clear_limit_spec : forall fuel m t prefix limit m' p' vd alld,
  pre m t -> rt_old m -> limit <> 0%N ->
  clear_limit_node H g rt fuel m (Some (aroot t)) prefix limit = (m', p', vd, alld) ->
  cres m t m' p' vd.
Proof.
  induction fuel as [|f IH]; intros m t prefix limit m' p' vd alld Hp Hold Hlim.
  { simpl. intros E. injection E as <- <- <- _. right. left. auto. }
  destruct t as [a pk sv mbh gn isb ks]. set (t := AN a pk sv mbh gn isb ks) in *.
  pose proof Hp as (Hw & Hr & Hs & Hg & Hc & Hrt).
  destruct (rep_cell _ _ Hr) as (c & Hca & Hci). simpl in Hca.
  pose proof Hci as Hci'. unfold t, cell_is in Hci'. destruct Hci' as (Epk & Esv & Embh & Egn & Eisb & Eks).
  assert (Hsame : forall m0 p0 v0 a0, (m, Some a, 0%N, a0) = (m0, p0, v0, alld) -> cres m t m0 p0 v0).
  { intros m0 p0 v0 a0 E. injection E as <- <- <- _. right. left. auto. }
  assert (Hdres : forall m1 np v0, dres m t m1 np v0 -> cres m t m1 np v0).
  { intros m1 np v0 [?|(? & ?)]; [left; auto | right; right; auto]. }
  change (aroot t) with a. cbn [clear_limit_node]. rewrite Hca.
  destruct (negb (c_isb c)).
  { destruct (is_prefix prefix (c_pk c)); [|apply Hsame].
    intros E. injection E as <- <- <- _. right. right. split; [lia|]. left. split; auto. apply (drop_spec H g rt m t Hp). }
  destruct (is_prefix prefix (c_pk c)).
  { destruct (dnl H g rt (cfuel m) m (Some a) limit) as [[m1 np] v0] eqn:Ed.
    intros E. injection E as <- <- <- _. apply Hdres.
    apply (dnl_spec (cfuel m) m t limit m1 np v0 Hp Hold); auto. apply depth_fuel; auto. }
  destruct ((length prefix =? S (length (c_pk c))) && is_prefix (removelast prefix) (c_pk c)).
  { set (idx := nth (length (c_pk c)) prefix 0).
    rewrite Eks, nth_map_oroot.
    destruct (nth idx ks None) as [kc|] eqn:Ekc; simpl oroot; [|apply Hsame].
    destruct (nth_some_in _ _ _ Ekc) as (Hkin & _).
    assert (Hpk : pre m kc) by (apply (pre_kid H g rt m t kc Hp Hkin)).
    destruct (dnl H g rt (cfuel m) m (Some (aroot kc)) limit) as [[m1 ch'] v0] eqn:Ed.
    assert (Hd : dres m kc m1 ch' v0).
    { apply (dnl_spec (cfuel m) m kc limit m1 ch' v0 Hpk Hold); auto.
      destruct Hpk as (_ & Hrk & Hsk & _). apply depth_fuel; auto. }
    destruct Hd as [->|(Hv1 & Hout)].
    { rewrite N.eqb_refl. intros E. injection E as <- <- <- _. left; auto. }
    destruct (N.eqb_spec v0 panic_mark) as [Ep|Hnp].
    { intros E. injection E as <- <- <- _. left; auto. }
    destruct (N.eqb_spec v0 0) as [E0|_]; [lia|].
    assert (Hres : exists onk, ch' = oroot onk /\ kid_result H g rt m kc m1 onk).
    { destruct Hout as [(-> & Hg0)|(tk & -> & Hqk)]; [exists None | exists (Some tk)]; split; auto. }
    destruct Hres as (onk & -> & Hres).
    destruct (prep H g rt m1 a true) as [m2 a2] eqn:Ep.
    pose proof (rebuild_branch H g rt m a pk sv mbh gn isb ks idx kc m1 onk c Hp Ekc Hres Hca Hci m2 a2 Ep) as Hq.
    destruct (handle_deletion H rt _ a2 prefix) as [m4 b] eqn:Ehd.
    intros E. injection E as <- <- <- _. right. right. split; auto. right.
    destruct (handle_deletion_spec H g rt m t _ a2 pk sv mbh isb _ prefix m4 b Hp Hq Ehd) as (T' & <- & HT').
    exists T'. split; auto. }
  destruct ((length prefix <=? length (c_pk c)) || (cpl (c_pk c) prefix <? length (c_pk c))); [apply Hsame|].
  set (idx := nth (length (c_pk c)) prefix 0). set (cp := skipn (S (length (c_pk c))) prefix).
  rewrite Eks, nth_map_oroot.
  destruct (nth idx ks None) as [kt|] eqn:Ekt; simpl oroot.
  2:{ rewrite clear_limit_none. simpl. apply Hsame. }
  destruct (nth_some_in _ _ _ Ekt) as (Hkin & _).
  assert (Hpk : pre m kt) by (apply (pre_kid H g rt m t kt Hp Hkin)).
  destruct (clear_limit_node H g rt f m (Some (aroot kt)) cp limit) as [[[m1 ch'] v0] al0] eqn:Erec.
  destruct (IH m kt cp limit m1 ch' v0 al0 Hpk Hold Hlim Erec) as [->|[(-> & -> & ->)|(Hv1 & Hout)]].
  { rewrite N.eqb_refl. intros E. injection E as <- <- <- _. left; auto. }
  { simpl. intros E. injection E as <- <- <- _. right. left. auto. }
  destruct (N.eqb_spec v0 panic_mark) as [Ep|Hnp].
  { intros E. injection E as <- <- <- _. left; auto. }
  destruct (N.eqb_spec v0 0) as [E0|_]; [lia|].
  assert (Hres : exists onk, ch' = oroot onk /\ kid_result H g rt m kt m1 onk).
  { destruct Hout as [(-> & Hg0)|(tk & -> & Hqk)]; [exists None | exists (Some tk)]; split; auto. }
  destruct Hres as (onk & -> & Hres).
  destruct (prep H g rt m1 a true) as [m2 a2] eqn:Ep.
  pose proof (rebuild_branch H g rt m a pk sv mbh gn isb ks idx kt m1 onk c Hp Ekt Hres Hca Hci m2 a2 Ep) as Hq.
  destruct (handle_deletion H rt _ a2 prefix) as [m4 b] eqn:Ehd.
  intros E. injection E as <- <- <- _. right. right. split; auto. right.
  destruct (handle_deletion_spec H g rt m t _ a2 pk sv mbh isb _ prefix m4 b Hp Hq Ehd) as (T' & <- & HT').
  exists T'. split; auto.
Qed.

End Limit.
