(* C03/ModelY.v — child tries (definitions only).
   pkg/trie/inmemory keeps the child tries of a trie in a map root hash -> *InMemoryTrie; each child
   trie is a trie of its own (own generation counter, own root pointer, own version field).  In the
   heap model a child trie is therefore one more handle.  Three operations of the Go code on child
   tries are not steps of [step]/[xstep]:

   - NewTrie:      PutIntoChild on a child storage key that has no child trie yet starts from
                   NewEmptyTrie(): a new handle of generation 0, nil root, version V0.
   - SnapCopy i v: what InMemoryTrie.Snapshot() does for every child trie of the source:
                     &InMemoryTrie{generation: child.generation + 1,
                                   root: child.root.Copy(DefaultCopySettings + CopyMerkleValue),
                                   version: t.version}
                   — the new trie does not share the root NODE with the source, it gets a copy of it
                   (same Generation, Dirty, MustBeHashed, partial key, storage value, child pointers
                   and cached Merkle value) and the version [v] of the PARENT trie.  A nil child root
                   makes the Go code dereference nil: RPanic, state unchanged.
   - AdoptVer i j: `child.version = t.version` in PutIntoChild: handle i takes the version of
                   handle j (a plain assignment, no regression check).

   All other child-trie operations are ordinary steps on the child's handle (Hash, Put, Delete)
   followed by a Put/Delete of the child's root hash in the parent trie. *)
From Common Require Import Bytes.
From Trie Require Import Nibbles Encode.
From C03 Require Import Model.
From Coq Require Import Arith.
Local Open Scope nat_scope.

Inductive ystep :=
| Y (s : xstep)
| NewTrie
| SnapCopy (i : nat) (v1 : bool)
| AdoptVer (i j : nat).

Section RunY.
Variable H : list byte -> list byte.
Variable fx : bool.
Variable fd : bool.

Definition yexec (st : state) (s : ystep) : state * res :=
  match s with
  | Y s0 => fst (xexec H fx fd st s0)
  | NewTrie => (mkSt (s_mem st) (s_hs st ++ [mkH 0%N None false]), ROk)
  | SnapCopy i v =>
    match nth_error (s_hs st) i with
    | None => (st, RBad)
    | Some hd =>
      match h_root hd with
      | None => (st, RPanic)
      | Some r =>
        match hp (s_mem st) r with
        | None => (st, RBad)
        | Some c =>
          let '(m1, a) := alloc (s_mem st) c in
          (mkSt m1 (s_hs st ++ [mkH (N.succ (h_gen hd)) (Some a) v]), ROk)
        end
      end
    end
  | AdoptVer i j =>
    match nth_error (s_hs st) i, nth_error (s_hs st) j with
    | Some hd, Some hj => (set_handle st i (mkH (h_gen hd) (h_root hd) (h_v1 hj)) (s_mem st), ROk)
    | _, _ => (st, RBad)
    end
  end.

Definition yrun (hist : list ystep) (st : state) : state :=
  fold_left (fun s x => fst (yexec s x)) hist st.

End RunY.

(* the handle a step mutates / the handle a step takes a snapshot of *)
Definition ymutated_handle (s : ystep) : option nat :=
  match s with Y s0 => xmutated_handle s0 | _ => None end.
Definition ysnapped (s : ystep) : option nat :=
  match s with
  | Y (Core (Snap i)) => Some i
  | SnapCopy i _ => Some i
  | _ => None
  end.

(* the copy-on-write contract: a handle is not mutated after a snapshot (of either kind) was
   taken from it *)
Fixpoint yfrozen_ok (frozen : list nat) (hist : list ystep) : bool :=
  match hist with
  | [] => true
  | s :: r =>
    (match ymutated_handle s with
     | Some i => negb (existsb (Nat.eqb i) frozen)
     | None => true
     end)
    && yfrozen_ok (match ysnapped s with Some i => i :: frozen | None => frozen end) r
  end.
Definition yfrozen_parents (hist : list ystep) : bool := yfrozen_ok [] hist.

(* InMemoryTrie.Snapshot() of a trie (handle i) whose child tries are the handles cs:
   the main trie shares its root, every child trie gets a copy of its root and the parent's version *)
Definition snapshot_with_children (i : nat) (v1 : bool) (cs : list nat) : list ystep :=
  Y (Core (Snap i)) :: map (fun c => SnapCopy c v1) cs.

(* PutIntoChild(child key ck, k, v) on the trie main with the child trie child (an existing handle):
   child.version = main.version; child.Hash(); child.Put(k, v); SetChild = child.Hash(), main.Put(ck', hash).
   The hash put into the parent is a parameter (it is the child's root hash at that point). *)
Definition put_into_child (main child : nat) (ck k v hash : list byte) : list ystep :=
  [AdoptVer child main; Y (Core (HashOp child)); Y (Core (Put child k v)); Y (Core (HashOp child));
   Y (Core (Put main ck hash))].
