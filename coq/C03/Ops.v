(* C03/Ops.v — building blocks for the specifications of the mutating operations:
   assembling a new node over represented children, transporting facts about untouched subtrees
   across heap steps, and the specification of prepForMutation. *)
From Common Require Import Bytes.
From Trie Require Import Nibbles Encode.
From C03 Require Import Model Tree Cache Frame.
From Coq Require Import Arith Lia.
Local Open Scope nat_scope.

(* ---------- children at different positions of a separated node are disjoint ---------- *)
Lemma nodup_flat_map_nth {A B} (f : A -> list B) (l : list A) (d : A) i j x :
  NoDup (flat_map f l) -> i <> j -> i < length l -> j < length l ->
  In x (f (nth i l d)) -> ~ In x (f (nth j l d)).
Proof.
  revert i j. induction l as [|a l IH]; simpl; intros i j Hn Hij Hi Hj; [lia|].
  apply nodup_app in Hn. destruct Hn as (Hn1 & Hn2 & Hd).
  destruct i, j; try congruence.
  - intros Hx Hy. apply (Hd x Hx). apply in_flat_map. exists (nth j l d). split; auto. apply nth_In. lia.
  - intros Hx Hy. apply (Hd x Hy). apply in_flat_map. exists (nth i l d). split; auto. apply nth_In. lia.
  - apply IH; auto; lia.
Qed.

Lemma nodup_flat_map_intro {A B} (f : A -> list B) (l : list A) (d : A) :
  (forall i, i < length l -> NoDup (f (nth i l d))) ->
  (forall i j x, i <> j -> i < length l -> j < length l -> In x (f (nth i l d)) -> ~ In x (f (nth j l d))) ->
  NoDup (flat_map f l).
Proof.
  induction l as [|a l IH]; simpl; intros Hn Hd; [constructor|].
  apply nodup_app. repeat split.
  - apply (Hn 0). lia.
  - apply IH.
    + intros i Hi. apply (Hn (S i)). lia.
    + intros i j x Hij Hi Hj. apply (Hd (S i) (S j)); lia.
  - intros x Hx Hy. apply in_flat_map in Hy. destruct Hy as (y & Hy & Hxy).
    apply In_nth with (d := d) in Hy. destruct Hy as (j & Hj & <-).
    apply (Hd 0 (S j) x); simpl; auto; lia.
Qed.

Lemma nth_some_in {A} (l : list (option A)) i k : nth i l None = Some k -> In (Some k) l /\ i < length l.
Proof.
  intros E. destruct (Nat.lt_ge_cases i (length l)).
  - split; auto. rewrite <- E. apply nth_In; auto.
  - rewrite nth_overflow in E by lia. discriminate.
Qed.

Lemma in_some_nth {A} (l : list (option A)) k : In (Some k) l -> exists i, i < length l /\ nth i l None = Some k.
Proof. intros Hin. apply In_nth with (d := None) in Hin. destruct Hin as (i & ? & ?); eauto. Qed.

Lemma sep_kids_disjoint t i j ki kj x :
  sep t -> i <> j -> nth i (akids t) None = Some ki -> nth j (akids t) None = Some kj ->
  In x (addrs ki) -> ~ In x (addrs kj).
Proof.
  destruct t as [a pk sv mbh gn isb ks]; unfold sep; simpl. intros Hn Hij Ei Ej.
  inversion Hn as [|? ? _ Hn']; subst.
  destruct (nth_some_in _ _ _ Ei) as (_ & Hi). destruct (nth_some_in _ _ _ Ej) as (_ & Hj).
  pose proof (nodup_flat_map_nth (oaddrs_with addrs) ks None i j x Hn' Hij Hi Hj) as Hd.
  rewrite Ei, Ej in Hd. exact Hd.
Qed.

Lemma sep_intro a pk sv mbh gn isb ks :
  (forall k, In (Some k) ks -> sep k /\ ~ In a (addrs k)) ->
  (forall i j ki kj x, i <> j -> nth i ks None = Some ki -> nth j ks None = Some kj ->
                       In x (addrs ki) -> ~ In x (addrs kj)) ->
  sep (AN a pk sv mbh gn isb ks).
Proof.
  intros Hk Hd. unfold sep; simpl. constructor.
  - intros Hin. apply in_flat_map_o in Hin. destruct Hin as (k & Hin & Hx). destruct (Hk k Hin); auto.
  - apply nodup_flat_map_intro with (d := None).
    + intros i Hi. destruct (nth i ks None) as [k|] eqn:E; simpl; [|constructor].
      destruct (nth_some_in _ _ _ E) as (Hin & _). apply Hk; auto.
    + intros i j x Hij Hi Hj. destruct (nth i ks None) as [ki|] eqn:Ei; simpl; [|tauto].
      destruct (nth j ks None) as [kj|] eqn:Ej; simpl; [|tauto]. eapply Hd; eauto.
Qed.

Section Ops.
Variable H : list byte -> list byte.
Variable g : N.
Variable rt : option addr.

Notation is_root := (Model.is_root rt).
Notation frame := (Frame.frame H g rt).
Notation cache_ok := (Cache.cache_ok H).

(* ---------- assembling a node ---------- *)
Lemma assemble h a c pk sv mbh isb ks :
  h a = Some c -> c_dirty c = true -> cell_is c (AN a pk sv mbh g isb ks) ->
  (forall k, In (Some k) ks -> rep h k /\ sep k /\ good g k /\ cache_ok false h k /\ ~ In a (addrs k)) ->
  (forall i j ki kj x, i <> j -> nth i ks None = Some ki -> nth j ks None = Some kj ->
                       In x (addrs ki) -> ~ In x (addrs kj)) ->
  let T := AN a pk sv mbh g isb ks in
  rep h T /\ sep T /\ good g T /\ (forall rs, cache_ok rs h T).
Proof.
  intros Hc Hd Hci Hk Hdis T. unfold T. split; [|split; [|split]].
  - apply rep_unfold. split; [exists c; auto|]. intros k Hin. apply Hk; auto.
  - apply sep_intro; auto. intros k Hin. destruct (Hk k Hin) as (_ & ? & _ & _ & ?); auto.
  - apply good_unfold. simpl. split; [lia|]. split; [congruence|]. intros k Hin. apply Hk; auto.
  - intros rs. eapply cache_ok_dirty_root; eauto. intros k Hin. apply Hk; auto.
Qed.

(* ---------- transporting untouched subtrees ---------- *)
(* u is represented with valid caches in h', provided it was in h *)
Definition carried (h h' : heap) (u : atree) : Prop :=
  rep h u -> rep h' u /\ (forall rs, cache_ok rs h u -> cache_ok rs h' u).

Lemma carried_eq h h' u : (forall x, In x (addrs u) -> h' x = h x) -> carried h h' u.
Proof.
  intros E Hr. split.
  - eapply rep_frame; eauto. intros x Hx. rewrite E; auto. apply samef_o_refl.
  - intros rs Hc. eapply cache_ok_frame; eauto.
Qed.

Lemma carried_trans h1 h2 h3 u : carried h1 h2 u -> carried h2 h3 u -> carried h1 h3 u.
Proof.
  intros C1 C2 Hr. destruct (C1 Hr) as (Hr2 & Hc2). destruct (C2 Hr2) as (Hr3 & Hc3). split; auto.
Qed.

Lemma carried_upd h a c u : ~ In a (addrs u) -> carried h (upd h a c) u.
Proof. intros Hn. apply carried_eq. intros x Hx. apply upd_neq. intros ->; auto. Qed.

(* fills of a computation on t, seen from a tree that does not contain the root of t *)
Lemma carried_fills h h' t rs u :
  fillsP H (sub_of t) (only t rs) h h' -> rep h t -> sep u -> ~ In (aroot t) (addrs u) -> carried h h' u.
Proof.
  intros Hf Hrt Hsu Hn Hru. split; [eapply fillsP_rep; eauto|].
  intros rs' Hc. eapply fillsP_cache_ok; eauto.
  - intros s [Hs|[_ ->]]; auto. exact (rep_subt _ _ _ Hrt Hs).
  - intros r [_ ->] Hin. tauto.
Qed.

(* ---------- prepForMutation ---------- *)
Definition prepared (c : cell) (copy_sv : bool) : cell :=
  mkCell (c_pk c) (if copy_sv then c_sv c else None) (c_mbh c) g (c_isb c) (c_kids c) true None.

Lemma prep_spec m t c copy_sv :
  hwf m -> hp m (aroot t) = Some c ->
  (c_gen c = g -> In (aroot t) (own g t)) ->
  (c_gen c <> g -> rep (hp m) t /\ sep t /\ cache_ok (is_root (aroot t)) (hp m) t) ->
  forall n0 m1 a1, (n0 <= nx m)%N -> prep H g rt m (aroot t) copy_sv = (m1, a1) ->
  hwf m1 /\ (nx m <= nx m1)%N
  /\ (exists c1, hp m1 a1 = Some c1 /\ c_dirty c1 = true /\ c_gen c1 = g /\ c_mv c1 = None
                 /\ c_pk c1 = c_pk c /\ c_mbh c1 = c_mbh c /\ c_isb c1 = c_isb c /\ c_kids c1 = c_kids c
                 /\ c_sv c1 = (if N.eqb (c_gen c) g then c_sv c else if copy_sv then c_sv c else None))
  /\ ((c_gen c = g /\ a1 = aroot t /\ nx m1 = nx m) \/ (c_gen c <> g /\ a1 = nx m /\ nx m1 = N.succ (nx m)))
  /\ frame n0 t (hp m) (hp m1)
  /\ (forall u, sep u -> ~ In (aroot t) (addrs u) -> (forall x, In x (addrs u) -> (x < nx m)%N) ->
                carried (hp m) (hp m1) u).
Proof.
  intros Hw Hca Hown Hcopy n0 m1 a1 Hn0. unfold prep. rewrite Hca.
  destruct (N.eqb_spec (c_gen c) g) as [Eg|Eg].
  - intros E. inversion E; subst m1 a1; clear E. simpl. split; [|split; [lia|]].
    { intros x Hx. simpl. rewrite upd_neq; auto. intros ->.
      rewrite Hw in Hca by auto. discriminate. }
    split. { exists (set_dirty_c c). rewrite upd_eq. simpl. repeat split; auto. }
    split; [left; auto|]. split.
    + eapply frame_own; eauto.
    + intros u _ Hn _. apply carried_upd; auto.
  - destruct (Hcopy Eg) as (Hr & Hs & Hc).
    destruct (mvcalc_spec H (cfuel m) true (is_root (aroot t)) (hp m) t) as (h1 & E1 & F1 & _); auto.
    { apply depth_fuel; auto. }
    unfold reg, alloc. rewrite E1. cbn [fst hp nx]. intros E. inversion E; subst m1 a1; clear E. simpl.
    assert (Hn1 : h1 (nx m) = None).
    { specialize (F1 (nx m)). rewrite Hw in F1 by lia. auto. }
    split. { intros x Hx. simpl in *. rewrite upd_neq by lia. specialize (F1 x). rewrite Hw in F1 by lia. auto. }
    split; [lia|].
    split. { eexists. rewrite upd_eq. split; [reflexivity|]. simpl. repeat split; auto. }
    split; [right; auto|]. split.
    + eapply frame_trans with (n1 := n0); [lia | |].
      * eapply frame_fills; eauto.
      * apply frame_fresh; [lia|]. intros c0 Hc0. congruence.
    + intros u Hsu Hn Hb. eapply carried_trans.
      * eapply carried_fills; eauto.
      * apply carried_upd. intros Hin. specialize (Hb _ Hin). lia.
Qed.

End Ops.
