(* C03/SpecRootGo.v — snapshots and the specification root, GUARD-FREE for the prefix clears
   (closer of the gap "C03_snapshot_root_is_spec_root excludes prefix-trim and clear-limit-zero inputs").
   [gxrun hist] replays a fork history on the ordered byte-string map alone, like SpecRoot.mxrun, but
   ClearPrefix / ClearPrefixLimit are the operations of Trie/GoSpec.v under the matching rule the Go
   code really uses (go_clear_prefix / go_clear_prefix_limit: the byte prefix minus ONE trailing
   zero nibble; limit 0 leaves the map alone).  Put / Delete / SetVersion / Snapshot are as in mxrun.
   [xguards_go hist]: the guards C02_refines_go keeps (C02/Guards.v guard_go_of), evaluated on the
   map of the handle at the time of the step — and nothing else:
     Delete k              guard_delete_exhausted (canonical trie of the map) k = false
     ClearPrefixLimit p l  guard_limit_order_go m p l = false
   (guard_get_exhausted concerns Get, which is not a step of a fork history.)  No guard_trim, no
   guard_limit_zero, no guard on ClearPrefix at all.
   Theorem: under frozen_parents, uint32 limits and xguards_go, for every handle j with map m,
   Entries() is exactly m (so m is strictly sorted), and Hash() = spec_root H ver (kv_of_bmap m)
   whenever the handle's version never changed on a non-empty trie.
   Also: xguards (SpecRoot.v) implies xguards_go and gxrun = mxrun there, so this theorem contains
   C03_snapshot_root_is_spec_root. *)
From Common Require Import Bytes Blake2b.
From Trie Require Import Nibbles Encode Node.
From Trie Require Model Spec GoSpec InsertProofs BuildProofs MapProofs QueryProofs ClearProofs LimitProofs
     SpecProofs GoPrefixProofs.
From C03 Require Import Model Tree Inv Proofs Main MainX ViewPure PureAll PureAllX PureAllC SpecRoot.
From Coq Require Import Arith Lia Bool.
Local Open Scope nat_scope.

Import Trie.Spec Trie.GoSpec.

(* ---------- the map side under the Go matching rule ---------- *)
Definition gexec (ms : list mstate) (s : step) : list mstate :=
  match s with
  | Clear i p =>
    match nth_error ms i with
    | Some (m, pv, pu) => set_nth i (go_clear_prefix m p, pv, pu) ms
    | None => ms
    end
  | _ => mexec ms s
  end.

Definition gxexec (ms : list mstate) (s : xstep) : list mstate :=
  match s with
  | Core c => gexec ms c
  | ClearLimit i p limit =>
    match nth_error ms i with
    | Some (m, pv, pu) => set_nth i (fst (fst (go_clear_prefix_limit m p limit)), pv, pu) ms
    | None => ms
    end
  end.
Definition gxrun (hist : list xstep) : list mstate := fold_left gxexec hist [([], false, true)].

(* the guards that remain under the Go matching rule (those of C02_refines_go) *)
Definition step_guard_go (ms : list mstate) (s : xstep) : bool :=
  match s with
  | Core (Del i k) =>
    match nth_error ms i with
    | Some (m, _, _) => negb (Trie.Model.guard_delete_exhausted (build_trie (kv_of_bmap m)) k)
    | None => true
    end
  | ClearLimit i p limit =>
    match nth_error ms i with
    | Some (m, _, _) => negb (guard_limit_order_go m p limit)
    | None => true
    end
  | _ => true
  end.
Fixpoint guards_go_from (ms : list mstate) (hist : list xstep) : bool :=
  match hist with
  | [] => true
  | s :: r => step_guard_go ms s && guards_go_from (gxexec ms s) r
  end.
Definition xguards_go (hist : list xstep) : bool := guards_go_from [([], false, true)] hist.

(* a sufficient condition that does not mention the canonical trie: no Delete of the empty key *)
Definition step_guard_go_simple (ms : list mstate) (s : xstep) : bool :=
  match s with
  | Core (Del i k) => match k with [] => false | _ :: _ => true end
  | _ => step_guard_go ms s
  end.
Fixpoint guards_go_simple_from (ms : list mstate) (hist : list xstep) : bool :=
  match hist with
  | [] => true
  | s :: r => step_guard_go_simple ms s && guards_go_simple_from (gxexec ms s) r
  end.
Definition xguards_go_simple (hist : list xstep) : bool := guards_go_simple_from [([], false, true)] hist.

Lemma guards_go_simple_sound : forall hist ms,
  guards_go_simple_from ms hist = true -> guards_go_from ms hist = true.
Proof.
  induction hist as [|s r IH]; intros ms E; simpl in *; auto.
  apply andb_prop in E. destruct E as (E1 & E2). rewrite (IH _ E2), andb_true_r.
  destruct s as [[i|i k v|i k|i p|i v|i|i]|i p limit]; simpl in *; auto.
  destruct k; [discriminate|]. destruct (nth_error ms i) as [[[m pv] pu]|]; auto.
Qed.

Lemma xguards_go_simple_sound hist : xguards_go_simple hist = true -> xguards_go hist = true.
Proof. apply guards_go_simple_sound. Qed.

(* ---------- pure tries represent the Go-rule maps along every such history ---------- *)
Lemma RInv_gxexec ps ms s : RInv ps ms -> step_guard_go ms s = true -> RInv (pxexec ps s) (gxexec ms s).
Proof.
  intros RI G. unfold RInv in *.
  assert (Hcase : forall i, (nth_error ps i = None /\ nth_error ms i = None)
                   \/ exists t m pv pu, nth_error ps i = Some (t, pv, pu) /\ nth_error ms i = Some (m, pv, pu)
                                       /\ Trie.MapProofs.Rep t m).
  { intros i. destruct (nth_error ps i) as [[[t pv] pu]|] eqn:E.
    - right. destruct (F2_nth _ _ _ RI i _ E) as ([[m pv'] pu'] & E' & Rp & Ev & Eu). simpl in *. subst.
      exists t, m, pv', pu'. auto.
    - left. split; auto. eapply F2_none; eauto. }
  destruct s as [[i|i k v|i k|i p|i v|i|i]|i p limit]; cbn [pxexec pexec gxexec gexec mexec]; auto;
    destruct (Hcase i) as [(E1 & E2)|(t & m & pv & pu & E1 & E2 & Rp)]; rewrite E1, E2; auto.
  - apply Forall2_app; auto. constructor; [|constructor]. split; [exact Rp | split; reflexivity].
  - apply F2_set; auto. split; [|split; reflexivity]. simpl. apply Trie.MapProofs.Rep_put; auto.
  - apply F2_set; auto. split; [|split; reflexivity]. simpl. apply Trie.MapProofs.Rep_delete; auto.
    cbn [step_guard_go] in G. rewrite E2 in G. rewrite (rep_build _ _ Rp) in G.
    apply negb_true_iff in G. exact G.
  - apply F2_set; auto. split; [|split; reflexivity]. simpl.
    apply Trie.GoPrefixProofs.Rep_clear_prefix_go; auto.
  - destruct (pv && negb v); auto. apply F2_set; auto. split; [exact Rp|]. split; [reflexivity|]. simpl.
    destruct (rep_empty_iff _ _ Rp) as (A1 & A2).
    destruct t as [n|], m as [|e m']; auto.
    + discriminate (A2 eq_refl).
    + discriminate (A1 eq_refl).
  - apply F2_set; auto. split; [|split; reflexivity]. simpl.
    cbn [step_guard_go] in G. rewrite E2 in G. apply negb_true_iff in G.
    destruct (N.eqb_spec limit 0) as [->|Z].
    + unfold Trie.Model.trie_clear_prefix_limit, Trie.Model.trie_clear_prefix_limit_pinned, go_clear_prefix_limit.
      cbn [N.eqb fst snd]. exact Rp.
    + exact (proj1 (Trie.GoPrefixProofs.Rep_clear_prefix_limit_go t m p limit Rp Z G)).
Qed.

Lemma RInv_gfold : forall hist ps ms, RInv ps ms -> guards_go_from ms hist = true ->
  RInv (fold_left pxexec hist ps) (fold_left gxexec hist ms).
Proof.
  induction hist as [|s r IH]; intros ps ms RI G; simpl in *; auto.
  apply andb_prop in G. destruct G as (G1 & G2). apply IH; auto. apply RInv_gxexec; auto.
Qed.

Lemma RInv_grun hist : xguards_go hist = true -> RInv (pxrun hist) (gxrun hist).
Proof. intros G. apply RInv_gfold; auto. apply RInv_init. Qed.

(* ---------- the theorem ---------- *)
Theorem snapshot_root_is_spec_root_go :
  forall (H : list byte -> list byte) (hist : list xstep),
  xfrozen_parents hist = true -> limits_u32 hist = true -> xguards_go hist = true ->
  forall j m pv pu, nth_error (gxrun hist) j = Some (m, pv, pu) ->
  bm_sorted m = true
  /\ exists h, Model.view H true (Model.xrun H true true hist init_state) j = Some (h, m)
               /\ (pu = true -> h = spec_root H (ver_of pv) (kv_of_bmap m)).
Proof.
  intros H hist Hfz Hu Hg j m pv pu Mj.
  destruct (F2_nth_r _ _ _ (RInv_grun hist Hg) j _ Mj) as ([[t pv'] pu'] & Pj & Rp & Ev & Eu).
  simpl in Rp, Ev, Eu. subst pv' pu'.
  split; [exact (Trie.SpecProofs.Rep_sorted_bmap t m Rp)|].
  destruct (pure_agrees_canon H hist Hfz Hu j t pv pu Pj) as (_ & h & Vw & Hh).
  exists h. rewrite (default_entries_rep t m Rp) in Vw. split; [exact Vw|].
  intros Epu. rewrite (Hh Epu). exact (Trie.MapProofs.Rep_root H (ver_of pv) t m Rp).
Qed.

Corollary snapshot_root_is_spec_root_go_simple :
  forall (H : list byte -> list byte) (hist : list xstep),
  xfrozen_parents hist = true -> limits_u32 hist = true -> xguards_go_simple hist = true ->
  forall j m pv pu, nth_error (gxrun hist) j = Some (m, pv, pu) ->
  bm_sorted m = true
  /\ exists h, Model.view H true (Model.xrun H true true hist init_state) j = Some (h, m)
               /\ (pu = true -> h = spec_root H (ver_of pv) (kv_of_bmap m)).
Proof.
  intros H hist Hfz Hu Hg. apply snapshot_root_is_spec_root_go; auto. apply xguards_go_simple_sound; auto.
Qed.

(* ---------- the guarded theorem is contained: under xguards the two replays coincide ---------- *)
Lemma remove_first_ext_in {A} (f g : A -> bool) l : forall n,
  (forall x, In x l -> f x = g x) -> Trie.LimitProofs.remove_first n f l = Trie.LimitProofs.remove_first n g l.
Proof.
  induction l as [|x l IH]; intros n Hx; simpl; auto.
  rewrite (Hx x (or_introl eq_refl)).
  destruct (g x); [destruct n; auto|f_equal]; apply IH; intros; apply Hx; simpl; auto.
Qed.

Lemma step_guard_go_of_guard ms s : step_guard ms s = true ->
  step_guard_go ms s = true /\ gxexec ms s = mxexec ms s.
Proof.
  intros G.
  destruct s as [[i|i k v|i k|i p|i v|i|i]|i p limit]; cbn [step_guard step_guard_go gxexec gexec mxexec mexec] in *;
    auto; destruct (nth_error ms i) as [[[m pv] pu]|]; auto.
  - apply negb_true_iff in G. split; auto. now rewrite (Trie.GoPrefixProofs.go_clear_agree m p G).
  - apply andb_prop in G. destruct G as (G12 & G3). apply andb_prop in G12. destruct G12 as (G1 & G2).
    apply negb_true_iff in G1, G2, G3.
    assert (Ag : forall e, In e m -> gmatch p e = Trie.LimitProofs.bmatch p e).
    { intros e He. exact (Trie.QueryProofs.guard_trim_false m p G1 e He). }
    split.
    + apply negb_true_iff. rewrite <- G3. unfold guard_limit_order_go, Trie.Model.guard_limit_order.
      rewrite (Trie.GoPrefixProofs.filter_ext_in_iff (gmatch p) (Trie.LimitProofs.bmatch p) m Ag). reflexivity.
    + do 3 f_equal. unfold go_clear_prefix_limit.
      rewrite Trie.LimitProofs.bm_clear_prefix_limit_spec. cbn [fst].
      destruct (N.eqb_spec limit 0) as [->|Z].
      * cbn [fst N.to_nat]. now rewrite Trie.LimitProofs.remove_first_zero_nomatch.
      * rewrite Trie.GoPrefixProofs.clear_limit_by_spec. cbn [fst]. apply remove_first_ext_in. exact Ag.
Qed.

Lemma guards_go_of_guards : forall hist ms, guards_from ms hist = true ->
  guards_go_from ms hist = true /\ fold_left gxexec hist ms = fold_left mxexec hist ms.
Proof.
  induction hist as [|s r IH]; intros ms G; simpl in *; auto.
  apply andb_prop in G. destruct G as (G1 & G2).
  destruct (step_guard_go_of_guard ms s G1) as (A & B). rewrite A, B. simpl. apply IH; exact G2.
Qed.

Theorem xguards_go_of_xguards hist : xguards hist = true -> xguards_go hist = true /\ gxrun hist = mxrun hist.
Proof. apply guards_go_of_guards. Qed.

(* ---------- non-vacuity: a history INSIDE guard_trim and guard_limit_zero ---------- *)
(* Handle 0 (V1) holds 0x12 (40-byte, hashed value), 0x1201, 0x1234, 0x20; committed, snapshotted.
   Snapshot 1 runs ClearPrefix 0x10: the nibbles 1,0 are trimmed to the ODD-length nibble prefix 1,
   so the Go code removes 0x12, 0x1201 and 0x1234 — none of which has the byte prefix 0x10
   (guard_trim = true; the byte-wise bm_clear_prefix removes nothing).
   Snapshot 2 (of handle 0) runs ClearPrefixLimit 0x1200 with limit 2: trimmed to nibbles 1,2,0, the Go
   code also matches and removes 0x1201 — byte-wise nothing matches; and then ClearPrefixLimit 0x30 with
   limit 0 (no key has the prefix: guard_limit_zero = true). *)
Definition go_hist : list xstep :=
  [Core (SetVer 0 true); Core (Put 0 k12 v40); Core (Put 0 k1234 v3); Core (Put 0 [n2b 18; n2b 1] v3);
   Core (Put 0 [n2b 32] v3); Core (Commit 0); Core (Snap 0);
   Core (Clear 1 [n2b 16]); Core (Snap 0);
   ClearLimit 2 [n2b 18; n2b 0] 2%N; ClearLimit 2 [n2b 48] 0%N; Core (HashOp 2)].
Definition go_m0 : bmap := [(k12, v40); ([n2b 18; n2b 1], v3); (k1234, v3); ([n2b 32], v3)].
Definition go_m1 : bmap := [([n2b 32], v3)].
Definition go_m2 : bmap := [(k12, v40); (k1234, v3); ([n2b 32], v3)].

Lemma go_hist_nonvacuous :
  xfrozen_parents go_hist = true /\ limits_u32 go_hist = true /\ xguards_go go_hist = true
  /\ xguards_go_simple go_hist = true
  /\ xguards go_hist = false
  /\ Trie.Model.guard_trim go_m0 [n2b 16] = true
  /\ Trie.Model.guard_trim go_m0 [n2b 18; n2b 0] = true
  /\ Trie.Model.guard_limit_zero go_m2 [n2b 48] 0%N = true
  /\ gxrun go_hist = [(go_m0, true, true); (go_m1, true, true); (go_m2, true, true)]
  /\ mxrun go_hist = [(go_m0, true, true); (go_m0, true, true); (go_m0, true, true)]
  /\ (let st := Model.xrun blake2b_256 true true go_hist init_state in
      Model.view blake2b_256 true st 0 = Some (spec_root blake2b_256 V1 (kv_of_bmap go_m0), go_m0)
      /\ Model.view blake2b_256 true st 1 = Some (spec_root blake2b_256 V1 (kv_of_bmap go_m1), go_m1)
      /\ Model.view blake2b_256 true st 2 = Some (spec_root blake2b_256 V1 (kv_of_bmap go_m2), go_m2))
  /\ spec_root blake2b_256 V1 (kv_of_bmap go_m1) <> spec_root blake2b_256 V1 (kv_of_bmap go_m0)
  /\ spec_root blake2b_256 V1 (kv_of_bmap go_m2) <> spec_root blake2b_256 V1 (kv_of_bmap go_m0).
Proof. vm_compute. repeat split; try reflexivity; intro E; discriminate E. Qed.
