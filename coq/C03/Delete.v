(* C03/Delete.v — the contracts of handleDeletion, deleteAtNode/deleteLeaf/deleteBranch and
   clearPrefixAtNode. *)
From Common Require Import Bytes.
From Trie Require Import Nibbles Encode.
From C03 Require Import Model Tree Cache Frame Ops Spec Insert.
From Coq Require Import Arith Lia.
Local Open Scope nat_scope.

Lemma first_kid_spec (ks : list (option atree)) i0 i ch :
  first_kid (map oroot ks) i0 = Some (i, ch) -> exists kc, In (Some kc) ks /\ aroot kc = ch.
Proof.
  revert i0. induction ks as [|[k|] ks IH]; simpl; intros i0 E; try discriminate.
  - inversion E; subst. eauto.
  - destruct (IH _ E) as (kc & ? & ?). eauto.
Qed.

Section Delete.
Variable H : list byte -> list byte.
Variable g : N.
Variable rt : option addr.
Variable fd : bool.

Notation is_root := (Model.is_root rt).
Notation frame := (Frame.frame H g rt).
Notation cache_ok := (Cache.cache_ok H).
Notation pre := (Spec.pre H g rt).
Notation post := (Spec.post H g rt).
Notation kid_ok := (Spec.kid_ok H g).
Notation carried := (Ops.carried H).

(* the subtree is removed; only cache fills happened *)
Definition gone (m : mem) (t : atree) (m' : mem) : Prop :=
  hwf m' /\ (nx m <= nx m')%N /\ frame (nx m) t (hp m) (hp m').

Definition result_o (m : mem) (t : atree) (m' : mem) (p' : option addr) (flag : bool) : Prop :=
  (flag = false /\ m' = m /\ p' = Some (aroot t))
  \/ (flag = true /\ ((p' = None /\ gone m t m') \/ (exists t', p' = Some (aroot t') /\ post m t m' t'))).

(* registerDeletedNodeHash on a represented tree s made of cells of t and newer cells *)
Lemma reg_spec n0 m t s :
  hwf m -> rep (hp m) s -> sep s -> cache_ok (is_root (aroot s)) (hp m) s ->
  (forall x, In x (addrs s) -> In x (addrs t) \/ (n0 <= x)%N) ->
  let m1 := reg H rt m (aroot s) in
  hwf m1 /\ nx m1 = nx m /\ frame n0 t (hp m) (hp m1)
  /\ fillsP H (sub_of s) (only s (is_root (aroot s))) (hp m) (hp m1).
Proof.
  intros Hw Hr Hs Hc Hin m1. unfold m1, reg.
  destruct (mvcalc_spec H (cfuel m) true (is_root (aroot s)) (hp m) s) as (h1 & E1 & F1 & _); auto.
  { apply depth_fuel; auto. }
  rewrite E1. simpl. split; [|split; [reflexivity|split]]; auto.
  - intros x Hx. simpl in *. specialize (F1 x). rewrite Hw in F1 by auto. auto.
  - eapply frame_fills; eauto.
Qed.

Lemma post_gone m t m' t' : post m t m' t' -> gone m t m'.
Proof. intros (_ & _ & _ & _ & ? & ? & ? & _). split; [|split]; auto. Qed.

(* ---------- handleDeletion ---------- *)
Lemma handle_deletion_spec m t m3 a3 pk3 sv3 mbh3 isb3 ks3 k m4 b :
  let T := AN a3 pk3 sv3 mbh3 g isb3 ks3 in
  pre m t -> post m t m3 T ->
  handle_deletion H rt m3 a3 k = (m4, b) ->
  exists T', aroot T' = b /\ post m t m4 T'.
Proof.
  intros T Hp Hq. pose proof Hq as (R1 & R2 & R3 & R4 & Hw3 & Hle3 & F3 & P8 & P9 & P10).
  destruct (rep_cell _ _ R1) as (c3 & Hc3 & Hci3). simpl in Hc3.
  pose proof Hci3 as Hci3'. unfold T, cell_is in Hci3'. destruct Hci3' as (Epk & Esv & Embh & Egn & Eisb & Eks).
  unfold handle_deletion. rewrite Hc3.
  assert (Hsame : forall m4' b', (m3, a3) = (m4', b') -> exists T', aroot T' = b' /\ post m t m4' T').
  { intros m4' b' E. inversion E; subst. exists T. split; auto. }
  destruct (count_kids (c_kids c3)) as [|[|n]] eqn:Ecnt.
  - (* no child *)
    destruct (c_sv c3) as [v|] eqn:Esv3; [|apply Hsame].
    rewrite alloc_eq. intros E. injection E as Em Eb. subst m4 b.
    rewrite Egn. exists (AN (nx m3) (firstn (cpl (c_pk c3) k) k) (Some v) (c_mbh c3) g false []). split; [reflexivity|].
    apply (fresh_node_post H g rt m t m3 _ (firstn (cpl (c_pk c3) k) k) (Some v) (c_mbh c3) false []);
      [exact Hp | exact Hw3 | exact Hle3 | exact F3 | reflexivity | | | ].
    + intros a'. unfold cell_is; simpl. repeat split; auto.
    + intros k0 [].
    + intros i j ki kj x _ E. destruct i; discriminate.
  - (* one child *)
    destruct (c_sv c3) eqn:Esv3; [apply Hsame|].
    destruct (first_kid (c_kids c3) 0) as [[i ch]|] eqn:Efk; [|apply Hsame].
    rewrite Eks in Efk. destruct (first_kid_spec _ _ _ _ Efk) as (kc & Hkin & Ech). subst ch.
    assert (Hrk : rep (hp m3) kc) by (eapply rep_kid; eauto).
    assert (Hsk : sep kc) by (eapply sep_kid; eauto).
    assert (Hck : cache_ok false (hp m3) kc) by (apply (cache_ok_kid H false (hp m3) T kc (R4 false) Hkin)).
    assert (Hplace : placed g m t (nx m3) T) by (eapply post_placed; eauto).
    assert (Hkc_in : forall x, In x (addrs kc) -> In x (addrs T)).
    { intros x Hx. apply (kid_in_addrs T kc x Hkin Hx). }
    destruct (reg_spec (nx m) m3 t kc Hw3 Hrk Hsk (cache_ok_weaken H _ _ Hck _)) as (Hw3' & Enx & F3' & Fills).
    { intros x Hx. apply P8. auto. }
    set (m3' := reg H rt m3 (aroot kc)) in *.
    assert (Hrk' : rep (hp m3') kc) by (eapply fillsP_rep; eauto).
    destruct (rep_cell _ _ Hrk') as (cc & Hcc & Hcic). rewrite Hcc.
    rewrite alloc_eq. intros E. injection E as Em Eb. subst m4 b.
    destruct kc as [ac pkc svc mbhc gnc isbc ksc]. simpl in Hcc.
    pose proof Hcic as Hcic'. unfold cell_is in Hcic'. destruct Hcic' as (Epkc & Esvc & Embhc & Egnc & Eisbc & Eksc).
    rewrite Egn. exists (AN (nx m3') (c_pk c3 ++ [i] ++ c_pk cc) (c_sv cc) (c_mbh cc) g (c_isb cc) ksc). split; [reflexivity|].
    apply (fresh_node_post H g rt m t m3' _ (c_pk c3 ++ [i] ++ c_pk cc) (c_sv cc) (c_mbh cc) (c_isb cc) ksc);
      [exact Hp | exact Hw3' | rewrite Enx; exact Hle3 | | reflexivity | | | ].
    + eapply frame_trans with (n1 := nx m); [lia | exact F3 | exact F3'].
    + intros a'. unfold cell_is; simpl. repeat split; auto.
    + intros gk Hgk.
      assert (Hrgk : rep (hp m3) gk) by (eapply rep_kid; eauto).
      assert (Hsgk : sep gk) by (eapply (sep_kid _ gk Hsk); eauto).
      assert (Hna : ~ In ac (addrs gk)) by (apply (sep_root_not_in_kid _ gk Hsk Hgk)).
      destruct (carried_fills H (hp m3) (hp m3') _ _ gk Fills Hrk Hsgk Hna Hrgk) as (C1 & C2).
      split; [exact C1|]. split; [exact Hsgk|].
      split. { apply (good_kid g (AN ac pkc svc mbhc gnc isbc ksc) gk); auto. apply (good_kid g T); auto. }
      split. { apply C2. apply (cache_ok_kid H false (hp m3) (AN ac pkc svc mbhc gnc isbc ksc) gk); auto. }
      rewrite Enx. intros x Hx. apply Hplace. apply Hkc_in. apply (kid_in_addrs (AN ac pkc svc mbhc gnc isbc ksc) gk x Hgk Hx).
    + apply (sep_disjoint_kids (AN ac pkc svc mbhc gnc isbc ksc) Hsk).
  - apply Hsame.
Qed.

(* ---------- rebuilding a branch after an operation on one child ---------- *)
Definition kid_result (m : mem) (kt : atree) (m1 : mem) (onk : option atree) : Prop :=
  match onk with
  | None => gone m kt m1
  | Some tk => post m kt m1 tk
  end.

Lemma kid_result_gone m kt m1 onk : kid_result m kt m1 onk -> gone m kt m1.
Proof. destruct onk; simpl; auto. apply post_gone. Qed.

Section Rebuild.
Variables (m : mem) (a : addr) (pk : key) (sv : option value) (mbh : bool) (gn : N) (isb : bool)
          (ks : list (option atree)).
Let t := AN a pk sv mbh gn isb ks.
Variables (idx : nat) (kt : atree) (m1 : mem) (onk : option atree) (c : cell).
Hypothesis Hp : pre m t.
Hypothesis Ekt : nth idx ks None = Some kt.
Hypothesis Hres : kid_result m kt m1 onk.
Hypothesis Hca : hp m a = Some c.
Hypothesis Hci : cell_is c t.

Lemma rebuild_facts :
  hwf m1 /\ (nx m <= nx m1)%N /\ frame (nx m) t (hp m) (hp m1) /\ hp m1 a = Some c
  /\ (agen t <> g -> rep (hp m1) t /\ cache_ok (is_root (aroot t)) (hp m1) t)
  /\ (forall j kj, j <> idx -> nth j ks None = Some kj -> kid_ok m t m1 kj)
  /\ (forall tk, onk = Some tk -> kid_ok m t m1 tk)
  /\ disjoint_kids (set_nth idx onk ks).
Proof.
  pose proof Hp as (Hw & Hr & Hs & Hg & Hc & Hrt).
  destruct (nth_some_in _ _ _ Ekt) as (Hkin & _).
  destruct (kid_result_gone _ _ _ _ Hres) as (Hw1 & Hle1 & F1).
  assert (Hb : forall x, In x (addrs t) -> (x < nx m)%N) by (intros; eapply rep_bounded; eauto).
  assert (Hna : ~ In a (addrs kt)) by (apply (sep_root_not_in_kid t kt Hs Hkin)).
  split; [exact Hw1|]. split; [exact Hle1|]. split; [eapply (frame_lift_kid H g rt _ t kt); eauto|].
  split. { rewrite (fr_out _ _ _ _ _ _ _ F1); auto. apply Hb. apply (aroot_in_addrs t). }
  split. { intros Hng. assert (Hold : oldt g kt).
           { apply good_unfold in Hg. destruct Hg as (_ & Ho & _). apply Ho; auto. }
           split.
           - eapply frame_rep; eauto. intros x Hx. rewrite Hold in Hx. destruct Hx.
           - apply (fr_cache _ _ _ _ _ _ _ F1); auto.
             + intros x Hx. rewrite Hold in Hx. destruct Hx.
             + intros r Er Hin. specialize (Hrt r Er Hin). simpl in Hrt. subst r. split; auto.
               unfold Model.is_root. rewrite Er. apply N.eqb_refl. }
  split. { intros j kj Hj E. destruct (nth_some_in _ _ _ E) as (Hin0 & _). apply (old_kid_ok H g rt); auto.
           intros x Hx. apply (fr_out _ _ _ _ _ _ _ F1).
           - apply Hb. apply (kid_in_addrs t kj x Hin0 Hx).
           - intros Hx'. eapply (sep_kids_disjoint t j idx kj kt x); eauto. }
  split. { intros tk ->. simpl in Hres. apply (new_kid_ok H g true rt m t kt m1 tk Hp Hkin Hres). }
  destruct onk as [tk|].
  - simpl in Hres. pose proof Hres as (_ & _ & _ & _ & _ & _ & _ & P8 & _).
    apply disjoint_set_nth; [apply (sep_disjoint_kids t Hs)|].
    intros j kj x Hj E Hx Hx'. destruct (nth_some_in _ _ _ E) as (Hin0 & _).
    destruct (P8 _ Hx) as [Hx0|Hx0].
    + eapply (sep_kids_disjoint t idx j kt kj x); eauto.
    + assert ((x < nx m)%N) by (apply Hb; apply (kid_in_addrs t kj x Hin0 Hx')). lia.
  - apply disjoint_set_nth_none. apply (sep_disjoint_kids t Hs).
Qed.

Lemma rebuild_branch m2 a2 :
  prep H g rt m1 a true = (m2, a2) ->
  post m t (wr m2 a2 (fun c' => set_kids_c (set_nth idx (oroot onk) (c_kids c')) c'))
       (AN a2 pk sv mbh g isb (set_nth idx onk ks)).
Proof.
  intros Ep. destruct rebuild_facts as (Hw1 & Hle1 & F1 & Hca1 & Hcopy & Hold & Hnew & Hdis).
  pose proof Hci as Hci'. unfold t, cell_is in Hci'. destruct Hci' as (Epk & Esv & Embh & Egn & Eisb & Eks).
  eapply (finish H g rt m t m1 c true m2 a2); eauto.
  - intros c1 a0 Hd Hg1 Hpk1 Hmbh1 Hisb1 Hk1 Hsv1. unfold cell_is. simpl.
    assert (c_sv c1 = c_sv c) by (rewrite Hsv1; destruct (N.eqb (c_gen c) g); auto).
    rewrite map_set_nth. repeat split; auto; congruence.
  - intros k0 Hin. apply in_set_nth_some in Hin. destruct Hin as [E|(j & Hj & E)]; eauto.
Qed.

End Rebuild.

Lemma delete_none f m k : delete H g rt fd f m None k = (m, None, false).
Proof. destruct f; reflexivity. Qed.

(* registerDeletedNodeHash on the whole subtree, which is then dropped *)
Lemma drop_spec m t : pre m t -> gone m t (reg H rt m (aroot t)).
Proof.
  intros (Hw & Hr & Hs & Hg & Hc & Hrt).
  destruct (reg_spec (nx m) m t t Hw Hr Hs Hc) as (Hw1 & Enx & F & _); auto.
  split; [exact Hw1|]. split; [rewrite Enx; lia | exact F].
Qed.

Lemma delete_spec : forall fuel m t k m' p' flag,
  pre m t -> delete H g rt fd fuel m (Some (aroot t)) k = (m', p', flag) -> result_o m t m' p' flag.
Proof.
  induction fuel as [|f IH]; intros m t k m' p' flag Hp.
  { simpl. intros E. injection E as <- <- <-. left; auto. }
  destruct t as [a pk sv mbh gn isb ks]. set (t := AN a pk sv mbh gn isb ks) in *.
  pose proof Hp as (Hw & Hr & Hs & Hg & Hc & Hrt).
  destruct (rep_cell _ _ Hr) as (c & Hca & Hci). simpl in Hca.
  pose proof Hci as Hci'. unfold t, cell_is in Hci'. destruct Hci' as (Epk & Esv & Embh & Egn & Eisb & Eks).
  assert (Hsame : forall m0 p0 f0, (m, Some a, false) = (m0, p0, f0) -> result_o m t m0 p0 f0).
  { intros m0 p0 f0 E. injection E as <- <- <-. left; auto. }
  change (aroot t) with a. cbn [delete]. rewrite Hca.
  destruct (negb (c_isb c)).
  { (* deleteLeaf *)
    destruct ((0 <? length k) && negb (key_eqb k (c_pk c))); [apply Hsame|].
    intros E. injection E as <- <- <-. right. split; auto. left. split; auto. apply (drop_spec m t Hp). }
  destruct ((length k =? 0) || key_eqb (c_pk c) k).
  { (* the value of this branch is deleted *)
    destruct (prep H g rt m a false) as [m1 a1] eqn:Ep.
    destruct (handle_deletion H rt (wr m1 a1 (set_sv_c None)) a1 k) as [m3 b] eqn:Ehd.
    intros E. injection E as <- <- <-. right. split; auto. right.
    assert (Hq : post m t (wr m1 a1 (set_sv_c None)) (AN a1 pk None mbh g isb ks)).
    { apply (finish H g rt m t m c false m1 a1 (set_sv_c None) pk None mbh isb ks Hp Hw (N.le_refl _)
                    (frame_refl H g rt _ _ _) Hca Hci (pre_copy H g rt m t Hp) Ep).
      - intros c1 a0 Hd Hg1 Hpk1 Hmbh1 Hisb1 Hk1 Hsv1. unfold cell_is. simpl. repeat split; auto; congruence.
      - exact (pre_old_kids H g rt m t Hp).
      - apply (sep_disjoint_kids t Hs). }
    destruct (handle_deletion_spec m t _ a1 pk None mbh isb ks k m3 b Hp Hq Ehd) as (T' & <- & HT').
    exists T'. split; auto. }
  set (n := cpl (c_pk c) k).
  destruct (n <? length (c_pk c)); [apply Hsame|].
  set (idx := nth n k 0). set (ck := skipn (S n) k).
  destruct (fd && (length ck =? 0) && kid_pk_nonempty (hp m) (nth idx (c_kids c) None)); [apply Hsame|].
  rewrite Eks, nth_map_oroot.
  destruct (nth idx ks None) as [kt|] eqn:Ekt; simpl oroot.
  2:{ rewrite delete_none. simpl. apply Hsame. }
  destruct (nth_some_in _ _ _ Ekt) as (Hkin & _).
  assert (Hpk : pre m kt) by (apply (pre_kid H g rt m t kt Hp Hkin)).
  destruct (delete H g rt fd f m (Some (aroot kt)) ck) as [[m1 ch'] deleted] eqn:Erec.
  destruct (IH m kt ck m1 ch' deleted Hpk Erec) as [(-> & -> & ->)|(-> & Hch)].
  { simpl. apply Hsame. }
  simpl negb. cbv iota.
  destruct (prep H g rt m1 a true) as [m2 a2] eqn:Ep.
  assert (Hres : exists onk, ch' = oroot onk /\ kid_result m kt m1 onk).
  { destruct Hch as [(-> & Hg0)|(tk & -> & Hq)]; [exists None | exists (Some tk)]; split; auto. }
  destruct Hres as (onk & -> & Hres).
  pose proof (rebuild_branch m a pk sv mbh gn isb ks idx kt m1 onk c Hp Ekt Hres Hca Hci m2 a2 Ep) as Hq.
  destruct (handle_deletion H rt _ a2 k) as [m4 b] eqn:Ehd.
  intros E. injection E as <- <- <-. right. split; auto. right.
  destruct (handle_deletion_spec m t _ a2 pk sv mbh isb _ k m4 b Hp Hq Ehd) as (T' & <- & HT').
  exists T'. split; auto.
Qed.

(* ---------- clearPrefixAtNode ---------- *)
Lemma clear_none f m k : clear_prefix_node H g rt f m None k = (m, None, false).
Proof. destruct f; reflexivity. Qed.

Lemma clear_prefix_spec : forall fuel m t prefix m' p' flag,
  pre m t -> clear_prefix_node H g rt fuel m (Some (aroot t)) prefix = (m', p', flag) ->
  result_o m t m' p' flag.
Proof.
  induction fuel as [|f IH]; intros m t prefix m' p' flag Hp.
  { simpl. intros E. injection E as <- <- <-. left; auto. }
  destruct t as [a pk sv mbh gn isb ks]. set (t := AN a pk sv mbh gn isb ks) in *.
  pose proof Hp as (Hw & Hr & Hs & Hg & Hc & Hrt).
  destruct (rep_cell _ _ Hr) as (c & Hca & Hci). simpl in Hca.
  pose proof Hci as Hci'. unfold t, cell_is in Hci'. destruct Hci' as (Epk & Esv & Embh & Egn & Eisb & Eks).
  assert (Hb : forall x, In x (addrs t) -> (x < nx m)%N) by (intros; eapply rep_bounded; eauto).
  assert (Hsame : forall m0 p0 f0, (m, Some a, false) = (m0, p0, f0) -> result_o m t m0 p0 f0).
  { intros m0 p0 f0 E. injection E as <- <- <-. left; auto. }
  change (aroot t) with a. cbn [clear_prefix_node]. rewrite Hca.
  destruct (is_prefix prefix (c_pk c)).
  { intros E. injection E as <- <- <-. right. split; auto. left. split; auto. apply (drop_spec m t Hp). }
  destruct (negb (c_isb c)); [apply Hsame|].
  destruct ((length prefix =? S (length (c_pk c))) && is_prefix (removelast prefix) (c_pk c)).
  { (* the prefix selects one whole child *)
    set (idx := nth (length (c_pk c)) prefix 0).
    rewrite Eks, nth_map_oroot.
    destruct (nth idx ks None) as [kc|] eqn:Ekc; simpl oroot; [|apply Hsame].
    destruct (nth_some_in _ _ _ Ekc) as (Hkin & _).
    destruct (prep H g rt m a true) as [m1 a1] eqn:Ep.
    set (m2 := reg H rt m1 (aroot kc)).
    destruct (handle_deletion H rt _ a1 prefix) as [m4 b] eqn:Ehd.
    intros E. injection E as <- <- <-. right. split; auto. right.
    (* facts about prep *)
    assert (Hown : c_gen c = g -> In (aroot t) (own g t)).
    { intros E. apply (root_own g t). simpl. congruence. }
    assert (Hcopy : c_gen c <> g -> rep (hp m) t /\ sep t /\ cache_ok (is_root (aroot t)) (hp m) t).
    { intros E. split; [exact Hr | split; [exact Hs | exact Hc]]. }
    destruct (prep_spec H g rt m t c true Hw Hca Hown Hcopy (nx m) m1 a1 (N.le_refl _) Ep)
      as (Hw1 & Hle1 & (c1 & Hc1 & _) & Hcase & F1 & Hcar).
    assert (Hpk : pre m kc) by (apply (pre_kid H g rt m t kc Hp Hkin)).
    destruct Hpk as (_ & Hrk & Hsk & Hgk & Hck & _).
    assert (Hna : ~ In a (addrs kc)) by (apply (sep_root_not_in_kid t kc Hs Hkin)).
    assert (Hbk : forall x, In x (addrs kc) -> (x < nx m)%N).
    { intros x Hx. apply Hb. apply (kid_in_addrs t kc x Hkin Hx). }
    destruct (Hcar kc Hsk Hna Hbk Hrk) as (Hrk1 & Hck1).
    destruct (reg_spec (nx m) m1 t kc Hw1 Hrk1 Hsk (Hck1 _ Hck)) as (Hw2 & Enx2 & F2 & Fills).
    { intros x Hx. left. apply (kid_in_addrs t kc x Hkin Hx). }
    fold m2 in Hw2, Enx2, F2, Fills.
    assert (Hna1 : ~ In a1 (addrs kc)).
    { destruct Hcase as [(_ & -> & _)|(_ & -> & _)]; auto. intros Hx. specialize (Hbk _ Hx). lia. }
    assert (Hout : forall x, ~ In x (addrs kc) -> hp m2 x = hp m1 x).
    { intros x Hx. eapply fillsP_out; eauto. intros s0 Hs0 <-. apply Hx.
      assert (In s0 (subts kc)) by (destruct Hs0 as [?|[_ ->]]; [auto | apply in_subts_self]).
      eapply subts_addrs; eauto. apply aroot_in_addrs. }
    assert (Hq : post m t (wr m2 a1 (fun c' => set_kids_c (set_nth idx None (c_kids c')) c'))
                      (AN a1 pk sv mbh g isb (set_nth idx None ks))).
    { apply (finish_gen H g rt m t m c true m1 a1 m2 (fun c' => set_kids_c (set_nth idx None (c_kids c')) c')
                        pk sv mbh isb (set_nth idx None ks) Hp Hw (N.le_refl _)
                        (frame_refl H g rt _ _ _) Hca Hci (pre_copy H g rt m t Hp) Ep Hw2 Enx2 F2 (Hout a1 Hna1)).
      - intros k0 Hin. apply in_set_nth_some in Hin. destruct Hin as [E|(j & Hj & E)]; [discriminate|].
        apply carried_eq. intros x Hx. apply Hout. intros Hx'.
        eapply (sep_kids_disjoint t j idx k0 kc x); eauto.
      - intros c2 a0 Hd Hg1 Hpk1 Hmbh1 Hisb1 Hk1 Hsv1. unfold cell_is. simpl.
        assert (c_sv c2 = c_sv c) by (rewrite Hsv1; destruct (N.eqb (c_gen c) g); auto).
        rewrite map_set_nth. simpl oroot. repeat split; auto; congruence.
      - intros k0 Hin. apply in_set_nth_some in Hin. destruct Hin as [E|(j & Hj & E)]; [discriminate|].
        destruct (nth_some_in _ _ _ E) as (Hin0 & _). apply (pre_old_kids H g rt m t Hp k0 Hin0).
      - apply disjoint_set_nth_none. apply (sep_disjoint_kids t Hs). }
    destruct (handle_deletion_spec m t _ a1 pk sv mbh isb _ prefix m4 b Hp Hq Ehd) as (T' & <- & HT').
    exists T'. split; auto. }
  destruct ((length prefix <=? length (c_pk c)) || (cpl (c_pk c) prefix <? length (c_pk c))); [apply Hsame|].
  set (idx := nth (length (c_pk c)) prefix 0). set (cp := skipn (S (length (c_pk c))) prefix).
  rewrite Eks, nth_map_oroot.
  destruct (nth idx ks None) as [kt|] eqn:Ekt; simpl oroot.
  2:{ rewrite clear_none. simpl. apply Hsame. }
  destruct (nth_some_in _ _ _ Ekt) as (Hkin & _).
  assert (Hpk : pre m kt) by (apply (pre_kid H g rt m t kt Hp Hkin)).
  destruct (clear_prefix_node H g rt f m (Some (aroot kt)) cp) as [[m1 ch'] removed] eqn:Erec.
  destruct (IH m kt cp m1 ch' removed Hpk Erec) as [(-> & -> & ->)|(-> & Hch)].
  { simpl. apply Hsame. }
  simpl negb. cbv iota.
  destruct (prep H g rt m1 a true) as [m2 a2] eqn:Ep.
  assert (Hres : exists onk, ch' = oroot onk /\ kid_result m kt m1 onk).
  { destruct Hch as [(-> & Hg0)|(tk & -> & Hq)]; [exists None | exists (Some tk)]; split; auto. }
  destruct Hres as (onk & -> & Hres).
  pose proof (rebuild_branch m a pk sv mbh gn isb ks idx kt m1 onk c Hp Ekt Hres Hca Hci m2 a2 Ep) as Hq.
  destruct (handle_deletion H rt _ a2 prefix) as [m4 b] eqn:Ehd.
  intros E. injection E as <- <- <-. right. split; auto. right.
  destruct (handle_deletion_spec m t _ a2 pk sv mbh isb _ prefix m4 b Hp Hq Ehd) as (T' & <- & HT').
  exists T'. split; auto.
Qed.

End Delete.
