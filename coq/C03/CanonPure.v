(* C03/CanonPure.v — the pure operations of coq/Trie keep a trie canonical, with NO guard
   (put, delete also with the empty key, clear_prefix, clear_prefix_limit for every limit).
   Assembled from InsertProofs.insert_correct, DeleteProofs.delete_correct (+ the exhausted-key
   case proved here), ClearProofs.clear_correct, LimitProofs.cpl_correct / OrderProofs.cpl_differs
   and OrderProofs.dnl_gen_all. *)
From Common Require Import Bytes.
From Trie Require Import Nibbles Encode Node.
From Trie Require Model NibblesProofs InsertProofs DeleteProofs ClearProofs LimitProofs OrderProofs.
From Coq Require Import Arith Lia List.
Import ListNotations.
Local Open Scope nat_scope.

Notation Canon := InsertProofs.Canon.
Notation Canon_opt := InsertProofs.Canon_opt.

Lemma first_child_at (cs : list (option tnode)) : forall s i c,
  Trie.Model.first_child cs s = Some (i, c) -> s <= i /\ i - s < length cs /\ nth (i - s) cs None = Some c.
Proof.
  induction cs as [|[x|] cs IH]; intros s i c E; simpl in E; try discriminate.
  - inversion E; subst. rewrite Nat.sub_diag. simpl. repeat split; auto; lia.
  - destruct (IH _ _ _ E) as (A & B & C). replace (i - s) with (S (i - S s)) by lia. simpl. repeat split; auto; lia.
Qed.

Lemma canon_put (t : trie) k v : Canon_opt t -> Canon_opt (Trie.Model.trie_put t k v).
Proof.
  intros C. unfold Trie.Model.trie_put. simpl.
  apply InsertProofs.insert_opt_canon; [apply NibblesProofs.key_le_to_nibbles_ok|].
  intros c ->. apply InsertProofs.insert_correct; auto. apply NibblesProofs.key_le_to_nibbles_ok.
Qed.

(* deleting with the exhausted key at a branch whose partial key is not empty: the branch value goes,
   the shape stays canonical *)
Lemma canon_hd_none pk cs k :
  nibbles_ok pk -> length cs = 16 -> Forall (opt_all Canon) cs -> 1 <= Trie.Model.count_children cs ->
  Canon (Trie.Model.handle_deletion pk None cs k).
Proof.
  intros Hpk L F C1.
  destruct (Nat.eq_dec (Trie.Model.count_children cs) 1) as [E1|N1].
  - destruct (DeleteProofs.first_child_exists cs C1) as (i & c & Ef).
    rewrite (DeleteProofs.handle_deletion_merge pk cs k i c E1 Ef).
    destruct (first_child_at cs 0 i c Ef) as (_ & Hi & Hn). rewrite Nat.sub_0_r in Hi, Hn.
    apply DeleteProofs.Canon_prepend.
    + apply InsertProofs.nibbles_ok_app. split; auto. constructor; [lia | constructor].
    + rewrite Forall_forall in F. apply (F (Some c)). rewrite <- Hn. apply nth_In. auto.
  - unfold Trie.Model.handle_deletion.
    destruct (Trie.Model.count_children cs) as [|[|n]] eqn:Ec; try lia.
    apply InsertProofs.Canon_branch'; auto; unfold InsertProofs.occupants; simpl; lia.
Qed.

Lemma canon_delete (t : trie) k : Canon_opt t -> Canon_opt (Trie.Model.trie_delete t k).
Proof.
  intros C. unfold Trie.Model.trie_delete. destruct t as [n|]; [|exact I]. simpl in C.
  pose proof (NibblesProofs.key_le_to_nibbles_ok k) as Hk.
  destruct (key_le_to_nibbles k) as [|x r] eqn:Ek.
  - (* the exhausted key *)
    destruct n as [pk v|pk ov cs].
    + rewrite DeleteProofs.delete_leaf. simpl. exact I.
    + rewrite DeleteProofs.delete_branch. simpl.
      apply InsertProofs.Canon_branch_inv in C as (Hpk & L & F & C1 & C2).
      apply canon_hd_none; auto.
  - rewrite <- Ek. apply DeleteProofs.delete_correct; auto; [rewrite Ek; auto | left; rewrite Ek; discriminate].
Qed.

Lemma canon_clear_prefix (t : trie) p : Canon_opt t -> Canon_opt (Trie.Model.trie_clear_prefix t p).
Proof.
  intros C. unfold Trie.Model.trie_clear_prefix, Trie.Model.trie_clear_prefix_pinned.
  destruct p as [|b p]; [exact I|]. destruct t as [n|]; [|exact I]. simpl in C.
  apply ClearProofs.clear_correct; auto. apply ClearProofs.trim_zero_suffix_ok. apply NibblesProofs.key_le_to_nibbles_ok.
Qed.

Lemma canon_cpl_node n p limit :
  Canon n -> nibbles_ok p -> limit <> 0%N ->
  Canon_opt (fst (fst (Trie.Model.clear_prefix_limit_node n p limit))).
Proof.
  intros C Hp Hl. rewrite <- (N2Nat.id limit).
  assert (L1 : 0 < N.to_nat limit) by lia.
  destruct (LimitProofs.order_guard (map fst (LimitProofs.matching p n)) (N.to_nat limit)) eqn:G.
  - apply (OrderProofs.cpl_differs n C p (N.to_nat limit) Hp L1 G).
  - apply (LimitProofs.cpl_correct n C p (N.to_nat limit) Hp L1 G).
Qed.

Lemma canon_clear_prefix_limit (t : trie) p limit :
  Canon_opt t -> Canon_opt (fst (fst (Trie.Model.trie_clear_prefix_limit t p limit))).
Proof.
  intros C. unfold Trie.Model.trie_clear_prefix_limit, Trie.Model.trie_clear_prefix_limit_pinned.
  destruct (N.eqb_spec limit 0); [exact C|]. destruct t as [n0|]; [|exact I]. simpl in C.
  apply canon_cpl_node; auto. apply ClearProofs.trim_zero_suffix_ok. apply NibblesProofs.key_le_to_nibbles_ok.
Qed.

(* deleteNodesLimit never removes more than the limit *)
Lemma pdnl_le n limit : Canon n -> limit <> 0%N -> (snd (Trie.Model.delete_nodes_limit n limit) <= limit)%N.
Proof. intros C Hl. apply (OrderProofs.dnl_gen_all n C limit). lia. Qed.

Lemma pcl_le : forall n p limit, Canon n -> limit <> 0%N ->
  (snd (fst (Trie.Model.clear_prefix_limit_node n p limit)) <= limit)%N.
Proof.
  induction n as [pk v|pk ov cs IH] using tnode_ind'; intros p limit C Hl.
  - rewrite LimitProofs.clear_prefix_limit_leaf. destruct (is_prefix p pk); simpl; lia.
  - rewrite LimitProofs.clear_prefix_limit_branch.
    pose proof C as C0. apply InsertProofs.Canon_branch_inv in C as (Hpk & L & F & C1 & C2).
    assert (Hkid : forall i c, child_at cs i = Some c -> In (Some c) cs).
    { intros i c E. unfold child_at in E. rewrite <- E. apply nth_In.
      destruct (Nat.lt_ge_cases i (length cs)); auto. rewrite nth_overflow in E by auto. discriminate. }
    destruct (is_prefix p pk); [cbn [fst snd]; apply pdnl_le; auto|].
    destruct (Trie.Model.prefix_is_child pk p).
    { cbv zeta. destruct (child_at cs (nth (length pk) p 0)) as [c|] eqn:Ec; [|simpl; lia].
      destruct (N.eqb_spec (snd (Trie.Model.delete_nodes_limit c limit)) 0); [simpl; lia|].
      cbn [fst snd]. apply pdnl_le; auto. rewrite Forall_forall in F. apply (F _ (Hkid _ _ Ec)). }
    destruct (Trie.Model.no_prefix_for_node pk p); [simpl; lia|]. cbv zeta.
    destruct (child_at cs (nth (length pk) p 0)) as [c|] eqn:Ec; [|simpl; lia].
    rewrite Forall_forall in IH, F.
    pose proof (IH _ (Hkid _ _ Ec) (skipn (length pk + 1) p) limit (F _ (Hkid _ _ Ec)) Hl) as Hle.
    destruct (N.eqb_spec (snd (fst (Trie.Model.clear_prefix_limit_node c (skipn (length pk + 1) p) limit))) 0); [simpl; lia|].
    cbn [fst snd]. exact Hle.
Qed.
