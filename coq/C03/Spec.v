(* C03/Spec.v — the contract of a mutating operation on the subtree t of a trie of generation g
   ([pre]/[post]) and the master lemma [finish]: prepare the root of t for mutation, rewrite the
   prepared node, and obtain a node over (old or new) represented children. *)
From Common Require Import Bytes.
From Trie Require Import Nibbles Encode.
From C03 Require Import Model Tree Cache Frame Ops.
From Coq Require Import Arith Lia.
Local Open Scope nat_scope.

Section Spec.
Variable H : list byte -> list byte.
Variable g : N.
Variable rt : option addr.

Notation is_root := (Model.is_root rt).
Notation frame := (Frame.frame H g rt).
Notation cache_ok := (Cache.cache_ok H).
Notation carried := (Ops.carried H).

Definition pre (m : mem) (t : atree) : Prop :=
  hwf m /\ rep (hp m) t /\ sep t /\ good g t /\ cache_ok (is_root (aroot t)) (hp m) t /\ rt_ok rt t.

Definition post (m : mem) (t : atree) (m' : mem) (t' : atree) : Prop :=
  rep (hp m') t' /\ sep t' /\ good g t' /\ (forall rs, cache_ok rs (hp m') t')
  /\ hwf m' /\ (nx m <= nx m')%N
  /\ frame (nx m) t (hp m) (hp m')
  /\ (forall x, In x (addrs t') -> In x (addrs t) \/ (nx m <= x)%N)
  /\ (forall x, In x (addrs t') -> x <> aroot t' -> (x < nx m)%N ->
                (In x (addrs t) /\ x <> aroot t) \/ In x (own g t))
  /\ ((aroot t' = aroot t /\ In (aroot t) (own g t)) \/ (nx m <= aroot t')%N).

(* the root pointer is not inside a child *)
Lemma is_root_kid t k : sep t -> rt_ok rt t -> In (Some k) (akids t) -> is_root (aroot k) = false /\ rt_ok rt k.
Proof.
  intros Hs Hrt Hk. split.
  - unfold Model.is_root. destruct rt as [r|] eqn:E; auto. apply N.eqb_neq. intros ->.
    assert (Hin : In (aroot k) (addrs t)).
    { destruct t; simpl in *. right. apply in_flat_map_o. exists k. split; auto. apply aroot_in_addrs. }
    specialize (Hrt _ eq_refl Hin). eapply sep_root_not_in_kid; eauto. rewrite <- Hrt. apply aroot_in_addrs.
  - intros r E Hin. exfalso.
    assert (Hin' : In r (addrs t)).
    { destruct t; simpl in *. right. apply in_flat_map_o. eauto. }
    specialize (Hrt _ E Hin'). subst r. eapply sep_root_not_in_kid; eauto.
Qed.

Lemma pre_kid m t k : pre m t -> In (Some k) (akids t) -> pre m k.
Proof.
  intros (Hw & Hr & Hs & Hg & Hc & Hrt) Hk.
  destruct (is_root_kid t k Hs Hrt Hk) as (Hir & Hrk).
  repeat split; auto.
  - eapply rep_kid; eauto.
  - eapply sep_kid; eauto.
  - eapply good_kid; eauto.
  - rewrite Hir. eapply cache_ok_kid; eauto.
Qed.

Lemma kid_in_addrs t k x : In (Some k) (akids t) -> In x (addrs k) -> In x (addrs t) /\ (sep t -> x <> aroot t).
Proof.
  intros Hk Hx. split.
  - destruct t; simpl in *. right. apply in_flat_map_o. eauto.
  - intros Hs ->. eapply sep_root_not_in_kid; eauto.
Qed.

Lemma root_own t : agen t = g -> In (aroot t) (own g t).
Proof. destruct t; simpl agen; simpl aroot. intros ->. apply in_own. left; auto. Qed.

Lemma wr_some m a c f : hp m a = Some c -> wr m a f = mkMem (upd (hp m) a (f c)) (nx m).
Proof. unfold wr. intros ->. reflexivity. Qed.

(* a child of the node being rebuilt: represented in the intermediate heap m1, made of old cells of t
   other than its root, or of cells allocated since the operation began *)
Definition kid_ok (m : mem) (t : atree) (m1 : mem) (k : atree) : Prop :=
  rep (hp m1) k /\ sep k /\ good g k /\ cache_ok false (hp m1) k
  /\ ~ In (aroot t) (addrs k)
  /\ (forall x, In x (addrs k) -> (In x (addrs t) /\ x <> aroot t) \/ ((nx m <= x)%N /\ (x < nx m1)%N)).

Definition disjoint_kids (ks : list (option atree)) : Prop :=
  forall i j ki kj x, i <> j -> nth i ks None = Some ki -> nth j ks None = Some kj ->
                      In x (addrs ki) -> ~ In x (addrs kj).

(* ---------- the master lemma ---------- *)
Lemma finish_gen m t m1 c csv m2 a1 m2' f pk' sv' mbh' isb' ks' :
  pre m t ->
  hwf m1 -> (nx m <= nx m1)%N -> frame (nx m) t (hp m) (hp m1) ->
  hp m1 (aroot t) = Some c -> cell_is c t ->
  (agen t <> g -> rep (hp m1) t /\ cache_ok (is_root (aroot t)) (hp m1) t) ->
  prep H g rt m1 (aroot t) csv = (m2, a1) ->
  (* an intermediate step that only fills caches away from the prepared node and the children *)
  hwf m2' -> nx m2' = nx m2 -> frame (nx m) t (hp m2) (hp m2') -> hp m2' a1 = hp m2 a1 ->
  (forall k, In (Some k) ks' -> carried (hp m2) (hp m2') k) ->
  (forall c1 a', c_dirty c1 = true -> c_gen c1 = g -> c_pk c1 = c_pk c -> c_mbh c1 = c_mbh c ->
                 c_isb c1 = c_isb c -> c_kids c1 = c_kids c ->
                 c_sv c1 = (if N.eqb (c_gen c) g then c_sv c else if csv then c_sv c else None) ->
                 cell_is (f c1) (AN a' pk' sv' mbh' g isb' ks') /\ c_dirty (f c1) = true) ->
  (forall k, In (Some k) ks' -> kid_ok m t m1 k) ->
  disjoint_kids ks' ->
  post m t (wr m2' a1 f) (AN a1 pk' sv' mbh' g isb' ks').
Proof.
  intros (Hw & Hr & Hs & Hg & Hc & Hrt) Hw1 Hle F1 Hca Hci Hcopy Hprep Hw2' Enx2 F2' Ea1 Hcar2 Hf Hk Hdis.
  assert (Hgen : c_gen c = agen t) by (destruct t; unfold cell_is in Hci; simpl; tauto).
  assert (Hb : forall x, In x (addrs t) -> (x < nx m)%N) by (intros; eapply rep_bounded; eauto).
  destruct (prep_spec H g rt m1 t c csv Hw1 Hca) with (n0 := nx m) (m1 := m2) (a1 := a1)
    as (Hw2 & Hle2 & (c1 & Hc1 & Hd1 & Hg1 & _ & Hpk1 & Hmbh1 & Hisb1 & Hk1 & Hsv1) & Hcase & F2 & Hcar); auto.
  { intros E. apply root_own. congruence. }
  { intros E. destruct Hcopy as (? & ?); [congruence|]. repeat split; auto. }
  destruct (Hf c1 a1 Hd1 Hg1 Hpk1 Hmbh1 Hisb1 Hk1 Hsv1) as (Hci3 & Hd3).
  assert (Hc1' : hp m2' a1 = Some c1) by congruence.
  rewrite (wr_some _ _ _ _ Hc1').
  assert (Hg3 : c_gen (f c1) = g) by (unfold cell_is in Hci3; tauto).
  (* a1 is the old root (owned) or fresh *)
  assert (Ha1 : (a1 = aroot t /\ In (aroot t) (own g t)) \/ (a1 = nx m1 /\ nx m2 = N.succ (nx m1))).
  { destruct Hcase as [(E & -> & _)|(_ & -> & ?)]; [left|right; auto].
    split; auto. apply root_own. congruence. }
  assert (Hna1 : forall k, In (Some k) ks' -> ~ In a1 (addrs k)).
  { intros k Hin Hx. destruct (Hk k Hin) as (_ & _ & _ & _ & Hn & Hbk).
    destruct Ha1 as [(-> & _)|(-> & _)]; [tauto|].
    destruct (Hbk _ Hx) as [[Hx' _]|[_ ?]]; [|lia]. specialize (Hb _ Hx'). lia. }
  (* the children in the final heap *)
  assert (Hkids : forall k, In (Some k) ks' ->
            rep (upd (hp m2') a1 (f c1)) k /\ sep k /\ good g k /\ cache_ok false (upd (hp m2') a1 (f c1)) k
            /\ ~ In a1 (addrs k)).
  { intros k Hin. destruct (Hk k Hin) as (Hrk & Hsk & Hgk & Hck & Hn & Hbk).
    assert (C : carried (hp m1) (upd (hp m2') a1 (f c1)) k).
    { eapply carried_trans; [|eapply carried_trans].
      - apply Hcar; auto. intros x Hx. destruct (Hbk _ Hx) as [[Hx' _]|[_ ?]]; [|lia]. specialize (Hb _ Hx'). lia.
      - apply Hcar2; auto.
      - apply carried_upd. apply Hna1; auto. }
    destruct (C Hrk) as (Hr3 & Hc3). repeat split; auto. }
  destruct (assemble H g (upd (hp m2') a1 (f c1)) a1 (f c1) pk' sv' mbh' isb' ks') as (R1 & R2 & R3 & R4); auto.
  { apply upd_eq. }
  assert (F3 : frame (nx m) t (hp m) (upd (hp m2') a1 (f c1))).
  { eapply frame_trans with (n1 := nx m); [lia | exact F1 |].
    eapply frame_trans with (n1 := nx m); [lia | exact F2 |].
    eapply frame_trans with (n1 := nx m); [lia | exact F2' |].
    destruct Ha1 as [(-> & Ho)|(-> & _)].
    - eapply frame_own; eauto. congruence.
    - apply frame_fresh; [lia|]. intros c0 Hc0. congruence. }
  unfold post. simpl hp. simpl nx.
  split; [exact R1|]. split; [exact R2|]. split; [exact R3|]. split; [exact R4|].
  split. { intros x Hx. simpl in *. rewrite upd_neq; auto. intros ->.
           rewrite Hw2' in Hc1' by auto. discriminate. }
  split; [lia|]. split; [exact F3|].
  split. { intros x Hx. apply in_addrs in Hx. destruct Hx as [->|(k & Hin & Hx)].
    + destruct Ha1 as [(-> & _)|(-> & _)]; [left; apply aroot_in_addrs | right; auto].
    + destruct (Hk k Hin) as (_ & _ & _ & _ & _ & Hbk). destruct (Hbk _ Hx) as [[? _]|[? _]]; auto. }
  split. { intros x Hx Hne Hlt. apply in_addrs in Hx. simpl in Hne. destruct Hx as [->|(k & Hin & Hx)]; [congruence|].
    destruct (Hk k Hin) as (_ & _ & _ & _ & _ & Hbk). destruct (Hbk _ Hx) as [?|[? _]]; [auto | lia]. }
  simpl. destruct Ha1 as [(-> & ?)|(-> & _)]; [left; auto | right; auto].
Qed.

Lemma finish m t m1 c csv m2 a1 f pk' sv' mbh' isb' ks' :
  pre m t ->
  hwf m1 -> (nx m <= nx m1)%N -> frame (nx m) t (hp m) (hp m1) ->
  hp m1 (aroot t) = Some c -> cell_is c t ->
  (agen t <> g -> rep (hp m1) t /\ cache_ok (is_root (aroot t)) (hp m1) t) ->
  prep H g rt m1 (aroot t) csv = (m2, a1) ->
  (forall c1 a', c_dirty c1 = true -> c_gen c1 = g -> c_pk c1 = c_pk c -> c_mbh c1 = c_mbh c ->
                 c_isb c1 = c_isb c -> c_kids c1 = c_kids c ->
                 c_sv c1 = (if N.eqb (c_gen c) g then c_sv c else if csv then c_sv c else None) ->
                 cell_is (f c1) (AN a' pk' sv' mbh' g isb' ks') /\ c_dirty (f c1) = true) ->
  (forall k, In (Some k) ks' -> kid_ok m t m1 k) ->
  disjoint_kids ks' ->
  post m t (wr m2 a1 f) (AN a1 pk' sv' mbh' g isb' ks').
Proof.
  intros Hp Hw1 Hle F1 Hca Hci Hcopy Hprep Hf Hk Hdis.
  assert (Hw2 : hwf m2).
  { destruct (prep_spec H g rt m1 t c csv Hw1 Hca) with (n0 := nx m) (m1 := m2) (a1 := a1) as (Hw2 & _); auto.
    - intros E. apply root_own. destruct t; unfold cell_is in Hci; simpl; intuition congruence.
    - intros E. destruct Hp as (_ & _ & Hs & _). destruct Hcopy as (? & ?); [|repeat split; auto].
      destruct t; unfold cell_is in Hci; simpl; intuition congruence. }
  eapply (finish_gen m t m1 c csv m2 a1 m2); eauto.
  - apply frame_refl.
  - intros k _ Hr. split; auto.
Qed.

(* ---------- a new node over represented children ---------- *)
(* where the cells of a (new or old) subtree may lie, relative to the tree t the operation started
   from: old cells of t (the root of t only when it is owned) or cells allocated since *)
Definition placed (m : mem) (t : atree) (n1 : addr) (k : atree) : Prop :=
  forall x, In x (addrs k) ->
    (In x (addrs t) /\ (x <> aroot t \/ In x (own g t))) \/ ((nx m <= x)%N /\ (x < n1)%N).

Lemma fresh_node_post m t m3 c' pk' sv' mbh' isb' ks' :
  pre m t ->
  hwf m3 -> (nx m <= nx m3)%N -> frame (nx m) t (hp m) (hp m3) ->
  c_dirty c' = true -> (forall a', cell_is c' (AN a' pk' sv' mbh' g isb' ks')) ->
  (forall k, In (Some k) ks' ->
             rep (hp m3) k /\ sep k /\ good g k /\ cache_ok false (hp m3) k /\ placed m t (nx m3) k) ->
  disjoint_kids ks' ->
  post m t (fst (alloc m3 c')) (AN (nx m3) pk' sv' mbh' g isb' ks').
Proof.
  intros (Hw & Hr & Hs & Hg & Hc & Hrt) Hw3 Hle F3 Hd Hci Hk Hdis.
  assert (Hb : forall x, In x (addrs t) -> (x < nx m)%N) by (intros; eapply rep_bounded; eauto).
  unfold alloc. simpl fst.
  assert (Hna : forall k, In (Some k) ks' -> ~ In (nx m3) (addrs k)).
  { intros k Hin Hx. destruct (Hk k Hin) as (_ & _ & _ & _ & Hp).
    destruct (Hp _ Hx) as [[Hx' _]|[_ ?]]; [|lia]. specialize (Hb _ Hx'). lia. }
  assert (Hkids : forall k, In (Some k) ks' ->
            rep (upd (hp m3) (nx m3) c') k /\ sep k /\ good g k /\ cache_ok false (upd (hp m3) (nx m3) c') k
            /\ ~ In (nx m3) (addrs k)).
  { intros k Hin. destruct (Hk k Hin) as (Hrk & Hsk & Hgk & Hck & Hp).
    destruct (carried_upd H (hp m3) (nx m3) c' k (Hna k Hin) Hrk) as (Hr3 & Hc3). repeat split; auto. }
  destruct (assemble H g (upd (hp m3) (nx m3) c') (nx m3) c' pk' sv' mbh' isb' ks') as (R1 & R2 & R3 & R4); auto.
  { apply upd_eq. }
  unfold post. simpl hp. simpl nx.
  split; [exact R1|]. split; [exact R2|]. split; [exact R3|]. split; [exact R4|].
  split. { intros x Hx. simpl in *. rewrite upd_neq by lia. apply Hw3. lia. }
  split; [lia|].
  split. { eapply frame_trans with (n1 := nx m); [lia | exact F3 |].
           apply frame_fresh; [lia|]. intros c0 Hc0. rewrite Hw3 in Hc0 by lia. discriminate. }
  split. { intros x Hx. apply in_addrs in Hx. destruct Hx as [->|(k & Hin & Hx)]; [right; auto|].
           destruct (Hk k Hin) as (_ & _ & _ & _ & Hp). destruct (Hp _ Hx) as [[? _]|[? _]]; auto. }
  split. { intros x Hx Hne Hlt. apply in_addrs in Hx. simpl in Hne. destruct Hx as [->|(k & Hin & Hx)]; [congruence|].
           destruct (Hk k Hin) as (_ & _ & _ & _ & Hp). destruct (Hp _ Hx) as [[? [?|?]]|[? _]]; [auto | auto | lia]. }
  simpl. right; auto.
Qed.

(* the result of an operation on t can be hung below a new node *)
Lemma post_placed m t m' t' : pre m t -> post m t m' t' -> placed m t (nx m') t'.
Proof.
  intros (Hw & Hr & Hs & _) (R1 & R2 & _ & _ & Hw' & Hle & _ & P8 & P9 & P10) x Hx.
  assert (Hlt : (x < nx m')%N) by (eapply rep_bounded; eauto).
  destruct (N.lt_ge_cases x (nx m)) as [Hold|Hnew]; [|right; split; auto].
  left. destruct (N.eq_dec x (aroot t')) as [->|Hne].
  - destruct P10 as [(E & Ho)|?]; [|lia]. rewrite E. split; [apply aroot_in_addrs | auto].
  - destruct (P9 x Hx Hne Hold) as [(? & ?)|Ho]; [split; auto|].
    split; [eapply own_addrs; eauto | auto].
Qed.

(* an untouched child of t *)
Lemma kid_placed m t n1 k : sep t -> In (Some k) (akids t) -> placed m t n1 k.
Proof.
  intros Hs Hk x Hx. left. destruct (kid_in_addrs t k x Hk Hx) as (? & Hne). split; auto.
Qed.

End Spec.
