(* C03/DirtyContract.v — the Dirty-flag contract that C04's discipline theorem (C04_discipline_chain)
   assumes of the trie mutation code, proved for the heap model of this library (repaired code,
   fx = true).

   Part A (heap level, no tree invariant needed): what Put / Delete / ClearPrefix / ClearPrefixLimit
   of a trie of generation g may do to the cells of the heap [ev]:
     - a cell of another generation keeps all its node fields AND its Dirty flag (only its cached
       Merkle value may be filled);
     - a cell of generation g keeps its generation and never goes from dirty to clean;
     - every cell allocated by the operation has generation g and is dirty.
   Part B (tree level): for a handle of generation g whose trie was persisted (every node clean)
   and was obtained by Snapshot (every node of an older generation), after any sequence of
   mutations: a node is dirty iff it has generation g iff it was allocated since; dirty nodes are
   closed upwards; the subtree below a clean node is, address by address, the subtree the
   persisted heap spells at that address, it is a subtree of the persisted trie, and all its
   nodes are clean in both heaps. *)
From Common Require Import Bytes Blake2b.
From Trie Require Import Nibbles Encode.
From C03 Require Import Model Tree Cache Frame Ops Spec Insert Delete View Inv Mutate Main Limit MainX.
From Coq Require Import Arith Lia.
Local Open Scope nat_scope.

Section Heap.
Variable H : list byte -> list byte.
Variable g : N.
Variable v1 : bool.
Variable rt : option addr.
Variable fd : bool.

Record ev (m m' : mem) : Prop := {
  ev_w0 : hwf m;
  ev_w : hwf m';
  ev_nx : (nx m <= nx m')%N;
  ev_old : forall x c, hp m x = Some c ->
             exists c', hp m' x = Some c' /\ c_gen c' = c_gen c
               /\ (c_gen c <> g -> samef c c' /\ c_dirty c' = c_dirty c)
               /\ (c_dirty c = true -> c_dirty c' = true);
  ev_new : forall x c', hp m' x = Some c' -> hp m x = None -> c_gen c' = g /\ c_dirty c' = true
}.

Lemma ev_refl m : hwf m -> ev m m.
Proof.
  intros Hw. constructor; auto; try lia.
  - intros x c Hc. exists c. repeat split; auto.
  - intros x c' E1 E2. congruence.
Qed.

Lemma ev_trans m m1 m2 : ev m m1 -> ev m1 m2 -> ev m m2.
Proof.
  intros A B. constructor.
  - apply (ev_w0 _ _ A).
  - apply (ev_w _ _ B).
  - pose proof (ev_nx _ _ A). pose proof (ev_nx _ _ B). lia.
  - intros x c Hc. destruct (ev_old _ _ A x c Hc) as (c1 & Hc1 & G1 & S1 & D1).
    destruct (ev_old _ _ B x c1 Hc1) as (c2 & Hc2 & G2 & S2 & D2).
    exists c2. split; auto. split; [congruence|]. split; auto.
    intros Hn. destruct (S1 Hn) as (Sa & Da). destruct S2 as (Sb & Db); [congruence|].
    split; [eapply samef_trans; eauto | congruence].
  - intros x c2 Hc2 Hn. destruct (hp m1 x) as [c1|] eqn:E1.
    + destruct (ev_new _ _ A x c1 E1 Hn) as (G1 & D1).
      destruct (ev_old _ _ B x c1 E1) as (c2' & Hc2' & G2 & _ & D2).
      rewrite Hc2 in Hc2'. inversion Hc2'; subst c2'. split; [congruence | auto].
    + apply (ev_new _ _ B x c2 Hc2 E1).
Qed.

(* a cell the operation may write in place: generation g (or not there) *)
Definition owned (m : mem) (a : addr) : Prop := forall c, hp m a = Some c -> c_gen c = g.

Lemma owned_ev m m' a : ev m m' -> owned m a -> owned m' a.
Proof.
  intros A O c' Hc'. destruct (hp m a) as [c|] eqn:E.
  - destruct (ev_old _ _ A a c E) as (c2 & Hc2 & G & _). rewrite Hc' in Hc2. inversion Hc2; subst.
    rewrite G. auto.
  - apply (ev_new _ _ A a c' Hc' E).
Qed.

(* ---------- Merkle-value computations only fill caches ---------- *)
Definition mvsame (h h' : heap) : Prop :=
  forall x, match h x, h' x with
            | Some c, Some c' => samef c c' /\ c_dirty c' = c_dirty c
            | None, None => True
            | _, _ => False
            end.

Lemma mvsame_refl h : mvsame h h.
Proof. intros x. destruct (h x); auto. split; [apply samef_refl | auto]. Qed.

Lemma mvsame_trans h h1 h2 : mvsame h h1 -> mvsame h1 h2 -> mvsame h h2.
Proof.
  intros A B x. specialize (A x). specialize (B x).
  destruct (h x), (h1 x), (h2 x); try tauto.
  destruct A, B. split; [eapply samef_trans; eauto | congruence].
Qed.

Lemma mvsame_set_mv h a v : mvsame h (set_mv h a v).
Proof.
  unfold set_mv. destruct (h a) as [c|] eqn:E; [|apply mvsame_refl].
  intros x. destruct (N.eq_dec x a) as [->|Hne].
  - rewrite E, upd_eq. split; [repeat split | reflexivity].
  - rewrite upd_neq by auto. destruct (h x); auto. split; [apply samef_refl | auto].
Qed.

Lemma fold_kids_mvsame (rec : heap -> addr -> heap * list byte) :
  (forall h a, mvsame h (fst (rec h a))) ->
  forall l h, mvsame h (fst (fold_kids rec l h)).
Proof.
  intros Hrec. induction l as [|[k|] l IH]; intros h; simpl.
  - apply mvsame_refl.
  - specialize (Hrec h k). destruct (rec h k) as [h1 v]. simpl in Hrec.
    specialize (IH h1). destruct (fold_kids rec l h1) as [h2 e]. simpl in *.
    eapply mvsame_trans; eauto.
  - apply IH.
Qed.

Lemma mvcalc_mvsame : forall fuel chk rs h a, mvsame h (fst (mvcalc H fuel chk rs h a)).
Proof.
  induction fuel as [|f IH]; intros chk rs h a; simpl; [apply mvsame_refl|].
  destruct (h a) as [c|]; [|apply mvsame_refl].
  destruct (if chk then cache_hit rs c else None); [apply mvsame_refl|].
  pose proof (fold_kids_mvsame (mvcalc H f true false) (IH true false) (c_kids c) h) as F.
  destruct (fold_kids (mvcalc H f true false) (c_kids c) h) as [h1 ke]. simpl in *.
  eapply mvsame_trans; [exact F | apply mvsame_set_mv].
Qed.

Lemma ev_mvsame m h' : hwf m -> mvsame (hp m) h' -> ev m (mkMem h' (nx m)).
Proof.
  intros Hw S. constructor; simpl; auto; try lia.
  - intros x Hx. simpl in *. specialize (S x). rewrite (Hw x Hx) in S. destruct (h' x); [contradiction | reflexivity].
  - intros x c Hc. specialize (S x). rewrite Hc in S. destruct (h' x) as [c'|]; [|contradiction].
    destruct S as (Sf & D). exists c'. split; auto. split; [unfold samef in Sf; tauto|].
    split; [auto | congruence].
  - intros x c' Hc' Hn. specialize (S x). rewrite Hn, Hc' in S. contradiction.
Qed.

Lemma reg_ev m a : hwf m -> ev m (reg H rt m a).
Proof. intros Hw. unfold reg. apply ev_mvsame; auto. apply mvcalc_mvsame. Qed.

(* ---------- primitive steps ---------- *)
Lemma alloc_ev m c m1 b :
  hwf m -> alloc m c = (m1, b) -> c_gen c = g -> c_dirty c = true -> ev m m1.
Proof.
  intros Hw E G D. unfold alloc in E. inversion E; subst m1 b. clear E.
  constructor; simpl; auto; try lia.
  - intros x Hx. simpl in *. rewrite upd_neq by lia. apply Hw. lia.
  - intros x c0 Hc0. assert (x <> nx m).
    { intros ->. rewrite Hw in Hc0 by lia. discriminate. }
    rewrite upd_neq by auto. exists c0. repeat split; auto.
  - intros x c' Hc' Hn. destruct (N.eq_dec x (nx m)) as [->|Hne].
    + rewrite upd_eq in Hc'. inversion Hc'; subst. auto.
    + rewrite upd_neq in Hc' by auto. congruence.
Qed.

Lemma upd_ev m a c c' :
  hwf m -> hp m a = Some c -> c_gen c = g -> c_gen c' = g -> (c_dirty c = true -> c_dirty c' = true) ->
  ev m (mkMem (upd (hp m) a c') (nx m)).
Proof.
  intros Hw Hc G G' D. constructor; simpl; auto; try lia.
  - intros x Hx. simpl in *. rewrite upd_neq; auto. intros ->. rewrite Hw in Hc by auto. discriminate.
  - intros x c0 Hc0. destruct (N.eq_dec x a) as [->|Hne].
    + rewrite upd_eq. rewrite Hc in Hc0. inversion Hc0; subst c0. exists c'.
      split; auto. split; [congruence|]. split; [congruence | auto].
    + rewrite upd_neq by auto. exists c0. repeat split; auto.
  - intros x c0 Hc0 Hn. destruct (N.eq_dec x a) as [->|Hne]; [congruence|].
    rewrite upd_neq in Hc0 by auto. congruence.
Qed.

(* the field writes of the mutation code keep Generation and Dirty *)
Definition fok (f : cell -> cell) : Prop := forall c, c_gen (f c) = c_gen c /\ c_dirty (f c) = c_dirty c.

Lemma wr_ev m a f : hwf m -> owned m a -> fok f -> ev m (wr m a f).
Proof.
  intros Hw O F. unfold wr. destruct (hp m a) as [c|] eqn:E; [|apply ev_refl; auto].
  destruct (F c) as (G & D). pose proof (O c E) as Gc.
  apply (upd_ev m a c (f c) Hw E Gc); [congruence | intros; congruence].
Qed.

Lemma prep_ev m a csv m1 a1 :
  hwf m -> prep H g rt m a csv = (m1, a1) -> ev m m1 /\ owned m1 a1.
Proof.
  intros Hw E. unfold prep in E. destruct (hp m a) as [c|] eqn:Ec.
  - destruct (N.eqb_spec (c_gen c) g) as [G|G].
    + inversion E; subst m1 a1. split.
      * eapply upd_ev; eauto.
      * intros c'. simpl. rewrite upd_eq. intros E'. inversion E'; subst. simpl. auto.
    + pose proof (reg_ev m a Hw) as A.
      destruct (alloc (reg H rt m a) _) as [m2 b] eqn:Ea in E. inversion E; subst m2 b.
      pose proof Ea as Ea'. apply alloc_ev in Ea; auto; [|apply (ev_w _ _ A)].
      split; [eapply ev_trans; eauto|].
      unfold alloc in Ea'. inversion Ea'; subst. intros c'. simpl. rewrite upd_eq.
      intros E'. inversion E'; subst. reflexivity.
  - inversion E; subst. split; [apply ev_refl; auto|]. intros c' E'. congruence.
Qed.

Lemma handle_deletion_ev m a k m1 b :
  hwf m -> owned m a -> handle_deletion H rt m a k = (m1, b) -> ev m m1.
Proof.
  intros Hw O E. unfold handle_deletion in E.
  destruct (hp m a) as [c|] eqn:Ec; [|inversion E; subst; apply ev_refl; auto].
  pose proof (O c Ec) as G.
  destruct (count_kids (c_kids c)) as [|[|n]].
  - destruct (c_sv c); [|inversion E; subst; apply ev_refl; auto].
    eapply alloc_ev; eauto.
  - destruct (c_sv c); [inversion E; subst; apply ev_refl; auto|].
    destruct (first_kid (c_kids c) 0) as [[i ch]|]; [|inversion E; subst; apply ev_refl; auto].
    pose proof (reg_ev m ch Hw) as A.
    destruct (hp (reg H rt m ch) ch) as [cc|]; [|inversion E; subst; auto].
    eapply ev_trans; [exact A|]. eapply alloc_ev; eauto. apply (ev_w _ _ A).
  - destruct (c_sv c); inversion E; subst; apply ev_refl; auto.
Qed.


(* ---------- the mutating operations ---------- *)
Local Arguments prep : simpl never.
Local Arguments alloc : simpl never.
Local Arguments wr : simpl never.
Local Arguments reg : simpl never.
Local Arguments handle_deletion : simpl never.
Local Arguments replace_value : simpl never.
Local Arguments insert_in_leaf : simpl never.
Local Arguments dnl_loop : simpl never.
Local Arguments must_hash : simpl never.

Ltac brk E :=
  match type of E with
  | context [if ?b then _ else _] => destruct b; cbv beta iota in E
  | context [match ?x with (_, _) => _ end] => destruct x eqn:?; cbv beta iota in E
  end.

Ltac fokt := let c := fresh in intros c; split; reflexivity.

(* S : ev mc m1 — carry the owned facts over and extend the accumulated relation *)
Ltac adv S :=
  match type of S with
  | ev ?mc ?m1 =>
    repeat match goal with
           | [ O : owned mc ?b |- _ ] => apply (owned_ev mc m1 b S) in O
           end;
    match goal with
    | [ A : ev ?m0 mc |- _ ] => apply (fun a => ev_trans m0 mc m1 a S) in A
    end
  end.

Ltac fwd1 :=
  match goal with
  | [ A : ev _ ?mc, E : prep _ _ _ ?mc ?a ?csv = (?m1, ?a1) |- _ ] =>
    let S := fresh "S" in let O := fresh "O" in
    destruct (prep_ev mc a csv m1 a1 (ev_w _ _ A) E) as (S & O); clear E; adv S; clear S
  | [ A : ev _ ?mc, E : alloc ?mc ?c = (?m1, ?b) |- _ ] =>
    let S := fresh "S" in
    assert (S : ev mc m1) by (apply (alloc_ev mc c m1 b (ev_w _ _ A) E); reflexivity);
    clear E; adv S; clear S
  | [ A : ev _ ?mc, O : owned ?mc ?a, E : handle_deletion _ _ ?mc ?a ?k = (?m1, ?b) |- _ ] =>
    let S := fresh "S" in
    pose proof (handle_deletion_ev mc a k m1 b (ev_w _ _ A) O E) as S; clear E; adv S; clear S
  | [ A : ev _ ?mc, E : context [reg _ _ ?mc ?a] |- _ ] =>
    let S := fresh "S" in let mw := fresh "mw" in
    pose proof (reg_ev mc a (ev_w _ _ A)) as S;
    set (mw := reg H rt mc a) in *; clearbody mw; adv S; clear S
  | [ A : ev _ ?mc |- context [reg _ _ ?mc ?a] ] =>
    let S := fresh "S" in let mw := fresh "mw" in
    pose proof (reg_ev mc a (ev_w _ _ A)) as S;
    set (mw := reg H rt mc a) in *; clearbody mw; adv S; clear S
  | [ A : ev _ ?mc, O : owned ?mc ?a, E : context [wr ?mc ?a ?f] |- _ ] =>
    let S := fresh "S" in let mw := fresh "mw" in
    assert (S : ev mc (wr mc a f)) by (apply (wr_ev mc a f (ev_w _ _ A) O); fokt);
    set (mw := wr mc a f) in *; clearbody mw; adv S; clear S
  | [ A : ev _ ?mc, O : owned ?mc ?a |- context [wr ?mc ?a ?f] ] =>
    let S := fresh "S" in let mw := fresh "mw" in
    assert (S : ev mc (wr mc a f)) by (apply (wr_ev mc a f (ev_w _ _ A) O); fokt);
    set (mw := wr mc a f) in *; clearbody mw; adv S; clear S
  end.

Ltac fin E := inversion E; subst; clear E; repeat fwd1; assumption.

Lemma replace_value_ev m a c value csv m' a' mut :
  hwf m -> replace_value H true g v1 rt m a c value csv = (m', a', mut) -> ev m m'.
Proof.
  intros Hw E. pose proof (ev_refl m Hw) as A. unfold replace_value in E.
  repeat brk E; fin E.
Qed.

Lemma insert_in_leaf_ev m a c k value m' a' mut :
  hwf m -> insert_in_leaf H true g v1 rt m a c k value = (m', a', mut) -> ev m m'.
Proof.
  intros Hw E. unfold insert_in_leaf in E.
  destruct (key_eqb (c_pk c) k); [eapply replace_value_ev; eauto|].
  pose proof (ev_refl m Hw) as A.
  repeat brk E; fin E.
Qed.

Lemma insert_ev : forall fuel m p k value m' a' mut,
  hwf m -> insert H true g v1 rt fuel m p k value = (m', a', mut) -> ev m m'.
Proof.
  induction fuel as [|f IH]; intros m p k value m' a' mut Hw E; cbn [insert] in E.
  { inversion E; subst. apply ev_refl; auto. }
  pose proof (ev_refl m Hw) as A.
  destruct p as [a|]; [|repeat brk E; fin E].
  destruct (hp m a) as [c|] eqn:Ec; [|fin E].
  destruct (negb (c_isb c)); [eapply insert_in_leaf_ev; eauto|].
  destruct (key_eqb k (c_pk c)); [eapply replace_value_ev; eauto|].
  destruct (is_prefix (c_pk c) k).
  - destruct (nth _ (c_kids c) None) as [ch|].
    + destruct (insert H true g v1 rt f m (Some ch) _ value) as [[m1 ch'] mutated] eqn:Er.
      apply IH in Er; auto. adv Er. clear Er.
      repeat brk E; fin E.
    + repeat brk E; fin E.
  - repeat brk E; fin E.
Qed.

Lemma delete_ev : forall fuel m p k m' p' flag,
  hwf m -> delete H g rt fd fuel m p k = (m', p', flag) -> ev m m'.
Proof.
  induction fuel as [|f IH]; intros m p k m' p' flag Hw E; cbn [delete] in E.
  { inversion E; subst. apply ev_refl; auto. }
  pose proof (ev_refl m Hw) as A.
  destruct p as [a|]; [|fin E].
  destruct (hp m a) as [c|] eqn:Ec; [|fin E].
  destruct (negb (c_isb c)); [repeat brk E; fin E|].
  destruct ((length k =? 0) || key_eqb (c_pk c) k); [repeat brk E; fin E|].
  destruct (cpl (c_pk c) k <? length (c_pk c)); [fin E|].
  match type of E with context [if ?b then _ else _] => destruct b end; [fin E|].
  match type of E with context [delete H g rt fd f m ?q ?kk] =>
    destruct (delete H g rt fd f m q kk) as [[m1 ch'] deleted] eqn:Er end.
  apply IH in Er; auto. adv Er. clear Er.
  repeat brk E; fin E.
Qed.

Lemma clear_prefix_ev : forall fuel m p prefix m' p' flag,
  hwf m -> clear_prefix_node H g rt fuel m p prefix = (m', p', flag) -> ev m m'.
Proof.
  induction fuel as [|f IH]; intros m p prefix m' p' flag Hw E; cbn [clear_prefix_node] in E.
  { inversion E; subst. apply ev_refl; auto. }
  pose proof (ev_refl m Hw) as A.
  destruct p as [a|]; [|fin E].
  destruct (hp m a) as [c|] eqn:Ec; [|fin E].
  destruct (is_prefix prefix (c_pk c)); [fin E|].
  destruct (negb (c_isb c)); [fin E|].
  match type of E with context [if ?b then _ else _] => destruct b end.
  { destruct (nth _ (c_kids c) None) as [ch|]; [|fin E]. repeat brk E; fin E. }
  match type of E with context [if ?b then _ else _] => destruct b end; [fin E|].
  match type of E with context [clear_prefix_node H g rt f m ?q ?kk] =>
    destruct (clear_prefix_node H g rt f m q kk) as [[m1 ch'] removed] eqn:Er end.
  apply IH in Er; auto. adv Er. clear Er.
  repeat brk E; fin E.
Qed.

Lemma dnl_loop_ev (rec : mem -> option addr -> N -> mem * option addr * N) a1 pk :
  (forall m p l m' p' d, hwf m -> rec m p l = (m', p', d) -> ev m m') ->
  forall n i m nilc limit vd m' p' d,
    hwf m -> owned m a1 ->
    dnl_loop H rt rec a1 pk n i m nilc limit vd = (m', p', d) -> ev m m'.
Proof.
  intros Hrec. induction n as [|n IH]; intros i m nilc limit vd m' p' d Hw O E;
    unfold dnl_loop in E; fold (dnl_loop H rt rec a1 pk) in E.
  { inversion E; subst. apply ev_refl; auto. }
  pose proof (ev_refl m Hw) as A.
  destruct (hp m a1) as [c|] eqn:Ec; [|fin E].
  destruct (nth i (c_kids c) None) as [ch|]; [|eapply IH; eauto].
  destruct (rec m (Some ch) limit) as [[m1 ch'] d1] eqn:Er.
  apply Hrec in Er; auto. adv Er. clear Er.
  destruct (d1 =? panic_mark)%N; [fin E|].
  match type of E with context [if ?b then _ else _] => destruct b end; [fin E|].
  match type of E with context [if ?b then _ else _] => destruct b end; [repeat brk E; fin E|].
  fwd1. eapply ev_trans; [exact A|]. eapply IH; [apply (ev_w _ _ A) | exact O | exact E].
Qed.

Lemma dnl_ev : forall fuel m p limit m' p' d,
  hwf m -> dnl H g rt fuel m p limit = (m', p', d) -> ev m m'.
Proof.
  induction fuel as [|f IH]; intros m p limit m' p' d Hw E; cbn [dnl] in E.
  { inversion E; subst. apply ev_refl; auto. }
  pose proof (ev_refl m Hw) as A.
  destruct (limit =? 0)%N; [fin E|].
  destruct p as [a|]; [|fin E].
  destruct (hp m a) as [c|] eqn:Ec; [|fin E].
  destruct (negb (c_isb c)); [fin E|].
  destruct (count_kids (c_kids c) =? 0); [fin E|].
  destruct (prep H g rt m a true) as [m1 a1] eqn:Ep.
  fwd1. eapply ev_trans; [exact A|].
  eapply (dnl_loop_ev (dnl H g rt f)); [exact IH | apply (ev_w _ _ A) | exact O | exact E].
Qed.

Lemma clear_limit_ev : forall fuel m p prefix limit m' p' vd alld,
  hwf m -> clear_limit_node H g rt fuel m p prefix limit = (m', p', vd, alld) -> ev m m'.
Proof.
  induction fuel as [|f IH]; intros m p prefix limit m' p' vd alld Hw E; cbn [clear_limit_node] in E.
  { inversion E; subst. apply ev_refl; auto. }
  pose proof (ev_refl m Hw) as A.
  destruct p as [a|]; [|fin E].
  destruct (hp m a) as [c|] eqn:Ec; [|fin E].
  destruct (negb (c_isb c)); [repeat brk E; fin E|].
  destruct (is_prefix prefix (c_pk c)).
  { destruct (dnl H g rt (cfuel m) m (Some a) limit) as [[m1 np] d] eqn:Er.
    apply dnl_ev in Er; auto. fin E. }
  match type of E with context [if ?b then _ else _] => destruct b end.
  { destruct (nth _ (c_kids c) None) as [ch|]; [|fin E].
    destruct (dnl H g rt (cfuel m) m (Some ch) limit) as [[m1 ch'] d] eqn:Er.
    apply dnl_ev in Er; auto. adv Er. clear Er.
    repeat brk E; fin E. }
  match type of E with context [if ?b then _ else _] => destruct b end; [fin E|].
  match type of E with context [clear_limit_node H g rt f m ?q ?kk limit] =>
    destruct (clear_limit_node H g rt f m q kk limit) as [[[m1 ch'] d] al] eqn:Er end.
  apply IH in Er; auto. adv Er. clear Er.
  repeat brk E; fin E.
Qed.

End Heap.

(* ====================================================================== Part B: trees *)
Lemma good_subt g t : forall s, good g t -> In s (subts t) -> good g s.
Proof.
  induction t using atree_ind'. rewrite oall_in in H. intros s Hg. rewrite in_subts.
  intros [->|(k & Hk & Hs)]; auto. eapply H; eauto. eapply good_kid in Hg; eauto.
Qed.

Inductive mop :=
| MPut (k v : list byte)
| MDel (k : list byte)
| MClear (p : list byte)
| MClearLimit (p : list byte) (limit : N).

Section Contract.
Variable H : list byte -> list byte.
Variable fd : bool.

Notation htree := (Inv.htree H).

(* one mutating operation on a handle (a ClearPrefixLimit that panics leaves the state as it is,
   as in Model.xexec) *)
Definition mexec (m : mem) (hd : handle) (o : mop) : mem * handle :=
  match o with
  | MPut k v => put_handle H true m hd k v
  | MDel k => del_handle H fd m hd k
  | MClear p => clear_handle H m hd p
  | MClearLimit p limit =>
    let '(m1, hd1, vd, _) := clear_limit_handle H m hd p limit in
    if (vd =? panic_mark)%N then (m, hd) else (m1, hd1)
  end.

Fixpoint mrun (ops : list mop) (m : mem) (hd : handle) : mem * handle :=
  match ops with
  | [] => (m, hd)
  | o :: r => let '(m1, hd1) := mexec m hd o in mrun r m1 hd1
  end.

(* ---------- heap level ---------- *)
Lemma mexec_ev m hd o m1 hd1 :
  hwf m -> mexec m hd o = (m1, hd1) -> ev (h_gen hd) m m1 /\ h_gen hd1 = h_gen hd.
Proof.
  intros Hw E. destruct o as [k v|k|p|p limit]; simpl in E.
  - unfold put_handle in E.
    destruct (insert H true (h_gen hd) (h_v1 hd) (h_root hd) _ m (h_root hd) _ v) as [[m2 a] mut] eqn:Ei.
    inversion E; subst. split; [|reflexivity]. eapply insert_ev; eauto.
  - unfold del_handle in E.
    destruct (delete H (h_gen hd) (h_root hd) fd _ m (h_root hd) _) as [[m2 r] fl] eqn:Ei.
    inversion E; subst. split; [|reflexivity]. eapply delete_ev; eauto.
  - unfold clear_handle in E. destruct p as [|b p].
    + inversion E; subst. split; [|reflexivity].
      destruct (h_root hd); [apply reg_ev; auto | apply ev_refl; auto].
    + destruct (clear_prefix_node H (h_gen hd) (h_root hd) _ m (h_root hd) _) as [[m2 r] fl] eqn:Ei.
      inversion E; subst. split; [|reflexivity]. eapply clear_prefix_ev; eauto.
  - unfold clear_limit_handle in E. destruct (limit =? 0)%N.
    + simpl in E. inversion E; subst. split; [apply ev_refl; auto | reflexivity].
    + destruct (clear_limit_node H (h_gen hd) (h_root hd) _ m (h_root hd) _ limit) as [[[m2 r] vd] al] eqn:Ei.
      destruct (vd =? panic_mark)%N; inversion E; subst; (split; [|reflexivity]).
      * apply ev_refl; auto.
      * eapply clear_limit_ev; eauto.
Qed.

(* ---------- tree level ---------- *)
Definition stepres (m : mem) (ot : option atree) (m1 : mem) (hd1 : handle) : Prop :=
  exists ot', hwf m1 /\ htree m1 hd1 ot'
    /\ (forall t' x, ot' = Some t' -> In x (addrs t') ->
                     (exists t, ot = Some t /\ In x (addrs t)) \/ (nx m <= x)%N).

Lemma stepres_same m hd ot : hwf m -> htree m hd ot -> stepres m ot m hd.
Proof. intros Hw Ht. exists ot. split; auto. split; auto. intros t' x -> Hx. left; eauto. Qed.

Lemma stepres_post m g v rt t m' t' :
  Spec.post H g rt m t m' t' -> stepres m (Some t) m' (mkH g (Some (aroot t')) v).
Proof.
  intros (R1 & R2 & R3 & R4 & Hw & Hle & F & P8 & _).
  exists (Some t'). split; auto. split.
  - apply htree_intro_some; auto.
  - intros t0 x E Hx. inversion E; subst t0. destruct (P8 x Hx); [left; eauto | right; auto].
Qed.

Lemma stepres_gone m g v rt t m' :
  Delete.gone H g rt m t m' -> stepres m (Some t) m' (mkH g None v).
Proof.
  intros (Hw & _). exists None. split; auto. split; [apply htree_intro_none; reflexivity|].
  intros t' x E; discriminate.
Qed.

Lemma stepres_result_o m hd t m1 p1 flag :
  hwf m -> htree m hd (Some t) ->
  Delete.result_o H (h_gen hd) (h_root hd) m t m1 p1 flag ->
  stepres m (Some t) m1 (mkH (h_gen hd) p1 (h_v1 hd)).
Proof.
  intros Hw Ht. destruct (htree_some H _ _ _ Ht) as (Er & _).
  intros [(-> & -> & ->)|(-> & [(-> & Hg)|(t' & -> & Hq)])].
  - rewrite <- Er, handle_eta. apply stepres_same; auto.
  - eapply stepres_gone; eauto.
  - eapply stepres_post; eauto.
Qed.

Lemma mexec_tree m hd ot o m1 hd1 :
  hwf m -> htree m hd ot -> mexec m hd o = (m1, hd1) -> stepres m ot m1 hd1.
Proof.
  intros Hw Ht E. destruct o as [k v|k|p|p limit]; simpl in E.
  - unfold put_handle in E. destruct ot as [t|].
    + destruct (htree_some H _ _ _ Ht) as (Er & _).
      pose proof (pre_of_htree H _ _ _ Hw Ht) as Hp. rewrite Er in Hp, E.
      destruct (insert H true (h_gen hd) (h_v1 hd) (Some (aroot t)) _ m (Some (aroot t)) _ v)
        as [[m2 a] mut] eqn:Ei.
      inversion E; subst m1 hd1. clear E.
      apply (insert_spec H (h_gen hd) (h_v1 hd) (Some (aroot t))) in Ei; auto.
      destruct Ei as [(-> & -> & ->)|(-> & t' & <- & Hq)].
      * rewrite <- Er, handle_eta. apply stepres_same; auto.
      * eapply stepres_post; eauto.
    + rewrite (htree_none H _ _ Ht) in E. cbn [insert] in E. rewrite alloc_eq in E.
      inversion E; subst m1 hd1. clear E.
      set (lf := new_leaf (h_gen hd) (h_v1 hd) (key_le_to_nibbles k) v).
      destruct (leaf_facts H (h_gen hd) (h_v1 hd) (hp (fst (alloc m lf))) (nx m) (key_le_to_nibbles k) v)
        as (L1 & L2 & L3 & L4 & L5).
      { unfold alloc; simpl. apply upd_eq. }
      exists (Some (leaf_tree (h_gen hd) (h_v1 hd) (nx m) (key_le_to_nibbles k) v)).
      split; [apply hwf_alloc; auto|]. split.
      * apply htree_intro_some; auto.
      * intros t' x E Hx. inversion E; subst t'. rewrite L5 in Hx. destruct Hx as [<-|[]]. right. lia.
  - unfold del_handle in E. destruct ot as [t|].
    + destruct (htree_some H _ _ _ Ht) as (Er & _).
      pose proof (pre_of_htree H _ _ _ Hw Ht) as Hp.
      destruct (delete H (h_gen hd) (h_root hd) fd _ m (h_root hd) _) as [[m2 r] flag] eqn:Ei.
      inversion E; subst m1 hd1. clear E.
      rewrite Er in Ei at 2. apply (delete_spec H (h_gen hd) (h_root hd) fd) in Ei; auto.
      eapply stepres_result_o; eauto.
    + rewrite (htree_none H _ _ Ht) in E. rewrite delete_none in E. inversion E; subst m1 hd1.
      pose proof (htree_none H _ _ Ht) as En. rewrite <- En, handle_eta. apply stepres_same; auto.
  - unfold clear_handle in E. destruct p as [|b p].
    + inversion E; subst m1 hd1. clear E. destruct ot as [t|].
      * destruct (htree_some H _ _ _ Ht) as (Er & _). rewrite Er.
        pose proof (pre_of_htree H _ _ _ Hw Ht) as Hp. rewrite Er in Hp.
        eapply stepres_gone. apply drop_spec; eauto.
      * pose proof (htree_none H _ _ Ht) as En. rewrite En. rewrite <- En, handle_eta.
        apply stepres_same; auto.
    + destruct ot as [t|].
      * destruct (htree_some H _ _ _ Ht) as (Er & _).
        pose proof (pre_of_htree H _ _ _ Hw Ht) as Hp.
        destruct (clear_prefix_node H (h_gen hd) (h_root hd) _ m (h_root hd) _) as [[m2 r] flag] eqn:Ei.
        inversion E; subst m1 hd1. clear E.
        rewrite Er in Ei at 2. apply (clear_prefix_spec H (h_gen hd) (h_root hd)) in Ei; auto.
        eapply stepres_result_o; eauto.
      * rewrite (htree_none H _ _ Ht) in E. rewrite clear_none in E. inversion E; subst m1 hd1.
        pose proof (htree_none H _ _ Ht) as En. rewrite <- En, handle_eta. apply stepres_same; auto.
  - unfold clear_limit_handle in E. destruct (N.eqb_spec limit 0) as [|Hlim].
    { simpl in E. inversion E; subst. apply stepres_same; auto. }
    destruct ot as [t|].
    + destruct (htree_some H _ _ _ Ht) as (Er & Hr & _).
      pose proof (pre_of_htree H _ _ _ Hw Ht) as Hp.
      assert (Hold : rt_old (h_root hd) m).
      { intros r E0. rewrite Er in E0. injection E0 as <-. eapply rep_bounded; eauto. apply aroot_in_addrs. }
      destruct (clear_limit_node H (h_gen hd) (h_root hd) _ m (h_root hd) _ limit) as [[[m2 r] vd] alld] eqn:Ei.
      rewrite Er in Ei at 2.
      apply (clear_limit_spec H (h_gen hd) (h_root hd)) in Ei; auto.
      destruct (N.eqb_spec vd panic_mark) as [Ep|Hnp].
      { inversion E; subst. apply stepres_same; auto. }
      inversion E; subst m1 hd1. clear E.
      destruct Ei as [->|[(-> & -> & ->)|(_ & Hout)]]; [congruence | |].
      * rewrite <- Er, handle_eta. apply stepres_same; auto.
      * destruct Hout as [(-> & Hg)|(T & -> & Hq)].
        -- eapply stepres_gone; eauto.
        -- eapply stepres_post; eauto.
    + rewrite (htree_none H _ _ Ht) in E. rewrite clear_limit_none in E. simpl in E.
      inversion E; subst m1 hd1.
      apply stepres_same; auto. apply htree_intro_none. reflexivity.
Qed.

(* ---------- a run of mutations, relative to its start ---------- *)
Definition reach (m0 : mem) (ot0 : option atree) (g : N) (m : mem) (hd : handle) : Prop :=
  h_gen hd = g /\ ev g m0 m
  /\ exists ot, htree m hd ot
       /\ (forall t x, ot = Some t -> In x (addrs t) ->
                       (exists t0, ot0 = Some t0 /\ In x (addrs t0)) \/ (nx m0 <= x)%N).

Lemma mrun_reach m0 ot0 g : forall ops m1 hd1 m hd,
  reach m0 ot0 g m1 hd1 -> mrun ops m1 hd1 = (m, hd) -> reach m0 ot0 g m hd.
Proof.
  induction ops as [|o ops IH]; intros m1 hd1 m hd R E; simpl in E.
  { inversion E; subst; auto. }
  destruct (mexec m1 hd1 o) as [m2 hd2] eqn:Eo.
  apply (IH m2 hd2); auto. clear IH E.
  destruct R as (Eg & A & ot1 & Ht1 & P1).
  pose proof (ev_w _ _ _ A) as Hw1.
  destruct (mexec_ev m1 hd1 o m2 hd2 Hw1 Eo) as (A2 & Eg2). rewrite Eg in A2.
  destruct (mexec_tree m1 hd1 ot1 o m2 hd2 Hw1 Ht1 Eo) as (ot2 & Hw2 & Ht2 & P2).
  split; [congruence|]. split; [eapply ev_trans; eauto|].
  exists ot2. split; auto. intros t x Et Hx.
  destruct (P2 t x Et Hx) as [(t1 & Et1 & Hx1)|Hn].
  - apply (P1 t1 x Et1 Hx1).
  - right. pose proof (ev_nx _ _ _ A). lia.
Qed.

(* ---------- the contract ---------- *)
Definition clean_at (h : heap) (a : addr) : Prop := exists c, h a = Some c /\ c_dirty c = false.
Definition dirty_at (h : heap) (a : addr) : Prop := exists c, h a = Some c /\ c_dirty c = true.

(* the handle's trie was persisted (all nodes clean) and the handle was obtained by Snapshot
   (no node of the handle's own generation yet) *)
Definition persisted (m0 : mem) (hd0 : handle) (ot0 : option atree) : Prop :=
  forall t0 x c, ot0 = Some t0 -> In x (addrs t0) -> hp m0 x = Some c ->
                 c_dirty c = false /\ c_gen c <> h_gen hd0.

Definition contract (m0 : mem) (ot0 : option atree) (g : N) (m : mem) (t : atree) : Prop :=
  (* a node is dirty iff it is of the handle's generation iff it was allocated since *)
  (forall x c, In x (addrs t) -> hp m x = Some c ->
               (c_dirty c = true <-> c_gen c = g) /\ (c_dirty c = true <-> (nx m0 <= x)%N))
  (* (1) dirty nodes are closed upwards *)
  /\ (forall s k, In s (subts t) -> In (Some k) (akids s) ->
                  dirty_at (hp m) (aroot k) -> dirty_at (hp m) (aroot s))
  (* (2) the subtree below a clean node is unchanged *)
  /\ (forall s, In s (subts t) -> clean_at (hp m) (aroot s) ->
        rep (hp m0) s
        /\ (exists t0, ot0 = Some t0 /\ In s (subts t0))
        /\ (forall x, In x (addrs s) -> clean_at (hp m0) x /\ clean_at (hp m) x)).

Lemma reach_contract m0 hd0 ot0 m hd :
  hwf m0 -> htree m0 hd0 ot0 -> persisted m0 hd0 ot0 ->
  reach m0 ot0 (h_gen hd0) m hd ->
  exists ot, htree m hd ot /\ forall t, ot = Some t -> contract m0 ot0 (h_gen hd0) m t.
Proof.
  intros Hw0 Ht0 Hper (Eg & A & ot & Ht & P).
  exists ot. split; auto. intros t ->.
  destruct (htree_some H _ _ _ Ht) as (Er & Hr & Hs & Hg & _). rewrite Eg in Hg.
  remember (h_gen hd0) as g eqn:Eg0 in *.
  (* classification of the nodes of t *)
  assert (Hcls : forall x c, In x (addrs t) -> hp m x = Some c ->
            ((exists t0, ot0 = Some t0 /\ In x (addrs t0)) /\ (x < nx m0)%N /\ c_dirty c = false /\ c_gen c <> g
             /\ exists c0, hp m0 x = Some c0 /\ samef c0 c /\ c_dirty c0 = false)
            \/ ((nx m0 <= x)%N /\ c_dirty c = true /\ c_gen c = g)).
  { intros x c Hx Hc. destruct (P t x eq_refl Hx) as [(t0 & Et0 & Hx0)|Hn].
    - left. subst ot0. destruct (htree_some H _ _ _ Ht0) as (_ & Hr0 & _).
      destruct (rep_in_cell _ _ _ Hr0 Hx0) as (c0 & Hc0).
      destruct (Hper t0 x c0 eq_refl Hx0 Hc0) as (D0 & G0). rewrite <- Eg0 in G0.
      destruct (ev_old _ _ _ A x c0 Hc0) as (c' & Hc' & G' & S' & _).
      rewrite Hc in Hc'. inversion Hc'; subst c'. destruct (S' G0) as (Sf & D').
      split; [eauto|]. split; [eapply rep_bounded; eauto|]. split; [congruence|]. split; [congruence|].
      exists c0. auto.
    - right. split; auto. destruct (ev_new _ _ _ A x c Hc) as (? & ?); auto. }
  assert (Hsub : forall s, In s (subts t) -> rep (hp m) s /\ good g s /\ forall x, In x (addrs s) -> In x (addrs t)).
  { intros s Hin. split; [eapply rep_subt; eauto|]. split; [eapply good_subt; eauto|].
    intros x Hx. eapply subts_addrs; eauto. }
  assert (Hgen : forall s, In s (subts t) -> exists c, hp m (aroot s) = Some c /\ c_gen c = agen s).
  { intros s Hin. destruct (Hsub s Hin) as (Hrs & _). destruct (rep_cell _ _ Hrs) as (c & Hc & Hci).
    exists c. split; auto. destruct s; unfold cell_is in Hci; simpl; tauto. }
  split; [|split].
  - intros x c Hx Hc. destruct (Hcls x c Hx Hc) as [(_ & Hlt & D & G & _)|(Hn & D & G)].
    + split; split; intros; try congruence; lia.
    + split; split; auto.
  - intros s k Hin Hk (ck & Hck & Dk).
    assert (Hkin : In k (subts t)) by (eapply subts_trans; eauto; apply subts_kid; auto).
    destruct (Hgen k Hkin) as (ck' & Hck' & Gk). rewrite Hck in Hck'. inversion Hck'; subst ck'.
    destruct (Hsub k Hkin) as (_ & _ & Hak).
    destruct (Hcls (aroot k) ck (Hak _ (aroot_in_addrs k)) Hck) as [(_ & _ & D & _)|(_ & _ & Gk')]; [congruence|].
    destruct (Hgen s Hin) as (cs & Hcs & Gs). destruct (Hsub s Hin) as (_ & Hgs & Has).
    exists cs. split; auto.
    destruct (Hcls (aroot s) cs (Has _ (aroot_in_addrs s)) Hcs) as [(_ & _ & _ & Gn & _)|(_ & D & _)]; auto.
    exfalso. apply good_unfold in Hgs. destruct Hgs as (_ & Ho & _).
    assert (Hne : agen s <> g) by congruence.
    specialize (Ho Hne k Hk). apply oldt_unfold in Ho. destruct Ho as (Hnk & _). congruence.
  - intros s Hin (cs & Hcs & Ds).
    destruct (Hgen s Hin) as (cs' & Hcs' & Gs). rewrite Hcs in Hcs'. inversion Hcs'; subst cs'.
    destruct (Hsub s Hin) as (Hrs & Hgs & Has).
    destruct (Hcls (aroot s) cs (Has _ (aroot_in_addrs s)) Hcs) as [((t0 & Et0 & Hx0) & _ & _ & Gn & _)|(_ & D & _)];
      [|congruence].
    assert (Hold : oldt g s) by (apply good_old_root; auto; congruence).
    (* every node below s is an old, clean, unchanged node *)
    assert (Hall : forall x, In x (addrs s) -> exists c c0, hp m x = Some c /\ c_dirty c = false
                     /\ hp m0 x = Some c0 /\ samef c0 c /\ c_dirty c0 = false).
    { intros x Hx. destruct (rep_in_cell _ _ _ Hrs Hx) as (c & Hc).
      destruct (Hcls x c (Has x Hx) Hc) as [(_ & _ & D & _ & c0 & Hc0 & Sf & D0)|(_ & _ & G)].
      - exists c, c0. auto.
      - exfalso. apply (oldt_not_own g s x Hold). apply (rep_own_gen _ _ g _ Hrs Hx). eauto. }
    assert (Hr0s : rep (hp m0) s).
    { eapply rep_frame; eauto. intros x Hx. destruct (Hall x Hx) as (c & c0 & Hc & _ & Hc0 & Sf & _).
      rewrite Hc, Hc0. simpl. apply samef_sym; auto. }
    split; [exact Hr0s|]. split.
    + exists t0. split; auto. subst ot0. destruct (htree_some H _ _ _ Ht0) as (_ & Hr0 & _).
      destruct (addrs_subt t0 (aroot s) Hx0) as (s0 & Hs0 & E0).
      rewrite (rep_subt_det (hp m0) t0 s0 s Hr0 Hs0 Hr0s (eq_sym E0)). auto.
    + intros x Hx. destruct (Hall x Hx) as (c & c0 & Hc & D & Hc0 & _ & D0).
      split; [exists c0 | exists c]; auto.
Qed.

(* The contract that C04's discipline theorem assumes of the mutation code, for every sequence of
   Put / Delete / ClearPrefix / ClearPrefixLimit on a handle over a persisted trie. *)
Theorem dirty_contract m0 hd0 ot0 ops m hd :
  hwf m0 -> htree m0 hd0 ot0 -> persisted m0 hd0 ot0 ->
  mrun ops m0 hd0 = (m, hd) ->
  h_gen hd = h_gen hd0
  /\ ev (h_gen hd0) m0 m
  /\ exists ot, htree m hd ot /\ forall t, ot = Some t -> contract m0 ot0 (h_gen hd0) m t.
Proof.
  intros Hw0 Ht0 Hper E.
  assert (R0 : reach m0 ot0 (h_gen hd0) m0 hd0).
  { split; auto. split; [apply ev_refl; auto|]. exists ot0. split; auto. intros t x -> Hx. left; eauto. }
  pose proof (mrun_reach m0 ot0 (h_gen hd0) ops m0 hd0 m hd R0 E) as R.
  split; [apply R|]. split; [apply R|]. eapply reach_contract; eauto.
Qed.

End Contract.

(* ====================================================================== Part C: histories *)
(* the operations as steps of a fork history on handle i *)
Definition xop (i : nat) (o : mop) : xstep :=
  match o with
  | MPut k v => Core (Put i k v)
  | MDel k => Core (Del i k)
  | MClear p => Core (Clear i p)
  | MClearLimit p limit => ClearLimit i p limit
  end.

(* a decidable sufficient condition for [persisted]: every cell of the heap is clean and of a
   generation other than g (e.g. right after WriteDirty and Snapshot of a single lineage) *)
Definition heap_persisted (m : mem) (g : N) : bool :=
  forallb (fun n => match hp m (N.of_nat n) with
                    | Some c => negb (c_dirty c) && negb (N.eqb (c_gen c) g)
                    | None => true
                    end) (seq 0 (N.to_nat (nx m))).

Section History.
Variable H : list byte -> list byte.
Variable fd : bool.

Notation htree := (Inv.htree H).
Notation xrun := (Model.xrun H true fd).
Notation xexec := (Model.xexec H true fd).

Lemma heap_persisted_ok m hd ot :
  hwf m -> heap_persisted m (h_gen hd) = true -> persisted m hd ot.
Proof.
  intros Hw Hp t0 x c _ _ Hc. unfold heap_persisted in Hp. rewrite forallb_forall in Hp.
  assert (Hlt : (x < nx m)%N).
  { destruct (N.lt_ge_cases x (nx m)); auto. rewrite Hw in Hc by auto. discriminate. }
  specialize (Hp (N.to_nat x)). rewrite N2Nat.id, Hc in Hp.
  assert (Hin : In (N.to_nat x) (seq 0 (N.to_nat (nx m)))) by (apply in_seq; lia).
  apply Hp in Hin. apply andb_true_iff in Hin. destruct Hin as (D & G).
  apply negb_true_iff in D. apply negb_true_iff in G. apply N.eqb_neq in G. auto.
Qed.

Lemma xexec_mexec st i hd o :
  nth_error (s_hs st) i = Some hd ->
  fst (fst (xexec st (xop i o)))
  = set_handle st i (snd (mexec H fd (s_mem st) hd o)) (fst (mexec H fd (s_mem st) hd o)).
Proof.
  intros Hi. destruct o as [k v|k|p|p limit]; simpl; rewrite Hi.
  - destruct (put_handle H true (s_mem st) hd k v); reflexivity.
  - destruct (del_handle H fd (s_mem st) hd k); reflexivity.
  - destruct (clear_handle H (s_mem st) hd p); reflexivity.
  - destruct (clear_limit_handle H (s_mem st) hd p limit) as [[[m1 hd1] vd] alld].
    destruct (vd =? panic_mark)%N; simpl; [|reflexivity].
    unfold set_handle. rewrite (set_nth_same _ _ _ Hi). destruct st; reflexivity.
Qed.

Lemma xrun_mrun i : forall ops st hd,
  nth_error (s_hs st) i = Some hd ->
  s_mem (xrun (map (xop i) ops) st) = fst (mrun H fd ops (s_mem st) hd)
  /\ nth_error (s_hs (xrun (map (xop i) ops) st)) i = Some (snd (mrun H fd ops (s_mem st) hd)).
Proof.
  induction ops as [|o ops IH]; intros st hd Hi; [simpl; auto|].
  change (xrun (map (xop i) (o :: ops)) st) with (xrun (map (xop i) ops) (fst (fst (xexec st (xop i o))))).
  rewrite (xexec_mexec st i hd o Hi). cbn [mrun].
  destruct (mexec H fd (s_mem st) hd o) as [m1 hd1]. cbn [fst snd].
  apply (IH (set_handle st i hd1 m1) hd1). simpl.
  apply nth_error_set_nth_eq. apply nth_error_Some. congruence.
Qed.

(* For every fork history hist0 and every handle i of the state it leads to, if the trie of
   handle i is persisted there, then after any sequence of mutations of handle i the Dirty-flag
   contract holds for the trie of handle i. *)
Theorem dirty_contract_history (fg : bool) hist0 i hd0 :
  xfrozen_parents hist0 = true ->
  let st0 := xrun hist0 init_state in
  nth_error (s_hs st0) i = Some hd0 ->
  exists ot0, htree (s_mem st0) hd0 ot0 /\
  forall ops, persisted (s_mem st0) hd0 ot0 ->
    let st := xrun (map (xop i) ops) st0 in
    exists hd ot,
      nth_error (s_hs st) i = Some hd /\ h_gen hd = h_gen hd0
      /\ ev (h_gen hd0) (s_mem st0) (s_mem st)
      /\ htree (s_mem st) hd ot
      /\ forall t, ot = Some t -> contract (s_mem st0) ot0 (h_gen hd0) (s_mem st) t.
Proof.
  intros Hfz st0 Hi.
  destruct (xrun_inv H fd fg hist0 init_state [] [None] (init_inv H) Hfz) as (ts & I).
  fold st0 in I.
  assert (Hts : exists ot0, nth_error ts i = Some ot0).
  { destruct (nth_error ts i) eqn:E; eauto.
    apply nth_error_None in E. apply nth_error_lt in Hi. rewrite (il _ _ _ _ I) in E. lia. }
  destruct Hts as (ot0 & Ti). exists ot0.
  pose proof (it _ _ _ _ I i hd0 ot0 Hi Ti) as Ht0. split; auto.
  intros ops Hper st.
  destruct (xrun_mrun i ops st0 hd0 Hi) as (Em & Eh). fold st in Em, Eh.
  destruct (mrun H fd ops (s_mem st0) hd0) as [m hd] eqn:Er. simpl in Em, Eh.
  destruct (dirty_contract H fd (s_mem st0) hd0 ot0 ops m hd (iw _ _ _ _ I) Ht0 Hper Er)
    as (Eg & A & ot & Ht & C).
  exists hd, ot. rewrite Em. auto.
Qed.

End History.

(* ====================================================================== non-vacuity *)
(* handle 0 stores two keys and is persisted (WriteDirty), handle 1 is its snapshot; handle 1 then
   overwrites one key and deletes an absent one.  The hypotheses of dirty_contract_history hold
   (heap_persisted implies persisted), and in the resulting trie of handle 1 the new root (cell 4)
   and the copied leaf (cell 3) are dirty and of generation 1 while the untouched leaf (cell 1),
   still a child of the new root, is clean and of generation 0. *)
Definition dc_hist0 : list xstep :=
  [Core (Put 0 [n2b 1] [n2b 7]); Core (Put 0 [n2b 16] [n2b 8]); Core (Commit 0); Core (Snap 0)].
Definition dc_ops : list mop := [MPut [n2b 1] [n2b 9]; MDel [n2b 48]].
Definition dc_info (s : state) (a : addr) : option (bool * N * option addr * option addr) :=
  option_map (fun c => (c_dirty c, c_gen c, nth 0 (c_kids c) None, nth 1 (c_kids c) None)) (hp (s_mem s) a).

Lemma dc_nonvacuous :
  let st0 := xrun blake2b_256 true true dc_hist0 init_state in
  let st := xrun blake2b_256 true true (map (xop 1) dc_ops) st0 in
  xfrozen_parents dc_hist0 = true
  /\ nth_error (s_hs st0) 1 = Some (mkH 1 (Some 2%N) false)
  /\ heap_persisted (s_mem st0) 1 = true
  /\ nth_error (s_hs st) 1 = Some (mkH 1 (Some 4%N) false)
  /\ dc_info st 4%N = Some (true, 1%N, Some 3%N, Some 1%N)
  /\ dc_info st 3%N = Some (true, 1%N, None, None)
  /\ dc_info st 1%N = Some (false, 0%N, None, None)
  /\ dc_info st0 1%N = Some (false, 0%N, None, None).
Proof. vm_compute. repeat split. Qed.
