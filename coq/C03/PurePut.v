(* C03/PurePut.v — what a handle shows IS the pure trie: for fork histories of Put, Snapshot,
   SetVersion, WriteDirty and Hash (no deletions), Entries() of every handle is exactly the ordered
   byte-keyed map obtained by replaying the Puts of the handle's lineage on the specification map of
   coq/Trie (bm_put), i.e. the heap operations compute the pure operations of properties C01/C02
   through any tree of snapshots.  Deletions/clears: see level_note (not proved). *)
From Common Require Import Bytes.
From Trie Require Import Nibbles Encode Node.
From Trie Require Model Spec NibblesProofs InsertProofs MapProofs QueryProofs.
From C03 Require Import Model Tree Cache Frame Ops Spec Insert Delete View Inv Mutate Main Erase InsertPure ViewPure.
From Coq Require Import Arith Lia.
Local Open Scope nat_scope.

(* the specification side: one ordered map per handle *)
Definition pexec (pm : list Spec.bmap) (s : step) : list Spec.bmap :=
  match s with
  | Snap i => match nth_error pm i with Some b => pm ++ [b] | None => pm end
  | Put i k v => match nth_error pm i with Some b => set_nth i (Spec.bm_put b k v) pm | None => pm end
  | _ => pm
  end.
Definition prun (hist : list step) : list Spec.bmap := fold_left pexec hist [[]].

Definition put_only (s : step) : bool :=
  match s with Del _ _ | Clear _ _ => false | _ => true end.

Definition PInv (ts : list (option atree)) (pm : list Spec.bmap) : Prop :=
  length pm = length ts
  /\ forall j ot b, nth_error ts j = Some ot -> nth_error pm j = Some b -> lwf_o ot /\ MapProofs.Rep (ero ot) b.

Lemma Rep_none_nil b : MapProofs.Rep None b -> b = [].
Proof. intros (_ & E). simpl in E. unfold Spec.kv_of_bmap in E. symmetry in E. now apply map_eq_nil in E. Qed.

Section PurePut.
Variable H : list byte -> list byte.
Variable fd : bool.

Notation Inv := (Inv.Inv H).
Notation htree := (Inv.htree H).
Notation exec := (Model.exec H true fd).
Notation run := (Model.run H true fd).

Lemma put_step_er st fr ts i hd ot k v :
  Inv st fr ts -> nth_error (s_hs st) i = Some hd -> nth_error ts i = Some ot -> ~ In i fr -> lwf_o ot ->
  let '(m1, hd1) := put_handle H true (s_mem st) hd k v in
  exists ot', Inv (set_handle st i hd1 m1) fr (set_nth i ot' ts) /\ lwf_o ot'
              /\ ero ot' = Some (Trie.Model.insert_opt (ero ot) (key_le_to_nibbles k) v).
Proof.
  intros I Hi Ti Hfr Hl. pose proof (iw _ _ _ _ I) as Hw. pose proof (it _ _ _ _ I i hd ot Hi Ti) as Ht.
  unfold put_handle. destruct ot as [t|].
  - destruct (htree_some H _ _ _ Ht) as (Er & _). rewrite Er.
    pose proof (pre_of_htree H _ _ _ Hw Ht) as Hp. rewrite Er in Hp.
    destruct (insert H true (h_gen hd) (h_v1 hd) (Some (aroot t)) _ (s_mem st) (Some (aroot t)) _ v)
      as [[m1 a] mut] eqn:E.
    apply (insert_spec_er H (h_gen hd) (h_v1 hd) (Some (aroot t))) in E; auto.
    destruct E as [(-> & -> & -> & Esame)|(-> & t' & <- & Hq & Et' & Hl')].
    + exists (Some t). rewrite <- Er, handle_eta. unfold set_handle.
      rewrite (set_nth_same _ _ _ Hi), (set_nth_same _ _ _ Ti). split; [destruct st; exact I|].
      split; auto. simpl. now rewrite Esame.
    + exists (Some t'). split; [|split; auto].
      * change (Some (aroot t')) with (oroot (Some t')). eapply mutate_inv; eauto.
        rewrite Er. apply post_outcome; auto.
      * simpl. now rewrite Et'.
  - rewrite (htree_none H _ _ Ht). cbn [insert]. rewrite alloc_eq.
    set (lf := new_leaf (h_gen hd) (h_v1 hd) (key_le_to_nibbles k) v).
    exists (Some (leaf_tree (h_gen hd) (h_v1 hd) (nx (s_mem st)) (key_le_to_nibbles k) v)).
    split; [|split; [apply lwf_leaf_tree | reflexivity]].
    change (Some (nx (s_mem st))) with (oroot (Some (leaf_tree (h_gen hd) (h_v1 hd) (nx (s_mem st)) (key_le_to_nibbles k) v))).
    eapply mutate_inv; eauto.
    destruct (leaf_facts H (h_gen hd) (h_v1 hd) (hp (fst (alloc (s_mem st) lf))) (nx (s_mem st)) (key_le_to_nibbles k) v)
      as (L1 & L2 & L3 & L4 & L5).
    { unfold alloc; simpl. apply upd_eq. }
    split; [apply hwf_alloc; auto|]. split; [unfold alloc; simpl; lia|].
    split. { intros x Hx. apply alloc_old; auto. }
    intros t' E. inversion E; subst t'. split; [exact L1|]. split; [exact L2|]. split; [exact L3|]. split; [apply L4|].
    rewrite L5. split. { intros x [<-|[]]. right. lia. }
    split. { intros x [<-|[]] Hne. simpl in Hne. congruence. }
    right. simpl. lia.
Qed.

Lemma freeze_more st fr ts i : Inv st fr ts -> Inv st (i :: fr) ts.
Proof.
  intros I. constructor; try apply I.
  intros a b hd t t' Hab Hfr. apply (i2 _ _ _ _ I a b hd t t' Hab). intros Hin. apply Hfr. simpl; auto.
Qed.

Lemma nth_error_app_last {A} (l : list A) x j y :
  nth_error (l ++ [x]) j = Some y -> (j < length l /\ nth_error l j = Some y) \/ (j = length l /\ y = x).
Proof.
  intros E. destruct (Nat.lt_ge_cases j (length l)).
  - rewrite nth_error_app1 in E by lia. auto.
  - rewrite nth_error_app2 in E by lia. right. destruct (j - length l) as [|d] eqn:Ed; simpl in E.
    + inversion E. split; auto. lia.
    + destruct d; discriminate.
Qed.

Lemma pexec_inv st fr ts pm s :
  Inv st fr ts -> PInv ts pm -> allowed s fr -> put_only s = true ->
  exists ts', Inv (fst (exec st s)) (frozen_after s fr) ts' /\ PInv ts' (pexec pm s).
Proof.
  intros I (Plen & P) Hal Hpo.
  assert (Hlen : length ts = length (s_hs st)) by apply (il _ _ _ _ I).
  assert (Hts : forall i hd, nth_error (s_hs st) i = Some hd -> exists ot b, nth_error ts i = Some ot /\ nth_error pm i = Some b).
  { intros i hd Hi. apply nth_error_lt in Hi.
    destruct (nth_error ts i) as [ot|] eqn:E1; [|apply nth_error_None in E1; lia].
    destruct (nth_error pm i) as [b|] eqn:E2; [|apply nth_error_None in E2; lia]. eauto. }
  assert (Hnone : forall i, nth_error (s_hs st) i = None -> nth_error pm i = None).
  { intros i Hi. apply nth_error_None in Hi. apply nth_error_None. lia. }
  destruct s as [i|i k v|i k|i p|i v|i|i]; simpl in Hpo; try discriminate; simpl exec; cbn [pexec frozen_after].
  - (* Snapshot *)
    destruct (nth_error (s_hs st) i) as [hd|] eqn:Hi.
    + destruct (Hts i hd Hi) as (ot & b & Ti & Bi). rewrite Bi. simpl.
      exists (ts ++ [ot]). split; [apply snap_inv; auto|]. split; [rewrite !app_length; simpl; lia|].
      intros j o c Tj Bj.
      destruct (nth_error_app_last _ _ _ _ Tj) as [(Hj & Tj0)|(Ej & ->)];
        destruct (nth_error_app_last _ _ _ _ Bj) as [(Hj' & Bj0)|(Ej' & ->)]; try lia; eauto.
    + rewrite (Hnone i Hi). simpl. exists ts. split; [apply freeze_more; auto|]. split; auto.
  - (* Put *)
    destruct (nth_error (s_hs st) i) as [hd|] eqn:Hi.
    + destruct (Hts i hd Hi) as (ot & b & Ti & Bi). rewrite Bi.
      destruct (P i ot b Ti Bi) as (Hl & R).
      pose proof (put_step_er st fr ts i hd ot k v I Hi Ti (Hal i eq_refl) Hl) as Hs.
      destruct (put_handle H true (s_mem st) hd k v) as [m1 hd1]. simpl.
      destruct Hs as (ot' & I' & Hl' & Eo).
      exists (set_nth i ot' ts). split; [exact I'|]. split; [rewrite !set_nth_length; auto|].
      intros j o c Tj Bj. destruct (Nat.eq_dec i j) as [<-|Hne].
      * rewrite nth_error_set_nth_eq in Tj by (apply nth_error_lt in Ti; auto).
        rewrite nth_error_set_nth_eq in Bj by (apply nth_error_lt in Bi; auto).
        inversion Tj; inversion Bj; subst. split; auto. rewrite Eo.
        change (Some (Trie.Model.insert_opt (ero ot) (key_le_to_nibbles k) v)) with (Trie.Model.trie_put (ero ot) k v).
        apply MapProofs.Rep_put; auto.
      * rewrite nth_error_set_nth_neq in Tj by auto. rewrite nth_error_set_nth_neq in Bj by auto. eauto.
    + rewrite (Hnone i Hi). simpl. exists ts. split; [exact I | split; auto].
  - (* SetVersion *)
    destruct (nth_error (s_hs st) i) as [hd|] eqn:Hi; [|simpl; exists ts; split; [exact I | split; auto]].
    destruct (h_v1 hd && negb v); simpl; [exists ts; split; [exact I | split; auto]|].
    exists ts. split; [apply setver_inv; auto | split; auto].
  - (* WriteDirty *)
    destruct (nth_error (s_hs st) i) as [hd|] eqn:Hi; simpl; [|exists ts; split; [exact I | split; auto]].
    exists ts. split; [apply commit_inv with (j := i); auto | split; auto].
  - (* Hash *)
    destruct (nth_error (s_hs st) i) as [hd|] eqn:Hi; simpl; [|exists ts; split; [exact I | split; auto]].
    exists ts. split; [apply hash_inv with (j := i); auto | split; auto].
Qed.

Lemma prun_inv : forall hist st fr ts pm,
  Inv st fr ts -> PInv ts pm -> frozen_ok fr hist = true -> forallb put_only hist = true ->
  exists ts', Inv (run hist st) (frozen_after_all hist fr) ts' /\ PInv ts' (fold_left pexec hist pm).
Proof.
  induction hist as [|s hist IH]; intros st fr ts pm I P E Hpo; simpl.
  - eauto.
  - destruct (frozen_ok_cons _ _ _ E) as (Hal & E'). simpl in Hpo. apply andb_prop in Hpo. destruct Hpo as (Hs & Hr).
    destruct (pexec_inv st fr ts pm s I P Hal Hs) as (ts1 & I1 & P1).
    apply (IH _ _ _ _ I1 P1 E' Hr).
Qed.

(* Entries() of every handle of a deletion-free fork history is the ordered map of its lineage *)
Theorem put_pure : forall hist,
  frozen_parents hist = true -> forallb put_only hist = true ->
  forall j b, nth_error (prun hist) j = Some b ->
  exists h, Model.view H true (run hist init_state) j = Some (h, b).
Proof.
  intros hist Hfz Hpo j b Bj. unfold frozen_parents in Hfz.
  assert (P0 : PInv [None] [[]]).
  { split; auto. intros [|[|?]] ot c T B; simpl in *; try discriminate. inversion T; inversion B; subst.
    split; [exact I | apply MapProofs.Rep_empty]. }
  destruct (prun_inv hist init_state [] [None] [[]] (init_inv H) P0 Hfz Hpo) as (ts & I & (Plen & P)).
  fold (prun hist) in Plen, P.
  assert (Hj : j < length ts) by (apply nth_error_lt in Bj; lia).
  destruct (nth_error ts j) as [ot|] eqn:Tj; [|apply nth_error_None in Tj; lia].
  destruct (nth_error (s_hs (run hist init_state)) j) as [hd|] eqn:Hh.
  2:{ apply nth_error_None in Hh. rewrite <- (il _ _ _ _ I) in Hh. lia. }
  pose proof (it _ _ _ _ I j hd ot Hh Tj) as Ht. pose proof (iw _ _ _ _ I) as Hw.
  destruct (P j ot b Tj Bj) as (Hl & R).
  unfold Model.view. rewrite Hh. eexists. f_equal. f_equal.
  destruct ot as [t|].
  - destruct (htree_some H _ _ _ Ht) as (Er & Hr & Hs & _).
    apply (entries_map (s_mem (run hist init_state)) hd t b); auto.
  - simpl in R. apply Rep_none_nil in R. subst b.
    unfold entries_handle. rewrite (htree_none H _ _ Ht). rewrite node_keys_none. reflexivity.
Qed.

End PurePut.
