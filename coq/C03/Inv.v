(* C03/Inv.v — the global invariant over all live handles (appendix A.2 of DESIGN.md) and its
   preservation by cache-filling steps (Hash, WriteDirty), Snapshot and SetVersion. *)
From Common Require Import Bytes.
From Trie Require Import Nibbles Encode.
From C03 Require Import Model Tree Cache Frame Ops Spec Insert Delete View.
From Coq Require Import Arith Lia.
Local Open Scope nat_scope.

Lemma nth_error_set_nth_eq {A} i (v : A) l : i < length l -> nth_error (set_nth i v l) i = Some v.
Proof. revert i; induction l; destruct i; simpl; intros; try lia; auto. apply IHl. lia. Qed.
Lemma nth_error_set_nth_neq {A} i j (v : A) l : i <> j -> nth_error (set_nth i v l) j = nth_error l j.
Proof. revert i j; induction l; destruct i, j; simpl; intros; try congruence; auto. Qed.
Lemma nth_error_lt {A} (l : list A) i x : nth_error l i = Some x -> i < length l.
Proof. intros E. apply nth_error_Some. congruence. Qed.

Section Inv.
Variable H : list byte -> list byte.

Notation cache_ok := (Cache.cache_ok H).

(* the tree seen through a handle *)
Definition htree (m : mem) (hd : handle) (ot : option atree) : Prop :=
  rep_o (hp m) (h_root hd) ot
  /\ forall t, ot = Some t -> sep t /\ good (h_gen hd) t /\ cache_ok true (hp m) t.

Lemma htree_some m hd t :
  htree m hd (Some t) ->
  h_root hd = Some (aroot t) /\ rep (hp m) t /\ sep t /\ good (h_gen hd) t /\ cache_ok true (hp m) t.
Proof.
  intros (Hr & Hf). destruct (Hf t eq_refl) as (? & ? & ?).
  destruct (h_root hd); simpl in Hr; [|tauto]. destruct Hr as (? & <-). repeat split; auto.
Qed.

Lemma htree_none m hd : htree m hd None -> h_root hd = None.
Proof. intros (Hr & _). destruct (h_root hd); simpl in Hr; tauto. Qed.

Lemma htree_intro_some m hd t :
  h_root hd = Some (aroot t) -> rep (hp m) t -> sep t -> good (h_gen hd) t -> cache_ok true (hp m) t ->
  htree m hd (Some t).
Proof. intros E ? ? ? ?. split; [rewrite E; simpl; auto|]. intros t0 E0. inversion E0; subst. auto. Qed.

Lemma htree_intro_none m hd : h_root hd = None -> htree m hd None.
Proof. intros E. split; [rewrite E; simpl; auto|]. intros t0 E0. discriminate. Qed.

(* fr: the handles a snapshot was taken from (they are not mutated any more) *)
Record Inv (st : state) (fr : list nat) (ts : list (option atree)) : Prop := {
  iw : hwf (s_mem st);
  il : length ts = length (s_hs st);
  it : forall i hd ot, nth_error (s_hs st) i = Some hd -> nth_error ts i = Some ot ->
                       htree (s_mem st) hd ot;
  (* I2: the cells a mutable handle may rewrite in place are reachable from no other handle *)
  i2 : forall i j hd t t', i <> j -> ~ In i fr -> nth_error (s_hs st) i = Some hd ->
         nth_error ts i = Some (Some t) -> nth_error ts j = Some (Some t') ->
         forall x, In x (own (h_gen hd) t) -> ~ In x (addrs t');
  (* the root of a handle is an inner node of no handle *)
  ij : forall i j t t', nth_error ts i = Some (Some t) -> nth_error ts j = Some (Some t') ->
         In (aroot t') (addrs t) -> aroot t' = aroot t
}.

Lemma init_inv : Inv init_state [] [None].
Proof.
  constructor.
  - intros x _. reflexivity.
  - reflexivity.
  - intros i hd ot E1 E2. destruct i as [|i]; simpl in *; [|destruct i; discriminate].
    inversion E1; inversion E2; subst. split; simpl; auto. intros t E; discriminate.
  - intros i j hd t t' _ _ _ E. destruct i as [|[|i]]; simpl in E; discriminate.
  - intros i j t t' E. destruct i as [|[|i]]; simpl in E; discriminate.
Qed.

(* ---------- steps that only fill caches ---------- *)
Lemma fills_inv st fr ts j hd t h' :
  Inv st fr ts -> nth_error (s_hs st) j = Some hd -> nth_error ts j = Some (Some t) ->
  fillsP H (sub_of t) (only t true) (hp (s_mem st)) h' ->
  Inv (mkSt (mkMem h' (nx (s_mem st))) (s_hs st)) fr ts.
Proof.
  intros I Hj Tj F. destruct (htree_some _ _ _ (it _ _ _ I j hd (Some t) Hj Tj)) as (_ & Hrt & _).
  constructor; simpl.
  - intros x Hx. specialize (F x). rewrite (iw _ _ _ I) in F by auto. auto.
  - apply (il _ _ _ I).
  - intros i hd0 ot Hi Ti. pose proof (it _ _ _ I i hd0 ot Hi Ti) as Ht0. destruct ot as [t0|].
    + destruct (htree_some _ _ _ Ht0) as (Er & Hr & Hs & Hg & Hc).
      apply htree_intro_some; auto.
      * eapply fillsP_rep; eauto.
      * eapply fillsP_cache_ok; eauto.
        -- intros s [Hs0|[_ ->]]; auto. exact (rep_subt _ _ _ Hrt Hs0).
        -- intros r [_ ->] Hin. split; auto. symmetry. apply (ij _ _ _ I i j t0 t Ti Tj Hin).
    + apply htree_intro_none. apply (htree_none _ _ Ht0).
  - apply (i2 _ _ _ I).
  - apply (ij _ _ _ I).
Qed.

Lemma hash_inv st fr ts j hd :
  Inv st fr ts -> nth_error (s_hs st) j = Some hd ->
  Inv (mkSt (fst (hash_handle H (s_mem st) hd)) (s_hs st)) fr ts.
Proof.
  intros I Hj. destruct (nth_error ts j) as [ot|] eqn:Tj.
  2:{ apply nth_error_None in Tj. apply nth_error_lt in Hj. rewrite (il _ _ _ I) in Tj. lia. }
  pose proof (it _ _ _ I j hd ot Hj Tj) as Ht0.
  unfold hash_handle. destruct ot as [t|].
  - destruct (htree_some _ _ _ Ht0) as (Er & Hr & Hs & Hg & Hc). rewrite Er.
    destruct (mvcalc_spec H (cfuel (s_mem st)) true true (hp (s_mem st)) t) as (h1 & E & F & _); auto.
    { apply depth_fuel; auto. apply (iw _ _ _ I). }
    rewrite E. simpl. eapply fills_inv; eauto.
  - rewrite (htree_none _ _ Ht0). simpl. destruct st as [[h n] hs]; exact I.
Qed.

Lemma commit_inv st fr ts j hd :
  Inv st fr ts -> nth_error (s_hs st) j = Some hd ->
  Inv (mkSt (commit_handle H (s_mem st) hd) (s_hs st)) fr ts.
Proof.
  intros I Hj. destruct (nth_error ts j) as [ot|] eqn:Tj.
  2:{ apply nth_error_None in Tj. apply nth_error_lt in Hj. rewrite (il _ _ _ I) in Tj. lia. }
  pose proof (it _ _ _ I j hd ot Hj Tj) as Ht0.
  unfold commit_handle. destruct ot as [t|].
  - destruct (htree_some _ _ _ Ht0) as (Er & Hr & Hs & Hg & Hc). rewrite Er.
    eapply fills_inv; eauto. apply commit_node_spec; auto.
    apply depth_fuel; auto. apply (iw _ _ _ I).
  - rewrite (htree_none _ _ Ht0). destruct st as [[h n] hs]; exact I.
Qed.

(* ---------- SetVersion ---------- *)
Lemma setver_inv st fr ts i hd v :
  Inv st fr ts -> nth_error (s_hs st) i = Some hd ->
  Inv (mkSt (s_mem st) (set_nth i (mkH (h_gen hd) (h_root hd) v) (s_hs st))) fr ts.
Proof.
  intros I Hi. pose proof (nth_error_lt _ _ _ Hi) as Hlt.
  assert (Hsame : forall j hd', nth_error (set_nth i (mkH (h_gen hd) (h_root hd) v) (s_hs st)) j = Some hd' ->
                   exists hd0, nth_error (s_hs st) j = Some hd0 /\ h_gen hd0 = h_gen hd' /\ h_root hd0 = h_root hd').
  { intros j hd' E. destruct (Nat.eq_dec i j) as [<-|Hne].
    - rewrite nth_error_set_nth_eq in E by auto. inversion E; subst. exists hd. auto.
    - rewrite nth_error_set_nth_neq in E by auto. exists hd'. auto. }
  constructor; simpl.
  - apply (iw _ _ _ I).
  - rewrite set_nth_length. apply (il _ _ _ I).
  - intros j hd' ot E T. destruct (Hsame j hd' E) as (hd0 & E0 & Eg & Er).
    destruct (it _ _ _ I j hd0 ot E0 T) as (Hr & Hf). unfold htree. rewrite <- Eg, <- Er. split; auto.
  - intros a b hd' t t' Hab Hfr E Ta Tb. destruct (Hsame a hd' E) as (hd0 & E0 & Eg & Er).
    rewrite <- Eg. apply (i2 _ _ _ I a b hd0 t t'); auto.
  - apply (ij _ _ _ I).
Qed.

(* ---------- Snapshot ---------- *)
Lemma snap_inv st fr ts i hd ot :
  Inv st fr ts -> nth_error (s_hs st) i = Some hd -> nth_error ts i = Some ot ->
  Inv (mkSt (s_mem st) (s_hs st ++ [mkH (N.succ (h_gen hd)) (h_root hd) (h_v1 hd)])) (i :: fr) (ts ++ [ot]).
Proof.
  intros I Hi Ti. pose proof (nth_error_lt _ _ _ Hi) as Hlt. pose proof (il _ _ _ I) as Hlen.
  remember (length (s_hs st)) as n eqn:En.
  assert (Hh : forall j hd', nth_error (s_hs st ++ [mkH (N.succ (h_gen hd)) (h_root hd) (h_v1 hd)]) j = Some hd' ->
                (j < n /\ nth_error (s_hs st) j = Some hd') \/ (j = n /\ hd' = mkH (N.succ (h_gen hd)) (h_root hd) (h_v1 hd))).
  { intros j hd' E. destruct (Nat.lt_ge_cases j n).
    - rewrite nth_error_app1 in E by lia. auto.
    - rewrite nth_error_app2 in E by lia. right. rewrite <- En in E. destruct (j - n) as [|d] eqn:Ed; simpl in E.
      + inversion E. split; auto. lia.
      + destruct d; discriminate. }
  assert (Ht : forall j o, nth_error (ts ++ [ot]) j = Some o ->
                (j < n /\ nth_error ts j = Some o) \/ (j = n /\ o = ot)).
  { intros j o E. destruct (Nat.lt_ge_cases j n).
    - rewrite nth_error_app1 in E by lia. auto.
    - rewrite nth_error_app2 in E by lia. right. rewrite Hlen in E. destruct (j - n) as [|d] eqn:Ed; simpl in E.
      + inversion E. split; auto. lia.
      + destruct d; discriminate. }
  (* the tree of any index, old or new, is the tree of an old index *)
  assert (Hold : forall j o, nth_error (ts ++ [ot]) j = Some o ->
                  exists j0, j0 < n /\ nth_error ts j0 = Some o /\ (j < n -> j0 = j) /\ (j = n -> j0 = i)).
  { intros j o E. destruct (Ht j o E) as [(? & ?)|(-> & ->)].
    - exists j. repeat split; auto. lia.
    - exists i. repeat split; auto; lia. }
  constructor; simpl.
  - apply (iw _ _ _ I).
  - rewrite !app_length. simpl. lia.
  - intros j hd' o E T. destruct (Hh j hd' E) as [(Hj & E0)|(-> & ->)].
    + destruct (Ht j o T) as [(_ & T0)|(? & _)]; [|lia]. apply (it _ _ _ I j hd' o E0 T0).
    + destruct (Ht n o T) as [(? & _)|(_ & ->)]; [lia|].
      pose proof (it _ _ _ I i hd ot Hi Ti) as Ht0. destruct ot as [t|].
      * destruct (htree_some _ _ _ Ht0) as (Er & Hr & Hs & Hg & Hc).
        apply htree_intro_some; auto. simpl. apply below_good. apply good_below_succ; auto.
      * apply htree_intro_none. simpl. apply (htree_none _ _ Ht0).
  - intros a b hd' t t' Hab Hfr E Ta Tb x Hx.
    assert (Hai : a <> i) by (intros ->; apply Hfr; simpl; auto).
    assert (Hfr' : ~ In a fr) by (intros ?; apply Hfr; simpl; auto).
    destruct (Hh a hd' E) as [(Ha & E0)|(-> & ->)].
    + destruct (Ht a _ Ta) as [(_ & Ta0)|(? & _)]; [|lia].
      destruct (Hold b _ Tb) as (b0 & Hb0 & Tb0 & Hb1 & Hb2).
      assert (a <> b0).
      { intros <-. destruct (Nat.lt_ge_cases b n) as [Hb|Hb].
        - apply Hab. apply Hb1; auto.
        - destruct (Ht b _ Tb) as [(? & _)|(-> & _)]; [lia|]. apply Hai. apply Hb2; auto. }
      apply (i2 _ _ _ I a b0 hd' t t'); auto.
    + (* the new handle owns nothing yet *)
      destruct (Ht n _ Ta) as [(? & _)|(_ & Eo)]; [lia|]. subst ot.
      destruct (htree_some _ _ _ (it _ _ _ I i hd _ Hi Ti)) as (_ & _ & _ & Hg & _).
      simpl in Hx. rewrite (below_oldt _ _ (good_below_succ _ _ Hg)) in Hx. destruct Hx.
  - intros a b t t' Ta Tb.
    destruct (Hold a _ Ta) as (a0 & _ & Ta0 & _). destruct (Hold b _ Tb) as (b0 & _ & Tb0 & _).
    apply (ij _ _ _ I a0 b0 t t'); auto.
Qed.

End Inv.
