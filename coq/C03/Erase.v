(* C03/Erase.v — from addressed heap trees to the pure trie of coq/Trie (Trie/Node.v): [er] forgets
   addresses, generations and MustBeHashed; [lwf]: every leaf holds a value (what Trie.Node.Leaf
   requires).  Basic equations. *)
From Common Require Import Bytes.
From Trie Require Import Nibbles Encode Node.
From Trie Require Model.
From C03 Require Import Model Tree.
From Coq Require Import Arith Lia.
Local Open Scope nat_scope.

Fixpoint er (t : atree) : tnode :=
  match t with
  | AN _ pk sv _ _ isb ks =>
    if isb then
      Branch pk sv ((fix go (l : list (option atree)) : list (option tnode) :=
                       match l with
                       | [] => []
                       | None :: r => None :: go r
                       | Some k :: r => Some (er k) :: go r
                       end) ks)
    else Leaf pk (match sv with Some v => v | None => [] end)
  end.
Definition ero (o : option atree) : option tnode := option_map er o.

Lemma er_unfold a pk sv mbh gn isb ks :
  er (AN a pk sv mbh gn isb ks)
  = if isb then Branch pk sv (map ero ks) else Leaf pk (match sv with Some v => v | None => [] end).
Proof.
  simpl. destruct isb; auto. f_equal. induction ks as [|[k|] ks IH]; simpl; auto; now rewrite IH.
Qed.

(* [lwf f t]: every leaf holds a value, the MustBeHashed flag b of every node with a value v
   satisfies f v b (f = fl_any: no constraint; f = fl_ver v1: the flag the version demands), every
   branch has its 16 child slots and a leaf has none *)
Definition fl_any : value -> bool -> Prop := fun _ _ => True.
Definition fl_ver (v1 : bool) : value -> bool -> Prop := fun v b => b = must_hash v1 v.
Fixpoint lwf (f : value -> bool -> Prop) (t : atree) : Prop :=
  match t with
  | AN _ _ sv mbh _ isb ks =>
    (isb = false -> sv <> None) /\ (forall v, sv = Some v -> f v mbh) /\ length ks = (if isb then 16 else 0)
    /\ oall (lwf f) ks
  end.
Lemma lwf_unfold f a pk sv mbh gn isb ks :
  lwf f (AN a pk sv mbh gn isb ks) <->
  (isb = false -> sv <> None) /\ (forall v, sv = Some v -> f v mbh) /\ length ks = (if isb then 16 else 0)
  /\ forall k, In (Some k) ks -> lwf f k.
Proof. simpl. now rewrite oall_in. Qed.
Definition lwf_o (f : value -> bool -> Prop) (o : option atree) : Prop := match o with Some t => lwf f t | None => True end.

Lemma lwf_kid f t k : lwf f t -> In (Some k) (akids t) -> lwf f k.
Proof. destruct t. rewrite lwf_unfold. simpl. intros (_ & _ & _ & Hk); auto. Qed.

(* ---------- children lists ---------- *)
Lemma map_ero_set_nth i v l : map ero (set_nth i v l) = set_child (map ero l) i (ero v).
Proof. revert i. induction l as [|x l IH]; intros [|i]; simpl; auto. now rewrite IH. Qed.

Lemma map_ero_no_kids : map ero (repeat None 16) = no_children.
Proof. reflexivity. Qed.

Lemma nth_map_ero ks i : nth i (map ero ks) None = ero (nth i ks None).
Proof. change None with (ero None) at 1. apply map_nth. Qed.

Lemma set_child_same cs i c : nth i cs None = Some c -> set_child cs i (Some c) = cs.
Proof. revert i. induction cs as [|x cs IH]; intros [|i] E; simpl in *; try discriminate; [now subst | now rewrite IH]. Qed.
